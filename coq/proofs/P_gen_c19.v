(** The generated definitions of gen/Gen_c19.v (re-translated from eqsig/surface.py and eqsig/fns/time_shift.py on every run
    by translator/py2coq_c19.py) are the hand-written model of model/M_surface.v, for ALL inputs and for every [NumOps]
    instance (so for the Q run of the correspondence and for the R theorems alike).

    No arithmetic law of the numbers is used anywhere: the equalities are unfolding, list identities ([map_map], [map2] as a
    tabulation, [firstn] / [skipn] / [repeat]) and linear integer arithmetic on the python ints (slice bounds, row widths).
    The readings of lib/NpSurf.v coincide with the model's helpers by conversion ([py_int] = [ntrunc], [zv_max] = [zmax],
    [np_interp_arange0] = [interp_grid0]).

    Guards (stated, not totalised; NumPy raises outside them):
      - the padding width int(max(2 tt / dt)) is >= 0                                  (np.pad rejects a negative width)
      - the array reductions have one entry per travel time                           (otherwise the rows do not broadcast)
      - trim_to_length gets one row per travel time, and with trim and start every row start int(stt/dt) - int(tt_j/dt)
        is <= npts                                                                    (otherwise the slice store raises)
      - join_values_w_shifts: no guard is needed for the equality with the model (both sides truncate alike). *)
From Coq Require Import ZArith Bool String List Lia.
From EQ Require Import lib.Num lib.NpList lib.NpSurf model.M_im model.M_surface gen.Gen_c19.
Import ListNotations.
Local Open Scope num_scope.

(** ** list facts *)
Lemma map2_tab {A B C} (f : A -> B -> C) (l : list A) (m : list B) dA dB : length l = length m ->
  map2 f l m = map (fun i => f (nth i l dA) (nth i m dB)) (seq 0 (length l)).
Proof.
  revert m; induction l as [|x l IH]; intros [|y m] E; try discriminate; [reflexivity|].
  cbn [map2 length seq map nth]. f_equal. rewrite <- seq_shift, map_map. apply IH. now injection E.
Qed.
Lemma map_tab {A B} (f : A -> B) (l : list A) d : map f l = map (fun i => f (nth i l d)) (seq 0 (length l)).
Proof.
  induction l as [|x l IH]; [reflexivity|]. cbn [length seq map nth]. f_equal. now rewrite <- seq_shift, map_map.
Qed.
Lemma map2_map_same {A B C D} (h : B -> C -> D) (f : A -> B) (g : A -> C) l :
  map2 h (map f l) (map g l) = map (fun i => h (f i) (g i)) l.
Proof. induction l as [|a l IH]; cbn; [reflexivity | now rewrite IH]. Qed.
Lemma firstn_repeat_le {A} (x : A) k n : (k <= n)%nat -> firstn k (repeat x n) = repeat x k.
Proof. revert n; induction k as [|k IH]; intros [|n] Hk; try lia; [reflexivity..|]. cbn. f_equal. apply IH. lia. Qed.
Lemma firstn_min_length {A} k (l : list A) : firstn (Nat.min k (length l)) l = firstn k l.
Proof.
  destruct (Nat.le_ge_cases k (length l)) as [Hk|Hk]; [now rewrite Nat.min_l|].
  rewrite Nat.min_r by exact Hk. now rewrite firstn_all, firstn_all2.
Qed.
Lemma slice_clamp {A} (l : list A) a b :
  firstn (Nat.min b (length l) - Nat.min a (length l)) (skipn (Nat.min a (length l)) l) = firstn (b - a) (skipn a l).
Proof.
  destruct (Nat.le_ge_cases (length l) a) as [Ha|Ha].
  - rewrite (Nat.min_r a) by exact Ha. rewrite !skipn_all2 by lia. now rewrite !firstn_nil.
  - rewrite (Nat.min_l a) by exact Ha. destruct (Nat.le_ge_cases b (length l)) as [Hb|Hb]; [now rewrite Nat.min_l|].
    rewrite Nat.min_r by exact Hb. rewrite !firstn_all2; try reflexivity; rewrite skipn_length; lia.
Qed.

(** ** python slices with bounds of known sign *)
Lemma py_bound_nonneg n d z : (0 <= z)%Z -> py_bound n d (Some z) = Nat.min (Z.to_nat z) n.
Proof. intros Hz. unfold py_bound. destruct (z <? 0)%Z eqn:E; lia. Qed.
Lemma py_bound_neg n d z : (z < 0)%Z -> py_bound n d (Some z) = (n - Z.to_nat (- z))%nat.
Proof. intros Hz. unfold py_bound. destruct (z <? 0)%Z eqn:E; lia. Qed.
Lemma py_slice_nonneg {A} (l : list A) lo hi : (0 <= lo)%Z -> (0 <= hi)%Z ->
  py_slice (Some lo) (Some hi) l = firstn (Z.to_nat hi - Z.to_nat lo) (skipn (Z.to_nat lo) l).
Proof. intros Hl Hh. unfold py_slice. rewrite !py_bound_nonneg by assumption. apply slice_clamp. Qed.
Lemma py_slice_upto {A} (l : list A) hi : (0 <= hi)%Z -> py_slice None (Some hi) l = firstn (Z.to_nat hi) l.
Proof.
  intros Hh. unfold py_slice. rewrite py_bound_nonneg by assumption. cbn [py_bound skipn]. rewrite Nat.sub_0_r.
  apply firstn_min_length.
Qed.
Lemma py_slice_from {A} (l : list A) lo : (0 <= lo)%Z -> py_slice (Some lo) None l = skipn (Z.to_nat lo) l.
Proof.
  intros Hl. unfold py_slice. rewrite py_bound_nonneg by assumption. cbn [py_bound].
  destruct (Nat.le_ge_cases (length l) (Z.to_nat lo)) as [Ha|Ha].
  - rewrite Nat.min_r by exact Ha. rewrite !skipn_all2 by lia. apply firstn_nil.
  - rewrite Nat.min_l by exact Ha. apply firstn_all2. rewrite skipn_length. lia.
Qed.
Lemma py_slice_drop_last {A} (l : list A) k : (0 < k)%Z -> py_slice None (Some (- k)%Z) l = firstn (length l - Z.to_nat k) l.
Proof.
  intros Hk. unfold py_slice. rewrite py_bound_neg by lia. cbn [py_bound skipn]. rewrite Nat.sub_0_r.
  now replace (- - k)%Z with k by lia.
Qed.

(** ** integer max / min of a list (axiom-free copies of the facts used) *)
Lemma fold_zmax_ge l x : (x <= fold_left Z.max l x)%Z /\ (forall y, In y l -> (y <= fold_left Z.max l x)%Z).
Proof.
  revert x; induction l as [|a r IH]; intros x; cbn; [split; [lia|tauto]|].
  destruct (IH (Z.max x a)) as [H1 H2]. split; [lia|]. intros y [<-|Hy]; [lia|auto].
Qed.
Lemma fold_zmin_le l x : (fold_left Z.min l x <= x)%Z /\ (forall y, In y l -> (fold_left Z.min l x <= y)%Z).
Proof.
  revert x; induction l as [|a r IH]; intros x; cbn; [split; [lia|tauto]|].
  destruct (IH (Z.min x a)) as [H1 H2]. split; [lia|]. intros y [<-|Hy]; [lia|auto].
Qed.
Lemma zv_max_ge l y : In y l -> (y <= zv_max l)%Z.
Proof. destruct l as [|x r]; [intros []|]. cbn [zv_max]. destruct (fold_zmax_ge r x). intros [<-|Hy]; auto. Qed.
Lemma zv_min_le l y : In y l -> (zv_min l <= y)%Z.
Proof. destruct l as [|x r]; [intros []|]. cbn [zv_min]. destruct (fold_zmin_le r x). intros [<-|Hy]; auto. Qed.
Lemma zv_max_eq l : zv_max l = zmax l. Proof. reflexivity. Qed.
Lemma zv_min_eq l : zv_min l = zmin l. Proof. reflexivity. Qed.

Section Generic.
Context {T : Type} `{NumOps T}.

(** ** the readings that are the model's helpers *)
Lemma py_int_eq (x : T) : py_int x = ntrunc x. Proof. reflexivity. Qed.
Lemma np_interp_arange0_eq (v : list T) x : np_interp_arange0 v x = interp_grid0 v x. Proof. reflexivity. Qed.
Definition arg_list (a : pyarg T) : list T := match a with ArgArr v => v | ArgScalar s => [s] end.
Definition red_up (r : pyreds T) : red T := match r with RedScalars u _ => RScalar u | RedArrays u _ => RArr u end.
Definition red_down (r : pyreds T) : red T := match r with RedScalars _ d => RScalar d | RedArrays _ d => RArr d end.
(** one entry per travel time *)
Definition reds_fit (r : pyreds T) (n : nat) : Prop :=
  match r with RedScalars _ _ => True | RedArrays u d => length u = n /\ length d = n end.

(** ** trim_to_length *)
Lemma gen_trim_row_eq (N si : Z) (row : list T) : (0 <= N)%Z -> (si <= N)%Z ->
  (if (si <? 0)%Z then py_slice (Some (- si)%Z) (Some (N - si)%Z) row
   else py_set_slice (Some si) None (py_slice None (Some (N - si)%Z) row) (np_zeros N)) = trim_row (Z.to_nat N) si row.
Proof.
  intros HN Hs. unfold trim_row. destruct (si <? 0)%Z eqn:E.
  - apply Z.ltb_lt in E. rewrite py_slice_nonneg by lia. unfold slice. f_equal. lia.
  - apply Z.ltb_ge in E. rewrite py_slice_upto by lia. unfold py_set_slice, np_zeros. rewrite repeat_length.
    rewrite py_bound_nonneg by lia. cbn [py_bound].
    rewrite firstn_repeat_le by lia. rewrite skipn_all2 by (rewrite repeat_length; lia). rewrite app_nil_r.
    f_equal. f_equal. lia.
Qed.

Lemma gen_trim_to_length_eq (vals : list (list T)) (n : nat) (tts : list T) (dt : T) (trim start : bool) (stt : T) :
  length vals = length tts ->
  (start = true -> trim = true -> forall d, In d (depth_shifts dt tts) -> (start_shift dt stt - d <= Z.of_nat n)%Z) ->
  gen_trim_to_length vals (Z.of_nat n) tts dt trim start stt =
  trim_to_length n (depth_shifts dt tts) (start_shift dt stt) trim start vals.
Proof.
  intros Hlen Hg. unfold gen_trim_to_length, trim_to_length. cbv zeta.
  assert (E : map py_int (map (fun x => x / dt) tts) = depth_shifts dt tts) by apply map_map. rewrite !E. clear E.
  change (py_int (stt / dt)) with (start_shift dt stt).
  set (sds := depth_shifts dt tts). set (ss := start_shift dt stt).
  assert (Hsd : length sds = length tts) by apply map_length.
  destruct start.
  - set (sis := map (fun d => (ss - d)%Z) sds).
    set (N := if negb trim then _ else Z.of_nat n).
    assert (Hsis : length sis = length sds) by apply map_length.
    assert (HN : (0 <= N)%Z /\ Z.to_nat N = trim_npts n sds ss trim true /\ forall s, In s sis -> (s <= N)%Z).
    { unfold N, trim_npts. fold sis. destruct trim; cbn [negb andb].
      - repeat split; [lia|lia|]. intros s Hs. apply in_map_iff in Hs. destruct Hs as (d & <- & Hd). now apply Hg.
      - rewrite zv_max_eq, zv_min_eq. change (fun d : Z => (2 * d)%Z) with (Z.mul 2).
        repeat split; [lia|lia|]. intros s Hs. apply zv_max_ge in Hs. rewrite zv_max_eq in Hs. fold sis. lia. }
    destruct HN as (HN0 & HNn & HNs). rewrite <- HNn, <- Hsis.
    rewrite (map2_tab _ sis vals 0%Z []) by lia. apply map_ext_in. intros i Hi. apply in_seq in Hi.
    apply gen_trim_row_eq; [exact HN0|]. apply HNs, nth_In. lia.
  - destruct trim; [|reflexivity].
    set (sis := map (fun _ => 0%Z) sds).
    assert (Hsis : length sis = length sds) by apply map_length.
    rewrite <- Hsis. rewrite (map2_tab _ sis vals 0%Z []) by lia. apply map_ext_in. intros i Hi. apply in_seq in Hi.
    replace (trim_row n) with (@trim_row T _ (Z.to_nat (Z.of_nat n))) by now rewrite Nat2Z.id.
    apply gen_trim_row_eq; [lia|].
    assert (Hin : In (nth i sis 0%Z) sis) by (apply nth_In; lia). apply in_map_iff in Hin. destruct Hin as (d & <- & _). lia.
Qed.

(** ** the shifted, reduced and signed waves: acc_series *)
Lemma map_idx_from_length {A B} (f : nat -> A -> B) j0 l : length (map_idx_from f j0 l) = length l.
Proof. revert j0; induction l as [|x l IH]; intros j0; cbn; [reflexivity | now rewrite IH]. Qed.
Lemma map_idx_from_const {A B} (f : A -> B) j0 l : map_idx_from (fun _ s => f s) j0 l = map f l.
Proof. revert j0; induction l as [|x l IH]; intros j0; cbn; [reflexivity | now rewrite IH]. Qed.
Lemma map_idx_from_shift {A B} (f : nat -> A -> B) j0 l : map_idx_from f (S j0) l = map_idx_from (fun j => f (S j)) j0 l.
Proof. revert j0; induction l as [|x l IH]; intros j0; cbn; [reflexivity | now rewrite IH]. Qed.
Lemma map_idx_from_ext {A B} (f g : nat -> A -> B) j0 l : (forall j x, f j x = g j x) -> map_idx_from f j0 l = map_idx_from g j0 l.
Proof. intros E. revert j0; induction l as [|x l IH]; intros j0; cbn; [reflexivity | now rewrite IH, E]. Qed.

Lemma gen_shifts_eq (dt : T) (tts : list T) : map (fun x => x / dt) (scale (nofZ 2) tts) = shifts_of dt tts.
Proof. unfold scale, shifts_of. now rewrite map_map. Qed.

(** down_waves before the reduction: row s of np.interp(arange(npts + max_shift) - shifts[:, None], arange(npts), values) *)
Lemma gen_down_eq (a sh : list T) (ms : Z) : (0 <= ms)%Z ->
  mmap (np_interp_arange0 a) (bc_row_col nsub (np_arange (Z.of_nat (length a) + ms)%Z) sh) =
  map (down_wave a (length a + Z.to_nat ms)) sh.
Proof.
  intros Hm. unfold mmap, bc_row_col, np_arange, down_wave. rewrite map_map. apply map_ext. intros s.
  rewrite !map_map. replace (Z.to_nat (Z.of_nat (length a) + ms)) with (length a + Z.to_nat ms)%nat by lia. reflexivity.
Qed.

Lemma gen_acc_scalars (nodal : bool) (dt : T) (a tts sh : list T) (ms : Z) (u d : T) :
  sh = shifts_of dt tts -> ms = ntrunc (amax sh) -> (0 <= ms)%Z ->
  (if nodal
   then bc_mat_row nadd (mmap nopp (mmap (fun x => x * d) (mmap (np_interp_arange0 a)
          (bc_row_col nsub (np_arange (Z.of_nat (length a) + ms)%Z) sh)))) (map (fun x => x * u) (np_pad_right a ms))
   else bc_mat_row nadd (mmap (fun x => x * d) (mmap (np_interp_arange0 a)
          (bc_row_col nsub (np_arange (Z.of_nat (length a) + ms)%Z) sh))) (map (fun x => x * u) (np_pad_right a ms))) =
  acc_rows nodal dt a tts (RScalar u) (RScalar d).
Proof.
  intros Hsh Hms Hpos. rewrite gen_down_eq by exact Hpos. unfold acc_rows. cbn [red_at].
  rewrite map_idx_from_const. unfold max_shift. rewrite <- Hsh, <- Hms.
  unfold bc_mat_row, mmap, acc_row, np_pad_right, up_padded, vopp. destruct nodal; rewrite !map_map; reflexivity.
Qed.

Lemma rows_arr (F : T -> list T) (G : list T -> list T) (up : list T) (sh : list T) : forall U D : list T,
  length U = length sh -> length D = length sh ->
  mmap2 nadd (map G (bc_mat_col nmul (map F sh) D)) (bc_row_col nmul up U) =
  map_idx_from (fun j s => map2 nadd (G (map (fun x => x * nth j D n0) (F s))) (map (fun x => x * nth j U n0) up)) 0 sh.
Proof.
  unfold mmap2, bc_mat_col, bc_row_col.
  induction sh as [|s sh IH]; intros [|u U] [|d D] HU HD; try discriminate; [reflexivity|].
  cbn [map map2 map_idx_from nth]. f_equal. rewrite map_idx_from_shift. cbn [nth]. apply IH; [now injection HU | now injection HD].
Qed.

Lemma gen_acc_arrays (nodal : bool) (dt : T) (a tts sh : list T) (ms : Z) (U D : list T) :
  sh = shifts_of dt tts -> ms = ntrunc (amax sh) -> (0 <= ms)%Z -> length U = length tts -> length D = length tts ->
  (if nodal
   then mmap2 nadd (mmap nopp (bc_mat_col nmul (mmap (np_interp_arange0 a)
          (bc_row_col nsub (np_arange (Z.of_nat (length a) + ms)%Z) sh)) D)) (bc_row_col nmul (np_pad_right a ms) U)
   else mmap2 nadd (bc_mat_col nmul (mmap (np_interp_arange0 a)
          (bc_row_col nsub (np_arange (Z.of_nat (length a) + ms)%Z) sh)) D) (bc_row_col nmul (np_pad_right a ms) U)) =
  acc_rows nodal dt a tts (RArr U) (RArr D).
Proof.
  intros Hsh Hms Hpos HU HD. rewrite gen_down_eq by exact Hpos. unfold acc_rows. cbn [red_at].
  unfold max_shift. rewrite <- Hsh, <- Hms.
  assert (Hl : length sh = length tts) by (rewrite Hsh; apply map_length).
  destruct nodal.
  - unfold mmap. rewrite rows_arr by congruence. apply map_idx_from_ext. intros j s. reflexivity.
  - rewrite <- (map_id (bc_mat_col nmul _ D)). rewrite rows_arr by congruence. apply map_idx_from_ext. intros j s. reflexivity.
Qed.

Lemma acc_rows_length nodal dt (a tts : list T) ur dr : length (acc_rows nodal dt a tts ur dr) = length tts.
Proof. unfold acc_rows. rewrite map_idx_from_length. apply map_length. Qed.

(** velocity and energy: 0.5 * v * abs(v) of the row-wise cumulative trapezoid *)
Lemma mmap2_mmap_same (f : T -> T -> T) (g h : T -> T) (m : list (list T)) :
  mmap2 f (mmap g m) (mmap h m) = mmap (fun x => f (g x) (h x)) m.
Proof. unfold mmap2, mmap. rewrite map2_map_same. apply map_ext. intros r. apply map2_map_same. Qed.
Lemma gen_energy_eq (dt : T) (acc : list (list T)) :
  mmap2 nmul (mmap (fun x => (n1 / nofZ 2) * x) (map (cumtrapz dt) acc)) (mmap nabs (map (cumtrapz dt) acc)) =
  map (fun r => kin_energy (cumtrapz dt r)) acc.
Proof. rewrite mmap2_mmap_same. unfold mmap. rewrite map_map. reflexivity. Qed.

(** ** the three public functions of eqsig/surface.py *)
Definition pad_guard (dt : T) (l : list T) : Prop := (0 <= ntrunc (amax (shifts_of dt l)))%Z.
Definition trim_guard (dt stt : T) (l : list T) (n : nat) (trim start : bool) : Prop :=
  start = true -> trim = true -> forall d, In d (depth_shifts dt l) -> (start_shift dt stt - d <= Z.of_nat n)%Z.
(** the python result: row 0 itself for a single travel time *)
Definition py_rows (l : list T) (m : list (list T)) : pyarr T :=
  if (Z.of_nat (length l) =? 1)%Z then Arr1 (nth 0 m []) else Arr2 m.

Lemma gen_get_time_shift_motions_eq dt a tts nodal reds stt trim start :
  pad_guard dt (arg_list tts) -> reds_fit reds (length (arg_list tts)) -> trim_guard dt stt (arg_list tts) (length a) trim start ->
  gen_get_time_shift_motions dt a tts nodal reds stt trim start =
  py_rows (arg_list tts) (time_shift_motions nodal trim start dt a (arg_list tts) (red_up reds) (red_down reds) stt).
Proof.
  intros Hp Hr Ht. unfold gen_get_time_shift_motions. cbv zeta.
  change (match tts with ArgArr v => v | ArgScalar s => [s] end) with (arg_list tts).
  set (l := arg_list tts) in *. rewrite gen_shifts_eq. change (@py_int T _) with (@ntrunc T _). unfold py_rows, time_shift_motions.
  destruct reds as [u d|U D]; cbn [red_up red_down reds_fit] in *.
  - rewrite (gen_acc_scalars nodal dt a l _ _ u d eq_refl eq_refl Hp).
    rewrite gen_trim_to_length_eq by (try apply acc_rows_length; exact Ht). reflexivity.
  - destruct Hr as [HU HD]. rewrite (gen_acc_arrays nodal dt a l _ _ U D eq_refl eq_refl Hp HU HD).
    rewrite gen_trim_to_length_eq by (try apply acc_rows_length; exact Ht). reflexivity.
Qed.

Lemma energy_rows_length nodal dt (a tts : list T) ur dr : length (energy_rows nodal dt a tts ur dr) = length tts.
Proof. unfold energy_rows. rewrite map_length. apply acc_rows_length. Qed.

Lemma gen_calc_surface_energy_eq dt a tts nodal reds stt trim start :
  pad_guard dt (arg_list tts) -> reds_fit reds (length (arg_list tts)) -> trim_guard dt stt (arg_list tts) (length a) trim start ->
  gen_calc_surface_energy dt a tts nodal reds stt trim start =
  py_rows (arg_list tts) (surface_energy nodal trim start dt a (arg_list tts) (red_up reds) (red_down reds) stt).
Proof.
  intros Hp Hr Ht. unfold gen_calc_surface_energy. cbv zeta.
  change (match tts with ArgArr v => v | ArgScalar s => [s] end) with (arg_list tts).
  set (l := arg_list tts) in *. rewrite gen_shifts_eq. change (@py_int T _) with (@ntrunc T _). unfold py_rows, surface_energy.
  destruct reds as [u d|U D]; cbn [red_up red_down reds_fit] in *.
  - rewrite (gen_acc_scalars nodal dt a l _ _ u d eq_refl eq_refl Hp). rewrite gen_energy_eq.
    fold (energy_rows nodal dt a l (RScalar u) (RScalar d)).
    rewrite gen_trim_to_length_eq by (try apply energy_rows_length; exact Ht). reflexivity.
  - destruct Hr as [HU HD]. rewrite (gen_acc_arrays nodal dt a l _ _ U D eq_refl eq_refl Hp HU HD). rewrite gen_energy_eq.
    fold (energy_rows nodal dt a l (RArr U) (RArr D)).
    rewrite gen_trim_to_length_eq by (try apply energy_rows_length; exact Ht). reflexivity.
Qed.

Lemma gen_calc_cum_abs_surface_energy_eq dt a tts nodal reds stt trim start :
  pad_guard dt (arg_list tts) -> reds_fit reds (length (arg_list tts)) -> trim_guard dt stt (arg_list tts) (length a) trim start ->
  gen_calc_cum_abs_surface_energy dt a tts nodal reds stt trim start =
  py_rows (arg_list tts) (cum_abs_surface_energy nodal trim start dt a (arg_list tts) (red_up reds) (red_down reds) stt).
Proof.
  intros Hp Hr Ht. unfold gen_calc_cum_abs_surface_energy. cbv zeta.
  rewrite gen_calc_surface_energy_eq by assumption. unfold py_rows, cum_abs_surface_energy.
  set (E := surface_energy _ _ _ _ _ _ _ _ _). destruct (Z.of_nat (length (arg_list tts)) =? 1)%Z; cbn [arr_map].
  - f_equal. change [] with (cum_abs_row (@nil T)) at 2. rewrite map_nth. reflexivity.
  - f_equal. rewrite !map_map. reflexivity.
Qed.

(** ** eqsig/fns/time_shift.py *)
Lemma skipn_repeat {A} (x : A) k n : skipn k (repeat x n) = repeat x (n - k).
Proof. revert n; induction k as [|k IH]; intros [|n]; cbn; try reflexivity. apply IH. Qed.
Lemma put_row_length W off (vals : list T) : (off + length vals <= W)%nat -> length (put_row W off vals) = W.
Proof. intros Hw. unfold put_row. rewrite firstn_length, !app_length, !repeat_length. lia. Qed.

(** out[i, lo:hi] = values in a zero row of width W, the slice lying inside the row *)
Lemma gen_put_row_eq (W : nat) (lo hi : Z) (vals : list T) :
  (0 <= lo)%Z -> hi = (lo + Z.of_nat (length vals))%Z -> (Z.to_nat hi <= W)%nat ->
  py_set_slice (Some lo) (Some hi) vals (repeat n0 W) = put_row W (Z.to_nat lo) vals.
Proof.
  intros Hlo Hhi Hw. unfold py_set_slice, put_row. rewrite repeat_length, !py_bound_nonneg by lia.
  rewrite firstn_repeat_le by lia. rewrite skipn_repeat.
  rewrite firstn_all2 by (rewrite !app_length, !repeat_length; lia). rewrite !Nat.min_l by lia.
  do 3 f_equal. lia.
Qed.

Definition clip_of_string (s : string) : nat :=
  if String.eqb s "start" then 1 else if String.eqb s "end" then 2 else if String.eqb s "both" then 3 else 0.
Lemma clip_start_string s : clip_start (clip_of_string s) = (String.eqb s "start" || String.eqb s "both").
Proof.
  unfold clip_of_string. destruct (String.eqb s "start") eqn:E1; [reflexivity|].
  destruct (String.eqb s "end") eqn:E2; destruct (String.eqb s "both") eqn:E3; try reflexivity.
  apply String.eqb_eq in E2, E3. congruence.
Qed.
Lemma clip_end_string s : clip_end (clip_of_string s) = (String.eqb s "end" || String.eqb s "both").
Proof.
  unfold clip_of_string. destruct (String.eqb s "start") eqn:E1.
  - destruct (String.eqb s "end") eqn:E2; destruct (String.eqb s "both") eqn:E3; try reflexivity;
      apply String.eqb_eq in E1; [apply String.eqb_eq in E2 | apply String.eqb_eq in E2 | apply String.eqb_eq in E3]; congruence.
  - destruct (String.eqb s "end") eqn:E2; [reflexivity|]. destruct (String.eqb s "both"); reflexivity.
Qed.

Lemma gen_put_array_in_2d_array_eq (vals : list T) (shifts : list Z) (clip : string) :
  gen_put_array_in_2d_array vals shifts clip = put_in_2d vals shifts (clip_of_string clip).
Proof.
  unfold gen_put_array_in_2d_array, put_in_2d. cbv zeta. rewrite clip_start_string, clip_end_string.
  rewrite !zv_max_eq, !zv_min_eq. unfold end_extras, start_extras.
  set (ee := Z.max (zmax shifts) 0). set (se := (- Z.min (zmin shifts) 0)%Z).
  assert (Hee : (0 <= ee)%Z) by (unfold ee; lia). assert (Hse : (0 <= se)%Z) by (unfold se; lia).
  set (W := (length vals + Z.to_nat se + Z.to_nat ee)%nat).
  assert (HW : @np_zeros T _ (Z.of_nat (length vals) + se + ee) = repeat n0 W).
  { unfold np_zeros, W. f_equal. lia. }
  rewrite HW. clear HW.
  assert (Hb : forall j, In j shifts -> (0 <= se + j)%Z /\ (Z.to_nat (se + j) + length vals <= W)%nat).
  { intros j Hj. pose proof (zv_max_ge _ _ Hj) as H1. pose proof (zv_min_le _ _ Hj) as H2.
    rewrite zv_max_eq in H1. rewrite zv_min_eq in H2. unfold W, se, ee. lia. }
  set (rows := map (fun j => put_row W (Z.to_nat (Z.of_nat (Z.to_nat se) + j)) vals) shifts).
  assert (Hrows : map (fun i => py_set_slice (Some (se + nth i shifts 0)%Z) (Some (se + Z.of_nat (length vals) + nth i shifts 0)%Z)
                          vals (repeat n0 W)) (seq 0 (length shifts)) = rows).
  { unfold rows. rewrite (map_tab _ shifts 0%Z). apply map_ext_in. intros i Hi. apply in_seq in Hi.
    assert (Hj : In (nth i shifts 0%Z) shifts) by (apply nth_In; lia). destruct (Hb _ Hj) as [H1 H2].
    rewrite gen_put_row_eq; [f_equal; lia | lia | lia | lia]. }
  rewrite Hrows. clear Hrows.
  assert (Hlen : forall r, In r rows -> length r = W).
  { intros r Hr. apply in_map_iff in Hr. destruct Hr as (j & <- & Hj). destruct (Hb _ Hj) as [H1 H2].
    apply put_row_length. lia. }
  assert (Hend : (if (String.eqb clip "end" || String.eqb clip "both") && (ee >? 0)%Z
                  then map (py_slice None (Some (- ee)%Z)) rows else rows) =
                 (if (String.eqb clip "end" || String.eqb clip "both") && (0 <? Z.to_nat ee)%nat
                  then map (firstn (W - Z.to_nat ee)) rows else rows)).
  { destruct (String.eqb clip "end" || String.eqb clip "both"); [|reflexivity]. cbn [andb].
    destruct (ee >? 0)%Z eqn:E; destruct (0 <? Z.to_nat ee)%nat eqn:E'; try reflexivity.
    - apply map_ext_in. intros r Hr. rewrite py_slice_drop_last by lia. now rewrite (Hlen _ Hr).
    - apply Nat.ltb_ge in E'. lia.
    - apply Nat.ltb_lt in E'. lia. }
  rewrite Hend. clear Hend.
  destruct (String.eqb clip "start" || String.eqb clip "both"); [|reflexivity].
  apply map_ext. intros r. now apply py_slice_from.
Qed.

Lemma gen_join_values_w_shifts_eq (vals : list T) (shifts : list Z) :
  gen_join_values_w_shifts vals shifts "add" = Some (join_w_shifts true vals shifts) /\
  gen_join_values_w_shifts vals shifts "sub" = Some (join_w_shifts false vals shifts) /\
  (forall s, String.eqb s "add" = false -> String.eqb s "sub" = false -> gen_join_values_w_shifts vals shifts s = None).
Proof.
  unfold gen_join_values_w_shifts, join_w_shifts. cbv zeta. rewrite gen_put_array_in_2d_array_eq.
  change (clip_of_string "none") with 0%nat. unfold bc_mat_row, mmap, np_pad_right. rewrite zv_max_eq. repeat split.
  - cbn [String.eqb Ascii.eqb Bool.eqb]. f_equal. now rewrite map_map.
  - intros s E1 E2. now rewrite E1, E2.
Qed.

(** ** the defaults of the python signatures *)
Lemma gen_c19_defaults :
  gen_trim_to_length_default_trim = false /\ gen_trim_to_length_default_start = false /\
  gen_trim_to_length_default_s2s_travel_time = n0 /\
  gen_calc_surface_energy_default_nodal = true /\ gen_calc_surface_energy_default_trim = false /\
  gen_calc_surface_energy_default_start = false /\ gen_calc_surface_energy_default_stt = n0 /\
  gen_calc_surface_energy_default_up_red = n1 /\ gen_calc_surface_energy_default_down_red = n1 /\
  gen_calc_cum_abs_surface_energy_default_nodal = true /\ gen_calc_cum_abs_surface_energy_default_trim = false /\
  gen_calc_cum_abs_surface_energy_default_start = false /\ gen_calc_cum_abs_surface_energy_default_stt = n0 /\
  gen_calc_cum_abs_surface_energy_default_up_red = n1 /\ gen_calc_cum_abs_surface_energy_default_down_red = n1 /\
  gen_get_time_shift_motions_default_nodal = true /\ gen_get_time_shift_motions_default_trim = false /\
  gen_get_time_shift_motions_default_start = false /\ gen_get_time_shift_motions_default_stt = n0 /\
  gen_get_time_shift_motions_default_up_red = n1 /\ gen_get_time_shift_motions_default_down_red = n1 /\
  gen_put_array_in_2d_array_default_clip = "none"%string /\ gen_join_values_w_shifts_default_jtype = "add"%string.
Proof. repeat split. Qed.
End Generic.

(** ** at R: the padding guard holds on the domain of the code (dt > 0, travel times >= 0) *)
From Coq Require Import Reals Lra.
From EQ Require Import proofs.P_C19.
Local Open Scope R_scope.
Lemma pad_guard_R (dt : R) (l : list R) : 0 < dt -> (forall t, In t l -> 0 <= t) -> pad_guard dt l.
Proof.
  intros Hdt Hl. unfold pad_guard.
  assert (Hm : 0 <= amax (shifts_of dt l)).
  { destruct l as [|t l]; [cbn; lra|].
    assert (Hin : In (amax (shifts_of dt (t :: l))) (shifts_of dt (t :: l))) by (apply amax_in; discriminate).
    unfold shifts_of in Hin at 2. apply in_map_iff in Hin. destruct Hin as (x & <- & Hx). numR.
    pose proof (Hl x Hx). apply Rmult_le_pos; [lra|]. left. now apply Rinv_0_lt_compat. }
  destruct (Rtrunc_nonneg _ Hm) as [-> H0]. exact H0.
Qed.
