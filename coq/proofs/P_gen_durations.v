(** The generated definitions of gen/Gen_durations.v (re-translated from eqsig/im.py on every run by
    translator/py2coq_durations.py) are the hand-written duration models of model/M_im.v, for ALL inputs (the empty record and
    the no-qualifying-sample case included: IndexError on the one side is [None] on the other) and for every [NumOps] instance
    (so for the Q run of the correspondence and for the R theorems of Prop_C10 alike).
    No arithmetic or order law is used: the equalities are unfolding plus list identities ([np.where] of a mapped vector,
    [take] of the time axis at in-range indices, first/last of a mapped list), i.e. source and model perform the same
    comparisons and the same arithmetic in the same order. *)
From Coq Require Import ZArith QArith Reals List Bool Lia Lra.
From EQ Require Import lib.Num lib.NpList lib.Where lib.PyVal model.M_displacements model.M_im
  gen.Gen_quadrature proofs.P_gen_quadrature gen.Gen_durations proofs.P_C10.
Import ListNotations.
Local Open Scope num_scope.

(** ** list facts (any element type) *)
Lemma last_cons_default {A} (x : A) r d : last (x :: r) d = last r x.
Proof.
  revert x d; induction r as [|y r IH]; intros x d; [reflexivity|].
  change (last (x :: y :: r) d) with (last (y :: r) d). rewrite (IH y d), (IH y x). reflexivity.
Qed.
Lemma py_first_map {A B} (f : A -> B) l : py_first (map f l) = option_map f (py_first l).
Proof. destruct l; reflexivity. Qed.
Lemma last_map_default {A B} (f : A -> B) r x : last (map f r) (f x) = f (last r x).
Proof.
  revert x; induction r as [|y r IH]; intros x; [reflexivity|].
  cbn [map]. rewrite !last_cons_default. apply IH.
Qed.
Lemma py_last_map {A B} (f : A -> B) l : py_last (map f l) = option_map f (py_last l).
Proof. destruct l as [|x r]; [reflexivity|]. cbn [map py_last option_map]. now rewrite last_map_default. Qed.
(** the model's "first and last of the index list" is ([idx[0]], [idx[-1]]) *)
Lemma first_last_of_idx (idx : list nat) :
  match idx with [] => None | i :: _ => Some (i, last idx i) end =
  match py_first idx with None => None | Some i => match py_last idx with None => None | Some j => Some (i, j) end end.
Proof. destruct idx as [|i r]; [reflexivity|]. cbn [py_first py_last]. now rewrite last_cons_default. Qed.

Lemma where_from_map {A B} (p : B -> bool) (f : A -> B) s l : where_from p s (map f l) = where_from (fun x => p (f x)) s l.
Proof. revert s; induction l as [|x r IH]; intros s; cbn [map where_from]; [reflexivity|]. now rewrite !IH. Qed.
Lemma where_idx_map {A B} (p : B -> bool) (f : A -> B) l : where_idx p (map f l) = where_idx (fun x => p (f x)) l.
Proof. apply where_from_map. Qed.
Lemma where_idx_lt {A} (p : A -> bool) l i : In i (where_idx p l) -> (i < length l)%nat.
Proof.
  destruct l as [|d r]; [intros []|]. intros Hi. apply (where_idx_In d) in Hi. tauto.
Qed.

Section Generic.
Context {T : Type} `{NumOps T}.

(** ** the value a call returns, from the model's optional (start, end) pair *)
(** significant durations: no qualifying sample = the IndexError of [ind2[0][0]] (nothing catches it) *)
Definition sig_value (se : bool) (r : option (T * T)) : pyval T :=
  match r with None => PyIndexError | Some (s, e) => if se then PyPair s e else PyScalar (e - s) end.
(** bracketed duration: the IndexError is caught: (None, None) / 0 *)
Definition brac_value (se : bool) (r : option (T * T)) : pyval T :=
  match r with None => if se then PyNonePair else PyScalar n0 | Some (s, e) => if se then PyPair s e else PyScalar (e - s) end.

Lemma py_last_last0 (l : list T) : py_last l = match l with [] => None | _ :: _ => Some (last0 l) end.
Proof. destruct l as [|x r]; [reflexivity|]. unfold last0. cbn [py_last]. now rewrite last_cons_default. Qed.

(** ** significant duration on a cumulative series: the common body of calc_sig_dur_vals and calc_sig_dur *)
Definition sig_core (se : bool) (dt lo hi : T) (cum : list T) : pyval T :=
  match py_last cum with None => PyIndexError | Some k1 =>
  match py_last cum with None => PyIndexError | Some k2 =>
  match py_first (where_idx (fun x => ((lo * k1) <? x) && (x <? (hi * k2))) cum) with None => PyIndexError | Some k3 =>
  match py_last (where_idx (fun x => ((lo * k1) <? x) && (x <? (hi * k2))) cum) with None => PyIndexError | Some k4 =>
  if se then PyPair (of_idx k3 * dt) (of_idx k4 * dt) else PyScalar ((of_idx k4 * dt) - (of_idx k3 * dt))
  end end end end.

Lemma sig_core_eq se dt lo hi cum : sig_core se dt lo hi cum = sig_value se (sig_dur_se dt lo hi cum).
Proof.
  unfold sig_core, sig_dur_se, sig_dur_idx. rewrite first_last_of_idx, py_last_last0. unfold between.
  destruct cum as [|c r]; [reflexivity|].
  destruct (py_first _) as [i|]; [|reflexivity]. destruct (py_last _) as [j|]; reflexivity.
Qed.

Lemma gen_sig_dur_vals_eq se dt lo hi (m : list T) :
  gen_sig_dur_vals se dt lo hi m = sig_value se (sig_dur_se dt lo hi (cumsum (vsq m))).
Proof. exact (sig_core_eq se dt lo hi (cumsum (vsq m))). Qed.

(** calc_sig_dur: im=None uses the (generated, inlined) Arias series with c = np.pi / (2 * 9.81); otherwise the series the
    user's callable returned for this signal *)
Definition sig_dur_measure (pi dt : T) (im : option (list T)) (a : list T) : list T :=
  match im with None => arias (arias_const pi) dt a | Some v => v end.
Lemma gen_sig_dur_eq pi se dt lo hi im (a : list T) :
  gen_sig_dur pi se dt lo hi im a = sig_value se (sig_dur_se dt lo hi (sig_dur_measure pi dt im a)).
Proof.
  destruct im as [v|].
  - exact (sig_core_eq se dt lo hi v).
  - exact (sig_core_eq se dt lo hi (arias (arias_const pi) dt a)).
Qed.
(** the series used for im=None is the generated calc_arias_intensity *)
Lemma sig_dur_measure_none pi dt (a : list T) : sig_dur_measure pi dt None a = gen_arias pi dt a.
Proof. reflexivity. Qed.

(** the deprecated alias calls calc_sig_dur_vals with se left at its default *)
Lemma gen_significant_duration_eq dt lo hi (m : list T) :
  gen_significant_duration dt lo hi m = gen_sig_dur_vals false dt lo hi m.
Proof. reflexivity. Qed.

(** ** bracketed duration *)
Lemma brac_where thr (a : list T) : where_idx (fun x => thr <? x) (vabs a) = where_idx (fun x => thr <? nabs x) a.
Proof. unfold vabs. apply where_idx_map. Qed.

(** [(np.arange(n) * dt)[idx]] at in-range indices is [idx * dt] *)
Lemma take_times dt n idx : (forall i, In i idx -> (i < n)%nat) ->
  take n0 (map (fun x => x * dt) (arange n)) idx = map (idx_time dt) idx.
Proof.
  intros Hlt. unfold take. apply map_ext_in. intros i Hi. specialize (Hlt i Hi).
  unfold arange. rewrite map_map. rewrite (nth_map_in _ _ i n0 0%nat) by (now rewrite seq_length).
  rewrite seq_nth by exact Hlt. reflexivity.
Qed.
Lemma brac_times dt thr (a : list T) :
  take n0 (map (fun x => x * dt) (arange (length a))) (where_idx (fun x => thr <? x) (vabs a))
  = map (idx_time dt) (where_idx (fun x => thr <? nabs x) a).
Proof. rewrite brac_where. apply take_times. intros i. apply where_idx_lt. Qed.

Lemma gen_brac_dur_eq se dt thr (a : list T) : gen_brac_dur se dt thr a = brac_value se (brac_dur_se dt thr a).
Proof.
  unfold gen_brac_dur. rewrite brac_times, py_first_map, py_last_map.
  unfold brac_dur_se, brac_idx. rewrite first_last_of_idx.
  destruct (py_first _) as [i|]; destruct (py_last _) as [j|]; destruct se; reflexivity.
Qed.
Lemma gen_brac_dur_scalar dt thr (a : list T) : gen_brac_dur false dt thr a = PyScalar (brac_dur dt thr a).
Proof. rewrite gen_brac_dur_eq. unfold brac_dur. destruct (brac_dur_se dt thr a) as [[s e]|]; reflexivity. Qed.
End Generic.

(** ** defaults of the python signatures *)
Lemma gen_dur_default_flags :
  gen_sig_dur_vals_default_se = false /\ gen_sig_dur_default_se = false /\ gen_brac_dur_default_se = false /\
  gen_sig_dur_default_im_is_none = true.
Proof. repeat split; reflexivity. Qed.
Lemma gen_dur_default_fractions_R :
  (@gen_sig_dur_vals_default_start R _ = 0.05 /\ @gen_sig_dur_vals_default_end R _ = 0.95 /\
   @gen_sig_dur_default_start R _ = 0.05 /\ @gen_sig_dur_default_end R _ = 0.95 /\
   @gen_significant_duration_default_start R _ = 0.05 /\ @gen_significant_duration_default_end R _ = 0.95)%R.
Proof.
  unfold gen_sig_dur_vals_default_start, gen_sig_dur_vals_default_end, gen_sig_dur_default_start, gen_sig_dur_default_end,
    gen_significant_duration_default_start, gen_significant_duration_default_end. numR. repeat split; lra.
Qed.

(** ** at R: what the SOURCE returns, through the characterisation theorems of P_C10 *)
Local Close Scope num_scope.
Local Open Scope R_scope.

(** calc_sig_dur_vals(.., se=True) returns exactly (first, last) qualifying sample times dt, and raises IndexError exactly
    when no sample of the running sum of squares lies strictly between the two fractions of its final value *)
Lemma source_sig_dur_vals_def dt lo hi (m : list R) :
  let cum := cumsum (vsq m) in
  match gen_sig_dur_vals true dt lo hi m with
  | PyPair s e => exists i j, first_last 0 (between lo hi (last0 cum)) cum i j /\ s = idx_time dt i /\ e = idx_time dt j
  | PyIndexError => forall k, (k < length cum)%nat -> between lo hi (last0 cum) (nth k cum 0) = false
  | _ => False
  end.
Proof.
  cbv zeta. rewrite gen_sig_dur_vals_eq. unfold sig_dur_se.
  pose proof (C10_sig_def lo hi (cumsum (vsq m))) as Hs. unfold sig_spec in Hs.
  destruct (sig_dur_idx lo hi (cumsum (vsq m))) as [[i j]|]; cbn [sig_value].
  - exists i, j. auto.
  - exact Hs.
Qed.
(** the same for calc_sig_dur on its measure (Arias by default, or the user's series) *)
Lemma source_sig_dur_def pi dt lo hi im (a : list R) :
  let cum := sig_dur_measure pi dt im a in
  match gen_sig_dur pi true dt lo hi im a with
  | PyPair s e => exists i j, first_last 0 (between lo hi (last0 cum)) cum i j /\ s = idx_time dt i /\ e = idx_time dt j
  | PyIndexError => forall k, (k < length cum)%nat -> between lo hi (last0 cum) (nth k cum 0) = false
  | _ => False
  end.
Proof.
  cbv zeta. rewrite gen_sig_dur_eq. unfold sig_dur_se.
  pose proof (C10_sig_def lo hi (sig_dur_measure pi dt im a)) as Hs. unfold sig_spec in Hs.
  destruct (sig_dur_idx lo hi (sig_dur_measure pi dt im a)) as [[i j]|]; cbn [sig_value].
  - exists i, j. auto.
  - exact Hs.
Qed.
(** se=False returns end - start of the same pair *)
Lemma source_sig_dur_vals_diff dt lo hi (m : list R) s e :
  gen_sig_dur_vals true dt lo hi m = PyPair s e -> gen_sig_dur_vals false dt lo hi m = PyScalar (e - s).
Proof.
  rewrite !gen_sig_dur_vals_eq. destruct (sig_dur_se dt lo hi (cumsum (vsq m))) as [[s' e']|]; cbn [sig_value]; [|discriminate].
  intros E; inversion E; subst. reflexivity.
Qed.

(** calc_brac_dur(.., se=True) returns the times of the first and last sample with |a| > threshold, (None, None) exactly
    when there is none; se=False returns their difference, 0 when there is none *)
Lemma source_brac_dur_def dt thr (a : list R) :
  match gen_brac_dur true dt thr a with
  | PyPair s e => exists i j, first_last 0 (exceeds thr) a i j /\ s = idx_time dt i /\ e = idx_time dt j
                  /\ gen_brac_dur false dt thr a = PyScalar (e - s)
  | PyNonePair => (forall k, (k < length a)%nat -> Rabs (nth k a 0) <= thr) /\ gen_brac_dur false dt thr a = PyScalar 0
  | _ => False
  end.
Proof.
  rewrite !gen_brac_dur_eq. unfold brac_dur_se.
  pose proof (C10_brac_def thr a) as Hs. unfold brac_spec in Hs.
  destruct (brac_idx thr a) as [[i j]|]; cbn [brac_value].
  - exists i, j. auto.
  - split; [exact Hs | reflexivity].
Qed.

(** ** the translated functions on a concrete record *)
Ltac decide_Rltb :=
  repeat match goal with |- context [Rltb ?a ?b] =>
    let H := fresh in destruct (Rltb a b) eqn:H; [apply Rltb_true in H|apply Rltb_false in H]; try lra end.
Lemma source_nonvacuous :
  gen_brac_dur true (1/2) 2 [0; 3; -4; 1; -5; 0] = PyPair (idx_time (1/2) 1) (idx_time (1/2) 4) /\
  gen_brac_dur true (1/2) 9 [0; 3; -4; 1; -5; 0] = PyNonePair /\
  gen_sig_dur_vals true (1/2) (1/4) (3/4) [1; 1; 1; 1; 1; 1; 1; 1] = PyPair (idx_time (1/2) 2) (idx_time (1/2) 4).
Proof.
  rewrite !gen_brac_dur_eq, gen_sig_dur_vals_eq. repeat split.
  - unfold brac_dur_se, brac_idx, where_idx. cbn [where_from]. numR. rewrite <- !abs_IZR. cbn [Z.abs].
    decide_Rltb. reflexivity.
  - unfold brac_dur_se, brac_idx, where_idx. cbn [where_from]. numR. rewrite <- !abs_IZR. cbn [Z.abs].
    decide_Rltb. reflexivity.
  - unfold sig_dur_se, sig_dur_idx, where_idx, last0, between, cumsum, vsq. cbn [map cumsum_from last where_from]. numR.
    decide_Rltb. reflexivity.
Qed.
