(** The generated definitions of gen/Gen_c17.v (re-translated from eqsig/single.py, class Signal, on every run by
    translator/py2coq_c17.py) are the hand-written models of model/M_signalops.v, for ALL inputs of the stated domain.
    add_constant / add_series / add_signal / running_average: for every [NumOps] instance, no arithmetic law of the
    number type is used (only facts about Python ints: Z and the exact quotients Q).
    butter_pass: the source multiplies the start mean into np.ones (start_value * 1.0), the model writes the mean itself;
    the equality is proved for every instance in which [v * n1 = v] (a Section hypothesis), in particular at R. *)
From Coq Require Import ZArith QArith Qround Reals Bool String List Lia Lra.
From EQ Require Import lib.Num lib.NpList model.M_signalops gen.Gen_c17 proofs.P_C17.
Import ListNotations.

(** ** Python ints and int quotients *)
Lemma Zeqb_of_nat a b : (Z.of_nat a =? Z.of_nat b)%Z = Nat.eqb a b.
Proof.
  destruct (Nat.eqb a b) eqn:E.
  - apply Nat.eqb_eq in E. subst. apply Z.eqb_refl.
  - apply Nat.eqb_neq in E. apply Z.eqb_neq. lia.
Qed.
Lemma Qltb_Zltb p q : Qltb p q = (Qnum p * QDen q <? Qnum q * QDen p)%Z.
Proof. unfold Qltb, Qcompare, Z.ltb. reflexivity. Qed.
(** i < w / 2 *)
Lemma Qltb_half i w : Qltb (inject_Z i) (inject_Z w / inject_Z 2) = (2 * i <? w)%Z.
Proof.
  rewrite Qltb_Zltb. unfold Qdiv, Qmult, Qinv, inject_Z. cbn [Qnum Qden].
  destruct (2 * i <? w)%Z eqn:E; [apply Z.ltb_lt in E; apply Z.ltb_lt | apply Z.ltb_ge in E; apply Z.ltb_ge]; lia.
Qed.
(** i > n - w / 2 *)
Lemma Qltb_minus_half n w i : Qltb (inject_Z n - inject_Z w / inject_Z 2) (inject_Z i) = (2 * n <? 2 * i + w)%Z.
Proof.
  rewrite Qltb_Zltb. unfold Qminus, Qplus, Qopp, Qdiv, Qmult, Qinv, inject_Z. cbn [Qnum Qden].
  destruct (2 * n <? 2 * i + w)%Z eqn:E; [apply Z.ltb_lt in E; apply Z.ltb_lt | apply Z.ltb_ge in E; apply Z.ltb_ge]; lia.
Qed.
(** int(d / 2) of a non-negative int *)
Lemma py_int_half d : (0 <= d)%Z -> py_int_Q (inject_Z d / inject_Z 2) = (d / 2)%Z.
Proof.
  intros Hd. unfold py_int_Q. rewrite Qltb_Zltb. unfold Qdiv, Qmult, Qinv, inject_Z. cbn [Qnum Qden].
  replace (d * 1 * 1 <? 0 * Z.pos (1 * 2))%Z with false by (symmetry; apply Z.ltb_ge; lia).
  unfold Qfloor. f_equal; lia.
Qed.
Lemma py_int_half_nat d : py_int_Q (inject_Z (Z.of_nat d) / inject_Z 2) = Z.of_nat (d / 2).
Proof. rewrite py_int_half by lia. now rewrite Nat2Z.inj_div. Qed.

(** ** slices: Python's index normalisation on non-negative bounds is the model's [slice] / [firstn] / [skipn] / [lastn] *)
Lemma py_bound_nat n d k : py_bound n d (Some (Z.of_nat k)) = Nat.min k n.
Proof.
  unfold py_bound. replace (Z.of_nat k <? 0)%Z with false by (symmetry; apply Z.ltb_ge; lia).
  rewrite <- Nat2Z.inj_min. apply Nat2Z.id.
Qed.
Lemma py_bound_neg n d k : (1 <= k)%nat -> py_bound n d (Some (- Z.of_nat k)%Z) = (n - k)%nat.
Proof.
  intros Hk. unfold py_bound. replace (- Z.of_nat k <? 0)%Z with true by (symmetry; apply Z.ltb_lt; lia). lia.
Qed.
Lemma firstn_min_sub {A} (l : list A) s f : firstn (Nat.min f (length l) - s) (skipn s l) = firstn (f - s) (skipn s l).
Proof.
  rewrite <- (firstn_min_length (skipn s l) (f - s)). f_equal. rewrite skipn_length. lia.
Qed.
Lemma py_slice_nat {A} s f (l : list A) : py_slice (Some (Z.of_nat s)) (Some (Z.of_nat f)) l = slice s f l.
Proof.
  unfold py_slice, slice. rewrite !py_bound_nat.
  destruct (Nat.le_gt_cases (length l) s) as [Hs|Hs].
  - rewrite (Nat.min_r s) by lia. rewrite !skipn_all2 by lia. now rewrite !firstn_nil.
  - rewrite (Nat.min_l s) by lia. apply firstn_min_sub.
Qed.
Lemma py_slice_to_nat {A} f (l : list A) : py_slice None (Some (Z.of_nat f)) l = firstn f l.
Proof.
  unfold py_slice. rewrite py_bound_nat. cbn [py_bound skipn]. rewrite Nat.sub_0_r, Nat.min_comm. apply firstn_min_length.
Qed.
Lemma py_slice_from_nat {A} s (l : list A) : py_slice (Some (Z.of_nat s)) None l = skipn s l.
Proof.
  unfold py_slice. rewrite py_bound_nat. cbn [py_bound].
  destruct (Nat.le_gt_cases (length l) s) as [Hs|Hs].
  - rewrite (Nat.min_r s) by lia. rewrite !skipn_all2 by lia. apply firstn_nil.
  - rewrite (Nat.min_l s) by lia. apply firstn_all2. rewrite skipn_length. lia.
Qed.
(** v[-k:] for k >= 1 *)
Lemma py_slice_last {A} k (l : list A) : (1 <= k)%nat -> py_slice (Some (- Z.of_nat k)%Z) None l = lastn k l.
Proof.
  intros Hk. unfold py_slice, lastn. rewrite py_bound_neg by auto. cbn [py_bound].
  apply firstn_all2. rewrite skipn_length. lia.
Qed.
(** the guard cannot be dropped: v[-0:] is the whole array, the model's [lastn 0] is empty *)
Lemma py_slice_last_0_differs : py_slice (Some (- Z.of_nat 0)%Z) None [true] <> lastn 0 [true].
Proof. discriminate. Qed.

Local Open Scope num_scope.

Section Generic.
Context {T : Type} `{NumOps T}.

Lemma py_mean_eq (l : list T) : py_mean l = mean l.
Proof. reflexivity. Qed.

(** ** running_average: the loop body at every index, and the loop *)
Lemma gen_running_average_at_eq (w : nat) (x : list T) (i : nat) :
  gen_running_average_at (Z.of_nat w) x (Z.of_nat i) = running_average_at w x i.
Proof.
  unfold gen_running_average_at, running_average_at. cbv zeta.
  rewrite Qltb_half, Qltb_minus_half, py_int_half_nat.
  assert (Hh : (2 * (w / 2) <= w)%nat).
  { pose proof (Nat.div_mod w 2 ltac:(lia)). lia. }
  replace (2 * Z.of_nat i <? Z.of_nat w)%Z with (2 * i <? w)%nat.
  2:{ destruct (2 * i <? w)%nat eqn:E; symmetry; [apply Nat.ltb_lt in E; apply Z.ltb_lt | apply Nat.ltb_ge in E; apply Z.ltb_ge]; lia. }
  replace (2 * Z.of_nat (length x) <? 2 * Z.of_nat i + Z.of_nat w)%Z with (2 * length x <? 2 * i + w)%nat.
  2:{ destruct (2 * length x <? 2 * i + w)%nat eqn:E; symmetry; [apply Nat.ltb_lt in E; apply Z.ltb_lt | apply Nat.ltb_ge in E; apply Z.ltb_ge]; lia. }
  replace (Z.of_nat i + Z.of_nat (w / 2) + 1)%Z with (Z.of_nat (i + w / 2 + 1)) by lia.
  destruct (2 * i <? w)%nat eqn:E1.
  - now rewrite py_slice_to_nat.
  - apply Nat.ltb_ge in E1.
    replace (Z.of_nat i - Z.of_nat (w / 2))%Z with (Z.of_nat (i - w / 2)) by lia.
    destruct (2 * length x <? 2 * i + w)%nat.
    + now rewrite py_slice_from_nat.
    + now rewrite py_slice_nat.
Qed.
Lemma py_range_nat n : py_range (Z.of_nat n) = map Z.of_nat (seq 0 n).
Proof. unfold py_range. now rewrite Nat2Z.id. Qed.
Lemma gen_running_average_eq (w : nat) (x : list T) :
  gen_running_average (Z.of_nat w) x = PyOk (running_average w x).
Proof.
  unfold gen_running_average, running_average. rewrite py_range_nat, map_map. f_equal.
  apply map_ext. intros i. apply gen_running_average_at_eq.
Qed.
(** as a statement about the loop: the returned array has the record's length and its entry i is the loop body at i *)
Lemma gen_running_average_loop (w : nat) (x : list T) :
  exists out, gen_running_average (Z.of_nat w) x = PyOk out /\ length out = length x /\
    forall i d, (i < length x)%nat -> nth i out d = gen_running_average_at (Z.of_nat w) x (Z.of_nat i).
Proof.
  eexists. split; [reflexivity|]. rewrite py_range_nat. split; [now rewrite !map_length, seq_length|].
  intros i d Hi. rewrite map_map.
  rewrite (nth_indep _ d (gen_running_average_at (Z.of_nat w) x (Z.of_nat 0))) by (now rewrite map_length, seq_length).
  rewrite (map_nth (fun k => gen_running_average_at (Z.of_nat w) x (Z.of_nat k)) (seq 0 (length x)) 0%nat i).
  now rewrite seq_nth.
Qed.

(** ** add_constant / add_series / add_signal: results and exceptions (class and message) *)
Definition add_value (r : add_error + @signal T) : pyres (list T) :=
  match r with
  | inr s' => PyOk (s_vals s')
  | inl ErrSeriesLen => PySignalProcessingError "new series has different length to Signal"
  | inl ErrDt => PySignalProcessingError "New signal has different time step"
  | inl ErrNotSignal => PySignalProcessingError "New signal is not a Signal object"
  end.
(** the other argument of add_signal as the generated function sees it *)
Definition other_view (o : option (@signal T)) : option (T * list T) :=
  match o with Some s => Some (s_dt s, s_vals s) | None => None end.

Lemma gen_add_constant_eq c (s : @signal T) : gen_add_constant c (s_vals s) = PyOk (s_vals (add_constant c s)).
Proof. reflexivity. Qed.
Lemma np_add_same (u v : list T) : length u = length v -> np_add u v = Some (vadd u v).
Proof. intros E. unfold np_add. now rewrite E, Nat.eqb_refl. Qed.
Lemma gen_add_series_eq series (s : @signal T) : gen_add_series series (s_vals s) = add_value (add_series series s).
Proof.
  unfold gen_add_series, add_series. rewrite Zeqb_of_nat.
  destruct (Nat.eqb (length series) (length (s_vals s))) eqn:E; [|reflexivity].
  apply Nat.eqb_eq in E. now rewrite np_add_same by auto.
Qed.
Lemma gen_add_signal_eq (other : option (@signal T)) (s : @signal T) :
  gen_add_signal (other_view other) (s_dt s) (s_vals s) = add_value (add_signal other s).
Proof.
  destruct other as [o|]; [|reflexivity]. cbn [other_view gen_add_signal add_signal fst snd].
  destruct (s_dt o =? s_dt s); [|reflexivity]. apply (gen_add_series_eq (s_vals o) s).
Qed.
End Generic.

(** ** butter_pass *)
(** the readings of the Python-level arguments *)
Definition cls_of (c : container) : pyclass :=
  match c with CList => PList | CTuple => PTuple | CArray => PNdarray | COther => POther end.
(** remove_gibbs: None, 'start', 'end', anything else (= the centred layout) *)
Definition gibbs_of_rg (rg : option string) : gibbs :=
  match rg with
  | None => GNone
  | Some s => if String.eqb s "start" then GStart else if String.eqb s "end" then GEnd else GMid
  end.
(** the btype string handed to scipy.signal.butter *)
Definition btype_of_string (s : string) : btype :=
  if String.eqb s "band" then Band else if String.eqb s "low" then Low else High.

Section Butter.
Context {T : Type} `{NumOps T}.
(** the one arithmetic fact used: start_value * 1.0 is start_value *)
Hypothesis mul_one : forall v : T, v * n1 = v.

Definition FF_of (FF : nat -> btype -> list T -> list T -> list T) : Z -> string -> list T -> list T -> list T :=
  fun o s => FF (Z.to_nat o) (btype_of_string s).
Definition bp_value (r : bp_error + @signal T) : pyres (list T) :=
  match r with
  | inr s' => PyOk (s_vals s')
  | inl ErrNotSeq => PyValueError "cut_off must be list, tuple or array."
  | inl ErrLen2 => PyValueError "cut_off must be length 2."
  end.

Lemma scale_ones (sv : T) n : scale sv (py_ones (Z.of_nat n)) = repeat sv n.
Proof.
  unfold scale, py_ones. rewrite Nat2Z.id. induction n as [|n IH]; [reflexivity|]. cbn [repeat map]. now rewrite IH, mul_one.
Qed.

Lemma firstn_repeat_le {A} (c : A) k n : (k <= n)%nat -> firstn k (repeat c n) = repeat c k.
Proof.
  revert n; induction k as [|k IH]; intros n Hk; [reflexivity|].
  destruct n as [|n]; [lia|]. cbn [repeat firstn]. f_equal. apply IH. lia.
Qed.

(** temp = sv * np.ones(nl); temp[f:] = ev; temp[s:f] = x   with f = s + len(x) <= nl *)
Lemma set_pad (x : list T) (nl s : nat) (sv ev : T) : (s + length x <= nl)%nat ->
  py_set_slice (Some (Z.of_nat s)) (Some (Z.of_nat (s + length x))) x
    (py_set_slice_scalar (Some (Z.of_nat (s + length x))) None ev (scale sv (py_ones (Z.of_nat nl))))
  = Some (repeat sv s ++ x ++ repeat ev (nl - (s + length x))).
Proof.
  intros Hle. rewrite scale_ones. unfold py_set_slice_scalar. rewrite repeat_length, py_bound_nat. cbn [py_bound].
  rewrite (Nat.min_l _ nl) by lia.
  replace (s + length x + (nl - (s + length x)))%nat with nl by lia.
  rewrite (skipn_all2 (repeat sv nl)) by (rewrite repeat_length; lia). rewrite app_nil_r.
  rewrite firstn_repeat_le by lia.
  set (f := (s + length x)%nat).
  unfold py_set_slice. rewrite !py_bound_nat.
  assert (Hlen : length (repeat sv f ++ repeat ev (nl - f)) = nl).
  { rewrite app_length, !repeat_length. unfold f. lia. }
  rewrite Hlen. rewrite (Nat.min_l s nl), (Nat.min_l f nl) by (unfold f; lia).
  replace (f - s)%nat with (length x) by (unfold f; lia). rewrite Nat.eqb_refl. f_equal.
  rewrite firstn_app, repeat_length, firstn_repeat_le by (unfold f; lia).
  replace (s - f)%nat with 0%nat by (unfold f; lia). cbn [firstn]. rewrite app_nil_r.
  fold f. rewrite skipn_app, repeat_length. rewrite (skipn_all2 (repeat sv f)) by (rewrite repeat_length; lia).
  rewrite Nat.sub_diag. reflexivity.
Qed.

Lemma new_len_Z n extra : (2 ^ (Z.log2_up (Z.of_nat n) + Z.of_nat extra))%Z = Z.of_nat (gibbs_new_len n extra).
Proof.
  unfold gibbs_new_len. rewrite Z2Nat.id; [reflexivity|]. apply Z.pow_nonneg. lia.
Qed.

Lemma gen_butter_pass_eq FF cont cut order rg extra grange (s : @signal T) :
  cut <> [None; None] -> (rg <> None -> (1 <= grange)%nat) ->
  gen_butter_pass (FF_of FF) (cls_of cont) cut (Some (Z.of_nat order)) rg (Some (Z.of_nat extra)) (Some (Z.of_nat grange)) (s_dt s) (s_vals s)
  = bp_value (butter_pass FF order cont cut (gibbs_of_rg rg) extra grange s).
Proof.
  intros Hcut Hgr. destruct s as [dt x]. cbn [s_dt s_vals].
  unfold gen_butter_pass, butter_pass, FF_of. cbv zeta. cbn [kw_get s_dt s_vals].
  rewrite !Nat2Z.id.
  replace (Z.of_nat (length cut) =? 2)%Z with (Nat.eqb (length cut) 2) by (symmetry; apply (Zeqb_of_nat _ 2)).
  change (btype_of_string "band") with Band. change (btype_of_string "low") with Low. change (btype_of_string "high") with High.
  rewrite !new_len_Z.
  pose proof (gibbs_new_len_ge (length x) extra) as Hge.
  set (NL := gibbs_new_len (length x) extra) in *.
  rewrite <- !Nat2Z.inj_sub by exact Hge. rewrite !py_int_half_nat.
  change 0%Z with (Z.of_nat 0). rewrite <- !Nat2Z.inj_add.
  assert (Hmid : ((NL - length x) / 2 + length x <= NL)%nat).
  { assert ((NL - length x) / 2 <= NL - length x)%nat by (apply Nat.div_le_upper_bound; lia). lia. }
  rewrite !set_pad by lia.
  rewrite !py_slice_to_nat.

  destruct rg as [rgs|].
  - rewrite !py_slice_last by (apply Hgr; discriminate).
    cbn [gibbs_of_rg].
    destruct cont; cbn [cls_of pyclass_eqb orb butter_args bp_value]; try reflexivity.
    all: destruct cut as [|e0 [|e1 [|e2 r]]]; cbn [length Nat.eqb negb nth_error opt_all butter_args bp_value]; try reflexivity.
    all: destruct e0 as [v0|]; try destruct e1 as [v1|]; cbn [opt_all butter_args bp_value]; try reflexivity; try (exfalso; apply Hcut; reflexivity).
    all: destruct (String.eqb rgs "start"); [|destruct (String.eqb rgs "end")]; cbn [gibbs_layout]; fold NL; rewrite !py_slice_nat; try reflexivity.
  - cbn [gibbs_of_rg].
    destruct cont; cbn [cls_of pyclass_eqb orb butter_args bp_value]; try reflexivity.
    all: destruct cut as [|e0 [|e1 [|e2 r]]]; cbn [length Nat.eqb negb nth_error opt_all butter_args bp_value]; try reflexivity.
    all: destruct e0 as [v0|]; try destruct e1 as [v1|]; cbn [opt_all butter_args bp_value]; try reflexivity; try (exfalso; apply Hcut; reflexivity).
    all: cbn [gibbs_layout]; rewrite !py_slice_nat; reflexivity.
Qed.

(** cut_off = (None, None): the source raises TypeError at `wp = cut_off / nyq` (None / float); the model's [butter_args]
    returns a placeholder there (outside the property's domain) *)
Lemma gen_butter_pass_none_none FF cont order rg extra grange (s : @signal T) :
  cont <> COther -> (rg <> None -> (1 <= grange)%nat) ->
  gen_butter_pass (FF_of FF) (cls_of cont) [None; None] (Some (Z.of_nat order)) rg (Some (Z.of_nat extra)) (Some (Z.of_nat grange)) (s_dt s) (s_vals s)
  = PyTypeError.
Proof.
  intros Hc Hgr. destruct s as [dt x]. cbn [s_dt s_vals].
  unfold gen_butter_pass. cbv zeta. cbn [kw_get length nth_error].
  rewrite !new_len_Z.
  pose proof (gibbs_new_len_ge (length x) extra) as Hge.
  set (NL := gibbs_new_len (length x) extra) in *.
  rewrite <- !Nat2Z.inj_sub by exact Hge. rewrite !py_int_half_nat.
  change 0%Z with (Z.of_nat 0). rewrite <- !Nat2Z.inj_add.
  assert (Hmid : ((NL - length x) / 2 + length x <= NL)%nat).
  { assert ((NL - length x) / 2 <= NL - length x)%nat by (apply Nat.div_le_upper_bound; lia). lia. }
  rewrite !set_pad by lia.
  destruct cont; try congruence; cbn [cls_of pyclass_eqb orb]; change (Z.of_nat 2 =? 2)%Z with true; cbn [negb].
  all: destruct rg as [rgs|]; [destruct (String.eqb rgs "start"); [|destruct (String.eqb rgs "end")]|]; reflexivity.
Qed.

(** absent keywords are the defaults filter_order=4, gibbs_extra=1, gibbs_range=50 *)
Lemma gen_butter_pass_defaults (FFz : Z -> string -> list T -> list T -> list T) cls cut rg dt (x : list T) :
  gen_butter_pass FFz cls cut None rg None None dt x
  = gen_butter_pass FFz cls cut (Some (Z.of_nat 4)) rg (Some (Z.of_nat 1)) (Some (Z.of_nat 50)) dt x.
Proof. reflexivity. Qed.
End Butter.

(** ** at R: [v * 1 = v] holds, so the generated butter_pass is the model's for every real input *)
Lemma gen_butter_pass_eq_R FF cont (cut : list (option R)) order rg extra grange (s : @signal R) :
  cut <> [None; None] -> (rg <> None -> (1 <= grange)%nat) ->
  gen_butter_pass (FF_of FF) (cls_of cont) cut (Some (Z.of_nat order)) rg (Some (Z.of_nat extra)) (Some (Z.of_nat grange)) (s_dt s) (s_vals s)
  = bp_value (butter_pass FF order cont cut (gibbs_of_rg rg) extra grange s).
Proof. exact (gen_butter_pass_eq (T := R) Rmult_1_r FF cont cut order rg extra grange s). Qed.
Lemma gen_butter_pass_none_none_R FF cont order rg extra grange (s : @signal R) :
  cont <> COther -> (rg <> None -> (1 <= grange)%nat) ->
  gen_butter_pass (FF_of FF) (cls_of cont) [None; None] (Some (Z.of_nat order)) rg (Some (Z.of_nat extra)) (Some (Z.of_nat grange)) (s_dt s) (s_vals s)
  = PyTypeError.
Proof. exact (gen_butter_pass_none_none (T := R) Rmult_1_r FF cont order rg extra grange s). Qed.

(** the readings of the arguments, spelled out *)
Lemma readings_spec :
  cls_of CList = PList /\ cls_of CTuple = PTuple /\ cls_of CArray = PNdarray /\ cls_of COther = POther /\
  gibbs_of_rg None = GNone /\ gibbs_of_rg (Some "start"%string) = GStart /\ gibbs_of_rg (Some "end"%string) = GEnd /\
  (forall s, s <> "start"%string -> s <> "end"%string -> gibbs_of_rg (Some s) = GMid) /\
  btype_of_string "band" = Band /\ btype_of_string "low" = Low /\ btype_of_string "high" = High.
Proof.
  repeat split. intros s H1 H2. unfold gibbs_of_rg.
  apply String.eqb_neq in H1, H2. now rewrite H1, H2.
Qed.

(** defaults of the python signatures *)
Lemma gen_c17_defaults_R :
  gen_butter_pass_default_cut_off_class = PTuple /\ @gen_butter_pass_default_cut_off R _ = [Some 0.1%R; Some 15%R] /\
  gen_running_average_default_width = 1%Z.
Proof.
  split; [reflexivity|split; [|reflexivity]]. unfold gen_butter_pass_default_cut_off. numR. repeat f_equal; lra.
Qed.

(** ** what the source returns, at R, through the theorems of P_C17 *)
Local Open Scope R_scope.
(** running_average: entry i of the returned array is the mean of the ORIGINAL samples within floor(w/2) positions of i *)
Lemma source_running_average_window (w : nat) (x : list R) :
  exists out, gen_running_average (Z.of_nat w) x = PyOk out /\ length out = length x /\
    forall i, (i < length x)%nat -> nth i out 0 = window_mean w x i.
Proof.
  exists (running_average w x). split; [apply gen_running_average_eq|]. split; [apply running_average_length|].
  intros i Hi. now apply running_average_spec.
Qed.
(** butter_pass with any length-preserving filter returns an array of the record's length *)
Lemma source_butter_pass_length FF cont (cut : list (option R)) order rg extra grange (s : @signal R) out :
  FF_length FF -> cut <> [None; None] -> (rg <> None -> (1 <= grange)%nat) ->
  gen_butter_pass (FF_of FF) (cls_of cont) cut (Some (Z.of_nat order)) rg (Some (Z.of_nat extra)) (Some (Z.of_nat grange)) (s_dt s) (s_vals s)
    = PyOk out -> length out = length (s_vals s).
Proof.
  intros HFF Hcut Hgr. rewrite gen_butter_pass_eq_R by assumption.
  destruct (butter_pass FF order cont cut (gibbs_of_rg rg) extra grange s) as [[]|s'] eqn:E; cbn [bp_value]; try discriminate.
  intros [= <-]. exact (proj1 (butter_pass_length_dt FF order cont cut _ extra grange s s' HFF E)).
Qed.

(** ** the translated methods on concrete inputs *)
Lemma source_nonvacuous :
  gen_running_average 3%Z [0; 1; 4; 9] = PyOk [1 / 2; 5 / 3; 14 / 3; 13 / 2] /\
  gen_add_signal (Some (1 / 100, [3; 4])) (1 / 100) [1; 2] = PyOk [1 + 3; 2 + 4] /\
  gen_add_series [3] [1; 2] = (PySignalProcessingError "new series has different length to Signal" : pyres (list R)) /\
  gen_butter_pass (fun _ _ _ v => v) POther [Some (1 / 2); Some 10] None None None None (1 / 100) [1; 2; 3]
    = (PyValueError "cut_off must be list, tuple or array." : pyres (list R)) /\
  gen_butter_pass (FF_of (fun _ _ _ v => v)) PTuple [Some (1 / 2); Some 10] None (Some "mid"%string) None None (1 / 100) [1; 2; 3]
    = PyOk [1; 2; 3].
Proof.
  split; [|split; [|split; [|split]]].
  - change 3%Z with (Z.of_nat 3). rewrite gen_running_average_eq. f_equal. exact ex_running_average.
  - unfold gen_add_signal. cbn [fst snd]. numR. case_Reqb (1 / 100) (1 / 100); [|congruence]. reflexivity.
  - reflexivity.
  - reflexivity.
  - rewrite gen_butter_pass_defaults.
    refine (eq_trans (gen_butter_pass_eq_R (fun _ _ _ v => v) CTuple [Some (1 / 2); Some 10] 4 (Some "mid"%string) 1 50
                        {| s_dt := 1 / 100; s_vals := [1; 2; 3] |} _ _) _).
    + discriminate.
    + intros _. lia.
    + reflexivity.
Qed.
