(** Proofs for C20 about the *generated* NZS 1170.5 functions (gen/Gen_design_spectra.v). *)
From Coq Require Import Reals String List Lra.
From Interval Require Import Tactic.
From EQ Require Import lib.Num gen.Gen_design_spectra.
Import ListNotations.
Local Open Scope R_scope.

(** split on every comparison of the goal *)
Ltac split_cmp :=
  repeat (match goal with
  | |- context [Rltb ?a ?b] => case_Rltb a b
  | |- context [Rleb ?a ?b] => case_Rleb a b
  | |- context [Reqb ?a ?b] => case_Reqb a b
  end; cbv iota).
Ltac str_eval :=
  repeat match goal with
  | |- context [String.eqb ?a ?b] => let v := eval vm_compute in (String.eqb a b) in change (String.eqb a b) with v
  end; cbv iota.

Definition site_ok (c : string) : Prop := c = "C"%string \/ c = "D"%string \/ c = "E"%string.

(** S_d = C_h(T) T^2 Z N R *)
Lemma sd_eq_ch T c z r n : site_ok c -> 0 <= T ->
  exists ch sd, c_h_factor T c = Some ch /\ sd_nzs T c z r n = Some sd /\ sd = ch * T ^ 2 * z * n * r.
Proof.
  intros [-> | [-> | ->] ] HT; cbv delta [c_h_factor sd_nzs] beta; str_eval; split_cmp; try lra;
    (eexists; eexists; split; [reflexivity|split; [reflexivity|]]); try (field; lra); subst; ring.
Qed.

(** rejected arguments *)
Lemma negative_period_rejected T c z r n : T < 0 -> c_h_factor T c = None /\ sd_nzs T c z r n = None.
Proof. intros HT. unfold c_h_factor, sd_nzs. rewrite (proj2 (Rltb_true T 0) HT). split; reflexivity. Qed.
Lemma unknown_site_rejected T d c z r n : ~ site_ok c ->
  c_h_factor T c = None /\ sd_nzs T c z r n = None /\ t_eff d c z r n = None.
Proof.
  intros Hc. unfold site_ok in Hc.
  assert (H1 : String.eqb c "C" = false) by (apply String.eqb_neq; tauto).
  assert (H2 : String.eqb c "D" = false) by (apply String.eqb_neq; tauto).
  assert (H3 : String.eqb c "E" = false) by (apply String.eqb_neq; tauto).
  unfold c_h_factor, sd_nzs, t_eff. rewrite H1, H2, H3. repeat split; destruct (Rltb T 0); reflexivity.
Qed.
Lemma accepted T c : site_ok c -> 0 <= T -> exists ch, c_h_factor T c = Some ch /\ 0 < ch.
Proof.
  intros [-> | [-> | ->] ] HT; cbv delta [c_h_factor] beta; str_eval; split_cmp; try lra;
    (eexists; split; [reflexivity|]); try lra;
    try (apply Rmult_lt_0_compat; [lra|]); try (apply Rdiv_lt_0_compat; [lra|]);
    try (unfold Rpower; apply exp_pos); try (apply pow_lt; lra);
    try (apply Rinv_0_lt_compat; first [lra | apply pow_lt; lra | unfold Rpower; apply exp_pos]);
    try (unfold Rdiv; apply Rmult_lt_0_compat; [lra|apply Rinv_0_lt_compat; lra]);
    try (assert (0 < T * / (1/10)) by (apply Rmult_lt_0_compat; lra); unfold Rdiv in *; lra).
Qed.

(** continuity "to table precision": around every segment boundary b the shape factor varies by at most tol *)
Definition jump_bounded (c : string) (b tol : R) : Prop :=
  forall t, 0 <= t -> b - 1 / 100000 <= t <= b + 1 / 100000 ->
  exists v w, c_h_factor t c = Some v /\ c_h_factor b c = Some w /\ Rabs (v - w) <= tol.

Ltac dec_b :=
  repeat (match goal with
  | |- context [Rltb ?a ?b] =>
      first [ rewrite (proj2 (Rltb_true a b)) by lra | rewrite (proj2 (Rltb_false a b)) by lra ]
  | |- context [Reqb ?a ?b] =>
      first [ rewrite (proj2 (Reqb_true a b)) by lra | rewrite (proj2 (Reqb_false a b)) by lra ]
  end; cbv iota).
Lemma jumps_C : jump_bounded "C" 0 (1/200) /\ jump_bounded "C" (1/10) (1/200) /\ jump_bounded "C" (3/10) (1/200) /\
                jump_bounded "C" (3/2) (1/200) /\ jump_bounded "C" 3 (1/200).
Proof.
  repeat split; intros t Ht0 Ht; cbv delta [c_h_factor] beta; str_eval; dec_b;
    split_cmp; try lra; (eexists; eexists; split; [reflexivity|split; [reflexivity|]]); subst; interval with (i_prec 60).
Qed.
Lemma jumps_D : jump_bounded "D" 0 (1/200) /\ jump_bounded "D" (1/10) (1/200) /\ jump_bounded "D" (14/25) (1/80) /\
                jump_bounded "D" (3/2) (1/200) /\ jump_bounded "D" 3 (1/200).
Proof.
  repeat split; intros t Ht0 Ht; cbv delta [c_h_factor] beta; str_eval; dec_b;
    split_cmp; try lra; (eexists; eexists; split; [reflexivity|split; [reflexivity|]]); subst; interval with (i_prec 60).
Qed.
Lemma jumps_E : jump_bounded "E" 0 (1/200) /\ jump_bounded "E" (1/10) (1/200) /\ jump_bounded "E" 1 (1/200) /\
                jump_bounded "E" (3/2) (1/200) /\ jump_bounded "E" 3 (1/200).
Proof.
  repeat split; intros t Ht0 Ht; cbv delta [c_h_factor] beta; str_eval; dec_b;
    split_cmp; try lra; (eexists; eexists; split; [reflexivity|split; [reflexivity|]]); subst; interval with (i_prec 60).
Qed.

(** effective period inverts the corner-period displacement relation *)
Definition corner_disp (c : string) (z r n : R) : option R :=
  match sd_nzs 3 c z r n with Some sd => Some (sd / (2 * PI) ^ 2 * (981 / 100)) | None => None end.
Ltac dpos k z r n HPI :=
  match goal with |- 0 < ?d /\ _ =>
    assert (Hd : 0 < d) by
      (replace d with ((k * (981 / 100)) * ((z * r * n) * / (2 * PI) ^ 2)) by (field; exact HPI);
       apply Rmult_lt_0_compat; [lra | apply Rmult_lt_0_compat; assumption]) end.
Ltac teff_finish HPI :=
  split; [assumption|];
  match goal with |- context [Rltb ?a ?b] => rewrite (proj2 (Rltb_false a b)); [f_equal; field; auto | ] end;
  match goal with |- _ * ?d <= ?e => replace e with d by (field; exact HPI); nra end.
Lemma teff_inverts c z r n lam dc : site_ok c -> 0 < z * r * n -> lam <= 1 ->
  corner_disp c z r n = Some dc -> 0 < dc /\ t_eff (lam * dc) c z r n = Some (3 * lam).
Proof.
  intros Hc Hpos Hlam. unfold corner_disp.
  assert (Hpi : 0 < (2 * PI) ^ 2) by (apply pow_lt; pose proof PI_RGT_0; lra).
  assert (Hinv : 0 < / (2 * PI) ^ 2) by (now apply Rinv_0_lt_compat).
  assert (Hz : z <> 0) by (intros ->; lra).
  assert (Hr : r <> 0) by (intros ->; lra).
  assert (Hn : n <> 0) by (intros ->; lra).
  assert (HPI : PI <> 0) by (pose proof PI_RGT_0; lra).
  destruct Hc as [-> | [-> | ->] ]; cbv delta [sd_nzs t_eff] beta; str_eval; dec_b; intros H; injection H as <-.
  - dpos (99 / 25) z r n HPI. teff_finish HPI.
  - dpos (321 / 50) z r n HPI. teff_finish HPI.
  - dpos (249 / 25) z r n HPI. teff_finish HPI.
Qed.
Lemma teff_rejects c z r n d dc : site_ok c -> corner_disp c z r n = Some dc -> dc < d -> t_eff d c z r n = None.
Proof.
  intros Hc. unfold corner_disp.
  destruct Hc as [-> | [-> | ->] ]; cbv delta [sd_nzs t_eff] beta; str_eval; dec_b; intros H; injection H as <-; intros Hlt.
  all: match goal with |- context [Rltb ?a ?b] => rewrite (proj2 (Rltb_true a b)); [reflexivity|] end.
  all: match goal with H : ?e < ?x |- ?e' < ?x => replace e' with e; [exact H|field; pose proof PI_RGT_0; lra] end.
Qed.
