(** The generated definitions of gen/Gen_rmpoly.v (re-translated from eqsig/fns/generic.py: remove_poly and
    eqsig/single.py: Signal.remove_poly on every run by translator/py2coq_rmpoly.py) are the hand-written model
    [remove_poly] / [remove_poly_sig] of model/M_signalops.v, for ALL inputs, at R.
    np.polyfit is the oracle: the generated definitions apply their parameter [PF] to the operands of the source call in
    source order; the theorems instantiate it with the model's oracle [polyfit k xs y] and need only that it returns
    k + 1 coefficients (part of the contract [polyfit_ok] of P_C17: with fewer coefficients both sides still agree, with
    more the source raises x to a negative power, which the model does not follow).
    Arithmetic facts used: 0 * x = 0, 0 + x = x, commutativity of * (the source writes c * x^e, the model x^e * c), and
    i * ((1 - 0) / (n - 1)) = i / (n - 1) for the grid: hence R only. *)
From Coq Require Import String.
From Coq Require Import ZArith Reals List Bool Lia Lra.
From EQ Require Import lib.Num lib.NpList lib.NpHelpers lib.PySeq model.M_signalops gen.Gen_rmpoly proofs.P_C17
  proofs.P_gen_helpers.
Import ListNotations.
Local Open Scope R_scope.

(** ** list facts *)
Lemma fold_left_ext_fn {A B} (f g : A -> B -> A) (l : list B) (a : A) :
  (forall x y, f x y = g x y) -> fold_left f l a = fold_left g l a.
Proof. intros E. revert a. induction l as [|b l IH]; intros a; cbn; [reflexivity|]. now rewrite E, IH. Qed.
Lemma fold_left_map_arg {A B C} (f : A -> B -> A) (h : C -> B) (l : list C) (a : A) :
  fold_left f (map h l) a = fold_left (fun x y => f x (h y)) l a.
Proof. revert a. induction l as [|c l IH]; intros a; cbn; [reflexivity|]. apply IH. Qed.
(** a loop that adds one array per round is, entry by entry, a loop that adds one number per round *)
Lemma fold_vec (F : Z -> R -> R) (js : list Z) (g : R -> R) (xs : list R) :
  fold_left (fun (acc : list R) (i : Z) => map2 nadd acc (map (F i) xs)) js (map g xs)
  = map (fun x => fold_left (fun a i => a + F i x) js (g x)) xs.
Proof.
  revert g. induction js as [|j js IH]; intros g; cbn [fold_left]; [reflexivity|].
  rewrite map2_map_same. rewrite (IH (fun x => nadd (g x) (F j x))). reflexivity.
Qed.
Lemma fold_bigsum (G : nat -> R) (n : nat) (a0 : R) :
  fold_left (fun a j => a + G j) (seq 0 n) a0 = a0 + bigsum G n.
Proof.
  induction n as [|n IH]; [cbn; lra|].
  rewrite seq_S, fold_left_app, IH. cbn [fold_left bigsum Nat.add]. lra.
Qed.

(** ** readings *)
Lemma npowH_pow (x : R) (e : nat) : NpHelpers.npow x e = x ^ e.
Proof. induction e as [|e IH]; [reflexivity|]. cbn [NpHelpers.npow pow]. now rewrite IH. Qed.
(** np.linspace(0, 1.0, n) is the model's grid *)
Lemma np_linspace01 (n : nat) : np_linspace (nofZ 0) n1 n = @linspace01 R _ n.
Proof.
  destruct n as [|[|p]].
  - reflexivity.
  - unfold np_linspace, linspace01. cbn [seq map Nat.sub]. numR. f_equal. unfold Rdiv. cbn [Z.of_nat]. lra.
  - unfold np_linspace, linspace01. apply map_ext. intros i. numR.
    replace (S (S p) - 1)%nat with (S p) by lia. unfold Rdiv. ring.
Qed.

(** ** the loop of the source is the model's fitted polynomial *)
Lemma loop_is_polyval (k : nat) (c xs : list R) : length c = S k ->
  fold_left (fun (acc : list R) (i : Z) =>
               map2 nadd acc (map (fun x => nth (Z.to_nat i) c n0 * x) (map (fun x => NpHelpers.npow x (Z.to_nat (Z.sub (Z.of_nat k) i))) xs)))
            (py_range (Z.of_nat (length c))) (map (fun x => nofZ 0 * x) xs)
  = mv (design k xs) c.
Proof.
  intros Hc.
  rewrite (fold_left_ext_fn _
             (fun (acc : list R) (i : Z) =>
                map2 nadd acc (map (fun x => nth (Z.to_nat i) c 0 * NpHelpers.npow x (Z.to_nat (Z.sub (Z.of_nat k) i))) xs))).
  2: { intros acc i. now rewrite map_map. }
  rewrite (fold_vec (fun i x => nth (Z.to_nat i) c 0 * NpHelpers.npow x (Z.to_nat (Z.sub (Z.of_nat k) i)))).
  rewrite (mv_design k xs c Hc). apply map_ext. intros x.
  unfold py_range. rewrite Nat2Z.id, Hc, fold_left_map_arg.
  rewrite (fold_bigsum (fun j => nth (Z.to_nat (Z.of_nat j)) c 0 * NpHelpers.npow x (Z.to_nat (Z.sub (Z.of_nat k) (Z.of_nat j))))).
  numR. rewrite Rmult_0_l, Rplus_0_l. unfold polyval. apply bigsum_ext. intros j Hj.
  rewrite Nat2Z.id, npowH_pow. replace (Z.to_nat (Z.of_nat k - Z.of_nat j)) with (k - j)%nat by lia. reflexivity.
Qed.

(** the oracle of the model as the [PF] of the generated text (operands in source order: x, values, poly_fit) *)
Definition pf_of (polyfit : nat -> list R -> list R -> list R) : list R -> list R -> Z -> list R :=
  fun xs y j => polyfit (Z.to_nat j) xs y.

Theorem gen_remove_poly_eq polyfit (k : nat) (y : list R) :
  length (polyfit k (linspace01 (length y)) y) = S k ->
  gen_remove_poly (pf_of polyfit) y (Z.of_nat k) = remove_poly polyfit k y.
Proof.
  intros Hc. unfold gen_remove_poly, pf_of. cbv zeta. rewrite !Nat2Z.id, np_linspace01.
  unfold remove_poly, remove_poly_with, vsub. f_equal. now apply loop_is_polyval.
Qed.
Theorem gen_sig_remove_poly_eq polyfit (k : nat) (s : @signal R) :
  length (polyfit k (linspace01 (length (s_vals s))) (s_vals s)) = S k ->
  gen_sig_remove_poly (pf_of polyfit) (Z.of_nat k) (s_vals s) = s_vals (remove_poly_sig polyfit k s).
Proof.
  intros Hc. unfold gen_sig_remove_poly, pf_of. cbv zeta. rewrite !Nat2Z.id, np_linspace01.
  unfold remove_poly_sig. cbn [s_vals]. unfold remove_poly, remove_poly_with, vsub. f_equal. now apply loop_is_polyval.
Qed.

(** under the contract of the oracle (P_C17.polyfit_ok) the length hypothesis holds *)
Lemma polyfit_ok_length polyfit : polyfit_ok polyfit ->
  forall k (y : list R), length (polyfit k (linspace01 (length y)) y) = S k.
Proof. intros Hok k y. apply (Hok k (linspace01 (length y)) y). apply linspace01_length. Qed.
Theorem gen_remove_poly_ok polyfit : polyfit_ok polyfit -> forall (k : nat) (y : list R),
  gen_remove_poly (pf_of polyfit) y (Z.of_nat k) = remove_poly polyfit k y.
Proof. intros Hok k y. apply gen_remove_poly_eq. now apply polyfit_ok_length. Qed.
Theorem gen_sig_remove_poly_ok polyfit : polyfit_ok polyfit -> forall (k : nat) (s : @signal R),
  gen_sig_remove_poly (pf_of polyfit) (Z.of_nat k) (s_vals s) = s_vals (remove_poly_sig polyfit k s) /\
  s_dt (remove_poly_sig polyfit k s) = s_dt s.
Proof. intros Hok k s. split; [|reflexivity]. apply gen_sig_remove_poly_eq. now apply polyfit_ok_length. Qed.

(** what is handed to the oracle: the grid np.linspace(0, 1.0, n), the record, the degree -- in this order *)
Theorem gen_remove_poly_oracle_args (PF : list R -> list R -> Z -> list R) (y : list R) (k : Z) :
  gen_remove_poly PF y k = gen_remove_poly (fun xs v j => PF (linspace01 (length y)) y k) y k.
Proof. unfold gen_remove_poly. cbv zeta. now rewrite !Nat2Z.id, np_linspace01. Qed.

Lemma gen_rmpoly_defaults : gen_remove_poly_default_poly_fit = 0%Z /\ gen_sig_remove_poly_default_poly_fit = 0%Z.
Proof. split; reflexivity. Qed.
