(** Proofs for C09 (cumulative intensity measures) at T := R. *)
From Coq Require Import ZArith Reals List Bool Lra Lia.
From EQ Require Import lib.Num lib.NpList lib.Quad model.M_displacements model.M_im proofs.P_C08.
Import ListNotations.
Local Open Scope R_scope.

(** ** small list facts *)
Lemma last_map_ne {A B} (f : A -> B) l d d' : l <> [] -> last (map f l) d' = f (last l d).
Proof. induction l as [|x r IH]; [congruence|]. intros _. destruct r as [|y r]; [reflexivity|].
  cbn [map]. rewrite !last_cons_ne by discriminate. apply IH. discriminate. Qed.
Lemma vsq_opp (a : list R) : vsq (map Ropp a) = vsq a.
Proof. unfold vsq. rewrite map_map. apply map_ext. intros x. numR. ring. Qed.
Lemma vabs_opp (a : list R) : vabs (map Ropp a) = vabs a.
Proof. unfold vabs. rewrite map_map. apply map_ext. intros x. numR. apply Rabs_Ropp. Qed.
Lemma map_opp_scale (l : list R) : map Ropp l = map (Rmult (-1)) l.
Proof. apply map_ext. intros; ring. Qed.
Lemma velo_trap_opp dt (a : list R) : velo_trap dt (map Ropp a) = map Ropp (velo_trap dt a).
Proof. unfold velo_trap. rewrite !map_opp_scale. apply cumtrapz_scale. Qed.
Lemma velo_trap_scale al dt (a : list R) : velo_trap dt (map (Rmult al) a) = map (Rmult al) (velo_trap dt a).
Proof. apply cumtrapz_scale. Qed.
Lemma vsq_scale al (a : list R) : vsq (map (Rmult al) a) = map (Rmult (al * al)) (vsq a).
Proof. unfold vsq. rewrite !map_map. apply map_ext. intros x. numR. ring. Qed.
Lemma vabs_scale al (a : list R) : vabs (map (Rmult al) a) = map (Rmult (Rabs al)) (vabs a).
Proof. unfold vabs. rewrite !map_map. apply map_ext. intros x. numR. apply Rabs_mult. Qed.
Lemma diff_scale c (l : list R) : diff (map (Rmult c) l) = map (Rmult c) (diff l).
Proof. induction l as [|x r IH]; [reflexivity|]. destruct r as [|y r]; [reflexivity|].
  cbn [map diff] in *. rewrite IH. numR. f_equal. ring. Qed.
Lemma velo_trap_length dt (a : list R) : length (velo_trap dt a) = length a.
Proof. apply cumtrapz_length. Qed.
Lemma velo_trap_ne dt (a : list R) : a <> [] -> velo_trap dt a <> [].
Proof. destruct a; [congruence|]. discriminate. Qed.

(** ** lengths *)
Lemma unit_ke_length dt (a : list R) : length (unit_ke dt a) = length a.
Proof.
  unfold unit_ke. rewrite cumsum_length. unfold vabs. rewrite map_length.
  remember (kin_energy (velo_trap dt a)) as ke eqn:E.
  assert (Hl : length ke = length a) by (subst; unfold kin_energy; now rewrite map_length, velo_trap_length).
  destruct ke as [|k0 r]; [now cbn in *|]. unfold ediff1d. cbn [length]. rewrite <- Hl. cbn [length]. f_equal.
  clear. revert k0; induction r as [|y r IH]; intros k0; [reflexivity|]. cbn [diff length]. f_equal. apply IH.
Qed.
Lemma C09_lengths c dt (a : list R) :
  length (arias c dt a) = length a /\ length (cav dt a) = length a /\ length (isv dt a) = length a /\
  length (int_abs_vel dt a) = length a /\ length (int_abs_acc dt a) = length a /\ length (unit_ke dt a) = length a.
Proof.
  unfold arias, cav, isv, int_abs_vel, int_abs_acc, int_abs, vsq, vabs.
  rewrite ?map_length, ?cumtrapz_length, ?cumsum_length, ?map_length, ?velo_trap_length.
  repeat split; auto using unit_ke_length.
Qed.
Lemma cavdp_length g thr dt pps nwin (a : list R) : length (cav_dp g thr dt pps nwin a) = length a.
Proof. unfold cav_dp, times. now rewrite !map_length, seq_length. Qed.

(** ** non-decreasing *)
Lemma C09_monotone c dt (a : list R) : 0 <= c -> 0 <= dt ->
  nondecreasing (arias c dt a) /\ nondecreasing (cav dt a) /\ nondecreasing (isv dt a) /\
  nondecreasing (int_abs_vel dt a) /\ nondecreasing (int_abs_acc dt a) /\ nondecreasing (unit_ke dt a).
Proof.
  intros Hc Hdt.
  assert (Hia : forall x : list R, all_nonneg (map (fun v => nmul (nabs v) dt) x)).
  { intros x y Hy. apply in_map_iff in Hy as (z & <- & _). numR. pose proof (Rabs_pos z). nra. }
  repeat split.
  - apply (nondecreasing_scale c); auto. apply cumtrapz_monotone; auto using all_nonneg_vsq.
  - apply cumtrapz_monotone; auto using all_nonneg_vabs.
  - apply cumtrapz_monotone; auto using all_nonneg_vsq.
  - apply cumsum_monotone, Hia.
  - apply cumsum_monotone, Hia.
  - apply cumsum_monotone, all_nonneg_vabs.
Qed.

(** ** final value = defining quadrature *)
Lemma C09_final_value c dt (a : list R) : a <> [] ->
  last (arias c dt a) 0 = c * trapz dt (vsq a) /\
  last (cav dt a) 0 = trapz dt (vabs a) /\
  last (isv dt a) 0 = trapz dt (vsq (velo_trap dt a)) /\
  last (int_abs_vel dt a) 0 = nsum (map (fun v => Rabs v * dt) (velo_trap dt a)) /\
  last (int_abs_acc dt a) 0 = nsum (map (fun v => Rabs v * dt) a).
Proof.
  intros Ha.
  assert (Hsq : forall l : list R, l <> [] -> vsq l <> []) by (intros [|] ?; [congruence|discriminate]).
  assert (Hab : forall l : list R, l <> [] -> vabs l <> []) by (intros [|] ?; [congruence|discriminate]).
  assert (Hmp : forall (f : R -> R) (l : list R), l <> [] -> map f l <> []) by (intros f [|] ?; [congruence|discriminate]).
  assert (Hct : forall (l : list R), l <> [] -> cumtrapz dt l <> []) by (intros [|] ?; [congruence|discriminate]).
  repeat split.
  - unfold arias. rewrite (last_map_ne (fun x => nmul c x) _ 0) by auto. rewrite last_cumtrapz by auto. reflexivity.
  - unfold cav. apply last_cumtrapz; auto.
  - unfold isv. apply last_cumtrapz. apply Hsq, velo_trap_ne; auto.
  - unfold int_abs_vel, int_abs. apply last_cumsum. apply Hmp, velo_trap_ne; auto.
  - unfold int_abs_acc, int_abs. apply last_cumsum. auto.
Qed.
Lemma C09_final_unit_ke dt (a : list R) : a <> [] ->
  last (unit_ke dt a) 0 =
  nsum (vabs (match kin_energy (velo_trap dt a) with [] => [] | k0 :: _ => ediff1d k0 (kin_energy (velo_trap dt a)) end)).
Proof.
  intros Ha. unfold unit_ke. apply last_cumsum.
  destruct a as [|x r]; [congruence|]. discriminate.
Qed.

(** ** invariant under sign reversal *)
Lemma kin_energy_opp (v : list R) : kin_energy (map Ropp v) = map Ropp (kin_energy v).
Proof. unfold kin_energy. rewrite !map_map. apply map_ext. intros x. numR. rewrite Rabs_Ropp. lra. Qed.
Lemma unit_ke_opp dt (a : list R) : unit_ke dt (map Ropp a) = unit_ke dt a.
Proof.
  unfold unit_ke. rewrite velo_trap_opp, kin_energy_opp. f_equal.
  destruct (kin_energy (velo_trap dt a)) as [|k0 r] eqn:E; [reflexivity|].
  cbn [map]. unfold ediff1d.
  change (Ropp k0 :: map Ropp r) with (map Ropp (k0 :: r)). rewrite (map_opp_scale (k0 :: r)), diff_scale, <- map_opp_scale.
  change (- k0 :: map Ropp (diff (k0 :: r))) with (map Ropp (k0 :: diff (k0 :: r))). apply vabs_opp.
Qed.
Lemma C09_sign_invariant c dt (a : list R) :
  arias c dt (map Ropp a) = arias c dt a /\ cav dt (map Ropp a) = cav dt a /\ isv dt (map Ropp a) = isv dt a /\
  int_abs_vel dt (map Ropp a) = int_abs_vel dt a /\ int_abs_acc dt (map Ropp a) = int_abs_acc dt a /\
  unit_ke dt (map Ropp a) = unit_ke dt a.
Proof.
  unfold arias, cav, isv, int_abs_vel, int_abs_acc, int_abs.
  rewrite velo_trap_opp, !vsq_opp, vabs_opp.
  repeat split; try reflexivity.
  - f_equal. rewrite map_map. apply map_ext. intros x. numR. now rewrite Rabs_Ropp.
  - f_equal. rewrite map_map. apply map_ext. intros x. numR. now rewrite Rabs_Ropp.
  - apply unit_ke_opp.
Qed.

(** ** scaling: alpha^2 for energy-type, |alpha| for CAV-type measures *)
Lemma C09_scaling c dt al (a : list R) :
  arias c dt (map (Rmult al) a) = map (Rmult (al * al)) (arias c dt a) /\
  cav dt (map (Rmult al) a) = map (Rmult (Rabs al)) (cav dt a) /\
  isv dt (map (Rmult al) a) = map (Rmult (al * al)) (isv dt a) /\
  int_abs_vel dt (map (Rmult al) a) = map (Rmult (Rabs al)) (int_abs_vel dt a) /\
  int_abs_acc dt (map (Rmult al) a) = map (Rmult (Rabs al)) (int_abs_acc dt a).
Proof.
  assert (Hia : forall x : list R, map (fun v => nmul (nabs v) dt) (map (Rmult al) x)
                                   = map (Rmult (Rabs al)) (map (fun v => nmul (nabs v) dt) x)).
  { intros x. rewrite !map_map. apply map_ext. intros z. numR. rewrite Rabs_mult. ring. }
  unfold arias, cav, isv, int_abs_vel, int_abs_acc, int_abs. repeat split.
  - rewrite vsq_scale, cumtrapz_scale, !map_map. apply map_ext. intros x. numR. ring.
  - now rewrite vabs_scale, cumtrapz_scale.
  - now rewrite velo_trap_scale, vsq_scale, cumtrapz_scale.
  - now rewrite velo_trap_scale, Hia, cumsum_scale.
  - now rewrite Hia, cumsum_scale.
Qed.
Lemma kin_energy_scale al (v : list R) : kin_energy (map (Rmult al) v) = map (Rmult (al * Rabs al)) (kin_energy v).
Proof. unfold kin_energy. rewrite !map_map. apply map_ext. intros x. numR. rewrite Rabs_mult. lra. Qed.
Lemma C09_scaling_unit_ke dt al (a : list R) : unit_ke dt (map (Rmult al) a) = map (Rmult (al * al)) (unit_ke dt a).
Proof.
  unfold unit_ke. rewrite velo_trap_scale, kin_energy_scale.
  destruct (kin_energy (velo_trap dt a)) as [|k0 r] eqn:E; [reflexivity|].
  cbn [map]. unfold ediff1d.
  change (al * Rabs al * k0 :: map (Rmult (al * Rabs al)) r) with (map (Rmult (al * Rabs al)) (k0 :: r)).
  rewrite diff_scale.
  change (al * Rabs al * k0 :: map (Rmult (al * Rabs al)) (diff (k0 :: r)))
    with (map (Rmult (al * Rabs al)) (k0 :: diff (k0 :: r))).
  rewrite vabs_scale, cumsum_scale.
  replace (Rabs (al * Rabs al)) with (al * al); [reflexivity|].
  rewrite Rabs_mult, Rabs_Rabsolu. unfold Rabs; destruct (Rcase_abs al); lra.
Qed.

(** ** appending zeros to a record that ends at zero changes nothing (acceleration-based measures) *)
Lemma map_repeat' {A B} (f : A -> B) x k : map f (repeat x k) = repeat (f x) k.
Proof. induction k; cbn; [reflexivity|]. now rewrite IHk. Qed.
Lemma map_repeat0 (f : R -> R) k : f 0 = 0 -> map f (repeat 0 k) = repeat 0 k.
Proof. intros Hf. induction k; cbn; [reflexivity|]. now rewrite Hf, IHk. Qed.
Lemma C09_zero_padding c dt (a : list R) k : a <> [] -> last a 0 = 0 ->
  arias c dt (a ++ repeat 0 k) = arias c dt a ++ repeat (last (arias c dt a) 0) k /\
  cav dt (a ++ repeat 0 k) = cav dt a ++ repeat (last (cav dt a) 0) k /\
  int_abs_acc dt (a ++ repeat 0 k) = int_abs_acc dt a ++ repeat (last (int_abs_acc dt a) 0) k.
Proof.
  intros Ha Hl.
  assert (Hne : forall (f : R -> R), map f a <> []) by (intros f; destruct a; [congruence|discriminate]).
  repeat split.
  - unfold arias, vsq. rewrite map_app, map_repeat0 by (numR; ring).
    rewrite cumtrapz_zero_pad; auto.
    + rewrite map_app. f_equal. rewrite map_repeat'. f_equal.
      rewrite (last_map_ne (fun x => nmul c x) _ 0); [reflexivity|]. destruct a; [congruence|discriminate].
    + rewrite (last_map_ne _ _ 0 0 Ha), Hl. numR. ring.
  - unfold cav, vabs. rewrite map_app, map_repeat0 by (numR; apply Rabs_R0).
    apply cumtrapz_zero_pad; auto. rewrite (last_map_ne _ _ 0 0 Ha), Hl. numR. apply Rabs_R0.
  - unfold int_abs_acc, int_abs. rewrite map_app, map_repeat0 by (numR; rewrite Rabs_R0; ring).
    apply cumsum_zero_pad; auto.
Qed.

(** ** standardised CAV: window totals are non-negative, non-decreasing, and zero when no window reaches the gate *)
Lemma trapz_nonneg dx (l : list R) : 0 <= dx -> all_nonneg l -> 0 <= trapz dx l.
Proof.
  intros Hdx Hl. unfold trapz. apply nsum_nonneg. intros x Hx.
  destruct l as [|y r]; [destruct Hx|]. cbn [tl] in Hx.
  assert (Hgen : forall (l1 l2 : list R), all_nonneg l1 -> all_nonneg l2 ->
            all_nonneg (map2 (fun x y => nmul dx (nadd y x) / nofZ 2)%num l1 l2)).
  { induction l1 as [|u l1 IH]; intros [|w l2] H1 H2 z Hz; cbn in Hz; try tauto.
    destruct Hz as [<-|Hz].
    - numR. assert (0 <= u) by (apply H1; now left). assert (0 <= w) by (apply H2; now left). nra.
    - eapply IH; [| |exact Hz]; intros ? ?; [apply H1|apply H2]; now right. }
  eapply Hgen; [| |exact Hx]; auto. intros z Hz; apply Hl; now right.
Qed.
Lemma In_firstn {A} (l : list A) n x : In x (firstn n l) -> In x l.
Proof. revert n; induction l as [|y r IH]; intros [|n] Hx; cbn in *; try tauto. destruct Hx; eauto. Qed.
Lemma cavdp_windows_ge thr dt pps nwin start acc (ag : list R) : 0 <= dt ->
  forall x, In x (cavdp_windows thr dt pps nwin start acc ag) -> acc <= x.
Proof.
  intros Hdt. revert start acc; induction nwin as [|k IH]; intros start acc x Hx; [destruct Hx|].
  cbn [cavdp_windows] in Hx.
  set (absw := vabs (window start (S pps) ag)) in *.
  assert (Hint : 0 <= trapz dt (firstn pps absw)).
  { apply trapz_nonneg; auto. intros y Hy. apply (all_nonneg_vabs (window start (S pps) ag)). eapply In_firstn; eauto. }
  set (acc' := if nltb (nsub (amax absw) thr) n0 then acc else nadd acc (trapz dt (firstn pps absw))) in *.
  assert (Hacc : acc <= acc') by (unfold acc'; destruct (nltb _ _); numR; lra).
  destruct Hx as [<-|Hx]; [exact Hacc|]. apply IH in Hx. lra.
Qed.
Lemma cavdp_windows_monotone thr dt pps nwin start acc (ag : list R) : 0 <= dt ->
  nondecreasing (cavdp_windows thr dt pps nwin start acc ag).
Proof.
  intros Hdt. revert start acc; induction nwin as [|k IH]; intros start acc; [intros i j Hij; cbn in Hij; lia|].
  apply nondecreasing_step. intros i Hi. cbn [cavdp_windows] in *.
  set (acc' := if nltb _ _ then acc else _) in *.
  destruct i as [|i].
  - cbn [nth]. apply (cavdp_windows_ge thr dt pps k (start + pps) acc' ag Hdt). apply nth_In. cbn in Hi. lia.
  - cbn [nth]. apply (IH (start + pps)%nat acc'). cbn in Hi. lia.
Qed.
Lemma cavdp_windows_gate thr dt pps nwin start acc (ag : list R) :
  (forall s, amax (vabs (window s (S pps) ag)) < thr) ->
  cavdp_windows thr dt pps nwin start acc ag = repeat acc nwin.
Proof.
  intros Hg. revert start acc; induction nwin as [|k IH]; intros start acc; [reflexivity|].
  cbn [cavdp_windows repeat]. specialize (Hg start).
  replace (nltb (nsub (amax (vabs (window start (S pps) ag))) thr) n0) with true
    by (symmetry; numR; apply Rltb_true; lra).
  f_equal. apply IH.
Qed.
