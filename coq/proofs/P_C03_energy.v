(** Proofs for the continuous-time energy balance of C03: what DOES hold where the rectangle-rule sign clause is refuted.
    For any solution of  u' = v,  v' = F - 2 xi w v - w^2 u  on [a, b] with F continuous:
      d/dt [ 1/2 v^2 + 1/2 w^2 u^2 ] = F v - 2 xi w v^2,
      int_a^b F v = E(b) - E(a) + 2 xi w int_a^b v^2  >=  - E(a).
    Instantiated (i) with the closed form on one step with a linear load and (ii), in section Record, with any exact
    solution over a whole record ([P_C01.solves]) and the piecewise-linear load [P_C01_glue.pwload]. *)
From Coq Require Import Reals Lra Lia List.
From Coquelicot Require Import Coquelicot.
From EQ Require Import lib.Num lib.NpList model.M_sdof gen.Gen_sdof_coeffs model.M_sdof_R proofs.P_C01 proofs.P_C01_glue.
Import ListNotations.
Local Open Scope R_scope.

Definition energy (w : R) (u v : R -> R) (t : R) : R := 1 / 2 * (v t * v t) + 1 / 2 * (w ^ 2 * (u t * u t)).

Lemma energy_nonneg w u v t : 0 <= energy w u v t.
Proof.
  unfold energy. assert (0 <= v t * v t) by apply Rle_0_sqr. assert (0 <= u t * u t) by apply Rle_0_sqr.
  assert (0 <= w ^ 2) by apply pow2_ge_0. assert (0 <= w ^ 2 * (u t * u t)) by (apply Rmult_le_pos; lra). lra.
Qed.

Section Balance.
Variables xi w : R.
Hypothesis Hw : 0 < w.
Hypothesis Hxi0 : 0 <= xi.

(** the derivative identity (power balance) *)
Lemma energy_deriv (F u v : R -> R) t :
  is_derive u t (v t) -> is_derive v t (F t - 2 * xi * w * v t - w ^ 2 * u t) ->
  is_derive (energy w u v) t (F t * v t - 2 * xi * w * (v t * v t)).
Proof.
  intros Hu Hv. unfold energy. auto_derive.
  - repeat split; eexists; eassumption.
  - assert (Derive (fun x => v x) t = F t - 2 * xi * w * v t - w ^ 2 * u t) as -> by (apply is_derive_unique; exact Hv).
    assert (Derive (fun x => u x) t = v t) as -> by (apply is_derive_unique; exact Hu). field.
Qed.

Section Interval.
Variables (F u v : R -> R) (a b : R).
Hypothesis Hab : a <= b.
Hypothesis Hu : forall t, a <= t <= b -> is_derive u t (v t).
Hypothesis Hv : forall t, a <= t <= b -> is_derive v t (F t - 2 * xi * w * v t - w ^ 2 * u t).
Hypothesis HF : forall t, a <= t <= b -> continuous F t.

Lemma v_cont t : a <= t <= b -> continuous v t.
Proof. intros Ht. apply @ex_derive_continuous. eexists. apply Hv, Ht. Qed.

Lemma power_cont t : a <= t <= b -> continuous (fun t => F t * v t - 2 * xi * w * (v t * v t)) t.
Proof.
  intros Ht. pose proof (v_cont t Ht) as Cv. pose proof (HF t Ht) as CF.
  apply (continuous_minus (fun t => F t * v t) (fun t => 2 * xi * w * (v t * v t))).
  - apply (continuous_mult F v); assumption.
  - apply (continuous_mult (fun _ => 2 * xi * w) (fun t => v t * v t)); [apply continuous_const|].
    apply (continuous_mult v v); assumption.
Qed.

Lemma ex_RInt_Fv : ex_RInt (fun t => F t * v t) a b.
Proof.
  apply (ex_RInt_continuous (fun t => F t * v t)). intros z Hz. rewrite Rmin_left, Rmax_right in Hz by lra.
  apply (continuous_mult F v); [apply HF | apply v_cont]; exact Hz.
Qed.
Lemma ex_RInt_vv : ex_RInt (fun t => v t * v t) a b.
Proof.
  apply (ex_RInt_continuous (fun t => v t * v t)). intros z Hz. rewrite Rmin_left, Rmax_right in Hz by lra.
  apply (continuous_mult v v); apply v_cont; exact Hz.
Qed.

Lemma power_integral :
  is_RInt (fun t => F t * v t - 2 * xi * w * (v t * v t)) a b (energy w u v b - energy w u v a).
Proof.
  apply (is_RInt_derive (energy w u v) (fun t => F t * v t - 2 * xi * w * (v t * v t)) a b).
  - intros x Hx. rewrite Rmin_left, Rmax_right in Hx by lra. apply energy_deriv; [apply Hu | apply Hv]; exact Hx.
  - intros x Hx. rewrite Rmin_left, Rmax_right in Hx by lra. apply power_cont, Hx.
Qed.

(** the energy balance: input energy = change of mechanical energy + dissipated energy *)
Lemma energy_balance :
  RInt (fun t => F t * v t) a b
  = energy w u v b - energy w u v a + 2 * xi * w * RInt (fun t => v t * v t) a b.
Proof.
  pose proof power_integral as HP. pose proof ex_RInt_Fv as E1. pose proof ex_RInt_vv as E2.
  assert (H2 : is_RInt (fun t => minus (F t * v t) (scal (2 * xi * w) (v t * v t))) a b
                 (minus (RInt (fun t => F t * v t) a b) (scal (2 * xi * w) (RInt (fun t => v t * v t) a b)))).
  { apply @is_RInt_minus; [apply @RInt_correct; exact E1|]. apply @is_RInt_scal. apply @RInt_correct. exact E2. }
  apply (is_RInt_ext _ (fun t => F t * v t - 2 * xi * w * (v t * v t))) in H2.
  2:{ intros; unfold minus, plus, opp, scal; simpl; unfold mult; simpl; ring. }
  pose proof (@is_RInt_unique R_CompleteNormedModule _ _ _ _ HP) as U1.
  pose proof (@is_RInt_unique R_CompleteNormedModule _ _ _ _ H2) as U2.
  rewrite U1 in U2. unfold minus, plus, opp, scal in U2; simpl in U2; unfold mult in U2; simpl in U2. lra.
Qed.

Lemma dissipated_nonneg : 0 <= 2 * xi * w * RInt (fun t => v t * v t) a b.
Proof.
  apply Rmult_le_pos; [apply Rmult_le_pos; lra|].
  apply RInt_ge_0; [exact Hab | exact ex_RInt_vv | intros; apply Rle_0_sqr].
Qed.

Lemma input_energy_lower : - energy w u v a <= RInt (fun t => F t * v t) a b.
Proof. rewrite energy_balance. pose proof dissipated_nonneg. pose proof (energy_nonneg w u v b). lra. Qed.
End Interval.
End Balance.

(** * (i) one step of the closed form with a linear load g0 + s t *)
Section OneStepEnergy.
Variables xi w : R.
Hypothesis Hw : 0 < w.
Hypothesis Hxi0 : 0 <= xi.
Hypothesis Hxi1 : xi < 1.

Lemma lin_cont g0 s t : continuous (fun t => g0 + s * t) t.
Proof. apply @ex_derive_continuous. auto_derive. exact I. Qed.

Lemma closed_power u0 v0 g0 s t :
  is_derive (energy w (usol xi w u0 v0 g0 s) (vsol xi w u0 v0 g0 s)) t
    ((g0 + s * t) * vsol xi w u0 v0 g0 s t - 2 * xi * w * (vsol xi w u0 v0 g0 s t * vsol xi w u0 v0 g0 s t)).
Proof.
  apply (energy_deriv xi w (fun t => g0 + s * t)); [now apply usol_deriv | now apply vsol_deriv].
Qed.

Lemma closed_balance u0 v0 g0 s T : 0 <= T ->
  RInt (fun t => (g0 + s * t) * vsol xi w u0 v0 g0 s t) 0 T
  = energy w (usol xi w u0 v0 g0 s) (vsol xi w u0 v0 g0 s) T - (1 / 2 * (v0 * v0) + 1 / 2 * (w ^ 2 * (u0 * u0)))
    + 2 * xi * w * RInt (fun t => vsol xi w u0 v0 g0 s t * vsol xi w u0 v0 g0 s t) 0 T.
Proof.
  intros HT.
  rewrite (energy_balance xi w (fun t => g0 + s * t) (usol xi w u0 v0 g0 s) (vsol xi w u0 v0 g0 s) 0 T HT).
  - unfold energy at 2. rewrite usol_0, vsol_0 by assumption. reflexivity.
  - intros; now apply usol_deriv.
  - intros; now apply vsol_deriv.
  - intros; apply lin_cont.
Qed.

Lemma closed_input_energy_lower u0 v0 g0 s T : 0 <= T ->
  - (1 / 2 * (v0 * v0) + 1 / 2 * (w ^ 2 * (u0 * u0))) <= RInt (fun t => (g0 + s * t) * vsol xi w u0 v0 g0 s t) 0 T.
Proof.
  intros HT.
  pose proof (input_energy_lower xi w Hw Hxi0 (fun t => g0 + s * t) (usol xi w u0 v0 g0 s) (vsol xi w u0 v0 g0 s) 0 T HT) as H.
  unfold energy at 1 in H. rewrite usol_0, vsol_0 in H by assumption. apply H.
  - intros; now apply usol_deriv.
  - intros; now apply vsol_deriv.
  - intros; apply lin_cont.
Qed.

Lemma closed_input_energy_nonneg g0 s T : 0 <= T -> 0 <= RInt (fun t => (g0 + s * t) * vsol xi w 0 0 g0 s t) 0 T.
Proof. intros HT. pose proof (closed_input_energy_lower 0 0 g0 s T HT). lra. Qed.
End OneStepEnergy.

(** * (ii) the whole record: any exact solution in the sense of [P_C01.solves], load = [pwload] *)
Section RecordEnergy.
Variables xi w dt : R.
Hypothesis Hw : 0 < w.
Hypothesis Hxi0 : 0 <= xi.
Hypothesis Hxi1 : xi < 1.
Hypothesis Hdt : 0 < dt.

Lemma solves_on_record (rec : list R) (u v : R -> R) : solves xi w dt rec u v -> (2 <= length rec)%nat ->
  forall t, 0 <= t <= INR (length rec - 1) * dt ->
    is_derive u t (v t) /\ is_derive v t (pwload rec dt t - 2 * xi * w * v t - w ^ 2 * u t).
Proof.
  intros (_ & _ & Hode) Hn t Ht.
  destruct (step_cover dt rec t Hn Ht) as [i [Hi Hit]].
  rewrite (pwload_on_step dt Hdt rec i t Hi Hit). exact (Hode i Hi t Hit).
Qed.

Lemma record_energy_balance (rec : list R) (u v : R -> R) : solves xi w dt rec u v ->
  forall T, 0 <= T <= INR (length rec - 1) * dt ->
  RInt (fun t => pwload rec dt t * v t) 0 T
  = energy w u v T + 2 * xi * w * RInt (fun t => v t * v t) 0 T.
Proof.
  intros Hs T [HT0 HT1]. pose proof Hs as (Hu0 & Hv0 & _).
  assert (E0 : energy w u v 0 = 0) by (unfold energy; rewrite Hu0, Hv0; ring).
  destruct (le_lt_dec 2 (length rec)) as [Hn|Hn].
  - assert (Du : forall t, 0 <= t <= T -> is_derive u t (v t)).
    { intros t Ht. apply (solves_on_record rec u v Hs Hn). lra. }
    assert (Dv : forall t, 0 <= t <= T -> is_derive v t (pwload rec dt t - 2 * xi * w * v t - w ^ 2 * u t)).
    { intros t Ht. apply (solves_on_record rec u v Hs Hn). lra. }
    assert (CF : forall t, 0 <= t <= T -> continuous (pwload rec dt) t).
    { intros t _. apply pwload_cont. exact Hdt. }
    rewrite (energy_balance xi w (pwload rec dt) u v 0 T HT0 Du Dv CF), E0. unfold Rminus. now rewrite Ropp_0, Rplus_0_r.
  - replace (length rec - 1)%nat with 0%nat in HT1 by lia. cbn [INR] in HT1.
    assert (T = 0) as -> by lra. rewrite !RInt_point, E0. unfold zero; simpl. ring.
Qed.

Lemma record_input_energy_nonneg (rec : list R) (u v : R -> R) : solves xi w dt rec u v ->
  forall T, 0 <= T <= INR (length rec - 1) * dt -> 0 <= RInt (fun t => pwload rec dt t * v t) 0 T.
Proof.
  intros Hs T HT. rewrite (record_energy_balance rec u v Hs T HT).
  pose proof (energy_nonneg w u v T) as HE.
  assert (0 <= 2 * xi * w * RInt (fun t => v t * v t) 0 T); [|lra].
  destruct (le_lt_dec 2 (length rec)) as [Hn|Hn].
  - apply (dissipated_nonneg xi w Hw Hxi0 (pwload rec dt) u v 0 T); [lra |].
    intros t Ht. apply (solves_on_record rec u v Hs Hn). lra.
  - destruct HT as [HT0 HT1]. replace (length rec - 1)%nat with 0%nat in HT1 by lia. cbn [INR] in HT1.
    assert (T = 0) as -> by lra. rewrite RInt_point. unfold zero; simpl. lra.
Qed.

(** the statement is not vacuous: the glued solution exists for every record *)
Lemma record_input_energy_nonneg_glued (rec : list R) :
  solves xi w dt rec (glued_u xi w dt rec) (glued_v xi w dt rec) /\
  forall T, 0 <= T <= INR (length rec - 1) * dt -> 0 <= RInt (fun t => pwload rec dt t * glued_v xi w dt rec t) 0 T.
Proof.
  pose proof (glued_solves xi w dt Hw Hxi0 Hxi1 Hdt rec) as Hs. split; [exact Hs|].
  exact (record_input_energy_nonneg rec _ _ Hs).
Qed.
End RecordEnergy.
