(** Proofs for C04 (cache discipline of Signal/AccSignal).  Everything is proved for an arbitrary signature [S]
    (arbitrary numeric functions, transformers and argument types): no axioms, no bounds. *)
From Coq Require Import List Bool Lia Arith.
From EQ Require Import model.M_cache model.K_C04.
Import ListNotations.

Section Proofs.
Context {S : sig}.
Hypothesis Hlen : inplace_keeps_length S.

Local Notation st := (st S).
Local Notation op := (op S).

(** ---- tactics ---- *)
Ltac unf :=
  cbv delta [post out step run_gen run_mut run_sf run_rt ensure_for fetch force_fa ensure_fa force_sm ensure_sm
             force_resp ensure_resp force_dv ensure_dv ensure_pga ensure_pgv ensure_pgd clear_all
             uses_dv uses_pga via_reset put_fa put_sm put_resp put_dv put_params put_vals put_npts put_sf put_rt
             src fresh_of init Inv FlagInv oget o2b
             vals sfq rtm s_npts c_fa s_fa c_sm s_sm c_resp s_resp c_dv s_dv p_pga p_pgv p_pgd fst snd] beta iota zeta in *.
Ltac split_all := repeat match goal with |- _ /\ _ => split end.
(** normalise invariant hypotheses after the flags have been destructed *)
Ltac norm :=
  repeat match goal with
  | H : true = true -> _ |- _ => specialize (H eq_refl)
  | H : false = true -> _ |- _ => clear H
  | H : forall x, None = Some x -> _ |- _ => clear H
  | H : forall x, Some ?y = Some x -> _ |- _ => specialize (H y eq_refl)
  | H : (_, _) = (_, _) |- _ => inversion H; clear H; subst
  | H : Some _ = Some _ |- _ => inversion H; clear H; subst
  | H : _ /\ _ |- _ => destruct H
  end.
Ltac fin := subst; norm; simpl in *; try solve [auto | congruence | discriminate | reflexivity | intros; congruence | symmetry; auto].

Lemma inv_init : forall v sf rt, Inv (init (S:=S) v sf rt).
Proof. intros. unf. split_all; intros; try discriminate; reflexivity. Qed.

(** destruct a state, then only the flags the goal branches on *)
Ltac open_state s := destruct s as [v sf rt n cfa xfa csm xsm cre xre cdv xdv ppga ppgv ppgd].
Ltac cases :=
  repeat match goal with
  | |- context [if ?b then _ else _] => is_var b; destruct b
  | |- context [match ?o with Some _ => _ | None => _ end] => is_var o; destruct o
  | H : context [if ?b then _ else _] |- _ => is_var b; destruct b
  | H : context [match ?o with Some _ => _ | None => _ end] |- _ => is_var o; destruct o
  end.
Ltac inv_goal := split_all; intros; norm; fin.

Lemma inv_step : forall (o : op) s, Inv s -> Inv (post o s).
Proof.
  intros o s H.
  destruct o as [r|g|m a|t a|t a].
  - destruct r; open_state s; unf; cases; norm; inv_goal.
  - destruct g; open_state s; unf; cases; norm; inv_goal.
  - pose proof (Hlen m a) as HL.
    destruct m; open_state s; unf; simpl in HL; cases; norm; inv_goal; try (rewrite HL by reflexivity; fin).
  - destruct t; open_state s; unf; cases; norm; inv_goal.
  - destruct t; open_state s; unf; cases; norm; inv_goal.
Qed.

Lemma inv_run : forall (h : list op) s, Inv s -> Inv (run h s).
Proof. induction h as [|o h IH]; intros s H; simpl; [exact H|]. apply IH, inv_step, H. Qed.

Lemma inv_reachable : forall s : st, reachable s -> Inv s.
Proof. intros s (v & sf & rt & h & ->). apply inv_run, inv_init. Qed.

(** an object on which nothing valid is stale answers one operation like a fresh object with the same sources,
    and the operation leaves both with the same sources *)
Lemma step_fresh : forall (o : op) s, Inv s ->
  out o s = out o (fresh_of s) /\ src (post o s) = src (post o (fresh_of s)).
Proof.
  intros o s H.
  destruct o as [r|g|m a|t a|t a].
  - destruct r; open_state s; unf; cases; norm; split; fin.
  - destruct g; open_state s; unf; cases; norm; split; fin.
  - destruct m; open_state s; unf; cases; norm; split; fin.
  - destruct t; open_state s; unf; cases; norm; split; fin.
  - destruct t; open_state s; unf; cases; norm; split; fin.
Qed.

Lemma fresh_of_src : forall s1 s2 : st, src s1 = src s2 -> fresh_of s1 = fresh_of s2.
Proof. intros [] []; unf; intro E; inversion E; reflexivity. Qed.
Lemma inv_fresh : forall s : st, Inv (fresh_of s).
Proof. intros s. apply inv_init. Qed.
Lemma src_fresh : forall s : st, src (fresh_of s) = src s.
Proof. intros []; reflexivity. Qed.

Lemma step_sim : forall (o : op) s1 s2, Inv s1 -> Inv s2 -> src s1 = src s2 ->
  out o s1 = out o s2 /\ src (post o s1) = src (post o s2).
Proof.
  intros o s1 s2 H1 H2 E.
  destruct (step_fresh o s1 H1) as [A1 B1]. destruct (step_fresh o s2 H2) as [A2 B2].
  rewrite A1, A2, B1, B2, (fresh_of_src _ _ E). split; reflexivity.
Qed.

Lemma outs_sim : forall (h : list op) s1 s2, Inv s1 -> Inv s2 -> src s1 = src s2 ->
  outs h s1 = outs h s2 /\ src (run h s1) = src (run h s2).
Proof.
  induction h as [|o h IH]; intros s1 s2 H1 H2 E; simpl; [split; [reflexivity|exact E]|].
  destruct (step_sim o s1 s2 H1 H2 E) as [A B].
  destruct (IH (post o s1) (post o s2) (inv_step o s1 H1) (inv_step o s2 H2) B) as [C D].
  rewrite A, C. split; [reflexivity|exact D].
Qed.

(** the whole future of an object reached by any history is the future of a fresh object with the same sources *)
Lemma fresh_bisim : forall s : st, reachable s -> forall h : list op,
  outs h s = outs h (fresh_of s) /\ src (run h s) = src (run h (fresh_of s)).
Proof.
  intros s R h. apply outs_sim; [apply inv_reachable, R|apply inv_fresh|symmetry; apply src_fresh].
Qed.

Lemma no_stale_read : forall (s : st) r, reachable s -> out (Read r) s = out (Read r) (fresh_of s).
Proof. intros s r R. apply (step_fresh (Read r) s), inv_reachable, R. Qed.

Lemma fresh_is_spec : forall r v sf rt, out (S:=S) (Read r) (init v sf rt) = Some (spec r v sf rt).
Proof. intros r v sf rt. destruct r; reflexivity. Qed.

Lemma read_is_spec : forall (s : st) r, reachable s -> out (Read r) s = Some (spec r (vals s) (sfq s) (rtm s)).
Proof. intros s r R. rewrite (no_stale_read s r R). apply fresh_is_spec. Qed.

(** reads (and the argument-less generate_* methods) change no source ... *)
Lemma read_src : forall (s : st) r, src (post (Read r) s) = src s.
Proof. intros s r. destruct r; open_state s; unf; cases; reflexivity. Qed.
Lemma gen_src : forall (s : st) g, src (post (Gen g) s) = src s.
Proof. intros s g. destruct g; open_state s; unf; cases; reflexivity. Qed.
(** ... so they change nothing that any later history can observe *)
Lemma read_unobservable : forall (s : st) r, reachable s -> forall h : list op,
  outs h (post (Read r) s) = outs h s.
Proof.
  intros s r R h. apply outs_sim; [apply inv_step, inv_reachable, R|apply inv_reachable, R|apply read_src].
Qed.
Lemma gen_unobservable : forall (s : st) g, reachable s -> forall h : list op,
  outs h (post (Gen g) s) = outs h s.
Proof.
  intros s g R h. apply outs_sim; [apply inv_step, inv_reachable, R|apply inv_reachable, R|apply gen_src].
Qed.
Lemma read_idempotent : forall (s : st) r, reachable s -> out (Read r) (post (Read r) s) = out (Read r) s.
Proof.
  intros s r R. pose proof (read_unobservable s r R [Read r]) as H. simpl in H. congruence.
Qed.

Lemma reachable_step : forall (s : st) o, reachable s -> reachable (post o s).
Proof.
  intros s o (v & sf & rt & h & ->). exists v, sf, rt, (h ++ [o]).
  revert v sf rt. generalize (init (S:=S)). intros i v sf rt. generalize (i v sf rt). clear.
  induction h as [|x h IH]; intros s0; simpl; [reflexivity|apply IH].
Qed.
Lemma reachable_init : forall v sf rt, reachable (init (S:=S) v sf rt).
Proof. intros. exists v, sf, rt, []. reflexivity. Qed.

(** what an operation does to the sources, with the internal reads of the mutators resolved *)
Lemma mut_sources : forall (s : st) m a, reachable s ->
  src (post (Mut m a) s) =
  (gmut m a (vals s) (len (vals s))
        (if uses_dv m then Some (f_dv (vals s)) else None)
        (if uses_pga m then Some (f_pga (vals s)) else None), sfq s, rtm s).
Proof.
  intros s m a R. apply inv_reachable in R.
  destruct m; open_state s; unf; cases; norm; fin.
Qed.
Lemma sf_sources : forall (s : st) t a, src (post (SetSF t a) s) = (vals s, gsf t a (sfq s), rtm s).
Proof. intros s t a. destruct t; open_state s; unf; cases; reflexivity. Qed.
Lemma rt_sources : forall (s : st) t a, src (post (SetRT t a) s) = (vals s, sfq s, grt t a (rtm s)).
Proof. intros s t a. destruct t; open_state s; unf; cases; reflexivity. Qed.

(** flags *)
Lemma mut_clears : forall (s : st) m a, mask (post (Mut m a) s) = 0.
Proof. intros s m a. destruct m; open_state s; unf; cases; reflexivity. Qed.
Lemma flaginv_init : forall v sf rt, FlagInv (init (S:=S) v sf rt).
Proof. intros. unf. split_all; intros; discriminate. Qed.
Lemma flaginv_step : forall (o : op) s, FlagInv s -> FlagInv (post o s).
Proof.
  intros o s H.
  destruct o as [r|g|m a|t a|t a].
  - destruct r; open_state s; unf; cases; norm; inv_goal.
  - destruct g; open_state s; unf; cases; norm; inv_goal.
  - destruct m; open_state s; unf; cases; norm; inv_goal.
  - destruct t; open_state s; unf; cases; norm; inv_goal.
  - destruct t; open_state s; unf; cases; norm; inv_goal.
Qed.
Lemma flaginv_reachable : forall s : st, reachable s -> FlagInv s.
Proof.
  intros s (v & sf & rt & h & ->). generalize (flaginv_init v sf rt). generalize (init (S:=S) v sf rt).
  induction h as [|o h IH]; intros s0 H; simpl; [exact H|]. apply IH, flaginv_step, H.
Qed.
End Proofs.

(** ---- Part 2: the flag states.  The flag part of a step does not depend on the signature, so the flag states that any
    history can reach are those of the trivial signature, computed in model/K_C04.v ([reach_masks], 60 states). ---- *)
Section Flags.
Context {S : sig}.
Definition erase (o : op S) : kop :=
  match o with Read r => KR r | Gen g => KG g | Mut m _ => KM m | SetSF t _ => KS t | SetRT t _ => KT t end.
(** the flags of a state, as the state of the trivial signature with the same flags *)
Definition some_tt {X} (o : option X) : option unit := match o with Some _ => Some tt | None => None end.
Definition shadow (s : st S) : st Sunit :=
  mk (S:=Sunit) tt tt tt 0 (c_fa s) tt (c_sm s) tt (c_resp s) tt (c_dv s) tt (some_tt (p_pga s)) (some_tt (p_pgv s)) (some_tt (p_pgd s)).

Ltac unf :=
  cbv delta [post out step run_gen run_mut run_sf run_rt ensure_for fetch force_fa ensure_fa force_sm ensure_sm
             force_resp ensure_resp force_dv ensure_dv ensure_pga ensure_pgv ensure_pgd clear_all
             uses_dv uses_pga via_reset put_fa put_sm put_resp put_dv put_params put_vals put_npts put_sf put_rt
             shadow some_tt erase to_op
             vals sfq rtm s_npts c_fa s_fa c_sm s_sm c_resp s_resp c_dv s_dv p_pga p_pgv p_pgd fst snd] beta iota zeta in *.
Ltac open_state s := destruct s as [v sf rt n cfa xfa csm xsm cre xre cdv xdv ppga ppgv ppgd].
Ltac cases :=
  repeat match goal with
  | |- context [if ?b then _ else _] => is_var b; destruct b
  | |- context [match ?o with Some _ => _ | None => _ end] => is_var o; destruct o
  end.

(** the flag part of a step does not depend on the signature *)
Lemma shadow_step : forall (o : op S) (s : st S), shadow (post o s) = post (to_op (erase o)) (shadow s).
Proof.
  intros o s. destruct o as [r|g|m a|t a|t a].
  - destruct r; open_state s; unf; cases; reflexivity.
  - destruct g; open_state s; unf; cases; reflexivity.
  - destruct m; open_state s; unf; cases; reflexivity.
  - destruct t; open_state s; unf; cases; reflexivity.
  - destruct t; open_state s; unf; cases; reflexivity.
Qed.
Lemma mask_shadow : forall s : st S, mask (shadow s) = mask s.
Proof. intros s. open_state s. destruct cfa, csm, cre, cdv, ppga, ppgv, ppgd; reflexivity. Qed.
Lemma shadow_canonical : forall s : st S, shadow s = state_of_mask (mask s).
Proof. intros s. open_state s. destruct cfa, csm, cre, cdv, ppga, ppgv, ppgd; reflexivity. Qed.
End Flags.

Lemma memn_In : forall x l, memn x l = true <-> In x l.
Proof.
  intros x l. unfold memn. rewrite existsb_exists. split.
  - intros (y & Hy & E). apply Nat.eqb_eq in E. subst. exact Hy.
  - intros H. exists x. split; [exact H|apply Nat.eqb_refl].
Qed.
(** the computed set is closed under every operation (one evaluation per operation) *)
(** the closure as a literal, so that the per-operation checks below (and an independent re-check by coqchk, which has no VM)
    do not recompute the breadth-first search *)
Definition reach_lit : list nat := [0; 1; 3; 4; 8; 16; 40; 72; 5; 9; 17; 41; 73; 7; 11; 19; 43; 75; 12; 20; 44; 76; 24; 56; 88; 104; 13; 21; 45; 77; 25; 57; 89; 105; 15; 23; 47; 79; 27; 59; 91; 107; 28; 60; 92; 108; 120; 29; 61; 93; 109; 121; 31; 63; 95; 111; 123; 124; 125; 127]%nat.
Lemma reach_lit_eq : reach_masks = reach_lit.
Proof. vm_compute. reflexivity. Qed.
Lemma reach_step_b : forall k, forallb (fun m => memn (mask (post (to_op k) (state_of_mask m))) reach_masks) reach_masks = true.
Proof.
  intros k; rewrite reach_lit_eq; destruct k as [r|g|m|t|t]; [destruct r|destruct g|destruct m|destruct t|destruct t]; vm_compute; reflexivity.
Qed.
Local Opaque reach_masks.
Lemma reach_step : forall m k, In m reach_masks -> In (mask (post (to_op k) (state_of_mask m))) reach_masks.
Proof.
  intros m k Hm. pose proof (reach_step_b k) as H. rewrite forallb_forall in H.
  specialize (H m Hm). apply (proj1 (memn_In _ _)) in H. exact H.
Qed.

Lemma reachable_masks : forall (S : sig) (h : list (op S)) (s : st S), In (mask s) reach_masks -> In (mask (run h s)) reach_masks.
Proof.
  intros S h. induction h as [|o h IH]; intros s H; simpl; [exact H|].
  apply IH. rewrite <- mask_shadow, shadow_step, shadow_canonical. apply reach_step; exact H.
Qed.
Lemma reachable_masks_init : forall (S : sig) (h : list (op S)) v sf rt, In (mask (run h (init (S:=S) v sf rt))) reach_masks.
Proof. intros. apply reachable_masks. apply (proj1 (memn_In _ _)). vm_compute. reflexivity. Qed.
Lemma reach_count : List.length reach_masks = 60.
Proof. vm_compute. reflexivity. Qed.
