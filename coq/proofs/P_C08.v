(** Proofs for C08 (velocity/displacement integration, peak values), at T := R. *)
From Coq Require Import ZArith Reals List Bool Lra Lia.
From EQ Require Import lib.Num lib.NpList model.M_displacements.
Import ListNotations.
Local Open Scope R_scope.

Lemma nth_removelast {A} (l : list A) d i : (S i < length l)%nat -> nth i (removelast l) d = nth i l d.
Proof.
  revert i; induction l as [|x r IH]; intros i Hi; cbn in Hi; [lia|].
  destruct r as [|y r]; [cbn in Hi; lia|]. cbn [removelast].
  destruct i; [reflexivity|]. cbn [nth]. apply IH. cbn in *. lia.
Qed.
Lemma removelast_length {A} (l : list A) : length (removelast l) = pred (length l).
Proof. induction l as [|x r IH]; [reflexivity|]. destruct r; [reflexivity|]. cbn [removelast length] in *. lia. Qed.

(** ** lengths *)
Lemma velo_rect_full_length dt (a : list R) : length (velo_rect_full dt a) = S (length a).
Proof. unfold velo_rect_full. rewrite cumsum_length. cbn. now rewrite map_length. Qed.

Lemma C08_lengths trap dt (a : list R) :
  length (fst (velo_disp trap dt a)) = length a /\ length (snd (velo_disp trap dt a)) = length a.
Proof.
  destruct trap; cbn [velo_disp fst snd]; unfold velo_trap, disp_trap, velo_rect, disp_rect.
  - now rewrite !cumtrapz_length.
  - rewrite !removelast_length, cumsum_length, map_length, velo_rect_full_length. auto.
Qed.

(** ** starts at zero *)
Lemma velo_rect_full_0 dt (a : list R) : nth 0 (velo_rect_full dt a) 0 = 0.
Proof. unfold velo_rect_full. rewrite cumsum_nth_0; cbn; [reflexivity|lia]. Qed.

Lemma C08_start_zero trap dt (a : list R) : a <> [] ->
  nth 0 (fst (velo_disp trap dt a)) 0 = 0 /\ nth 0 (snd (velo_disp trap dt a)) 0 = 0.
Proof.
  intros Ha. assert (0 < length a)%nat by (destruct a; cbn; [congruence|lia]).
  destruct trap; cbn [velo_disp fst snd]; unfold velo_trap, disp_trap, velo_rect, disp_rect.
  - now rewrite !cumtrapz_nth_0.
  - split.
    + rewrite nth_removelast by (rewrite velo_rect_full_length; lia). apply velo_rect_full_0.
    + rewrite nth_removelast by (rewrite cumsum_length, map_length, velo_rect_full_length; lia).
      rewrite cumsum_nth_0 by (rewrite map_length, velo_rect_full_length; lia).
      rewrite nth_map_in with (d' := 0) by (rewrite velo_rect_full_length; lia).
      rewrite velo_rect_full_0. numR. lra.
Qed.

(** ** increments, trapezoid rule *)
Lemma C08_trap_increment_v dt (a : list R) i : (S i < length a)%nat ->
  nth (S i) (fst (velo_disp true dt a)) 0 - nth i (fst (velo_disp true dt a)) 0 = dt * (nth (S i) a 0 + nth i a 0) / 2.
Proof. intros; cbn [velo_disp fst]. now apply cumtrapz_nth_S. Qed.
Lemma C08_trap_increment_d dt (a : list R) i : (S i < length a)%nat ->
  nth (S i) (snd (velo_disp true dt a)) 0 - nth i (snd (velo_disp true dt a)) 0
  = dt * (nth (S i) (fst (velo_disp true dt a)) 0 + nth i (fst (velo_disp true dt a)) 0) / 2.
Proof. intros; cbn [velo_disp fst snd]. unfold disp_trap. apply cumtrapz_nth_S. unfold velo_trap. now rewrite cumtrapz_length. Qed.

(** ** increments, rectangle rule (trap = False) *)
Lemma velo_rect_full_S dt (a : list R) i : (i < length a)%nat ->
  nth (S i) (velo_rect_full dt a) 0 = nth i (velo_rect_full dt a) 0 + nth i a 0 * dt.
Proof.
  intros Hi. unfold velo_rect_full. rewrite cumsum_nth_S by (cbn; rewrite map_length; lia).
  f_equal. cbn [nth]. now rewrite nth_map_in with (d' := 0) by lia.
Qed.
Lemma C08_rect_increment_v dt (a : list R) i : (S i < length a)%nat ->
  nth (S i) (fst (velo_disp false dt a)) 0 - nth i (fst (velo_disp false dt a)) 0 = dt * nth i a 0.
Proof.
  intros Hi; cbn [velo_disp fst]. unfold velo_rect.
  rewrite !nth_removelast by (rewrite velo_rect_full_length; lia).
  rewrite velo_rect_full_S by lia. lra.
Qed.
Lemma C08_rect_increment_d dt (a : list R) i : (S i < length a)%nat ->
  nth (S i) (snd (velo_disp false dt a)) 0 - nth i (snd (velo_disp false dt a)) 0
  = dt * nth (S i) (fst (velo_disp false dt a)) 0.
Proof.
  intros Hi; cbn [velo_disp fst snd]. unfold disp_rect, velo_rect.
  rewrite !nth_removelast by (rewrite ?cumsum_length, ?map_length, velo_rect_full_length; lia).
  rewrite cumsum_nth_S by (rewrite map_length, velo_rect_full_length; lia).
  rewrite nth_map_in with (d' := 0) by (rewrite velo_rect_full_length; lia).
  numR. lra.
Qed.

(** ** linearity *)
Definition lin (al be : R) (a b : list R) : list R := map2 (fun x y => al * x + be * y) a b.

Lemma cumtrapz_from_lin al be dx acc1 acc2 p1 p2 (a b : list R) : length a = length b ->
  cumtrapz_from dx (al * acc1 + be * acc2) (al * p1 + be * p2) (lin al be a b)
  = lin al be (cumtrapz_from dx acc1 p1 a) (cumtrapz_from dx acc2 p2 b).
Proof.
  revert b acc1 acc2 p1 p2; induction a as [|x ra IH]; intros [|y rb] acc1 acc2 p1 p2 Hl; cbn in Hl; try lia; [reflexivity|].
  cbn [lin map2 cumtrapz_from]. numR. f_equal; [lra|].
  fold (lin al be ra rb).
  replace (al * acc1 + be * acc2 + dx * (al * x + be * y + (al * p1 + be * p2)) / 2)
    with (al * (acc1 + dx * (x + p1) / 2) + be * (acc2 + dx * (y + p2) / 2)) by lra.
  apply IH. lia.
Qed.
Lemma cumtrapz_lin al be dx (a b : list R) : length a = length b ->
  cumtrapz dx (lin al be a b) = lin al be (cumtrapz dx a) (cumtrapz dx b).
Proof.
  destruct a as [|x ra], b as [|y rb]; cbn [length]; intros Hl; try lia; [reflexivity|].
  cbn [lin map2 cumtrapz]. numR. f_equal; [lra|]. fold (lin al be ra rb).
  etransitivity; [|apply cumtrapz_from_lin; lia]. f_equal; lra.
Qed.
Lemma cumsum_from_lin al be acc1 acc2 (a b : list R) : length a = length b ->
  cumsum_from (al * acc1 + be * acc2) (lin al be a b) = lin al be (cumsum_from acc1 a) (cumsum_from acc2 b).
Proof.
  revert b acc1 acc2; induction a as [|x ra IH]; intros [|y rb] acc1 acc2 Hl; cbn in Hl; try lia; [reflexivity|].
  cbn [lin map2 cumsum_from]. numR. f_equal; [lra|]. fold (lin al be ra rb).
  replace (al * acc1 + be * acc2 + (al * x + be * y)) with (al * (acc1 + x) + be * (acc2 + y)) by lra.
  apply IH; lia.
Qed.
Lemma cumsum_lin al be (a b : list R) : length a = length b -> cumsum (lin al be a b) = lin al be (cumsum a) (cumsum b).
Proof. intros Hl. unfold cumsum. etransitivity; [|apply cumsum_from_lin; auto]. f_equal. numR. lra. Qed.
Lemma map_scale_lin al be c (a b : list R) :
  map (fun x => nmul x c) (lin al be a b) = lin al be (map (fun x => nmul x c) a) (map (fun x => nmul x c) b).
Proof. revert b; induction a as [|x ra IH]; intros [|y rb]; cbn; auto. numR. f_equal; [lra|]. apply IH. Qed.
Lemma removelast_lin al be (a b : list R) : length a = length b ->
  removelast (lin al be a b) = lin al be (removelast a) (removelast b).
Proof.
  revert b; induction a as [|x ra IH]; intros [|y rb] Hl; cbn in Hl; try lia; [reflexivity|].
  destruct ra as [|x' ra], rb as [|y' rb]; cbn in Hl; try lia; [reflexivity|].
  cbn [lin map2 removelast]. f_equal. apply (IH (y' :: rb)). cbn; lia.
Qed.
Lemma lin_length al be (a b : list R) : length a = length b -> length (lin al be a b) = length a.
Proof. intros Hl. unfold lin. rewrite map2_length. lia. Qed.

Lemma C08_linear trap dt al be (a b : list R) : length a = length b ->
  fst (velo_disp trap dt (lin al be a b)) = lin al be (fst (velo_disp trap dt a)) (fst (velo_disp trap dt b)) /\
  snd (velo_disp trap dt (lin al be a b)) = lin al be (snd (velo_disp trap dt a)) (snd (velo_disp trap dt b)).
Proof.
  intros Hl. destruct trap; cbn [velo_disp fst snd]; unfold disp_trap, velo_trap, disp_rect, velo_rect.
  - rewrite !cumtrapz_lin; auto. now rewrite !cumtrapz_length.
  - assert (Hfull : velo_rect_full dt (lin al be a b) = lin al be (velo_rect_full dt a) (velo_rect_full dt b)).
    { unfold velo_rect_full. rewrite map_scale_lin.
      replace (n0 :: lin al be (map (fun x => nmul x dt) a) (map (fun x => nmul x dt) b))
        with (lin al be (n0 :: map (fun x => nmul x dt) a) (n0 :: map (fun x => nmul x dt) b))
        by (cbn [lin map2]; numR; f_equal; lra).
      apply cumsum_lin. cbn. rewrite !map_length. lia. }
    rewrite Hfull. split.
    + apply removelast_lin. rewrite !velo_rect_full_length. lia.
    + rewrite map_scale_lin, cumsum_lin by (rewrite !map_length, !velo_rect_full_length; lia).
      apply removelast_lin. rewrite !cumsum_length, !map_length, !velo_rect_full_length. lia.
Qed.

(** ** exactness for constant and linearly varying acceleration (trapezoid rule) *)
Lemma C08_exact_constant dt c (a : list R) : (forall i, (i < length a)%nat -> nth i a 0 = c) ->
  forall i, (i < length a)%nat ->
    nth i (fst (velo_disp true dt a)) 0 = c * (INR i * dt) /\
    nth i (snd (velo_disp true dt a)) 0 = c * (INR i * dt) ^ 2 / 2.
Proof.
  intros Hc. cbn [velo_disp fst snd]. unfold disp_trap, velo_trap.
  assert (Hv : forall i, (i < length a)%nat -> nth i (cumtrapz dt a) 0 = c * (INR i * dt)).
  { induction i as [|i IH]; intros Hi.
    - rewrite cumtrapz_nth_0. cbn. lra.
    - pose proof (cumtrapz_nth_S dt a i Hi) as E. rewrite IH in E by lia.
      rewrite !Hc in E by lia. rewrite S_INR. lra. }
  intros i Hi; split; [auto|].
  induction i as [|i IH].
  - rewrite cumtrapz_nth_0. cbn. lra.
  - pose proof (cumtrapz_nth_S dt (cumtrapz dt a) i) as E. rewrite cumtrapz_length in E. specialize (E Hi).
    rewrite IH in E by lia. rewrite !Hv in E by lia. rewrite S_INR in *. nra.
Qed.

Lemma C08_exact_linear dt c (a : list R) : (forall i, (i < length a)%nat -> nth i a 0 = c * (INR i * dt)) ->
  forall i, (i < length a)%nat -> nth i (fst (velo_disp true dt a)) 0 = c * (INR i * dt) ^ 2 / 2.
Proof.
  intros Hc. cbn [velo_disp fst]. unfold velo_trap.
  induction i as [|i IH]; intros Hi.
  - rewrite cumtrapz_nth_0. cbn. lra.
  - pose proof (cumtrapz_nth_S dt a i Hi) as E. rewrite IH in E by lia.
    rewrite !Hc in E by lia. rewrite S_INR in *. nra.
Qed.

(** ** calc_peak = max_i |m_i| *)
Lemma calc_peak_upper (m : list R) y : In y m -> Rabs y <= calc_peak m.
Proof.
  intros Hy. unfold calc_peak. rewrite nmax_R. numR.
  pose proof (amax_ge m y Hy). pose proof (amin_le m y Hy).
  unfold Rabs at 1. destruct (Rcase_abs y).
  - eapply Rle_trans; [|apply Rmax_l]. unfold Rabs. destruct (Rcase_abs (amin m)); lra.
  - eapply Rle_trans; [|apply Rmax_r]. lra.
Qed.
Lemma calc_peak_attained (m : list R) : m <> [] -> exists y, In y m /\ Rabs y = calc_peak m.
Proof.
  intros Hm. unfold calc_peak. rewrite nmax_R. numR.
  pose proof (amax_in m Hm) as Hmax. pose proof (amin_in m Hm) as Hmin.
  pose proof (amin_le m _ Hmax) as Hle.
  unfold Rmax. destruct (Rle_dec (Rabs (amin m)) (amax m)) as [L|L].
  - exists (amax m); split; auto. apply Rabs_pos_eq. pose proof (Rabs_pos (amin m)). lra.
  - exists (amin m); split; auto.
Qed.

Lemma amax_opp (m : list R) : m <> [] -> amax (map Ropp m) = - amin m.
Proof.
  intros Hm. apply Rle_antisym.
  - assert (Hne : map Ropp m <> []) by (destruct m; cbn; congruence).
    pose proof (amax_in _ Hne) as Hin. apply in_map_iff in Hin as (y & <- & Hy).
    pose proof (amin_le m y Hy). lra.
  - apply amax_ge. apply in_map. now apply amin_in.
Qed.
Lemma amin_opp (m : list R) : m <> [] -> amin (map Ropp m) = - amax m.
Proof.
  intros Hm. apply Rle_antisym.
  - apply amin_le. apply in_map. now apply amax_in.
  - assert (Hne : map Ropp m <> []) by (destruct m; cbn; congruence).
    pose proof (amin_in _ Hne) as Hin. apply in_map_iff in Hin as (y & <- & Hy).
    pose proof (amax_ge m y Hy). lra.
Qed.

(** the peak is characterised by the two previous lemmas, hence sign/scale laws *)
Lemma peak_unique (m : list R) p : m <> [] ->
  (forall y, In y m -> Rabs y <= p) -> (exists y, In y m /\ Rabs y = p) -> p = calc_peak m.
Proof.
  intros Hm Hub (y & Hy & <-). apply Rle_antisym; [now apply calc_peak_upper|].
  destruct (calc_peak_attained m Hm) as (z & Hz & <-). auto.
Qed.
Lemma C08_peak_sign_invariant (m : list R) : m <> [] -> calc_peak (map Ropp m) = calc_peak m.
Proof.
  intros Hm. symmetry. apply peak_unique.
  - destruct m; cbn; congruence.
  - intros y Hy. apply in_map_iff in Hy as (z & <- & Hz). rewrite Rabs_Ropp. now apply calc_peak_upper.
  - destruct (calc_peak_attained m Hm) as (z & Hz & E). exists (- z); split; [now apply in_map|]. now rewrite Rabs_Ropp.
Qed.
Lemma C08_peak_scales al (m : list R) : m <> [] -> calc_peak (map (Rmult al) m) = Rabs al * calc_peak m.
Proof.
  intros Hm. symmetry. apply peak_unique.
  - destruct m; cbn; congruence.
  - intros y Hy. apply in_map_iff in Hy as (z & <- & Hz). rewrite Rabs_mult.
    apply Rmult_le_compat_l; [apply Rabs_pos | now apply calc_peak_upper].
  - destruct (calc_peak_attained m Hm) as (z & Hz & E). exists (al * z); split; [now apply in_map|].
    now rewrite Rabs_mult, E.
Qed.
