(** The generated definitions of gen/Gen_c06.v (re-translated from eqsig/single.py and eqsig/fns/frequency.py on every run by
    translator/py2coq_c06.py) are the hand-written model of model/M_fourier.v, for ALL inputs and for every [NumOps] instance
    (so for the Q run of the correspondence and for the R theorems alike).

    np.fft.fft / np.fft.ifft are Section variables of the generated file; here they are instantiated with the array-level
    reading of the defining sums of lib/Dft.v ([model_fft_re] ...: an N-point transform returns the N bins k = 0 .. N-1, N = the
    `n=` argument or, without one, the length of the input).  What is proved is everything AROUND the transform: the
    transform-length rule of each entry point, the number of reported bins int(N / 2), the [range(points)] selection, the dt
    scaling, the frequency grid k / (N dt) (with N read back as len(fa) in the array-level functions), the `assert`s, the
    Hermitian completion of fas2values / fas2signal (zeros(2 len), the two slice assignments, conj + flip, /= dt, [:n]).
    No arithmetic law of the number type is used: the equalities are list identities and integer arithmetic (Z). *)
From Coq Require Import ZArith QArith List Bool Lia.
From EQ Require Import lib.Num lib.NpList lib.PyVal lib.NpArr lib.Dft model.M_fourier gen.Gen_c06.
Import ListNotations.
Local Open Scope num_scope.

(** ** list and integer facts *)
Lemma take_map_zrange {B} (f : Z -> B) (d : B) (m p : nat) : (p <= m)%nat ->
  take d (map f (zrange m)) (seq 0 p) = map f (zrange p).
Proof.
  intros Hp. unfold take, zrange. rewrite !map_map. apply map_ext_in. intros i Hi. apply in_seq in Hi.
  rewrite nth_indep with (d' := f (Z.of_nat 0)) by (rewrite map_length, seq_length; lia).
  rewrite (map_nth (fun x => f (Z.of_nat x)) (seq 0 m) 0%nat i). rewrite seq_nth by lia. reflexivity.
Qed.

Lemma zrange_len n : length (zrange n) = n.
Proof. unfold zrange. now rewrite map_length, seq_length. Qed.

(** int(N / 2) (truncation) and N // 2 (floor) give the same number of bins, for every integer N *)
Lemma points_quot (N : Z) : Z.to_nat (Z.quot N 2) = points N.
Proof.
  unfold points. destruct (Z_lt_le_dec N 0) as [Hn | Hp].
  - assert (H1 : (Z.quot N 2 <= 0)%Z).
    { replace N with (- (- N))%Z by lia. rewrite Z.quot_opp_l by lia.
      pose proof (Z.quot_pos (- N) 2 ltac:(lia) ltac:(lia)). lia. }
    assert (H2 : (N / 2 < 0)%Z) by (apply Z.div_lt_upper_bound; lia).
    lia.
  - now rewrite Z.quot_div_nonneg by lia.
Qed.

Lemma points_le (N : Z) : (points N <= Z.to_nat N)%nat.
Proof.
  unfold points. destruct (Z_lt_le_dec N 0) as [Hn | Hp].
  - assert (H2 : (N / 2 < 0)%Z) by (apply Z.div_lt_upper_bound; lia). lia.
  - apply Z2Nat.inj_le; [apply Z.div_pos; lia | lia |]. apply Z.div_le_upper_bound; lia.
Qed.

Lemma firstn_repeat {A} (z : A) n m : firstn n (repeat z m) = repeat z (Nat.min n m).
Proof. revert m; induction n as [|n IH]; intros [|m]; cbn; try reflexivity. now rewrite IH. Qed.
Lemma skipn_repeat {A} (z : A) n m : skipn n (repeat z m) = repeat z (m - n).
Proof. revert m; induction n as [|n IH]; intros [|m]; cbn; try reflexivity. apply IH. Qed.

(** the two slice assignments of fas2values on np.zeros(2 len): a[1:len] = l; a[len+1:] = l'  (len = 1 + length l) *)
Lemma set_slice_herm {A} (z : A) (l l' : list A) (M : nat) : length l = M ->
  set_slice (S M + 1) None l' (set_slice 1 (Some (S M)) l (repeat z (2 * S M))) = z :: l ++ z :: l'.
Proof.
  intros HM.
  assert (Ein : set_slice 1 (Some (S M)) l (repeat z (2 * S M)) = (z :: l) ++ z :: repeat z M).
  { unfold set_slice. rewrite firstn_repeat, skipn_repeat.
    replace (Nat.min 1 (2 * S M)) with 1%nat by lia. replace (2 * S M - Nat.max 1 (S M))%nat with (S M) by lia. reflexivity. }
  rewrite Ein. unfold set_slice. rewrite skipn_all, app_nil_r.
  rewrite firstn_app. replace (length (z :: l)) with (S M) by (cbn [length]; lia).
  replace (S M + 1 - S M)%nat with 1%nat by lia.
  rewrite firstn_all2 by (cbn [length]; lia). cbn [firstn]. rewrite <- app_assoc. reflexivity.
Qed.

Section Generic.
Context {T : Type} `{NumOps T}.
Variable twc tws : Z -> Z -> T.

(** ** np.fft.fft / np.fft.ifft read as the defining sums (array level) *)
Definition fft_len (nopt : option Z) (a : list T) : Z := match nopt with Some n => n | None => Z.of_nat (length a) end.
Definition model_fft_re (nopt : option Z) (a : list T) : list T :=
  map (dft_re twc (fft_len nopt a) a) (zrange (Z.to_nat (fft_len nopt a))).
Definition model_fft_im (nopt : option Z) (a : list T) : list T :=
  map (dft_im tws (fft_len nopt a) a) (zrange (Z.to_nat (fft_len nopt a))).
Definition model_ifft_re (re im : list T) : list T :=
  map (idft_re twc tws (Z.of_nat (length re)) re im) (zrange (length re)).
Definition model_ifft_im (re im : list T) : list T :=
  map (idft_im twc tws (Z.of_nat (length re)) re im) (zrange (length re)).

Lemma model_fft_len nopt a : (0 <= fft_len nopt a)%Z -> Z.of_nat (length (model_fft_re nopt a)) = fft_len nopt a.
Proof. intros Hn. unfold model_fft_re. rewrite map_length, zrange_len. now apply Z2Nat.id. Qed.

(** ** the three parts of a result, for a transform length N *)
Lemma leaf_re N nopt dt a : fft_len nopt a = N ->
  map (fun x => x * dt) (take n0 (model_fft_re nopt a) (seq 0 (Z.to_nat (Z.quot N 2)))) = fas_re twc N dt a.
Proof.
  intros E. unfold model_fft_re. rewrite E, points_quot, take_map_zrange by apply points_le.
  unfold fas_re. now rewrite map_map.
Qed.
Lemma leaf_im N nopt dt a : fft_len nopt a = N ->
  map (fun x => x * dt) (take n0 (model_fft_im nopt a) (seq 0 (Z.to_nat (Z.quot N 2)))) = fas_im tws N dt a.
Proof.
  intros E. unfold model_fft_im. rewrite E, points_quot, take_map_zrange by apply points_le.
  unfold fas_im. now rewrite map_map.
Qed.
Lemma leaf_freqs N (dt : T) : map (fun x => x / (nofZ N * dt)) (arange (Z.to_nat (Z.quot N 2))) = fa_freqs N dt.
Proof. rewrite points_quot. unfold fa_freqs, arange, of_idx, zrange. now rewrite !map_map. Qed.
Lemma leaf_freqs_len N nopt (dt : T) a : fft_len nopt a = N -> (0 <= N)%Z ->
  map (fun x => x / (nofZ (Z.of_nat (length (model_fft_re nopt a))) * dt)) (arange (Z.to_nat (Z.quot N 2))) = fa_freqs N dt.
Proof. intros E Hn. rewrite model_fft_len by (rewrite E; exact Hn). rewrite E. apply leaf_freqs. Qed.

Lemma pow2_nonneg e : (0 <= 2 ^ e)%Z.
Proof. apply Z.pow_nonneg. lia. Qed.

(** ** Signal.gen_fa_spectrum(p2_plus, n): no guard (the grid uses n_factor itself) *)
Theorem gen_sig_fa_eq (p2 : Z) (nopt : option Z) (dt : T) (a : list T) :
  gen_sig_fa model_fft_re model_fft_im p2 nopt dt a = sig_spectrum twc tws p2 nopt dt a.
Proof.
  unfold gen_sig_fa, sig_spectrum, spectrum, sig_nfft, npts_of, pow2_len.
  destruct nopt as [n|]; (f_equal; [f_equal|]); first [now apply leaf_re | now apply leaf_im | apply leaf_freqs].
Qed.

(** ** generate_fa_spectrum(sig, n_pad): both branches; the grid reads N back as len(fa) *)
Theorem gen_generate_fa_eq (n_pad : bool) (dt : T) (a : list T) :
  gen_generate_fa model_fft_re model_fft_im n_pad dt a = gen_spectrum twc tws n_pad dt a.
Proof.
  unfold gen_generate_fa, gen_spectrum, spectrum, gen_nfft, npts_of, pow2_len. rewrite Z.add_0_r.
  destruct n_pad; (f_equal; [f_equal|]);
    first [now apply leaf_re | now apply leaf_im | apply leaf_freqs_len; [reflexivity | first [apply pow2_nonneg | apply Nat2Z.is_nonneg]]].
Qed.
Theorem gen_generate_fa_asserts_hold (n_pad : bool) (dt : T) (a : list T) :
  gen_generate_fa_asserts model_fft_re n_pad dt a = true.
Proof.
  unfold gen_generate_fa_asserts. destruct n_pad; [|reflexivity].
  apply Z.eqb_eq. apply (model_fft_len (Some _)). apply pow2_nonneg.
Qed.

(** ** calc_fa_spectrum(sig, n, p2_plus): every combination of the two optional arguments.
       Guard: an explicit n is >= 0 (np.fft.fft raises for n < 1; the grid reads N back as len(fa)). *)
Definition n_ok (nopt : option Z) : Prop := match nopt with Some n => (0 <= n)%Z | None => True end.

Theorem gen_calc_fa_eq (nopt p2opt : option Z) (dt : T) (a : list T) : n_ok nopt ->
  gen_calc_fa model_fft_re model_fft_im nopt p2opt dt a = calc_spectrum twc tws nopt p2opt dt a.
Proof.
  intros Hn. unfold gen_calc_fa, calc_spectrum, spectrum, calc_nfft, npts_of, pow2_len.
  destruct p2opt as [p|], nopt as [n|]; (f_equal; [f_equal|]);
    first [now apply leaf_re | now apply leaf_im
          | apply leaf_freqs_len; [reflexivity | first [exact Hn | apply pow2_nonneg | apply Nat2Z.is_nonneg]]].
Qed.
Theorem gen_calc_fa_asserts_hold (nopt p2opt : option Z) (dt : T) (a : list T) : n_ok nopt ->
  gen_calc_fa_asserts model_fft_re nopt p2opt dt a = true.
Proof.
  intros Hn. unfold gen_calc_fa_asserts.
  destruct p2opt as [p|], nopt as [n|]; try reflexivity; apply Z.eqb_eq;
    first [apply (model_fft_len (Some n)); exact Hn | apply (model_fft_len (Some _)); apply pow2_nonneg].
Qed.

(** ** fas2values(fas, dt) and fas2signal(fas, dt, stype): the Hermitian completion.
       Guards: a non-empty half spectrum (np.fft.ifft raises on an empty array) given as equally long real / imaginary parts. *)
Theorem gen_fas2values_eq (re im : list T) (dt : T) : re <> [] -> length im = length re ->
  gen_fas2values (model_ifft_re) (model_ifft_im) re im dt = (fas2values_re twc tws re im dt, fas2values_im twc tws re im dt).
Proof.
  intros Hre Hlen. destruct re as [|r0 l]; [contradiction|]. destruct im as [|i0 li]; [discriminate|].
  cbn [length] in Hlen. injection Hlen as Hlen.
  unfold gen_fas2values, fas2values_re, fas2values_im, herm_re, herm_im, zeros, vopp. cbn [tl length].
  set (M := length l) in *.
  replace (Z.to_nat 1%Z) with 1%nat by reflexivity.
  replace (Z.to_nat (2 * Z.of_nat (S M) / 2 + 1)%Z) with (S M + 1)%nat
    by (rewrite (Z.mul_comm 2), Z.div_mul by lia; lia).
  replace (Z.to_nat (2 * Z.of_nat (S M) / 2)%Z) with (S M) by (rewrite (Z.mul_comm 2), Z.div_mul by lia; lia).
  replace (Z.to_nat (2 * Z.of_nat (S M))%Z) with (2 * S M)%nat by lia.
  rewrite !(set_slice_herm n0 l (rev l) M eq_refl), !(set_slice_herm n0 li (rev (map nopp li)) M Hlen).
  set (A := map (fun x => x / dt) (n0 :: l ++ n0 :: rev l)).
  set (B := map (fun x => x / dt) (n0 :: li ++ n0 :: rev (map nopp li))).
  assert (LA : length A = (2 * S M)%nat).
  { unfold A. rewrite map_length. cbn [length]. rewrite app_length. cbn [length]. rewrite rev_length. fold M. lia. }
  unfold model_ifft_re, model_ifft_im. rewrite LA.
  replace (Z.of_nat (2 * S M)) with (2 * Z.of_nat (S M))%Z by lia.
  rewrite !firstn_all2 by (rewrite map_length, zrange_len; lia).
  replace (Z.to_nat (2 * Z.of_nat (S M))%Z) with (2 * S M)%nat by lia. reflexivity.
Qed.

Theorem gen_fas2signal_eq (re im : list T) (dt : T) :
  gen_fas2signal (model_ifft_re) (model_ifft_im) re im dt = gen_fas2values (model_ifft_re) (model_ifft_im) re im dt.
Proof. reflexivity. Qed.
End Generic.

(** ** defaults of the signatures *)
Lemma gen_c06_defaults :
  gen_sig_fa_default_p2_plus = 0%Z /\ gen_sig_fa_default_n = None /\ gen_generate_fa_default_n_pad = true /\
  gen_calc_fa_default_n = None /\ gen_calc_fa_default_p2_plus = None.
Proof. repeat split; reflexivity. Qed.
