(** Proofs for C07 (Konno-Ohmachi smoothing). Statements are collected in props/Prop_C07.v. *)
From Coq Require Import ZArith QArith Reals List Bool Lra Lia.
From EQ Require Import lib.Num lib.NpList lib.Quad lib.Where model.M_smooth.
Import ListNotations.
Local Open Scope R_scope.

(** * sums *)
Lemma nsum_map_div s (l : list R) : nsum (map (fun x => x / s) l) = nsum l / s.
Proof. induction l as [|x r IH]; cbn [map]; [rewrite !nsum_nil; unfold Rdiv; ring|]. rewrite !nsum_cons, IH. unfold Rdiv; ring. Qed.
Lemma nsum_ge_member (l : list R) y : all_nonneg l -> In y l -> y <= nsum l.
Proof.
  induction l as [|x r IH]; intros Hl Hy; [destruct Hy|]. rewrite nsum_cons.
  assert (Hx : 0 <= x) by (apply Hl; now left).
  assert (Hr : all_nonneg r) by (intros z Hz; apply Hl; now right).
  destruct Hy as [<-|Hy]; [pose proof (nsum_nonneg r Hr); lra | specialize (IH Hr Hy); lra].
Qed.

(** * normalisation of one column *)
Lemma norm_col_length (col : list R) : length (norm_col col) = length col.
Proof. unfold norm_col. cbv zeta. now rewrite map_length. Qed.
Lemma norm_col_sum_one (col : list R) : nsum col <> 0 -> nsum (norm_col col) = 1.
Proof. intros Hs. unfold norm_col. cbv zeta. numR. rewrite nsum_map_div. now field. Qed.
Lemma norm_col_nonneg (col : list R) : all_nonneg col -> 0 < nsum col -> all_nonneg (norm_col col).
Proof.
  intros Hc Hs y Hy. unfold norm_col in Hy. cbv zeta in Hy. apply in_map_iff in Hy as (x & <- & Hx). numR.
  apply Hc in Hx. unfold Rdiv. apply Rmult_le_pos; [exact Hx|]. left. now apply Rinv_0_lt_compat.
Qed.
Lemma norm_col_le_one (col : list R) : all_nonneg col -> 0 < nsum col -> forall y, In y (norm_col col) -> y <= 1.
Proof.
  intros Hc Hs y Hy. unfold norm_col in Hy. cbv zeta in Hy. apply in_map_iff in Hy as (x & <- & Hx). numR.
  pose proof (nsum_ge_member col x Hc Hx). apply Rmult_le_reg_r with (nsum col); [exact Hs|].
  unfold Rdiv. rewrite Rmult_assoc, Rinv_l by lra. lra.
Qed.

(** * weighted mean *)
Lemma wmean_cons a amps c col : wmean (a :: amps) (c :: col) = Rabs a * c + wmean amps col.
Proof. unfold wmean. cbn [map2]. now rewrite nsum_cons. Qed.
Lemma wmean_nil_l col : wmean (@nil R) col = 0. Proof. reflexivity. Qed.
Lemma wmean_nil_r amps : wmean amps (@nil R) = 0. Proof. destruct amps; reflexivity. Qed.

(** between [m * sum] and [M * sum] whenever every |a| lies in [m, M] and the weights are non-negative *)
Lemma wmean_bounds m M (amps col : list R) : length amps = length col ->
  (forall a, In a amps -> m <= Rabs a <= M) -> all_nonneg col ->
  m * nsum col <= wmean amps col <= M * nsum col.
Proof.
  revert col; induction amps as [|a r IH]; intros [|c col] Hlen Ha Hc; cbn in Hlen; try lia.
  - rewrite wmean_nil_l, nsum_nil. lra.
  - rewrite wmean_cons, nsum_cons.
    assert (Hc0 : 0 <= c) by (apply Hc; now left).
    assert (Ha0 : m <= Rabs a <= M) by (apply Ha; now left).
    destruct (IH col) as [I1 I2]; [lia | intros x Hx; apply Ha; now right | intros x Hx; apply Hc; now right |].
    split; nra.
Qed.
Lemma wmean_const c (amps col : list R) : length amps = length col ->
  (forall a, In a amps -> Rabs a = c) -> wmean amps col = c * nsum col.
Proof.
  revert col; induction amps as [|a r IH]; intros [|x col] Hlen Ha; cbn in Hlen; try lia.
  - rewrite wmean_nil_l, nsum_nil. lra.
  - rewrite wmean_cons, nsum_cons, (IH col); [|lia|intros y Hy; apply Ha; now right].
    rewrite (Ha a) by now left. ring.
Qed.
Lemma wmean_scale al (amps col : list R) : wmean (map (Rmult al) amps) col = Rabs al * wmean amps col.
Proof.
  revert col; induction amps as [|a r IH]; intros [|x col]; cbn [map]; rewrite ?wmean_nil_l, ?wmean_nil_r; try lra.
  rewrite !wmean_cons, IH, Rabs_mult. ring.
Qed.
(** additive on spectra (the absolute values add when both amplitudes are non-negative) *)
Lemma wmean_add (a1 a2 col : list R) : length a1 = length a2 -> all_nonneg a1 -> all_nonneg a2 ->
  wmean (map2 Rplus a1 a2) col = wmean a1 col + wmean a2 col.
Proof.
  revert a2 col; induction a1 as [|x r IH]; intros [|y a2] [|c col] Hlen H1 H2; cbn in Hlen; try lia;
    cbn [map2]; rewrite ?wmean_nil_l, ?wmean_nil_r; try lra.
  rewrite !wmean_cons, IH; [|lia|intros z Hz; apply H1; now right|intros z Hz; apply H2; now right].
  assert (0 <= x) by (apply H1; now left). assert (0 <= y) by (apply H2; now left).
  rewrite !Rabs_pos_eq by lra. ring.
Qed.
Lemma amps_abs_bounds (amps : list R) a : In a amps -> amin (vabs amps) <= Rabs a <= amax (vabs amps).
Proof. intros Ha. assert (In (Rabs a) (vabs amps)) by (unfold vabs; now apply (in_map Rabs)). split; [now apply amin_le | now apply amax_ge]. Qed.

(** * one smoothed value, for an arbitrary non-negative window [w] *)
Section AnyWindow.
Variable w : R -> R -> R.
Hypothesis w_nonneg : forall f fc, 0 <= w f fc.

Lemma raw_col_nonneg freqs fc : all_nonneg (raw_col w freqs fc).
Proof. intros y Hy. unfold raw_col in Hy. apply in_map_iff in Hy as (f & <- & _). apply w_nonneg. Qed.
Lemma raw_col_length freqs fc : length (raw_col w freqs fc) = length freqs.
Proof. unfold raw_col. now rewrite map_length. Qed.
Lemma ko_col_length freqs fc : length (ko_col w freqs fc) = length freqs.
Proof. unfold ko_col. now rewrite norm_col_length, raw_col_length. Qed.

Lemma gen_weights_nonneg freqs fc : 0 < nsum (raw_col w freqs fc) -> all_nonneg (ko_col w freqs fc).
Proof. intros Hs. apply norm_col_nonneg; [apply raw_col_nonneg | exact Hs]. Qed.
Lemma gen_weights_sum_one freqs fc : 0 < nsum (raw_col w freqs fc) -> nsum (ko_col w freqs fc) = 1.
Proof. intros Hs. apply norm_col_sum_one. lra. Qed.
Lemma gen_between freqs amps fc : length amps = length freqs -> 0 < nsum (raw_col w freqs fc) ->
  amin (vabs amps) <= wmean amps (ko_col w freqs fc) <= amax (vabs amps).
Proof.
  intros Hlen Hs.
  pose proof (wmean_bounds (amin (vabs amps)) (amax (vabs amps)) amps (ko_col w freqs fc)) as HB.
  rewrite gen_weights_sum_one in HB by exact Hs. rewrite !Rmult_1_r in HB. apply HB.
  - now rewrite ko_col_length.
  - apply amps_abs_bounds.
  - now apply gen_weights_nonneg.
Qed.
Lemma gen_constant c freqs amps fc : length amps = length freqs -> 0 < nsum (raw_col w freqs fc) ->
  (forall a, In a amps -> Rabs a = c) -> wmean amps (ko_col w freqs fc) = c.
Proof.
  intros Hlen Hs Hc. rewrite (wmean_const c); [|now rewrite ko_col_length|exact Hc].
  rewrite gen_weights_sum_one by exact Hs. ring.
Qed.
End AnyWindow.

(** * the Konno-Ohmachi window *)
Lemma ln10_pos : 0 < ln 10.
Proof. rewrite <- ln_1. apply ln_increasing; lra. Qed.
Lemma pow4_nonneg y : 0 <= y ^ 4.
Proof. replace (y ^ 4) with ((y * y) * (y * y)) by ring. nra. Qed.
Lemma pow4_pos y : y <> 0 -> 0 < y ^ 4.
Proof. intros Hy. replace (y ^ 4) with ((y * y) * (y * y)) by ring. assert (0 < y * y) by nra. nra. Qed.

Lemma ko_w_nonneg b f fc : 0 <= ko_w b f fc.
Proof. unfold ko_w. destruct (Reqb _ 0); [lra | apply pow4_nonneg]. Qed.

Lemma abs_sin_le x : Rabs (sin x) <= Rabs x.
Proof.
  destruct (Rtotal_order x 0) as [Hx|[->|Hx]].
  - destruct (Rle_or_lt (-1) x) as [H1|H1].
    + assert (sin x < 0) by (apply sin_lt_0_var; [pose proof PI_RGT_0; pose proof PI2_3_2; unfold PI2 in *; lra | lra]).
      pose proof (sin_gt_x x Hx). rewrite !Rabs_left by lra. lra.
    + pose proof (SIN_bound x) as [S1 S2]. rewrite (Rabs_left x) by lra. unfold Rabs. destruct (Rcase_abs (sin x)); lra.
  - rewrite sin_0, Rabs_R0. lra.
  - destruct (Rle_or_lt x 1) as [H1|H1].
    + assert (0 < sin x) by (apply sin_gt_0; [lra | pose proof PI2_3_2; unfold PI2 in *; lra]).
      pose proof (sin_lt_x x Hx). rewrite !Rabs_right by lra. lra.
    + pose proof (SIN_bound x) as [S1 S2]. rewrite (Rabs_right x) by lra. unfold Rabs. destruct (Rcase_abs (sin x)); lra.
Qed.
Lemma sinc4_le_one x : x <> 0 -> (sin x / x) ^ 4 <= 1.
Proof.
  intros Hx. assert (Hq : Rabs (sin x / x) <= 1).
  { unfold Rdiv. rewrite Rabs_mult, Rabs_inv. pose proof (abs_sin_le x). assert (0 < Rabs x) by now apply Rabs_pos_lt.
    apply Rmult_le_reg_r with (Rabs x); [assumption|]. rewrite Rmult_assoc, Rinv_l by lra. lra. }
  set (y := sin x / x) in *. replace (y ^ 4) with ((y * y) * (y * y)) by ring.
  assert (0 <= y * y <= 1). { split; [nra|]. unfold Rabs in Hq. destruct (Rcase_abs y); nra. }
  nra.
Qed.
Lemma ko_w_le_one b f fc : ko_w b f fc <= 1.
Proof. unfold ko_w. destruct (Reqb _ 0) eqn:E; [lra|]. apply Reqb_false in E. now apply sinc4_le_one. Qed.

(** on the grid: weight exactly 1 (the 0/0 of the formula is never evaluated) *)
Lemma ko_arg_on_grid b fc : fc <> 0 -> ko_arg b fc fc = 0.
Proof. intros Hf. unfold ko_arg, log10. replace (fc / fc) with 1 by now field. rewrite ln_1. unfold Rdiv. ring. Qed.
Lemma ko_w_on_grid b fc : fc <> 0 -> ko_w b fc fc = 1.
Proof. intros Hf. unfold ko_w. rewrite ko_arg_on_grid by exact Hf. now rewrite (proj2 (Reqb_true 0 0) eq_refl). Qed.

(** off the grid the argument is non-zero, so the weight is the (sin x / x)^4 formula *)
Lemma ko_arg_off_grid b f fc : 0 < f -> 0 < fc -> f <> fc -> b <> 0 -> ko_arg b f fc <> 0.
Proof.
  intros Hf Hfc Hne Hb. unfold ko_arg, log10.
  assert (0 < f / fc) by (apply Rdiv_lt_0_compat; assumption).
  assert (f / fc <> 1). { intros E. apply Hne. apply (f_equal (fun z => z * fc)) in E. unfold Rdiv in E. rewrite Rmult_assoc, Rinv_l in E by lra. lra. }
  pose proof (ln_neq_0 (f / fc) H0 H) as Hl. pose proof ln10_pos.
  intros E. apply Rmult_integral in E as [E|E]; [contradiction|].
  unfold Rdiv in E. apply Rmult_integral in E as [E|E]; [contradiction|].
  assert (/ ln 10 <> 0) by (apply Rinv_neq_0_compat; lra). contradiction.
Qed.
Lemma ko_w_off_grid b f fc : 0 < f -> 0 < fc -> f <> fc -> b <> 0 ->
  ko_w b f fc = (sin (ko_arg b f fc) / ko_arg b f fc) ^ 4.
Proof.
  intros Hf Hfc Hne Hb. unfold ko_w. pose proof (ko_arg_off_grid b f fc Hf Hfc Hne Hb) as Hx.
  now rewrite (proj2 (Reqb_false _ 0) Hx).
Qed.

(** a window in log-frequency: depends only on the ratio f/fc, symmetric under f <-> fc *)
Lemma ko_w_ratio b k f fc : k <> 0 -> fc <> 0 -> ko_w b (k * f) (k * fc) = ko_w b f fc.
Proof. intros Hk Hfc. unfold ko_w, ko_arg. replace (k * f / (k * fc)) with (f / fc) by now field. reflexivity. Qed.
Lemma ko_arg_swap b f fc : 0 < f -> 0 < fc -> ko_arg b fc f = - ko_arg b f fc.
Proof.
  intros Hf Hfc. unfold ko_arg, log10, Rdiv. rewrite !ln_mult, !ln_Rinv; try assumption; try (apply Rinv_0_lt_compat; assumption). ring.
Qed.
Lemma ko_w_symmetric b f fc : 0 < f -> 0 < fc -> ko_w b fc f = ko_w b f fc.
Proof.
  intros Hf Hfc. unfold ko_w. rewrite (ko_arg_swap b f fc Hf Hfc). set (x := ko_arg b f fc).
  case_Reqb x 0.
  - rewrite (proj2 (Reqb_true (- x) 0)) by lra. reflexivity.
  - rewrite (proj2 (Reqb_false (- x) 0)) by lra. rewrite sin_neg.
    replace (- sin x / - x) with (sin x / x) by now field. reflexivity.
Qed.

(** strictly positive inside the main lobe |x| < pi *)
Lemma sin_neq_0_lobe x : x <> 0 -> Rabs x < PI -> sin x <> 0.
Proof.
  intros Hx Hl. destruct (Rtotal_order x 0) as [H|[H|H]]; [|contradiction|].
  - rewrite Rabs_left in Hl by lra. assert (sin x < 0) by (apply sin_lt_0_var; lra). lra.
  - rewrite Rabs_right in Hl by lra. assert (0 < sin x) by (apply sin_gt_0; lra). lra.
Qed.
Lemma ko_w_pos_lobe b f fc : Rabs (ko_arg b f fc) < PI -> 0 < ko_w b f fc.
Proof.
  intros Hl. unfold ko_w. case_Reqb (ko_arg b f fc) 0; [lra|].
  apply pow4_pos. pose proof (sin_neq_0_lobe _ Heq Hl). unfold Rdiv. apply Rmult_integral_contrapositive_currified; [assumption|].
  now apply Rinv_neq_0_compat.
Qed.

(** the hypothesis [0 < sum of raw weights] of the theorems below is met ... *)
(** ... whenever some Fourier frequency lies inside the main lobe of the target *)
Lemma ko_sum_pos_lobe b freqs fc : (exists f, In f freqs /\ Rabs (ko_arg b f fc) < PI) -> 0 < nsum (ko_raw b freqs fc).
Proof.
  intros (f & Hin & Hl). pose proof (ko_w_pos_lobe b f fc Hl).
  assert (ko_w b f fc <= nsum (ko_raw b freqs fc)); [|lra].
  apply nsum_ge_member; [apply raw_col_nonneg, ko_w_nonneg|]. unfold ko_raw, raw_col. apply (in_map (fun f0 => ko_w b f0 fc)). exact Hin.
Qed.
(** ... and whenever the target coincides with a Fourier frequency (then the sum is at least 1: finite, no 0/0) *)
Lemma ko_sum_ge_one_on_grid b freqs fc : In fc freqs -> fc <> 0 -> 1 <= nsum (ko_raw b freqs fc).
Proof.
  intros Hin Hfc. rewrite <- (ko_w_on_grid b fc Hfc) at 1.
  apply nsum_ge_member; [apply raw_col_nonneg, ko_w_nonneg|]. unfold ko_raw, raw_col. apply (in_map (fun f0 => ko_w b f0 fc)). exact Hin.
Qed.

(** * the clauses for one target frequency *)
Lemma C07_weights_nonneg b freqs fc : 0 < nsum (ko_raw b freqs fc) -> forall y, In y (ko_weights b freqs fc) -> 0 <= y <= 1.
Proof.
  intros Hs y Hy. split.
  - apply (gen_weights_nonneg (ko_w b) (ko_w_nonneg b) freqs fc Hs y Hy).
  - apply (norm_col_le_one (ko_raw b freqs fc)); [apply raw_col_nonneg, ko_w_nonneg | exact Hs | exact Hy].
Qed.
Lemma C07_weights_sum_one b freqs fc : 0 < nsum (ko_raw b freqs fc) -> nsum (ko_weights b freqs fc) = 1.
Proof. apply gen_weights_sum_one. Qed.
Lemma C07_weights_length b freqs fc : length (ko_weights b freqs fc) = length freqs.
Proof. apply ko_col_length. Qed.
Lemma C07_weight_formula b freqs fc i : (i < length freqs)%nat ->
  nth i (ko_weights b freqs fc) 0 = ko_w b (nth i freqs 0) fc / nsum (ko_raw b freqs fc).
Proof.
  intros Hi. unfold ko_weights, ko_col, norm_col. cbv zeta. fold (ko_raw b freqs fc).
  rewrite (nth_map_in _ _ _ _ 0) by (unfold ko_raw; now rewrite raw_col_length).
  unfold ko_raw at 1, raw_col. rewrite (nth_map_in _ _ _ _ 0) by exact Hi. reflexivity.
Qed.

(** * whole arrays *)
Lemma smooth_length b freqs amps targets : length (smooth b freqs amps targets) = length targets.
Proof. unfold smooth, smooth_gen. cbv zeta. now rewrite map_length. Qed.
Lemma smooth_nth b freqs amps targets k : (k < length targets)%nat ->
  nth k (smooth b freqs amps targets) 0 =
  wmean (drop_zero_a freqs amps) (ko_weights b (drop_zero_f freqs) (nth k targets 0)).
Proof. intros Hk. unfold smooth, smooth_gen. cbv zeta. now rewrite (nth_map_in _ _ _ _ 0) by exact Hk. Qed.

Definition pos_cols b fr targets : Prop := forall fc, In fc targets -> 0 < nsum (ko_raw b fr fc).

Lemma C07_between_min_max b freqs amps targets :
  let fr := drop_zero_f freqs in let am := drop_zero_a freqs amps in
  length am = length fr -> pos_cols b fr targets ->
  forall y, In y (smooth b freqs amps targets) -> amin (vabs am) <= y <= amax (vabs am).
Proof.
  intros fr am Hlen Hpos y Hy. unfold smooth, smooth_gen in Hy. cbv zeta in Hy.
  apply in_map_iff in Hy as (fc & <- & Hfc). fold fr am. apply gen_between; [apply ko_w_nonneg | exact Hlen | now apply Hpos].
Qed.
Lemma C07_constant_reproduced b c freqs amps targets :
  let fr := drop_zero_f freqs in let am := drop_zero_a freqs amps in
  length am = length fr -> pos_cols b fr targets -> (forall a, In a am -> Rabs a = c) ->
  smooth b freqs amps targets = map (fun _ => c) targets.
Proof.
  intros fr am Hlen Hpos Hc. unfold smooth, smooth_gen. cbv zeta. fold fr am. apply map_ext_in. intros fc Hfc.
  apply gen_constant; [exact Hlen | now apply Hpos | exact Hc].
Qed.
Lemma drop_zero_a_scale al freqs (amps : list R) : drop_zero_a freqs (map (Rmult al) amps) = map (Rmult al) (drop_zero_a freqs amps).
Proof. unfold drop_zero_a. destruct freqs as [|f0 fr]; [reflexivity|]. destruct (neqb f0 n0); [|reflexivity]. now destruct amps. Qed.
Lemma C07_scales_linearly b al freqs amps targets :
  smooth b freqs (map (Rmult al) amps) targets = map (Rmult (Rabs al)) (smooth b freqs amps targets).
Proof.
  unfold smooth, smooth_gen. cbv zeta. rewrite map_map, drop_zero_a_scale. apply map_ext. intros fc. apply wmean_scale.
Qed.
Lemma drop_zero_a_add freqs (a1 a2 : list R) : drop_zero_a freqs (map2 Rplus a1 a2) = map2 Rplus (drop_zero_a freqs a1) (drop_zero_a freqs a2).
Proof. unfold drop_zero_a. destruct freqs as [|f0 fr]; [reflexivity|]. destruct (neqb f0 n0); [|reflexivity]. destruct a1, a2; try reflexivity. cbn. now destruct a1. Qed.
Lemma all_nonneg_tl (l : list R) : all_nonneg l -> all_nonneg (tl l).
Proof. intros Hl x Hx. destruct l; [destruct Hx|]. apply Hl. now right. Qed.
Lemma C07_additive_nonneg b freqs a1 a2 targets : length a1 = length a2 -> all_nonneg a1 -> all_nonneg a2 ->
  smooth b freqs (map2 Rplus a1 a2) targets = map2 Rplus (smooth b freqs a1 targets) (smooth b freqs a2 targets).
Proof.
  intros Hlen H1 H2. unfold smooth, smooth_gen. cbv zeta. rewrite drop_zero_a_add.
  assert (Hl' : length (drop_zero_a freqs a1) = length (drop_zero_a freqs a2)).
  { unfold drop_zero_a. destruct freqs as [|f0 fr]; [exact Hlen|]. destruct (neqb f0 n0); [|exact Hlen]. destruct a1, a2; cbn in *; lia. }
  assert (N1 : all_nonneg (drop_zero_a freqs a1)).
  { unfold drop_zero_a. destruct freqs as [|f0 fr]; [exact H1|]. destruct (neqb f0 n0); [now apply all_nonneg_tl|exact H1]. }
  assert (N2 : all_nonneg (drop_zero_a freqs a2)).
  { unfold drop_zero_a. destruct freqs as [|f0 fr]; [exact H2|]. destruct (neqb f0 n0); [now apply all_nonneg_tl|exact H2]. }
  induction targets as [|fc r IH]; [reflexivity|]. cbn [map map2]. rewrite IH. f_equal. now apply wmean_add.
Qed.

(** matrix form = direct form, for frequency arrays that start with the zero bin (what Signal objects produce;
    the matrix route always discards bin 0 of the spectrum) *)
Lemma C07_matrix_eq_direct b fr amps targets :
  smooth_w_matrix amps (smoothing_matrix b (0 :: fr) targets) = smooth b (0 :: fr) amps targets.
Proof.
  unfold smooth_w_matrix, smoothing_matrix, matrix_gen, smooth, smooth_gen, drop_zero_f, drop_zero_a. cbv zeta.
  numR. rewrite (proj2 (Reqb_true 0 0) eq_refl). rewrite map_map. reflexivity.
Qed.
(** without a zero bin the direct form keeps every amplitude *)
Lemma C07_no_zero_bin b f0 fr amps targets : f0 <> 0 ->
  smooth b (f0 :: fr) amps targets = map (fun fc => wmean amps (ko_weights b (f0 :: fr) fc)) targets.
Proof.
  intros Hf. unfold smooth, smooth_gen, drop_zero_f, drop_zero_a. cbv zeta. numR. rewrite (proj2 (Reqb_false f0 0) Hf). reflexivity.
Qed.
Lemma C07_default_targets b freqs amps : smooth_default b freqs amps = smooth b freqs amps (drop_zero_f freqs).
Proof. reflexivity. Qed.
(** on-grid targets (in particular the default ones) need no positivity hypothesis *)
Lemma pos_cols_on_grid b fr targets : (forall fc, In fc targets -> In fc fr /\ fc <> 0) -> pos_cols b fr targets.
Proof. intros H fc Hfc. destruct (H fc Hfc) as [H1 H2]. pose proof (ko_sum_ge_one_on_grid b fr fc H1 H2). lra. Qed.

(** * bandwidth limits *)
Definition nondecr (l : list R) : Prop := forall i j, (i <= j < length l)%nat -> nth i l 0 <= nth j l 0.

Lemma first_last_above_spec lim (s : list R) :
  match first_last_above lim s with
  | None => forall k, (k < length s)%nat -> nth k s 0 <= lim
  | Some (i, j) => first_last 0 (fun x => Rltb lim x) s i j
  end.
Proof.
  unfold first_last_above. cbv zeta. numR. pose proof (where_first_last 0 (fun x => Rltb lim x) s) as H.
  destruct (where_idx (fun x => Rltb lim x) s) as [|i r]; [|exact H].
  intros k Hk. specialize (H k Hk). now apply Rltb_false in H.
Qed.
Lemma first_last_above_ordered lim (s : list R) i j : first_last_above lim s = Some (i, j) -> (i <= j < length s)%nat.
Proof. intros E. pose proof (first_last_above_spec lim s) as H. rewrite E in H. apply H. Qed.
Lemma first_last_above_brackets lim (s : list R) k : (k < length s)%nat -> lim < nth k s 0 ->
  exists i j, first_last_above lim s = Some (i, j) /\ (i <= k <= j)%nat.
Proof.
  intros Hk Hgt. pose proof (first_last_above_spec lim s) as H. destruct (first_last_above lim s) as [[i j]|].
  - exists i, j. split; [reflexivity|]. destruct H as (H1 & H2 & H3 & H4 & H5). split.
    + destruct (le_lt_dec i k); [assumption|]. specialize (H4 k l). apply Rltb_false in H4. lra.
    + destruct (le_lt_dec k j); [assumption|]. assert (Hf : Rltb lim (nth k s 0) = false) by (apply H5; lia). apply Rltb_false in Hf. lra.
  - specialize (H k Hk). lra.
Qed.

Lemma C07_bandwidth_def ratio (s : list R) :
  match bw_idx ratio s with
  | None => forall k, (k < length s)%nat -> nth k s 0 <= amax s * ratio
  | Some (i, j) => first_last 0 (fun x => Rltb (amax s * ratio) x) s i j
  end.
Proof. apply first_last_above_spec. Qed.
Lemma C07_bandwidth_ordered ratio (s freqs : list R) fmin fmax : nondecr freqs -> (length s <= length freqs)%nat ->
  bandwidth_freqs ratio s freqs = Some (fmin, fmax) -> fmin <= fmax.
Proof.
  intros Hf Hlen E. unfold bandwidth_freqs, take_pair, bw_idx in E.
  destruct (first_last_above _ s) as [[i j]|] eqn:Efl; [|discriminate]. inversion E; subst.
  apply first_last_above_ordered in Efl. apply Hf. lia.
Qed.
Lemma C07_bandwidth_brackets_peak ratio (s freqs : list R) k : nondecr freqs -> length s = length freqs ->
  0 < ratio < 1 -> 0 < amax s -> (k < length s)%nat -> nth k s 0 = amax s ->
  exists fmin fmax, bandwidth_freqs ratio s freqs = Some (fmin, fmax) /\ fmin <= nth k freqs 0 <= fmax.
Proof.
  intros Hf Hlen Hr Hmax Hk Hpk. numR.
  destruct (first_last_above_brackets (amax s * ratio) s k Hk) as (i & j & E & Hij); [rewrite Hpk; nra|].
  pose proof (first_last_above_ordered _ _ _ _ E) as Ho.
  exists (nth i freqs 0), (nth j freqs 0). unfold bandwidth_freqs, bw_idx. numR. rewrite E. cbn [take_pair]. numR.
  split; [reflexivity|]. split; apply Hf; lia.
Qed.
(** a peak index always exists on a non-empty spectrum *)
Lemma amax_attained (s : list R) : s <> [] -> exists k, (k < length s)%nat /\ nth k s 0 = amax s.
Proof. intros Hs. pose proof (amax_in s Hs) as Hin. apply (In_nth _ _ 0) in Hin as (k & Hk & E). now exists k. Qed.
(** where the implementation raises IndexError *)
Lemma C07_bandwidth_none ratio (s freqs : list R) : 0 <= amax s -> 1 <= ratio -> bandwidth_freqs ratio s freqs = None.
Proof.
  intros Hm Hr. unfold bandwidth_freqs, bw_idx, first_last_above. cbv zeta. numR.
  destruct (where_idx (fun x => Rltb (amax s * ratio) x) s) as [|i r] eqn:E; [reflexivity|].
  assert (Hin : In i (where_idx (fun x => Rltb (amax s * ratio) x) s)) by (rewrite E; now left).
  apply (where_idx_In 0) in Hin as [Hi Hp]. apply Rltb_true in Hp.
  assert (nth i s 0 <= amax s) by (apply amax_ge, nth_In; exact Hi). nra.
Qed.

(** get_sig_array_indexes_range / get_sig_freq_range: limit max/ratio *)
Lemma C07_sig_range_def ratio (s : list R) :
  match sig_idx_range ratio s with
  | None => forall k, (k < length s)%nat -> nth k s 0 <= amax s / ratio
  | Some (i, j) => first_last 0 (fun x => Rltb (amax s / ratio) x) s i j
  end.
Proof. apply first_last_above_spec. Qed.
Lemma C07_sig_range_brackets_peak ratio (s freqs : list R) k : nondecr freqs -> length s = length freqs ->
  1 < ratio -> 0 < amax s -> (k < length s)%nat -> nth k s 0 = amax s ->
  exists fmin fmax, sig_freq_range ratio s freqs = Some (fmin, fmax) /\ fmin <= nth k freqs 0 <= fmax.
Proof.
  intros Hf Hlen Hr Hmax Hk Hpk. numR.
  assert (Hlim : amax s / ratio < amax s).
  { apply Rmult_lt_reg_r with ratio; [lra|]. unfold Rdiv. rewrite Rmult_assoc, Rinv_l by lra. nra. }
  destruct (first_last_above_brackets (amax s / ratio) s k Hk) as (i & j & E & Hij); [rewrite Hpk; exact Hlim|].
  pose proof (first_last_above_ordered _ _ _ _ E) as Ho.
  exists (nth i freqs 0), (nth j freqs 0). unfold sig_freq_range, sig_idx_range. numR. rewrite E. cbn [take_pair]. numR.
  split; [reflexivity|]. split; apply Hf; lia.
Qed.

(** * the Q run of the generic plumbing is an evaluation of the R model on rational inputs *)
Lemma nsum_transfer l l' : Forall2 rel l l' -> rel (nsum l) (nsum l').
Proof.
  unfold nsum. generalize (@n0 Q _) (@n0 R _) rel_0. intros a x Hax HF. revert a x Hax.
  induction HF; intros a x0 Hax; cbn [fold_left]; [exact Hax|]. apply IHHF. auto with rel.
Qed.
Lemma wmean_transfer a a' c c' : Forall2 rel a a' -> Forall2 rel c c' -> rel (wmean a c) (wmean a' c').
Proof. intros Ha Hc. unfold wmean. apply nsum_transfer. apply map2_transfer; auto with rel. Qed.
Lemma tl_transfer (l : list Q) (l' : list R) : Forall2 rel l l' -> Forall2 rel (tl l) (tl l').
Proof. intros H; destruct H; cbn; [constructor | assumption]. Qed.
Lemma smooth_w_matrix_transfer a a' cols cols' : Forall2 rel a a' -> Forall2 (Forall2 rel) cols cols' ->
  Forall2 rel (smooth_w_matrix a cols) (smooth_w_matrix a' cols').
Proof.
  intros Ha Hc. unfold smooth_w_matrix. induction Hc; cbn [map]; constructor; [|assumption].
  apply wmean_transfer; [now apply tl_transfer | assumption].
Qed.
Lemma nmax_transfer a b x y : rel a x -> rel b y -> rel (nmax a b) (nmax x y).
Proof. intros Ha Hb. unfold nmax. rewrite (rel_ltb a b x y Ha Hb). destruct (nltb x y); assumption. Qed.
Lemma amax_transfer l l' : Forall2 rel l l' -> rel (amax l) (amax l').
Proof.
  intros HF. destruct HF as [|a x l l' Hax HF]; cbn [amax]; [apply rel_0|].
  revert a x Hax. induction HF; intros a0 x0 Hax; cbn [fold_left]; [exact Hax|]. apply IHHF. now apply nmax_transfer.
Qed.
Lemma first_last_above_transfer lim lim' s s' : rel lim lim' -> Forall2 rel s s' -> first_last_above lim s = first_last_above lim' s'.
Proof.
  intros Hl HF. unfold first_last_above, where_idx. cbv zeta.
  rewrite (where_from_ext2 (fun x => nltb lim x) (fun y => nltb lim' y) 0 s s'); [reflexivity|].
  induction HF; constructor; [now apply rel_ltb | assumption].
Qed.
Lemma bw_idx_transfer r r' s s' : rel r r' -> Forall2 rel s s' -> bw_idx r s = bw_idx r' s'.
Proof. intros Hr HF. unfold bw_idx. apply first_last_above_transfer; [|assumption]. apply rel_mul; [now apply amax_transfer | assumption]. Qed.
Lemma sig_idx_range_transfer r r' s s' : rel r r' -> Forall2 rel s s' -> sig_idx_range r s = sig_idx_range r' s'.
Proof. intros Hr HF. unfold sig_idx_range. apply first_last_above_transfer; [|assumption]. apply rel_div; [now apply amax_transfer | assumption]. Qed.
