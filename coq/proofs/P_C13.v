(** Proofs for C13 at T := R: peak-only series (conservation of total variation, signed sums, shift invariance)
    and the power-law equivalent-cycle functions. *)
From Coq Require Import ZArith Reals List Bool Lra Lia.
From EQ Require Import lib.Num lib.NpList lib.Quad lib.Where model.M_peaks model.M_cycles proofs.P_C11 proofs.P_C12.
Import ListNotations.
Local Open Scope R_scope.

Lemma rpow_pos x y : 0 < x -> rpow x y = Rpower x y.
Proof. intros Hx. unfold rpow. destruct (Rlt_dec 0 x); [reflexivity|contradiction]. Qed.

(** ** sums *)
Lemma nsum_app (l m : list R) : nsum (l ++ m) = nsum l + nsum m.
Proof. induction l as [|x r IH]; cbn [app]; [rewrite nsum_nil; lra|]. rewrite !nsum_cons, IH. lra. Qed.
Lemma nsum_map_ext {A} (f g : A -> R) l : (forall a, In a l -> f a = g a) -> nsum (map f l) = nsum (map g l).
Proof. intros E. f_equal. apply map_ext_in. exact E. Qed.

(** ** scatter = zeros + put on an ascending index list *)
Lemma scatter_length i n idx (vals : list R) : length (scatter i n idx vals) = n.
Proof.
  revert i idx vals; induction n as [|n IH]; intros i idx vals; cbn [scatter]; [reflexivity|].
  destruct idx as [|p ir]; [cbn; now rewrite IH|]. destruct vals as [|v vr]; [cbn; now rewrite IH|].
  destruct (Nat.eqb p i); cbn; now rewrite IH.
Qed.
Definition within (i n : nat) (idx : list nat) : Prop := forall p, In p idx -> (i <= p < i + n)%nat.
Lemma scatter_sum (g : R -> R) : g 0 = 0 -> forall n i idx vals, ascending idx -> within i n idx ->
  length idx = length vals -> nsum (map g (scatter i n idx vals)) = nsum (map g vals).
Proof.
  intros g0. induction n as [|n IH]; intros i idx vals Ha Hw Hl.
  - destruct idx as [|p ir]; [destruct vals; [reflexivity|discriminate]|]. specialize (Hw p (or_introl eq_refl)). lia.
  - cbn [scatter]. destruct idx as [|p ir].
    + destruct vals; [|discriminate]. cbn [map]. rewrite nsum_cons. change (@n0 R NumR) with 0. rewrite g0.
      rewrite IH; [cbn [map]; lra|constructor|intros ? []|reflexivity].
    + destruct vals as [|v vr]; [discriminate|]. inversion Ha as [|? ? Hlt Har]; subst.
      destruct (Nat.eqb p i) eqn:E.
      * apply Nat.eqb_eq in E. subst p. cbn [map]. rewrite !nsum_cons. f_equal. apply IH; auto.
        intros r Hr. specialize (Hlt r Hr). specialize (Hw r (or_intror Hr)). lia.
      * apply Nat.eqb_neq in E. cbn [map]. rewrite nsum_cons. change (@n0 R NumR) with 0. rewrite g0.
        rewrite IH; [cbn [map]; lra|exact Ha| |exact Hl].
        intros r Hr. pose proof (Hw r Hr). pose proof (Hw p (or_introl eq_refl)). destruct Hr as [<-|Hr]; [lia|]. specialize (Hlt r Hr). lia.
Qed.
Lemma scatter_nth_off i n idx (vals : list R) k : (k < n)%nat -> ~ In (i + k)%nat idx -> nth k (scatter i n idx vals) 0 = 0.
Proof.
  revert i idx vals k; induction n as [|n IH]; intros i idx vals k Hk Hn; [lia|]. cbn [scatter].
  destruct idx as [|p ir]; [destruct k; [reflexivity|]; cbn [nth]; apply IH; [lia|intros []]|].
  destruct vals as [|v vr]; [destruct k; [reflexivity|]; cbn [nth]; apply IH; [lia|]; now replace (S i + k)%nat with (i + S k)%nat by lia|].
  destruct (Nat.eqb p i) eqn:E.
  - apply Nat.eqb_eq in E. subst p. destruct k; [exfalso; apply Hn; left; lia|]. cbn [nth]. apply IH; [lia|].
    replace (S i + k)%nat with (i + S k)%nat by lia. intros Hin. apply Hn. now right.
  - destruct k; [reflexivity|]. cbn [nth]. apply IH; [lia|]. now replace (S i + k)%nat with (i + S k)%nat by lia.
Qed.

(** ** total variation by index ranges *)
Definition stepabs (xs : list R) (k : nat) : R := Rabs (xat xs (S k) - xat xs k).
(** variation over the d steps starting at index a *)
Definition tvs (xs : list R) (a d : nat) : R := nsum (map (stepabs xs) (seq a d)).
Lemma tvs_split xs a d e : tvs xs a (d + e) = tvs xs a d + tvs xs (a + d) e.
Proof. unfold tvs. now rewrite seq_app, map_app, nsum_app. Qed.
Lemma tvs_0 xs a : tvs xs a 0 = 0. Proof. reflexivity. Qed.
Lemma tvs_S xs a d : tvs xs a (S d) = tvs xs a d + stepabs xs (a + d).
Proof. replace (S d) with (d + 1)%nat by lia. rewrite tvs_split. f_equal. unfold tvs. cbn [seq map]. rewrite nsum_cons, nsum_nil. lra. Qed.
Lemma tvs_mono s xs a d : sdir s -> (forall k, (a <= k < a + d)%nat -> s * xat xs k <= s * xat xs (S k)) ->
  tvs xs a d = s * (xat xs (a + d) - xat xs a).
Proof.
  intros Hs. induction d as [|d IH]; intros Hm.
  - rewrite tvs_0, Nat.add_0_r. lra.
  - rewrite tvs_S, IH by (intros k Hk; apply Hm; lia). specialize (Hm (a + d)%nat ltac:(lia)).
    unfold stepabs. replace (a + S d)%nat with (S (a + d)) by lia.
    destruct Hs as [-> | ->].
    + rewrite Rabs_pos_eq by lra. lra.
    + rewrite Rabs_left1 by lra. lra.
Qed.
Lemma tvs_const xs a d : (forall k, (a <= k <= a + d)%nat -> xat xs k = xat xs a) -> tvs xs a d = 0.
Proof.
  intros Hc. rewrite (tvs_mono 1 xs a d (or_introl eq_refl)).
  - rewrite (Hc (a + d)%nat) by lia. lra.
  - intros k Hk. rewrite (Hc k), (Hc (S k)) by lia. lra.
Qed.
Lemma diff_as_map (xs : list R) : diff xs = map (fun k => xat xs (S k) - xat xs k) (seq 0 (length xs - 1)).
Proof.
  induction xs as [|x r IH]; [reflexivity|]. destruct r as [|y r']; [reflexivity|].
  cbn [length]. replace (S (S (length r')) - 1)%nat with (S (length r')) by lia.
  cbn [seq map]. change (diff (x :: y :: r')) with ((y - x) :: diff (y :: r')). f_equal.
  rewrite IH. cbn [length]. replace (S (length r') - 1)%nat with (length r') by lia.
  rewrite <- seq_shift, map_map. reflexivity.
Qed.
Lemma tv_tvs (xs : list R) : tv xs = tvs xs 0 (length xs - 1).
Proof. unfold tv, tvs, vabs. rewrite diff_as_map, map_map. reflexivity. Qed.

(** ** consecutive elements of a list *)
Fixpoint consec (P : nat -> nat -> Prop) (l : list nat) : Prop :=
  match l with p :: ((q :: _) as r) => P p q /\ consec P r | _ => True end.
Lemma consec_impl (P Q : nat -> nat -> Prop) l : (forall p q, P p q -> Q p q) -> consec P l -> consec Q l.
Proof.
  intros HPQ. induction l as [|p r IH]; [auto|]. destruct r as [|q t]; [auto|].
  intros [H1 H2]. split; [auto|]. apply IH. exact H2.
Qed.
(** in a strictly ascending list, consecutive elements have no element of the list strictly between them *)
Lemma asc_consec (whole l : list nat) : ascending l -> incl l whole ->
  (forall r, In r whole -> In r l \/ (forall x, In x l -> (r < x)%nat)) ->
  consec (fun p q => In p whole /\ In q whole /\ (p < q)%nat /\ forall r, In r whole -> ~ (p < r < q)%nat) l.
Proof.
  induction l as [|p rest IH]; intros Ha Hi Hw; [exact I|]. destruct rest as [|q t]; [exact I|].
  inversion Ha as [|? ? Hlt Har]; subst. inversion Har as [|? ? Hlt2 Har2]; subst.
  split.
  - split; [apply Hi; now left|]. split; [apply Hi; right; now left|]. split; [apply Hlt; now left|].
    intros r Hr Hb. destruct (Hw r Hr) as [Hin|Hsm].
    + destruct Hin as [<-|[<-|Hin]]; [lia|lia|]. specialize (Hlt2 r Hin). lia.
    + specialize (Hsm p (or_introl eq_refl)). lia.
  - apply IH; [exact Har|intros x Hx; apply Hi; now right|].
    intros r Hr. destruct (Hw r Hr) as [Hin|Hsm].
    + destruct Hin as [<-|Hin]; [right; intros x Hx; now apply Hlt|now left].
    + right. intros x Hx. apply Hsm. now right.
Qed.
Lemma peaks_consec (xs : list R) :
  consec (fun p q => mono_between 1 xs p q \/ mono_between (-1) xs p q) (peaks xs) /\
  consec (fun p q => In p (peaks xs) /\ In q (peaks xs) /\ (p < q)%nat /\ no_reported_between xs p q) (peaks xs).
Proof.
  assert (H : consec (fun p q => In p (peaks xs) /\ In q (peaks xs) /\ (p < q)%nat /\ no_reported_between xs p q) (peaks xs)).
  { apply asc_consec; [apply C11_ascending|apply incl_refl|intros r Hr; now left]. }
  split; [|exact H]. revert H. apply consec_impl. intros p q (Hp & Hq & Hpq & Hn). now apply C11_monotone_between.
Qed.

(** sum over consecutive pairs *)
Fixpoint segsum (f : nat -> nat -> R) (ps : list nat) : R :=
  match ps with p :: ((q :: _) as r) => f p q + segsum f r | _ => 0 end.
Lemma diff_map_segsum (g : nat -> R) (h : R -> R) ps :
  nsum (map h (diff (map g ps))) = segsum (fun p q => h (g q - g p)) ps.
Proof.
  induction ps as [|p r IH]; [reflexivity|]. destruct r as [|q t]; [reflexivity|].
  change (diff (map g (p :: q :: t))) with ((g q - g p) :: diff (map g (q :: t))).
  cbn [map segsum]. rewrite nsum_cons. cbn [map] in IH. rewrite IH. reflexivity.
Qed.
Lemma mono_between_lt s xs p q : mono_between s xs p q -> p <> q.
Proof. intros [_ H] ->. lra. Qed.
(** the variation between consecutive reported peaks adds up to the variation from the first to the last of them *)
Lemma segsum_tvs (xs : list R) ps : ascending ps ->
  consec (fun p q => mono_between 1 xs p q \/ mono_between (-1) xs p q) ps ->
  segsum (fun p q => Rabs (xat xs q - xat xs p)) ps = tvs xs (hd 0%nat ps) (last ps 0%nat - hd 0%nat ps).
Proof.
  induction ps as [|p r IH]; intros Ha Hc; [reflexivity|]. destruct r as [|q t]; [cbn; now rewrite Nat.sub_diag|].
  destruct Hc as [Hm Hc]. inversion Ha as [|? ? Hlt Har]; subst.
  assert (Hpq : (p < q)%nat) by (apply Hlt; now left).
  assert (Hql : (q <= last (q :: t) 0)%nat) by (apply ascending_last_max; [exact Har|now left]).
  assert (E : forall f, segsum f (p :: q :: t) = f p q + segsum f (q :: t)) by reflexivity. rewrite E, (IH Har Hc). cbn [hd]. rewrite (last_cons_ne p (q :: t)) by discriminate.
  replace (last (q :: t) 0 - p)%nat with ((q - p) + (last (q :: t) 0 - q))%nat by lia.
  rewrite tvs_split. replace (p + (q - p))%nat with q by lia. f_equal.
  destruct Hm as [[M1 M2]|[M1 M2]].
  - rewrite (tvs_mono 1 xs p (q - p) (or_introl eq_refl)) by (intros k Hk; apply M1; lia).
    replace (p + (q - p))%nat with q by lia. rewrite Rabs_pos_eq by lra. lra.
  - rewrite (tvs_mono (-1) xs p (q - p) (or_intror eq_refl)) by (intros k Hk; apply M1; lia).
    replace (p + (q - p))%nat with q by lia. rewrite Rabs_left1 by lra. lra.
Qed.

Lemma Rabs_sdir s : sdir s -> Rabs s = 1.
Proof. intros [-> | ->]; [apply Rabs_R1|rewrite Rabs_left; lra]. Qed.

(** ** the peak list of a non-empty / non-constant series *)
Lemma peaks_head (xs : list R) : xs <> [] -> exists r, peaks xs = 0%nat :: r.
Proof.
  intros Hne. pose proof (C11_first_is_0 xs Hne) as H0. destruct (peaks xs) as [|p r]; [discriminate|].
  cbn in H0. subst. eauto.
Qed.
Lemma peaks_within (xs : list R) : within 0 (length xs) (peaks xs).
Proof. intros p Hp. apply C11_exact in Hp. lia. Qed.
Lemma diff_length (l : list R) : length (diff l) = (length l - 1)%nat.
Proof. now rewrite diff_as_map, map_length, seq_length. Qed.
Lemma first_up_ne (xs : list R) : first_up xs <> None -> xs <> [].
Proof. intros H ->. apply H. reflexivity. Qed.
Lemma sgn_first_sdir (xs : list R) : first_up xs <> None -> sdir (sgn_first xs).
Proof.
  unfold sgn_first. destruct (first_up xs) as [[|]|]; intros H; [left|right|congruence]; numR; lra.
Qed.
Lemma last_xat (xs : list R) : last xs 0 = xat xs (length xs - 1).
Proof.
  induction xs as [|x r IH]; [reflexivity|]. destruct r as [|y t]; [reflexivity|].
  rewrite (last_cons_ne x (y :: t)) by discriminate. rewrite IH. cbn [length].
  replace (S (S (length t)) - 1)%nat with (S (S (length t) - 1)) by lia. reflexivity.
Qed.
Lemma last_is_final (xs : list R) : xs <> [] -> last xs 0 = xat xs (final_start xs).
Proof.
  intros Hne. rewrite last_xat. apply final_run_constant. pose proof (final_start_lt xs Hne). lia.
Qed.
Lemma tv_to_final (xs : list R) : xs <> [] -> tv xs = tvs xs 0 (final_start xs).
Proof.
  intros Hne. pose proof (final_start_lt xs Hne) as Hf. rewrite tv_tvs.
  replace (length xs - 1)%nat with (final_start xs + (length xs - 1 - final_start xs))%nat by lia.
  rewrite tvs_split. cbn [Nat.add]. rewrite (tvs_const xs (final_start xs)); [lra|].
  intros k Hk. apply final_run_constant. lia.
Qed.
Lemma delta_vals_length (xs : list R) (s : R) ps : ps <> [] ->
  length ps = length (0 :: map (fun d => s * d) (diff (map (xat xs) ps))).
Proof. intros Hne. cbn [length]. rewrite map_length, diff_length, map_length. destruct ps; [congruence|cbn; lia]. Qed.

(** peaks-only delta series: zero away from the reported peaks *)
Lemma C13_delta_length (xs : list R) : length (delta_series xs) = length xs.
Proof. apply scatter_length. Qed.
Lemma C13_delta_support (xs : list R) i : (i < length xs)%nat -> ~ In i (peaks xs) -> nth i (delta_series xs) 0 = 0.
Proof. intros Hi Hn. unfold delta_series. apply scatter_nth_off; auto. Qed.
(** segment sums over the peak list *)
Lemma peaks_segsum_tv (xs : list R) : xs <> [] ->
  segsum (fun p q => Rabs (xat xs q - xat xs p)) (peaks xs) = tv xs.
Proof.
  intros Hne. rewrite segsum_tvs; [|apply C11_ascending|apply peaks_consec].
  destruct (peaks_head xs Hne) as [r Er]. rewrite (C11_last_is_final_plateau xs Hne). rewrite Er. cbn [hd].
  rewrite Nat.sub_0_r. symmetry. now apply tv_to_final.
Qed.
(** ... its absolute values sum to the total variation *)
Lemma C13_delta_abs_sum (xs : list R) : first_up xs <> None -> nsum (vabs (delta_series xs)) = tv xs.
Proof.
  intros Hnc. pose proof (first_up_ne xs Hnc) as Hne. pose proof (sgn_first_sdir xs Hnc) as Hs.
  destruct (peaks_head xs Hne) as [r Er]. unfold delta_series, vabs.
  change (@nabs R NumR) with Rabs. change (@n0 R NumR) with 0.
  rewrite (scatter_sum Rabs Rabs_R0); [|apply C11_ascending|apply peaks_within|apply delta_vals_length; rewrite Er; discriminate].
  cbn [map]. rewrite nsum_cons, Rabs_R0, map_map.
  rewrite (nsum_map_ext (fun d => Rabs (nmul (sgn_first xs) d)) Rabs).
  - rewrite (diff_map_segsum (xat xs) Rabs). rewrite peaks_segsum_tv by exact Hne. lra.
  - intros d _. numR. rewrite Rabs_mult, (Rabs_sdir _ Hs). lra.
Qed.
(** ... and its signed sum is the end-minus-start offset oriented by the first strict move *)
Lemma nsum_diff (l : list R) : l <> [] -> nsum (diff l) = last l 0 - hd 0 l.
Proof.
  induction l as [|x r IH]; [congruence|]. intros _. destruct r as [|y t]; [unfold nsum; cbn; lra|].
  change (diff (x :: y :: t)) with ((y - x) :: diff (y :: t)). rewrite nsum_cons, IH by discriminate.
  rewrite (last_cons_ne x (y :: t)) by discriminate. cbn [hd]. lra.
Qed.
Lemma last_map_xat (xs : list R) ps : ps <> [] -> last (map (xat xs) ps) 0 = xat xs (last ps 0%nat).
Proof.
  induction ps as [|p r IH]; [congruence|]. intros _. destruct r as [|q t]; [reflexivity|].
  cbn [map]. rewrite (last_cons_ne (xat xs p)) by discriminate. rewrite (last_cons_ne p (q :: t)) by discriminate.
  apply IH. discriminate.
Qed.
Lemma C13_delta_signed_sum (xs : list R) : first_up xs <> None ->
  nsum (delta_series xs) = sgn_first xs * (last xs 0 - xat xs 0).
Proof.
  intros Hnc. pose proof (first_up_ne xs Hnc) as Hne.
  destruct (peaks_head xs Hne) as [r Er]. unfold delta_series. change (@n0 R NumR) with 0.
  rewrite <- (map_id (scatter _ _ _ _)).
  rewrite (scatter_sum (fun x => x) eq_refl); [|apply C11_ascending|apply peaks_within|apply delta_vals_length; rewrite Er; discriminate].
  rewrite map_id, nsum_cons. change (fun d : R => nmul (sgn_first xs) d) with (Rmult (sgn_first xs)).
  rewrite nsum_scale, nsum_diff by (rewrite Er; discriminate).
  rewrite last_map_xat by (rewrite Er; discriminate). rewrite (C11_last_is_final_plateau xs Hne), <- (last_is_final xs Hne).
  rewrite Er. cbn [map hd]. lra.
Qed.
Lemma C13_delta_signed_sum_abs (xs : list R) : first_up xs <> None ->
  Rabs (nsum (delta_series xs)) = Rabs (last xs 0 - xat xs 0).
Proof.
  intros Hnc. rewrite C13_delta_signed_sum by exact Hnc. rewrite Rabs_mult.
  rewrite (Rabs_sdir _ (sgn_first_sdir xs Hnc)). lra.
Qed.

(** ** real powers *)
Lemma rpow_0 y : rpow 0 y = 0.
Proof. unfold rpow. destruct (Rlt_dec 0 0); [lra|reflexivity]. Qed.
Lemma rpow_gt0 x y : 0 < x -> 0 < rpow x y.
Proof. intros Hx. rewrite rpow_pos by exact Hx. unfold Rpower. apply exp_pos. Qed.
Lemma rpow_nonneg x y : 0 <= rpow x y.
Proof. unfold rpow. destruct (Rlt_dec 0 x); [left; unfold Rpower; apply exp_pos|lra]. Qed.
Lemma rpow_nonpos x y : x <= 0 -> rpow x y = 0.
Proof. intros Hx. unfold rpow. destruct (Rlt_dec 0 x); [lra|reflexivity]. Qed.
Lemma rpow_mult x y e : 0 <= x -> 0 <= y -> rpow (x * y) e = rpow x e * rpow y e.
Proof.
  intros [Hx|<-] [Hy|<-].
  - rewrite !rpow_pos by (try apply Rmult_lt_0_compat; assumption). symmetry. now apply Rpower_mult_distr.
  - rewrite Rmult_0_r, rpow_0. lra.
  - rewrite Rmult_0_l, rpow_0. lra.
  - rewrite Rmult_0_l, rpow_0. lra.
Qed.
Lemma rpow_inv_cancel x b : 0 <= x -> b <> 0 -> rpow (rpow x (/ b)) b = x.
Proof.
  intros [Hx|<-] Hb.
  - rewrite (rpow_pos (rpow x (/ b))) by now apply rpow_gt0. rewrite rpow_pos by exact Hx.
    rewrite Rpower_mult, Rinv_l by exact Hb. now apply Rpower_1.
  - now rewrite !rpow_0.
Qed.
Lemma rpow_le x y b : 0 <= b -> 0 <= x <= y -> rpow x b <= rpow y b.
Proof.
  intros Hb [[Hx|<-] Hxy]; [|rewrite rpow_0; apply rpow_nonneg].
  rewrite !rpow_pos by lra. apply Rle_Rpower_l; [exact Hb|lra].
Qed.
Lemma rpow_div a c e : 0 < a -> 0 < c -> rpow (a / c) e = rpow a e / rpow c e.
Proof.
  intros Ha Hc. assert (Hq : 0 < a / c) by now apply Rdiv_lt_0_compat.
  pose proof (rpow_mult (a / c) c e ltac:(lra) ltac:(lra)) as E.
  replace (a / c * c) with a in E by (field; lra). pose proof (rpow_gt0 c e Hc). rewrite E. field. lra.
Qed.

(** ** lengths and monotonicity of the power-law series *)
Lemma C13_ncyc_length a_ref b cut (xs : list R) : length (n_cyc_R a_ref b cut xs) = length xs.
Proof. unfold n_cyc_R, n_cyc_pl, n_cyc_core. now rewrite cumsum_length, scatter_length. Qed.
Lemma sw_series_length (xs : list R) : length (sw_series xs) = length xs.
Proof. apply scatter_length. Qed.
Lemma C13_amp_length ncyc b (xs : list R) : length (cyc_amp_R ncyc b xs) = length xs.
Proof. unfold cyc_amp_R, cyc_amp, amp_core. now rewrite map_length, cumsum_length, map_length, sw_series_length. Qed.

Lemma scatter_In i n idx (vals : list R) x : In x (scatter i n idx vals) -> x = 0 \/ In x vals.
Proof.
  revert i idx vals; induction n as [|n IH]; intros i idx vals Hx; [destruct Hx|]. cbn [scatter] in Hx.
  destruct idx as [|p ir]; [destruct Hx as [<-|Hx]; [now left|now apply IH in Hx]|].
  destruct vals as [|v vr]; [destruct Hx as [<-|Hx]; [now left|now apply IH in Hx]|].
  destruct (Nat.eqb p i).
  - destruct Hx as [<-|Hx]; [right; now left|]. apply IH in Hx. destruct Hx; [now left|right; now right].
  - destruct Hx as [<-|Hx]; [now left|now apply IH in Hx].
Qed.
Lemma scatter_nonneg i n idx (vals : list R) : all_nonneg vals -> all_nonneg (scatter i n idx vals).
Proof. intros Hv x Hx. apply scatter_In in Hx as [->|Hx]; [lra|now apply Hv]. Qed.
Lemma half_R : @half R NumR = 1 / 2. Proof. unfold half. numR. reflexivity. Qed.
Lemma div_nonneg x y : 0 <= x -> 0 <= y -> 0 <= x / y.
Proof.
  intros Hx [Hy|<-]; [apply Rmult_le_pos; [exact Hx|left; now apply Rinv_0_lt_compat]|].
  unfold Rdiv. rewrite Rinv_0. lra.
Qed.
Lemma C13_ncyc_monotone a_ref b cut (xs : list R) : nondecreasing (n_cyc_R a_ref b cut xs).
Proof.
  unfold n_cyc_R, n_cyc_pl, n_cyc_core. apply cumsum_monotone, scatter_nonneg.
  intros x Hx. apply in_map_iff in Hx as (v & <- & _). rewrite half_R. numR.
  apply div_nonneg; [lra|apply rpow_nonneg].
Qed.
Lemma cumsum_from_nonneg acc (l : list R) : 0 <= acc -> all_nonneg l -> all_nonneg (cumsum_from acc l).
Proof.
  revert acc; induction l as [|x r IH]; intros acc Ha Hl y Hy; [destruct Hy|]. cbn [cumsum_from] in Hy. numR.
  assert (0 <= x) by (apply Hl; now left). destruct Hy as [<-|Hy]; [lra|].
  apply (IH (acc + x)); [lra|intros z Hz; apply Hl; now right|exact Hy].
Qed.
Lemma amp_terms_nonneg ncyc b (xs : list R) : 0 < ncyc ->
  all_nonneg (map (fun v => ndiv (ndiv (rpow (nabs v) (/ b)) (nofZ 2)) ncyc) (sw_series xs)).
Proof.
  intros Hn x Hx. apply in_map_iff in Hx as (v & <- & _). numR.
  apply div_nonneg; [apply div_nonneg; [apply rpow_nonneg|lra]|lra].
Qed.
Lemma amp_core_nonneg ncyc b (xs : list R) : 0 < ncyc -> all_nonneg (amp_core (fun x => rpow x (/ b)) ncyc xs).
Proof. intros Hn. unfold amp_core, cumsum. apply cumsum_from_nonneg; [numR; lra|now apply amp_terms_nonneg]. Qed.
Lemma nondecreasing_map_rpow b (l : list R) : 0 <= b -> all_nonneg l -> nondecreasing l ->
  nondecreasing (map (fun x => rpow x b) l).
Proof.
  intros Hb Hnn Hnd i j Hij. rewrite map_length in Hij.
  rewrite !(nth_map_in (fun x => rpow x b) l _ 0 0) by lia. apply rpow_le; [exact Hb|].
  split; [apply Hnn, nth_In; lia|apply Hnd; lia].
Qed.
Lemma C13_amp_monotone ncyc b (xs : list R) : 0 < ncyc -> 0 <= b -> nondecreasing (cyc_amp_R ncyc b xs).
Proof.
  intros Hn Hb. unfold cyc_amp_R, cyc_amp. apply nondecreasing_map_rpow; [exact Hb|now apply amp_core_nonneg|].
  unfold amp_core. apply cumsum_monotone. now apply amp_terms_nonneg.
Qed.

Lemma last_map_ne' {A B} (f : A -> B) l d d' : l <> [] -> last (map f l) d' = f (last l d).
Proof.
  induction l as [|x r IH]; [congruence|]. intros _. destruct r as [|y t]; [reflexivity|].
  cbn [map]. rewrite (last_cons_ne (f x)) by discriminate. rewrite (last_cons_ne x (y :: t)) by discriminate. apply IH. discriminate.
Qed.

(** ** the inverse law *)
(** the cut-off replaces no switched peak *)
Definition no_cut (cut : R) (xs : list R) : Prop :=
  forall p, In p (switched_peaks 0 xs) -> ~ (Rabs (xat xs p) < cut * amax (vabs xs)).
Definition sw_amps (xs : list R) : list R := map (fun p => Rabs (xat xs p)) (switched_peaks 0 xs).
Lemma peak_amps_no_cut cut tiny (xs : list R) : no_cut cut xs -> peak_amps cut tiny xs = sw_amps xs.
Proof.
  intros Hc. unfold peak_amps, sw_amps. apply map_ext_in. intros p Hp. numR.
  case_Rltb (Rabs (xat xs p)) (cut * amax (vabs xs)); [exfalso; now apply (Hc p Hp)|reflexivity].
Qed.
Lemma sp_within (xs : list R) : within 0 (length xs) (switched_peaks 0 xs).
Proof. intros p Hp. apply peaks_within. eapply subl_In; [apply C12_sp_subsequence_of_peaks|exact Hp]. Qed.
Lemma nsum_map_scale {A} (f : A -> R) c l : nsum (map (fun a => f a * c) l) = nsum (map f l) * c.
Proof. induction l as [|a r IH]; cbn [map]; [rewrite !nsum_nil; lra|]. rewrite !nsum_cons, IH. lra. Qed.
Lemma nsum_map_pos {A} (f : A -> R) l : (forall a, In a l -> 0 <= f a) -> (exists a, In a l /\ 0 < f a) -> 0 < nsum (map f l).
Proof.
  induction l as [|a r IH]; intros Hnn (a0 & Hin & Hpos); [destruct Hin|]. cbn [map]. rewrite nsum_cons.
  assert (0 <= nsum (map f r)).
  { apply nsum_nonneg. intros y Hy. apply in_map_iff in Hy as (z & <- & Hz). apply Hnn. now right. }
  destruct Hin as [->|Hin].
  - lra.
  - assert (0 <= f a) by (apply Hnn; now left).
    assert (0 < nsum (map f r)) by (apply IH; [intros; apply Hnn; now right|eauto]). lra.
Qed.
Lemma last_scatter_cumsum n idx (vals : list R) : n <> 0%nat -> ascending idx -> within 0 n idx -> length idx = length vals ->
  last (cumsum (scatter 0 n idx vals)) 0 = nsum vals.
Proof.
  intros Hn Ha Hw Hl. rewrite last_cumsum.
  - rewrite <- (map_id (scatter _ _ _ _)), (scatter_sum (fun x => x) eq_refl) by assumption. now rewrite map_id.
  - intros E. apply (f_equal (@length R)) in E. rewrite scatter_length in E. cbn in E. congruence.
Qed.
Lemma C13_ncyc_last a_ref b cut (xs : list R) : 0 < a_ref -> no_cut cut xs -> xs <> [] ->
  last (n_cyc_R a_ref b cut xs) 0 = nsum (map (fun c => rpow c (/ b)) (sw_amps xs)) * (/ 2 / rpow a_ref (/ b)).
Proof.
  intros Ha Hc Hne. unfold n_cyc_R, n_cyc_pl, n_cyc_core. rewrite (peak_amps_no_cut _ _ _ Hc).
  rewrite last_scatter_cumsum; [|destruct xs; [congruence|discriminate]|apply C12_sp_ascending|apply sp_within|unfold sw_amps; now rewrite !map_length].
  rewrite <- nsum_map_scale. apply nsum_map_ext. intros c Hc'. rewrite half_R. numR.
  assert (Hc0 : 0 <= c) by (unfold sw_amps in Hc'; apply in_map_iff in Hc' as (p & <- & _); apply Rabs_pos).
  pose proof (rpow_gt0 a_ref (/ b) Ha) as HA.
  destruct Hc0 as [Hc0|<-].
  - rewrite rpow_div by assumption. pose proof (rpow_gt0 c (/ b) Hc0). field. lra.
  - replace (a_ref / 0) with 0 by (unfold Rdiv; rewrite Rinv_0; lra). rewrite !rpow_0. unfold Rdiv. rewrite Rinv_0. lra.
Qed.
Lemma C13_amp_last ncyc b (xs : list R) : xs <> [] ->
  last (cyc_amp_R ncyc b xs) 0 = rpow (nsum (map (fun c => rpow c (/ b)) (sw_amps xs)) * (/ 2 / ncyc)) b.
Proof.
  intros Hne. unfold cyc_amp_R, cyc_amp, amp_core.
  assert (Hl : length xs <> 0%nat) by (destruct xs; [congruence|discriminate]).
  rewrite (last_map_ne' (fun x => rpow x b) _ 0 0).
  2:{ intros E. apply (f_equal (@length R)) in E. rewrite cumsum_length, map_length, sw_series_length in E. cbn in E. congruence. }
  f_equal. rewrite last_cumsum.
  2:{ intros E. apply (f_equal (@length R)) in E. rewrite map_length, sw_series_length in E. cbn in E. congruence. }
  unfold sw_series. change (fun p => nabs (xat xs p)) with (fun p => Rabs (xat xs p)). fold (sw_amps xs).
  rewrite (scatter_sum (fun v => ndiv (ndiv (rpow (nabs v) (/ b)) (nofZ 2)) ncyc));
    [|numR; rewrite Rabs_R0, rpow_0; unfold Rdiv; lra|apply C12_sp_ascending|apply sp_within|unfold sw_amps; now rewrite map_length].
  rewrite <- nsum_map_scale. apply nsum_map_ext. intros c Hc'. numR.
  assert (Hc0 : 0 <= c) by (unfold sw_amps in Hc'; apply in_map_iff in Hc' as (p & <- & _); apply Rabs_pos).
  rewrite Rabs_pos_eq by exact Hc0. unfold Rdiv. lra.
Qed.
(** the amplitude computed for N = cycles(a_ref) is a_ref *)
Lemma C13_inverse a_ref b cut (xs : list R) : 0 < a_ref -> b <> 0 -> no_cut cut xs ->
  (exists p, In p (switched_peaks 0 xs) /\ xat xs p <> 0) ->
  last (cyc_amp_R (last (n_cyc_R a_ref b cut xs) 0) b xs) 0 = a_ref.
Proof.
  intros Ha Hb Hc (p0 & Hp0 & Hx0).
  assert (Hne : xs <> []) by (intros ->; destruct Hp0).
  rewrite C13_amp_last, C13_ncyc_last by assumption.
  set (S := nsum (map (fun c => rpow c (/ b)) (sw_amps xs))).
  assert (HS : 0 < S).
  { apply nsum_map_pos; [intros; apply rpow_nonneg|]. exists (Rabs (xat xs p0)). split.
    - unfold sw_amps. apply in_map_iff. eauto.
    - apply rpow_gt0, Rabs_pos_lt, Hx0. }
  pose proof (rpow_gt0 a_ref (/ b) Ha) as HA.
  replace (S * (/ 2 / (S * (/ 2 / rpow a_ref (/ b))))) with (rpow a_ref (/ b)) by (field; lra).
  apply rpow_inv_cancel; [lra|exact Hb].
Qed.

(** ** two identical components *)
Lemma map2_diag {A B} (f : A -> A -> B) l : map2 f l l = map (fun a => f a a) l.
Proof. induction l; cbn; congruence. Qed.
Lemma comb_core_diag (pw : R -> R) ncyc (xs : list R) : comb_core pw ncyc xs xs = map (Rmult 2) (amp_core pw ncyc xs).
Proof.
  unfold comb_core, amp_core. rewrite map2_diag, <- cumsum_scale. f_equal. rewrite map_map. apply map_ext.
  intros v. numR. unfold Rdiv. ring.
Qed.
Lemma C13_combined_identical ncyc b (xs : list R) : 0 < ncyc ->
  cyc_amp_combined_R ncyc b xs xs = map (Rmult (rpow 2 b)) (cyc_amp_R ncyc b xs).
Proof.
  intros Hn. unfold cyc_amp_combined_R, cyc_amp_combined, cyc_amp_R, cyc_amp. rewrite comb_core_diag, !map_map.
  apply map_ext_in. intros S HS. apply rpow_mult; [lra|]. now apply (amp_core_nonneg ncyc b xs Hn).
Qed.
Lemma C13_gm_identical ncyc b (xs : list R) : cyc_amp_gm_R ncyc b xs xs = cyc_amp_R ncyc b xs.
Proof.
  unfold cyc_amp_gm_R, cyc_amp_gm. fold (cyc_amp_R ncyc b xs). rewrite map2_diag.
  rewrite <- (map_id (cyc_amp_R ncyc b xs)) at 2. apply map_ext_in. intros a Ha. numR.
  apply sqrt_square. unfold cyc_amp_R, cyc_amp in Ha. apply in_map_iff in Ha as (S & <- & _). apply rpow_nonneg.
Qed.

(** ** non-constant series *)
Lemma nonconstant_spec (xs : list R) : first_up xs <> None <-> exists j, (j < length xs)%nat /\ xat xs j <> xat xs 0.
Proof.
  unfold first_up. split.
  - destruct (next_diff xs 0) as [j|] eqn:E; [|congruence]. intros _. apply next_diff_spec in E. exists j. split; [lia|tauto].
  - intros (j & Hj & Hne). assert (j <> 0)%nat by (intros ->; congruence).
    destruct (next_diff_exists xs 0 j ltac:(lia) Hne) as [m ->]. discriminate.
Qed.
Lemma peaks_two (xs : list R) : first_up xs <> None -> exists q t, peaks xs = 0%nat :: q :: t.
Proof.
  intros Hnc. pose proof (first_up_ne xs Hnc) as Hne. destruct (peaks_head xs Hne) as [r Er].
  destruct r as [|q t]; [|eauto]. exfalso.
  pose proof (C11_last_is_final_plateau xs Hne) as Hl. rewrite Er in Hl. cbn in Hl.
  apply nonconstant_spec in Hnc as (j & Hj & Hd). apply Hd. rewrite Hl. apply final_run_constant. lia.
Qed.

(** ** the pseudo-cyclic series: alternating directions *)
Definition reported_pair (xs : list R) (p q : nat) : Prop :=
  In p (peaks xs) /\ In q (peaks xs) /\ (p < q)%nat /\ no_reported_between xs p q.
Fixpoint zigseg (s : R) (xs : list R) (l : list nat) : Prop :=
  match l with p :: ((q :: _) as r) => (p < q)%nat /\ mono_between s xs p q /\ zigseg (- s) xs r | _ => True end.
Lemma sdir_opp s : sdir s -> sdir (- s).
Proof. intros [-> | ->]; [right|left]; lra. Qed.
Lemma mono_between_excl xs p q : mono_between 1 xs p q -> mono_between (-1) xs p q -> False.
Proof. intros [_ H1] [_ H2]. lra. Qed.
Lemma zigseg_of_consec (xs : list R) l : consec (reported_pair xs) l -> forall s, sdir s ->
  match l with p :: q :: _ => mono_between s xs p q | _ => True end -> zigseg s xs l.
Proof.
  induction l as [|p r IH]; [intros; exact I|]. destruct r as [|q t]; [intros; exact I|].
  intros [HP Hc] s Hs Hm. cbn [zigseg]. split; [apply HP|]. split; [exact Hm|].
  apply IH; [exact Hc|now apply sdir_opp|]. destruct t as [|r t']; [exact I|].
  destruct Hc as [HQ _]. destruct HP as (Hp & Hq & Hpq & Hn1). destruct HQ as (_ & Hr & Hqr & Hn2).
  destruct (C11_alternates xs p q r Hp Hq Hr ltac:(lia) Hn1 Hn2) as [[A B]|[A B]]; destruct Hs as [-> | ->].
  - replace (- 1) with (-1) by lra. exact B.
  - exfalso. exact (mono_between_excl xs p q A Hm).
  - exfalso. exact (mono_between_excl xs p q Hm A).
  - replace (- -1) with 1 by lra. exact B.
Qed.
(** direction of the last segment of an alternating chain that starts in direction t *)
Fixpoint lastdir {A} (t : R) (l : list A) : R := match l with _ :: ((_ :: _) as r) => lastdir (- t) r | _ => - t end.
Lemma lastdir_map {A B} (f : A -> B) t l : lastdir t (map f l) = lastdir t l.
Proof. revert t; induction l as [|a r IH]; intros t; [reflexivity|]. destruct r as [|b r']; [reflexivity|]. cbn [map lastdir]. apply (IH (- t)). Qed.
Lemma lastdir_scale {A} c t (l : list A) : lastdir (c * t) l = c * lastdir t l.
Proof.
  revert t; induction l as [|a r IH]; intros t; [cbn; lra|]. destruct r as [|b r']; [cbn; lra|].
  cbn [lastdir]. replace (- (c * t)) with (c * - t) by lra. apply IH.
Qed.
Lemma zigseg_last (xs : list R) t p q s : zigseg s xs (p :: q :: t) ->
  exists p', (p' < last (p :: q :: t) 0)%nat /\ mono_between (lastdir s (p :: q :: t)) xs p' (last (p :: q :: t) 0%nat).
Proof.
  revert p q s; induction t as [|r t' IH]; intros p q s (Hpq & Hm & Hz).
  - exists p. cbn [last lastdir]. rewrite Ropp_involutive. auto.
  - destruct (IH q r (- s) Hz) as (p' & Hp' & Hm'). exists p'.
    rewrite (last_cons_ne p (q :: r :: t')) by discriminate. split; [exact Hp'|]. exact Hm'.
Qed.
Lemma sgn_final_mono (xs : list R) s p : xs <> [] -> sdir s -> (p < final_start xs)%nat ->
  mono_between s xs p (final_start xs) -> sgn_final xs = s.
Proof.
  intros Hne Hs Hp [M1 _]. pose proof (final_start_pstart xs Hne) as Hps. unfold sgn_final.
  destruct (final_start xs) as [|j]; [lia|]. cbn [pstart] in Hps. apply negb_true_iff, neqb_R_false in Hps.
  specialize (M1 j ltac:(lia)). numR.
  destruct Hs as [-> | ->]; [case_Rltb (xat xs j) (xat xs (S j))|case_Rltb (xat xs j) (xat xs (S j))]; lra.
Qed.
Lemma first_seg_dir (xs : list R) s q : sdir s -> (0 < q < length xs)%nat -> mono_between s xs 0 q -> sgn_first xs = s.
Proof.
  intros Hs Hq [M1 M2]. assert (Hne : xat xs q <> xat xs 0) by (intros E; rewrite E in M2; lra).
  destruct (next_diff_exists xs 0 q ltac:(lia) Hne) as [j Ej]. unfold sgn_first, first_up. rewrite Ej.
  pose proof (next_diff_spec xs 0 j Ej) as (Hj1 & Hj2 & Hj3).
  assert (Hjq : (j <= q)%nat) by (destruct (Nat.le_gt_cases j q); auto; exfalso; apply Hne, Hj3; lia).
  pose proof (mono_chain s xs 0 j ltac:(intros m Hm; specialize (M1 (m - 1)%nat ltac:(lia)); replace (S (m - 1)) with m in M1 by lia; exact M1) j ltac:(lia)) as Hc.
  numR. destruct Hs as [-> | ->]; case_Rltb (xat xs 0) (xat xs j); lra.
Qed.

(** value-level zig-zag and the alternating sum *)
Fixpoint zigv (t : R) (l : list R) : Prop :=
  match l with a :: ((b :: _) as r) => t * a < t * b /\ zigv (- t) r | _ => True end.
Definition negof (t : R) : bool := if Rlt_dec 0 t then true else false.
Lemma negof_opp t : sdir t -> negof (- t) = negb (negof t).
Proof. intros [-> | ->]; unfold negof; repeat destruct (Rlt_dec _ _); try reflexivity; lra. Qed.
Lemma alt_signs_sum t (l : list R) : sdir t -> zigv t l -> l <> [] ->
  nsum (alt_signs (negof t) l) = / 2 * nsum (map Rabs (diff l)) + / 2 * lastdir t l * last l 0 - / 2 * t * hd 0 l.
Proof.
  revert t; induction l as [|a r IH]; intros t Hs Hz Hne; [congruence|]. destruct r as [|b r'].
  - cbn [alt_signs diff map lastdir last hd]. rewrite nsum_cons, !nsum_nil. numR.
    destruct Hs as [-> | ->]; unfold negof; destruct (Rlt_dec _ _); lra.
  - destruct Hz as [Hab Hz]. change (diff (a :: b :: r')) with ((b - a) :: diff (b :: r')).
    assert (E : forall neg, alt_signs neg (a :: b :: r') = (if neg then - a else a) :: alt_signs (negb neg) (b :: r')) by reflexivity.
    rewrite E. cbn [map]. rewrite !nsum_cons. rewrite <- (negof_opp t Hs).
    rewrite (IH (- t) (sdir_opp t Hs) Hz) by discriminate.
    change (lastdir t (a :: b :: r')) with (lastdir (- t) (b :: r')). rewrite (last_cons_ne a (b :: r')) by discriminate.
    cbn [hd]. numR. set (L := lastdir (- t) (b :: r') * last (b :: r') 0).
    replace (/ 2 * lastdir (- t) (b :: r') * last (b :: r') 0) with (/ 2 * L) by (unfold L; ring).
    destruct Hs as [-> | ->]; unfold negof; destruct (Rlt_dec _ _); try lra.
    + rewrite Rabs_pos_eq by lra. lra.
    + rewrite Rabs_left1 by lra. lra.
Qed.
Lemma zigv_of_zigseg (xs : list R) c s0 l s : sdir s0 -> sdir s -> zigseg s xs l ->
  zigv (s * s0) (map (fun p => s0 * (xat xs p - c)) l).
Proof.
  intros Hs0. revert s; induction l as [|p r IH]; intros s Hs Hz; [exact I|]. destruct r as [|q t]; [exact I|].
  destruct Hz as (Hpq & [_ Hm] & Hz). cbn [map zigv]. split.
  - destruct Hs as [-> | ->], Hs0 as [-> | ->]; lra.
  - replace (- (s * s0)) with (- s * s0) by lra. apply (IH (- s) (sdir_opp s Hs) Hz).
Qed.

(** sum of the pseudo-cyclic series = TV/2 + (direction of the final move) * (last - first)/2 *)
Lemma C13_pseudo_length (xs : list R) : length (pseudo_series xs) = length xs.
Proof. apply scatter_length. Qed.
Lemma C13_pseudo_support (xs : list R) i : (i < length xs)%nat -> ~ In i (peaks xs) -> nth i (pseudo_series xs) 0 = 0.
Proof. intros Hi Hn. unfold pseudo_series. apply scatter_nth_off; auto. Qed.
Lemma alt_signs_length (neg : bool) (l : list R) : length (alt_signs neg l) = length l.
Proof. revert neg; induction l; intros neg; cbn; auto. Qed.
Lemma C13_pseudo_sum (xs : list R) : first_up xs <> None ->
  nsum (pseudo_series xs) = / 2 * tv xs + / 2 * sgn_final xs * (last xs 0 - xat xs 0).
Proof.
  intros Hnc. pose proof (first_up_ne xs Hnc) as Hne. pose proof (sgn_first_sdir xs Hnc) as Hs0.
  destruct (peaks_two xs Hnc) as (q & t & Ep).
  destruct (peaks_consec xs) as [Hmono Hrep]. fold (reported_pair xs) in Hrep.
  (* direction of the first segment = sgn_first *)
  assert (Hq : (0 < q < length xs)%nat).
  { rewrite Ep in Hrep. destruct Hrep as [(_ & Hq & Hlt & _) _]. apply C11_exact in Hq. lia. }
  assert (Hfirst : mono_between (sgn_first xs) xs 0 q).
  { rewrite Ep in Hmono. destruct Hmono as [[M|M] _].
    - now rewrite (first_seg_dir xs 1 q (or_introl eq_refl) Hq M).
    - now rewrite (first_seg_dir xs (-1) q (or_intror eq_refl) Hq M). }
  assert (Hzig : zigseg (sgn_first xs) xs (peaks xs)).
  { apply zigseg_of_consec; [exact Hrep|exact Hs0|]. rewrite Ep. exact Hfirst. }
  (* last segment direction = sgn_final *)
  assert (Hfin : sgn_final xs = lastdir (sgn_first xs) (peaks xs)).
  { rewrite Ep in Hzig. destruct (zigseg_last xs t 0%nat q _ Hzig) as (p' & Hp' & Hm'). rewrite <- Ep in *.
    rewrite (C11_last_is_final_plateau xs Hne) in *.
    assert (Hsd : sdir (lastdir (sgn_first xs) (peaks xs))).
    { replace (sgn_first xs) with (sgn_first xs * 1) by lra. rewrite lastdir_scale.
      assert (Hl1 : forall (l : list nat) u, sdir u -> sdir (lastdir u l)).
      { induction l as [|a r IHl]; intros u Hu; [now apply sdir_opp|]. destruct r; [now apply sdir_opp|]. cbn [lastdir]. apply IHl. now apply sdir_opp. }
      destruct (Hl1 (peaks xs) 1 (or_introl eq_refl)) as [-> | ->], Hs0 as [-> | ->]; [left|right|right|left]; lra. }
    now apply (sgn_final_mono xs _ p' Hne Hsd Hp' Hm'). }
  unfold pseudo_series. change (@n0 R NumR) with 0.
  rewrite <- (map_id (scatter _ _ _ _)).
  rewrite (scatter_sum (fun x => x) eq_refl); [|apply C11_ascending|apply peaks_within|now rewrite alt_signs_length, map_length].
  rewrite map_id.
  pose proof (zigv_of_zigseg xs (xat xs 0) (sgn_first xs) (peaks xs) (sgn_first xs) Hs0 Hs0 Hzig) as Hzv.
  assert (Hsq : sgn_first xs * sgn_first xs = 1) by (destruct Hs0 as [-> | ->]; lra).
  rewrite Hsq in Hzv.
  assert (Hneg : negof 1 = true) by (unfold negof; destruct (Rlt_dec 0 1); [reflexivity|lra]).
  rewrite <- Hneg.
  change (fun p => nmul (sgn_first xs) (nsub (xat xs p) (xat xs 0%nat))) with (fun p => sgn_first xs * (xat xs p - xat xs 0%nat)).
  rewrite (alt_signs_sum 1 _ (or_introl eq_refl) Hzv) by (rewrite Ep; discriminate).
  rewrite lastdir_map.
  rewrite (diff_map_segsum (fun p => sgn_first xs * (xat xs p - xat xs 0%nat)) Rabs).
  assert (Eseg : segsum (fun p q0 => Rabs (sgn_first xs * (xat xs q0 - xat xs 0%nat) - sgn_first xs * (xat xs p - xat xs 0%nat))) (peaks xs)
                 = segsum (fun p q0 => Rabs (xat xs q0 - xat xs p)) (peaks xs)).
  { generalize (peaks xs). intros l. induction l as [|a r IHl]; [reflexivity|]. destruct r as [|b r']; [reflexivity|].
    cbn [segsum]. cbn [segsum] in IHl. rewrite IHl. f_equal.
    replace (sgn_first xs * (xat xs b - xat xs 0%nat) - sgn_first xs * (xat xs a - xat xs 0%nat)) with (sgn_first xs * (xat xs b - xat xs a)) by ring.
    now rewrite Rabs_mult, (Rabs_sdir _ Hs0), Rmult_1_l. }
  rewrite Eseg, (peaks_segsum_tv xs Hne).
  rewrite (last_map_ne' (fun p => sgn_first xs * (xat xs p - xat xs 0%nat)) _ 0%nat 0) by (rewrite Ep; discriminate).
  rewrite (C11_last_is_final_plateau xs Hne), <- (last_is_final xs Hne).
  rewrite Ep at 2. cbn [map hd].
  assert (Hfin' : sgn_final xs = sgn_first xs * lastdir 1 (peaks xs)) by (rewrite Hfin, <- lastdir_scale; f_equal; lra).
  assert (El : lastdir 1 (peaks xs) = sgn_first xs * sgn_final xs) by (rewrite Hfin'; rewrite <- Rmult_assoc, Hsq; lra).
  rewrite El. 
  replace (/ 2 * (sgn_first xs * sgn_final xs) * (sgn_first xs * (last xs 0 - xat xs 0%nat)))
    with (/ 2 * sgn_final xs * (last xs 0 - xat xs 0%nat) * (sgn_first xs * sgn_first xs)) by ring.
  rewrite Hsq. lra.
Qed.

(** ** the peak list only depends on the order of the samples: invariance under a strictly increasing map *)
Section Increasing.
Variable f : R -> R.
Hypothesis f_incr : forall a b, a < b -> f a < f b.
Lemma f_ltb a b : Rltb (f a) (f b) = Rltb a b.
Proof.
  case_Rltb a b.
  - apply Rltb_true. now apply f_incr.
  - apply Rltb_false. destruct Hlt as [Hlt | ->]; [left; now apply f_incr|right; reflexivity].
Qed.
Lemma f_eqb a b : Reqb (f a) (f b) = Reqb a b.
Proof.
  case_Reqb a b.
  - apply Reqb_true. now subst.
  - apply Reqb_false. intros E. destruct (Rtotal_order a b) as [H|[H|H]]; [apply f_incr in H; lra|contradiction|apply f_incr in H; lra].
Qed.
Lemma xat_map (xs : list R) i : (i < length xs)%nat -> xat (map f xs) i = f (xat xs i).
Proof. intros Hi. unfold xat. now apply nth_map_in. Qed.
Lemma next_diff_from_map v j (l : list R) : next_diff_from (f v) j (map f l) = next_diff_from v j l.
Proof.
  revert j; induction l as [|x r IH]; intros j; [reflexivity|]. cbn [map next_diff_from].
  change (neqb (f x) (f v)) with (Reqb (f x) (f v)). change (neqb x v) with (Reqb x v). rewrite f_eqb, IH. reflexivity.
Qed.
Lemma next_diff_map (xs : list R) i : next_diff (map f xs) i = next_diff xs i.
Proof.
  unfold next_diff. rewrite skipn_map. destruct (Nat.lt_ge_cases i (length xs)) as [Hi|Hi].
  - rewrite xat_map by exact Hi. apply next_diff_from_map.
  - rewrite (skipn_all2 xs) by lia. reflexivity.
Qed.
Lemma pstart_map (xs : list R) i : (i < length xs)%nat -> pstart (map f xs) i = pstart xs i.
Proof.
  intros Hi. destruct i as [|i']; [reflexivity|]. cbn [pstart]. rewrite !xat_map by lia.
  change (neqb (f (xat xs (S i'))) (f (xat xs i'))) with (Reqb (f (xat xs (S i'))) (f (xat xs i'))). now rewrite f_eqb.
Qed.
Lemma final_start_map (xs : list R) : final_start (map f xs) = final_start xs.
Proof.
  unfold final_start. rewrite map_length. f_equal. apply filter_ext_in. intros i Hi. apply in_seq in Hi. apply pstart_map. lia.
Qed.
Lemma turning_map (xs : list R) i : (i < length xs)%nat -> turning (map f xs) i = turning xs i.
Proof.
  intros Hi. destruct i as [|i']; [reflexivity|]. unfold turning. rewrite next_diff_map.
  destruct (next_diff xs (S i')) as [j|] eqn:E; [|reflexivity]. apply next_diff_spec in E as (Hj & _).
  rewrite !xat_map by lia. numR. now rewrite !f_ltb.
Qed.
Lemma peaks_map (xs : list R) : peaks (map f xs) = peaks xs.
Proof.
  unfold peaks. rewrite map_length, final_start_map. apply filter_ext_in. intros i Hi. apply in_seq in Hi.
  unfold is_peak. rewrite turning_map by lia. reflexivity.
Qed.
Lemma first_up_map (xs : list R) : first_up (map f xs) = first_up xs.
Proof.
  unfold first_up. rewrite next_diff_map. destruct (next_diff xs 0) as [j|] eqn:E; [|reflexivity].
  apply next_diff_spec in E as (Hj & _). rewrite !xat_map by lia. numR. now rewrite f_ltb.
Qed.
Lemma sgn_first_map (xs : list R) : sgn_first (map f xs) = sgn_first xs.
Proof. unfold sgn_first. now rewrite first_up_map. Qed.
Lemma map_xat_map (xs : list R) ps : (forall p, In p ps -> (p < length xs)%nat) ->
  map (xat (map f xs)) ps = map f (map (xat xs) ps).
Proof. intros Hp. rewrite map_map. apply map_ext_in. intros p Hin. apply xat_map. now apply Hp. Qed.
End Increasing.

(** ** both peak-only series are independent of a constant shift of the series *)
Lemma diff_shift c (l : list R) : diff (map (fun x => x + c) l) = diff l.
Proof.
  induction l as [|x r IH]; [reflexivity|]. destruct r as [|y t]; [reflexivity|].
  change (diff (map (fun x => x + c) (x :: y :: t))) with ((y + c - (x + c)) :: diff (map (fun x => x + c) (y :: t))).
  change (diff (x :: y :: t)) with ((y - x) :: diff (y :: t)). rewrite IH. f_equal. lra.
Qed.
Lemma shift_incr c : forall a b, a < b -> a + c < b + c. Proof. intros; lra. Qed.
Lemma C13_delta_shift_invariant c (xs : list R) : delta_series (shift c xs) = delta_series xs.
Proof.
  unfold shift. change (fun x : R => nadd x c) with (fun x => x + c). unfold delta_series.
  rewrite (peaks_map _ (shift_incr c)), (sgn_first_map _ (shift_incr c)), map_length.
  rewrite (map_xat_map (fun x => x + c)) by (intros p Hp; apply C11_exact in Hp; lia).
  now rewrite diff_shift.
Qed.
Lemma C13_pseudo_shift_invariant c (xs : list R) : pseudo_series (shift c xs) = pseudo_series xs.
Proof.
  unfold shift. change (fun x : R => nadd x c) with (fun x => x + c). unfold pseudo_series.
  rewrite (peaks_map _ (shift_incr c)), (sgn_first_map _ (shift_incr c)), map_length.
  f_equal. f_equal. apply map_ext_in. intros p Hp. apply C11_exact in Hp as (Hp & _).
  rewrite !(xat_map (fun x => x + c)) by lia. numR. f_equal. lra.
Qed.

Lemma no_cut_0 (xs : list R) : no_cut 0 xs.
Proof. intros p _ H. rewrite Rmult_0_l in H. pose proof (Rabs_pos (xat xs p)). lra. Qed.
Lemma sgn_final_spec (xs : list R) : first_up xs <> None ->
  exists j, final_start xs = S j /\ xat xs j <> xat xs (S j) /\
            ((xat xs j < xat xs (S j) /\ sgn_final xs = 1) \/ (xat xs (S j) < xat xs j /\ sgn_final xs = -1)).
Proof.
  intros Hnc. pose proof (first_up_ne xs Hnc) as Hne. pose proof (final_start_pstart xs Hne) as Hps.
  destruct (peaks_two xs Hnc) as (q & t & Ep).
  assert (Hf : final_start xs <> 0%nat).
  { rewrite <- (C11_last_is_final_plateau xs Hne). pose proof (C11_ascending xs) as Ha. rewrite Ep in *.
    inversion Ha as [|? ? Hlt Har]; subst.
    assert (q <= last (0 :: q :: t) 0)%nat by (rewrite (last_cons_ne 0%nat (q :: t)) by discriminate; apply ascending_last_max; [exact Har|now left]).
    specialize (Hlt q (or_introl eq_refl)). lia. }
  unfold sgn_final. destruct (final_start xs) as [|j]; [congruence|]. exists j. split; [reflexivity|].
  cbn [pstart] in Hps. apply negb_true_iff, neqb_R_false in Hps. split; [congruence|]. numR.
  case_Rltb (xat xs j) (xat xs (S j)); [left; split; [lra|reflexivity]|right; split; [lra|lra]].
Qed.

(** ** positive scaling of the record *)
Lemma Rleb_ext a b c d : (a <= b <-> c <= d) -> Rleb a b = Rleb c d.
Proof. intros E. case_Rleb c d; [apply Rleb_true; tauto|apply Rleb_false]. destruct (Rle_lt_dec a b) as [H|H]; [apply E in H; lra|exact H]. Qed.
Lemma Rltb_ext a b c d : (a < b <-> c < d) -> Rltb a b = Rltb c d.
Proof. intros E. case_Rltb c d; [apply Rltb_true; tauto|apply Rltb_false]. destruct (Rle_lt_dec b a) as [H|H]; [exact H|apply E in H; lra]. Qed.
Section Scale.
Variable k : R.
Hypothesis Hk : 0 < k.
Lemma scale_incr : forall a b, a < b -> k * a < k * b.
Proof. intros. now apply Rmult_lt_compat_l. Qed.
Lemma sp_loop_scale (xs : list R) ps : (forall p, In p ps -> (p < length xs)%nat) -> forall last bestv besti out,
  sp_loop 0 (map (Rmult k) xs) (k * last) (k * bestv) besti ps out = sp_loop 0 xs last bestv besti ps out.
Proof.
  induction ps as [|p r IH]; intros Hp last bestv besti out; [reflexivity|]. cbn [sp_loop].
  rewrite (xat_map (Rmult k)) by (apply Hp; now left). set (v := xat xs p). numR.
  assert (Hkk : 0 < k * k) by now apply Rmult_lt_0_compat.
  assert (E1 : Rleb ((k * v + 0 * nsign (k * last)) * (k * last)) 0 = Rleb ((v + 0 * nsign last) * last) 0).
  { apply Rleb_ext. replace ((k * v + 0 * nsign (k * last)) * (k * last)) with (k * k * (v * last)) by ring.
    replace ((v + 0 * nsign last) * last) with (v * last) by ring. split; intros; nra. }
  assert (E2 : Rltb 0 (k * v * (k * last)) = Rltb 0 (v * last)).
  { apply Rltb_ext. replace (k * v * (k * last)) with (k * k * (v * last)) by ring. split; intros; nra. }
  assert (Eabs : Rabs (k * v) = k * Rabs v) by (rewrite Rabs_mult, (Rabs_pos_eq k) by lra; reflexivity).
  assert (E3 : Rltb (k * bestv) (Rabs (k * v)) = Rltb bestv (Rabs v)).
  { apply Rltb_ext. rewrite Eabs. split; intros; nra. }
  rewrite E1, E2, E3, Eabs. clear E1 E2 E3.
  destruct (Rleb ((v + 0 * nsign last) * last) 0); [apply IH; intros; apply Hp; now right|].
  destruct (Rltb 0 (v * last) && Rltb bestv (Rabs v)); apply IH; intros; apply Hp; now right.
Qed.
Lemma switched_peaks_scale (xs : list R) : switched_peaks 0 (map (Rmult k) xs) = switched_peaks 0 xs.
Proof.
  unfold switched_peaks. rewrite (peaks_map _ scale_incr). unfold switched_peaks_of.
  pose proof (peaks_within xs) as Hw. destruct (peaks xs) as [|p0 r]; [reflexivity|].
  rewrite (xat_map (Rmult k)) by (specialize (Hw p0 (or_introl eq_refl)); lia). numR.
  rewrite Rabs_mult, (Rabs_pos_eq k) by lra. apply sp_loop_scale. intros p Hp. specialize (Hw p (or_intror Hp)). lia.
Qed.
Lemma scatter_scale i n idx (vals : list R) : scatter i n idx (map (Rmult k) vals) = map (Rmult k) (scatter i n idx vals).
Proof.
  revert i idx vals; induction n as [|n IH]; intros i idx vals; [reflexivity|]. cbn [scatter].
  destruct idx as [|p ir]; [cbn [map]; rewrite <- (IH (S i) [] vals); f_equal; numR; lra|].
  destruct vals as [|v vr]; [cbn [map]; rewrite <- (IH (S i) (p :: ir) []); f_equal; numR; lra|].
  cbn [map]. destruct (Nat.eqb p i); cbn [map].
  - now rewrite IH.
  - rewrite <- (IH (S i) (p :: ir) (v :: vr)). f_equal. numR. lra.
Qed.
Lemma sw_amps_scale (xs : list R) : sw_amps (map (Rmult k) xs) = map (Rmult k) (sw_amps xs).
Proof.
  unfold sw_amps. rewrite switched_peaks_scale, map_map. apply map_ext_in. intros p Hp.
  rewrite (xat_map (Rmult k)) by (apply sp_within in Hp; lia). rewrite Rabs_mult, (Rabs_pos_eq k) by lra. reflexivity.
Qed.
Lemma sw_series_scale (xs : list R) : sw_series (map (Rmult k) xs) = map (Rmult k) (sw_series xs).
Proof.
  unfold sw_series. cbv zeta. change (@n0 R NumR) with 0. rewrite switched_peaks_scale, map_length, <- scatter_scale.
  f_equal. rewrite map_map. apply map_ext_in. intros p Hp.
  rewrite (xat_map (Rmult k)) by (apply sp_within in Hp; lia). numR. rewrite Rabs_mult, (Rabs_pos_eq k) by lra. reflexivity.
Qed.
(** the equivalent amplitude scales linearly with the record *)
Lemma C13_amp_scales ncyc b (xs : list R) : 0 < ncyc -> b <> 0 ->
  cyc_amp_R ncyc b (map (Rmult k) xs) = map (Rmult k) (cyc_amp_R ncyc b xs).
Proof.
  intros Hn Hb. unfold cyc_amp_R, cyc_amp. 
  assert (Ecore : amp_core (fun x => rpow x (/ b)) ncyc (map (Rmult k) xs) = map (Rmult (rpow k (/ b))) (amp_core (fun x => rpow x (/ b)) ncyc xs)).
  { unfold amp_core. rewrite sw_series_scale, <- cumsum_scale, !map_map. f_equal. apply map_ext. intros v. numR.
    rewrite Rabs_mult, (Rabs_pos_eq k) by lra. rewrite rpow_mult by (try apply Rabs_pos; lra). unfold Rdiv. ring. }
  rewrite Ecore, !map_map. apply map_ext_in. intros S HS.
  rewrite rpow_mult; [|apply rpow_nonneg|now apply (amp_core_nonneg ncyc b xs Hn)].
  rewrite rpow_inv_cancel by (lra || exact Hb). reflexivity.
Qed.
(** the cycle count is invariant when record and reference amplitude scale together (cut-off replacing no peak) *)
Lemma C13_ncyc_joint_scale a_ref b cut (xs : list R) : no_cut cut xs -> no_cut cut (map (Rmult k) xs) ->
  n_cyc_R (k * a_ref) b cut (map (Rmult k) xs) = n_cyc_R a_ref b cut xs.
Proof.
  intros H1 H2. unfold n_cyc_R, n_cyc_pl, n_cyc_core. rewrite (peak_amps_no_cut _ _ _ H1), (peak_amps_no_cut _ _ _ H2).
  rewrite sw_amps_scale, switched_peaks_scale, map_length, map_map. f_equal. f_equal. apply map_ext. intros v. numR.
  f_equal. f_equal. destruct (Req_dec v 0) as [->|Hv].
  - rewrite Rmult_0_r. unfold Rdiv. rewrite Rinv_0. lra.
  - field. split; lra.
Qed.
(** the cut-off limit cut*max|x| and every switched-peak magnitude scale by k together, so the guard [no_cut] is itself
    invariant under positive scaling: the second guard of C13_ncyc_joint_scale follows from the first *)
Lemma nmax_scale a b : nmax (k * a) (k * b) = k * nmax a b.
Proof.
  unfold nmax. numR. rewrite (Rltb_ext (k * a) (k * b) a b) by (split; intros; nra). destruct (Rltb a b); reflexivity.
Qed.
Lemma fold_nmax_scale (r : list R) x : fold_left nmax (map (Rmult k) r) (k * x) = k * fold_left nmax r x.
Proof. revert x; induction r as [|a r IH]; intros x; [reflexivity|]. cbn [map fold_left]. now rewrite nmax_scale, IH. Qed.
Lemma amax_scale (l : list R) : amax (map (Rmult k) l) = k * amax l.
Proof. destruct l as [|x r]; cbn [map amax]; [numR; lra|apply fold_nmax_scale]. Qed.
Lemma vabs_scale_pos (l : list R) : vabs (map (Rmult k) l) = map (Rmult k) (vabs l).
Proof. unfold vabs. rewrite !map_map. apply map_ext. intros x. numR. rewrite Rabs_mult, (Rabs_pos_eq k) by lra. reflexivity. Qed.
Lemma no_cut_scale cut (xs : list R) : no_cut cut xs <-> no_cut cut (map (Rmult k) xs).
Proof.
  unfold no_cut. rewrite switched_peaks_scale, vabs_scale_pos, amax_scale.
  split; intros H p Hp Hlt; apply (H p Hp).
  - rewrite (xat_map (Rmult k)) in Hlt by (apply sp_within in Hp; lia). rewrite Rabs_mult, (Rabs_pos_eq k) in Hlt by lra.
    apply Rmult_lt_reg_l with k; [exact Hk|]. lra.
  - rewrite (xat_map (Rmult k)) by (apply sp_within in Hp; lia). rewrite Rabs_mult, (Rabs_pos_eq k) by lra.
    replace (cut * (k * amax (vabs xs))) with (k * (cut * amax (vabs xs))) by ring. now apply Rmult_lt_compat_l.
Qed.
Lemma C13_ncyc_joint_scale_1 a_ref b cut (xs : list R) : no_cut cut xs ->
  n_cyc_R (k * a_ref) b cut (map (Rmult k) xs) = n_cyc_R a_ref b cut xs.
Proof. intros H1. apply C13_ncyc_joint_scale; [exact H1|exact (proj1 (no_cut_scale cut xs) H1)]. Qed.
End Scale.
Lemma C13_ncyc_joint_scale_0 k a_ref b (xs : list R) : 0 < k -> n_cyc_R (k * a_ref) b 0 (map (Rmult k) xs) = n_cyc_R a_ref b 0 xs.
Proof. intros Hk. apply C13_ncyc_joint_scale; [exact Hk|apply no_cut_0|apply no_cut_0]. Qed.

(** ** the interp1d(kind='previous') pipeline of the code equals the running sum of the model *)
Lemma np_insert_0 {A} (l : list A) v : np_insert l 0 v = v :: l.
Proof. reflexivity. Qed.
Lemma np_insert_end {A} (l : list A) v : np_insert l (length l) v = l ++ [v].
Proof. unfold np_insert. now rewrite firstn_all, skipn_all. Qed.
Lemma np_insert_before_last {A} (l : list A) d : l <> [] -> np_insert l (length l - 1) (last l d) = l ++ [last l d].
Proof.
  intros Hne. destruct (exists_last Hne) as (r & x & ->).
  rewrite app_length, last_last. cbn [length]. replace (length r + 1 - 1)%nat with (length r + 0)%nat by lia.
  unfold np_insert. rewrite firstn_app_2, skipn_app, skipn_all2 by lia. cbn [firstn]. rewrite app_nil_r.
  replace (length r + 0 - length r)%nat with 0%nat by lia. cbn [skipn app]. rewrite <- app_assoc. reflexivity.
Qed.
Lemma knots_le_app_last idx N q : (q < N)%nat -> knots_le (idx ++ [N]) q = knots_le idx q.
Proof.
  intros Hq. induction idx as [|p r IH]; cbn [app knots_le].
  - destruct (Nat.leb_spec N q); [lia|reflexivity].
  - destruct (Nat.leb p q); [now rewrite IH|reflexivity].
Qed.
Lemma knots_le_le xk q : (knots_le xk q <= length xk)%nat.
Proof. induction xk as [|x r IH]; cbn [knots_le length]; [lia|]. destruct (Nat.leb x q); lia. Qed.
Lemma knots_le_gt idx q : (forall p, In p idx -> (q < p)%nat) -> knots_le idx q = 0%nat.
Proof.
  destruct idx as [|p r]; intros H; cbn [knots_le]; [reflexivity|].
  destruct (Nat.leb_spec p q); [specialize (H p (or_introl eq_refl)); lia|reflexivity].
Qed.
(** [knots_le] on a strictly ascending list is the number of knots <= q (searchsorted) *)
Lemma knots_le_count idx q : ascending idx -> knots_le idx q = length (filter (fun p => Nat.leb p q) idx).
Proof.
  induction 1 as [|p r Hlt Ha IH]; cbn [knots_le filter]; [reflexivity|].
  destruct (Nat.leb_spec p q); cbn [length]; [now rewrite IH|].
  symmetry. replace (filter (fun p0 => Nat.leb p0 q) r) with (@nil nat); [reflexivity|].
  symmetry. clear IH Ha. induction r as [|x r IHr]; [reflexivity|]. cbn [filter].
  destruct (Nat.leb_spec x q); [specialize (Hlt x (or_introl eq_refl)); lia|]. apply IHr. intros j Hj. apply Hlt. now right.
Qed.
Lemma cumsum_from_cons0 acc (l : list R) : cumsum_from acc (0 :: l) = acc :: cumsum_from acc l.
Proof. cbn [cumsum_from]. numR. now rewrite Rplus_0_r. Qed.
(** position i .. i+n-1 of the running sum: the partial sum over the knots <= q *)
Lemma step_cumsum_from n : forall i idx (vals : list R) acc, ascending idx -> (forall p, In p idx -> (i <= p)%nat) ->
  length idx = length vals ->
  map (fun q => nth (knots_le idx q) (acc :: cumsum_from acc vals) 0) (seq i n) = cumsum_from acc (scatter i n idx vals).
Proof.
  induction n as [|n IH]; intros i idx vals acc Ha Hw Hl; [reflexivity|].
  cbn [seq map scatter]. destruct idx as [|p ir].
  - destruct vals; [|discriminate]. cbn [knots_le nth cumsum_from]. change (@n0 R NumR) with 0. numR. rewrite Rplus_0_r. f_equal.
    rewrite <- (IH (S i) [] [] acc); auto. intros ? [].
  - destruct vals as [|v vr]; [discriminate|]. inversion Ha as [|? ? Hlt Har]; subst.
    destruct (Nat.eqb_spec p i) as [->|E].
    + cbn [cumsum_from]. f_equal.
      * cbn [knots_le]. rewrite Nat.leb_refl. rewrite knots_le_gt by assumption. reflexivity.
      * assert (Hw' : forall r, In r ir -> (S i <= r)%nat) by (intros r Hr; specialize (Hlt r Hr); lia).
        assert (Hl' : length ir = length vr) by (cbn [length] in Hl; lia).
        rewrite <- (IH (S i) ir vr (nadd acc v) Har Hw' Hl').
        apply map_ext_in. intros q Hq. apply in_seq in Hq. cbn [knots_le].
        replace (Nat.leb i q) with true by (symmetry; apply Nat.leb_le; lia). reflexivity.
    + change (@n0 R NumR) with 0. rewrite cumsum_from_cons0. f_equal.
      * cbn [knots_le]. pose proof (Hw p (or_introl eq_refl)).
        replace (Nat.leb p i) with false by (symmetry; apply Nat.leb_gt; lia). reflexivity.
      * apply IH; auto. intros r Hr. pose proof (Hw p (or_introl eq_refl)). destruct Hr as [<-|Hr]; [lia|]. specialize (Hlt r Hr). lia.
Qed.
(** interp1d(kind='previous') over knots [0, p_0 .. p_k-1, n] with values [0, c_0 .. c_k-1, c_k-1], sampled at 0 .. n-1, is the
    running sum of the values scattered at the (strictly ascending) positions p *)
Lemma interp_previous_cumsum n idx (vals : list R) : ascending idx -> (forall p, In p idx -> (p < n)%nat) ->
  length idx = length vals ->
  let c := cumsum vals in
  map (interp_previous (0%nat :: idx ++ [n]) (0 :: c ++ [last (0 :: c) 0])) (seq 0 n) = cumsum (scatter 0 n idx vals).
Proof.
  intros Ha Hw Hl c. unfold cumsum at 1. change (@n0 R NumR) with 0. rewrite <- (step_cumsum_from n 0 idx vals 0 Ha) by (auto; intros; lia).
  apply map_ext_in. intros q Hq. apply in_seq in Hq. unfold interp_previous.
  cbn [knots_le Nat.leb]. rewrite knots_le_app_last by lia.
  pose proof (knots_le_le idx q) as Hm. set (m := knots_le idx q) in *.
  replace (S m - 1)%nat with m by lia. cbn [length]. rewrite app_length. cbn [length].
  rewrite Nat.min_l by lia.
  change (0 :: c ++ [last (0 :: c) 0]) with ((0 :: c) ++ [last (0 :: c) 0]).
  rewrite app_nth1 by (cbn [length]; unfold c; rewrite cumsum_length; lia). reflexivity.
Qed.
Lemma n_cyc_core_interp_eq (kn : R -> R) cut tiny (xs : list R) :
  n_cyc_core_interp kn cut tiny xs = n_cyc_core kn cut tiny xs.
Proof.
  unfold n_cyc_core_interp, n_cyc_core. cbv zeta. change (@n0 R NumR) with 0.
  set (ps := switched_peaks 0 xs). set (perc := map _ (peak_amps cut tiny xs)).
  assert (Lp : length ps = length perc) by (unfold perc, peak_amps; now rewrite !map_length).
  rewrite !np_insert_0. rewrite np_insert_before_last by discriminate.
  replace (length ((0%R :: cumsum perc) ++ [last (0%R :: cumsum perc) 0%R]) - 1)%nat with (length (0%nat :: ps)).
  2:{ rewrite app_length. cbn [length]. rewrite cumsum_length. lia. }
  rewrite np_insert_end.
  apply (interp_previous_cumsum (length xs) ps perc); [apply C12_sp_ascending| |exact Lp].
  intros p Hp. apply sp_within in Hp. lia.
Qed.
Lemma C13_ncyc_interp_eq a_ref b cut (xs : list R) : n_cyc_interp_R a_ref b cut xs = n_cyc_R a_ref b cut xs.
Proof. unfold n_cyc_interp_R, n_cyc_R, n_cyc_pl_interp, n_cyc_pl. apply n_cyc_core_interp_eq. Qed.
