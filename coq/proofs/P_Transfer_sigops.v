(** Q -> R transfer for model/M_signalops.v (see proofs/P_Transfer.v for the conventions).  scipy's butter+filtfilt and
    np.polyfit are oracles of the model: they enter as [rel]-respecting pairs.  For all inputs. *)
From Coq Require Import ZArith QArith Reals List Bool Lia.
From EQ Require Import lib.Num lib.NpList lib.Transfer model.M_signalops.
Import ListNotations.

(** * M_signalops *)
(** signals (dt, values); error-or-result sums with the same error on both sides *)
Definition relSig (s : signal (T:=Q)) (s' : signal (T:=R)) : Prop := rel (s_dt s) (s_dt s') /\ relL (s_vals s) (s_vals s').
Inductive relS {E A A'} (RA : A -> A' -> Prop) : E + A -> E + A' -> Prop :=
| relS_l e : relS RA (inl e) (inl e)
| relS_r a a' : RA a a' -> relS RA (inr a) (inr a').
Ltac relof_hook A ::= lazymatch A with signal => constr:(relSig) | @signal Q => constr:(relSig) end.
Lemma relSig_dt s s' : relSig s s' -> rel (s_dt s) (s_dt s'). Proof. intros []; assumption. Qed.
Lemma relSig_vals s s' : relSig s s' -> relL (s_vals s) (s_vals s'). Proof. intros []; assumption. Qed.
Lemma relSig_intro dt dt' v v' : rel dt dt' -> relL v v' -> relSig {| s_dt := dt; s_vals := v |} {| s_dt := dt'; s_vals := v' |}.
Proof. split; assumption. Qed.
Ltac hook_s1 h :=
  lazymatch h with
  | @s_dt => apply relSig_dt
  | @s_vals => apply relSig_vals
  | @Build_signal => apply relSig_intro
  | _ => fail
  end.
Ltac xfer_hook ::= xfer_dispatch hook_s1.
Ltac sum_rule :=
  match goal with
  | |- relS _ (inl _) (inl _) => constructor
  | |- relS _ (inr _) (inr _) => constructor
  end.

Lemma slice_transfer s f l l' : relL l l' -> relL (slice s f l) (slice s f l').
Proof. xfer_def slice. Qed.
Lemma lastn_transfer k l l' : relL l l' -> relL (lastn k l) (lastn k l').
Proof. xfer_def lastn. Qed.
Ltac hook_s2 h :=
  lazymatch h with
  | @slice => apply slice_transfer
  | @lastn => apply lastn_transfer
  | _ => hook_s1 h
  end.
Ltac xfer_hook ::= first [ sum_rule | xfer_dispatch hook_s2 ].
Lemma dot_transfer u u' v v' : relL u u' -> relL v v' -> rel (dot u v) (dot u' v').
Proof. xfer_def dot. Qed.
Ltac hook_s3 h :=
  lazymatch h with
  | @dot => apply dot_transfer
  | _ => hook_s2 h
  end.
Ltac xfer_hook ::= first [ sum_rule | xfer_dispatch hook_s3 ].
Lemma mean_transfer l l' : relL l l' -> rel (mean l) (mean l').
Proof. xfer_def mean. Qed.
Ltac hook_s4 h :=
  lazymatch h with
  | @mean => apply mean_transfer
  | _ => hook_s3 h
  end.
Ltac xfer_hook ::= first [ sum_rule | xfer_dispatch hook_s4 ].
Lemma nyquist_transfer dt dt' : rel dt dt' -> rel (nyquist dt) (nyquist dt').
Proof. xfer_def nyquist. Qed.
Ltac hook_s5 h :=
  lazymatch h with
  | @nyquist => apply nyquist_transfer
  | _ => hook_s4 h
  end.
Ltac xfer_hook ::= first [ sum_rule | xfer_dispatch hook_s5 ].
Lemma butter_args_transfer cont cut cut' dt dt' : Forall2 (relO rel) cut cut' -> rel dt dt' ->
  relS (relP eq relL) (butter_args cont cut dt) (butter_args cont cut' dt').
Proof.
  intros Hc Hd. unfold butter_args.
  destruct cont; try constructor;
    (destruct Hc as [|o1 o1' c1 c1' [|a1 a1' Ha1] Hc]; [constructor|..];
     (destruct Hc as [|o2 o2' c2 c2' [|a2 a2' Ha2] Hc]; [constructor|..]);
     (destruct Hc; constructor; xfer)).
Qed.
Ltac hook_s6 h :=
  lazymatch h with
  | @butter_args => apply butter_args_transfer
  | _ => hook_s5 h
  end.
Ltac xfer_hook ::= first [ sum_rule | xfer_dispatch hook_s6 ].
Lemma gibbs_pad_transfer grange nl s f x x' : relL x x' -> relL (gibbs_pad grange nl s f x) (gibbs_pad grange nl s f x').
Proof. xfer_def gibbs_pad. Qed.
Ltac hook_s7 h :=
  lazymatch h with
  | @gibbs_pad => apply gibbs_pad_transfer
  | _ => hook_s6 h
  end.
Ltac xfer_hook ::= first [ sum_rule | xfer_dispatch hook_s7 ].
(** the scipy filter oracle *)
Definition relFF (FF : nat -> btype -> list Q -> list Q -> list Q) (FF' : nat -> btype -> list R -> list R -> list R) : Prop :=
  forall order bt wn wn' x x', relL wn wn' -> relL x x' -> relL (FF order bt wn x) (FF' order bt wn' x').
Lemma butter_pass_transfer FF FF' order cont cut cut' g extra grange s s' :
  relFF FF FF' -> Forall2 (relO rel) cut cut' -> relSig s s' ->
  relS relSig (butter_pass FF order cont cut g extra grange s) (butter_pass FF' order cont cut' g extra grange s').
Proof.
  intros HFF Hc Hs. unfold butter_pass.
  destruct (butter_args_transfer cont cut cut' (s_dt s) (s_dt s') Hc (relSig_dt _ _ Hs)) as [e|[bt wn] [bt' wn'] [Hb Hw]];
    [constructor|]. cbn [fst snd] in Hb, Hw. subst bt'.
  rewrite (F2_length rel _ _ (relSig_vals _ _ Hs)).
  destruct (gibbs_layout (length (s_vals s')) extra g) as [[nl sl] fl].
  constructor. unfold relFF in HFF. destruct g; xfer.
Qed.
Ltac hook_s8 h :=
  lazymatch h with
  | @butter_pass => apply butter_pass_transfer
  | _ => hook_s7 h
  end.
Ltac xfer_hook ::= first [ sum_rule | xfer_dispatch hook_s8 ].
Lemma butter_pass_scipy_args_transfer order cont cut cut' g extra grange s s' :
  Forall2 (relO rel) cut cut' -> relSig s s' ->
  relS (relP (relP eq relL) relL) (butter_pass_scipy_args order cont cut g extra grange s)
                                   (butter_pass_scipy_args order cont cut' g extra grange s').
Proof.
  intros Hc Hs. unfold butter_pass_scipy_args.
  destruct (butter_args_transfer cont cut cut' (s_dt s) (s_dt s') Hc (relSig_dt _ _ Hs)) as [e|[bt wn] [bt' wn'] [Hb Hw]];
    [constructor|]. cbn [fst snd] in Hb, Hw. subst bt'.
  rewrite (F2_length rel _ _ (relSig_vals _ _ Hs)).
  destruct (gibbs_layout (length (s_vals s')) extra g) as [[nl sl] fl].
  constructor. destruct g; xfer.
Qed.
Ltac hook_s9 h :=
  lazymatch h with
  | @butter_pass_scipy_args => apply butter_pass_scipy_args_transfer
  | _ => hook_s8 h
  end.
Ltac xfer_hook ::= first [ sum_rule | xfer_dispatch hook_s9 ].
Lemma npow_transfer x x' e : rel x x' -> rel (npow x e) (npow x' e).
Proof. intros. induction e; cbn [npow]; xfer. Qed.
Ltac hook_s10 h :=
  lazymatch h with
  | @npow => apply npow_transfer
  | _ => hook_s9 h
  end.
Ltac xfer_hook ::= first [ sum_rule | xfer_dispatch hook_s10 ].
Lemma butter_gain2_transfer bt order t t' tc tc' : rel t t' -> relL tc tc' ->
  rel (butter_gain2 bt order t tc) (butter_gain2 bt order t' tc').
Proof.
  intros Ht Hc. unfold butter_gain2.
  destruct bt; (destruct Hc as [|c1 c1' r1 r1' H1 Hc]; [xfer|]; destruct Hc as [|c2 c2' r2 r2' H2 Hc]; [xfer|];
                destruct Hc; xfer).
Qed.
Ltac hook_s11 h :=
  lazymatch h with
  | @butter_gain2 => apply butter_gain2_transfer
  | _ => hook_s10 h
  end.
Ltac xfer_hook ::= first [ sum_rule | xfer_dispatch hook_s11 ].
Lemma linspace01_transfer n : relL (linspace01 n) (linspace01 n).
Proof. xfer_def linspace01. Qed.
Ltac hook_s12 h :=
  lazymatch h with
  | @linspace01 => apply linspace01_transfer
  | _ => hook_s11 h
  end.
Ltac xfer_hook ::= first [ sum_rule | xfer_dispatch hook_s12 ].
Lemma prow_transfer k x x' : rel x x' -> relL (prow k x) (prow k x').
Proof. xfer_def prow. Qed.
Ltac hook_s13 h :=
  lazymatch h with
  | @prow => apply prow_transfer
  | _ => hook_s12 h
  end.
Ltac xfer_hook ::= first [ sum_rule | xfer_dispatch hook_s13 ].
Lemma design_transfer k xs xs' : relL xs xs' -> relLL (design k xs) (design k xs').
Proof. xfer_def design. Qed.
Ltac hook_s14 h :=
  lazymatch h with
  | @design => apply design_transfer
  | _ => hook_s13 h
  end.
Ltac xfer_hook ::= first [ sum_rule | xfer_dispatch hook_s14 ].
Lemma mv_transfer A A' c c' : relLL A A' -> relL c c' -> relL (mv A c) (mv A' c').
Proof. xfer_def mv. Qed.
Ltac hook_s15 h :=
  lazymatch h with
  | @mv => apply mv_transfer
  | _ => hook_s14 h
  end.
Ltac xfer_hook ::= first [ sum_rule | xfer_dispatch hook_s15 ].
Lemma col_transfer j A A' : relLL A A' -> relL (col j A) (col j A').
Proof. xfer_def col. Qed.
Ltac hook_s16 h :=
  lazymatch h with
  | @col => apply col_transfer
  | _ => hook_s15 h
  end.
Ltac xfer_hook ::= first [ sum_rule | xfer_dispatch hook_s16 ].
Lemma remove_poly_with_transfer k c c' y y' : relL c c' -> relL y y' -> relL (remove_poly_with k c y) (remove_poly_with k c' y').
Proof. xfer_def remove_poly_with. Qed.
Ltac hook_s17 h :=
  lazymatch h with
  | @remove_poly_with => apply remove_poly_with_transfer
  | _ => hook_s16 h
  end.
Ltac xfer_hook ::= first [ sum_rule | xfer_dispatch hook_s17 ].
(** the np.polyfit oracle *)
Definition relPF (pf : nat -> list Q -> list Q -> list Q) (pf' : nat -> list R -> list R -> list R) : Prop :=
  forall k xs xs' y y', relL xs xs' -> relL y y' -> relL (pf k xs y) (pf' k xs' y').
Lemma remove_poly_transfer pf pf' k y y' : relPF pf pf' -> relL y y' -> relL (remove_poly pf k y) (remove_poly pf' k y').
Proof. unfold relPF. xfer_def remove_poly. Qed.
Ltac hook_s18 h :=
  lazymatch h with
  | @remove_poly => apply remove_poly_transfer
  | _ => hook_s17 h
  end.
Ltac xfer_hook ::= first [ sum_rule | xfer_dispatch hook_s18 ].
Lemma remove_poly_sig_transfer pf pf' k s s' : relPF pf pf' -> relSig s s' ->
  relSig (remove_poly_sig pf k s) (remove_poly_sig pf' k s').
Proof. xfer_def remove_poly_sig. Qed.
Ltac hook_s19 h :=
  lazymatch h with
  | @remove_poly_sig => apply remove_poly_sig_transfer
  | _ => hook_s18 h
  end.
Ltac xfer_hook ::= first [ sum_rule | xfer_dispatch hook_s19 ].
Lemma normal_okb_transfer A A' y y' c c' m : relLL A A' -> relL y y' -> relL c c' -> normal_okb A y c m = normal_okb A' y' c' m.
Proof. intros. unfold normal_okb. apply forallb_ext_eq. xfer. Qed.
Ltac hook_s20 h :=
  lazymatch h with
  | @normal_okb => apply normal_okb_transfer
  | _ => hook_s19 h
  end.
Ltac xfer_hook ::= first [ sum_rule | xfer_dispatch hook_s20 ].
Lemma normal_aug_transfer A A' y y' m : relLL A A' -> relL y y' -> relLL (normal_aug A y m) (normal_aug A' y' m).
Proof. xfer_def normal_aug. Qed.
Ltac hook_s21 h :=
  lazymatch h with
  | @normal_aug => apply normal_aug_transfer
  | _ => hook_s20 h
  end.
Ltac xfer_hook ::= first [ sum_rule | xfer_dispatch hook_s21 ].
Lemma find_pivot_transfer j rows rows' : relLL rows rows' ->
  relO (relP relL relLL) (find_pivot j rows) (find_pivot j rows').
Proof. intros HF. induction HF; cbn [find_pivot]; xfer. Qed.
Ltac hook_s22 h :=
  lazymatch h with
  | @find_pivot => apply find_pivot_transfer
  | _ => hook_s21 h
  end.
Ltac xfer_hook ::= first [ sum_rule | xfer_dispatch hook_s22 ].
Lemma gauss_jordan_transfer cols j done done' todo todo' : relLL done done' -> relLL todo todo' ->
  relO relLL (gauss_jordan cols j done todo) (gauss_jordan cols j done' todo').
Proof. revert j done done' todo todo'. induction cols as [|c IH]; intros; cbn [gauss_jordan]; xfer. Qed.
Ltac hook_s23 h :=
  lazymatch h with
  | @gauss_jordan => apply gauss_jordan_transfer
  | _ => hook_s22 h
  end.
Ltac xfer_hook ::= first [ sum_rule | xfer_dispatch hook_s23 ].
Lemma lstsq_poly_transfer k xs xs' y y' : relL xs xs' -> relL y y' -> relL (lstsq_poly k xs y) (lstsq_poly k xs' y').
Proof. xfer_def lstsq_poly. Qed.
Ltac hook_s24 h :=
  lazymatch h with
  | @lstsq_poly => apply lstsq_poly_transfer
  | _ => hook_s23 h
  end.
Ltac xfer_hook ::= first [ sum_rule | xfer_dispatch hook_s24 ].
(** the executable exact least-squares solver is itself a legitimate polyfit oracle pair *)
Lemma lstsq_poly_relPF : relPF lstsq_poly lstsq_poly.
Proof. intros k xs xs' y y' Hx Hy. now apply lstsq_poly_transfer. Qed.
Lemma add_constant_transfer c c' s s' : rel c c' -> relSig s s' -> relSig (add_constant c s) (add_constant c' s').
Proof. xfer_def add_constant. Qed.
Ltac hook_s25 h :=
  lazymatch h with
  | @add_constant => apply add_constant_transfer
  | _ => hook_s24 h
  end.
Ltac xfer_hook ::= first [ sum_rule | xfer_dispatch hook_s25 ].
Lemma add_series_transfer ser ser' s s' : relL ser ser' -> relSig s s' -> relS relSig (add_series ser s) (add_series ser' s').
Proof. xfer_def add_series. Qed.
Ltac hook_s26 h :=
  lazymatch h with
  | @add_series => apply add_series_transfer
  | _ => hook_s25 h
  end.
Ltac xfer_hook ::= first [ sum_rule | xfer_dispatch hook_s26 ].
Lemma add_signal_transfer o o' s s' : relO relSig o o' -> relSig s s' -> relS relSig (add_signal o s) (add_signal o' s').
Proof. intros Ho Hs. unfold add_signal. destruct Ho; xfer. Qed.
Ltac hook_s27 h :=
  lazymatch h with
  | @add_signal => apply add_signal_transfer
  | _ => hook_s26 h
  end.
Ltac xfer_hook ::= first [ sum_rule | xfer_dispatch hook_s27 ].
Lemma running_average_at_transfer w x x' i : relL x x' -> rel (running_average_at w x i) (running_average_at w x' i).
Proof. xfer_def running_average_at. Qed.
Ltac hook_s28 h :=
  lazymatch h with
  | @running_average_at => apply running_average_at_transfer
  | _ => hook_s27 h
  end.
Ltac xfer_hook ::= first [ sum_rule | xfer_dispatch hook_s28 ].
Lemma running_average_transfer w x x' : relL x x' -> relL (running_average w x) (running_average w x').
Proof. xfer_def running_average. Qed.
Ltac hook_s29 h :=
  lazymatch h with
  | @running_average => apply running_average_transfer
  | _ => hook_s28 h
  end.
Ltac xfer_hook ::= first [ sum_rule | xfer_dispatch hook_s29 ].
Lemma running_average_sig_transfer w s s' : relSig s s' -> relSig (running_average_sig w s) (running_average_sig w s').
Proof. xfer_def running_average_sig. Qed.
Ltac hook_s30 h :=
  lazymatch h with
  | @running_average_sig => apply running_average_sig_transfer
  | _ => hook_s29 h
  end.
Ltac xfer_hook ::= first [ sum_rule | xfer_dispatch hook_s30 ].
Lemma window_mean_transfer w x x' i : relL x x' -> rel (window_mean w x i) (window_mean w x' i).
Proof. xfer_def window_mean. Qed.
Ltac hook_s31 h :=
  lazymatch h with
  | @window_mean => apply window_mean_transfer
  | _ => hook_s30 h
  end.
Ltac xfer_hook ::= first [ sum_rule | xfer_dispatch hook_s31 ].

Lemma relS_def (E A A' : Type) (RA : A -> A' -> Prop) (x : E + A) (x' : E + A') :
  relS RA x x' <-> (exists e, x = inl e /\ x' = inl e) \/ (exists a a', x = inr a /\ x' = inr a' /\ RA a a').
Proof.
  split.
  - intros [e|a a' H]; [left|right]; eauto 6.
  - intros [(e & -> & ->)|(a & a' & -> & -> & H)]; constructor; assumption.
Qed.
Ltac hook_s_final h := hook_s31 h.
