(** The generated definition of gen/Gen_interp2d.v (re-translated from eqsig/fns/generic.py: interp2d on every run by
    translator/py2coq_interp2d.py) is the hand-written model [interp2d] of model/M_helpers.v, for ALL inputs, with
    eps = the literal of the source.  Proved for every [NumOps] instance in which the int literals 0 and 1 of the source,
    coerced to floats, are [n0] and [n1] (true by computation at R and at Q); no arithmetic law of T is used: the array
    program is reduced query by query to the scalar expression of the source, which is the model's row. *)
From Coq Require Import String.
From Coq Require Import ZArith QArith Reals List Bool Lia Lra.
From EQ Require Import lib.Num lib.NpList lib.NpHelpers lib.NpInterp model.M_helpers gen.Gen_interp2d proofs.P_gen_helpers.
Import ListNotations.
Local Open Scope num_scope.

Lemma map2_nadd_maps {T} `{NumOps T} (g h : T -> T) (a b : list T) :
  map2 nadd (map g a) (map h b) = map2 (fun x y => g x + h y) a b.
Proof. revert b; induction a as [|x a IH]; intros [|y b]; cbn; try reflexivity. now rewrite IH. Qed.

Section Generic.
Context {T : Type} `{NumOps T}.
Hypothesis lit0 : nofZ 0 = n0.
Hypothesis lit1 : nofZ 1 = n1.

(** the literal 1e-10 of the source *)
Definition src_eps : T := n1 / nofZ 10000000000.

(** the vectorised program treats the queries one by one *)
Lemma gen_interp2d_cons (q : T) (qs xs : list T) (fm : list (list T)) :
  gen_interp2d (q :: qs) xs fm = hd [] (gen_interp2d [q] xs fm) :: gen_interp2d qs xs fm.
Proof. reflexivity. Qed.

(** one query: the scalar expression of the source is the model's row *)
Lemma gen_interp2d_row (q : T) (xs : list T) (fm : list (list T)) :
  hd [] (gen_interp2d [q] xs fm) = interp2d_row src_eps xs fm q.
Proof.
  unfold gen_interp2d, np_argmin_rows, np_outer_sub, np_where, np_where_vs, np_clip_lo_z, np_clip_hi_z, np_clip_lo,
    np_take_rows, np_madd, np_scale_rows.
  cbv zeta. cbn [map map2 combine hd fst snd].
  rewrite map_map, np_argmin_argmin, !Nat2Z.id.
  unfold interp2d_row. cbv zeta. unfold xat, lin_row, nmax. fold src_eps.
  set (ind := argmin (map (fun a : T => nabs (q - a)) xs)).
  rewrite lit0, lit1.
  destruct (q <? nth ind xs n0) eqn:Egt.
  - replace (Z.to_nat (Z.max (Z.sub (Z.of_nat ind) 1) 0)) with (pred ind) by lia.
    replace (Z.to_nat (Z.min (Z.of_nat ind) (Z.sub (Z.of_nat (length xs)) 1))) with (Nat.min ind (pred (length xs))) by lia.
    apply map2_nadd_maps.
  - replace (Z.to_nat (Z.max (Z.of_nat ind) 0)) with ind by lia.
    replace (Z.to_nat (Z.min (Z.add (Z.of_nat ind) 1) (Z.sub (Z.of_nat (length xs)) 1))) with (Nat.min (S ind) (pred (length xs))) by lia.
    apply map2_nadd_maps.
Qed.

Theorem gen_interp2d_eq (qs xs : list T) (fm : list (list T)) : gen_interp2d qs xs fm = interp2d src_eps qs xs fm.
Proof.
  unfold interp2d. induction qs as [|q qs IH]; [reflexivity|].
  rewrite gen_interp2d_cons, IH, gen_interp2d_row. reflexivity.
Qed.
End Generic.

(** every index array the source subscripts with is non-negative (numpy would wrap a negative index around): the argmin
    itself, the lower index after [np.clip(., 0, None)], the upper index after [np.clip(., None, len(xf) - 1)] once xf is not
    empty (an empty xf raises ValueError in np.argmin) *)
Lemma gen_interp2d_indices_nonneg {T} `{NumOps T} (m : list (list T)) (c : list bool) (k : list Z) (n : nat) :
  (1 <= n)%nat ->
  Forall (fun i => (0 <= i)%Z) (np_argmin_rows m) /\
  Forall (fun i => (0 <= i)%Z) (np_clip_lo_z 0 k) /\
  Forall (fun i => (0 <= i)%Z)
    (np_clip_hi_z (Z.sub (Z.of_nat n) 1) (np_where c (np_argmin_rows m) (map (fun i => Z.add i 1) (np_argmin_rows m)))).
Proof.
  intros Hn. assert (Ha : Forall (fun i => (0 <= i)%Z) (np_argmin_rows m)).
  { unfold np_argmin_rows. apply Forall_forall. intros i Hi. apply in_map_iff in Hi as [r [<- _]]. lia. }
  split; [exact Ha|]. split.
  - unfold np_clip_lo_z. apply Forall_forall. intros i Hi. apply in_map_iff in Hi as [j [<- _]]. lia.
  - unfold np_clip_hi_z, np_where. apply Forall_forall. intros i Hi. apply in_map_iff in Hi as [j [<- Hj]].
    assert (0 <= j)%Z; [|lia]. clear Hn. revert Hj Ha. generalize (np_argmin_rows m). intros l. revert c.
    induction l as [|a l IH]; intros [|t c]; cbn; try tauto.
    intros [E|Hj] Ha; inversion Ha as [|? ? Ha0 Hl]; subst.
    + destruct t; cbn; lia.
    + now apply (IH c).
Qed.

(** the two instances used by the framework *)
Theorem gen_interp2d_eq_R (qs xs : list R) (fm : list (list R)) :
  gen_interp2d qs xs fm = interp2d (1 / 10000000000)%R qs xs fm.
Proof. exact (@gen_interp2d_eq R NumR eq_refl eq_refl qs xs fm). Qed.
Lemma src_eps_Q : @src_eps Q NumQ = (1 # 10000000000)%Q.
Proof. vm_compute. reflexivity. Qed.
Theorem gen_interp2d_eq_Q (qs xs : list Q) (fm : list (list Q)) :
  gen_interp2d qs xs fm = interp2d (1 # 10000000000)%Q qs xs fm.
Proof. rewrite <- src_eps_Q. exact (@gen_interp2d_eq Q NumQ eq_refl eq_refl qs xs fm). Qed.
Lemma src_eps_pos : (0 < 1 / 10000000000)%R.
Proof. lra. Qed.
