(** The generated definitions of gen/Gen_c15.v (re-translated from eqsig/stockwell.py on every run by
    translator/py2coq_c15.py) are the hand-written model of model/M_stockwell.v, for ALL inputs.

    np.fft.fft / np.fft.ifft, scipy.fftpack.fft / ifft, np.exp, np.pi, the modulus of abs() and the float expression of
    `npts` are Section variables of the generated file.  Here the transforms are instantiated with the array-level reading
    of the defining sums of lib/Dft.v ([model_fft_re] ... of proofs/P_gen_c06.v), and, at R, exp_ := exp, pi_ := PI,
    sqrt_ := sqrt, ceil_pow_logratio := the real expression ceil(a ^ (ln b / ln c)).

    Generic part (every [NumOps] instance, no arithmetic law used: list identities and integer arithmetic):
      transform / transform_w_scipy_fft  = (st_re, st_im) given that the generated Gaussian matrix is the model's window,
      itransform = ist for every reading of the `npts` expression that is >= n,
      the frequency axis of the dominant-frequency functions = st_freqs.
    At R (arithmetic laws needed): generate_gaussian = the window Rgauss k (sidx n2 j); the real `npts` expression is n;
    argmax of the moduli sqrt(re^2+im^2) = argmax of re^2+im^2 (the model's max_row). *)
From Coq Require Import ZArith QArith List Bool Lia.
From EQ Require Import lib.Num lib.NpList lib.PyVal lib.NpArr lib.NpMat lib.Dft model.M_fourier model.M_stockwell
  gen.Gen_c06 proofs.P_gen_c06 gen.Gen_c15.
Import ListNotations.
Local Open Scope num_scope.

(** ** list and integer facts *)
Lemma map2_map_same {A B C D} (h : B -> C -> D) (f : A -> B) (g : A -> C) l :
  map2 h (map f l) (map g l) = map (fun i => h (f i) (g i)) l.
Proof. induction l as [|a l IH]; cbn; [reflexivity | now rewrite IH]. Qed.

Lemma quot_half {A} (a : list A) : Z.quot (Z.of_nat (length a)) 2 = Z.of_nat (half_len a).
Proof. unfold half_len. rewrite Z.quot_div_nonneg by lia. now rewrite Nat2Z.inj_div. Qed.

Lemma nth_map_seq {B} (f : nat -> B) d n m : (m < n)%nat -> nth m (map f (seq 0 n)) d = f m.
Proof.
  intros Hm. rewrite nth_indep with (d' := f 0%nat) by (rewrite map_length, seq_length; lia).
  rewrite (map_nth f (seq 0 n) 0%nat m). now rewrite seq_nth by lia.
Qed.
Lemma nth_map_zrange {B} (f : Z -> B) d n m : (m < n)%nat -> nth m (map f (zrange n)) d = f (Z.of_nat m).
Proof. intros Hm. unfold zrange. rewrite map_map. now apply (nth_map_seq (fun i => f (Z.of_nat i))). Qed.
Lemma nth_firstn_lt {A} (l : list A) d k m : (m < k)%nat -> nth m (firstn k l) d = nth m l d.
Proof.
  revert l m; induction k as [|k IH]; intros l m Hm; [lia|]. destruct l as [|a l]; [reflexivity|].
  destruct m as [|m]; [reflexivity|]. cbn. apply IH. lia.
Qed.
Lemma seq_from (a n : nat) : seq a n = map (fun i => (a + i)%nat) (seq 0 n).
Proof.
  revert a; induction n as [|n IH]; intros a; [reflexivity|]. cbn [seq map]. rewrite Nat.add_0_r. f_equal.
  rewrite (IH (S a)), <- seq_shift, map_map. apply map_ext. intros i. lia.
Qed.
Lemma slice_rows {B} (F : nat -> B) n : slice 1 (S n) (map F (seq 0 (S n))) = map (fun i => F (S i)) (seq 0 n).
Proof.
  unfold slice. replace (S n - 1)%nat with n by lia. cbn [seq map skipn].
  rewrite firstn_all2 by (rewrite map_length, seq_length; lia). now rewrite <- seq_shift, map_map.
Qed.

Section Generic.
Context {T : Type} `{NumOps T}.
Variable twc tws : Z -> Z -> T.
Variable gau : Z -> Z -> T.

(** the window matrix the model multiplies with: row i is voice k = i + 1, column j carries the signed index sidx n2 j *)
Definition gauss_mat (n2 : nat) : list (list T) :=
  map (fun i => map (fun j => gau (Z.of_nat i + 1)%Z (sidx n2 (Z.of_nat j))) (seq 0 (2 * n2))) (seq 0 n2).

Notation FRE n2 a := (model_fft_re twc (Some (2 * Z.of_nat n2)%Z) a).
Notation FIM n2 a := (model_fft_im tws (Some (2 * Z.of_nat n2)%Z) a).

Lemma fre_len n2 a : length (FRE n2 a) = (2 * n2)%nat.
Proof. unfold model_fft_re, fft_len. rewrite map_length, zrange_len. lia. Qed.
Lemma fim_len n2 a : length (FIM n2 a) = (2 * n2)%nat.
Proof. unfold model_fft_im, fft_len. rewrite map_length, zrange_len. lia. Qed.
Lemma fre_nth n2 a m : (m < 2 * n2)%nat -> nth m (FRE n2 a) n0 = dft_re twc (st_N n2) a (Z.of_nat m).
Proof. intros Hm. unfold model_fft_re, fft_len, st_N. apply nth_map_zrange. lia. Qed.
Lemma fim_nth n2 a m : (m < 2 * n2)%nat -> nth m (FIM n2 a) n0 = dft_im tws (st_N n2) a (Z.of_nat m).
Proof. intros Hm. unfold model_fft_im, fft_len, st_N. apply nth_map_zrange. lia. Qed.

(** rows 1 .. n2 of toeplitz(conj(fa[:n2+1]), fa) times the window = the model's rows (real and imaginary parts) *)
Lemma rows_re n2 a : (1 <= n2)%nat ->
  mmap2 nmul (slice 1 (S n2) (toeplitz (firstn (S n2) (FRE n2 a)) (FRE n2 a))) (gauss_mat n2)
  = map (fun i => st_row_re twc gau n2 a (Z.of_nat i + 1)%Z) (seq 0 n2).
Proof.
  intros Hn. unfold toeplitz. rewrite firstn_length, fre_len. replace (Nat.min (S n2) (2 * n2)) with (S n2) by lia.
  rewrite slice_rows. unfold mmap2, gauss_mat. rewrite map2_map_same. apply map_ext_in. intros i Hi. apply in_seq in Hi.
  rewrite map2_map_same. unfold st_row_re, zrange. rewrite map_map. apply map_ext_in. intros j Hj. apply in_seq in Hj.
  f_equal. unfold toep_re.
  destruct (Nat.leb_spec j (S i)) as [L|L]; destruct (Z.leb_spec (Z.of_nat j) (Z.of_nat i + 1)) as [L'|L']; try lia.
  - rewrite nth_firstn_lt by lia. rewrite fre_nth by lia. f_equal. lia.
  - rewrite fre_nth by lia. f_equal. lia.
Qed.
Lemma rows_im n2 a : (1 <= n2)%nat ->
  mmap2 nmul (slice 1 (S n2) (toeplitz (vopp (firstn (S n2) (FIM n2 a))) (FIM n2 a))) (gauss_mat n2)
  = map (fun i => st_row_im tws gau n2 a (Z.of_nat i + 1)%Z) (seq 0 n2).
Proof.
  intros Hn. unfold toeplitz, vopp. rewrite map_length, firstn_length, fim_len. replace (Nat.min (S n2) (2 * n2)) with (S n2) by lia.
  rewrite slice_rows. unfold mmap2, gauss_mat. rewrite map2_map_same. apply map_ext_in. intros i Hi. apply in_seq in Hi.
  rewrite map2_map_same. unfold st_row_im, zrange. rewrite map_map. apply map_ext_in. intros j Hj. apply in_seq in Hj.
  f_equal. unfold toep_im.
  destruct (Nat.leb_spec j (S i)) as [L|L]; destruct (Z.leb_spec (Z.of_nat j) (Z.of_nat i + 1)) as [L'|L']; try lia.
  - rewrite nth_indep with (d' := nopp n0) by (rewrite map_length, firstn_length, fim_len; lia).
    rewrite map_nth, nth_firstn_lt by lia. rewrite fim_nth by lia. do 2 f_equal. lia.
  - rewrite fim_nth by lia. f_equal. lia.
Qed.

Lemma st_row_re_len n2 a k : length (st_row_re twc gau n2 a k) = (2 * n2)%nat.
Proof. unfold st_row_re. now rewrite map_length, zrange_len. Qed.

(** the row-wise inverse transform and the flip *)
Lemma cells_re n2 a :
  rev (map2 (model_ifft_re twc tws) (map (fun i => st_row_re twc gau n2 a (Z.of_nat i + 1)%Z) (seq 0 n2))
                                     (map (fun i => st_row_im tws gau n2 a (Z.of_nat i + 1)%Z) (seq 0 n2)))
  = map (fun k => map (fun t => st_cell_re twc tws gau n2 a k t) (zrange (2 * n2))) (st_ks n2).
Proof.
  rewrite map2_map_same. unfold st_ks, zrange. rewrite map_rev, !map_map. f_equal. apply map_ext. intros i.
  unfold model_ifft_re. rewrite st_row_re_len. unfold zrange. rewrite !map_map. apply map_ext. intros t.
  unfold st_cell_re, st_N. do 2 f_equal. lia.
Qed.
Lemma cells_im n2 a :
  rev (map2 (model_ifft_im twc tws) (map (fun i => st_row_re twc gau n2 a (Z.of_nat i + 1)%Z) (seq 0 n2))
                                     (map (fun i => st_row_im tws gau n2 a (Z.of_nat i + 1)%Z) (seq 0 n2)))
  = map (fun k => map (fun t => st_cell_im twc tws gau n2 a k t) (zrange (2 * n2))) (st_ks n2).
Proof.
  rewrite map2_map_same. unfold st_ks, zrange. rewrite map_rev, !map_map. f_equal. apply map_ext. intros i.
  unfold model_ifft_im. rewrite st_row_re_len. unfold zrange. rewrite !map_map. apply map_ext. intros t.
  unfold st_cell_im, st_N. do 2 f_equal. lia.
Qed.

(** ** transform(acc): guard = at least two samples (np.fft.fft(acc, 0) raises for shorter records); the hypothesis on the
       generated Gaussian matrix is discharged at R below (it needs the field laws) *)
Theorem gen_transform_eq (exp_ : T -> T) (pi_ : T) (a : list T) : (1 <= half_len a)%nat ->
  gen_generate_gaussian exp_ pi_ (Z.of_nat (half_len a)) = gauss_mat (half_len a) ->
  gen_transform (model_fft_re twc) (model_fft_im tws) (model_ifft_re twc tws) (model_ifft_im twc tws) exp_ pi_ a
  = (st_re twc tws gau a, st_im twc tws gau a).
Proof.
  intros Hn HG. unfold gen_transform, st_re, st_im. rewrite !quot_half, HG. cbv zeta.
  set (n2 := half_len a) in *.
  replace (Z.to_nat 1%Z) with 1%nat by reflexivity. replace (Z.to_nat (Z.of_nat n2 + 1)%Z) with (S n2) by lia.
  rewrite (rows_re n2 a Hn), (rows_im n2 a Hn), cells_re, cells_im. reflexivity.
Qed.

(** transform_w_scipy_fft is the same text with the SciPy transforms in the place of NumPy's *)
Theorem gen_transform_scipy_eq (fr fi : option Z -> list T -> list T) (ir ii : list T -> list T -> list T) (exp_ : T -> T) (pi_ : T) (a : list T) :
  gen_transform_w_scipy_fft fr fi ir ii exp_ pi_ a = gen_transform fr fi ir ii exp_ pi_ a.
Proof. reflexivity. Qed.
End Generic.

(** ** itransform(stock) and the frequency axis: generic *)
Lemma rev_map_seq {B} (f : nat -> B) n : rev (map f (seq 0 n)) = map (fun i => f (n - 1 - i)%nat) (seq 0 n).
Proof.
  induction n as [|n IH]; [reflexivity|]. change (seq 0 (S n)) with (0%nat :: seq 1 n) at 2.
  rewrite seq_S, map_app, rev_app_distr. cbn [map rev app Nat.add]. rewrite IH.
  rewrite <- seq_shift, map_map. f_equal; [f_equal; lia|]. apply map_ext_in. intros i Hi. apply in_seq in Hi.
  f_equal. lia.
Qed.

Section Generic2.
Context {T : Type} `{NumOps T}.
Variable twc tws : Z -> Z -> T.

Lemma sum_axis1_row_sums (m : list (list T)) : sum_axis1 m = row_sums m.
Proof. reflexivity. Qed.

(** Guards: a matrix with at least one row (np.fft.ifft raises on an empty array), given as equally many rows of real and
    imaginary parts.  [cpl] is ANY reading of int(np.ceil(2 ** (np.log(n) / np.log(2)))) that is at least n = 2 len(ss):
    the slice [:npts] then keeps all n samples (the exact-arithmetic value is n: [R_cpl_pow2] below; a float evaluation
    that lands on n + 1 gives the same array). *)
Theorem gen_itransform_eq (cpl : Z -> Z -> Z -> Z) (re im : list (list T)) : re <> [] -> length im = length re ->
  (2 * Z.of_nat (length re) <= cpl 2 (2 * Z.of_nat (length re)) 2)%Z ->
  gen_itransform (model_ifft_re twc tws) cpl re im = ist twc tws re im.
Proof.
  intros Hre Hlen Hc. unfold gen_itransform, ist, ist_of_sums.
  change (sum_axis1 re) with (row_sums re). change (sum_axis1 im) with (row_sums im).
  assert (Lr : length (row_sums re) = length re) by (unfold row_sums; apply map_length).
  assert (Li : length (row_sums im) = length re) by (unfold row_sums; rewrite map_length; exact Hlen).
  rewrite Lr. destruct (row_sums re) as [|r0 l]; [destruct re; [contradiction | discriminate]|].
  destruct (row_sums im) as [|i0 li]; [rewrite <- Lr in Li; discriminate|].
  rewrite <- Lr in Li, Hc |- *. clear Lr. cbn [length] in Li. injection Li as Li.
  unfold ist_spec_re, ist_spec_im, zeros, vopp. cbn [tl length] in *.
  set (M := length l) in *.
  replace (Z.to_nat 1%Z) with 1%nat by reflexivity.
  replace (Z.to_nat (2 * Z.of_nat (S M) / 2 + 1)%Z) with (S M + 1)%nat
    by (rewrite (Z.mul_comm 2), Z.div_mul by lia; lia).
  replace (Z.to_nat (2 * Z.of_nat (S M) / 2)%Z) with (S M) by (rewrite (Z.mul_comm 2), Z.div_mul by lia; lia).
  replace (Z.to_nat (2 * Z.of_nat (S M))%Z) with (2 * S M)%nat by lia.
  rewrite (set_slice_herm n0 (rev l) l M (rev_length l)).
  rewrite (set_slice_herm n0 (rev (map nopp li)) li M) by (rewrite rev_length, map_length; exact Li).
  set (A := n0 :: rev l ++ n0 :: l). set (B := n0 :: rev (map nopp li) ++ n0 :: li).
  assert (LA : length A = (2 * S M)%nat).
  { unfold A. cbn [length]. rewrite app_length. cbn [length]. rewrite rev_length. fold M. lia. }
  unfold model_ifft_re. rewrite LA.
  replace (Z.of_nat (2 * S M)) with (2 * Z.of_nat (S M))%Z by lia.
  apply firstn_all2. rewrite map_length, zrange_len. lia.
Qed.

(** freqs = np.flipud(np.arange(1, points + 1) / (2 * points * dt)) *)
Lemma gen_freqs_eq (p : nat) (dt : T) :
  rev (map (fun x => x / (nofZ (2 * Z.of_nat p)%Z * dt)) (arange_z 1%Z (Z.of_nat p + 1)%Z)) = st_freqs p dt.
Proof.
  unfold arange_z, st_freqs, zrange. replace (Z.to_nat (Z.of_nat p + 1 - 1)) with p by lia.
  rewrite !map_map, rev_map_seq. apply map_ext_in. intros i Hi. apply in_seq in Hi. do 2 f_equal. lia.
Qed.

(** get_max_tifq_vals_freq without the modulus unfolded: the axis is the model's, the selection is np.take *)
Lemma gen_tifq_shape (sqrt_ : T -> T) (re im : list (list T)) (dt : T) :
  gen_get_max_tifq_vals_freq sqrt_ re im dt
  = take n0 (st_freqs (length re) dt) (argmax_axis0 (mmap2 (fun x y => sqrt_ (x * x + y * y)) re im)).
Proof. unfold gen_get_max_tifq_vals_freq. now rewrite gen_freqs_eq. Qed.

(** get_max_stockwell_freq: with a cached transform it is get_max_tifq_vals_freq of the cache, without one it is
    get_max_tifq_vals_freq of transform(asig.values) (and that matrix is what is stored in asig.swtf) *)
Theorem gen_max_stockwell_cases fr fi ir ii (exp_ sqrt_ : T -> T) (pi_ : T) (dt : T) (a : list T) :
  (forall c, gen_get_max_stockwell_freq fr fi ir ii exp_ sqrt_ pi_ (Some c) dt a = gen_get_max_tifq_vals_freq sqrt_ (fst c) (snd c) dt) /\
  gen_get_max_stockwell_freq fr fi ir ii exp_ sqrt_ pi_ None dt a
  = gen_get_max_tifq_vals_freq sqrt_ (fst (gen_transform fr fi ir ii exp_ pi_ a)) (snd (gen_transform fr fi ir ii exp_ pi_ a)) dt.
Proof. split; [intros c|]; reflexivity. Qed.
End Generic2.

(** ** the R instance: arithmetic laws are needed from here on *)
From Coq Require Import Reals Lra.
Local Open Scope R_scope.

(** *** generate_gaussian(n_d2) is the model's window *)
Lemma transpose_tab (psi : nat -> nat -> R) r c : (1 <= r)%nat ->
  transpose (map (fun i => map (fun j => psi i j) (seq 0 c)) (seq 0 r)) = map (fun j => map (fun i => psi i j) (seq 0 r)) (seq 0 c).
Proof.
  intros Hr. unfold transpose. destruct r as [|r]; [lia|].
  change (hd [] (map (fun i => map (fun j => psi i j) (seq 0 c)) (seq 0 (S r)))) with (map (fun j => psi 0%nat j) (seq 0 c)).
  rewrite map_length, seq_length. apply map_ext_in. intros j Hj. apply in_seq in Hj. rewrite map_map.
  apply map_ext. intros i. apply (nth_map_seq (fun j => psi i j)). lia.
Qed.

Lemma removelast_map_seq {B} (h : nat -> B) a n : removelast (map h (seq a (S n))) = map h (seq a n).
Proof. rewrite seq_S, map_app. cbn [map]. apply removelast_last. Qed.

Section Gauss.
Variable m : nat.                       (* n_d2 = S m >= 1 *)
Let n2 := S m.
Let D := IZR (2 * Z.of_nat n2).
Let fh : list R := map (fun x => x / D) (arange_z 0%Z (Z.of_nat n2 + 1)%Z).

Lemma gauss_fh : fh = map (fun i => IZR (Z.of_nat i) / D) (seq 0 (S n2)).
Proof.
  unfold fh, arange_z. replace (Z.to_nat (Z.of_nat n2 + 1 - 0)) with (S n2) by lia. rewrite map_map. apply map_ext. intros i.
  numR. now rewrite Z.add_0_l.
Qed.
Lemma gauss_F : fh ++ rev (vopp (removelast (tl fh))) = map (fun j => IZR (sidx n2 (Z.of_nat j)) / D) (seq 0 (2 * n2)).
Proof.
  rewrite gauss_fh. replace (2 * n2)%nat with (S n2 + m)%nat by (unfold n2; lia). rewrite seq_app, map_app. f_equal.
  - apply map_ext_in. intros i Hi. apply in_seq in Hi. unfold sidx.
    destruct (Z.leb_spec (Z.of_nat i) (Z.of_nat n2)); [reflexivity | lia].
  - change (tl (map (fun i => IZR (Z.of_nat i) / D) (seq 0 (S n2)))) with (map (fun i => IZR (Z.of_nat i) / D) (seq 1 n2)).
    unfold n2 at 1. rewrite removelast_map_seq. unfold vopp. rewrite <- seq_shift, !map_map, rev_map_seq.
    rewrite (seq_from (0 + S n2) m), map_map. apply map_ext_in. intros i Hi. apply in_seq in Hi. numR.
    unfold sidx, st_N. destruct (Z.leb_spec (Z.of_nat (0 + S n2 + i)) (Z.of_nat n2)); [lia|].
    replace (Z.of_nat (0 + S n2 + i) - 2 * Z.of_nat n2)%Z with (- Z.of_nat (S (m - 1 - i)))%Z by (unfold n2; lia).
    rewrite opp_IZR. unfold Rdiv. ring.
Qed.
Lemma gauss_G : map (fun x => IZR 1 / x) (tl fh) = map (fun i => 1 / (IZR (Z.of_nat i + 1) / D)) (seq 0 n2).
Proof.
  rewrite gauss_fh.
  change (tl (map (fun i => IZR (Z.of_nat i) / D) (seq 0 (S n2)))) with (map (fun i => IZR (Z.of_nat i) / D) (seq 1 n2)).
  rewrite <- seq_shift, !map_map. apply map_ext. intros i. do 3 f_equal. lia.
Qed.

Lemma gen_gaussian_R_S : gen_generate_gaussian exp PI (Z.of_nat n2) = gauss_mat Rgauss n2.
Proof.
  unfold gen_generate_gaussian. numR. fold D. fold fh. rewrite gauss_F, gauss_G.
  unfold outer, mmap. rewrite !map_map.
  rewrite (map_ext _ (fun i => map (fun j => exp (- npow (IZR 2 * PI * (IZR (sidx n2 (Z.of_nat i)) / D * (1 / (IZR (Z.of_nat j + 1) / D)))) 2 / IZR 2)) (seq 0 n2)))
    by (intros i; now rewrite !map_map).
  rewrite (transpose_tab (fun i j => exp (- npow (IZR 2 * PI * (IZR (sidx n2 (Z.of_nat i)) / D * (1 / (IZR (Z.of_nat j + 1) / D)))) 2 / IZR 2)))
    by (unfold n2; lia).
  unfold gauss_mat. apply map_ext_in. intros k Hk. apply in_seq in Hk. apply map_ext_in. intros j Hj. apply in_seq in Hj.
  unfold Rgauss. f_equal. cbn [npow]. numR.
  assert (HD : D <> 0) by (unfold D; apply not_0_IZR; unfold n2; lia).
  assert (Hk' : IZR (Z.of_nat k + 1) <> 0) by (apply not_0_IZR; lia).
  field. split; assumption.
Qed.
End Gauss.

Theorem gen_gaussian_R (n2 : nat) : (1 <= n2)%nat -> gen_generate_gaussian exp PI (Z.of_nat n2) = gauss_mat Rgauss n2.
Proof. intros Hn. destruct n2 as [|m]; [lia|]. apply gen_gaussian_R_S. Qed.

(** entry (k - 1, j) of the generated window, spelled out *)
Corollary gen_gaussian_R_nth (n2 k j : nat) : (1 <= k <= n2)%nat -> (j < 2 * n2)%nat ->
  nth j (nth (k - 1) (gen_generate_gaussian exp PI (Z.of_nat n2)) []) 0 = Rgauss (Z.of_nat k) (sidx n2 (Z.of_nat j)).
Proof.
  intros Hk Hj. rewrite gen_gaussian_R by lia. unfold gauss_mat.
  rewrite (nth_map_seq (fun i => map (fun j => Rgauss (Z.of_nat i + 1) (sidx n2 (Z.of_nat j))) (seq 0 (2 * n2)))) by lia.
  rewrite (nth_map_seq (fun j => Rgauss (Z.of_nat (k - 1) + 1) (sidx n2 (Z.of_nat j)))) by lia. f_equal. lia.
Qed.

(** *** transform / transform_w_scipy_fft at R *)
Theorem gen_transform_R (a : list R) : (1 <= half_len a)%nat ->
  gen_transform (model_fft_re Rtwc) (model_fft_im Rtws) (model_ifft_re Rtwc Rtws) (model_ifft_im Rtwc Rtws) exp PI a
  = (st_re_R a, st_im_R a).
Proof. intros Hn. apply (gen_transform_eq Rtwc Rtws Rgauss exp PI a Hn). now apply gen_gaussian_R. Qed.
Theorem gen_transform_scipy_R (a : list R) : (1 <= half_len a)%nat ->
  gen_transform_w_scipy_fft (model_fft_re Rtwc) (model_fft_im Rtws) (model_ifft_re Rtwc Rtws) (model_ifft_im Rtwc Rtws) exp PI a
  = (st_re_R a, st_im_R a).
Proof. intros Hn. rewrite gen_transform_scipy_eq. now apply gen_transform_R. Qed.

(** *** npts = int(np.ceil(2 ** (np.log(n) / np.log(2)))) in exact arithmetic *)
Definition R_cpl (a b c : Z) : Z := (1 - up (- Rpower (IZR a) (ln (IZR b) / ln (IZR c))))%Z.   (* ceil x = 1 - up (- x) *)
Lemma R_cpl_pow2 (n : Z) : (1 <= n)%Z -> R_cpl 2 n 2 = n.
Proof.
  intros Hn. unfold R_cpl.
  assert (Hl2 : ln 2 <> 0) by (pose proof ln_lt_2; lra).
  assert (E : Rpower 2 (ln (IZR n) / ln 2) = IZR n).
  { unfold Rpower. replace (ln (IZR n) / ln 2 * ln 2) with (ln (IZR n)) by (field; exact Hl2).
    apply exp_ln. apply IZR_lt. lia. }
  rewrite E, <- opp_IZR. rewrite <- (tech_up (IZR (- n)) (- n + 1)%Z).
  - lia.
  - apply IZR_lt. lia.
  - rewrite plus_IZR. lra.
Qed.

Theorem gen_itransform_R (re im : list (list R)) : re <> [] -> length im = length re ->
  gen_itransform (model_ifft_re Rtwc Rtws) R_cpl re im = ist_R re im.
Proof.
  intros Hre Hlen. apply gen_itransform_eq; try assumption. rewrite R_cpl_pow2; [lia|].
  destruct re; [contradiction | cbn [length]; lia].
Qed.

(** *** dominant frequency: argmax of the moduli = argmax of the squared moduli *)
Lemma argmax_from_sqrt (l : list R) best bi i : 0 <= best -> Forall (fun x => 0 <= x) l ->
  argmax_from (sqrt best) bi i (map sqrt l) = argmax_from best bi i l.
Proof.
  revert best bi i; induction l as [|x l IH]; intros best bi i Hb Hl; [reflexivity|].
  inversion Hl as [|? ? Hx Hl']; subst. cbn [map argmax_from]. numR.
  assert (E : Rltb (sqrt best) (sqrt x) = Rltb best x).
  { case_Rltb best x.
    - apply Rltb_true. now apply sqrt_lt_1_alt.
    - apply Rltb_false. now apply sqrt_le_1_alt. }
  rewrite E. destruct (Rltb best x); now apply IH.
Qed.
Lemma argmax_sqrt (l : list R) : Forall (fun x => 0 <= x) l -> argmax (map sqrt l) = argmax l.
Proof. destruct l as [|x l]; [reflexivity|]. intros Hl. inversion Hl; subst. cbn [map argmax]. now apply argmax_from_sqrt. Qed.

Lemma amp2_nonneg (re im : list R) : Forall (fun x => 0 <= x) (amp2 re im).
Proof.
  unfold amp2. revert im; induction re as [|a re IH]; intros [|b im]; cbn [map2]; try constructor; [|apply IH].
  numR. pose proof (Rle_0_sqr a) as Ha. pose proof (Rle_0_sqr b) as Hb. unfold Rsqr in Ha, Hb. lra.
Qed.

Definition rect (w : nat) (m : list (list R)) : Prop := Forall (fun r => length r = w) m.

Lemma column_modulus (re im : list (list R)) w t : rect w re -> rect w im -> (t < w)%nat ->
  map (fun row => nth t row n0) (mmap2 (fun x y => sqrt (x * x + y * y)%num) re im) = map sqrt (amp2 (column re t) (column im t)).
Proof.
  intros Hr Hi Ht. unfold mmap2, amp2, column. revert im Hi; induction Hr as [|r re Hr0 Hr IH]; intros im Hi; [reflexivity|].
  destruct Hi as [|i im Hi0 Hi]; [reflexivity|]. cbn [map2 map]. f_equal; [|now apply IH].
  now rewrite (map2_nth _ r i n0 n0) by lia.
Qed.

(** Guards: a complex matrix with at least one row, given as two rectangular matrices of the same shape *)
Theorem gen_tifq_R (re im : list (list R)) (dt : R) : re <> [] -> length im = length re ->
  rect (length (nth 0 re [])) re -> rect (length (nth 0 re [])) im ->
  gen_get_max_tifq_vals_freq sqrt re im dt = max_freq re im dt.
Proof.
  intros Hre Hlen Hr Hi. rewrite gen_tifq_shape. unfold max_freq, take, argmax_axis0. cbv zeta. rewrite map_map.
  set (w := length (nth 0 re [])) in *.
  assert (Hw : length (hd [] (mmap2 (fun x y => sqrt (x * x + y * y)%num) re im)) = w).
  { destruct re as [|r re]; [contradiction|]. destruct im as [|i im]; [discriminate|]. cbn [mmap2 map2 hd].
    rewrite map2_length. inversion Hr; inversion Hi; subst. cbn [nth] in *. lia. }
  rewrite Hw. apply map_ext_in. intros t Ht. apply in_seq in Ht. unfold max_row.
  rewrite (column_modulus re im w t Hr Hi) by lia. now rewrite argmax_sqrt by apply amp2_nonneg.
Qed.

Lemma st_rect (a : list R) : rect (2 * half_len a) (st_re_R a) /\ rect (2 * half_len a) (st_im_R a).
Proof.
  unfold rect, st_re_R, st_im_R, st_re, st_im. cbv zeta. split; apply Forall_forall; intros r Hr; apply in_map_iff in Hr;
    destruct Hr as (k & <- & _); now rewrite map_length, zrange_len.
Qed.

(** get_max_stockwell_freq(asig) on an object without a cached transform (and what it then stores in asig.swtf) *)
Theorem gen_max_stockwell_R (a : list R) (dt : R) : (1 <= half_len a)%nat ->
  gen_get_max_stockwell_freq (model_fft_re Rtwc) (model_fft_im Rtws) (model_ifft_re Rtwc Rtws) (model_ifft_im Rtwc Rtws)
    exp sqrt PI None dt a = max_stockwell_freq_R a dt.
Proof.
  intros Hn. destruct (gen_max_stockwell_cases (model_fft_re Rtwc) (model_fft_im Rtws) (model_ifft_re Rtwc Rtws)
    (model_ifft_im Rtwc Rtws) exp sqrt PI dt a) as [_ ->].
  rewrite gen_transform_R by exact Hn. cbn [fst snd]. unfold max_stockwell_freq_R.
  destruct (st_rect a) as [Hr Hi].
  assert (L : length (st_re_R a) = half_len a) by (unfold st_re_R, st_re; cbv zeta; rewrite map_length; unfold st_ks; now rewrite rev_length, map_length, zrange_len).
  assert (L' : length (st_im_R a) = half_len a) by (unfold st_im_R, st_im; cbv zeta; rewrite map_length; unfold st_ks; now rewrite rev_length, map_length, zrange_len).
  assert (W : length (nth 0 (st_re_R a) []) = (2 * half_len a)%nat).
  { revert L Hr. destruct (st_re_R a) as [|r0 rr]; intros L Hr; [cbn [length] in L; lia|]. inversion Hr; subst. assumption. }
  apply gen_tifq_R.
  - intros E. rewrite E in L. cbn [length] in L. lia.
  - congruence.
  - now rewrite W.
  - now rewrite W.
Qed.

(** *** what the SOURCE returns, through the model theorems: itransform(transform(x)) computed by the generated text *)
Theorem source_roundtrip (a : list R) : (1 <= half_len a)%nat ->
  let s := gen_transform (model_fft_re Rtwc) (model_fft_im Rtws) (model_ifft_re Rtwc Rtws) (model_ifft_im Rtwc Rtws) exp PI a in
  gen_itransform (model_ifft_re Rtwc Rtws) R_cpl (fst s) (snd s) = ist_R (st_re_R a) (st_im_R a).
Proof.
  intros Hn. cbv zeta. rewrite gen_transform_R by exact Hn. cbn [fst snd].
  assert (L : length (st_re_R a) = half_len a) by (unfold st_re_R, st_re; cbv zeta; rewrite map_length; unfold st_ks; now rewrite rev_length, map_length, zrange_len).
  assert (L' : length (st_im_R a) = half_len a) by (unfold st_im_R, st_im; cbv zeta; rewrite map_length; unfold st_ks; now rewrite rev_length, map_length, zrange_len).
  apply gen_itransform_R; [|congruence]. intros E. rewrite E in L. cbn [length] in L. lia.
Qed.
