(** The generated definitions of gen/Gen_c13.v (re-translated from eqsig/im.py and eqsig/fns/peaks_and_crossings.py on every run
    by translator/py2coq_c13.py) are the hand-written models of model/M_cycles.v, for ALL inputs.
    Part 1 (power-law functions of eqsig/im.py): for every [NumOps] instance, no arithmetic law used -- definitional unfolding
    plus [map_map] / [map2]-of-[map] list identities, i.e. source and model perform the same operations in the same order;
    then at R with pow := rpow, where the only arithmetic facts are 1 * z = z (the source's n_ref = 1) and 1 / b = / b.
    Part 2 (peak-only series of peaks_and_crossings.py): at R, for every non-constant series, given what the two helper
    functions the source calls (clean_out_non_changing, determine_indices_of_peaks_for_cleaned_array) return. *)
From Coq Require Import ZArith QArith Reals List Bool Lia Lra.
From EQ Require Import lib.Num lib.NpList lib.Where model.M_peaks model.M_cycles gen.Gen_c13.
From EQ Require Import proofs.P_C11 proofs.P_C12 proofs.P_C13.
Import ListNotations.
Local Open Scope num_scope.

(** * list identities *)
Lemma np_where_map {A B} (p : A -> bool) (f g : A -> B) (l : list A) :
  np_where (map p l) (map f l) (map g l) = map (fun x => if p x then f x else g x) l.
Proof. unfold np_where. induction l as [|x l IH]; cbn; [reflexivity | now rewrite <- IH]. Qed.
Lemma np_where_map_id {A} (p : A -> bool) (t : A) (l : list A) :
  np_where (map p l) (map (fun _ => t) l) l = map (fun x => if p x then t else x) l.
Proof. rewrite <- (map_id l) at 3. apply np_where_map. Qed.
Lemma map_map2 {A B C D} (f : C -> D) (g : A -> B -> C) la lb : map f (map2 g la lb) = map2 (fun x y => f (g x y)) la lb.
Proof. revert lb; induction la as [|a la IH]; intros [|b lb]; cbn; try reflexivity. now rewrite IH. Qed.
Lemma map2_map_map {A A' B B' C} (g : A' -> B' -> C) (f1 : A -> A') (f2 : B -> B') la lb :
  map2 g (map f1 la) (map f2 lb) = map2 (fun x y => g (f1 x) (f2 y)) la lb.
Proof. revert lb; induction la as [|a la IH]; intros [|b lb]; cbn; try reflexivity. now rewrite IH. Qed.

Section Generic.
Context {T : Type} `{NumOps T}.

(** the replacement value of the cut-off in the source: the literal 1.0e-14 *)
Definition tiny_src : T := n1 / nofZ 100000000000000.
(** the model's power parameters, from the binary power of the source: x ** (1 / b) and x ** b *)
Definition pw_of (pow : T -> T -> T) (b : T) : T -> T := fun x => pow x (n1 / b).
Definition pwb_of (pow : T -> T -> T) (b : T) : T -> T := fun x => pow x b.
(** (n_ref * (a_ref / v) ** (1 / b)) with n_ref = 1 *)
Definition kn_src (pow : T -> T -> T) (a_ref b : T) : T -> T := fun v => n1 * pow (a_ref / v) (n1 / b).

(** calc_n_cyc_array_w_power_law is the literal interp1d pipeline of the model *)
Lemma gen_n_cyc_eq (pow : T -> T -> T) (xs : list T) (a_ref b cut : T) :
  gen_n_cyc pow xs a_ref b cut = n_cyc_core_interp (kn_src pow a_ref b) cut tiny_src xs.
Proof.
  unfold gen_n_cyc, n_cyc_core_interp, peak_amps, kn_src, tiny_src, half. cbv zeta.
  rewrite np_where_map_id. unfold vabs, take, scale, xat. rewrite !map_map. reflexivity.
Qed.
Lemma gen_cyc_amp_eq (pow : T -> T -> T) (xs : list T) (ncyc b : T) :
  gen_cyc_amp pow xs ncyc b = cyc_amp (pw_of pow b) (pwb_of pow b) ncyc xs.
Proof.
  unfold gen_cyc_amp, cyc_amp, amp_core, sw_series, pw_of, pwb_of. cbv zeta. unfold vabs, take, xat. rewrite !map_map. reflexivity.
Qed.
Lemma gen_cyc_amp_gm_eq (sq : T -> T) (pow : T -> T -> T) (xs ys : list T) (ncyc b : T) :
  gen_cyc_amp_gm sq pow xs ys ncyc b = cyc_amp_gm sq (pw_of pow b) (pwb_of pow b) ncyc xs ys.
Proof.
  unfold gen_cyc_amp_gm, cyc_amp_gm. rewrite <- !gen_cyc_amp_eq. unfold gen_cyc_amp. cbv zeta. unfold vmul. now rewrite map_map2.
Qed.
Lemma gen_cyc_amp_combined_eq (pow : T -> T -> T) (xs ys : list T) (ncyc b : T) :
  gen_cyc_amp_combined pow xs ys ncyc b = cyc_amp_combined (pw_of pow b) (pwb_of pow b) ncyc xs ys.
Proof.
  unfold gen_cyc_amp_combined, cyc_amp_combined, comb_core, sw_series, pw_of, pwb_of. cbv zeta. unfold vadd, vabs, take, xat.
  rewrite ?map_map, map2_map_map, ?map_map2, ?map_map. reflexivity.
Qed.
End Generic.

(** * Part 1 at R: pow := rpow (x^y for x > 0, 0 at 0), sq := sqrt *)
Local Open Scope R_scope.
Lemma tiny_src_R : @tiny_src R _ = tinyR.
Proof. unfold tiny_src, tinyR. numR. reflexivity. Qed.
Lemma inv_as_div (b : R) : 1 / b = / b.
Proof. unfold Rdiv. apply Rmult_1_l. Qed.
Lemma pw_of_R (b : R) : pw_of rpow b = (fun x => rpow x (/ b)).
Proof. unfold pw_of. numR. now rewrite inv_as_div. Qed.
Lemma n_cyc_core_interp_ext (kn kn' : R -> R) cut tiny (xs : list R) : (forall v, kn v = kn' v) ->
  n_cyc_core_interp kn cut tiny xs = n_cyc_core_interp kn' cut tiny xs.
Proof.
  intros E. unfold n_cyc_core_interp. cbv zeta.
  assert (E' : map (fun v : R => half / kn v)%num (peak_amps cut tiny xs) = map (fun v : R => half / kn' v)%num (peak_amps cut tiny xs))
    by (apply map_ext; intros v; now rewrite E).
  rewrite E'. reflexivity.
Qed.
(** calc_n_cyc_array_w_power_law is the literal pipeline [n_cyc_interp_R], hence the running-sum model [n_cyc_R] *)
Lemma gen_n_cyc_interp_R (a_ref b cut : R) (xs : list R) : gen_n_cyc rpow xs a_ref b cut = n_cyc_interp_R a_ref b cut xs.
Proof.
  rewrite gen_n_cyc_eq, tiny_src_R. unfold n_cyc_interp_R, n_cyc_pl_interp. apply n_cyc_core_interp_ext.
  intros v. unfold kn_src. numR. now rewrite inv_as_div, Rmult_1_l.
Qed.
Lemma gen_n_cyc_R (a_ref b cut : R) (xs : list R) : gen_n_cyc rpow xs a_ref b cut = n_cyc_R a_ref b cut xs.
Proof. rewrite gen_n_cyc_interp_R. apply C13_ncyc_interp_eq. Qed.
Lemma gen_n_cyc_default_cut_off_R : @gen_n_cyc_default_cut_off R _ = 0.01.
Proof. unfold gen_n_cyc_default_cut_off. numR. lra. Qed.
Lemma gen_cyc_amp_R (ncyc b : R) (xs : list R) : gen_cyc_amp rpow xs ncyc b = cyc_amp_R ncyc b xs.
Proof. rewrite gen_cyc_amp_eq, pw_of_R. reflexivity. Qed.
Lemma gen_cyc_amp_gm_R (ncyc b : R) (xs ys : list R) : gen_cyc_amp_gm sqrt rpow xs ys ncyc b = cyc_amp_gm_R ncyc b xs ys.
Proof. rewrite gen_cyc_amp_gm_eq, pw_of_R. reflexivity. Qed.
Lemma gen_cyc_amp_combined_R (ncyc b : R) (xs ys : list R) : gen_cyc_amp_combined rpow xs ys ncyc b = cyc_amp_combined_R ncyc b xs ys.
Proof. rewrite gen_cyc_amp_combined_eq, pw_of_R. reflexivity. Qed.

(** * Part 2: the peak-only series of eqsig/fns/peaks_and_crossings.py *)
(** ** the peak list is also invariant under a strictly DEcreasing map (P_C13 has the increasing case) *)
Section Decreasing.
Variable f : R -> R.
Hypothesis f_decr : forall a b, a < b -> f b < f a.
Lemma fd_ltb a b : Rltb (f a) (f b) = Rltb b a.
Proof.
  case_Rltb b a.
  - apply Rltb_true. now apply f_decr.
  - apply Rltb_false. destruct Hlt as [Hlt | ->]; [left; now apply f_decr|right; reflexivity].
Qed.
Lemma fd_eqb a b : Reqb (f a) (f b) = Reqb a b.
Proof.
  case_Reqb a b.
  - apply Reqb_true. now subst.
  - apply Reqb_false. intros E. destruct (Rtotal_order a b) as [H|[H|H]]; [apply f_decr in H; lra|contradiction|apply f_decr in H; lra].
Qed.
Lemma fd_xat_map (xs : list R) i : (i < length xs)%nat -> xat (map f xs) i = f (xat xs i).
Proof. intros Hi. unfold xat. now apply nth_map_in. Qed.
Lemma fd_next_diff_from_map v j (l : list R) : next_diff_from (f v) j (map f l) = next_diff_from v j l.
Proof.
  revert j; induction l as [|x r IH]; intros j; [reflexivity|]. cbn [map next_diff_from].
  change (neqb (f x) (f v)) with (Reqb (f x) (f v)). change (neqb x v) with (Reqb x v). rewrite fd_eqb, IH. reflexivity.
Qed.
Lemma fd_next_diff_map (xs : list R) i : next_diff (map f xs) i = next_diff xs i.
Proof.
  unfold next_diff. rewrite skipn_map. destruct (Nat.lt_ge_cases i (length xs)) as [Hi|Hi].
  - rewrite fd_xat_map by exact Hi. apply fd_next_diff_from_map.
  - rewrite (skipn_all2 xs) by lia. reflexivity.
Qed.
Lemma fd_pstart_map (xs : list R) i : (i < length xs)%nat -> pstart (map f xs) i = pstart xs i.
Proof.
  intros Hi. destruct i as [|i']; [reflexivity|]. cbn [pstart]. rewrite !fd_xat_map by lia.
  change (neqb (f (xat xs (S i'))) (f (xat xs i'))) with (Reqb (f (xat xs (S i'))) (f (xat xs i'))). now rewrite fd_eqb.
Qed.
Lemma fd_final_start_map (xs : list R) : final_start (map f xs) = final_start xs.
Proof.
  unfold final_start. rewrite map_length. f_equal. apply filter_ext_in. intros i Hi. apply in_seq in Hi. apply fd_pstart_map. lia.
Qed.
Lemma fd_turning_map (xs : list R) i : (i < length xs)%nat -> turning (map f xs) i = turning xs i.
Proof.
  intros Hi. destruct i as [|i']; [reflexivity|]. unfold turning. rewrite fd_next_diff_map.
  destruct (next_diff xs (S i')) as [j|] eqn:E; [|reflexivity]. apply next_diff_spec in E as (Hj & _).
  rewrite !fd_xat_map by lia. numR. rewrite !fd_ltb. apply orb_comm.
Qed.
Lemma fd_peaks_map (xs : list R) : peaks (map f xs) = peaks xs.
Proof.
  unfold peaks. rewrite map_length, fd_final_start_map. apply filter_ext_in. intros i Hi. apply in_seq in Hi.
  unfold is_peak. rewrite fd_turning_map by lia. reflexivity.
Qed.
End Decreasing.
Lemma scatter_miss i n idx (vals : list R) : (forall p, In p idx -> (i < p)%nat) ->
  scatter i (S n) idx vals = 0 :: scatter (S i) n idx vals.
Proof.
  intros Hlt. cbn [scatter]. destruct idx as [|p ir]; [reflexivity|]. destruct vals as [|v vr]; [reflexivity|].
  specialize (Hlt p (or_introl eq_refl)). destruct (Nat.eqb p i) eqn:E; [apply Nat.eqb_eq in E; lia|reflexivity].
Qed.
Lemma scatter_hit i n ir v (vr : list R) : scatter i (S n) (i :: ir) (v :: vr) = v :: scatter (S i) n ir vr.
Proof. cbn [scatter]. now rewrite Nat.eqb_refl. Qed.
Lemma scatter_novals i n idx : scatter i (S n) idx (@nil R) = 0 :: scatter (S i) n idx [].
Proof. cbn [scatter]. destruct idx; reflexivity. Qed.

(** np.put into np.zeros at the positions [nz] of an array that is itself np.put into np.zeros at the positions [cp]:
    the values land at the positions nz[cp] *)
Lemma scatter_scatter n : forall i nz m j cp (W : list R),
  ascending nz -> (forall p, In p nz -> (i <= p)%nat) -> length nz = m ->
  ascending cp -> (forall k, In k cp -> (j <= k < j + m)%nat) -> length cp = length W ->
  scatter i n nz (scatter j m cp W) = scatter i n (map (fun k => nth (k - j) nz 0%nat) cp) W.
Proof.
  induction n as [|n IH]; intros i nz m j cp W Hnz Hlo Hm Hcp Hin HlW; [reflexivity|].
  destruct nz as [|p nr].
  - cbn [length] in Hm. subst m. destruct cp as [|c cr]; [|specialize (Hin c (or_introl eq_refl)); lia].
    destruct W; [|discriminate]. reflexivity.
  - cbn [length] in Hm. destruct m as [|m']; [discriminate|]. injection Hm as Hm.
    inversion Hnz as [|? ? Hplt Hnr]; subst.
    assert (Hmapeq : forall cp', (forall k, In k cp' -> (j < k)%nat) ->
              map (fun k => nth (k - j) (p :: nr) 0%nat) cp' = map (fun k => nth (k - S j) nr 0%nat) cp').
    { intros cp' H'. apply map_ext_in. intros k Hk. specialize (H' k Hk). replace (k - j)%nat with (S (k - S j)) by lia. reflexivity. }
    assert (Hnth_gt : forall k, (j < k < j + S (length nr))%nat -> (p < nth (k - S j) nr 0)%nat).
    { intros k Hk. apply Hplt. apply nth_In. lia. }
    destruct (Nat.eq_dec p i) as [->|Hne].
    + (* the outer position i is hit *)
      assert (Hnr_lo : forall q, In q nr -> (S i <= q)%nat) by (intros q Hq; specialize (Hplt q Hq); lia).
      destruct cp as [|c cr].
      * cbn [map]. assert (E : scatter j (S (length nr)) [] W = 0 :: scatter (S j) (length nr) [] W) by (apply scatter_miss; intros ? []).
        rewrite E, scatter_hit. rewrite (scatter_miss i n [] W) by (intros ? []). f_equal.
        exact (IH (S i) nr (length nr) (S j) [] W Hnr Hnr_lo eq_refl Hcp (fun _ F => match F with end) HlW).
      * inversion Hcp as [|? ? Hclt Hcr]; subst. pose proof (Hin c (or_introl eq_refl)) as Hc.
        destruct W as [|w wr]; [discriminate|]. cbn [length] in HlW. injection HlW as HlW.
        destruct (Nat.eq_dec c j) as [->|Hcj].
        { rewrite scatter_hit, scatter_hit. cbn [map]. rewrite (Hmapeq cr) by (intros k Hk; exact (Hclt k Hk)).
          rewrite Nat.sub_diag. change (nth 0 (i :: nr) 0%nat) with i. rewrite scatter_hit. f_equal.
          apply (IH (S i) nr (length nr) (S j) cr wr Hnr Hnr_lo eq_refl Hcr); [|exact HlW].
          intros k Hk. specialize (Hclt k Hk). specialize (Hin k (or_intror Hk)). lia. }
        { assert (Hall : forall k, In k (c :: cr) -> (j < k)%nat).
          { intros k [<-|Hk]; [lia|]. specialize (Hclt k Hk). lia. }
          rewrite (scatter_miss j) by exact Hall. rewrite scatter_hit.
          rewrite (Hmapeq (c :: cr)) by exact Hall.
          rewrite (scatter_miss i).
          2:{ intros q Hq. apply in_map_iff in Hq as (k & <- & Hk). apply Hnth_gt. specialize (Hall k Hk). specialize (Hin k Hk). lia. }
          f_equal. apply (IH (S i) nr (length nr) (S j) (c :: cr) (w :: wr) Hnr Hnr_lo eq_refl Hcp); [|cbn [length]; now f_equal].
          intros k Hk. specialize (Hall k Hk). specialize (Hin k Hk). lia. }
    + (* the outer position i is not hit *)
      pose proof (Hlo p (or_introl eq_refl)) as Hpi.
      assert (Hall : forall q, In q (p :: nr) -> (i < q)%nat).
      { intros q [<-|Hq]; [lia|]. specialize (Hplt q Hq). lia. }
      rewrite (scatter_miss i) by exact Hall. rewrite (scatter_miss i).
      2:{ intros q Hq. apply in_map_iff in Hq as (k & <- & Hk). apply Hall. apply nth_In. specialize (Hin k Hk). cbn [length]. lia. }
      f_equal. apply (IH (S i) (p :: nr) (S (length nr)) j cp W Hnz); auto; try (intros q Hq; specialize (Hall q Hq); lia).
Qed.
(** ** plateau starts *)
Definition pst (xs : list R) : list nat := filter (pstart xs) (seq 0 (length xs)).
Lemma pst_ascending xs : ascending (pst xs).
Proof. apply filter_seq_ascending. Qed.
Lemma pst_In xs i : In i (pst xs) <-> (i < length xs)%nat /\ pstart xs i = true.
Proof. apply filter_seq_In. Qed.
Lemma pst_two xs q : next_diff xs 0 = Some q -> exists t, pst xs = 0%nat :: q :: t.
Proof.
  intros Hq. apply next_diff_spec in Hq as (Hlt & Hne & Hconst).
  assert (Hx : forall k, (k < q)%nat -> xat xs k = xat xs 0).
  { intros k Hk. destruct k; [reflexivity|]. apply Hconst. lia. }
  assert (H0 : In 0%nat (pst xs)) by (apply pst_In; split; [lia|reflexivity]).
  assert (Hqin : In q (pst xs)).
  { apply pst_In. split; [lia|]. apply pstart_spec. right. exists (q - 1)%nat. split; [lia|]. rewrite (Hx (q - 1)%nat) by lia. exact Hne. }
  assert (Hno : forall k, (0 < k < q)%nat -> ~ In k (pst xs)).
  { intros k Hk Hin. apply pst_In in Hin as (_ & Hp). apply pstart_spec in Hp as [->|(k' & -> & Hd)]; [lia|].
    apply Hd. rewrite (Hx (S k')), (Hx k') by lia. reflexivity. }
  pose proof (pst_ascending xs) as Hasc. destruct (pst xs) as [|a r]; [destruct H0|].
  pose proof (ascending_head_min _ _ _ Hasc H0) as Ha. assert (a = 0%nat) by lia. subst a.
  destruct Hqin as [E|Hqin]; [lia|]. inversion Hasc as [|? ? Hlt0 Hr]; subst.
  destruct r as [|b t]; [destruct Hqin|].
  pose proof (ascending_head_min _ _ _ Hr Hqin) as Hb. pose proof (Hlt0 b (or_introl eq_refl)) as Hb0.
  destruct (Nat.eq_dec b q) as [->|Hbq]; [now exists t|]. exfalso. apply (Hno b); [lia|]. right. now left.
Qed.
Lemma pst_map_incr (f : R -> R) (xs : list R) : (forall a b, a < b -> f a < f b) -> pst (map f xs) = pst xs.
Proof.
  intros Hf. unfold pst. rewrite map_length. apply filter_ext_in. intros i Hi. apply in_seq in Hi. apply (pstart_map f Hf). lia.
Qed.
Lemma pst_map_decr (f : R -> R) (xs : list R) : (forall a b, a < b -> f b < f a) -> pst (map f xs) = pst xs.
Proof.
  intros Hf. unfold pst. rewrite map_length. apply filter_ext_in. intros i Hi. apply in_seq in Hi. apply (fd_pstart_map f Hf). lia.
Qed.

(** ** the oriented, rebased series  (x - x[0]) * sign  has the plateau starts, peaks and first move position of x *)
Definition orient (xs : list R) : R -> R := fun x => (x - xat xs 0) * sgn_first xs.
Lemma orient_facts (xs : list R) : first_up xs <> None ->
  pst (map (orient xs) xs) = pst xs /\ peaks (map (orient xs) xs) = peaks xs /\ first_up (map (orient xs) xs) <> None.
Proof.
  intros Hnc. unfold orient. destruct (sgn_first_sdir xs Hnc) as [Hs|Hs]; rewrite Hs.
  - assert (Hf : forall a b, a < b -> (a - xat xs 0) * 1 < (b - xat xs 0) * 1) by (intros; lra).
    split; [now apply pst_map_incr|]. split; [now apply (peaks_map _ Hf)|]. now rewrite (first_up_map _ Hf).
  - assert (Hf : forall a b, a < b -> (b - xat xs 0) * -1 < (a - xat xs 0) * -1) by (intros; lra).
    split; [now apply pst_map_decr|]. split; [now apply (fd_peaks_map _ Hf)|].
    unfold first_up in *. rewrite (fd_next_diff_map _ Hf). destruct (next_diff xs 0); [discriminate|exact Hnc].
Qed.
Lemma diff_orient c s (l : list R) : diff (map (fun x => (x - c) * s) l) = map (fun d => s * d) (diff l).
Proof.
  induction l as [|x r IH]; [reflexivity|]. destruct r as [|y t]; [reflexivity|].
  change (diff (map (fun x => (x - c) * s) (x :: y :: t))) with (((y - c) * s - (x - c) * s) :: diff (map (fun x => (x - c) * s) (y :: t))).
  change (diff (x :: y :: t)) with ((y - x) :: diff (y :: t)). rewrite IH. cbn [map]. f_equal. lra.
Qed.
(** ** what the two helper functions of the source return (they are parameters of the generated definitions) *)
(** clean_out_non_changing(values), for values[0] = 0: the values at the plateau starts, and the plateau starts *)
Definition clean_spec (clean : list R -> list R * list nat) : Prop :=
  forall v, v <> [] -> xat v 0 = 0 -> clean v = (map (xat v) (pst v), pst v).
(** determine_indices_of_peaks_for_cleaned_array(cleaned), for the cleaned values of a non-constant series: strictly ascending
    positions inside the cleaned array which, mapped back through the plateau starts, are the reported peaks of the series *)
Definition cpk_spec (cpk : list R -> list nat) : Prop :=
  forall ys, first_up ys <> None ->
    let c := map (xat ys) (pst ys) in
    ascending (cpk c) /\ (forall k, In k (cpk c) -> (k < length c)%nat) /\ map (fun k => nth k (pst ys) 0%nat) (cpk c) = peaks ys.

(** the common prefix of both functions: rebase, clean, orient, locate the peaks of the cleaned array *)
Lemma nsign_first (xs : list R) q : next_diff xs 0 = Some q -> nsign (xat xs q - xat xs 0) = sgn_first xs.
Proof.
  intros Hq. unfold sgn_first, first_up. rewrite Hq. apply next_diff_spec in Hq as (_ & Hne & _).
  unfold nsign. numR. case_Rltb (xat xs 0) (xat xs q).
  - case_Rltb 0 (xat xs q - xat xs 0); [reflexivity|lra].
  - case_Rltb 0 (xat xs q - xat xs 0); [lra|]. case_Rltb (xat xs q - xat xs 0) 0; [reflexivity|lra].
Qed.

Section Prefix.
Variables (clean : list R -> list R * list nat) (cpk : list R -> list nat) (xs : list R).
Hypotheses (Hclean : clean_spec clean) (Hcpk : cpk_spec cpk) (Hnc : first_up xs <> None).
Let v := map (fun x => x - nth 0 xs 0) xs.
Let ys := map (orient xs) xs.
Let c' := map (fun x => x * nsign (nth 1 (fst (clean v)) 0)) (fst (clean v)).

Lemma prefix_clean : clean v = (map (xat v) (pst xs), pst xs).
Proof.
  pose proof (first_up_ne xs Hnc) as Hne.
  assert (Hpst : pst v = pst xs) by (apply pst_map_incr; intros; lra).
  rewrite <- Hpst. apply Hclean.
  - subst v. destruct xs; [contradiction|discriminate].
  - subst v. unfold xat. destruct xs as [|x r]; [contradiction|]. cbn. lra.
Qed.
Lemma prefix_snd : snd (clean v) = pst xs.
Proof. now rewrite prefix_clean. Qed.
Lemma prefix_oriented : c' = map (xat ys) (pst ys).
Proof.
  subst c'. rewrite prefix_clean. cbn [fst].
  pose proof Hnc as Hnc'. unfold first_up in Hnc'. destruct (next_diff xs 0) as [q|] eqn:Eq; [clear Hnc'|contradiction].
  destruct (pst_two xs q Eq) as (t & Et). pose proof Eq as Eq'. apply next_diff_spec in Eq' as (Hq & _).
  assert (Hxv : forall p, (p < length xs)%nat -> xat v p = xat xs p - xat xs 0).
  { intros p Hp. subst v. unfold xat. now rewrite (nth_map_in _ _ _ _ 0) by exact Hp. }
  assert (Es : nsign (nth 1 (map (xat v) (pst xs)) 0) = sgn_first xs).
  { rewrite Et. cbn [map nth]. rewrite Hxv by lia. now apply nsign_first. }
  rewrite Es. destruct (orient_facts xs Hnc) as (Hp & _ & _). fold ys in Hp. rewrite Hp.
  rewrite map_map. apply map_ext_in. intros p Hin. apply pst_In in Hin as (Hlt & _).
  rewrite Hxv by exact Hlt. subst ys. rewrite (fd_xat_map (orient xs)) by exact Hlt. reflexivity.
Qed.
Lemma prefix_cpk : ascending (cpk c') /\ (forall k, In k (cpk c') -> (k < length (pst xs))%nat) /\
  map (fun k => nth k (pst xs) 0%nat) (cpk c') = peaks xs.
Proof.
  destruct (orient_facts xs Hnc) as (Hp & Hpk & Hfu). fold ys in Hp, Hpk, Hfu.
  destruct (Hcpk ys Hfu) as (Ha & Hr & Hm). rewrite <- prefix_oriented in Ha, Hr, Hm. rewrite Hp in Hm. rewrite Hpk in Hm.
  split; [exact Ha|]. split; [|exact Hm]. intros k Hk. specialize (Hr k Hk). rewrite prefix_oriented, map_length, Hp in Hr. exact Hr.
Qed.
(** the peak values of the cleaned, oriented array are the oriented values at the reported peaks *)
Lemma prefix_peak_values : take 0 c' (cpk c') = map (orient xs) (map (xat xs) (peaks xs)).
Proof.
  destruct prefix_cpk as (_ & Hr & Hm). destruct (orient_facts xs Hnc) as (Hp & _ & _). fold ys in Hp.
  rewrite <- Hm, !map_map. unfold take. apply map_ext_in. intros k Hk. specialize (Hr k Hk).
  rewrite prefix_oriented, Hp. rewrite (nth_map_in _ _ _ _ 0%nat) by exact Hr.
  assert (Hin : In (nth k (pst xs) 0%nat) (pst xs)) by (apply nth_In; exact Hr). apply pst_In in Hin as (Hlt & _).
  subst ys. now rewrite (fd_xat_map (orient xs)) by exact Hlt.
Qed.
(** np.put twice: into the cleaned array at the cleaned peak positions, then into the record at the plateau starts *)
Lemma prefix_put (W : list R) : length W = length (peaks xs) ->
  scatter 0 (length v) (pst xs) (scatter 0 (length c') (cpk c') W) = scatter 0 (length xs) (peaks xs) W.
Proof.
  intros HW. destruct prefix_cpk as (Ha & Hr & Hm).
  assert (Hlc : length c' = length (pst xs)).
  { rewrite prefix_oriented, map_length. destruct (orient_facts xs Hnc) as (Hp & _ & _). fold ys in Hp. now rewrite Hp. }
  assert (E : scatter 0 (length v) (pst xs) (scatter 0 (length c') (cpk c') W)
             = scatter 0 (length v) (map (fun k => nth (k - 0) (pst xs) 0%nat) (cpk c')) W).
  { apply scatter_scatter.
    - apply pst_ascending.
    - intros; lia.
    - now rewrite Hlc.
    - exact Ha.
    - intros k Hk. specialize (Hr k Hk). lia.
    - rewrite HW, <- Hm. now rewrite map_length. }
  rewrite E. subst v. rewrite map_length. f_equal. rewrite <- Hm. apply map_ext. intros k. now rewrite Nat.sub_0_r.
Qed.
End Prefix.

(** determine_peaks_only_delta_series *)
Theorem gen_delta_series_eq clean cpk (xs : list R) : clean_spec clean -> cpk_spec cpk -> first_up xs <> None ->
  gen_delta_series clean cpk xs = delta_series xs.
Proof.
  intros Hclean Hcpk Hnc. unfold gen_delta_series. cbv zeta. numR.
  rewrite (prefix_snd clean xs Hclean Hnc).
  rewrite (prefix_peak_values clean cpk xs Hclean Hcpk Hnc).
  rewrite np_insert_0. unfold delta_series. unfold orient. rewrite diff_orient.
  apply (prefix_put clean cpk xs Hclean Hcpk Hnc).
  destruct (peaks_head xs (first_up_ne xs Hnc)) as (r & Er). cbn [length]. rewrite map_length, diff_length, map_length, Er. cbn [length]. lia.
Qed.

(** the signed peak values of _determine_peak_only_series_4_cleaned_data:
    signs = [1, -1, 1, ...];  where(-signs * pv < 0, -|pv|, |pv|)  is  [-pv0, pv1, -pv2, ...] *)
Lemma mod2_even a : Nat.eqb (a mod 2) 0 = Nat.even a.
Proof.
  rewrite (Nat.div_mod a 2) at 2 by lia. rewrite Nat.add_comm, Nat.even_add_mul_2.
  pose proof (Nat.mod_upper_bound a 2 ltac:(lia)) as Hb. destruct (a mod 2) as [|[|k]]; [reflexivity|reflexivity|lia].
Qed.
Lemma pseudo_vals (pv : list R) : forall a,
  np_where (map (fun x => x <? n0)%num (vmul (vopp (map (fun k => if Nat.eqb (Nat.modulo k 2) 0 then n1 else (- n1)%num) (seq a (length pv)))) pv))
           (vopp (vabs pv)) (vabs pv)
  = alt_signs (Nat.even a) pv.
Proof.
  induction pv as [|x r IH]; intros a; [reflexivity|].
  cbn [length seq map vopp vmul map2 vabs np_where combine alt_signs fst snd]. rewrite mod2_even. f_equal.
  - numR. destruct (Nat.even a).
    + case_Rltb (- (1) * x) 0.
      * rewrite Rabs_pos_eq by lra. reflexivity.
      * rewrite Rabs_left1 by lra. lra.
    + case_Rltb (- - (1) * x) 0.
      * rewrite Rabs_left1 by lra. lra.
      * rewrite Rabs_pos_eq by lra. reflexivity.
  - specialize (IH (S a)). rewrite Nat.even_succ, <- Nat.negb_even in IH. exact IH.
Qed.

(** determine_pseudo_cyclic_peak_only_series *)
Theorem gen_pseudo_series_eq clean cpk (xs : list R) : clean_spec clean -> cpk_spec cpk -> first_up xs <> None ->
  gen_pseudo_series clean cpk xs = pseudo_series xs.
Proof.
  intros Hclean Hcpk Hnc. unfold gen_pseudo_series. cbv zeta.
  pose proof (pseudo_vals (map (orient xs) (map (xat xs) (peaks xs))) 0%nat) as PV. cbn [Nat.even] in PV. numR.
  rewrite (prefix_snd clean xs Hclean Hnc).
  rewrite (prefix_peak_values clean cpk xs Hclean Hcpk Hnc).
  rewrite PV.
  unfold pseudo_series.
  replace (map (fun p => (sgn_first xs * (xat xs p - xat xs 0))%num) (peaks xs)) with (map (orient xs) (map (xat xs) (peaks xs))).
  - apply (prefix_put clean cpk xs Hclean Hcpk Hnc). now rewrite alt_signs_length, !map_length.
  - rewrite map_map. apply map_ext. intros p. unfold orient. numR. ring.
Qed.

(** the specification of clean_out_non_changing is met by the function that returns exactly that pair (non-vacuity of
    [clean_spec]; that [cpk_spec] is met by the where(diff[1:] * diff[:-1] < 0) pipeline of the source is the content of the
    C11 pipeline theorem and is not re-proved here) *)
Lemma clean_spec_sat : clean_spec (fun v => (map (xat v) (pst v), pst v)).
Proof. intros v _ _. reflexivity. Qed.
(** the source functions inherit the theorems of the model *)
Lemma source_inverse a_ref b cut (xs : list R) : 0 < a_ref -> b <> 0 -> no_cut cut xs -> first_up xs <> None ->
  last (gen_cyc_amp rpow xs (last (gen_n_cyc rpow xs a_ref b cut) 0) b) 0 = a_ref.
Proof.
  intros Ha Hb Hc Hnc. rewrite gen_n_cyc_R, gen_cyc_amp_R. apply P_C13.C13_inverse; auto.
  now apply P_C12.C12_sp_nonzero_of_nonconstant.
Qed.
Lemma source_delta_abs_sum clean cpk (xs : list R) : clean_spec clean -> cpk_spec cpk -> first_up xs <> None ->
  nsum (vabs (gen_delta_series clean cpk xs)) = tv xs.
Proof. intros Hc Hk Hnc. rewrite gen_delta_series_eq by assumption. now apply C13_delta_abs_sum. Qed.
Lemma source_pseudo_sum clean cpk (xs : list R) : clean_spec clean -> cpk_spec cpk -> first_up xs <> None ->
  nsum (gen_pseudo_series clean cpk xs) = / 2 * tv xs + / 2 * sgn_final xs * (last xs 0 - xat xs 0).
Proof. intros Hc Hk Hnc. rewrite gen_pseudo_series_eq by assumption. now apply C13_pseudo_sum. Qed.
