(** C04, source-text tie: the cache-event summaries translated from eqsig/single.py (gen/Gen_cache_events.v) are the
    summaries of the hand-written state machine model/M_cache.v (definitions: model/K_C04_events.v).

    Part 2 compares the model-derived summaries with the translated tables: complete finite enumerations decided by
    [vm_compute] (no sampling: all operations of the alphabet x all flag states).
    Part 3 lifts the flag part to every signature, every state and every history (by the signature-independence of
    the flags, proofs/P_C04.v): the flags of the model move exactly as the translated summaries say. *)
From Coq Require Import List Bool Arith Lia String.
From EQ Require Import model.M_cache model.K_C04 model.M_cache_events proofs.P_C04 gen.Gen_cache_events.
From EQ Require Export model.K_C04_events.
Import ListNotations.

(** ---- Part 2: translated = model-derived ---- *)
Lemma flag_effects_are_source : forallb op_matches all_ops = true.
Proof. vm_cast_no_check (eq_refl true). Qed.
Lemma flag_effects_are_source_sig : forallb op_matches_sig sig_ops = true.
Proof. vm_compute. reflexivity. Qed.
Lemma tables_cover_alphabet : keys_ok acc_summaries all_ops && keys_ok sig_summaries sig_ops = true.
Proof. vm_compute. reflexivity. Qed.
Lemma recipes_are_source :
  forallb (recipe_matches acc_recipes) all_dq && recipes_uniform acc_states all_ops all_dq
  && forallb (recipe_matches sig_recipes) sig_dq && recipes_uniform sig_states sig_ops sig_dq = true.
Proof. vm_compute. reflexivity. Qed.
Lemma unmodelled_neutral :
  forallb (fun p => neutral (snd p)) acc_unmodelled && forallb (fun p => neutral (snd p)) sig_unmodelled = true.
Proof. vm_compute. reflexivity. Qed.

(** the two hand-written tables of M_cache.v about mutators are what the source says *)
Lemma mutator_tables_are_source : forall m : mutator,
  w_npts (acc_summary (KM m)) = via_reset m /\
  uses (acc_summary (KM m)) = (if uses_dv m then [DV] else []) ++ (if uses_pga m then [Pga] else []) /\
  w_vals (acc_summary (KM m)) = true.
Proof. intros m; destruct m; vm_compute; repeat split; reflexivity. Qed.

(** ---- Part 3: the flags of the model move as the translated summaries say, for every signature and state ---- *)
Lemma trans_b : forall k, forallb (fun m => Nat.eqb (mask (postU k m)) (apply_summary (acc_summary k) m)) acc_states = true.
Proof.
  intros k; destruct k as [r|g|m|t|t]; [destruct r|destruct g|destruct m|destruct t|destruct t]; vm_compute; reflexivity.
Qed.
Lemma trans_sig_b : forall k, sig_kop k = true ->
  forallb (fun m => Nat.eqb (mask (postU k m)) (apply_summary (sig_summary k) m)) sig_states = true.
Proof.
  intros k; destruct k as [r|g|m|t|t]; [destruct r|destruct g|destruct m|destruct t|destruct t]; intros H;
    try discriminate H; vm_compute; reflexivity.
Qed.

Lemma mask_lt : forall (S : sig) (s : st S), mask s < 128.
Proof.
  intros S s. destruct s as [v sf rt n cfa xfa csm xsm cre xre cdv xdv ppga ppgv ppgd].
  destruct cfa, csm, cre, cdv, ppga, ppgv, ppgd; cbv; lia.
Qed.

Lemma step_mask : forall (S : sig) (o : op S) (s : st S),
  mask (post o s) = mask (postU (erase o) (mask s)).
Proof.
  intros S o s. unfold postU. rewrite <- (mask_shadow (post o s)), shadow_step, shadow_canonical. reflexivity.
Qed.

Lemma flags_follow_summary : forall (S : sig) (o : op S) (s : st S),
  mask (post o s) = apply_summary (acc_summary (erase o)) (mask s).
Proof.
  intros S o s. rewrite step_mask.
  pose proof (trans_b (erase o)) as H. rewrite forallb_forall in H.
  apply Nat.eqb_eq, H. unfold acc_states. apply in_seq. pose proof (mask_lt S s). lia.
Qed.

Lemma flags_follow_summary_sig : forall (S : sig) (o : op S) (s : st S),
  sig_kop (erase o) = true -> mask s < 4 ->
  mask (post o s) = apply_summary (sig_summary (erase o)) (mask s).
Proof.
  intros S o s Hk Hm. rewrite step_mask.
  pose proof (trans_sig_b (erase o) Hk) as H. rewrite forallb_forall in H.
  apply Nat.eqb_eq, H. unfold sig_states. apply in_seq. lia.
Qed.
Lemma sig_stays_b : forall k, sig_kop k = true -> forallb (fun m => mask (postU k m) <? 4) sig_states = true.
Proof.
  intros k; destruct k as [r|g|m|t|t]; [destruct r|destruct g|destruct m|destruct t|destruct t]; intros H;
    try discriminate H; vm_compute; reflexivity.
Qed.
Lemma sig_flags_stay : forall (S : sig) (o : op S) (s : st S),
  sig_kop (erase o) = true -> mask s < 4 -> mask (post o s) < 4.
Proof.
  intros S o s Hk Hm. rewrite step_mask.
  pose proof (sig_stays_b (erase o) Hk) as H. rewrite forallb_forall in H.
  apply Nat.ltb_lt, H. unfold sig_states. apply in_seq. lia.
Qed.

(** whole histories *)
Lemma trace_follows_summaries : forall (S : sig) (h : list (op S)) (s : st S),
  masks h s = summary_trace acc_summary (map (@erase S) h) (mask s).
Proof.
  intros S h. induction h as [|o h IH]; intros s; simpl; [reflexivity|].
  rewrite IH, flags_follow_summary. reflexivity.
Qed.
Lemma trace_follows_summaries_sig : forall (S : sig) (h : list (op S)) (s : st S),
  forallb sig_kop (map (@erase S) h) = true -> mask s < 4 ->
  masks h s = summary_trace sig_summary (map (@erase S) h) (mask s).
Proof.
  intros S h. induction h as [|o h IH]; intros s Hk Hm; simpl; [reflexivity|].
  simpl in Hk. apply andb_prop in Hk. destruct Hk as [Ho Hr].
  rewrite <- (flags_follow_summary_sig S o s Ho Hm).
  rewrite (IH (post o s) Hr (sig_flags_stay S o s Ho Hm)). reflexivity.
Qed.
