(** The generated definitions of gen/Gen_c06b.v (re-translated from eqsig/fns/frequency.py -- calc_fourier_moment,
    get_bandwidth_boore_2003 -- and eqsig/im.py -- max_fa_period -- on every run by translator/py2coq_c06b.py) are the hand-written
    model of model/M_fourier.v ([fourier_moment], [bandwidth_boore], [max_fa_period]) for ALL inputs and every [NumOps] instance.

    Part A uses no arithmetic law of the number type (list identities and conversion only):
      * np.trapz(y, x=x) read literally as (diff(x) * (y[1:] + y[:-1]) / 2.0).sum() is the model's panel sum [trapz_x];
      * `(2 * np.pi * f) ** n * F ** 2` with the COMPLEX square of F = re + i im is the model's weight times
        (re^2 - im^2, re im + im re), the leading `2 *` and the `x=` grid are the model's;
      * `np.sqrt(m2 ** 2 / (m0 * m4))` with the exponents 0 / 2 / 4 is [bandwidth_boore] ([csqrt] stays a parameter);
      * `1. / fa_frequencies[np.argmax(np.abs(fa_spectrum))]` is [max_fa_period] for EVERY modulus function [cabs] that orders
        complex numbers as re^2 + im^2 does (hypothesis [cabs_orders]); that is the only property of np.abs that is used.
    Part B (at R) proves that the real modulus sqrt(re^2 + im^2) has that property, and the characterising facts of the new model:
    the panel recursion of [trapz_x], its linearity, scaling and sign, the moment of a real spectrum (real, = 2 trapz of
    (2 pi f)^n re^2, non-negative on an ascending non-negative grid), the quadratic scaling of the moments, and the textbook
    meaning of the pair formulas (complex square / product / quotient). *)
From Coq Require Import ZArith QArith Reals List Bool Lra Lia.
From EQ Require Import lib.Num lib.NpList lib.NpHelpers lib.Quad model.M_fourier gen.Gen_c06b.
Import ListNotations.

(** * Part A: generated = model, generic *)
Section Generic.
Context {T : Type} `{NumOps T}.
Local Open Scope num_scope.

Lemma map2_removelast_cons {B} (f : T -> T -> B) (l : list T) (x : T) : map2 f l (removelast (x :: l)) = map2 f l (x :: l).
Proof.
  revert x; induction l as [|c l IH]; intros x; [reflexivity|].
  change (removelast (x :: c :: l)) with (x :: removelast (c :: l)). cbn [map2]. now rewrite IH.
Qed.
Lemma map2_tl_removelast {B} (f : T -> T -> B) (y : list T) : map2 f (tl y) (removelast y) = map2 f (tl y) y.
Proof. destruct y as [|a l]; [reflexivity|]. cbn [tl]. apply map2_removelast_cons. Qed.

(** np.trapz(y, x=x) = (diff(x) * (y[1:] + y[:-1]) / 2.0).sum() is the panel sum of the model *)
Lemma np_trapz_eq (y x : list T) : np_trapz y x = trapz_x y x.
Proof. unfold np_trapz, trapz_x. now rewrite map2_tl_removelast. Qed.

Theorem gen_fourier_moment_eq (pi : T) (n : nat) (fr re im : list T) :
  gen_fourier_moment pi n fr re im = fourier_moment pi n fr re im.
Proof.
  unfold gen_fourier_moment, fourier_moment, moment_weight, spec_sq_re, spec_sq_im.
  rewrite !np_trapz_eq, !map_map. reflexivity.
Qed.

Theorem gen_bandwidth_boore_eq (pi : T) (csqrt : T * T -> T * T) (fr re im : list T) :
  gen_bandwidth_boore pi csqrt fr re im = bandwidth_boore csqrt pi fr re im.
Proof.
  unfold gen_bandwidth_boore, bandwidth_boore, boore_arg, boore_of_moments. rewrite !gen_fourier_moment_eq. reflexivity.
Qed.

(** np.argmax only looks at the outcomes of the comparisons *)
Lemma argmax_from_map_cmp {A} (f g : A -> T) (Hc : forall u v, (f u <? f v) = (g u <? g v)) (l : list A) (b : A) (bi i : nat) :
  argmax_from (f b) bi i (map f l) = argmax_from (g b) bi i (map g l).
Proof.
  revert b bi i; induction l as [|x l IH]; intros b bi i; cbn [map argmax_from]; [reflexivity|].
  rewrite Hc. destruct (g b <? g x); apply IH.
Qed.
Lemma argmax_map_cmp {A} (f g : A -> T) (Hc : forall u v, (f u <? f v) = (g u <? g v)) (l : list A) :
  argmax (map f l) = argmax (map g l).
Proof. destruct l as [|b l]; [reflexivity|]. cbn [map argmax]. now apply argmax_from_map_cmp. Qed.
Lemma map2_combine {A B C} (f : A -> B -> C) (la : list A) (lb : list B) :
  map2 f la lb = map (fun p => f (fst p) (snd p)) (combine la lb).
Proof. revert lb; induction la as [|a la IH]; intros [|b lb]; cbn; try reflexivity. now rewrite IH. Qed.

(** the property of np.abs on complex numbers that the dominant-period function relies on *)
Definition cabs_orders (cabs : T -> T -> T) : Prop :=
  forall a b c d : T, (cabs a b <? cabs c d) = (a * a + b * b <? c * c + d * d).

Theorem gen_max_fa_bin_eq (cabs : T -> T -> T) (re im : list T) : cabs_orders cabs ->
  argmax (map2 cabs re im) = max_fa_bin re im.
Proof.
  intros Hc. unfold max_fa_bin, amp2. rewrite !map2_combine.
  apply (argmax_map_cmp (fun p => cabs (fst p) (snd p)) (fun p => fst p * fst p + snd p * snd p)).
  intros u v. apply Hc.
Qed.
Theorem gen_max_fa_period_eq (cabs : T -> T -> T) (fr re im : list T) : cabs_orders cabs ->
  gen_max_fa_period cabs fr re im = max_fa_period re im fr.
Proof.
  intros Hc. unfold gen_max_fa_period, max_fa_period, np_fdiv. now rewrite (gen_max_fa_bin_eq cabs re im Hc).
Qed.
End Generic.

(** * Part B: the R instance *)
Local Open Scope R_scope.

(** ** the real modulus orders complex numbers as re^2 + im^2 does *)
Definition cabs_R (a b : R) : R := sqrt (a * a + b * b).
Lemma cabs_R_lt (a b c d : R) : cabs_R a b < cabs_R c d <-> a * a + b * b < c * c + d * d.
Proof.
  unfold cabs_R. assert (H1 : 0 <= a * a + b * b) by nra. assert (H2 : 0 <= c * c + d * d) by nra. split.
  - intros Hs. now apply sqrt_lt_0_alt.
  - intros Hl. apply sqrt_lt_1_alt. lra.
Qed.
Lemma cabs_R_orders : cabs_orders (T := R) cabs_R.
Proof.
  intros a b c d. numR. destruct (Rltb (a * a + b * b) (c * c + d * d)) eqn:E.
  - apply Rltb_true. apply cabs_R_lt. now apply Rltb_true.
  - apply Rltb_false. apply Rltb_false in E. apply Rnot_lt_le. intros Hs. apply cabs_R_lt in Hs. lra.
Qed.
Theorem gen_max_fa_period_R (fr re im : list R) : gen_max_fa_period cabs_R fr re im = max_fa_period re im fr.
Proof. apply gen_max_fa_period_eq, cabs_R_orders. Qed.
Theorem max_fa_period_value (fr re im : list R) :
  let f := nth (max_fa_bin re im) fr 0 in
  (f <> 0 -> gen_max_fa_period cabs_R fr re im = Some (1 / f)) /\ (f = 0 -> gen_max_fa_period cabs_R fr re im = None).
Proof.
  cbv zeta. rewrite gen_max_fa_period_R. unfold max_fa_period. numR.
  split; intros Hf; case_Reqb (nth (max_fa_bin re im) fr 0) 0; try reflexivity; contradiction.
Qed.

(** ** the pair formulas are complex arithmetic: with i^2 = -1,
       (a + i b)(c + i d) = (ac - bd) + i (ad + bc);  q = a / b is the solution of q b = a *)
Lemma csq_R (a b : R) : csq (a, b) = (a * a - b * b, 2 * a * b).
Proof. unfold csq, cmulp. cbn [fst snd]. numR. f_equal. ring. Qed.
Lemma cmulp_comm_R (u v : R * R) : cmulp u v = cmulp v u.
Proof. destruct u, v. unfold cmulp. cbn [fst snd]. numR. f_equal; ring. Qed.
Lemma czero_R (u : R * R) : czero u = true <-> u = (0, 0).
Proof.
  destruct u as [a b]. unfold czero. cbn [fst snd]. numR. rewrite andb_true_iff, !Reqb_true. split.
  - intros [-> ->]. reflexivity.
  - intros E. now inversion E.
Qed.
Lemma cdivp_R (u v : R * R) : v <> (0, 0) -> exists q, cdivp u v = Some q /\ cmulp q v = u.
Proof.
  intros Hv. destruct u as [a b], v as [c d]. unfold cdivp.
  destruct (czero (c, d)) eqn:Z; [apply czero_R in Z; contradiction|].
  eexists. split; [reflexivity|]. unfold cmulp. cbn [fst snd]. numR.
  assert (Hd : c * c + d * d <> 0).
  { intros E. apply Hv. assert (c = 0) by nra. assert (d = 0) by nra. now subst. }
  f_equal; field; exact Hd.
Qed.
Lemma cdivp_zero_R (u : R * R) : cdivp u (0, 0) = None.
Proof. unfold cdivp. replace (czero (T := R) (0, 0)) with true; [reflexivity|]. symmetry. now apply czero_R. Qed.

(** ** np.trapz(y, x=x): panel recursion, zero / scaling / linearity in y, sign *)
Lemma trapz_x_cons2 (y0 y1 : R) (y : list R) (x0 x1 : R) (x : list R) :
  trapz_x (y0 :: y1 :: y) (x0 :: x1 :: x) = (x1 - x0) * (y1 + y0) / 2 + trapz_x (y1 :: y) (x1 :: x).
Proof. unfold trapz_x. cbn [diff tl map2]. rewrite nsum_cons. numR. reflexivity. Qed.
Lemma trapz_x_nil_x (y : list R) : trapz_x y [] = 0.
Proof. reflexivity. Qed.
Lemma trapz_x_one_x (y : list R) (x0 : R) : trapz_x y [x0] = 0.
Proof. reflexivity. Qed.
Lemma trapz_x_nil_y (x : list R) : trapz_x [] x = 0.
Proof. unfold trapz_x. cbn [tl map2]. destruct (diff x); reflexivity. Qed.
Lemma trapz_x_one_y (y0 : R) (x : list R) : trapz_x [y0] x = 0.
Proof. unfold trapz_x. cbn [tl map2]. destruct (diff x); reflexivity. Qed.

(** induction over the panels: x = x0 :: x1 :: x', y = y0 :: y1 :: y' *)
Lemma trapz_x_ind (P : list R -> list R -> Prop) :
  (forall y, P y []) -> (forall y x0, P y [x0]) -> (forall x, P [] x) -> (forall y0 x, P [y0] x) ->
  (forall y0 y1 y x0 x1 x, P (y1 :: y) (x1 :: x) -> P (y0 :: y1 :: y) (x0 :: x1 :: x)) ->
  forall y x, P y x.
Proof.
  intros H1 H2 H3 H4 H5 y x. revert y. induction x as [|x0 x IH]; intros y; [apply H1|].
  destruct x as [|x1 x]; [apply H2|]. destruct y as [|y0 [|y1 y]]; [apply H3 | apply H4 | apply H5, IH].
Qed.

Lemma trapz_x_zero (y x : list R) : (forall v, In v y -> v = 0) -> trapz_x y x = 0.
Proof.
  revert y x. apply (trapz_x_ind (fun y x => (forall v, In v y -> v = 0) -> trapz_x y x = 0)).
  - intros y _. apply trapz_x_nil_x.
  - intros y x0 _. apply trapz_x_one_x.
  - intros x _. apply trapz_x_nil_y.
  - intros y0 x _. apply trapz_x_one_y.
  - intros y0 y1 y x0 x1 x IH Hz. rewrite trapz_x_cons2, IH by (intros v Hv; apply Hz; now right).
    rewrite (Hz y0) by now left. rewrite (Hz y1) by (right; now left). lra.
Qed.
Lemma trapz_x_scale (c : R) (y x : list R) : trapz_x (map (Rmult c) y) x = c * trapz_x y x.
Proof.
  revert y x. apply (trapz_x_ind (fun y x => trapz_x (map (Rmult c) y) x = c * trapz_x y x)).
  - intros y. rewrite !trapz_x_nil_x. lra.
  - intros y x0. rewrite !trapz_x_one_x. lra.
  - intros x. cbn [map]. rewrite !trapz_x_nil_y. lra.
  - intros y0 x. cbn [map]. rewrite !trapz_x_one_y. lra.
  - intros y0 y1 y x0 x1 x IH. cbn [map] in *. rewrite !trapz_x_cons2, IH. lra.
Qed.
Lemma trapz_x_linear (a b : R) (y1 y2 x : list R) : length y1 = length y2 ->
  trapz_x (map2 (fun u v => a * u + b * v) y1 y2) x = a * trapz_x y1 x + b * trapz_x y2 x.
Proof.
  revert y2. revert y1 x.
  apply (trapz_x_ind (fun y1 x => forall y2, length y1 = length y2 ->
           trapz_x (map2 (fun u v => a * u + b * v) y1 y2) x = a * trapz_x y1 x + b * trapz_x y2 x)).
  - intros y y2 _. rewrite !trapz_x_nil_x. lra.
  - intros y x0 y2 _. rewrite !trapz_x_one_x. lra.
  - intros x [|v0 y2] Hl; [|discriminate]. cbn [map2]. rewrite !trapz_x_nil_y. lra.
  - intros y0 x [|v0 [|v1 y2]] Hl; try discriminate. cbn [map2]. rewrite !trapz_x_one_y. lra.
  - intros y0 y1 y x0 x1 x IH [|v0 [|v1 y2]] Hl; try discriminate. cbn [length] in Hl.
    specialize (IH (v1 :: y2) ltac:(cbn [length]; lia)). cbn [map2] in *. rewrite !trapz_x_cons2, IH. lra.
Qed.

(** ascending grid (np.arange(points) / (N dt) is one) *)
Definition ascending (x : list R) : Prop := forall i, (S i < length x)%nat -> nth i x 0 <= nth (S i) x 0.
Lemma ascending_tl (x0 : R) (x : list R) : ascending (x0 :: x) -> ascending x.
Proof. intros Hx i Hi. apply (Hx (S i)). cbn [length]. lia. Qed.
Lemma trapz_x_nonneg (y x : list R) : ascending x -> all_nonneg y -> 0 <= trapz_x y x.
Proof.
  revert y x. apply (trapz_x_ind (fun y x => ascending x -> all_nonneg y -> 0 <= trapz_x y x)).
  - intros y _ _. rewrite trapz_x_nil_x. lra.
  - intros y x0 _ _. rewrite trapz_x_one_x. lra.
  - intros x _ _. rewrite trapz_x_nil_y. lra.
  - intros y0 x _ _. rewrite trapz_x_one_y. lra.
  - intros y0 y1 y x0 x1 x IH Hx Hy. rewrite trapz_x_cons2.
    assert (H0 : 0 <= y0) by (apply Hy; now left). assert (H1 : 0 <= y1) by (apply Hy; right; now left).
    assert (Hd : x0 <= x1) by (apply (Hx 0%nat); cbn [length]; lia).
    assert (Ht : 0 <= trapz_x (y1 :: y) (x1 :: x)).
    { apply IH; [now apply ascending_tl in Hx|]. intros v Hv. apply Hy. now right. }
    nra.
Qed.

(** ** the Fourier moment *)
Lemma map2_In {A B C} (f : A -> B -> C) (la : list A) (lb : list B) (z : C) :
  In z (map2 f la lb) -> exists a b, In a la /\ In b lb /\ z = f a b.
Proof.
  revert lb; induction la as [|a la IH]; intros [|b lb] Hz; cbn [map2] in Hz; try contradiction.
  destruct Hz as [<- | Hz].
  - exists a, b. repeat split; now left.
  - destruct (IH lb Hz) as (a' & b' & Ha & Hb & E). exists a', b'. repeat split; auto; now right.
Qed.
Lemma npow_nonneg_R (x : R) (n : nat) : 0 <= x -> 0 <= npow x n.
Proof. intros Hx. induction n as [|n IH]; cbn [npow]; numR; [lra | nra]. Qed.
Lemma npow_pow_R (x : R) (n : nat) : npow x n = x ^ n.
Proof. induction n as [|n IH]; cbn [npow pow]; numR; [reflexivity | now rewrite IH]. Qed.

Lemma spec_sq_re_real (re : list R) : spec_sq_re re (repeat 0 (length re)) = vsq re.
Proof. unfold spec_sq_re, vsq. induction re as [|a re IH]; cbn [length repeat map2 map]; [reflexivity|]. rewrite IH. numR. f_equal. ring. Qed.
Lemma spec_sq_im_real (re : list R) v : In v (spec_sq_im re (repeat 0 (length re))) -> v = 0.
Proof.
  unfold spec_sq_im. intros Hv. apply map2_In in Hv as (a & b & _ & Hb & ->). apply repeat_spec in Hb. subst b. numR. ring.
Qed.

(** a purely real spectrum (im = 0): the moment is real and equals 2 * trapz((2 pi f)^n re^2, x=f) *)
Theorem fourier_moment_real (pi : R) (n : nat) (fr re : list R) :
  fourier_moment pi n fr re (repeat 0 (length re))
  = (2 * trapz_x (map2 Rmult (map (fun f => (2 * pi * f) ^ n) fr) (vsq re)) fr, 0).
Proof.
  unfold fourier_moment, cscale, moment_weight. cbn [fst snd]. numR. f_equal.
  - rewrite spec_sq_re_real.
    replace (map (fun f => npow (2 * pi * f) n) fr) with (map (fun f => (2 * pi * f) ^ n) fr)
      by (apply map_ext; intros f; symmetry; apply npow_pow_R).
    reflexivity.
  - rewrite trapz_x_zero; [lra|]. intros v Hv. apply map2_In in Hv as (a & b & _ & Hb & ->).
    apply spec_sq_im_real in Hb. subst b. ring.
Qed.
(** ... and non-negative on an ascending grid of non-negative frequencies *)
Theorem fourier_moment_real_nonneg (pi : R) (n : nat) (fr re : list R) : 0 <= pi -> ascending fr -> all_nonneg fr ->
  0 <= fst (fourier_moment pi n fr re (repeat 0 (length re))).
Proof.
  intros Hpi Hasc Hnn. rewrite fourier_moment_real. cbn [fst].
  assert (Ht : 0 <= trapz_x (map2 Rmult (map (fun f => (2 * pi * f) ^ n) fr) (vsq re)) fr).
  { apply trapz_x_nonneg; [exact Hasc|]. intros v Hv. apply map2_In in Hv as (a & b & Ha & Hb & ->).
    apply in_map_iff in Ha as (f & <- & Hf). apply (all_nonneg_vsq re) in Hb. specialize (Hnn f Hf).
    rewrite <- npow_pow_R. assert (0 <= npow (2 * pi * f) n) by (apply npow_nonneg_R; nra). nra. }
  lra.
Qed.

(** the moments are quadratic in the spectrum: scaling F by a real c scales every moment by c^2 *)
Lemma spec_sq_re_scale (c : R) (re im : list R) :
  spec_sq_re (map (Rmult c) re) (map (Rmult c) im) = map (Rmult (c * c)) (spec_sq_re re im).
Proof.
  unfold spec_sq_re. revert im; induction re as [|a re IH]; intros [|b im]; cbn [map map2]; try reflexivity.
  rewrite IH. numR. f_equal. ring.
Qed.
Lemma spec_sq_im_scale (c : R) (re im : list R) :
  spec_sq_im (map (Rmult c) re) (map (Rmult c) im) = map (Rmult (c * c)) (spec_sq_im re im).
Proof.
  unfold spec_sq_im. revert im; induction re as [|a re IH]; intros [|b im]; cbn [map map2]; try reflexivity.
  rewrite IH. numR. f_equal. ring.
Qed.
Lemma map2_mul_scale_r (k : R) (w z : list R) : map2 nmul w (map (Rmult k) z) = map (Rmult k) (map2 nmul w z).
Proof. revert z; induction w as [|a w IH]; intros [|b z]; cbn [map map2]; try reflexivity. rewrite IH. numR. f_equal. ring. Qed.
Theorem fourier_moment_scale (pi c : R) (n : nat) (fr re im : list R) :
  fourier_moment pi n fr (map (Rmult c) re) (map (Rmult c) im) = cscale (c * c) (fourier_moment pi n fr re im).
Proof.
  unfold fourier_moment, cscale. cbn [fst snd].
  rewrite spec_sq_re_scale, spec_sq_im_scale, !map2_mul_scale_r, !trapz_x_scale. numR. f_equal; ring.
Qed.
(** the moment is additive in F ** 2 (np.trapz is linear in y): stated for the real parts of two weighted integrands *)
Theorem trapz_x_additive (y1 y2 x : list R) : length y1 = length y2 ->
  trapz_x (map2 Rplus y1 y2) x = trapz_x y1 x + trapz_x y2 x.
Proof.
  intros Hl. rewrite <- (Rmult_1_l (trapz_x y1 x)), <- (Rmult_1_l (trapz_x y2 x)), <- (trapz_x_linear 1 1 y1 y2 x Hl).
  f_equal. clear Hl. revert y2; induction y1 as [|a y1 IH]; intros [|b y2]; cbn [map2]; try reflexivity. rewrite IH. f_equal. lra.
Qed.

(** ** the bandwidth: sqrt of m2^2 / (m0 m4); [None] exactly when m0 m4 is the complex zero *)
Theorem boore_of_moments_R (m0 m2 m4 : R * R) :
  (cmulp m0 m4 <> (0, 0) -> exists q, boore_of_moments m0 m2 m4 = Some q /\ cmulp q (cmulp m0 m4) = csq m2) /\
  (cmulp m0 m4 = (0, 0) -> boore_of_moments m0 m2 m4 = None).
Proof.
  unfold boore_of_moments. split.
  - intros Hz. apply cdivp_R. exact Hz.
  - intros ->. apply cdivp_zero_R.
Qed.
