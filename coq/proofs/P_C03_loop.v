(** C03 — the pseudo-spectral statements of eqsig/sdof.py:pseudo_response_spectra (`w = 2 * np.pi / periods`,
    `svs = w * sds`, `sas = w ** 2 * sds`, `np.where(periods < dt * 6, absmax(motion), sas)`) and the np.where of
    true_response_spectra, as re-translated on every run into gen/Gen_sdof_loop.v, ARE the corresponding pieces of the
    hand model model/M_spectra.v — for all arguments. *)
From Coq Require Import Reals List Lia Lra Bool.
From EQ Require Import lib.Num lib.NpList model.M_sdof model.M_spectra gen.Gen_sdof_loop proofs.P_C03.
Import ListNotations.
Local Open Scope R_scope.

(** * pointwise *)
Lemma w_pseudo_is_source (P : R) : gen_w_pseudo P = 2 * PI / P /\ gen_w_pseudo_lead0 P = 2 * PI / P.
Proof. unfold gen_w_pseudo, gen_w_pseudo_lead0. split; reflexivity. Qed.
Lemma w_placeholder_is_source : gen_w_placeholder = 1.
Proof. reflexivity. Qed.
Lemma psv_is_source (w sd : R) : nmul w sd = gen_psv w sd.
Proof. unfold gen_psv. numR. ring. Qed.
Lemma psa_is_source (w sd : R) : (w * w) * sd = gen_psa w sd.
Proof. unfold gen_psa. cbv zeta. ring. Qed.

(** the model's test `P <? dt * nofZ 6` is the source's comparison; the factor is the source's literal *)
Lemma cut_threshold_is_source (dt : R) : (dt * nofZ 6)%num = gen_cut_threshold dt /\ gen_cut_threshold dt = dt * gen_cut_factor.
Proof. unfold gen_cut_threshold, gen_cut_factor. numR. split; ring. Qed.
Lemma cut_factor_is_source : gen_cut_factor = 6.
Proof. unfold gen_cut_factor. lra. Qed.
Lemma cut_cond_is_source (P dt : R) : Rltb P (dt * 6) = true <-> gen_cut_cond P dt.
Proof. unfold gen_cut_cond, gen_cut_threshold. rewrite Rltb_true. split; intros H; lra. Qed.
Lemma true_cut_cond_is_source (P dt : R) : Rltb P (dt * 6) = true <-> gen_true_cut_cond P dt.
Proof. unfold gen_true_cut_cond, gen_true_cut_threshold. rewrite Rltb_true. split; intros H; lra. Qed.
Lemma true_cut_factor_is_source (dt : R) : gen_true_cut_factor = 6 /\ gen_true_cut_threshold dt = dt * gen_true_cut_factor.
Proof. unfold gen_true_cut_threshold, gen_true_cut_factor. split; [lra | ring]. Qed.

(** np.where(periods < dt * 6, absmax(motion), sas), entry i *)
Lemma pga_cut_is_source dt (periods motion sas : list R) i : length sas = length periods -> (i < length periods)%nat ->
  (gen_cut_cond (nth i periods 0) dt -> nth i (pga_cut dt periods motion sas) 0 = absmax motion) /\
  (~ gen_cut_cond (nth i periods 0) dt -> nth i (pga_cut dt periods motion sas) 0 = nth i sas 0).
Proof.
  intros Hl Hi. unfold pga_cut. rewrite (map2_nth _ periods sas 0 0 0) by lia. numR.
  pose proof (cut_cond_is_source (nth i periods 0) dt) as E.
  destruct (Rltb (nth i periods 0) (dt * 6)).
  - split; [reflexivity|]. intros Hn. exfalso. apply Hn, E. reflexivity.
  - split; [|reflexivity]. intros Hc. apply E in Hc. discriminate.
Qed.

(** * pseudo_response_spectra, entry i, entirely in terms of the generated definitions (pi2 = 2 PI) *)
Theorem pseudo_relations_are_source dt (periods motion : list R) resp i :
  length resp = length periods -> (i < length periods)%nat ->
  let '(sds, svs, sas) := pseudo_spectra (2 * PI) dt periods motion resp in
  let w := if Reqb (nth 0 periods 0) 0
           then (if Nat.eqb i 0 then gen_w_placeholder else gen_w_pseudo_lead0 (nth i periods 0))
           else gen_w_pseudo (nth i periods 0) in
  let sd := absmax (fst (fst (nth i resp ([], [], [])))) in
  nth i sds 0 = sd /\ nth i svs 0 = gen_psv w sd /\
  (gen_cut_cond (nth i periods 0) dt -> nth i sas 0 = absmax motion) /\
  (~ gen_cut_cond (nth i periods 0) dt -> nth i sas 0 = gen_psa w sd).
Proof.
  intros Hl Hi.
  pose proof (P_C03.pseudo_nth (2 * PI) dt periods motion resp Hl i Hi) as H.
  rewrite (P_C03.ws_pseudo_nth (2 * PI) periods resp Hl i Hi) in H.
  destruct (pseudo_spectra (2 * PI) dt periods motion resp) as [[sds svs] sas]. cbn zeta in *.
  destruct H as (E1 & E2 & E3).
  assert (Ew : (if (i =? 0)%nat && Reqb (nth 0 periods 0) 0 then 1 else 2 * PI / nth i periods 0)
               = (if Reqb (nth 0 periods 0) 0
                  then (if Nat.eqb i 0 then gen_w_placeholder else gen_w_pseudo_lead0 (nth i periods 0))
                  else gen_w_pseudo (nth i periods 0))).
  { destruct (Reqb (nth 0 periods 0) 0), (i =? 0)%nat; reflexivity. }
  rewrite Ew in E2, E3. clear Ew.
  split; [exact E1|]. split; [rewrite E2; apply psv_is_source|].
  pose proof (cut_cond_is_source (nth i periods 0) dt) as E.
  destruct (Rltb (nth i periods 0) (dt * 6)).
  - split; [intros _; exact E3|]. intros Hn. exfalso. apply Hn, E. reflexivity.
  - split; [intros Hc; apply E in Hc; discriminate|]. intros _. rewrite E3. apply psa_is_source.
Qed.

(** true_response_spectra: the acceleration entry with the source's np.where *)
Theorem true_cut_is_source dt (periods motion : list R) resp i :
  length resp = length periods -> (i < length periods)%nat ->
  let '(sds, svs, sas) := true_spectra dt periods motion resp in
  (gen_true_cut_cond (nth i periods 0) dt -> nth i sas 0 = absmax motion) /\
  (~ gen_true_cut_cond (nth i periods 0) dt -> nth i sas 0 = absmax (snd (nth i resp ([], [], [])))).
Proof.
  intros Hl Hi. pose proof (P_C03.true_nth dt periods motion resp i Hl Hi) as H.
  destruct (true_spectra dt periods motion resp) as [[sds svs] sas]. cbn zeta in H. destruct H as (_ & _ & E3).
  pose proof (true_cut_cond_is_source (nth i periods 0) dt) as E.
  destruct (Rltb (nth i periods 0) (dt * 6)).
  - split; [intros _; exact E3|]. intros Hn. exfalso. apply Hn, E. reflexivity.
  - split; [intros Hc; apply E in Hc; discriminate|]. intros _. exact E3.
Qed.
