(** Flat forms of the C07 model on rational inputs, for the per-case [interval] point checks of the tie.
    The generated goals are stated about the model itself ([M_smooth.smooth], [M_smooth.smoothing_matrix] at R on
    [map Q2R] of the shipped rationals); the lemmas below rewrite them into one closed expression (sums of
    sin/ln terms over integer literals) that the [interval] tactic can enclose. The on-grid mask (f == fc) and
    the side conditions (0 < f, 0 < fc, b <> 0) are decided by computation on Q. *)
From Coq Require Import ZArith QArith Qreals Reals List Bool Lra Lia.
From EQ Require Import lib.Num lib.NpList lib.Quad model.M_smooth proofs.P_C07.
Import ListNotations.
Local Open Scope R_scope.

(** weight of rational f for rational target fc; [on] says whether f == fc *)
Definition qw (b f fc : Q) (on : bool) : R :=
  if on then 1
  else (sin (Q2R b * (ln (Q2R f / Q2R fc) / ln 10)) / (Q2R b * (ln (Q2R f / Q2R fc) / ln 10))) ^ 4.
Fixpoint flat_den (b fc : Q) (fs : list Q) (mask : list bool) : R :=
  match fs, mask with f :: fr, m :: mr => qw b f fc m + flat_den b fc fr mr | _, _ => 0 end.
Fixpoint flat_num (b fc : Q) (am fs : list Q) (mask : list bool) : R :=
  match am, fs, mask with
  | a :: ar, f :: fr, m :: mr => Rabs (Q2R a) * qw b f fc m + flat_num b fc ar fr mr
  | _, _, _ => 0
  end.

Fixpoint eqb_list (l1 l2 : list bool) : bool :=
  match l1, l2 with [], [] => true | a :: r1, b :: r2 => Bool.eqb a b && eqb_list r1 r2 | _, _ => false end.
Definition Qpos_b (x : Q) : bool := Qltb 0 x.
(** side conditions of one column *)
Definition side (b fc : Q) (fs : list Q) (mask : list bool) : bool :=
  negb (Qeqb b 0) && Qpos_b fc && forallb Qpos_b fs && eqb_list mask (map (fun f => Qeqb f fc) fs).

Lemma Qpos_b_R x : Qpos_b x = true -> 0 < Q2R x.
Proof.
  unfold Qpos_b. intros Hx. pose proof (rel_ltb 0%Q x 0 (Q2R x)) as H. numQ; numR.
  rewrite Hx in H. symmetry in H. apply Rltb_true in H; [exact H | unfold rel; apply RMicromega.Q2R_0 | reflexivity].
Qed.
Lemma Qeqb_R x y : Qeqb x y = Reqb (Q2R x) (Q2R y).
Proof. apply (rel_eqb x y (Q2R x) (Q2R y)); reflexivity. Qed.
Lemma eqb_list_eq l1 l2 : eqb_list l1 l2 = true -> l1 = l2.
Proof.
  revert l2; induction l1 as [|a r IH]; intros [|b r2] H; cbn in H; try discriminate; [reflexivity|].
  apply andb_true_iff in H as [H1 H2]. apply eqb_prop in H1. subst. f_equal. now apply IH.
Qed.

Lemma qw_ok b f fc : Qeqb b 0 = false -> 0 < Q2R f -> 0 < Q2R fc ->
  ko_w (Q2R b) (Q2R f) (Q2R fc) = qw b f fc (Qeqb f fc).
Proof.
  intros Hb Hf Hfc. unfold qw. rewrite Qeqb_R. case_Reqb (Q2R f) (Q2R fc).
  - rewrite Heq. apply ko_w_on_grid. lra.
  - rewrite ko_w_off_grid; try assumption.
    + reflexivity.
    + rewrite Qeqb_R in Hb. apply Reqb_false in Hb. now rewrite RMicromega.Q2R_0 in Hb.
Qed.

Lemma flat_den_ok b fc fs : Qeqb b 0 = false -> 0 < Q2R fc -> forallb Qpos_b fs = true ->
  nsum (ko_raw (Q2R b) (map Q2R fs) (Q2R fc)) = flat_den b fc fs (map (fun f => Qeqb f fc) fs).
Proof.
  intros Hb Hfc. induction fs as [|f fr IH]; intros Hp; [reflexivity|].
  cbn in Hp. apply andb_true_iff in Hp as [Hp1 Hp2]. apply Qpos_b_R in Hp1.
  unfold ko_raw, raw_col in *. cbn [map flat_den]. rewrite nsum_cons, IH by exact Hp2. now rewrite qw_ok.
Qed.
Lemma flat_num_ok b fc am fs s : Qeqb b 0 = false -> 0 < Q2R fc -> forallb Qpos_b fs = true ->
  wmean (map Q2R am) (map (fun x => x / s) (ko_raw (Q2R b) (map Q2R fs) (Q2R fc))) =
  flat_num b fc am fs (map (fun f => Qeqb f fc) fs) / s.
Proof.
  intros Hb Hfc. revert am; induction fs as [|f fr IH]; intros am Hp.
  - destruct am; cbn [map flat_num]; rewrite ?wmean_nil_l, ?wmean_nil_r; unfold Rdiv; ring.
  - cbn in Hp. apply andb_true_iff in Hp as [Hp1 Hp2]. apply Qpos_b_R in Hp1.
    destruct am as [|a ar]; [cbn [map flat_num]; rewrite wmean_nil_l; unfold Rdiv; ring|].
    unfold ko_raw, raw_col in *. cbn [map flat_num]. rewrite wmean_cons, IH by exact Hp2. rewrite qw_ok by assumption.
    unfold Rdiv. ring.
Qed.

Lemma side_elim b fc fs mask : side b fc fs mask = true ->
  Qeqb b 0 = false /\ 0 < Q2R fc /\ forallb Qpos_b fs = true /\ mask = map (fun f => Qeqb f fc) fs.
Proof.
  unfold side. intros H. apply andb_true_iff in H as [H H4]. apply andb_true_iff in H as [H H3].
  apply andb_true_iff in H as [H1 H2]. repeat split; [now apply negb_true_iff | now apply Qpos_b_R | exact H3 | now apply eqb_list_eq].
Qed.

(** one smoothed value of one column *)
Lemma col_flat b fc am fs mask : side b fc fs mask = true ->
  wmean (map Q2R am) (ko_weights (Q2R b) (map Q2R fs) (Q2R fc)) = flat_num b fc am fs mask / flat_den b fc fs mask.
Proof.
  intros H. apply side_elim in H as (Hb & Hfc & Hp & ->).
  unfold ko_weights, ko_col, norm_col. cbv zeta. fold (ko_raw (Q2R b) (map Q2R fs) (Q2R fc)).
  numR. rewrite flat_num_ok by assumption. now rewrite flat_den_ok by assumption.
Qed.

(** the zero-bin drop commutes with the embedding of Q into R *)
Lemma drop_zero_f_Q2R (F : list Q) : drop_zero_f (map Q2R F) = map Q2R (drop_zero_f F).
Proof.
  destruct F as [|f0 fr]; [reflexivity|]. cbn [map drop_zero_f].
  rewrite <- (rel_eqb f0 n0 (Q2R f0) n0) by (try apply rel_0; reflexivity). now destruct (neqb f0 n0).
Qed.
Lemma drop_zero_a_Q2R (F A : list Q) : drop_zero_a (map Q2R F) (map Q2R A) = map Q2R (drop_zero_a F A).
Proof.
  destruct F as [|f0 fr]; [reflexivity|]. cbn [map drop_zero_a].
  rewrite <- (rel_eqb f0 n0 (Q2R f0) n0) by (try apply rel_0; reflexivity). destruct (neqb f0 n0); [|reflexivity]. now destruct A.
Qed.
Lemma nth_error_map_Q2R (l : list Q) k x : nth_error l k = Some x -> (k < length (map Q2R l))%nat /\ nth k (map Q2R l) 0 = Q2R x.
Proof.
  intros E. split; [rewrite map_length; apply nth_error_Some; congruence|].
  rewrite (nth_map_in Q2R l k 0 0%Q) by (apply nth_error_Some; congruence). f_equal. now apply nth_error_nth.
Qed.

(** ** the point checks: the first four premises are closed boolean/Q computations, the last is the interval goal *)
Lemma smooth_point_check (b : Q) (F A TG : list Q) (k : nat) (mask : list bool) (fr am : list Q) (fc obs tol : Q) :
  drop_zero_f F = fr -> drop_zero_a F A = am -> nth_error TG k = Some fc -> side b fc fr mask = true ->
  Rabs (flat_num b fc am fr mask / flat_den b fc fr mask - Q2R obs) <= Q2R tol ->
  Rabs (nth k (smooth (Q2R b) (map Q2R F) (map Q2R A) (map Q2R TG)) 0 - Q2R obs) <= Q2R tol.
Proof.
  intros Hfr Ham Hk Hs Hgoal. apply nth_error_map_Q2R in Hk as [Hk1 Hk2]. rewrite map_length in Hk1.
  rewrite smooth_nth by now rewrite map_length. rewrite Hk2, drop_zero_f_Q2R, drop_zero_a_Q2R, Hfr, Ham.
  rewrite (col_flat b fc am fr mask Hs). exact Hgoal.
Qed.

(** entry (i, k) of the smoothing matrix *)
Lemma matrix_point_check (b : Q) (F TG : list Q) (k i : nat) (mask : list bool) (fr : list Q) (fc f obs tol : Q) :
  drop_zero_f F = fr -> nth_error TG k = Some fc -> nth_error fr i = Some f -> side b fc fr mask = true ->
  Rabs (qw b f fc (nth i mask false) / flat_den b fc fr mask - Q2R obs) <= Q2R tol ->
  Rabs (nth i (nth k (smoothing_matrix (Q2R b) (map Q2R F) (map Q2R TG)) []) 0 - Q2R obs) <= Q2R tol.
Proof.
  intros Hfr Hk Hi Hs Hgoal. apply nth_error_map_Q2R in Hk as [Hk1 Hk2].
  unfold smoothing_matrix, matrix_gen. cbv zeta. rewrite (nth_map_in _ _ _ _ 0) by exact Hk1. rewrite Hk2.
  fold (ko_weights (Q2R b) (drop_zero_f (map Q2R F)) (Q2R fc)). rewrite drop_zero_f_Q2R, Hfr.
  pose proof (nth_error_map_Q2R _ _ _ Hi) as [Hi1 Hi2].
  rewrite C07_weight_formula by exact Hi1. rewrite Hi2.
  apply side_elim in Hs as (Hb & Hfc & Hp & Hm).
  assert (Hf : 0 < Q2R f).
  { apply Qpos_b_R. rewrite forallb_forall in Hp. apply Hp. eapply nth_error_In; eassumption. }
  rewrite qw_ok by assumption. rewrite flat_den_ok by assumption. rewrite <- Hm.
  replace (Qeqb f fc) with (nth i mask false); [exact Hgoal|].
  rewrite Hm. rewrite (nth_map_in (fun f0 => Qeqb f0 fc) fr i false 0%Q) by (apply nth_error_Some; congruence).
  f_equal. now apply nth_error_nth.
Qed.

(** what the generated proof scripts run *)
Ltac c07_flatten := cbv [flat_num flat_den qw nth Q2R Qnum Qden].
