(** Proofs for C01: the generated Nigam-Jennings coefficients propagate the closed-form solution of the oscillator
    equation exactly over one step; the closed form satisfies the ODE; the ODE has at most one solution;
    hence the model's series equals any exact solution at every sample instant. *)
From Coq Require Import Reals Lra Lia List.
From Coquelicot Require Import Coquelicot.
From EQ Require Import lib.Num lib.NpList model.M_sdof gen.Gen_sdof_coeffs model.M_sdof_R.
Import ListNotations.
Local Open Scope R_scope.

Lemma is_derive_shift (f : R -> R) t0 x l : is_derive f (t0 + x) l -> is_derive (fun y => f (t0 + y)) x l.
Proof.
  intros Hf. evar_last.
  - apply (is_derive_comp f (fun y => t0 + y) x l 1); [exact Hf|].
    auto_derive; [exact I | ring].
  - unfold scal; simpl. unfold mult; simpl. ring.
Qed.

Section OneStep.
Variables xi w : R.
Hypothesis Hw : 0 < w.
Hypothesis Hxi0 : 0 <= xi.
Hypothesis Hxi1 : xi < 1.

Lemma qd_pos : 0 < qd xi. Proof. unfold qd. apply sqrt_lt_R0. nra. Qed.
Lemma qd_sq : qd xi * qd xi = 1 - xi * xi. Proof. unfold qd. apply sqrt_sqrt. nra. Qed.

Lemma step_u dt u0 v0 g0 g1 : 0 < dt ->
  usol xi w u0 v0 g0 ((g1 - g0) / dt) dt
  = nj_a11 xi w dt * u0 + nj_a12 xi w dt * v0 + nj_b11 xi w dt * (- g0) + nj_b12 xi w dt * (- g1).
Proof.
  intros Hdt. pose proof qd_pos as Hq. pose proof qd_sq as Hqq.
  cbv delta [usol up h1 h2 nj_a11 nj_a12 nj_b11 nj_b12] beta zeta.
  fold (qd xi).
  set (E := exp (- xi * w * dt)). set (S := sin (w * qd xi * dt)). set (C := cos (w * qd xi * dt)).
  field_simplify_eq; [| repeat split; lra].
  ring [Hqq].
Qed.

Lemma step_v dt u0 v0 g0 g1 : 0 < dt ->
  vsol xi w u0 v0 g0 ((g1 - g0) / dt) dt
  = nj_a21 xi w dt * u0 + nj_a22 xi w dt * v0 + nj_b21 xi w dt * (- g0) + nj_b22 xi w dt * (- g1).
Proof.
  intros Hdt. pose proof qd_pos as Hq. pose proof qd_sq as Hqq.
  cbv delta [vsol up dh1 dh2 nj_a21 nj_a22 nj_b21 nj_b22] beta zeta.
  fold (qd xi).
  set (E := exp (- xi * w * dt)). set (S := sin (w * qd xi * dt)). set (C := cos (w * qd xi * dt)).
  field_simplify_eq; [| repeat split; lra].
  ring [Hqq].
Qed.

Lemma usol_deriv u0 v0 g0 s t : is_derive (usol xi w u0 v0 g0 s) t (vsol xi w u0 v0 g0 s t).
Proof.
  pose proof qd_pos as Hq. pose proof qd_sq as Hqq.
  unfold usol, vsol, up, h1, h2, dh1, dh2.
  auto_derive; [ repeat split; auto |].
  field_simplify_eq; [| repeat split; lra].
  ring [Hqq].
Qed.

Lemma vsol_deriv u0 v0 g0 s t :
  is_derive (vsol xi w u0 v0 g0 s) t
    (g0 + s * t - 2 * xi * w * vsol xi w u0 v0 g0 s t - w ^ 2 * usol xi w u0 v0 g0 s t).
Proof.
  pose proof qd_pos as Hq. pose proof qd_sq as Hqq.
  unfold usol, vsol, up, h1, h2, dh1, dh2.
  auto_derive; [ repeat split; auto |].
  field_simplify_eq; [| repeat split; lra].
  ring [Hqq].
Qed.

Lemma usol_0 u0 v0 g0 s : usol xi w u0 v0 g0 s 0 = u0.
Proof. pose proof qd_pos. unfold usol, h1, h2, up. rewrite !Rmult_0_r, exp_0, cos_0, sin_0. field. lra. Qed.
Lemma vsol_0 u0 v0 g0 s : vsol xi w u0 v0 g0 s 0 = v0.
Proof. pose proof qd_pos. unfold vsol, dh1, dh2, up. rewrite !Rmult_0_r, exp_0, cos_0, sin_0. field. lra. Qed.

(** uniqueness: the homogeneous damped oscillator with zero data stays zero (energy argument + mean value theorem) *)
Lemma homog_zero (T : R) (u v : R -> R) :
  0 <= T ->
  (forall t, 0 <= t <= T -> is_derive u t (v t)) ->
  (forall t, 0 <= t <= T -> is_derive v t (- 2 * xi * w * v t - w ^ 2 * u t)) ->
  u 0 = 0 -> v 0 = 0 ->
  forall t, 0 <= t <= T -> u t = 0 /\ v t = 0.
Proof.
  intros HT Hu Hv Hu0 Hv0 t Ht.
  set (E := fun s => v s * v s + w ^ 2 * (u s * u s)).
  set (dE := fun s => - 4 * xi * w * (v s * v s)).
  assert (HdE : forall s, 0 <= s <= T -> is_derive E s (dE s)).
  { intros s Hs. unfold E, dE.
    pose proof (Hu s Hs) as Hus. pose proof (Hv s Hs) as Hvs.
    auto_derive.
    - repeat split; eexists; eassumption.
    - assert (Derive (fun x => v x) s = -2 * xi * w * v s - w ^ 2 * u s) as -> by (apply is_derive_unique; exact Hvs).
      assert (Derive (fun x => u x) s = v s) as -> by (apply is_derive_unique; exact Hus). ring. }
  assert (HE0 : E 0 = 0) by (unfold E; rewrite Hu0, Hv0; ring).
  assert (HEt : E t <= 0).
  { destruct (MVT_gen E 0 t dE) as [c [Hc Hcc]].
    - intros x Hx. rewrite Rmin_left, Rmax_right in Hx by lra. apply HdE. lra.
    - intros x Hx. rewrite Rmin_left, Rmax_right in Hx by lra.
      apply continuity_pt_filterlim, @ex_derive_continuous. eexists. apply HdE. lra.
    - rewrite Rmin_left, Rmax_right in Hc by lra.
      rewrite HE0, Rminus_0_r in Hcc. rewrite Hcc. unfold dE.
      assert (0 <= v c * v c) by nra.
      assert (0 <= xi * w * (v c * v c) * t).
      { apply Rmult_le_pos; [|lra]. apply Rmult_le_pos; [|lra]. apply Rmult_le_pos; lra. }
      lra. }
  unfold E in HEt.
  assert (Hvv : 0 <= v t * v t) by apply Rle_0_sqr.
  assert (Huu : 0 <= u t * u t) by apply Rle_0_sqr.
  assert (Hw2 : 0 < w ^ 2) by (apply pow_lt; exact Hw).
  assert (Hwu : 0 <= w ^ 2 * (u t * u t)) by (apply Rmult_le_pos; lra).
  assert (Hv2 : v t * v t = 0) by lra.
  assert (Hu2 : w ^ 2 * (u t * u t) = 0) by lra.
  split.
  - apply Rmult_integral in Hu2. destruct Hu2 as [Hu2|Hu2]; [lra|]. now apply Rsqr_0_uniq in Hu2.
  - now apply Rsqr_0_uniq in Hv2.
Qed.

(** any solution of the forced equation with a linear load on [t0, t0+d] is the closed form started from its state at t0 *)
Lemma forced_unique (t0 d g0 s : R) (u v : R -> R) :
  0 <= d ->
  (forall t, t0 <= t <= t0 + d -> is_derive u t (v t)) ->
  (forall t, t0 <= t <= t0 + d -> is_derive v t (g0 + s * (t - t0) - 2 * xi * w * v t - w ^ 2 * u t)) ->
  forall r, 0 <= r <= d ->
    u (t0 + r) = usol xi w (u t0) (v t0) g0 s r /\ v (t0 + r) = vsol xi w (u t0) (v t0) g0 s r.
Proof.
  intros Hd Hu Hv r Hr.
  set (U := usol xi w (u t0) (v t0) g0 s). set (V := vsol xi w (u t0) (v t0) g0 s).
  set (du := fun x => u (t0 + x) - U x). set (dv := fun x => v (t0 + x) - V x).
  assert (H := homog_zero d du dv Hd).
  destruct H with (t := r) as [H1 H2]; auto.
  - intros x Hx. unfold du, dv.
    apply (is_derive_minus (fun x => u (t0 + x)) U x (v (t0 + x)) (V x)); [| apply usol_deriv].
    apply is_derive_shift, Hu. lra.
  - intros x Hx. unfold du, dv.
    evar_last.
    + apply (is_derive_minus (fun x => v (t0 + x)) V x
             (g0 + s * (t0 + x - t0) - 2 * xi * w * v (t0 + x) - w ^ 2 * u (t0 + x))
             (g0 + s * x - 2 * xi * w * V x - w ^ 2 * U x)); [| apply vsol_deriv].
      apply is_derive_shift, Hv. lra.
    + unfold minus, plus, opp; simpl. ring.
  - unfold du, U. rewrite Rplus_0_r, usol_0. ring.
  - unfold dv, V. rewrite Rplus_0_r, vsol_0. ring.
  - unfold du in H1. unfold dv in H2. split; lra.
Qed.
End OneStep.

(** * The recurrence of the model *)
Section Series.
Variable c : coeffs R.

Lemma nj_run_length s f0 rest : length (nj_run c s f0 rest) = S (length rest).
Proof. revert s f0; induction rest as [|f1 r IH]; intros s f0; cbn [nj_run length]; [reflexivity|]. now rewrite IH. Qed.

Lemma nj_run_hd s f0 rest d : nth 0 (nj_run c s f0 rest) d = s.
Proof. destruct rest; reflexivity. Qed.

Lemma nj_run_nth_S s f0 rest i d : (i < length rest)%nat ->
  nth (S i) (nj_run c s f0 rest) d
  = nj_step c (nth i (nj_run c s f0 rest) d) (nth i (f0 :: rest) 0) (nth (S i) (f0 :: rest) 0).
Proof.
  revert s f0 i; induction rest as [|f1 r IH]; intros s f0 i Hi; cbn [length] in Hi; [lia|].
  cbn [nj_run]. destruct i as [|j].
  - cbn [nth]. now rewrite nj_run_hd.
  - change (nth (S (S j)) (s :: nj_run c (nj_step c s f0 f1) f1 r) d) with (nth (S j) (nj_run c (nj_step c s f0 f1) f1 r) d).
    rewrite IH by lia. reflexivity.
Qed.

Lemma nj_series_length (rec : list R) : length (nj_series c rec) = length rec.
Proof. unfold nj_series. destruct rec as [|x r]; [reflexivity|]. cbn [map]. now rewrite nj_run_length, map_length. Qed.

Lemma nj_series_0 (rec : list R) d : rec <> [] -> nth 0 (nj_series c rec) d = (0, 0).
Proof. intros Hne. unfold nj_series. destruct rec as [|x r]; [congruence|]. cbn [map]. now rewrite nj_run_hd. Qed.

Lemma nj_series_S (rec : list R) i d : (S i < length rec)%nat ->
  nth (S i) (nj_series c rec) d = nj_step c (nth i (nj_series c rec) d) (- nth i rec 0) (- nth (S i) rec 0).
Proof.
  intros Hi. unfold nj_series. destruct rec as [|x r]; [cbn in Hi; lia|]. cbn [map length] in *.
  rewrite nj_run_nth_S by (rewrite map_length; lia).
  change (nopp x :: map nopp r) with (map nopp (x :: r)).
  assert (E : forall k, (k < length (x :: r))%nat -> nth k (map nopp (x :: r)) 0 = - nth k (x :: r) 0).
  { intros k Hk. rewrite (nth_map_in nopp (x :: r) k 0 0) by exact Hk. reflexivity. }
  rewrite !E by (cbn [length]; lia). reflexivity.
Qed.
End Series.

(** * Exactness at every sample instant *)
Section Exact.
Variables xi w dt : R.
Hypothesis Hw : 0 < w.
Hypothesis Hxi0 : 0 <= xi.
Hypothesis Hxi1 : xi < 1.
Hypothesis Hdt : 0 < dt.

Definition solves (rec : list R) (u v : R -> R) : Prop :=
  u 0 = 0 /\ v 0 = 0 /\
  forall i, (S i < length rec)%nat -> forall t, INR i * dt <= t <= INR (S i) * dt ->
    is_derive u t (v t) /\ is_derive v t (load rec dt i t - 2 * xi * w * v t - w ^ 2 * u t).

Lemma one_step (s : R * R) g0 g1 :
  nj_step (nj_coeffs xi w dt) s (- g0) (- g1)
  = (usol xi w (fst s) (snd s) g0 ((g1 - g0) / dt) dt, vsol xi w (fst s) (snd s) g0 ((g1 - g0) / dt) dt).
Proof.
  unfold nj_step, nj_coeffs. cbn [a11 a12 a21 a22 b11 b12 b21 b22]. numR.
  rewrite (step_u xi w Hw Hxi0 Hxi1 dt (fst s) (snd s) g0 g1 Hdt), (step_v xi w Hw Hxi0 Hxi1 dt (fst s) (snd s) g0 g1 Hdt).
  reflexivity.
Qed.

Theorem series_exact (rec : list R) (u v : R -> R) : solves rec u v ->
  forall i, (i < length rec)%nat ->
    nth i (nj_series (nj_coeffs xi w dt) rec) (0, 0) = (u (INR i * dt), v (INR i * dt)).
Proof.
  intros (Hu0 & Hv0 & Hode) i. induction i as [|i IH]; intros Hi.
  - rewrite nj_series_0 by (intros ->; cbn in Hi; lia). cbn [INR]. rewrite Rmult_0_l, Hu0, Hv0. reflexivity.
  - rewrite nj_series_S by exact Hi. rewrite IH by lia. rewrite one_step. cbn [fst snd].
    set (t0 := INR i * dt).
    assert (E : INR (S i) * dt = t0 + dt) by (rewrite S_INR; unfold t0; ring).
    destruct (forced_unique xi w Hw Hxi0 Hxi1 t0 dt (gat rec i) ((gat rec (S i) - gat rec i) / dt) u v) with (r := dt) as [H1 H2].
    + lra.
    + intros t Ht. apply (Hode i Hi t). rewrite E. exact Ht.
    + intros t Ht. apply (Hode i Hi t). rewrite E. exact Ht.
    + lra.
    + rewrite E, H1, H2. reflexivity.
Qed.

(** non-vacuity for every length: the ramp record a_i = c i dt is solved by the (globally smooth) closed form *)
Lemma ramp_solves cr n : solves (map (fun i => cr * (INR i * dt)) (seq 0 n)) (usol xi w 0 0 0 cr) (vsol xi w 0 0 0 cr).
Proof.
  split; [apply usol_0; assumption|]. split; [apply vsol_0; assumption|].
  intros i Hi t Ht. rewrite map_length, seq_length in Hi. split; [apply usol_deriv; assumption|].
  evar_last; [apply vsol_deriv; assumption|].
  unfold load, gat.
  rewrite (nth_map_in (fun i => cr * (INR i * dt)) (seq 0 n) i 0 0%nat) by (rewrite seq_length; lia).
  rewrite (nth_map_in (fun i => cr * (INR i * dt)) (seq 0 n) (S i) 0 0%nat) by (rewrite seq_length; lia).
  rewrite !seq_nth by lia. rewrite !Nat.add_0_l, S_INR. field. lra.
Qed.
End Exact.

(** * third series and the leading-zero-period row: structural *)
Lemma row_third (c : coeffs R) xi w (rec : list R) i : (i < length rec)%nat ->
  nth i (snd (row c xi w rec)) 0
  = - (2 * xi * w * nth i (snd (fst (row c xi w rec))) 0 + w ^ 2 * nth i (fst (fst (row c xi w rec))) 0).
Proof.
  intros Hi. unfold row. cbn [fst snd].
  rewrite (nth_map_in (resp_acc xi w) _ i 0 (0, 0)) by (rewrite nj_series_length; exact Hi).
  rewrite (nth_map_in snd _ i 0 (0, 0)) by (rewrite nj_series_length; exact Hi).
  rewrite (nth_map_in fst _ i 0 (0, 0)) by (rewrite nj_series_length; exact Hi).
  unfold resp_acc. numR. ring.
Qed.

Lemma row_lengths (c : coeffs R) xi w (rec : list R) :
  length (fst (fst (row c xi w rec))) = length rec /\ length (snd (fst (row c xi w rec))) = length rec
  /\ length (snd (row c xi w rec)) = length rec.
Proof. unfold row; cbn [fst snd]. now rewrite !map_length, nj_series_length. Qed.

Lemma leading_zero_response (cfs : list (coeffs R)) c2pi xi ps (rec : list R) :
  response_with cfs c2pi xi (0 :: ps) rec = zero_row rec :: map2 (fun c P => row c xi (w_of c2pi P) rec) cfs ps.
Proof. unfold response_with, leading_zero, osc_periods. numR. case_Reqb 0 0; [reflexivity | lra]. Qed.

Lemma no_leading_zero_response (cfs : list (coeffs R)) c2pi xi ps (rec : list R) : hd 1 ps <> 0 ->
  response_with cfs c2pi xi ps rec = map2 (fun c P => row c xi (w_of c2pi P) rec) cfs ps.
Proof.
  intros Hp. unfold response_with, leading_zero, osc_periods. destruct ps as [|p0 ps']; [reflexivity|].
  cbn [hd] in Hp. numR. case_Reqb p0 0; [contradiction | reflexivity].
Qed.

Lemma zero_row_spec (rec : list R) i : (i < length rec)%nat ->
  nth i (fst (fst (zero_row rec))) 0 = 0 /\ nth i (snd (fst (zero_row rec))) 0 = 0 /\ nth i (snd (zero_row rec)) 0 = - nth i rec 0.
Proof.
  intros Hi. unfold zero_row; cbn [fst snd].
  rewrite !(nth_map_in _ rec i 0 0) by exact Hi. numR. auto.
Qed.
