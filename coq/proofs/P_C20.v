(** Proofs for C20 (helpers of fns/generic.py and fns/average.py) at T := R. *)
From Coq Require Import ZArith Reals List Bool Lra Lia.
From EQ Require Import lib.Num lib.NpList lib.Quad model.M_helpers.
Import ListNotations.
Local Open Scope R_scope.

(** * small list facts *)
Lemma nth_skipn_R {A} (l : list A) s i d : nth i (skipn s l) d = nth (s + i) l d.
Proof. revert l; induction s as [|s IH]; intros l; [reflexivity|]. destruct l as [|x r]; [destruct i; reflexivity|]. cbn. apply IH. Qed.
Lemma nth_firstn_R {A} (l : list A) k i d : (i < k)%nat -> nth i (firstn k l) d = nth i l d.
Proof. revert l i; induction k as [|k IH]; intros l i Hi; [lia|]. destruct l as [|x r]; [reflexivity|]. destruct i; [reflexivity|]. cbn. apply IH; lia. Qed.
Lemma firstn_add_R {A} (l : list A) i s : firstn (i + s) l = firstn i l ++ firstn s (skipn i l).
Proof. revert l; induction i as [|i IH]; intros l; [reflexivity|]. destruct l as [|x r]; [cbn; now rewrite firstn_nil|]. cbn. now rewrite IH. Qed.
Lemma nsum_app (a b : list R) : nsum (a ++ b) = nsum a + nsum b.
Proof. induction a as [|x r IH]; cbn [app]; [rewrite nsum_nil; lra|]. rewrite !nsum_cons, IH. lra. Qed.
Lemma ofnat_S k : @ofnat R _ (S k) = ofnat k + 1.
Proof. unfold ofnat. cbn [nofZ NumR]. rewrite Nat2Z.inj_succ, succ_IZR. reflexivity. Qed.
Lemma ofnat_0 : @ofnat R _ 0 = 0. Proof. reflexivity. Qed.
Lemma ofnat_add a b : @ofnat R _ (a + b) = ofnat a + ofnat b.
Proof. induction a as [|a IH]; cbn [Nat.add]; [rewrite ofnat_0; lra|]. rewrite !ofnat_S, IH. lra. Qed.
Lemma ofnat_pos k : (0 < k)%nat -> 0 < @ofnat R _ k.
Proof. intros Hk. unfold ofnat. cbn [nofZ NumR]. apply IZR_lt. lia. Qed.
Lemma ofnat_INR k : @ofnat R _ k = INR k.
Proof. unfold ofnat. cbn [nofZ NumR]. now rewrite INR_IZR_INZ. Qed.
Lemma nsum_repeat c k : nsum (repeat c k) = ofnat k * c.
Proof. induction k as [|k IH]; cbn [repeat]; [rewrite nsum_nil, ofnat_0; lra|]. rewrite nsum_cons, IH, ofnat_S. lra. Qed.
Lemma nsum_all_eq c (l : list R) : Forall (eq c) l -> nsum l = ofnat (length l) * c.
Proof. induction 1 as [|x r Hx _ IH]; cbn [length]; [rewrite nsum_nil, ofnat_0; lra|]. rewrite nsum_cons, IH, ofnat_S. subst. lra. Qed.
Lemma Forall_firstn_R {A} (P : A -> Prop) k l : Forall P l -> Forall P (firstn k l).
Proof. intros H; revert k; induction H; intros [|k]; cbn; constructor; auto. Qed.
Lemma Forall_skipn_R {A} (P : A -> Prop) k l : Forall P l -> Forall P (skipn k l).
Proof. intros H; revert k; induction H; intros [|k]; cbn; auto. Qed.
Lemma nth_repeat_lt {A} (a d : A) p k : (k < p)%nat -> nth k (repeat a p) d = a.
Proof. revert k; induction p as [|p IH]; intros k Hk; [lia|]. destruct k; [reflexivity|]. cbn. apply IH. lia. Qed.
Lemma last_nth (v : list R) : v <> [] -> last v 0 = nth (length v - 1) v 0.
Proof.
  induction v as [|x r IH]; [congruence|]. intros _. destruct r as [|y r]; [reflexivity|].
  rewrite last_cons_ne by discriminate. rewrite IH by discriminate.
  replace (length (x :: y :: r) - 1)%nat with (S (length (y :: r) - 1)) by (cbn [length]; lia). reflexivity.
Qed.
Lemma all_nth_repeat (l : list R) c n : length l = n -> (forall i, (i < n)%nat -> nth i l 0 = c) -> l = repeat c n.
Proof.
  revert n; induction l as [|x r IH]; intros n Hl Hn; cbn in Hl; subst n; [reflexivity|].
  cbn [repeat]. f_equal; [apply (Hn 0%nat); lia|]. apply IH; [reflexivity|]. intros i Hi. apply (Hn (S i)). lia.
Qed.

(** * np.argmin: first index of a minimal element *)
Definition is_argmin (l : list R) (k : nat) : Prop :=
  (k < length l)%nat /\ (forall j, (j < length l)%nat -> nth k l 0 <= nth j l 0) /\
  (forall j, (j < k)%nat -> nth k l 0 < nth j l 0).

Lemma argmin_from_inv (l : list R) : forall pre best bi,
  is_argmin pre bi -> nth bi pre 0 = best -> is_argmin (pre ++ l) (argmin_from best bi (length pre) l).
Proof.
  induction l as [|x r IH]; intros pre best bi Hm Hb; cbn [argmin_from].
  - now rewrite app_nil_r.
  - destruct Hm as (H1 & H2 & H3).
    replace (pre ++ x :: r) with ((pre ++ [x]) ++ r) by (now rewrite <- app_assoc).
    replace (S (length pre)) with (length (pre ++ [x])) by (rewrite app_length; cbn; lia).
    numR. case_Rltb x best.
    + apply IH.
      * repeat split.
        -- rewrite app_length; cbn; lia.
        -- intros j Hj. rewrite app_length in Hj; cbn in Hj. rewrite (app_nth2 pre [x]) by lia. rewrite Nat.sub_diag. cbn [nth].
           destruct (Nat.eq_dec j (length pre)) as [->|Hne].
           ++ rewrite app_nth2 by lia. rewrite Nat.sub_diag. cbn. lra.
           ++ rewrite app_nth1 by lia. specialize (H2 j ltac:(lia)). lra.
        -- intros j Hj. rewrite (app_nth2 pre [x]) by lia. rewrite Nat.sub_diag. cbn [nth].
           rewrite app_nth1 by lia. specialize (H2 j ltac:(lia)). lra.
      * rewrite app_nth2 by lia. rewrite Nat.sub_diag. reflexivity.
    + apply IH.
      * repeat split.
        -- rewrite app_length; cbn; lia.
        -- intros j Hj. rewrite app_length in Hj; cbn in Hj. rewrite (app_nth1 pre [x]) by lia.
           destruct (Nat.eq_dec j (length pre)) as [->|Hne].
           ++ rewrite app_nth2 by lia. rewrite Nat.sub_diag. cbn. lra.
           ++ rewrite app_nth1 by lia. apply H2. lia.
        -- intros j Hj. rewrite !app_nth1 by lia. apply H3. lia.
      * rewrite app_nth1 by lia. exact Hb.
Qed.
Lemma argmin_spec (l : list R) : l <> [] -> is_argmin l (argmin l).
Proof.
  destruct l as [|x r]; [congruence|]. intros _. unfold argmin.
  change (x :: r) with ([x] ++ r). change 1%nat with (length [x]). apply argmin_from_inv; [|reflexivity].
  repeat split; cbn; try lia. intros j Hj. assert (j = 0)%nat as -> by lia. lra.
Qed.
Lemma is_argmin_unique (l : list R) k k' : is_argmin l k -> is_argmin l k' -> k = k'.
Proof.
  intros (H1 & H2 & H3) (G1 & G2 & G3). destruct (Nat.lt_trichotomy k k') as [L|[E|L]]; auto.
  - specialize (G3 k L). specialize (H2 k' G1). lra.
  - specialize (H3 k' L). specialize (G2 k H1). lra.
Qed.

(** * interp_left *)
Definition nondecr (x : list R) : Prop := forall i j, (i <= j < length x)%nat -> nth i x 0 <= nth j x 0.
(** [i] is the greatest node index whose node does not exceed [q] *)
Definition greatest_node (x : list R) (q : R) (i : nat) : Prop :=
  (i < length x)%nat /\ nth i x 0 <= q /\ forall j, (i < j < length x)%nat -> q < nth j x 0.

Lemma ss_right_le q (x : list R) : (ss_right q x <= length x)%nat.
Proof. induction x as [|a r IH]; cbn; [lia|]. numR. case_Rleb a q; lia. Qed.
Lemma ss_right_prefix q (x : list R) j : (j < ss_right q x)%nat -> nth j x 0 <= q.
Proof.
  revert j; induction x as [|a r IH]; intros j; cbn [ss_right]; [lia|]. numR. case_Rleb a q; [|lia].
  intros Hj. destruct j; cbn; [lra|]. apply IH. lia.
Qed.
Lemma ss_right_stop q (x : list R) : (ss_right q x < length x)%nat -> q < nth (ss_right q x) x 0.
Proof.
  induction x as [|a r IH]; cbn [ss_right length]; [lia|]. numR. case_Rleb a q.
  - intros Hl. cbn [nth]. apply IH. lia.
  - intros _. cbn. lra.
Qed.
Lemma left_index_greatest (x : list R) q : x <> [] -> nondecr x -> nth 0 x 0 <= q -> greatest_node x q (left_index x q).
Proof.
  intros Hne Hs H0. unfold left_index.
  assert (Hpos : (0 < ss_right q x)%nat).
  { destruct x as [|a r]; [congruence|]. cbn [ss_right]. numR. cbn in H0. case_Rleb a q; [lia|lra]. }
  pose proof (ss_right_le q x) as Hle. repeat split.
  - lia.
  - apply ss_right_prefix. lia.
  - intros j Hj. destruct (Nat.eq_dec (ss_right q x) (length x)) as [E|E]; [lia|].
    pose proof (ss_right_stop q x ltac:(lia)) as Hst.
    assert (nth (ss_right q x) x 0 <= nth j x 0) by (apply Hs; lia). lra.
Qed.
Lemma greatest_node_unique (x : list R) q i i' : greatest_node x q i -> greatest_node x q i' -> i = i'.
Proof.
  intros (H1 & H2 & H3) (G1 & G2 & G3). destruct (Nat.lt_trichotomy i i') as [L|[E|L]]; auto.
  - specialize (H3 i' ltac:(lia)). lra.
  - specialize (G3 i ltac:(lia)). lra.
Qed.
Lemma interp_left_accepts (x0 x y : list R) : x <> [] -> (forall q, In q x0 -> nth 0 x 0 <= q) ->
  interp_left x0 x y = Some (map (fun q => nth (left_index x q) y 0) x0).
Proof.
  intros Hne Hq. destruct x as [|a r]; [congruence|]. unfold interp_left.
  replace (existsb (fun q => nltb q a) x0) with false; [reflexivity|].
  symmetry. apply not_true_is_false. intros Hex. apply existsb_exists in Hex as (q & Hin & Hlt).
  numR. apply Rltb_true in Hlt. specialize (Hq q Hin). cbn in Hq. lra.
Qed.
Lemma interp_left_rejects (x0 x y : list R) q : In q x0 -> q < nth 0 x 0 -> interp_left x0 x y = None.
Proof.
  intros Hin Hlt. destruct x as [|a r]; [reflexivity|]. unfold interp_left.
  replace (existsb (fun q => nltb q a) x0) with true; [reflexivity|].
  symmetry. apply existsb_exists. exists q. split; auto. numR. apply Rltb_true. exact Hlt.
Qed.
Lemma arange_nth n i : (i < n)%nat -> nth i (@arange R _ n) 0 = INR i.
Proof. intros Hi. unfold arange. rewrite nth_map_in with (d' := 0%nat) by (now rewrite seq_length). rewrite seq_nth by auto. apply ofnat_INR. Qed.

(** * rolling average *)
Lemma csum_nth (l : list R) acc k : (k <= length l)%nat -> nth k (acc :: cumsum_from acc l) 0 = acc + nsum (firstn k l).
Proof.
  revert acc k; induction l as [|x r IH]; intros acc k Hk; cbn in Hk.
  - assert (k = 0)%nat as -> by lia. cbn [cumsum_from nth firstn]. rewrite nsum_nil. lra.
  - destruct k as [|k]; [cbn [cumsum_from nth firstn]; rewrite nsum_nil; lra|].
    cbn [cumsum_from firstn]. cbv zeta.
    match goal with |- nth (S k) (_ :: ?l) 0 = _ => change (nth k l 0 = acc + nsum (x :: firstn k r)) end.
    numR. rewrite IH by lia. rewrite nsum_cons. lra.
Qed.
Lemma roll_ext_length steps m (v : list R) : (1 <= steps)%nat -> length (roll_ext steps m v) = (length v + steps - 1)%nat.
Proof.
  intros Hs. destruct m; cbn [roll_ext]; rewrite ?app_length, ?repeat_length; try lia.
  pose proof (Nat.div_lt steps 2 ltac:(lia) ltac:(lia)). lia.
Qed.
Lemma roll_av_length steps m (v : list R) : (1 <= steps)%nat -> length (roll_av steps m v) = length v.
Proof.
  intros Hs. unfold roll_av. rewrite map2_length, skipn_length, firstn_length. cbn [length].
  fold (@cumsum R _ (roll_ext steps m v)). rewrite cumsum_length, roll_ext_length by auto. lia.
Qed.
(** each output is the mean of the window of [steps] consecutive entries of the edge-replicated series *)
Lemma roll_av_nth steps m (v : list R) i : (1 <= steps)%nat -> (i < length v)%nat ->
  nth i (roll_av steps m v) 0 = nsum (firstn steps (skipn i (roll_ext steps m v))) / ofnat steps.
Proof.
  intros Hs Hi. unfold roll_av. set (ext := roll_ext steps m v).
  assert (Hle : length ext = (length v + steps - 1)%nat) by (apply roll_ext_length; auto).
  set (c := n0 :: cumsum ext).
  assert (Hc : length c = S (length ext)) by (unfold c; cbn [length]; now rewrite cumsum_length).
  rewrite (map2_nth _ _ _ 0 0) by (rewrite ?skipn_length, ?firstn_length; lia).
  rewrite nth_skipn_R, nth_firstn_R by lia. unfold c, cumsum.
  rewrite !csum_nth by lia. numR. rewrite (Nat.add_comm steps i), firstn_add_R, nsum_app.
  unfold Rdiv. f_equal. lra.
Qed.
(** the edge-replicated series: entry k is the input at the clamped index k - (left padding) *)
Lemma pad_edges_nth (v : list R) p e k : v <> [] -> (k < p + length v + e)%nat ->
  nth k (repeat (hd 0 v) p ++ v ++ repeat (last v 0) e) 0 = nth (Nat.min (k - p) (length v - 1)) v 0.
Proof.
  intros Hne Hk.
  destruct (Nat.lt_ge_cases k p) as [L|G].
  - rewrite app_nth1 by (now rewrite repeat_length). rewrite nth_repeat_lt by lia.
    replace (k - p)%nat with 0%nat by lia. cbn [Nat.min]. destruct v; [congruence|reflexivity].
  - rewrite app_nth2 by (rewrite repeat_length; lia). rewrite repeat_length.
    destruct (Nat.lt_ge_cases (k - p) (length v)) as [L2|G2].
    + rewrite app_nth1 by lia. f_equal. lia.
    + rewrite app_nth2 by lia. rewrite nth_repeat_lt by lia.
      replace (Nat.min (k - p) (length v - 1)) with (length v - 1)%nat by lia.
      now apply last_nth.
Qed.
Definition roll_offset (steps : nat) (m : rmode) : nat :=
  match m with Forward => 0 | Backward => steps - 1 | Centre => steps / 2 end.
Lemma roll_ext_nth steps m (v : list R) k : v <> [] -> (1 <= steps)%nat -> (k < length v + steps - 1)%nat ->
  nth k (roll_ext steps m v) 0 = nth (Nat.min (k - roll_offset steps m) (length v - 1)) v 0.
Proof.
  intros Hne Hs Hk. destruct m; cbn [roll_ext roll_offset]; numR.
  - change v with (repeat (hd 0 v) 0 ++ v) at 1. rewrite <- app_assoc. apply pad_edges_nth; auto. lia.
  - rewrite <- (app_nil_r v) at 2. change [] with (repeat (last v 0) 0). apply pad_edges_nth; auto. lia.
  - apply pad_edges_nth; auto. pose proof (Nat.div_lt steps 2 ltac:(lia) ltac:(lia)). lia.
Qed.
Lemma roll_av_const steps m c n : (1 <= steps)%nat -> (1 <= n)%nat -> roll_av steps m (repeat c n) = repeat c n.
Proof.
  intros Hs Hn.
  assert (Hrep : forall k, Forall (eq c) (repeat c k)) by (intros k; apply Forall_forall; intros y Hy; apply repeat_spec in Hy; auto).
  assert (Hhd : hd 0 (repeat c n) = c) by (destruct n; [lia|reflexivity]).
  assert (Hla : last (repeat c n) 0 = c).
  { clear -Hn. induction n as [|n IH]; [lia|]. destruct n as [|n]; [reflexivity|].
    cbn [repeat]. rewrite last_cons_ne by discriminate. apply IH. lia. }
  assert (Hext : Forall (eq c) (roll_ext steps m (repeat c n))).
  { destruct m; cbn [roll_ext]; numR; rewrite ?Hhd, ?Hla.
    - apply Forall_app; split; auto.
    - apply Forall_app; split; auto.
    - apply Forall_app; split; [auto|]. apply Forall_app; split; auto. }
  apply all_nth_repeat; [rewrite roll_av_length by auto; apply repeat_length|].
  intros i Hi. rewrite roll_av_nth by (rewrite ?repeat_length; auto).
  set (w := firstn steps (skipn i (roll_ext steps m (repeat c n)))).
  assert (Hw : Forall (eq c) w) by (apply Forall_firstn_R, Forall_skipn_R, Hext).
  assert (Hl : length w = steps).
  { unfold w. rewrite firstn_length, skipn_length, roll_ext_length, repeat_length by auto. lia. }
  rewrite (nsum_all_eq c w Hw), Hl. pose proof (ofnat_pos steps ltac:(lia)). field. lra.
Qed.

(** * step-function error *)
Lemma dev_app p m (a b : list R) : dev p m (a ++ b) = dev p m a + dev p m b.
Proof. unfold dev. now rewrite map_app, nsum_app. Qed.
Lemma dev_zeros p m k : dev p m (repeat 0 k) = ofnat k * npw (Rabs m) p.
Proof.
  unfold dev. rewrite <- nsum_repeat. f_equal. induction k as [|k IH]; [reflexivity|]. cbn [repeat map]. rewrite IH. f_equal.
  numR. f_equal. replace (0 - m) with (- m) by lra. apply Rabs_Ropp.
Qed.
Lemma nsum_zeros k : nsum (repeat 0 k) = 0.
Proof. rewrite nsum_repeat. lra. Qed.
(** a row [zeros ++ B ++ zeros]: its mean over [length B] entries is the mean of B and the corrected error is the
    summed |deviation|^p of B from its own mean *)
Lemma side_mean_padded (B : list R) a b : side_mean (length B) (repeat 0 a ++ B ++ repeat 0 b) = mean B.
Proof. unfold side_mean, mean. now rewrite !nsum_app, !nsum_zeros, Rplus_0_l, Rplus_0_r. Qed.
Lemma side_err_padded p n (B : list R) a b : (n - length B = a + b)%nat ->
  side_err p n (length B) (repeat 0 a ++ B ++ repeat 0 b) = dev p (mean B) B.
Proof.
  intros Hn. unfold side_err. rewrite side_mean_padded, !dev_app, !dev_zeros, Hn, ofnat_add. numR. lra.
Qed.
Lemma tril_row_eq (v : list R) i : (S i <= length v)%nat ->
  tril_row (length v) i v = repeat 0 0 ++ firstn (S i) v ++ repeat 0 (length v - S i) /\ length (firstn (S i) v) = S i.
Proof. intros Hi. split; [reflexivity|]. rewrite firstn_length. lia. Qed.
Lemma triu_row_eq (v : list R) i : (i <= length v)%nat ->
  triu_row (length v) i v = repeat 0 i ++ skipn i v ++ repeat 0 0 /\ length (skipn i v) = (length v - i)%nat.
Proof. intros Hi. split; [unfold triu_row; cbn [repeat]; now rewrite app_nil_r|]. apply skipn_length. Qed.
Lemma pre_mean_eq (v : list R) i : (S i <= length v)%nat -> pre_mean v i = mean (firstn (S i) v).
Proof.
  intros Hi. unfold pre_mean. destruct (tril_row_eq v i Hi) as [-> Hl]. rewrite <- Hl at 1. apply side_mean_padded.
Qed.
Lemma post_mean_eq (v : list R) i : (i <= length v)%nat -> post_mean v i = mean (skipn i v).
Proof.
  intros Hi. unfold post_mean. destruct (triu_row_eq v i Hi) as [-> Hl]. rewrite <- Hl. apply side_mean_padded.
Qed.
Lemma err_pre_eq p (v : list R) i : (S i <= length v)%nat -> err_pre p v i = dev p (mean (firstn (S i) v)) (firstn (S i) v).
Proof.
  intros Hi. unfold err_pre. destruct (tril_row_eq v i Hi) as [-> Hl]. rewrite <- Hl at 1. apply side_err_padded. rewrite Hl. lia.
Qed.
Lemma err_post_eq p (v : list R) i : (i <= length v)%nat -> err_post p v i = dev p (mean (skipn i v)) (skipn i v).
Proof.
  intros Hi. unfold err_post. destruct (triu_row_eq v i Hi) as [-> Hl]. rewrite <- Hl. apply side_err_padded. rewrite Hl. lia.
Qed.
Lemma step_err_is_spec p (v : list R) : step_err p DNone v = map (step_err_spec p v) (seq 0 (length v)).
Proof.
  cbn [step_err]. unfold step_err_raw. apply map_ext_in. intros i Hi. apply in_seq in Hi. unfold step_err_spec.
  destruct (Nat.eqb_spec (S i) (length v)) as [E|E]; [reflexivity|].
  rewrite err_post_eq, err_pre_eq by lia. numR. lra.
Qed.
Lemma step_err_length p d (v : list R) : length (step_err p d v) = length v.
Proof.
  assert (Hr : length (step_err_raw p v) = length v) by (unfold step_err_raw; now rewrite map_length, seq_length).
  destruct d; cbn [step_err]; auto; rewrite map2_length, Hr, seq_length; lia.
Qed.
Lemma step_err_dir_nth p d (v : list R) i : (i < length v)%nat ->
  nth i (step_err p d v) 0 =
  let e := step_err p DNone v in
  let worse := match d with
               | DNone => false
               | DDown => Rltb (mean (firstn (S i) v)) (mean (skipn i v))
               | DUp => Rltb (mean (skipn i v)) (mean (firstn (S i) v))
               end in
  if worse then amax e * 10 else nth i e 0.
Proof.
  intros Hi. cbn zeta. assert (Hr : length (step_err_raw p v) = length v) by (unfold step_err_raw; now rewrite map_length, seq_length).
  destruct d; cbn [step_err]; [reflexivity| |];
    rewrite (map2_nth _ _ _ 0 0%nat) by (rewrite ?Hr, ?seq_length; lia);
    rewrite seq_nth by lia; cbn [Nat.add]; rewrite pre_mean_eq, post_mean_eq by lia; numR;
    replace (@ofnat R _ 10) with 10 by (unfold ofnat; cbn; lra); reflexivity.
Qed.

(** * interp2d *)
Section Interp2d.
Variables (eps : R) (xf : list R) (f : list (list R)).
Hypothesis Heps : 0 < eps.
Hypothesis Hgap : forall i, (S i < length xf)%nat -> nth i xf 0 + eps <= nth (S i) xf 0.

Lemma xf_strict i j : (i < j < length xf)%nat -> nth i xf 0 < nth j xf 0.
Proof.
  intros [Hij Hj]. induction j as [|j IH]; [lia|].
  destruct (Nat.eq_dec i j) as [->|Hne].
  - specialize (Hgap j Hj). lra.
  - specialize (IH ltac:(lia) ltac:(lia)). specialize (Hgap j Hj). lra.
Qed.
Let dist (x : R) := map (fun a => nabs (nsub x a)) xf.
Lemma dist_nth x j : (j < length xf)%nat -> nth j (dist x) 0 = Rabs (x - nth j xf 0).
Proof. intros Hj. unfold dist. now rewrite nth_map_in with (d' := 0). Qed.
Lemma dist_argmin x : xf <> [] -> is_argmin (dist x) (argmin (dist x)).
Proof. intros Hne. apply argmin_spec. unfold dist. destruct xf; [congruence|discriminate]. Qed.

Lemma lin_row_same (r : list R) : lin_row (1 - 1) 1 r r = r.
Proof. unfold lin_row. induction r as [|a r IH]; [reflexivity|]. cbn [map2]. rewrite IH. f_equal. numR. lra. Qed.

(** query inside [xf k, xf (k+1)) : linear interpolation between rows k and k+1 *)
Lemma interp2d_inside x k : (S k < length xf)%nat -> nth k xf 0 <= x < nth (S k) xf 0 ->
  interp2d_row eps xf f x =
  let s := (x - nth k xf 0) / (nth (S k) xf 0 - nth k xf 0) in lin_row (1 - s) s (nth k f []) (nth (S k) f []).
Proof.
  intros Hk [Hlo Hhi]. cbn zeta.
  assert (Hne : xf <> []) by (destruct xf; [cbn in Hk; lia|discriminate]).
  destruct (dist_argmin x Hne) as (A1 & A2 & A3).
  assert (Hlen : length (dist x) = length xf) by (unfold dist; now rewrite map_length).
  rewrite Hlen in A1, A2.
  set (ind := argmin (dist x)) in *.
  assert (Hind : ind = k \/ ind = S k).
  { destruct (Nat.lt_ge_cases ind k) as [L|G].
    - exfalso. pose proof (xf_strict ind k ltac:(lia)). specialize (A2 k ltac:(lia)).
      rewrite !dist_nth in A2 by lia. rewrite !Rabs_pos_eq in A2 by lra. lra.
    - destruct (Nat.lt_ge_cases (S k) ind) as [L2|G2]; [|lia].
      exfalso. pose proof (xf_strict (S k) ind ltac:(lia)). specialize (A2 (S k) ltac:(lia)).
      rewrite !dist_nth in A2 by lia. rewrite !Rabs_left in A2 by lra. lra. }
  unfold interp2d_row. fold (dist x). fold ind. unfold xat. numR.
  pose proof (Hgap k Hk) as Hg.
  assert (Hmin : Nat.min (S k) (pred (length xf)) = S k) by lia.
  destruct Hind as [E|E]; rewrite E.
  - rewrite (proj2 (Rltb_false x (nth k xf 0))) by lra. rewrite Hmin.
    rewrite (proj2 (Rltb_false (nth (S k) xf 0 - nth k xf 0) eps)) by lra.
    rewrite (proj2 (Rltb_true 0 (nth (S k) xf 0 - nth k xf 0))) by lra. reflexivity.
  - rewrite (proj2 (Rltb_true x (nth (S k) xf 0))) by lra. cbn [pred]. rewrite Hmin.
    rewrite (proj2 (Rltb_false (nth (S k) xf 0 - nth k xf 0) eps)) by lra.
    rewrite (proj2 (Rltb_true 0 (nth (S k) xf 0 - nth k xf 0))) by lra. reflexivity.
Qed.
(** query below the first node: first row *)
Lemma interp2d_below x : xf <> [] -> x < nth 0 xf 0 -> interp2d_row eps xf f x = nth 0 f [].
Proof.
  intros Hne Hx. destruct (dist_argmin x Hne) as (A1 & A2 & A3).
  assert (Hlen : length (dist x) = length xf) by (unfold dist; now rewrite map_length).
  rewrite Hlen in A1, A2. set (ind := argmin (dist x)) in *.
  assert (Hpos : (0 < length xf)%nat) by (destruct xf; [congruence|cbn; lia]).
  assert (Hind : ind = 0%nat).
  { destruct ind as [|i]; [reflexivity|]. exfalso. pose proof (xf_strict 0 (S i) ltac:(lia)). specialize (A2 0%nat Hpos).
    rewrite !dist_nth in A2 by lia. rewrite !Rabs_left in A2 by lra. lra. }
  unfold interp2d_row. fold (dist x). fold ind. unfold xat. numR. rewrite Hind.
  rewrite (proj2 (Rltb_true x (nth 0 xf 0))) by lra. cbn [pred Nat.min].
  rewrite (proj2 (Rltb_false 0 (nth 0 xf 0 - nth 0 xf 0))) by lra. apply lin_row_same.
Qed.
(** query at or above the last node: last row *)
Lemma interp2d_above x : xf <> [] -> nth (length xf - 1) xf 0 <= x -> interp2d_row eps xf f x = nth (length xf - 1) f [].
Proof.
  intros Hne Hx. destruct (dist_argmin x Hne) as (A1 & A2 & A3).
  assert (Hlen : length (dist x) = length xf) by (unfold dist; now rewrite map_length).
  rewrite Hlen in A1, A2. set (ind := argmin (dist x)) in *.
  assert (Hpos : (0 < length xf)%nat) by (destruct xf; [congruence|cbn; lia]).
  set (L := (length xf - 1)%nat) in *.
  assert (Hind : ind = L).
  { destruct (Nat.eq_dec ind L) as [|Hn]; [assumption|]. exfalso.
    pose proof (xf_strict ind L ltac:(unfold L; lia)). specialize (A2 L ltac:(unfold L; lia)).
    rewrite !dist_nth in A2 by (unfold L; lia). rewrite !Rabs_pos_eq in A2 by lra. lra. }
  unfold interp2d_row. fold (dist x). fold ind. unfold xat. numR. rewrite Hind.
  rewrite (proj2 (Rltb_false x (nth L xf 0))) by lra.
  replace (Nat.min (S L) (pred (length xf))) with L by (unfold L; lia).
  rewrite (proj2 (Rltb_false 0 (nth L xf 0 - nth L xf 0))) by lra. apply lin_row_same.
Qed.
(** at a node (rows of equal length): the node's row *)
Lemma lin_row_left (r s : list R) : length r = length s -> lin_row (1 - 0) 0 r s = r.
Proof.
  revert s; induction r as [|a r IH]; intros [|b s] Hl; cbn in Hl; try lia; [reflexivity|].
  unfold lin_row in *. cbn [map2]. rewrite IH by lia. f_equal. numR. lra.
Qed.
Lemma interp2d_at_node k : (k < length xf)%nat -> (forall i j, length (nth i f []) = length (nth j f [])) ->
  interp2d_row eps xf f (nth k xf 0) = nth k f [].
Proof.
  intros Hk Hrect. destruct (Nat.eq_dec (S k) (length xf)) as [E|E].
  - replace k with (length xf - 1)%nat by lia. apply interp2d_above; [destruct xf; [cbn in Hk; lia|discriminate]|lra].
  - assert (Hin : nth k xf 0 <= nth k xf 0 < nth (S k) xf 0) by (split; [lra|apply xf_strict; lia]).
    rewrite (interp2d_inside (nth k xf 0) k ltac:(lia) Hin). cbn zeta.
    replace ((nth k xf 0 - nth k xf 0) / (nth (S k) xf 0 - nth k xf 0)) with 0 by (unfold Rdiv; lra).
    apply lin_row_left. apply Hrect.
Qed.
End Interp2d.
