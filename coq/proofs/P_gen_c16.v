(** The generated definitions of gen/Gen_c16.v (re-translated from eqsig/loader.py on every run by translator/py2coq_c16.py)
    are the hand-written model of model/M_loader.v, for ALL inputs.  Bytes, Z and exact rationals only; no axioms.

    Writers: the text [gen_save_values_and_dt] leaves in the file is the model's [save_sb] / [save] (the append loop is a
    [fold_left] over the indices, the model a [map]; "\n".join is [join_with nl]; "%i %.4f" is the model's header line).
    Readers: the Section variables of the generated file are instantiated with the model's own readers
      str.splitlines() := [splitlines], str.split() := [tokens], float(s) := [py_float] = round_b64 of parse_float,
      a * b := [b64_mul] = round_b64 of the exact product,
    and np.genfromtxt is ANY function that satisfies [gft_contract]: the call that is in the source,
    genfromtxt(ffp, skip_header=1, delimiter=",", names=True, usecols=0), returns the model's [load_values] of the file text
    (and therefore does not raise TypeError: NumPy other than 1.19).  Nothing is assumed about any other call of genfromtxt,
    so a changed keyword argument leaves the obligation unprovable.
    A constructed object is compared through [loaded_obj], the (injective) reading of the model's record [loaded] as class
    name + constructor arguments. *)
From Coq Require Import ZArith QArith List Bool Ascii String Lia.
From EQ Require Import lib.DecFmt lib.PyText model.M_loader proofs.P_C16 gen.Gen_c16.
Import ListNotations.

(** ** writers *)
Lemma str_join_char c ls : str_join [c] ls = join_with c ls.
Proof.
  induction ls as [|l r IH]; [reflexivity|]. destruct r as [|l2 r]; [reflexivity|].
  change (str_join [c] (l :: l2 :: r)) with (l ++ [c] ++ str_join [c] (l2 :: r)). rewrite IH. reflexivity.
Qed.

Lemma fold_append {A B} (g : A -> B) (l : list A) (acc : list B) :
  fold_left (fun acc i => acc ++ [g i]) l acc = acc ++ map g l.
Proof.
  revert acc; induction l as [|a l IH]; intros acc; cbn [fold_left map]; [now rewrite app_nil_r|].
  rewrite IH, <- app_assoc. reflexivity.
Qed.

Lemma map_nth_seq {A B} (f : A -> B) (d : A) (l : list A) :
  map (fun i => f (nth i l d)) (seq 0 (List.length l)) = map f l.
Proof.
  induction l as [|a l IH]; [reflexivity|]. cbn [List.length seq map nth]. f_equal.
  rewrite <- seq_shift, map_map. exact IH.
Qed.

(** the append loop of save_values_and_dt is the model's [map] *)
Lemma append_loop (f : fl -> text) (values : list fl) (acc : list text) :
  fold_left (fun acc i => acc ++ [f (nth i values fl0)]) (seq 0 (List.length values)) acc = acc ++ map f values.
Proof. rewrite (fold_append (fun i => f (nth i values fl0))). now rewrite map_nth_seq. Qed.

Theorem gen_save_sb_eq (values : list fl) (dt : Q) (label : text) :
  gen_save_values_and_dt values (with_sign dt) label = save_sb label dt values.
Proof.
  unfold gen_save_values_and_dt, save_sb, save_lines_sb. rewrite append_loop, str_join_char. reflexivity.
Qed.

Theorem gen_save_eq (xs : list Q) (dt : Q) (label : text) :
  gen_save_values_and_dt (map with_sign xs) (with_sign dt) label = save label dt xs.
Proof. apply gen_save_sb_eq. Qed.

Theorem gen_save_signal_eq (xs : list Q) (dt : Q) (label : text) :
  gen_save_signal {| s_values := map with_sign xs; s_dt := with_sign dt; s_label := label |} = save label dt xs.
Proof. apply gen_save_sb_eq. Qed.

Theorem gen_save_signal_sb_eq (values : list fl) (dt : Q) (label : text) :
  gen_save_signal {| s_values := values; s_dt := with_sign dt; s_label := label |} = save_sb label dt values.
Proof. apply gen_save_sb_eq. Qed.

(** ** readers: the oracles *)
Definition py_float (s : text) : option Q := option_map round_b64 (parse_float s).
Definition b64_mul (a b : Q) : Q := round_b64 (a * b).
Definition gft_of (o : option (list Q)) : gft_res := match o with Some v => GftOk v | None => GftRaise end.
(** the contract of np.genfromtxt: ONLY for the call that is in the source *)
Definition gft_contract (gft : text -> nat -> text -> bool -> nat -> gft_res) : Prop :=
  forall t, gft t 1%nat (txt ",") true 0%nat = gft_of (load_values t).
(** an instance (the contract is satisfiable); every other call raises *)
Definition gft_model (t : text) (skip : nat) (delim : text) (names : bool) (usecols : nat) : gft_res :=
  if (Nat.eqb skip 1 && text_eqb delim (txt ",") && names && Nat.eqb usecols 0)%bool then gft_of (load_values t) else GftRaise.
Lemma gft_model_contract : gft_contract gft_model.
Proof. intros t. reflexivity. Qed.

Definition kind_name (k : kind) : text := match k with KSignal => txt "Signal" | KAccSignal => txt "AccSignal" end.
Definition loaded_obj (l : loaded) : pyobj :=
  {| o_class := kind_name (l_kind l); o_values := l_vals l; o_dt := l_dt l; o_label := l_label l |}.
Lemma loaded_obj_inj a b : loaded_obj a = loaded_obj b -> a = b.
Proof.
  destruct a as [ka va da la], b as [kb vb db lb]. unfold loaded_obj; cbn. intros E. injection E as Ek Ev Ed El. subst.
  destruct ka, kb; try reflexivity; discriminate Ek.
Qed.

Section Readers.
Variable gft : text -> nat -> text -> bool -> nat -> gft_res.
Hypothesis Hgft : gft_contract gft.

Notation LVD := (gen_load_values_and_dt gft splitlines tokens py_float).

Theorem gen_lvd_eq (t : text) : LVD t = load_values_and_dt t.
Proof.
  unfold gen_load_values_and_dt, load_values_and_dt, load_dt. rewrite Hgft.
  destruct (load_values t) as [v|]; cbn [gft_of try_TypeError gft_value]; [|reflexivity].
  destruct (splitlines t) as [|l0 [|h ls]]; cbn [nth_error]; try reflexivity.
  destruct (tokens h) as [|k0 [|tok ks]]; cbn [nth_error]; try reflexivity.
Qed.

Theorem gen_load_signal_eq (t astype : text) :
  gen_load_signal gft splitlines tokens py_float t astype = option_map (option_map loaded_obj) (load_signal astype t).
Proof.
  unfold gen_load_signal, load_signal, astype_kind. rewrite gen_lvd_eq.
  destruct (load_values_and_dt t) as [[v dt]|]; [|reflexivity].
  destruct (text_eqb astype (txt "signal")); [reflexivity|]. destruct (text_eqb astype (txt "acc_sig")); reflexivity.
Qed.

Theorem gen_load_sig_eq (t : text) (m : Q) :
  gen_load_sig gft splitlines tokens py_float b64_mul t m = option_map loaded_obj (load_sig m t).
Proof.
  unfold gen_load_sig, load_sig. rewrite gen_lvd_eq. destruct (load_values_and_dt t) as [[v dt]|]; reflexivity.
Qed.

(** a file from which values and dt can be read has a first line: `.splitlines()[0]` does not raise after them *)
Lemma lvd_first_line t vd : load_values_and_dt t = Some vd -> nth_error (splitlines t) 0 = Some (load_label t).
Proof.
  unfold load_values_and_dt, load_dt, load_label. destruct (load_values t); [|discriminate].
  destruct (splitlines t) as [|l0 ls]; [discriminate|]. reflexivity.
Qed.

Theorem gen_load_asig_eq (t : text) (want_label : bool) (m : Q) :
  gen_load_asig gft splitlines tokens py_float b64_mul t want_label m = option_map loaded_obj (load_asig want_label m t).
Proof.
  unfold gen_load_asig, load_asig. rewrite gen_lvd_eq. destruct (load_values_and_dt t) as [[v dt]|] eqn:E; [|reflexivity].
  destruct want_label; [|reflexivity]. rewrite (lvd_first_line t _ E). reflexivity.
Qed.

(** ** what the source computes for load(save(..)): through the theorems of P_C16 *)
Theorem gen_roundtrip_lvd (label : text) (dt : Q) (xs : list Q) : no_break label ->
  LVD (gen_save_values_and_dt (map with_sign xs) (with_sign dt) label) = Some (map rt_val xs, rt_dt dt).
Proof. intros H. rewrite gen_save_eq, gen_lvd_eq. apply lvd_save. exact H. Qed.

Theorem gen_roundtrip_asig (label : text) (dt : Q) (xs : list Q) (wl : bool) (m : Q) : no_break label ->
  gen_load_asig gft splitlines tokens py_float b64_mul
    (gen_save_signal {| s_values := map with_sign xs; s_dt := with_sign dt; s_label := label |}) wl m
  = Some {| o_class := txt "AccSignal"; o_values := map (fun y => round_b64 (y * m)) (map rt_val xs); o_dt := rt_dt dt;
            o_label := if wl then label else txt "m1" |}.
Proof.
  intros H. rewrite gen_save_signal_eq, gen_load_asig_eq, (load_asig_save wl m label dt xs H). reflexivity.
Qed.

Theorem gen_roundtrip_sig (label : text) (dt : Q) (xs : list Q) (m : Q) : no_break label ->
  gen_load_sig gft splitlines tokens py_float b64_mul
    (gen_save_signal {| s_values := map with_sign xs; s_dt := with_sign dt; s_label := label |}) m
  = Some {| o_class := txt "Signal"; o_values := map (fun y => round_b64 (y * m)) (map rt_val xs); o_dt := rt_dt dt;
            o_label := txt "m1" |}.
Proof.
  intros H. rewrite gen_save_signal_eq, gen_load_sig_eq, (load_sig_save m label dt xs H). reflexivity.
Qed.

(** as coded: the default astype of load_signal selects neither class *)
Theorem gen_load_signal_default (label : text) (dt : Q) (xs : list Q) : no_break label ->
  gen_load_signal gft splitlines tokens py_float (gen_save_values_and_dt (map with_sign xs) (with_sign dt) label)
    gen_load_signal_default_astype = Some None.
Proof.
  intros H. rewrite gen_load_signal_eq, gen_save_eq. unfold gen_load_signal_default_astype.
  rewrite (load_signal_save _ label dt xs H). reflexivity.
Qed.
End Readers.

(** the `except TypeError` branch (NumPy 1.19): when the first call raises TypeError, the values are what the SECOND call of the
    source, genfromtxt(ffp, skip_header=2, delimiter=",", usecols=0), returns; dt is read as before.  No contract: any [gft]. *)
Theorem gen_lvd_fallback (gft : text -> nat -> text -> bool -> nat -> gft_res) (t : text) :
  gft t 1%nat (txt ",") true 0%nat = GftTypeError ->
  gen_load_values_and_dt gft splitlines tokens py_float t =
  match gft_value (gft t 2%nat (txt ",") false 0%nat), load_dt t with
  | Some v, Some dt => Some (v, dt)
  | _, _ => None
  end.
Proof.
  intros E. unfold gen_load_values_and_dt, load_dt. rewrite E. cbn [try_TypeError].
  destruct (gft_value (gft t 2%nat (txt ",") false 0%nat)) as [v|]; [|reflexivity].
  destruct (splitlines t) as [|l0 [|h ls]]; cbn [nth_error]; try reflexivity.
  destruct (tokens h) as [|k0 [|tok ks]]; cbn [nth_error]; try reflexivity.
Qed.

(** the defaults of the keyword parameters are the ones the model / the harness use *)
Lemma gen_defaults :
  gen_load_signal_default_astype = txt "sig" /\ gen_load_sig_default_m = 1%Q /\
  gen_load_asig_default_load_label = false /\ gen_load_asig_default_m = 1%Q.
Proof. repeat split. Qed.
