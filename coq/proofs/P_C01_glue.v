(** Proofs for C01, existence by gluing: for every record the per-step closed forms [usol]/[vsol], each started from the
    model's own state at the left sample, glue into ONE pair of functions (u, v) that is differentiable at every real t
    (two-sided, also at the sample instants: state and load are continuous there, so left and right derivatives agree)
    and satisfies [P_C01.solves]. Hence the hypothesis of C01_series_exact is never vacuous and the series IS the
    sampled exact solution. Also: the piecewise-linear load [pwload] as one continuous function of t (used by C03). *)
From Coq Require Import Reals Lra Lia List.
From Coquelicot Require Import Coquelicot.
From EQ Require Import lib.Num lib.NpList model.M_sdof gen.Gen_sdof_coeffs model.M_sdof_R proofs.P_C01.
Import ListNotations.
Local Open Scope R_scope.

(** * gluing two functions at a point *)
Lemma glue_derive (f g h : R -> R) (a l d : R) : 0 < d ->
  is_derive f a l -> is_derive g a l -> f a = g a ->
  (forall s, Rabs (s - a) < d -> s <= a -> h s = f s) ->
  (forall s, Rabs (s - a) < d -> a < s -> h s = g s) ->
  is_derive h a l.
Proof.
  intros Hd Hf Hg Hfg Hl Hr.
  apply is_derive_Reals in Hf. apply is_derive_Reals in Hg. apply is_derive_Reals.
  intros eps Heps. destruct (Hf eps Heps) as [d1 H1]. destruct (Hg eps Heps) as [d2 H2].
  assert (Hm : 0 < Rmin d (Rmin d1 d2)).
  { apply Rmin_pos; [exact Hd|]. apply Rmin_pos; [apply d1 | apply d2]. }
  exists (mkposreal _ Hm). intros x Hx0 Hx. cbn [pos] in Hx.
  assert (Hxd : Rabs x < d) by (eapply Rlt_le_trans; [exact Hx | apply Rmin_l]).
  assert (Hx1 : Rabs x < d1) by (eapply Rlt_le_trans; [exact Hx|]; eapply Rle_trans; [apply Rmin_r | apply Rmin_l]).
  assert (Hx2 : Rabs x < d2) by (eapply Rlt_le_trans; [exact Hx|]; eapply Rle_trans; [apply Rmin_r | apply Rmin_r]).
  assert (Ha : h a = f a).
  { apply Hl; [|lra]. replace (a - a) with 0 by ring. rewrite Rabs_R0. exact Hd. }
  assert (Hax : Rabs (a + x - a) < d) by (replace (a + x - a) with x by ring; exact Hxd).
  destruct (Rle_or_lt x 0) as [Hneg|Hpos].
  - rewrite (Hl (a + x) Hax) by lra. rewrite Ha. apply H1; assumption.
  - rewrite (Hr (a + x) Hax) by lra. rewrite Ha, Hfg. apply H2; assumption.
Qed.

Lemma glue_cont (f g h : R -> R) (a d : R) : 0 < d ->
  continuous f a -> continuous g a -> f a = g a ->
  (forall s, Rabs (s - a) < d -> s <= a -> h s = f s) ->
  (forall s, Rabs (s - a) < d -> a < s -> h s = g s) ->
  continuous h a.
Proof.
  intros Hd Hf Hg Hfg Hl Hr.
  apply continuity_pt_filterlim in Hf. apply continuity_pt_filterlim in Hg. apply continuity_pt_filterlim.
  intros eps Heps. destruct (Hf eps Heps) as [d1 [Hd1 H1]]. destruct (Hg eps Heps) as [d2 [Hd2 H2]].
  assert (Ha : h a = f a).
  { apply Hl; [|lra]. replace (a - a) with 0 by ring. rewrite Rabs_R0. exact Hd. }
  exists (Rmin d (Rmin d1 d2)). split; [apply Rmin_pos; [exact Hd | apply Rmin_pos; assumption]|].
  intros x [[_ Hne] Hx]. cbn in Hx, H1, H2 |- *. unfold R_dist in *.
  assert (Hxd : Rabs (x - a) < d) by (eapply Rlt_le_trans; [exact Hx | apply Rmin_l]).
  assert (Hx1 : Rabs (x - a) < d1) by (eapply Rlt_le_trans; [exact Hx|]; eapply Rle_trans; [apply Rmin_r | apply Rmin_l]).
  assert (Hx2 : Rabs (x - a) < d2) by (eapply Rlt_le_trans; [exact Hx|]; eapply Rle_trans; [apply Rmin_r | apply Rmin_r]).
  destruct (Rle_or_lt x a) as [Hle|Hgt].
  - rewrite (Hl x Hxd Hle), Ha. apply H1. split; [split; [exact I | exact Hne] | exact Hx1].
  - rewrite (Hr x Hxd Hgt), Ha, Hfg. apply H2. split; [split; [exact I | exact Hne] | exact Hx2].
Qed.

Lemma is_derive_shift_minus (f : R -> R) c x l : is_derive f (x - c) l -> is_derive (fun y => f (y - c)) x l.
Proof.
  intros Hf. evar_last.
  - apply (is_derive_comp f (fun y => y - c) x l 1); [exact Hf|].
    auto_derive; [exact I | ring].
  - unfold scal; simpl. unfold mult; simpl. ring.
Qed.

(** * the step index of a time: the smallest j with t <= (j+1) dt, capped at k (no floor needed) *)
Fixpoint idx (dt : R) (k : nat) (t : R) : nat :=
  match k with
  | O => O
  | S k' => if Rle_dec t (INR (S k') * dt) then idx dt k' t else S k'
  end.

(** the load of the whole record as one function of time: on step i the linear interpolation between samples i and
    i+1 (before 0 / after the last sample: the first / last segment, extended linearly) *)
Definition pwload (rec : list R) (dt : R) (t : R) : R := load rec dt (idx dt (length rec - 2) t) t.

Section Idx.
Variable dt : R.
Hypothesis Hdt : 0 < dt.

Lemma INR_dt_mono i j : (i <= j)%nat -> INR i * dt <= INR j * dt.
Proof. intros H. apply Rmult_le_compat_r; [lra|]. now apply le_INR. Qed.

Lemma idx_spec k j t : (j <= k)%nat -> (j = 0%nat \/ INR j * dt < t) -> (j = k \/ t <= INR (S j) * dt) -> idx dt k t = j.
Proof.
  revert j. induction k as [|k IH]; intros j Hj H1 H2; [cbn; lia|].
  cbn [idx]. destruct (Rle_dec t (INR (S k) * dt)) as [Hle|Hgt].
  - destruct (Nat.eq_dec j (S k)) as [->|Hne].
    + destruct H1 as [H1|H1]; [lia | lra].
    + apply IH; [lia | exact H1 |]. destruct H2 as [H2|H2]; [lia | right; exact H2].
  - destruct (Nat.eq_dec j (S k)) as [->|Hne]; [reflexivity|].
    destruct H2 as [H2|H2]; [lia|]. exfalso. apply Hgt.
    eapply Rle_trans; [exact H2|]. apply INR_dt_mono. lia.
Qed.

Lemma idx_props k t :
  (idx dt k t <= k)%nat /\ (idx dt k t = 0%nat \/ INR (idx dt k t) * dt < t)
  /\ (idx dt k t = k \/ t <= INR (S (idx dt k t)) * dt).
Proof.
  induction k as [|k (I1 & I2 & I3)]; [cbn; auto|].
  cbn [idx]. destruct (Rle_dec t (INR (S k) * dt)) as [Hle|Hgt].
  - split; [lia|]. split; [exact I2|]. destruct I3 as [I3|I3]; [right; rewrite I3; exact Hle | right; exact I3].
  - split; [lia|]. split; [right; lra | left; reflexivity].
Qed.

(** away from the junction instants the index is locally constant *)
Lemma idx_locally_const k j t : (j <= k)%nat -> (j = 0%nat \/ INR j * dt < t) -> (j = k \/ t < INR (S j) * dt) ->
  exists d, 0 < d /\ forall s, Rabs (s - t) < d -> idx dt k s = j.
Proof.
  intros Hj H1 H2.
  destruct H1 as [H1|H1]; destruct H2 as [H2|H2].
  - exists 1. split; [lra|]. intros s _. apply idx_spec; auto.
  - exists (INR (S j) * dt - t). split; [lra|]. intros s Hs. apply Rabs_def2 in Hs. apply idx_spec; auto. right; lra.
  - exists (t - INR j * dt). split; [lra|]. intros s Hs. apply Rabs_def2 in Hs. apply idx_spec; auto. right; lra.
  - exists (Rmin (t - INR j * dt) (INR (S j) * dt - t)). split; [apply Rmin_pos; lra|]. intros s Hs.
    assert (Ha : Rabs (s - t) < t - INR j * dt) by (eapply Rlt_le_trans; [exact Hs | apply Rmin_l]).
    assert (Hb : Rabs (s - t) < INR (S j) * dt - t) by (eapply Rlt_le_trans; [exact Hs | apply Rmin_r]).
    apply Rabs_def2 in Ha. apply Rabs_def2 in Hb. apply idx_spec; auto; right; lra.
Qed.

(** at a junction instant (j+1) dt, j < k: index j up to and including it, j+1 just after *)
Lemma idx_junction_left k j s : (j < k)%nat -> Rabs (s - INR (S j) * dt) < dt -> s <= INR (S j) * dt -> idx dt k s = j.
Proof.
  intros Hj Hs Hle. apply Rabs_def2 in Hs. rewrite S_INR in Hs. apply idx_spec; [lia | right; lra | right; exact Hle].
Qed.
Lemma idx_junction_right k j s : (j < k)%nat -> Rabs (s - INR (S j) * dt) < dt -> INR (S j) * dt < s -> idx dt k s = S j.
Proof.
  intros Hj Hs Hlt. apply Rabs_def2 in Hs. apply idx_spec; [lia | right; exact Hlt | right].
  rewrite (S_INR (S j)). lra.
Qed.

(** the two segments meeting at a sample agree there *)
Lemma load_right_end (rec : list R) i : load rec dt i (INR (S i) * dt) = gat rec (S i).
Proof. unfold load. rewrite S_INR. field. lra. Qed.
Lemma load_left_end (rec : list R) i : load rec dt i (INR i * dt) = gat rec i.
Proof. unfold load. field. lra. Qed.

Lemma load_cont (rec : list R) i t : continuous (load rec dt i) t.
Proof. apply @ex_derive_continuous. unfold load. auto_derive. exact I. Qed.

(** every t has a step index; t is a junction or not *)
Lemma idx_cases k t : let j := idx dt k t in
  (exists d, 0 < d /\ forall s, Rabs (s - t) < d -> idx dt k s = j) \/ ((j < k)%nat /\ t = INR (S j) * dt).
Proof.
  intros j. destruct (idx_props k t) as (I1 & I2 & I3). fold j in I1, I2, I3.
  destruct I3 as [I3|I3].
  - left. apply idx_locally_const; auto.
  - destruct (Rle_lt_or_eq_dec _ _ I3) as [Hlt|Heq].
    + left. apply idx_locally_const; auto.
    + destruct (Nat.eq_dec j k) as [E|N].
      * left. apply idx_locally_const; auto.
      * right. split; [lia | exact Heq].
Qed.

Lemma pwload_cont (rec : list R) t : continuous (pwload rec dt) t.
Proof.
  unfold pwload. set (k := (length rec - 2)%nat). set (j := idx dt k t).
  pose proof (idx_cases k t) as HC. cbv zeta in HC. fold j in HC. destruct HC as [[d [Hd Hloc]] | [Hj Ht]].
  - apply (continuous_ext_loc _ (load rec dt j)); [| apply load_cont].
    exists (mkposreal d Hd). intros y Hy. rewrite Hloc; [reflexivity|]. exact Hy.
  - apply (glue_cont (load rec dt j) (load rec dt (S j)) _ t dt Hdt); try apply load_cont.
    + rewrite Ht, load_right_end, load_left_end. reflexivity.
    + intros s Hs Hle. rewrite Ht in Hs, Hle. now rewrite (idx_junction_left k j s Hj Hs Hle).
    + intros s Hs Hlt. rewrite Ht in Hs, Hlt. now rewrite (idx_junction_right k j s Hj Hs Hlt).
Qed.

(** on the closed step i the record load is the segment i *)
Lemma pwload_on_step (rec : list R) i t : (S i < length rec)%nat -> INR i * dt <= t <= INR (S i) * dt ->
  pwload rec dt t = load rec dt i t.
Proof.
  intros Hi [Ha Hb]. unfold pwload. set (k := (length rec - 2)%nat). assert (Hik : (i <= k)%nat) by (unfold k; lia).
  destruct (Rle_lt_or_eq_dec _ _ Ha) as [Hlt|Heq].
  - rewrite (idx_spec k i t); [reflexivity | exact Hik | right; exact Hlt | right; exact Hb].
  - destruct i as [|i'].
    + rewrite (idx_spec k 0%nat t); [reflexivity | lia | now left | right; exact Hb].
    + rewrite (idx_spec k i' t); [| lia | | right; lra].
      * rewrite <- Heq, load_right_end, load_left_end. reflexivity.
      * destruct i' as [|i'']; [left; reflexivity | right]. rewrite <- Heq. rewrite (S_INR (S i'')). lra.
Qed.

(** the steps cover [0, (n-1) dt] *)
Lemma step_cover (rec : list R) t : (2 <= length rec)%nat -> 0 <= t <= INR (length rec - 1) * dt ->
  exists i, (S i < length rec)%nat /\ INR i * dt <= t <= INR (S i) * dt.
Proof.
  intros Hn [H0 H1]. set (k := (length rec - 2)%nat). exists (idx dt k t).
  destruct (idx_props k t) as (I1 & I2 & I3). split; [unfold k in *; lia|]. split.
  - destruct I2 as [->|I2]; [cbn [INR]; lra | lra].
  - destruct I3 as [->|I3]; [|exact I3]. replace (S k) with (length rec - 1)%nat by (unfold k; lia). exact H1.
Qed.
End Idx.

(** * the glued solution *)
Section Glue.
Variables xi w dt : R.
Hypothesis Hw : 0 < w.
Hypothesis Hxi0 : 0 <= xi.
Hypothesis Hxi1 : xi < 1.
Hypothesis Hdt : 0 < dt.
Variable rec : list R.

(** the model's own state at sample i *)
Definition st (i : nat) : R * R := nth i (nj_series (nj_coeffs xi w dt) rec) (0, 0).
(** the closed form of step i as a function of absolute time *)
Definition pu (i : nat) (t : R) : R :=
  usol xi w (fst (st i)) (snd (st i)) (gat rec i) ((gat rec (S i) - gat rec i) / dt) (t - INR i * dt).
Definition pv (i : nat) (t : R) : R :=
  vsol xi w (fst (st i)) (snd (st i)) (gat rec i) ((gat rec (S i) - gat rec i) / dt) (t - INR i * dt).
(** glued: at time t use the piece of the step that contains t *)
Definition glued_u (t : R) : R := pu (idx dt (length rec - 2) t) t.
Definition glued_v (t : R) : R := pv (idx dt (length rec - 2) t) t.

Lemma pu_deriv i t : is_derive (pu i) t (pv i t).
Proof. unfold pu, pv. apply (is_derive_shift_minus (usol xi w _ _ _ _)). now apply usol_deriv. Qed.

Lemma pv_deriv i t : is_derive (pv i) t (load rec dt i t - 2 * xi * w * pv i t - w ^ 2 * pu i t).
Proof.
  unfold pu, pv, load. apply (is_derive_shift_minus (vsol xi w _ _ _ _)). now apply vsol_deriv.
Qed.

Lemma p_start i : pu i (INR i * dt) = fst (st i) /\ pv i (INR i * dt) = snd (st i).
Proof.
  unfold pu, pv. replace (INR i * dt - INR i * dt) with 0 by ring.
  split; [now apply usol_0 | now apply vsol_0].
Qed.

(** the piece of step i ends in the model's next state: this is C01_one_step *)
Lemma p_end i : (S i < length rec)%nat -> pu i (INR (S i) * dt) = fst (st (S i)) /\ pv i (INR (S i) * dt) = snd (st (S i)).
Proof.
  intros Hi. unfold pu, pv. replace (INR (S i) * dt - INR i * dt) with dt by (rewrite S_INR; ring).
  assert (E : st (S i) = nj_step (nj_coeffs xi w dt) (st i) (- nth i rec 0) (- nth (S i) rec 0)).
  { unfold st. now rewrite nj_series_S by exact Hi. }
  rewrite E, (one_step xi w dt Hw Hxi0 Hxi1 Hdt). cbn [fst snd]. unfold gat. split; reflexivity.
Qed.

Lemma p_junction i : (S i < length rec)%nat ->
  pu i (INR (S i) * dt) = pu (S i) (INR (S i) * dt) /\ pv i (INR (S i) * dt) = pv (S i) (INR (S i) * dt).
Proof. intros Hi. destruct (p_end i Hi) as [-> ->]. destruct (p_start (S i)) as [-> ->]. split; reflexivity. Qed.

(** differentiable at EVERY real t, with the record load *)
Theorem glued_deriv t :
  is_derive glued_u t (glued_v t) /\
  is_derive glued_v t (pwload rec dt t - 2 * xi * w * glued_v t - w ^ 2 * glued_u t).
Proof.
  unfold glued_u, glued_v, pwload. set (k := (length rec - 2)%nat). set (j := idx dt k t).
  pose proof (idx_cases dt Hdt k t) as HC. cbv zeta in HC. fold j in HC. destruct HC as [[d [Hd Hloc]] | [Hj Ht]].
  - split.
    + apply (is_derive_ext_loc (pu j)); [| apply pu_deriv].
      exists (mkposreal d Hd). intros y Hy. rewrite Hloc; [reflexivity | exact Hy].
    + apply (is_derive_ext_loc (pv j)); [| apply pv_deriv].
      exists (mkposreal d Hd). intros y Hy. rewrite Hloc; [reflexivity | exact Hy].
  - assert (HSj : (S j < length rec)%nat) by (unfold k in Hj; lia).
    destruct (p_junction j HSj) as [Ju Jv]. rewrite <- Ht in Ju, Jv.
    assert (HL : forall s, Rabs (s - t) < dt -> s <= t -> idx dt k s = j).
    { intros s Hs Hle. rewrite Ht in Hs, Hle. exact (idx_junction_left dt Hdt k j s Hj Hs Hle). }
    assert (HR : forall s, Rabs (s - t) < dt -> t < s -> idx dt k s = S j).
    { intros s Hs Hlt. rewrite Ht in Hs, Hlt. exact (idx_junction_right dt Hdt k j s Hj Hs Hlt). }
    split.
    + apply (glue_derive (pu j) (pu (S j)) _ t (pv j t) dt Hdt).
      * apply pu_deriv.
      * rewrite Jv. apply pu_deriv.
      * exact Ju.
      * intros s Hs Hle. now rewrite (HL s Hs Hle).
      * intros s Hs Hlt. now rewrite (HR s Hs Hlt).
    + apply (glue_derive (pv j) (pv (S j)) _ t (load rec dt j t - 2 * xi * w * pv j t - w ^ 2 * pu j t) dt Hdt).
      * apply pv_deriv.
      * rewrite Ju, Jv. replace (load rec dt j t) with (load rec dt (S j) t); [apply pv_deriv|].
        rewrite Ht, (load_right_end dt Hdt), (load_left_end dt Hdt). reflexivity.
      * exact Jv.
      * intros s Hs Hle. now rewrite (HL s Hs Hle).
      * intros s Hs Hlt. now rewrite (HR s Hs Hlt).
Qed.

Lemma st_0 : st 0 = (0, 0).
Proof.
  unfold st. destruct rec as [|x r] eqn:E; [reflexivity|]. apply nj_series_0. discriminate.
Qed.

Lemma glued_0 : glued_u 0 = 0 /\ glued_v 0 = 0.
Proof.
  unfold glued_u, glued_v. rewrite (idx_spec dt Hdt _ 0%nat 0); [| lia | now left |].
  - destruct (p_start 0%nat) as [Pu Pv]. cbn [INR] in Pu, Pv. rewrite Rmult_0_l in Pu, Pv.
    rewrite Pu, Pv, st_0. split; reflexivity.
  - right. cbn [INR]. lra.
Qed.

Theorem glued_solves : solves xi w dt rec glued_u glued_v.
Proof.
  destruct glued_0 as [U0 V0]. split; [exact U0|]. split; [exact V0|].
  intros i Hi t Ht. destruct (glued_deriv t) as [Du Dv]. split; [exact Du|].
  rewrite <- (pwload_on_step dt Hdt rec i t Hi Ht). exact Dv.
Qed.

Theorem solution_exists : exists u v : R -> R, solves xi w dt rec u v.
Proof. exists glued_u, glued_v. exact glued_solves. Qed.

Theorem series_is_the_solution : exists u v : R -> R, solves xi w dt rec u v /\
  forall i, (i < length rec)%nat -> nth i (nj_series (nj_coeffs xi w dt) rec) (0, 0) = (u (INR i * dt), v (INR i * dt)).
Proof.
  exists glued_u, glued_v. split; [exact glued_solves|].
  exact (series_exact xi w dt Hw Hxi0 Hxi1 Hdt rec glued_u glued_v glued_solves).
Qed.
(** every solution is, on each closed step, the piece started from the model's state: so the solution is unique on
    [0, (n-1) dt] and "the exact solution" is well defined *)
Lemma solves_piece (u v : R -> R) : solves xi w dt rec u v ->
  forall i, (S i < length rec)%nat -> forall t, INR i * dt <= t <= INR (S i) * dt -> u t = pu i t /\ v t = pv i t.
Proof.
  intros Hs i Hi t Ht.
  pose proof (series_exact xi w dt Hw Hxi0 Hxi1 Hdt rec u v Hs i ltac:(lia)) as E.
  destruct Hs as (_ & _ & Hode). rewrite S_INR in Ht.
  assert (ES : forall x, INR i * dt <= x <= INR i * dt + dt -> INR i * dt <= x <= INR (S i) * dt)
    by (intros x Hx; rewrite S_INR; lra).
  destruct (forced_unique xi w Hw Hxi0 Hxi1 (INR i * dt) dt (gat rec i) ((gat rec (S i) - gat rec i) / dt) u v)
    with (r := t - INR i * dt) as [H1 H2].
  - lra.
  - intros x Hx. apply (Hode i Hi x). apply ES, Hx.
  - intros x Hx. apply (Hode i Hi x). apply ES, Hx.
  - lra.
  - replace (INR i * dt + (t - INR i * dt)) with t in H1, H2 by ring.
    unfold pu, pv, st. rewrite E. cbn [fst snd]. split; assumption.
Qed.

Theorem solution_unique (u1 v1 u2 v2 : R -> R) : solves xi w dt rec u1 v1 -> solves xi w dt rec u2 v2 ->
  forall t, 0 <= t <= INR (length rec - 1) * dt -> u1 t = u2 t /\ v1 t = v2 t.
Proof.
  intros H1 H2 t Ht. destruct (le_lt_dec 2 (length rec)) as [Hn|Hn].
  - destruct (step_cover dt rec t Hn Ht) as [i [Hi Hit]].
    destruct (solves_piece u1 v1 H1 i Hi t Hit) as [-> ->]. destruct (solves_piece u2 v2 H2 i Hi t Hit) as [-> ->].
    split; reflexivity.
  - replace (length rec - 1)%nat with 0%nat in Ht by lia. cbn [INR] in Ht. assert (t = 0) as -> by lra.
    destruct H1 as (-> & -> & _). destruct H2 as (-> & -> & _). split; reflexivity.
Qed.
End Glue.
