(** Q -> R transfer for model/M_surface.v, model/M_helpers.v, model/M_timestep.v (generic layer)
    (see proofs/P_Transfer.v for the conventions).  For all inputs. *)
From Coq Require Import ZArith QArith Reals List Bool Lia.
From EQ Require Import lib.Num lib.NpList lib.Transfer model.M_displacements model.M_im model.M_surface model.M_helpers
  model.M_timestep proofs.P_Transfer.
Import ListNotations.
Ltac xfer_hook ::= xfer_dispatch hook_a_final.

(** * M_surface *)
Lemma s_ntrunc_transfer x x' : rel x x' -> M_surface.ntrunc x = M_surface.ntrunc x'.
Proof. xfer_def M_surface.ntrunc. Qed.
Ltac hook_m1 h :=
  lazymatch h with
  | @M_surface.ntrunc => apply s_ntrunc_transfer
  | _ => hook_a_final h
  end.
Ltac xfer_hook ::= xfer_dispatch hook_m1.
Lemma s_ofnat_transfer i : rel (M_surface.ofnat i) (M_surface.ofnat i).
Proof. xfer_def M_surface.ofnat. Qed.
Ltac hook_m2 h :=
  lazymatch h with
  | @M_surface.ofnat => apply s_ofnat_transfer
  | _ => hook_m1 h
  end.
Ltac xfer_hook ::= xfer_dispatch hook_m2.
Lemma slice_transfer {A A'} (RA : A -> A' -> Prop) a b l l' : Forall2 RA l l' -> Forall2 RA (slice a b l) (slice a b l').
Proof. xfer_def slice. Qed.
Lemma slice_transfer_L a b l l' : relL l l' -> relL (slice a b l) (slice a b l').
Proof. apply slice_transfer. Qed.
Ltac hook_m3 h :=
  lazymatch h with
  | @slice => apply slice_transfer_L
  | _ => hook_m2 h
  end.
Ltac xfer_hook ::= xfer_dispatch hook_m3.
Lemma interp_grid0_transfer v v' x x' : relL v v' -> rel x x' -> rel (interp_grid0 v x) (interp_grid0 v' x').
Proof. xfer_def interp_grid0. Qed.
Ltac hook_m4 h :=
  lazymatch h with
  | @interp_grid0 => apply interp_grid0_transfer
  | _ => hook_m3 h
  end.
Ltac xfer_hook ::= xfer_dispatch hook_m4.
(** up_red / down_red: scalar or per-travel-time array, the same shape on both sides *)
Inductive relRed : red Q -> red R -> Prop :=
| relRed_s r r' : rel r r' -> relRed (RScalar r) (RScalar r')
| relRed_a l l' : relL l l' -> relRed (RArr l) (RArr l').
Ltac relof_hook A ::= lazymatch A with red Q => constr:(relRed) end.
Lemma red_at_transfer r r' j : relRed r r' -> rel (red_at r j) (red_at r' j).
Proof. intros [|]; cbn [red_at]; xfer. Qed.
Ltac hook_m5 h :=
  lazymatch h with
  | @red_at => apply red_at_transfer
  | _ => hook_m4 h
  end.
Ltac xfer_hook ::= xfer_dispatch hook_m5.
Lemma shifts_of_transfer dt dt' tts tts' : rel dt dt' -> relL tts tts' -> relL (shifts_of dt tts) (shifts_of dt' tts').
Proof. xfer_def shifts_of. Qed.
Ltac hook_m6 h :=
  lazymatch h with
  | @shifts_of => apply shifts_of_transfer
  | _ => hook_m5 h
  end.
Ltac xfer_hook ::= xfer_dispatch hook_m6.
Lemma max_shift_transfer dt dt' tts tts' : rel dt dt' -> relL tts tts' -> max_shift dt tts = max_shift dt' tts'.
Proof. xfer_def max_shift. Qed.
Ltac hook_m7 h :=
  lazymatch h with
  | @max_shift => apply max_shift_transfer
  | _ => hook_m6 h
  end.
Ltac xfer_hook ::= xfer_dispatch hook_m7.
Lemma up_padded_transfer vals vals' m : relL vals vals' -> relL (up_padded vals m) (up_padded vals' m).
Proof. xfer_def up_padded. Qed.
Ltac hook_m8 h :=
  lazymatch h with
  | @up_padded => apply up_padded_transfer
  | _ => hook_m7 h
  end.
Ltac xfer_hook ::= xfer_dispatch hook_m8.
Lemma down_wave_transfer vals vals' len s s' : relL vals vals' -> rel s s' -> relL (down_wave vals len s) (down_wave vals' len s').
Proof. xfer_def down_wave. Qed.
Ltac hook_m9 h :=
  lazymatch h with
  | @down_wave => apply down_wave_transfer
  | _ => hook_m8 h
  end.
Ltac xfer_hook ::= xfer_dispatch hook_m9.
Lemma acc_row_transfer nodal vals vals' m ur ur' dr dr' s s' : relL vals vals' -> rel ur ur' -> rel dr dr' -> rel s s' ->
  relL (acc_row nodal vals m ur dr s) (acc_row nodal vals' m ur' dr' s').
Proof. xfer_def acc_row. Qed.
Ltac hook_m10 h :=
  lazymatch h with
  | @acc_row => apply acc_row_transfer
  | _ => hook_m9 h
  end.
Ltac xfer_hook ::= xfer_dispatch hook_m10.
Lemma map_idx_from_transfer {A A' B B'} (RA : A -> A' -> Prop) (RB : B -> B' -> Prop) (f : nat -> A -> B) (g : nat -> A' -> B')
  j l l' : (forall j a a', RA a a' -> RB (f j a) (g j a')) -> Forall2 RA l l' ->
  Forall2 RB (map_idx_from f j l) (map_idx_from g j l').
Proof. intros Hf HF. revert j. induction HF; intros; cbn [map_idx_from]; constructor; auto. Qed.
Lemma acc_rows_transfer nodal dt dt' vals vals' tts tts' ur ur' dr dr' :
  rel dt dt' -> relL vals vals' -> relL tts tts' -> relRed ur ur' -> relRed dr dr' ->
  relLL (acc_rows nodal dt vals tts ur dr) (acc_rows nodal dt' vals' tts' ur' dr').
Proof. intros. unfold acc_rows. apply (map_idx_from_transfer rel relL); xfer. Qed.
Ltac hook_m11 h :=
  lazymatch h with
  | @acc_rows => apply acc_rows_transfer
  | _ => hook_m10 h
  end.
Ltac xfer_hook ::= xfer_dispatch hook_m11.
Lemma trim_row_transfer npts si row row' : relL row row' -> relL (trim_row npts si row) (trim_row npts si row').
Proof. xfer_def trim_row. Qed.
Ltac hook_m12 h :=
  lazymatch h with
  | @trim_row => apply trim_row_transfer
  | _ => hook_m11 h
  end.
Ltac xfer_hook ::= xfer_dispatch hook_m12.
Lemma trim_to_length_transfer npts sds ss trim start vals vals' : relLL vals vals' ->
  relLL (trim_to_length npts sds ss trim start vals) (trim_to_length npts sds ss trim start vals').
Proof. xfer_def trim_to_length. Qed.
Ltac hook_m13 h :=
  lazymatch h with
  | @trim_to_length => apply trim_to_length_transfer
  | _ => hook_m12 h
  end.
Ltac xfer_hook ::= xfer_dispatch hook_m13.
Lemma depth_shifts_transfer dt dt' tts tts' : rel dt dt' -> relL tts tts' -> depth_shifts dt tts = depth_shifts dt' tts'.
Proof. xfer_def depth_shifts. Qed.
Ltac hook_m14 h :=
  lazymatch h with
  | @depth_shifts => apply depth_shifts_transfer
  | _ => hook_m13 h
  end.
Ltac xfer_hook ::= xfer_dispatch hook_m14.
Lemma start_shift_transfer dt dt' stt stt' : rel dt dt' -> rel stt stt' -> start_shift dt stt = start_shift dt' stt'.
Proof. xfer_def start_shift. Qed.
Ltac hook_m15 h :=
  lazymatch h with
  | @start_shift => apply start_shift_transfer
  | _ => hook_m14 h
  end.
Ltac xfer_hook ::= xfer_dispatch hook_m15.
Lemma energy_rows_transfer nodal dt dt' vals vals' tts tts' ur ur' dr dr' :
  rel dt dt' -> relL vals vals' -> relL tts tts' -> relRed ur ur' -> relRed dr dr' ->
  relLL (energy_rows nodal dt vals tts ur dr) (energy_rows nodal dt' vals' tts' ur' dr').
Proof. xfer_def energy_rows. Qed.
Ltac hook_m16 h :=
  lazymatch h with
  | @energy_rows => apply energy_rows_transfer
  | _ => hook_m15 h
  end.
Ltac xfer_hook ::= xfer_dispatch hook_m16.
Lemma surface_energy_transfer nodal trim start dt dt' vals vals' tts tts' ur ur' dr dr' stt stt' :
  rel dt dt' -> relL vals vals' -> relL tts tts' -> relRed ur ur' -> relRed dr dr' -> rel stt stt' ->
  relLL (surface_energy nodal trim start dt vals tts ur dr stt) (surface_energy nodal trim start dt' vals' tts' ur' dr' stt').
Proof. xfer_def surface_energy. Qed.
Ltac hook_m17 h :=
  lazymatch h with
  | @surface_energy => apply surface_energy_transfer
  | _ => hook_m16 h
  end.
Ltac xfer_hook ::= xfer_dispatch hook_m17.
Lemma cum_abs_row_transfer e e' : relL e e' -> relL (cum_abs_row e) (cum_abs_row e').
Proof. xfer_def cum_abs_row. Qed.
Ltac hook_m18 h :=
  lazymatch h with
  | @cum_abs_row => apply cum_abs_row_transfer
  | _ => hook_m17 h
  end.
Ltac xfer_hook ::= xfer_dispatch hook_m18.
Lemma cum_abs_surface_energy_transfer nodal trim start dt dt' vals vals' tts tts' ur ur' dr dr' stt stt' :
  rel dt dt' -> relL vals vals' -> relL tts tts' -> relRed ur ur' -> relRed dr dr' -> rel stt stt' ->
  relLL (cum_abs_surface_energy nodal trim start dt vals tts ur dr stt)
        (cum_abs_surface_energy nodal trim start dt' vals' tts' ur' dr' stt').
Proof. xfer_def cum_abs_surface_energy. Qed.
Ltac hook_m19 h :=
  lazymatch h with
  | @cum_abs_surface_energy => apply cum_abs_surface_energy_transfer
  | _ => hook_m18 h
  end.
Ltac xfer_hook ::= xfer_dispatch hook_m19.
Lemma time_shift_motions_transfer nodal trim start dt dt' vals vals' tts tts' ur ur' dr dr' stt stt' :
  rel dt dt' -> relL vals vals' -> relL tts tts' -> relRed ur ur' -> relRed dr dr' -> rel stt stt' ->
  relLL (time_shift_motions nodal trim start dt vals tts ur dr stt)
        (time_shift_motions nodal trim start dt' vals' tts' ur' dr' stt').
Proof. xfer_def time_shift_motions. Qed.
Ltac hook_m20 h :=
  lazymatch h with
  | @time_shift_motions => apply time_shift_motions_transfer
  | _ => hook_m19 h
  end.
Ltac xfer_hook ::= xfer_dispatch hook_m20.
Lemma put_row_transfer width off vals vals' : relL vals vals' -> relL (put_row width off vals) (put_row width off vals').
Proof. xfer_def put_row. Qed.
Ltac hook_m21 h :=
  lazymatch h with
  | @put_row => apply put_row_transfer
  | _ => hook_m20 h
  end.
Ltac xfer_hook ::= xfer_dispatch hook_m21.
Lemma put_in_2d_transfer vals vals' shifts clip : relL vals vals' -> relLL (put_in_2d vals shifts clip) (put_in_2d vals' shifts clip).
Proof. xfer_def put_in_2d. Qed.
Ltac hook_m22 h :=
  lazymatch h with
  | @put_in_2d => apply put_in_2d_transfer
  | _ => hook_m21 h
  end.
Ltac xfer_hook ::= xfer_dispatch hook_m22.
Lemma join_w_shifts_transfer add vals vals' shifts : relL vals vals' ->
  relLL (join_w_shifts add vals shifts) (join_w_shifts add vals' shifts).
Proof. xfer_def join_w_shifts. Qed.
Ltac hook_m23 h :=
  lazymatch h with
  | @join_w_shifts => apply join_w_shifts_transfer
  | _ => hook_m22 h
  end.
Ltac xfer_hook ::= xfer_dispatch hook_m23.

(** * M_helpers *)
Lemma h_ofnat_transfer k : rel (M_helpers.ofnat k) (M_helpers.ofnat k).
Proof. xfer_def M_helpers.ofnat. Qed.
Ltac hook_m24 h :=
  lazymatch h with
  | @M_helpers.ofnat => apply h_ofnat_transfer
  | _ => hook_m23 h
  end.
Ltac xfer_hook ::= xfer_dispatch hook_m24.
Lemma h_xat_transfer l l' i : relL l l' -> rel (M_helpers.xat l i) (M_helpers.xat l' i).
Proof. xfer_def M_helpers.xat. Qed.
Ltac hook_m25 h :=
  lazymatch h with
  | @M_helpers.xat => apply h_xat_transfer
  | _ => hook_m24 h
  end.
Ltac xfer_hook ::= xfer_dispatch hook_m25.
Lemma argmin_from_transfer best best' bi i l l' : rel best best' -> relL l l' ->
  argmin_from best bi i l = argmin_from best' bi i l'.
Proof. intros Hb HF. revert best best' bi i Hb. induction HF; intros; cbn [argmin_from]; xfer. Qed.
Ltac hook_m26 h :=
  lazymatch h with
  | @argmin_from => apply argmin_from_transfer
  | _ => hook_m25 h
  end.
Ltac xfer_hook ::= xfer_dispatch hook_m26.
Lemma argmin_transfer l l' : relL l l' -> argmin l = argmin l'.
Proof. xfer_def argmin. Qed.
Ltac hook_m27 h :=
  lazymatch h with
  | @argmin => apply argmin_transfer
  | _ => hook_m26 h
  end.
Ltac xfer_hook ::= xfer_dispatch hook_m27.
Lemma lin_row_transfer s1 s1' s0 s0' f0 f0' f1 f1' : rel s1 s1' -> rel s0 s0' -> relL f0 f0' -> relL f1 f1' ->
  relL (lin_row s1 s0 f0 f1) (lin_row s1' s0' f0' f1').
Proof. xfer_def lin_row. Qed.
Ltac hook_m28 h :=
  lazymatch h with
  | @lin_row => apply lin_row_transfer
  | _ => hook_m27 h
  end.
Ltac xfer_hook ::= xfer_dispatch hook_m28.
Lemma interp2d_row_transfer eps eps' xf xf' f f' x x' : rel eps eps' -> relL xf xf' -> relLL f f' -> rel x x' ->
  relL (interp2d_row eps xf f x) (interp2d_row eps' xf' f' x').
Proof. xfer_def interp2d_row. Qed.
Ltac hook_m29 h :=
  lazymatch h with
  | @interp2d_row => apply interp2d_row_transfer
  | _ => hook_m28 h
  end.
Ltac xfer_hook ::= xfer_dispatch hook_m29.
Lemma interp2d_transfer eps eps' x x' xf xf' f f' : rel eps eps' -> relL x x' -> relL xf xf' -> relLL f f' ->
  relLL (interp2d eps x xf f) (interp2d eps' x' xf' f').
Proof. xfer_def interp2d. Qed.
Ltac hook_m30 h :=
  lazymatch h with
  | @interp2d => apply interp2d_transfer
  | _ => hook_m29 h
  end.
Ltac xfer_hook ::= xfer_dispatch hook_m30.
Lemma ss_right_transfer q q' x x' : rel q q' -> relL x x' -> ss_right q x = ss_right q' x'.
Proof. intros Hq HF. induction HF; cbn [ss_right]; xfer. Qed.
Ltac hook_m31 h :=
  lazymatch h with
  | @ss_right => apply ss_right_transfer
  | _ => hook_m30 h
  end.
Ltac xfer_hook ::= xfer_dispatch hook_m31.
Lemma left_index_transfer x x' q q' : relL x x' -> rel q q' -> left_index x q = left_index x' q'.
Proof. xfer_def left_index. Qed.
Ltac hook_m32 h :=
  lazymatch h with
  | @left_index => apply left_index_transfer
  | _ => hook_m31 h
  end.
Ltac xfer_hook ::= xfer_dispatch hook_m32.
Lemma interp_left_transfer x0 x0' x x' y y' : relL x0 x0' -> relL x x' -> relL y y' ->
  relO relL (interp_left x0 x y) (interp_left x0' x' y').
Proof. xfer_def interp_left. Qed.
Ltac hook_m33 h :=
  lazymatch h with
  | @interp_left => apply interp_left_transfer
  | _ => hook_m32 h
  end.
Ltac xfer_hook ::= xfer_dispatch hook_m33.
Lemma arange_transfer n : relL (arange n) (arange n).
Proof. xfer_def arange. Qed.
Ltac hook_m34 h :=
  lazymatch h with
  | @arange => apply arange_transfer
  | _ => hook_m33 h
  end.
Ltac xfer_hook ::= xfer_dispatch hook_m34.
Lemma interp_left_noy_transfer x0 x0' x x' : relL x0 x0' -> relL x x' ->
  relO relL (interp_left_noy x0 x) (interp_left_noy x0' x').
Proof. xfer_def interp_left_noy. Qed.
Ltac hook_m35 h :=
  lazymatch h with
  | @interp_left_noy => apply interp_left_noy_transfer
  | _ => hook_m34 h
  end.
Ltac xfer_hook ::= xfer_dispatch hook_m35.
Lemma roll_ext_transfer steps m v v' : relL v v' -> relL (roll_ext steps m v) (roll_ext steps m v').
Proof. intros. unfold roll_ext. destruct m; xfer. Qed.
Ltac hook_m36 h :=
  lazymatch h with
  | @roll_ext => apply roll_ext_transfer
  | _ => hook_m35 h
  end.
Ltac xfer_hook ::= xfer_dispatch hook_m36.
Lemma roll_av_transfer steps m v v' : relL v v' -> relL (roll_av steps m v) (roll_av steps m v').
Proof. xfer_def roll_av. Qed.
Ltac hook_m37 h :=
  lazymatch h with
  | @roll_av => apply roll_av_transfer
  | _ => hook_m36 h
  end.
Ltac xfer_hook ::= xfer_dispatch hook_m37.
Lemma npw_transfer x x' e : rel x x' -> rel (npw x e) (npw x' e).
Proof. intros. induction e; cbn [npw]; xfer. Qed.
Ltac hook_m38 h :=
  lazymatch h with
  | @npw => apply npw_transfer
  | _ => hook_m37 h
  end.
Ltac xfer_hook ::= xfer_dispatch hook_m38.
Lemma mean_transfer l l' : relL l l' -> rel (mean l) (mean l').
Proof. xfer_def mean. Qed.
Ltac hook_m39 h :=
  lazymatch h with
  | @mean => apply mean_transfer
  | _ => hook_m38 h
  end.
Ltac xfer_hook ::= xfer_dispatch hook_m39.
Lemma dev_transfer p m m' l l' : rel m m' -> relL l l' -> rel (dev p m l) (dev p m' l').
Proof. xfer_def dev. Qed.
Ltac hook_m40 h :=
  lazymatch h with
  | @dev => apply dev_transfer
  | _ => hook_m39 h
  end.
Ltac xfer_hook ::= xfer_dispatch hook_m40.
Lemma tril_row_transfer n i v v' : relL v v' -> relL (tril_row n i v) (tril_row n i v').
Proof. xfer_def tril_row. Qed.
Lemma triu_row_transfer n i v v' : relL v v' -> relL (triu_row n i v) (triu_row n i v').
Proof. xfer_def triu_row. Qed.
Ltac hook_m41 h :=
  lazymatch h with
  | @tril_row => apply tril_row_transfer
  | @triu_row => apply triu_row_transfer
  | _ => hook_m40 h
  end.
Ltac xfer_hook ::= xfer_dispatch hook_m41.
Lemma side_mean_transfer cnt row row' : relL row row' -> rel (side_mean cnt row) (side_mean cnt row').
Proof. xfer_def side_mean. Qed.
Ltac hook_m42 h :=
  lazymatch h with
  | @side_mean => apply side_mean_transfer
  | _ => hook_m41 h
  end.
Ltac xfer_hook ::= xfer_dispatch hook_m42.
Lemma side_err_transfer p n cnt row row' : relL row row' -> rel (side_err p n cnt row) (side_err p n cnt row').
Proof. xfer_def side_err. Qed.
Ltac hook_m43 h :=
  lazymatch h with
  | @side_err => apply side_err_transfer
  | _ => hook_m42 h
  end.
Ltac xfer_hook ::= xfer_dispatch hook_m43.
Lemma pre_mean_transfer v v' i : relL v v' -> rel (pre_mean v i) (pre_mean v' i).
Proof. xfer_def pre_mean. Qed.
Lemma post_mean_transfer v v' i : relL v v' -> rel (post_mean v i) (post_mean v' i).
Proof. xfer_def post_mean. Qed.
Lemma err_pre_transfer p v v' i : relL v v' -> rel (err_pre p v i) (err_pre p v' i).
Proof. xfer_def err_pre. Qed.
Lemma err_post_transfer p v v' i : relL v v' -> rel (err_post p v i) (err_post p v' i).
Proof. xfer_def err_post. Qed.
Ltac hook_m44 h :=
  lazymatch h with
  | @pre_mean => apply pre_mean_transfer
  | @post_mean => apply post_mean_transfer
  | @err_pre => apply err_pre_transfer
  | @err_post => apply err_post_transfer
  | _ => hook_m43 h
  end.
Ltac xfer_hook ::= xfer_dispatch hook_m44.
Lemma step_err_raw_transfer p v v' : relL v v' -> relL (step_err_raw p v) (step_err_raw p v').
Proof. xfer_def step_err_raw. Qed.
Ltac hook_m45 h :=
  lazymatch h with
  | @step_err_raw => apply step_err_raw_transfer
  | _ => hook_m44 h
  end.
Ltac xfer_hook ::= xfer_dispatch hook_m45.
Lemma step_err_transfer p d v v' : relL v v' -> relL (step_err p d v) (step_err p d v').
Proof. intros. unfold step_err. destruct d; xfer. Qed.
Ltac hook_m46 h :=
  lazymatch h with
  | @step_err => apply step_err_transfer
  | _ => hook_m45 h
  end.
Ltac xfer_hook ::= xfer_dispatch hook_m46.
Lemma step_err_spec_transfer p v v' i : relL v v' -> rel (step_err_spec p v i) (step_err_spec p v' i).
Proof. xfer_def step_err_spec. Qed.
Ltac hook_m47 h :=
  lazymatch h with
  | @step_err_spec => apply step_err_spec_transfer
  | _ => hook_m46 h
  end.
Ltac xfer_hook ::= xfer_dispatch hook_m47.
Lemma step_levels_transfer v v' ind : relL v v' -> relP rel rel (step_levels v ind) (step_levels v' ind).
Proof. xfer_def step_levels. Qed.
Ltac hook_m48 h :=
  lazymatch h with
  | @step_levels => apply step_levels_transfer
  | _ => hook_m47 h
  end.
Ltac xfer_hook ::= xfer_dispatch hook_m48.
Lemma step_levels_auto_transfer v v' : relL v v' -> relP rel rel (step_levels_auto v) (step_levels_auto v').
Proof. xfer_def step_levels_auto. Qed.
Ltac hook_m49 h :=
  lazymatch h with
  | @step_levels_auto => apply step_levels_auto_transfer
  | _ => hook_m48 h
  end.
Ltac xfer_hook ::= xfer_dispatch hook_m49.

(** * M_timestep (generic layer; the binary64 kernel of that file is not an instance of [NumOps]) *)
Lemma t_nceil_transfer x x' : rel x x' -> M_timestep.nceil x = M_timestep.nceil x'.
Proof. xfer_def M_timestep.nceil. Qed.
Ltac hook_m50 h :=
  lazymatch h with
  | @M_timestep.nceil => apply t_nceil_transfer
  | _ => hook_m49 h
  end.
Ltac xfer_hook ::= xfer_dispatch hook_m50.
Lemma t_ntrunc_transfer x x' : rel x x' -> M_timestep.ntrunc x = M_timestep.ntrunc x'.
Proof. xfer_def M_timestep.ntrunc. Qed.
Ltac hook_m51 h :=
  lazymatch h with
  | @M_timestep.ntrunc => apply t_ntrunc_transfer
  | _ => hook_m50 h
  end.
Ltac xfer_hook ::= xfer_dispatch hook_m51.
Lemma factor_kind_transfer dt dt' tg tg' : rel dt dt' -> rel tg tg' -> factor_kind dt tg = factor_kind dt' tg'.
Proof. xfer_def factor_kind. Qed.
Ltac hook_m52 h :=
  lazymatch h with
  | @factor_kind => apply factor_kind_transfer
  | _ => hook_m51 h
  end.
Ltac xfer_hook ::= xfer_dispatch hook_m52.
Lemma fac_val_transfer f : rel (fac_val f) (fac_val f).
Proof. unfold fac_val. destruct f; xfer. Qed.
Ltac hook_m53 h :=
  lazymatch h with
  | @fac_val => apply fac_val_transfer
  | _ => hook_m52 h
  end.
Ltac xfer_hook ::= xfer_dispatch hook_m53.
Lemma factor_transfer dt dt' tg tg' : rel dt dt' -> rel tg tg' -> rel (factor dt tg) (factor dt' tg').
Proof. xfer_def factor. Qed.
Ltac hook_m54 h :=
  lazymatch h with
  | @factor => apply factor_transfer
  | _ => hook_m53 h
  end.
Ltac xfer_hook ::= xfer_dispatch hook_m54.
Lemma np_interp_transfer v v' t t' : relL v v' -> rel t t' -> rel (np_interp v t) (np_interp v' t').
Proof. xfer_def np_interp. Qed.
Ltac hook_m55 h :=
  lazymatch h with
  | @np_interp => apply np_interp_transfer
  | _ => hook_m54 h
  end.
Ltac xfer_hook ::= xfer_dispatch hook_m55.
Lemma npts_raw_transfer k n : rel (npts_raw k n) (npts_raw k n).
Proof. unfold npts_raw. destruct k; xfer. Qed.
Ltac hook_m55b h :=
  lazymatch h with
  | @npts_raw => apply npts_raw_transfer
  | _ => hook_m55 h
  end.
Ltac xfer_hook ::= xfer_dispatch hook_m55b.
Lemma new_npts_transfer even k n : new_npts (T:=Q) even k n = new_npts (T:=R) even k n.
Proof. xfer_def new_npts. Qed.
Ltac hook_m56 h :=
  lazymatch h with
  | @new_npts => apply new_npts_transfer
  | _ => hook_m55b h
  end.
Ltac xfer_hook ::= xfer_dispatch hook_m56.
Lemma interp_at_transfer f f' v v' cnt : rel f f' -> relL v v' -> relL (interp_at f v cnt) (interp_at f' v' cnt).
Proof. xfer_def interp_at. Qed.
Ltac hook_m57 h :=
  lazymatch h with
  | @interp_at => apply interp_at_transfer
  | _ => hook_m56 h
  end.
Ltac xfer_hook ::= xfer_dispatch hook_m57.
Lemma interp_approx_transfer even v v' dt dt' tg tg' : relL v v' -> rel dt dt' -> rel tg tg' ->
  relP relL rel (interp_approx even v dt tg) (interp_approx even v' dt' tg').
Proof. xfer_def interp_approx. Qed.
Ltac hook_m58 h :=
  lazymatch h with
  | @interp_approx => apply interp_approx_transfer
  | _ => hook_m57 h
  end.
Ltac xfer_hook ::= xfer_dispatch hook_m58.
Lemma rs_count_transfer k n : rs_count (T:=Q) k n = rs_count (T:=R) k n.
Proof. xfer_def rs_count. Qed.
Ltac hook_m58b h :=
  lazymatch h with
  | @rs_count => apply rs_count_transfer
  | _ => hook_m58 h
  end.
Ltac xfer_hook ::= xfer_dispatch hook_m58b.
Lemma new_npts_rs_transfer even k n : new_npts_rs (T:=Q) even k n = new_npts_rs (T:=R) even k n.
Proof. xfer_def new_npts_rs. Qed.
Ltac hook_m59 h :=
  lazymatch h with
  | @new_npts_rs => apply new_npts_rs_transfer
  | _ => hook_m58b h
  end.
Ltac xfer_hook ::= xfer_dispatch hook_m59.
(** scipy.signal.resample is an oracle in the model: any pair of oracles that respect [rel] *)
Definition relRS (RS : list Q -> nat -> list Q) (RS' : list R -> nat -> list R) : Prop :=
  forall v v' n, relL v v' -> relL (RS v n) (RS' v' n).
Lemma resample_approx_transfer RS RS' even v v' dt dt' tg tg' : relRS RS RS' -> relL v v' -> rel dt dt' -> rel tg tg' ->
  relP relL rel (resample_approx RS even v dt tg) (resample_approx RS' even v' dt' tg').
Proof. unfold relRS. xfer_def resample_approx. Qed.
Ltac hook_m60 h :=
  lazymatch h with
  | @resample_approx => apply resample_approx_transfer
  | _ => hook_m59 h
  end.
Ltac xfer_hook ::= xfer_dispatch hook_m60.

Lemma relRed_def (r : red Q) (r' : red R) :
  relRed r r' <-> (exists x x', r = RScalar x /\ r' = RScalar x' /\ rel x x') \/
                  (exists l l', r = RArr l /\ r' = RArr l' /\ relL l l').
Proof.
  split.
  - intros [x x' H|l l' H]; [left|right]; eauto 6.
  - intros [(x & x' & -> & -> & H)|(l & l' & -> & -> & H)]; constructor; assumption.
Qed.
Ltac hook_m_final h := hook_m60 h.
