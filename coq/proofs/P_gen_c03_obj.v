(** The generated definitions of gen/Gen_c03_obj.v (re-translated from eqsig/single.py: AccSignal.gen_response_spectrum,
    generate_response_spectrum and the lazy getters s_a / s_v / s_d on every run by translator/py2coq_objlayer.py) are the
    object-level rule of model/M_spectra.v ([min_nonzero_period], [target_dt], and with them [obj_factor]) around the two
    functions the method calls, which stay parameters here: IA = interp_array_to_approx_dt (property C14) and
    PRS = sdof.pseudo_response_spectra (properties C01-C03).
    [obj_step] below is the hand-written model of the method: which periods are used and stored, the target step, when the
    record is refined and with which arguments, which damping is used, what goes to PRS, where the three results are
    stored, the flag.  Proved for every [NumOps] instance in which the int literal 0 coerced to a float is [n0] (and, for
    the getters, [x =? x] holds): no arithmetic law is used. *)
From Coq Require Import String.
From Coq Require Import ZArith QArith Reals List Bool Lia Lra.
From EQ Require Import lib.Num lib.NpList lib.PyRes model.M_sdof model.M_spectra gen.Gen_c03_obj.
Import ListNotations.
Local Open Scope num_scope.

Section Generic.
Context {T : Type} `{NumOps T} {A : Type}.
Variable IA : list T -> T -> T -> bool -> list T * T.
Variable PRS : list T -> T -> list T -> T -> A * A * A.

(** the periods the call works with: the argument if given (it is stored first), else the stored ones *)
Definition periods_of (rt : option (list T)) (st : obj A) : list T :=
  match rt with Some r => r | None => o_response_times A st end.
(** the record and step handed to PRS *)
Definition obj_record (ratio : T) (periods : list T) (st : obj A) : list T * T :=
  let td := target_dt (o_dt A st) ratio periods in
  if td <? o_dt A st then IA (o_values A st) (o_dt A st) td false else (o_values A st, o_dt A st).
Definition obj_step (rt : option (list T)) (xi ratio : T) (st : obj A) : obj A :=
  let periods := periods_of rt st in
  let rc := obj_record ratio periods st in
  let r := PRS (fst rc) (snd rc) periods (if xi =? nofZ (-1) then o_cached_xi A st else xi) in
  mk_obj A (o_values A st) (o_dt A st) periods true (o_cached_xi A st) (fst (fst r)) (snd (fst r)) (snd r).
(** Python raises IndexError on [response_times[0]] of an empty array and on [response_times[1]] of the array [0.] *)
Definition obj_step_res (rt : option (list T)) (xi ratio : T) (st : obj A) : pyres (obj A) :=
  match periods_of rt st with
  | [] => PyRaise IndexError
  | p0 :: ps => if p0 =? n0 then match ps with [] => PyRaise IndexError | _ :: _ => PyOk (obj_step rt xi ratio st) end
                else PyOk (obj_step rt xi ratio st)
  end.

Hypothesis lit0 : nofZ 0 = n0.

Theorem gen_grs_eq (rt : option (list T)) (xi ratio : T) (st : obj A) :
  gen_gen_response_spectrum A IA PRS rt xi ratio st = obj_step_res rt xi ratio st.
Proof.
  unfold gen_gen_response_spectrum, obj_step_res, obj_step, obj_record, periods_of, target_dt, min_nonzero_period.
  rewrite lit0.
  destruct rt as [r|].
  - destruct r as [|p0 [|p1 ps]]; cbn [nth_error hd]; [reflexivity| |].
    + destruct (p0 =? n0); cbn [negb]; [reflexivity|].
      destruct (_ <? _); destruct (xi =? _); reflexivity.
    + destruct (p0 =? n0); cbn [negb]; destruct (_ <? _); destruct (xi =? _); reflexivity.
  - destruct (o_response_times A st) as [|p0 [|p1 ps]]; cbn [nth_error hd]; [reflexivity| |].
    + destruct (p0 =? n0); cbn [negb]; [reflexivity|].
      destruct (_ <? _); destruct (xi =? _); reflexivity.
    + destruct (p0 =? n0); cbn [negb]; destruct (_ <? _); destruct (xi =? _); reflexivity.
Qed.

(** generate_response_spectrum passes its three arguments on by keyword *)
Theorem gen_generate_rs_eq (rt : option (list T)) (xi ratio : T) (st : obj A) :
  gen_generate_response_spectrum A IA PRS rt xi ratio st = gen_gen_response_spectrum A IA PRS rt xi ratio st.
Proof. reflexivity. Qed.

(** the lazy getters: the stored value when the flag is set, else generate_response_spectrum() with the defaults of its
    signature (response_times=None, xi=-1, min_dt_ratio=4), then the stored value *)
Hypothesis eqb_refl : forall x : T, x =? x = true.
Definition lazy_get (proj : obj A -> A) (st : obj A) : pyres (obj A * A) :=
  if o_cached_rs A st then PyOk (st, proj st)
  else match obj_step_res None (nofZ (-1)) (nofZ 4) st with
       | PyOk st' => PyOk (st', proj st')
       | PyRaise e => PyRaise e
       end.
Ltac getter :=
  intros st; unfold lazy_get, obj_step_res, obj_step, obj_record, periods_of, target_dt, min_nonzero_period;
  rewrite eqb_refl; destruct st as [vals dt rts cached cxi sd sv sa]; cbn [o_values o_dt o_response_times o_cached_rs o_cached_xi o_s_d o_s_v o_s_a];
  rewrite lit0; destruct cached; [reflexivity|];
  destruct rts as [|p0 [|p1 ps]]; cbn [nth_error hd]; [reflexivity| |];
  (destruct (p0 =? n0); cbn [negb]; [try reflexivity|]); try (destruct (_ <? _); reflexivity).
Theorem gen_s_a_eq : forall st : obj A, gen_s_a A IA PRS st = lazy_get (o_s_a A) st.
Proof. unfold gen_s_a. getter. Qed.
Theorem gen_s_v_eq : forall st : obj A, gen_s_v A IA PRS st = lazy_get (o_s_v A) st.
Proof. unfold gen_s_v. getter. Qed.
Theorem gen_s_d_eq : forall st : obj A, gen_s_d A IA PRS st = lazy_get (o_s_d A) st.
Proof. unfold gen_s_d. getter. Qed.
End Generic.

(** the refinement factor of the model and the branch of the source: [obj_factor] is 1 exactly on the branch that hands the
    raw record to PRS, and the ceiling of dt / target_dt on the branch that calls interp_array_to_approx_dt with that target *)
Lemma obj_factor_branch {T} `{NumOps T} (dt ratio : T) (periods : list T) :
  obj_factor dt ratio periods = if target_dt dt ratio periods <? dt then nceil (dt / target_dt dt ratio periods) else 1%Z.
Proof. reflexivity. Qed.

Lemma Reqb_refl (x : R) : Reqb x x = true.
Proof. now apply Reqb_true. Qed.

Lemma gen_c03_obj_defaults :
  gen_gen_response_spectrum_default_response_times_is_none = true /\ gen_gen_response_spectrum_default_xi = (-1)%Z /\
  gen_gen_response_spectrum_default_min_dt_ratio = 4%Z /\
  gen_generate_response_spectrum_default_response_times_is_none = true /\ gen_generate_response_spectrum_default_xi = (-1)%Z /\
  gen_generate_response_spectrum_default_min_dt_ratio = 4%Z.
Proof. repeat split; reflexivity. Qed.

(** ** the statements of Prop_C03, at R, spelled out *)
Local Open Scope R_scope.
Section AtR.
Context {A : Type}.
Variable IA : list R -> R -> R -> bool -> list R * R.
Variable PRS : list R -> R -> list R -> R -> A * A * A.
Let lit0R : @nofZ R NumR 0 = @n0 R NumR := eq_refl.

Theorem gen_grs_ok_R (rt : option (list R)) (xi ratio : R) (st : obj A) :
  let periods := match rt with Some r => r | None => o_response_times A st end in
  let td := target_dt (o_dt A st) ratio periods in
  let rc := if Rltb td (o_dt A st) then IA (o_values A st) (o_dt A st) td false else (o_values A st, o_dt A st) in
  let r := PRS (fst rc) (snd rc) periods (if Reqb xi (-1) then o_cached_xi A st else xi) in
  periods <> [] -> (hd 0 periods = 0 -> (2 <= length periods)%nat) ->
  gen_gen_response_spectrum A IA PRS rt xi ratio st
  = PyOk (mk_obj A (o_values A st) (o_dt A st) periods true (o_cached_xi A st) (fst (fst r)) (snd (fst r)) (snd r)).
Proof.
  intros periods td rc r Hne Hz. rewrite (@gen_grs_eq R NumR A IA PRS lit0R). unfold obj_step_res.
  change (periods_of rt st) with periods. destruct periods as [|p0 ps] eqn:E; [congruence|].
  assert (Hstep : obj_step IA PRS rt xi ratio st
                  = mk_obj A (o_values A st) (o_dt A st) (p0 :: ps) true (o_cached_xi A st) (fst (fst r)) (snd (fst r)) (snd r)).
  { unfold obj_step, obj_record. change (periods_of rt st) with periods. rewrite E. reflexivity. }
  numR. case_Reqb p0 0.
  - destruct ps as [|p1 ps]; [cbn in Hz; specialize (Hz Heq); lia|]. now rewrite Hstep.
  - now rewrite Hstep.
Qed.
Theorem gen_grs_raises_R (rt : option (list R)) (xi ratio : R) (st : obj A) :
  let periods := match rt with Some r => r | None => o_response_times A st end in
  periods = [] \/ periods = [0] -> gen_gen_response_spectrum A IA PRS rt xi ratio st = PyRaise IndexError.
Proof.
  intros periods Hp. rewrite (@gen_grs_eq R NumR A IA PRS lit0R). unfold obj_step_res. change (periods_of rt st) with periods.
  destruct Hp as [-> | ->]; [reflexivity|]. numR. now rewrite Reqb_refl.
Qed.
Definition lazy_get_R (proj : obj A -> A) (st : obj A) : pyres (obj A * A) :=
  if o_cached_rs A st then PyOk (st, proj st)
  else match gen_gen_response_spectrum A IA PRS None (-1) 4 st with
       | PyOk st' => PyOk (st', proj st')
       | PyRaise e => PyRaise e
       end.
Theorem gen_lazy_spectra_R (st : obj A) :
  gen_s_a A IA PRS st = lazy_get_R (o_s_a A) st /\ gen_s_v A IA PRS st = lazy_get_R (o_s_v A) st /\
  gen_s_d A IA PRS st = lazy_get_R (o_s_d A) st.
Proof.
  unfold lazy_get_R. rewrite (@gen_grs_eq R NumR A IA PRS lit0R).
  repeat split; [apply (@gen_s_a_eq R NumR A IA PRS lit0R Reqb_refl) | apply (@gen_s_v_eq R NumR A IA PRS lit0R Reqb_refl)
                | apply (@gen_s_d_eq R NumR A IA PRS lit0R Reqb_refl)].
Qed.
End AtR.
