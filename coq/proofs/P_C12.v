(** Proofs for C12 (zero crossings, switched peaks) at T := R. *)
From Coq Require Import ZArith Reals List Bool Lra Lia.
From EQ Require Import lib.Num lib.NpList lib.Where model.M_peaks proofs.P_C11.
Import ListNotations.
Local Open Scope R_scope.

(** subsequence relation *)
Inductive subl {A} : list A -> list A -> Prop :=
| subl_nil l : subl [] l
| subl_keep x a b : subl a b -> subl (x :: a) (x :: b)
| subl_skip x a b : subl a b -> subl a (x :: b).
Lemma subl_refl {A} (l : list A) : subl l l.
Proof. induction l; constructor; auto. Qed.
Lemma subl_In {A} (a b : list A) x : subl a b -> In x a -> In x b.
Proof. induction 1; intros Hx; [destruct Hx| destruct Hx as [<-|Hx]; [now left|right; auto] | right; auto]. Qed.
Lemma subl_trans {A} (a b c : list A) : subl a b -> subl b c -> subl a c.
Proof.
  intros Hab Hbc; revert a Hab; induction Hbc as [l|x b c Hbc IH|x b c Hbc IH]; intros a Hab.
  - inversion Hab; constructor.
  - inversion Hab; subst; [constructor | constructor; auto | apply subl_skip; auto].
  - apply subl_skip; auto.
Qed.
Lemma subl_ascending (a b : list nat) : subl a b -> ascending b -> ascending a.
Proof.
  induction 1 as [l|x a b Hab IH|x a b Hab IH]; intros Hb; [constructor| |].
  - inversion Hb as [|? ? Hlt Hasc]; subst. constructor; auto. intros j Hj. apply Hlt. eapply subl_In; eauto.
  - inversion Hb; subst. auto.
Qed.

(** ** zero crossings at zero tolerance: exact membership characterisation *)
Definition sign_change (a b : R) : Prop := (a < 0 /\ 0 < b) \/ (0 < a /\ b < 0).
Lemma mul_neg_iff a b : a * b < 0 <-> sign_change b a.
Proof. unfold sign_change. split; [intros H|intros [[? ?]|[? ?]]; nra].
  destruct (Rtotal_order a 0) as [Ha|[Ha|Ha]], (Rtotal_order b 0) as [Hb|[Hb|Hb]]; try (subst; nra); try nra; auto. Qed.
Lemma zc_test_spec keep (xs : list R) i : zc_test keep xs i = true <->
  i = 0%nat \/ exists i', i = S i' /\
     ((xat xs i = 0 /\ (keep = true \/ xat xs i' <> 0)) \/ sign_change (xat xs i') (xat xs i)).
Proof.
  destruct i as [|i']; cbn [zc_test]; [intuition|].
  rewrite orb_true_iff, andb_true_iff, orb_true_iff, negb_true_iff.
  change (neqb (xat xs (S i')) n0) with (Reqb (xat xs (S i')) 0). change (neqb (xat xs i') n0) with (Reqb (xat xs i') 0).
  change (nltb (nmul (xat xs (S i')) (xat xs i')) n0) with (Rltb (xat xs (S i') * xat xs i') 0).
  rewrite Reqb_true, Reqb_false, Rltb_true, mul_neg_iff. split.
  - intros Hd. right. exists i'. split; auto.
  - intros [H0|(j & E & Hd)]; [discriminate|]. inversion E; subst. exact Hd.
Qed.
Lemma C12_zc_exact keep (xs : list R) i : xs <> [] ->
  (In i (zero_crossings keep 0 xs) <-> (i < length xs)%nat /\ zc_test keep xs i = true).
Proof.
  intros Hne. unfold zero_crossings. destruct xs as [|x r]; [congruence|].
  change (nltb n0 0) with (Rltb 0 0). replace (Rltb 0 0) with false by (symmetry; apply Rltb_false; lra).
  unfold zc0. apply filter_seq_In.
Qed.
Lemma C12_zc_ascending keep (xs : list R) : ascending (zero_crossings keep 0 xs).
Proof.
  unfold zero_crossings. destruct xs as [|x r]; [constructor; [intros ? []|constructor]|].
  change (nltb n0 0) with (Rltb 0 0). replace (Rltb 0 0) with false by (symmetry; apply Rltb_false; lra).
  apply filter_seq_ascending.
Qed.
Lemma C12_zc_starts_at_0 keep (xs : list R) : hd 1%nat (zero_crossings keep 0 xs) = 0%nat.
Proof.
  unfold zero_crossings. destruct xs as [|x r]; [reflexivity|].
  change (nltb n0 0) with (Rltb 0 0). replace (Rltb 0 0) with false by (symmetry; apply Rltb_false; lra).
  reflexivity.
Qed.

(** ** positive tolerance only prunes *)
Lemma zc_prune_subl fuel tol (xs : list R) l : subl (zc_prune fuel tol xs l) l.
Proof.
  revert l; induction fuel as [|f IH]; intros l; cbn [zc_prune]; [apply subl_refl|].
  destruct l as [|a [|b r]]; try apply subl_refl.
  destruct (nltb _ tol).
  - apply subl_skip, subl_skip, IH.
  - apply subl_keep, IH.
Qed.
Lemma C12_zc_tol_subsequence keep tol (xs : list R) : 0 <= tol -> subl (zero_crossings keep tol xs) (zero_crossings keep 0 xs).
Proof.
  intros Htol. unfold zero_crossings. destruct xs as [|x r]; [apply subl_refl|].
  change (nltb n0 0) with (Rltb 0 0). replace (Rltb 0 0) with false by (symmetry; apply Rltb_false; lra).
  destruct (nltb n0 tol); [apply zc_prune_subl|apply subl_refl].
Qed.

(** ** switched peaks are a subsequence of the C11 peak list (hence strictly ascending, all are reported turning/end points) *)
Lemma sp_loop_subl tol (xs : list R) last bestv besti ps out :
  exists L, sp_loop tol xs last bestv besti ps out = rev out ++ L /\ subl L (besti :: ps) /\ L <> [].
Proof.
  revert last bestv besti out; induction ps as [|p r IH]; intros last bestv besti out; cbn [sp_loop].
  - exists [besti]. split; [reflexivity|]. split; [apply subl_refl|discriminate].
  - destruct (nleb _ n0).
    + destruct (IH (xat xs p) (nabs (xat xs p)) p (besti :: out)) as (L & E & HL & _).
      exists (besti :: L). split; [rewrite E; cbn [rev]; now rewrite <- app_assoc|]. split; [now apply subl_keep|discriminate].
    + destruct (_ && _).
      * destruct (IH last (nabs (xat xs p)) p out) as (L & E & HL & Hne). exists L. split; [exact E|]. split; [now apply subl_skip|exact Hne].
      * destruct (IH last bestv besti out) as (L & E & HL & Hne). exists L. split; [exact E|]. split; [|exact Hne].
        inversion HL; subst; [congruence| apply subl_keep, subl_skip; auto | apply subl_skip, subl_skip; auto].
Qed.
Lemma C12_sp_subsequence_of_peaks tol (xs : list R) : subl (switched_peaks tol xs) (peaks xs).
Proof.
  unfold switched_peaks, switched_peaks_of. destruct (peaks xs) as [|p0 r]; [constructor|].
  destruct (sp_loop_subl tol xs (xat xs p0) (nabs (xat xs p0)) p0 r []) as (L & -> & HL & _). exact HL.
Qed.
Lemma C12_sp_ascending tol (xs : list R) : ascending (switched_peaks tol xs).
Proof. eapply subl_ascending; [apply C12_sp_subsequence_of_peaks|apply C11_ascending]. Qed.
