(** Proofs for C12 (zero crossings, switched peaks) at T := R. *)
From Coq Require Import ZArith Reals List Bool Lra Lia.
From EQ Require Import lib.Num lib.NpList lib.Where model.M_peaks proofs.P_C11.
Import ListNotations.
Local Open Scope R_scope.

(** subsequence relation *)
Inductive subl {A} : list A -> list A -> Prop :=
| subl_nil l : subl [] l
| subl_keep x a b : subl a b -> subl (x :: a) (x :: b)
| subl_skip x a b : subl a b -> subl a (x :: b).
Lemma subl_refl {A} (l : list A) : subl l l.
Proof. induction l; constructor; auto. Qed.
Lemma subl_In {A} (a b : list A) x : subl a b -> In x a -> In x b.
Proof. induction 1; intros Hx; [destruct Hx| destruct Hx as [<-|Hx]; [now left|right; auto] | right; auto]. Qed.
Lemma subl_trans {A} (a b c : list A) : subl a b -> subl b c -> subl a c.
Proof.
  intros Hab Hbc; revert a Hab; induction Hbc as [l|x b c Hbc IH|x b c Hbc IH]; intros a Hab.
  - inversion Hab; constructor.
  - inversion Hab; subst; [constructor | constructor; auto | apply subl_skip; auto].
  - apply subl_skip; auto.
Qed.
Lemma subl_ascending (a b : list nat) : subl a b -> ascending b -> ascending a.
Proof.
  induction 1 as [l|x a b Hab IH|x a b Hab IH]; intros Hb; [constructor| |].
  - inversion Hb as [|? ? Hlt Hasc]; subst. constructor; auto. intros j Hj. apply Hlt. eapply subl_In; eauto.
  - inversion Hb; subst. auto.
Qed.

(** ** zero crossings at zero tolerance: exact membership characterisation *)
Definition sign_change (a b : R) : Prop := (a < 0 /\ 0 < b) \/ (0 < a /\ b < 0).
Lemma mul_neg_iff a b : a * b < 0 <-> sign_change b a.
Proof. unfold sign_change. split; [intros H|intros [[? ?]|[? ?]]; nra].
  destruct (Rtotal_order a 0) as [Ha|[Ha|Ha]], (Rtotal_order b 0) as [Hb|[Hb|Hb]]; try (subst; nra); try nra; auto. Qed.
Lemma zc_test_spec keep (xs : list R) i : zc_test keep xs i = true <->
  i = 0%nat \/ exists i', i = S i' /\
     ((xat xs i = 0 /\ (keep = true \/ xat xs i' <> 0)) \/ sign_change (xat xs i') (xat xs i)).
Proof.
  destruct i as [|i']; cbn [zc_test]; [intuition|].
  rewrite orb_true_iff, andb_true_iff, orb_true_iff, negb_true_iff.
  change (neqb (xat xs (S i')) n0) with (Reqb (xat xs (S i')) 0). change (neqb (xat xs i') n0) with (Reqb (xat xs i') 0).
  change (nltb (nmul (xat xs (S i')) (xat xs i')) n0) with (Rltb (xat xs (S i') * xat xs i') 0).
  rewrite Reqb_true, Reqb_false, Rltb_true, mul_neg_iff. split.
  - intros Hd. right. exists i'. split; auto.
  - intros [H0|(j & E & Hd)]; [discriminate|]. inversion E; subst. exact Hd.
Qed.
Lemma C12_zc_exact keep (xs : list R) i : xs <> [] ->
  (In i (zero_crossings keep 0 xs) <-> (i < length xs)%nat /\ zc_test keep xs i = true).
Proof.
  intros Hne. unfold zero_crossings. destruct xs as [|x r]; [congruence|].
  change (nltb n0 0) with (Rltb 0 0). replace (Rltb 0 0) with false by (symmetry; apply Rltb_false; lra).
  unfold zc0. apply filter_seq_In.
Qed.
Lemma C12_zc_ascending keep (xs : list R) : ascending (zero_crossings keep 0 xs).
Proof.
  unfold zero_crossings. destruct xs as [|x r]; [constructor; [intros ? []|constructor]|].
  change (nltb n0 0) with (Rltb 0 0). replace (Rltb 0 0) with false by (symmetry; apply Rltb_false; lra).
  apply filter_seq_ascending.
Qed.
Lemma C12_zc_starts_at_0 keep (xs : list R) : hd 1%nat (zero_crossings keep 0 xs) = 0%nat.
Proof.
  unfold zero_crossings. destruct xs as [|x r]; [reflexivity|].
  change (nltb n0 0) with (Rltb 0 0). replace (Rltb 0 0) with false by (symmetry; apply Rltb_false; lra).
  reflexivity.
Qed.

(** ** positive tolerance only prunes *)
Lemma zc_prune_subl fuel tol (xs : list R) l : subl (zc_prune fuel tol xs l) l.
Proof.
  revert l; induction fuel as [|f IH]; intros l; cbn [zc_prune]; [apply subl_refl|].
  destruct l as [|a [|b r]]; try apply subl_refl.
  destruct (nltb _ tol).
  - apply subl_skip, subl_skip, IH.
  - apply subl_keep, IH.
Qed.
Lemma C12_zc_tol_subsequence keep tol (xs : list R) : 0 <= tol -> subl (zero_crossings keep tol xs) (zero_crossings keep 0 xs).
Proof.
  intros Htol. unfold zero_crossings. destruct xs as [|x r]; [apply subl_refl|].
  change (nltb n0 0) with (Rltb 0 0). replace (Rltb 0 0) with false by (symmetry; apply Rltb_false; lra).
  destruct (nltb n0 tol); [apply zc_prune_subl|apply subl_refl].
Qed.

(** ** switched peaks are a subsequence of the C11 peak list (hence strictly ascending, all are reported turning/end points) *)
Lemma sp_loop_subl tol (xs : list R) last bestv besti ps out :
  exists L, sp_loop tol xs last bestv besti ps out = rev out ++ L /\ subl L (besti :: ps) /\ L <> [].
Proof.
  revert last bestv besti out; induction ps as [|p r IH]; intros last bestv besti out; cbn [sp_loop].
  - exists [besti]. split; [reflexivity|]. split; [apply subl_refl|discriminate].
  - destruct (nleb _ n0).
    + destruct (IH (xat xs p) (nabs (xat xs p)) p (besti :: out)) as (L & E & HL & _).
      exists (besti :: L). split; [rewrite E; cbn [rev]; now rewrite <- app_assoc|]. split; [now apply subl_keep|discriminate].
    + destruct (_ && _).
      * destruct (IH last (nabs (xat xs p)) p out) as (L & E & HL & Hne). exists L. split; [exact E|]. split; [now apply subl_skip|exact Hne].
      * destruct (IH last bestv besti out) as (L & E & HL & Hne). exists L. split; [exact E|]. split; [|exact Hne].
        inversion HL; subst; [congruence| apply subl_keep, subl_skip; auto | apply subl_skip, subl_skip; auto].
Qed.
Lemma C12_sp_subsequence_of_peaks tol (xs : list R) : subl (switched_peaks tol xs) (peaks xs).
Proof.
  unfold switched_peaks, switched_peaks_of. destruct (peaks xs) as [|p0 r]; [constructor|].
  destruct (sp_loop_subl tol xs (xat xs p0) (nabs (xat xs p0)) p0 r []) as (L & -> & HL & _). exact HL.
Qed.
Lemma C12_sp_ascending tol (xs : list R) : ascending (switched_peaks tol xs).
Proof. eapply subl_ascending; [apply C12_sp_subsequence_of_peaks|apply C11_ascending]. Qed.

(** * Deepening: the switched-peak loop at zero tolerance, excursion by excursion; positive tolerance by simulation *)
(** ** the switched-peak loop without accumulator *)
Fixpoint spl (tol : R) (xs : list R) (lst bestv : R) (besti : nat) (ps : list nat) : list nat :=
  match ps with
  | [] => [besti]
  | p :: r =>
    let v := xat xs p in
    if nleb (nmul (nadd v (nmul tol (nsign lst))) lst) n0
    then besti :: spl tol xs v (nabs v) p r
    else if (nltb n0 (nmul v lst)) && (nltb bestv (nabs v)) then spl tol xs lst (nabs v) p r
         else spl tol xs lst bestv besti r
  end.
Lemma sp_loop_spl tol (xs : list R) lst bv bi ps out : sp_loop tol xs lst bv bi ps out = rev out ++ spl tol xs lst bv bi ps.
Proof.
  revert lst bv bi out; induction ps as [|p r IH]; intros lst bv bi out; cbn [sp_loop spl]; [reflexivity|].
  destruct (nleb _ n0).
  - rewrite IH. cbn [rev]. now rewrite <- app_assoc.
  - destruct (_ && _); apply IH.
Qed.
Lemma switched_peaks_spl tol (xs : list R) :
  switched_peaks tol xs = match peaks xs with [] => [] | p0 :: r => spl tol xs (xat xs p0) (Rabs (xat xs p0)) p0 r end.
Proof. unfold switched_peaks, switched_peaks_of. destruct (peaks xs) as [|p0 r]; [reflexivity|]. now rewrite sp_loop_spl. Qed.

Lemma nsign_pos x : 0 < x -> nsign x = 1.
Proof. intros H. unfold nsign. numR. case_Rltb 0 x; [reflexivity|lra]. Qed.
Lemma nsign_neg x : x < 0 -> nsign x = -1.
Proof. intros H. unfold nsign. numR. case_Rltb 0 x; [lra|]. case_Rltb x 0; [lra|lra]. Qed.
Lemma nsign_0 : nsign 0 = 0.
Proof. unfold nsign. numR. case_Rltb 0 0; [lra|]. case_Rltb 0 0; [lra|reflexivity]. Qed.

(** the condition that opens a new half cycle *)
Definition swc (tol lst v : R) : Prop := (v + tol * nsign lst) * lst <= 0.
Lemma swc_cases tol lst v : swc tol lst v <-> lst = 0 \/ (0 < lst /\ v <= - tol) \/ (lst < 0 /\ tol <= v).
Proof.
  unfold swc. destruct (Rtotal_order lst 0) as [Hl|[Hl|Hl]].
  - rewrite (nsign_neg _ Hl). split; [intros H; right; right; split; [lra|nra]|intros [?|[[? ?]|[? ?]]]; [lra|lra|nra]].
  - subst. rewrite nsign_0. split; [auto|intros _; lra].
  - rewrite (nsign_pos _ Hl). split; [intros H; right; left; split; [lra|nra]|intros [?|[[? ?]|[? ?]]]; [lra|nra|lra]].
Qed.
Lemma swc_0 lst v : swc 0 lst v <-> v * lst <= 0.
Proof. unfold swc. replace ((v + 0 * nsign lst) * lst) with (v * lst) by ring. reflexivity. Qed.

Lemma spl_cons tol (xs : list R) lst bv bi p r :
  (swc tol lst (xat xs p) /\ spl tol xs lst bv bi (p :: r) = bi :: spl tol xs (xat xs p) (Rabs (xat xs p)) p r) \/
  (~ swc tol lst (xat xs p) /\ 0 < xat xs p * lst /\ bv < Rabs (xat xs p) /\
     spl tol xs lst bv bi (p :: r) = spl tol xs lst (Rabs (xat xs p)) p r) \/
  (~ swc tol lst (xat xs p) /\ ~ (0 < xat xs p * lst /\ bv < Rabs (xat xs p)) /\
     spl tol xs lst bv bi (p :: r) = spl tol xs lst bv bi r).
Proof.
  cbn [spl]. unfold swc. numR.
  case_Rleb ((xat xs p + tol * nsign lst) * lst) 0; [left; auto|right].
  case_Rltb 0 (xat xs p * lst); cbn [andb].
  - case_Rltb bv (Rabs (xat xs p)); [left|right]; repeat split; auto; lra.
  - right. repeat split; auto; lra.
Qed.

(** same strict sign (or both zero) *)
Definition ssame (a b : R) : Prop := (a = 0 /\ b = 0) \/ (0 < a /\ 0 < b) \/ (a < 0 /\ b < 0).
Lemma ssame_refl a : ssame a a.
Proof. unfold ssame. destruct (Rtotal_order a 0) as [?|[?|?]]; auto. Qed.
Lemma ssame_of_pos a b : 0 < b * a -> ssame a b.
Proof. unfold ssame. intros H. destruct (Rtotal_order a 0) as [?|[?|?]]; [right; right; split; nra|subst; lra|right; left; split; nra]. Qed.
Lemma ssame_mul_le a b c : ssame a b -> c * b <= 0 -> c * a <= 0.
Proof. intros [[-> ->]|[[Ha Hb]|[Ha Hb]]] Hc; nra. Qed.

(** within a run of peaks of the sign of the half cycle, the loop keeps the first peak of largest |value| *)
Lemma spl0_block (xs : list R) mid : forall lst bi rest, ascending (bi :: mid) ->
  (forall p, In p mid -> 0 < xat xs p * lst) ->
  match rest with [] => True | q :: _ => xat xs q * lst <= 0 end ->
  exists m, In m (bi :: mid) /\ (forall p, In p (bi :: mid) -> Rabs (xat xs p) <= Rabs (xat xs m)) /\
    (forall p, In p (bi :: mid) -> (p < m)%nat -> Rabs (xat xs p) < Rabs (xat xs m)) /\
    spl 0 xs lst (Rabs (xat xs bi)) bi (mid ++ rest) =
      m :: match rest with [] => [] | q :: rest' => spl 0 xs (xat xs q) (Rabs (xat xs q)) q rest' end.
Proof.
  induction mid as [|p mid' IH]; intros lst bi rest Hasc Hmid Hrest.
  - exists bi. split; [now left|]. split; [intros p [<-|[]]; lra|]. split; [intros p [<-|[]] Hlt; lia|].
    cbn [app]. destruct rest as [|q rest']; [reflexivity|].
    destruct (spl_cons 0 xs lst (Rabs (xat xs bi)) bi q rest') as [[_ E]|[[Hn _]|[Hn _]]]; [exact E| |]; exfalso; apply Hn, (proj2 (swc_0 _ _)), Hrest.
  - assert (Hp : 0 < xat xs p * lst) by (apply Hmid; now left).
    assert (Hmid' : forall p0, In p0 mid' -> 0 < xat xs p0 * lst) by (intros; apply Hmid; now right).
    inversion Hasc as [|? ? Hlt1 Hasc1]; subst. inversion Hasc1 as [|? ? Hlt2 Hasc2]; subst.
    assert (Hbp : (bi < p)%nat) by (apply Hlt1; now left).
    cbn [app]. destruct (spl_cons 0 xs lst (Rabs (xat xs bi)) bi p (mid' ++ rest)) as [[Hs _]|[(_ & _ & Hlt & E)|(_ & Hn & E)]].
    + apply (proj1 (swc_0 _ _)) in Hs. lra.
    + destruct (IH lst p rest Hasc1 Hmid' Hrest) as (m & Hm & Hdom & Hfst & E'). exists m. split; [right; exact Hm|].
      assert (Hpm : Rabs (xat xs p) <= Rabs (xat xs m)) by (apply Hdom; now left).
      split; [|split; [|now rewrite E]].
      * intros p0 [<-|Hp0]; [lra|now apply Hdom].
      * intros p0 [<-|Hp0] Hp0m; [lra|now apply Hfst].
    + assert (Hle : Rabs (xat xs p) <= Rabs (xat xs bi)).
      { destruct (Rle_lt_dec (Rabs (xat xs p)) (Rabs (xat xs bi))) as [Hle|Hgt]; [exact Hle|exfalso; apply Hn; split; assumption]. }
      assert (Hasc' : ascending (bi :: mid')) by (constructor; [intros j Hj; apply Hlt1; now right|exact Hasc2]).
      destruct (IH lst bi rest Hasc' Hmid' Hrest) as (m & Hm & Hdom & Hfst & E'). exists m.
      assert (Hbm : Rabs (xat xs bi) <= Rabs (xat xs m)) by (apply Hdom; now left).
      split; [destruct Hm as [<-|Hm]; [now left|right; now right]|]. split; [|split; [|now rewrite E]].
      * intros p0 [<-|[<-|Hp0]]; [exact Hbm|lra|apply Hdom; now right].
      * intros p0 [<-|[<-|Hp0]] Hp0m; [apply Hfst; [now left|exact Hp0m]| |apply Hfst; [now right|exact Hp0m]].
        destruct Hm as [<-|Hm]; [lia|]. assert (Rabs (xat xs bi) < Rabs (xat xs m)) by (apply Hfst; [now left|lia]). lra.
Qed.

Lemma last_indep {A} (l : list A) d d' : l <> [] -> List.last l d = List.last l d'.
Proof. induction l as [|a l IH]; [congruence|]. intros _. destruct l as [|b l]; [reflexivity|]. change (List.last (b :: l) d = List.last (b :: l) d'). apply IH. discriminate. Qed.
Lemma last_cons_default {A} (p : A) l d : List.last (p :: l) d = List.last l p.
Proof. destruct l as [|a l]; [reflexivity|]. change (List.last (a :: l) d = List.last (a :: l) p). apply last_indep. discriminate. Qed.

(** whatever happened before, a peak whose value does not share the strict sign of its predecessor opens a new half cycle *)
Lemma spl0_prefix (xs : list R) pre : forall prev lst bv bi q rest,
  ssame lst (xat xs prev) -> xat xs q * xat xs (List.last pre prev) <= 0 ->
  exists O, spl 0 xs lst bv bi (pre ++ q :: rest) = O ++ spl 0 xs (xat xs q) (Rabs (xat xs q)) q rest /\
            (forall o, In o O -> o = bi \/ In o pre).
Proof.
  induction pre as [|p pre' IH]; intros prev lst bv bi q rest Hs Hq.
  - cbn [List.last] in Hq. cbn [app]. exists [bi]. split; [|intros o [<-|[]]; now left].
    destruct (spl_cons 0 xs lst bv bi q rest) as [[_ E]|[[Hn _]|[Hn _]]]; [exact E| |]; exfalso; apply Hn, (proj2 (swc_0 _ _)); eapply ssame_mul_le; eauto.
  - rewrite last_cons_default in Hq. cbn [app].
    destruct (spl_cons 0 xs lst bv bi p (pre' ++ q :: rest)) as [[_ E]|[(_ & Hpos & _ & E)|(Hn & _ & E)]].
    + destruct (IH p (xat xs p) (Rabs (xat xs p)) p q rest (ssame_refl _) Hq) as (O & EO & HO).
      exists (bi :: O). split; [rewrite E, EO; reflexivity|]. intros o [<-|Ho]; [now left|]. destruct (HO o Ho) as [->|?]; right; [now left|now right].
    + destruct (IH p lst (Rabs (xat xs p)) p q rest (ssame_of_pos _ _ Hpos) Hq) as (O & EO & HO).
      exists O. split; [rewrite E, EO; reflexivity|]. intros o Ho. destruct (HO o Ho) as [->|?]; right; [now left|now right].
    + assert (Hpos : 0 < xat xs p * lst) by (destruct (Rlt_le_dec 0 (xat xs p * lst)) as [?|Hle]; [assumption|exfalso; apply Hn, (proj2 (swc_0 _ _)), Hle]).
      destruct (IH p lst bv bi q rest (ssame_of_pos _ _ Hpos) Hq) as (O & EO & HO).
      exists O. split; [rewrite E, EO; reflexivity|]. intros o Ho. destruct (HO o Ho) as [->|?]; [now left|right; now right].
Qed.

(** consecutive reported peaks never share a strict sign *)
Fixpoint adj_ok (xs : list R) (l : list nat) : Prop :=
  match l with p :: ((q :: _) as r) => xat xs p * xat xs q <= 0 /\ adj_ok xs r | _ => True end.
Lemma spl0_adj (xs : list R) ps : forall lst bv bi, ssame lst (xat xs bi) ->
  adj_ok xs (spl 0 xs lst bv bi ps) /\ exists o t, spl 0 xs lst bv bi ps = o :: t /\ ssame lst (xat xs o).
Proof.
  induction ps as [|p r IH]; intros lst bv bi Hs.
  - cbn [spl]. split; [exact I|]. exists bi, []. auto.
  - destruct (spl_cons 0 xs lst bv bi p r) as [[Hsw E]|[(_ & Hpos & _ & E)|(Hn & _ & E)]]; rewrite E.
    + destruct (IH (xat xs p) (Rabs (xat xs p)) p (ssame_refl _)) as (Hadj & o & t & Eo & Ho). split; [|exists bi, (spl 0 xs (xat xs p) (Rabs (xat xs p)) p r); auto].
      rewrite Eo in *. cbn [adj_ok]. split; [|exact Hadj]. apply (proj1 (swc_0 _ _)) in Hsw.
      destruct Hs as [[? ?]|[[? ?]|[? ?]]], Ho as [[? ?]|[[? ?]|[? ?]]]; nra.
    + apply IH. now apply ssame_of_pos.
    + apply IH. exact Hs.
Qed.
Lemma adj_ok_app (xs : list R) l1 p q l2 : adj_ok xs (l1 ++ p :: q :: l2) -> xat xs p * xat xs q <= 0.
Proof.
  induction l1 as [|a l1 IH]; cbn [app]; [intros [H _]; exact H|].
  intros H. apply IH. destruct (l1 ++ p :: q :: l2) eqn:E; [destruct l1; discriminate|]. apply H.
Qed.

(** ** splitting an ascending list at a threshold *)
Lemma filter_none {A} (f : A -> bool) l : (forall x, In x l -> f x = false) -> filter f l = [].
Proof. induction l as [|a l IH]; intros H; [reflexivity|]. cbn [filter]. rewrite (H a (or_introl eq_refl)). apply IH. intros; apply H; now right. Qed.
Lemma filter_all {A} (f : A -> bool) l : (forall x, In x l -> f x = true) -> filter f l = l.
Proof. induction l as [|a l IH]; intros H; [reflexivity|]. cbn [filter]. rewrite (H a (or_introl eq_refl)). f_equal. apply IH. intros; apply H; now right. Qed.
Lemma asc_split l c : ascending l -> l = filter (fun p => p <? c)%nat l ++ filter (fun p => negb (p <? c)%nat) l.
Proof.
  induction l as [|i r IH]; intros Ha; [reflexivity|]. inversion Ha as [|? ? Hlt Har]; subst. cbn [filter].
  destruct (i <? c)%nat eqn:E; cbn [negb app].
  - f_equal. now apply IH.
  - apply Nat.ltb_ge in E. rewrite filter_none, filter_all; [reflexivity| |].
    + intros x Hx. apply negb_true_iff, Nat.ltb_ge. specialize (Hlt x Hx). lia.
    + intros x Hx. apply Nat.ltb_ge. specialize (Hlt x Hx). lia.
Qed.
Lemma asc_app_r l1 l2 : ascending (l1 ++ l2) -> ascending l2.
Proof. induction l1 as [|a l1 IH]; [auto|]. cbn [app]. intros H. inversion H; subst. auto. Qed.
Lemma asc_app_l l1 l2 : ascending (l1 ++ l2) -> ascending l1.
Proof.
  induction l1 as [|a l1 IH]; [constructor|]. cbn [app]. intros H. inversion H as [|? ? Hlt Har]; subst.
  constructor; [|auto]. intros j Hj. apply Hlt, in_or_app. now left.
Qed.

Lemma spl_In tol (xs : list R) lst bv bi ps o : In o (spl tol xs lst bv bi ps) -> In o (bi :: ps).
Proof.
  destruct (sp_loop_subl tol xs lst bv bi ps []) as (L & E & HL & _). rewrite sp_loop_spl in E. cbn [rev app] in E.
  rewrite E. apply subl_In. exact HL.
Qed.

(** list-level statement: a maximal run [mid] of peaks of strict sign [s] contributes exactly one switched peak, a largest one *)
Lemma sp0_split (xs : list R) pre mid post s : sdir s -> peaks xs = pre ++ mid ++ post -> mid <> [] ->
  (forall p, In p mid -> 0 < s * xat xs p) -> (pre <> [] -> s * xat xs (List.last pre 0%nat) <= 0) ->
  match post with [] => True | q :: _ => s * xat xs q <= 0 end ->
  exists O1 m O2, switched_peaks 0 xs = O1 ++ m :: O2 /\ (forall o, In o O1 -> In o pre) /\ In m mid /\
    (forall p, In p mid -> Rabs (xat xs p) <= Rabs (xat xs m)) /\
    (forall p, In p mid -> (p < m)%nat -> Rabs (xat xs p) < Rabs (xat xs m)) /\ (forall o, In o O2 -> In o post).
Proof.
  intros Hs EP Hmid Hsign Hpre Hpost.
  assert (Hascmid : ascending mid).
  { pose proof (P_C11.C11_ascending xs) as Ha. rewrite EP in Ha. apply asc_app_r in Ha. now apply asc_app_l in Ha. }
  rewrite switched_peaks_spl, EP.
  destruct mid as [|q mid']; [congruence|]. clear Hmid.
  assert (Hq : 0 < s * xat xs q) by (apply Hsign; now left).
  assert (Hblock : exists m O2, spl 0 xs (xat xs q) (Rabs (xat xs q)) q (mid' ++ post) = m :: O2 /\ In m (q :: mid') /\
            (forall p, In p (q :: mid') -> Rabs (xat xs p) <= Rabs (xat xs m)) /\
            (forall p, In p (q :: mid') -> (p < m)%nat -> Rabs (xat xs p) < Rabs (xat xs m)) /\ (forall o, In o O2 -> In o post)).
  { destruct (spl0_block xs mid' (xat xs q) q post) as (m & Hm & Hdom & Hfst & E).
    - exact Hascmid.
    - intros p Hp. specialize (Hsign p (or_intror Hp)). destruct Hs as [-> | ->]; nra.
    - destruct post as [|r post']; [exact I|]. destruct Hs as [-> | ->]; nra.
    - exists m. eexists. split; [exact E|]. split; [exact Hm|]. split; [exact Hdom|]. split; [exact Hfst|].
      destruct post as [|r post']; [intros o []|]. intros o Ho. now apply spl_In in Ho. }
  destruct Hblock as (m & O2 & E & Hm & Hdom & Hfst & HO2).
  destruct pre as [|p0 pre'].
  - cbn [app]. exists [], m, O2. cbn [app]. split; [exact E|]. split; [intros o []|]. auto.
  - cbn [app]. specialize (Hpre ltac:(discriminate)). rewrite last_cons_default in Hpre.
    destruct (spl0_prefix xs pre' p0 (xat xs p0) (Rabs (xat xs p0)) p0 q (mid' ++ post) (ssame_refl _)) as (O & EO & HO).
    + destruct Hs as [-> | ->]; nra.
    + exists O, m, O2. split; [rewrite EO, E; reflexivity|]. split; [|auto].
      intros o Ho. destruct (HO o Ho) as [->|?]; [now left|now right].
Qed.

(** ** monotone segments *)
Lemma mono_le d (xs : list R) p q i j : mono_between d xs p q -> (p <= i <= j)%nat -> (j <= q)%nat -> d * xat xs i <= d * xat xs j.
Proof.
  intros [M1 _] Hij Hjq. apply (mono_chain d xs i j); [|lia].
  intros m Hm. specialize (M1 (m - 1)%nat ltac:(lia)). replace (S (m - 1)) with m in M1 by lia. exact M1.
Qed.

(** in an ascending list, an index between the first and last element is bracketed by two neighbouring elements *)
Lemma asc_bracket l k : ascending l -> (exists p, In p l /\ (p <= k)%nat) -> (exists q, In q l /\ (k <= q)%nat) ->
  exists p q, In p l /\ In q l /\ (p <= k <= q)%nat /\ forall r, In r l -> ~ (p < r < q)%nat.
Proof.
  induction l as [|i r IH]; intros Ha (p & Hp & Hpk) (q & Hq & Hkq); [destruct Hp|].
  inversion Ha as [|? ? Hlt Har]; subst.
  destruct r as [|j r'].
  - destruct Hp as [<-|[]]. destruct Hq as [<-|[]]. exists i, i. repeat split; auto; try lia. now left. now left.
  - destruct (Nat.le_gt_cases j k) as [Hjk|Hjk].
    + destruct IH as (p' & q' & Hp' & Hq' & Hb & Hn); [exact Har|exists j; split; [now left|exact Hjk]| |].
      * destruct Hq as [<-|Hq]; [|eauto]. specialize (Hlt j (or_introl eq_refl)). lia.
      * exists p', q'. split; [now right|]. split; [now right|]. split; [exact Hb|].
        intros x [<-|Hx]; [|now apply Hn]. specialize (Hlt p' Hp'). lia.
    + assert (Hik : (i <= k)%nat).
      { destruct Hp as [<-|Hp]; [exact Hpk|]. assert (j <= p)%nat by (apply (ascending_head_min j r'); auto). lia. }
      destruct (Nat.eq_dec i k) as [->|Hne].
      * exists k, k. split; [now left|]. split; [now left|]. split; [lia|]. intros; lia.
      * exists i, j. split; [now left|]. split; [right; now left|]. split; [lia|].
        intros x [<-|Hx]; [lia|]. assert (j <= x)%nat by (apply (ascending_head_min j r'); auto). lia.
Qed.
Lemma peaks_bracket (xs : list R) k : xs <> [] -> (k <= final_start xs)%nat ->
  exists p q, In p (peaks xs) /\ In q (peaks xs) /\ (p <= k <= q)%nat /\ no_reported_between xs p q.
Proof.
  intros Hne Hk. apply asc_bracket; [apply P_C11.C11_ascending| |].
  - exists 0%nat. split; [|lia]. apply P_C11.C11_exact. split; [destruct xs; [congruence|cbn; lia]|now left].
  - exists (final_start xs). split; [|exact Hk]. apply P_C11.C11_exact. split; [now apply final_start_lt|auto].
Qed.

(** ** excursions: maximal runs of samples of one strict sign *)
Definition excursion (xs : list R) (s : R) (a b : nat) : Prop :=
  sdir s /\ (a <= b < length xs)%nat /\ (forall k, (a <= k <= b)%nat -> 0 < s * xat xs k) /\
  (a = 0%nat \/ s * xat xs (a - 1) <= 0) /\ (S b = length xs \/ s * xat xs (S b) <= 0).

(** a run of samples of sign s that starts inside the excursion stays inside *)
Lemma exc_closed (xs : list R) s a b i j : excursion xs s a b -> (i <= j < length xs)%nat ->
  (forall k, (i <= k <= j)%nat -> 0 < s * xat xs k) -> ((a <= i <= b)%nat \/ (a <= j <= b)%nat) -> (a <= i)%nat /\ (j <= b)%nat.
Proof.
  intros (Hs & Hab & Hin & Hl & Hr) Hij Hrun Hmeet. split.
  - destruct (Nat.le_gt_cases a i); [assumption|exfalso]. destruct Hl as [->|Hl]; [lia|].
    specialize (Hrun (a - 1)%nat ltac:(lia)). lra.
  - destruct (Nat.le_gt_cases j b); [assumption|exfalso]. destruct Hr as [Hr|Hr]; [lia|].
    specialize (Hrun (S b) ltac:(lia)). lra.
Qed.

(** every sample of an excursion is dominated by a reported peak of the same excursion *)
Lemma uphill_peak (xs : list R) s a b k : excursion xs s a b -> (a <= k <= b)%nat ->
  exists r, In r (peaks xs) /\ (a <= r <= b)%nat /\ s * xat xs k <= s * xat xs r.
Proof.
  intros Hexc Hk. pose proof Hexc as (Hs & Hab & Hin & Hl & Hr).
  assert (Hne : xs <> []) by (intros ->; cbn in Hab; lia).
  assert (Hkpos : 0 < s * xat xs k) by (apply Hin; lia).
  destruct (Nat.le_gt_cases k (final_start xs)) as [Hkf|Hkf].
  - destruct (peaks_bracket xs k Hne Hkf) as (p & q & Hp & Hq & Hpkq & Hnone).
    assert (Hql : (q < length xs)%nat) by (apply P_C11.C11_exact in Hq; tauto).
    destruct (Nat.eq_dec p q) as [->|Hpq].
    + assert (k = q) by lia. subst k. exists q. split; [exact Hq|]. split; [lia|lra].
    + destruct (P_C11.C11_monotone_between xs p q Hp Hq ltac:(lia) Hnone) as [M|M].
      * (* rising segment *)
        destruct Hs as [-> | ->].
        -- exists q. split; [exact Hq|].
           assert (Hrun : forall m, (k <= m <= q)%nat -> 0 < 1 * xat xs m).
           { intros m Hm. pose proof (mono_le 1 xs p q k m M ltac:(lia) ltac:(lia)). lra. }
           destruct (exc_closed xs 1 a b k q Hexc ltac:(lia) Hrun ltac:(left; lia)). split; [lia|].
           apply (mono_le 1 xs p q k q M); lia.
        -- exists p. split; [exact Hp|].
           assert (Hrun : forall m, (p <= m <= k)%nat -> 0 < -1 * xat xs m).
           { intros m Hm. pose proof (mono_le 1 xs p q m k M ltac:(lia) ltac:(lia)). lra. }
           destruct (exc_closed xs (-1) a b p k Hexc ltac:(lia) Hrun ltac:(right; lia)). split; [lia|].
           pose proof (mono_le 1 xs p q p k M ltac:(lia) ltac:(lia)). lra.
      * destruct Hs as [-> | ->].
        -- exists p. split; [exact Hp|].
           assert (Hrun : forall m, (p <= m <= k)%nat -> 0 < 1 * xat xs m).
           { intros m Hm. pose proof (mono_le (-1) xs p q m k M ltac:(lia) ltac:(lia)). lra. }
           destruct (exc_closed xs 1 a b p k Hexc ltac:(lia) Hrun ltac:(right; lia)). split; [lia|].
           pose proof (mono_le (-1) xs p q p k M ltac:(lia) ltac:(lia)). lra.
        -- exists q. split; [exact Hq|].
           assert (Hrun : forall m, (k <= m <= q)%nat -> 0 < -1 * xat xs m).
           { intros m Hm. pose proof (mono_le (-1) xs p q k m M ltac:(lia) ltac:(lia)). lra. }
           destruct (exc_closed xs (-1) a b k q Hexc ltac:(lia) Hrun ltac:(left; lia)). split; [lia|].
           apply (mono_le (-1) xs p q k q M); lia.
  - (* in the final constant run *)
    exists (final_start xs).
    assert (Hconst : forall m, (final_start xs <= m < length xs)%nat -> xat xs m = xat xs (final_start xs)) by (apply final_run_constant).
    split; [apply P_C11.C11_exact; split; [now apply final_start_lt|auto]|].
    assert (Hrun : forall m, (final_start xs <= m <= k)%nat -> 0 < s * xat xs m).
    { intros m Hm. rewrite (Hconst m) by lia. rewrite <- (Hconst k) by lia. exact Hkpos. }
    destruct (exc_closed xs s a b (final_start xs) k Hexc ltac:(lia) Hrun ltac:(right; lia)). split; [lia|].
    rewrite (Hconst k) by lia. lra.
Qed.

(** between two neighbouring reported peaks of the same strict sign every sample has that sign *)
Lemma same_sign_between (xs : list R) s p q : sdir s -> In p (peaks xs) -> In q (peaks xs) -> (p < q)%nat ->
  no_reported_between xs p q -> 0 < s * xat xs p -> 0 < s * xat xs q -> forall m, (p <= m <= q)%nat -> 0 < s * xat xs m.
Proof.
  intros Hs Hp Hq Hpq Hnone Hsp Hsq m Hm.
  destruct (P_C11.C11_monotone_between xs p q Hp Hq Hpq Hnone) as [M|M];
    pose proof (mono_le _ xs p q p m M ltac:(lia) ltac:(lia)); pose proof (mono_le _ xs p q m q M ltac:(lia) ltac:(lia));
    destruct Hs as [-> | ->]; lra.
Qed.

(** a sample that attains the largest |value| of its excursion is preceded (or equalled) by a reported peak of the same value *)
Lemma uphill_peak_left (xs : list R) s a b k : excursion xs s a b -> (a <= k <= b)%nat ->
  (forall j, (a <= j <= b)%nat -> s * xat xs j <= s * xat xs k) ->
  exists r, In r (peaks xs) /\ (a <= r <= k)%nat /\ xat xs r = xat xs k.
Proof.
  intros Hexc Hk Hmax. pose proof Hexc as (Hs & Hab & Hin & Hl & Hr).
  assert (Hne : xs <> []) by (intros ->; cbn in Hab; lia).
  assert (Hkpos : 0 < s * xat xs k) by (apply Hin; lia).
  assert (Hcancel : forall u v, s * u = s * v -> u = v) by (intros u v E; destruct Hs as [-> | ->]; lra).
  destruct (Nat.le_gt_cases k (final_start xs)) as [Hkf|Hkf].
  - destruct (peaks_bracket xs k Hne Hkf) as (p & q & Hp & Hq & Hpkq & Hnone).
    assert (Hql : (q < length xs)%nat) by (apply P_C11.C11_exact in Hq; tauto).
    destruct (Nat.eq_dec k q) as [->|Hkq]; [exists q; split; [exact Hq|]; split; [lia|reflexivity]|].
    destruct (Nat.eq_dec p k) as [->|Hpk]; [exists k; split; [exact Hp|]; split; [lia|reflexivity]|].
    destruct (P_C11.C11_monotone_between xs p q Hp Hq ltac:(lia) Hnone) as [M|M].
    + destruct Hs as [-> | ->].
      * (* rising towards q: then q - 1 and q carry the maximal value, but q starts a plateau *)
        exfalso.
        assert (Hrun : forall m, (k <= m <= q)%nat -> 0 < 1 * xat xs m).
        { intros m Hm. pose proof (mono_le 1 xs p q k m M ltac:(lia) ltac:(lia)). lra. }
        destruct (exc_closed xs 1 a b k q Hexc ltac:(lia) Hrun ltac:(left; lia)).
        pose proof (mono_le 1 xs p q k (q - 1) M ltac:(lia) ltac:(lia)).
        pose proof (mono_le 1 xs p q (q - 1) q M ltac:(lia) ltac:(lia)).
        pose proof (Hmax q ltac:(lia)).
        pose proof (P_C11.C11_reported_are_plateau_starts xs q Hne Hq) as Hps.
        destruct q as [|q']; [lia|]. cbn [pstart] in Hps. apply negb_true_iff, neqb_R_false in Hps.
        replace (S q' - 1)%nat with q' in * by lia. lra.
      * exists p. split; [exact Hp|].
        assert (Hrun : forall m, (p <= m <= k)%nat -> 0 < -1 * xat xs m).
        { intros m Hm. pose proof (mono_le 1 xs p q m k M ltac:(lia) ltac:(lia)). lra. }
        destruct (exc_closed xs (-1) a b p k Hexc ltac:(lia) Hrun ltac:(right; lia)). split; [lia|].
        pose proof (mono_le 1 xs p q p k M ltac:(lia) ltac:(lia)). pose proof (Hmax p ltac:(lia)). lra.
    + destruct Hs as [-> | ->].
      * exists p. split; [exact Hp|].
        assert (Hrun : forall m, (p <= m <= k)%nat -> 0 < 1 * xat xs m).
        { intros m Hm. pose proof (mono_le (-1) xs p q m k M ltac:(lia) ltac:(lia)). lra. }
        destruct (exc_closed xs 1 a b p k Hexc ltac:(lia) Hrun ltac:(right; lia)). split; [lia|].
        pose proof (mono_le (-1) xs p q p k M ltac:(lia) ltac:(lia)). pose proof (Hmax p ltac:(lia)). lra.
      * exfalso.
        assert (Hrun : forall m, (k <= m <= q)%nat -> 0 < -1 * xat xs m).
        { intros m Hm. pose proof (mono_le (-1) xs p q k m M ltac:(lia) ltac:(lia)). lra. }
        destruct (exc_closed xs (-1) a b k q Hexc ltac:(lia) Hrun ltac:(left; lia)).
        pose proof (mono_le (-1) xs p q k (q - 1) M ltac:(lia) ltac:(lia)).
        pose proof (mono_le (-1) xs p q (q - 1) q M ltac:(lia) ltac:(lia)).
        pose proof (Hmax q ltac:(lia)).
        pose proof (P_C11.C11_reported_are_plateau_starts xs q Hne Hq) as Hps.
        destruct q as [|q']; [lia|]. cbn [pstart] in Hps. apply negb_true_iff, neqb_R_false in Hps.
        replace (S q' - 1)%nat with q' in * by lia. lra.
  - exists (final_start xs).
    assert (Hconst : forall m, (final_start xs <= m < length xs)%nat -> xat xs m = xat xs (final_start xs)) by (apply final_run_constant).
    split; [apply P_C11.C11_exact; split; [now apply final_start_lt|auto]|].
    assert (Hrun : forall m, (final_start xs <= m <= k)%nat -> 0 < s * xat xs m).
    { intros m Hm. rewrite (Hconst m) by lia. rewrite <- (Hconst k) by lia. exact Hkpos. }
    destruct (exc_closed xs s a b (final_start xs) k Hexc ltac:(lia) Hrun ltac:(right; lia)). split; [lia|].
    symmetry. apply Hconst. lia.
Qed.

(** ** C12: exactly one switched peak per excursion, at its largest |value| *)
Lemma sp_excursion_full (xs : list R) s a b : excursion xs s a b ->
  exists p, In p (switched_peaks 0 xs) /\ (a <= p <= b)%nat /\
    (forall k, (a <= k <= b)%nat -> Rabs (xat xs k) <= Rabs (xat xs p)) /\
    (forall q, In q (switched_peaks 0 xs) -> (a <= q <= b)%nat -> q = p) /\
    (forall k, (a <= k < p)%nat -> Rabs (xat xs k) < Rabs (xat xs p)).
Proof.
  intros Hexc. pose proof Hexc as (Hs & Hab & Hin & Hl & Hr).
  set (P := peaks xs).
  set (pre := filter (fun p => p <? a)%nat P). set (rest := filter (fun p => negb (p <? a)%nat) P).
  set (mid := filter (fun p => p <? S b)%nat rest). set (post := filter (fun p => negb (p <? S b)%nat) rest).
  assert (HascP : ascending P) by apply P_C11.C11_ascending.
  assert (E1 : P = pre ++ rest) by (apply asc_split; exact HascP).
  assert (Hascrest : ascending rest) by (rewrite E1 in HascP; eapply asc_app_r; eauto).
  assert (E2 : rest = mid ++ post) by (apply asc_split; exact Hascrest).
  assert (EP : peaks xs = pre ++ mid ++ post) by (fold P; rewrite E1 at 1; now rewrite E2 at 1).
  assert (Hpre : forall p, In p pre <-> In p P /\ (p < a)%nat).
  { intros p. unfold pre. rewrite filter_In, Nat.ltb_lt. tauto. }
  assert (Hmidc : forall p, In p mid <-> In p P /\ (a <= p <= b)%nat).
  { intros p. unfold mid, rest. rewrite !filter_In, negb_true_iff, Nat.ltb_lt, Nat.ltb_ge. intuition lia. }
  assert (Hpostc : forall p, In p post <-> In p P /\ (b < p)%nat).
  { intros p. unfold post, rest. rewrite !filter_In, !negb_true_iff, !Nat.ltb_ge. intuition lia. }
  assert (Hmidne : mid <> []).
  { destruct (uphill_peak xs s a b a Hexc ltac:(lia)) as (r & Hr1 & Hr2 & _).
    intros E. assert (Hi : In r mid) by (apply Hmidc; auto). rewrite E in Hi. destruct Hi. }
  assert (Hsign : forall p, In p mid -> 0 < s * xat xs p) by (intros p Hp; apply Hmidc in Hp; apply Hin; lia).
  assert (Hascpre : ascending pre) by (rewrite E1 in HascP; eapply asc_app_l; eauto).
  assert (Hascmp : ascending (mid ++ post)) by (rewrite <- E2; exact Hascrest).
  (* the peak before the excursion *)
  assert (Hbefore : pre <> [] -> s * xat xs (List.last pre 0%nat) <= 0).
  { intros Hne. destruct (Rle_lt_dec (s * xat xs (List.last pre 0%nat)) 0) as [?|Hpos]; [assumption|exfalso].
    assert (Hp : In (List.last pre 0%nat) pre) by (apply last_In; exact Hne).
    destruct mid as [|q0 mid'] eqn:Emid; [congruence|].
    assert (Hq0 : In q0 (q0 :: mid')) by now left. pose proof (proj1 (Hmidc q0) Hq0) as [Hq0P Hq0r].
    pose proof (proj1 (Hpre _) Hp) as [HpP Hpa].
    assert (Hnone : no_reported_between xs (List.last pre 0%nat) q0).
    { intros r Hr0 Hb. fold P in Hr0. rewrite E1, E2 in Hr0. apply in_app_or in Hr0 as [Hr0|Hr0].
      - pose proof (ascending_last_max pre r 0%nat Hascpre Hr0). lia.
      - pose proof (ascending_head_min q0 (mid' ++ post) r Hascmp Hr0). lia. }
    pose proof (same_sign_between xs s _ q0 Hs HpP Hq0P ltac:(lia) Hnone Hpos (Hsign q0 Hq0)) as Hrun.
    assert (Hq0l : (q0 < length xs)%nat) by lia.
    destruct (exc_closed xs s a b (List.last pre 0%nat) q0 Hexc ltac:(lia) Hrun ltac:(right; lia)). lia. }
  assert (Hafter : match post with [] => True | q :: _ => s * xat xs q <= 0 end).
  { destruct post as [|q post'] eqn:Epost; [exact I|].
    destruct (Rle_lt_dec (s * xat xs q) 0) as [?|Hpos]; [assumption|exfalso].
    assert (Hq : In q (q :: post')) by now left. pose proof (proj1 (Hpostc q) Hq) as [HqP Hqb].
    assert (Hp : In (List.last mid 0%nat) mid) by (apply last_In; exact Hmidne).
    pose proof (proj1 (Hmidc _) Hp) as [HpP Hpr].
    assert (Hascmid : ascending mid) by (eapply asc_app_l; eauto).
    assert (Hnone : no_reported_between xs (List.last mid 0%nat) q).
    { intros r Hr0 Hb. fold P in Hr0. rewrite E1, E2 in Hr0. apply in_app_or in Hr0 as [Hr0|Hr0].
      - apply Hpre in Hr0. lia.
      - apply in_app_or in Hr0 as [Hr0|Hr0].
        + pose proof (ascending_last_max mid r 0%nat Hascmid Hr0). lia.
        + pose proof (ascending_head_min q post' r (asc_app_r _ _ Hascmp) Hr0). lia. }
    pose proof (same_sign_between xs s _ q Hs HpP HqP ltac:(lia) Hnone (Hsign _ Hp) Hpos) as Hrun.
    assert (Hql : (q < length xs)%nat) by (apply P_C11.C11_exact in HqP; tauto).
    destruct (exc_closed xs s a b (List.last mid 0%nat) q Hexc ltac:(lia) Hrun ltac:(left; lia)). lia. }
  destruct (sp0_split xs pre mid post s Hs EP Hmidne Hsign Hbefore Hafter) as (O1 & m & O2 & E & HO1 & Hm & Hdom & Hfst & HO2).
  exists m. pose proof (proj1 (Hmidc m) Hm) as [HmP Hmr].
  assert (Habs : forall k, (a <= k <= b)%nat -> Rabs (xat xs k) = s * xat xs k).
  { intros k Hk. pose proof (Hin k Hk). destruct Hs as [-> | ->]; [rewrite Rabs_pos_eq by lra; lra|rewrite Rabs_left by lra; lra]. }
  assert (Hmaxall : forall k, (a <= k <= b)%nat -> Rabs (xat xs k) <= Rabs (xat xs m)).
  { intros k Hk. destruct (uphill_peak xs s a b k Hexc Hk) as (r & Hr1 & Hr2 & Hr3).
    apply Rle_trans with (Rabs (xat xs r)); [|apply Hdom, Hmidc; auto]. rewrite !Habs by lia. exact Hr3. }
  split; [rewrite E; apply in_or_app; right; now left|]. split; [exact Hmr|]. split; [exact Hmaxall|]. split.
  - intros q Hq Hqr. rewrite E in Hq. apply in_app_or in Hq as [Hq|[Hq|Hq]]; [|auto|].
    + apply HO1, Hpre in Hq. lia.
    + apply HO2, Hpostc in Hq. lia.
  - intros k Hk. destruct (Rlt_le_dec (Rabs (xat xs k)) (Rabs (xat xs m))) as [Hlt|Hge]; [exact Hlt|exfalso].
    assert (Hkmax : forall j, (a <= j <= b)%nat -> s * xat xs j <= s * xat xs k).
    { intros j Hj. rewrite <- !Habs by lia. apply Rle_trans with (Rabs (xat xs m)); [now apply Hmaxall|exact Hge]. }
    destruct (uphill_peak_left xs s a b k Hexc ltac:(lia) Hkmax) as (r & Hr1 & Hr2 & Hr3).
    assert (Hrm : Rabs (xat xs r) < Rabs (xat xs m)) by (apply Hfst; [apply Hmidc; split; [exact Hr1|lia]|lia]).
    rewrite Hr3 in Hrm. lra.
Qed.
Lemma C12_sp_one_per_excursion (xs : list R) s a b : excursion xs s a b ->
  exists p, In p (switched_peaks 0 xs) /\ (a <= p <= b)%nat /\
    (forall k, (a <= k <= b)%nat -> Rabs (xat xs k) <= Rabs (xat xs p)) /\
    (forall q, In q (switched_peaks 0 xs) -> (a <= q <= b)%nat -> q = p).
Proof. intros Hexc. destruct (sp_excursion_full xs s a b Hexc) as (p & H1 & H2 & H3 & H4 & _). exists p. auto. Qed.
(** ... and it is the first sample of the excursion that attains the largest |value| *)
Lemma C12_sp_first_largest (xs : list R) s a b p : excursion xs s a b -> In p (switched_peaks 0 xs) -> (a <= p <= b)%nat ->
  forall k, (a <= k < p)%nat -> Rabs (xat xs k) < Rabs (xat xs p).
Proof.
  intros Hexc Hp Hr. destruct (sp_excursion_full xs s a b Hexc) as (p' & _ & _ & _ & Hu & Hf).
  rewrite (Hu p Hp Hr). exact Hf.
Qed.

(** ** existence of the excursion around a non-zero sample *)
Lemma run_left (xs : list R) s k : 0 < s * xat xs k ->
  exists a, (a <= k)%nat /\ (forall j, (a <= j <= k)%nat -> 0 < s * xat xs j) /\ (a = 0%nat \/ s * xat xs (a - 1) <= 0).
Proof.
  induction k as [|k IH]; intros Hk.
  - exists 0%nat. split; [lia|]. split; [intros j Hj; now replace j with 0%nat by lia|now left].
  - destruct (Rle_lt_dec (s * xat xs k) 0) as [Hle|Hpos].
    + exists (S k). split; [lia|]. split; [intros j Hj; now replace j with (S k) by lia|right; now replace (S k - 1)%nat with k by lia].
    + destruct (IH Hpos) as (a & Ha & Hrun & Hb). exists a. split; [lia|]. split; [|exact Hb].
      intros j Hj. destruct (Nat.eq_dec j (S k)) as [->|]; [exact Hk|apply Hrun; lia].
Qed.
Lemma run_right (xs : list R) s d : forall k, length xs = (k + S d)%nat -> 0 < s * xat xs k ->
  exists b, (k <= b < length xs)%nat /\ (forall j, (k <= j <= b)%nat -> 0 < s * xat xs j) /\ (S b = length xs \/ s * xat xs (S b) <= 0).
Proof.
  induction d as [|d IH]; intros k Hlen Hk.
  - exists k. split; [lia|]. split; [intros j Hj; now replace j with k by lia|left; lia].
  - destruct (Rle_lt_dec (s * xat xs (S k)) 0) as [Hle|Hpos].
    + exists k. split; [lia|]. split; [intros j Hj; now replace j with k by lia|now right].
    + destruct (IH (S k) ltac:(lia) Hpos) as (b & Hb & Hrun & He). exists b. split; [lia|]. split; [|exact He].
      intros j Hj. destruct (Nat.eq_dec j k) as [->|]; [exact Hk|apply Hrun; lia].
Qed.
Lemma excursion_exists (xs : list R) k : (k < length xs)%nat -> xat xs k <> 0 ->
  exists s a b, excursion xs s a b /\ (a <= k <= b)%nat.
Proof.
  intros Hk Hnz.
  assert (Hs : exists s, sdir s /\ 0 < s * xat xs k).
  { destruct (Rtotal_order (xat xs k) 0) as [H|[H|H]]; [exists (-1); split; [now right|lra]|contradiction|exists 1; split; [now left|lra]]. }
  destruct Hs as (s & Hs & Hpos).
  destruct (run_left xs s k Hpos) as (a & Ha & Hra & Hla).
  destruct (run_right xs s (length xs - k - 1) k ltac:(lia) Hpos) as (b & Hb & Hrb & Hlb).
  exists s, a, b. split; [|lia]. split; [exact Hs|]. split; [lia|]. split; [|auto].
  intros j Hj. destruct (Nat.le_gt_cases j k); [apply Hra|apply Hrb]; lia.
Qed.

(** ** consequences *)
Lemma sp_nonempty tol (xs : list R) : xs <> [] -> switched_peaks tol xs <> [].
Proof.
  intros Hne. unfold switched_peaks, switched_peaks_of.
  destruct (peaks xs) as [|p0 r] eqn:E.
  - exfalso. assert (Hin : In 0%nat (peaks xs)) by (apply P_C11.C11_exact; split; [destruct xs; [congruence|cbn; lia]|now left]). rewrite E in Hin. destruct Hin.
  - destruct (sp_loop_subl tol xs (xat xs p0) (nabs (xat xs p0)) p0 r []) as (L & -> & _ & HL). exact HL.
Qed.
Lemma argmax_exists (f : nat -> R) n : (0 < n)%nat -> exists M, (M < n)%nat /\ forall k, (k < n)%nat -> f k <= f M.
Proof.
  induction n as [|n IH]; [lia|]. intros _. destruct n as [|n].
  - exists 0%nat. split; [lia|]. intros k Hk. replace k with 0%nat by lia. lra.
  - destruct (IH ltac:(lia)) as (M & HM & Hdom). destruct (Rle_lt_dec (f (S n)) (f M)) as [Hle|Hgt].
    + exists M. split; [lia|]. intros k Hk. destruct (Nat.eq_dec k (S n)) as [->|]; [exact Hle|apply Hdom; lia].
    + exists (S n). split; [lia|]. intros k Hk. destruct (Nat.eq_dec k (S n)) as [->|]; [lra|]. specialize (Hdom k ltac:(lia)). lra.
Qed.
(** the global absolute maximum is among the switched peaks *)
Lemma C12_sp_global_abs_max (xs : list R) : xs <> [] ->
  exists p, In p (switched_peaks 0 xs) /\ forall k, (k < length xs)%nat -> Rabs (xat xs k) <= Rabs (xat xs p).
Proof.
  intros Hne. destruct (argmax_exists (fun k => Rabs (xat xs k)) (length xs)) as (M & HM & Hdom); [destruct xs; [congruence|cbn; lia]|].
  destruct (Req_dec (xat xs M) 0) as [Hz|Hnz].
  - destruct (switched_peaks 0 xs) as [|p t] eqn:E; [exfalso; now apply (sp_nonempty 0 xs Hne)|].
    exists p. split; [now left|]. intros k Hk. specialize (Hdom k Hk). cbv beta in Hdom. rewrite Hz, Rabs_R0 in Hdom.
    pose proof (Rabs_pos (xat xs p)). lra.
  - destruct (excursion_exists xs M HM Hnz) as (s & a & b & Hexc & HMr).
    destruct (C12_sp_one_per_excursion xs s a b Hexc) as (p & Hp & _ & Hmax & _).
    exists p. split; [exact Hp|]. intros k Hk. specialize (Hdom k Hk). specialize (Hmax M HMr). cbv beta in Hdom. lra.
Qed.
(** a series with a non-zero sample has a non-zero switched peak *)
Lemma C12_sp_nonzero (xs : list R) : (exists k, (k < length xs)%nat /\ xat xs k <> 0) ->
  exists p, In p (switched_peaks 0 xs) /\ xat xs p <> 0.
Proof.
  intros (k & Hk & Hnz). assert (Hne : xs <> []) by (intros ->; cbn in Hk; lia).
  destruct (C12_sp_global_abs_max xs Hne) as (p & Hp & Hdom). exists p. split; [exact Hp|].
  intros Hz. specialize (Hdom k Hk). rewrite Hz, Rabs_R0 in Hdom. pose proof (Rabs_pos_lt _ Hnz). lra.
Qed.
Lemma C12_sp_nonzero_of_nonconstant (xs : list R) : first_up xs <> None -> exists p, In p (switched_peaks 0 xs) /\ xat xs p <> 0.
Proof.
  intros Hnc. apply C12_sp_nonzero. unfold first_up in Hnc. destruct (next_diff xs 0) as [j|] eqn:Ej; [|congruence].
  apply next_diff_spec in Ej as (Hj & Hd & _).
  destruct (Req_dec (xat xs j) 0) as [Hz|Hnz]; [exists 0%nat; split; [lia|]; intros H0; apply Hd; lra|exists j; split; [lia|exact Hnz]].
Qed.
(** every switched peak is zero-valued or lies in an excursion (of which it is then the unique, largest switched peak) *)
Lemma C12_sp_zero_or_in_excursion (xs : list R) p : In p (switched_peaks 0 xs) ->
  In p (peaks xs) /\ (xat xs p = 0 \/ exists s a b, excursion xs s a b /\ (a <= p <= b)%nat).
Proof.
  intros Hp. assert (HpP : In p (peaks xs)) by (eapply subl_In; [apply C12_sp_subsequence_of_peaks|exact Hp]).
  split; [exact HpP|]. destruct (Req_dec (xat xs p) 0) as [Hz|Hnz]; [now left|right].
  apply excursion_exists; [apply P_C11.C11_exact in HpP; tauto|exact Hnz].
Qed.
(** consecutive switched peaks never share a strict sign *)
Lemma C12_sp_consecutive_signs (xs : list R) l1 p q l2 : switched_peaks 0 xs = l1 ++ p :: q :: l2 -> xat xs p * xat xs q <= 0.
Proof.
  intros E. rewrite switched_peaks_spl in E. destruct (peaks xs) as [|p0 r]; [destruct l1; discriminate|].
  destruct (spl0_adj xs r (xat xs p0) (Rabs (xat xs p0)) p0 (ssame_refl _)) as [Hadj _].
  rewrite E in Hadj. eapply adj_ok_app; eauto.
Qed.

(** ** positive tolerance: every switched peak is a zero-tolerance switched peak *)
Lemma pos_mul_cases a b : 0 < a * b <-> (0 < a /\ 0 < b) \/ (a < 0 /\ b < 0).
Proof.
  split; [intros H|intros [[? ?]|[? ?]]; nra].
  destruct (Rtotal_order a 0) as [Ha|[Ha|Ha]], (Rtotal_order b 0) as [Hb|[Hb|Hb]]; try (subst; lra); try nra; auto.
Qed.
Lemma Rabs_cases v : (0 <= v /\ Rabs v = v) \/ (v < 0 /\ Rabs v = - v).
Proof. destruct (Rle_lt_dec 0 v); [left; split; [lra|now apply Rabs_pos_eq]|right; split; [lra|now apply Rabs_left]]. Qed.
(** the tol-run lags behind the 0-run: its candidate has already been emitted by the 0-run *)
Definition lagI (tol lt bvt l0 bv0 : R) : Prop :=
  lt <> 0 /\ (0 < lt -> (0 < l0 -> bv0 <= bvt) /\ (l0 <= 0 -> bv0 < tol)) /\ (lt < 0 -> (l0 < 0 -> bv0 <= bvt) /\ (0 <= l0 -> bv0 < tol)).
Ltac lin :=
  rewrite ?swc_cases, ?pos_mul_cases in *; unfold ssame, lagI in *;
  repeat match goal with
  | H : _ /\ _ |- _ => destruct H
  | H : _ \/ _ |- _ => destruct H
  end; subst; try lra; intuition lra.

Lemma sp_sim tol (xs : list R) : 0 < tol -> forall ps (lag : bool) lt bvt bit l0 bv0 bi0,
  ssame lt (xat xs bit) -> ssame l0 (xat xs bi0) -> bvt = Rabs (xat xs bit) -> bv0 = Rabs (xat xs bi0) ->
  (if lag then lagI tol lt bvt l0 bv0 else bit = bi0) ->
  forall m, In m (spl tol xs lt bvt bit ps) ->
    if lag then m = bit \/ In m (spl 0 xs l0 bv0 bi0 ps) else In m (spl 0 xs l0 bv0 bi0 ps).
Proof.
  intros Htol. induction ps as [|p r IH]; intros lag lt bvt bit l0 bv0 bi0 Hst Hs0 Ebt Eb0 Hmode m Hm.
  - cbn [spl] in *. destruct Hm as [<-|[]]. destruct lag; [now left|left; now symmetry].
  - pose proof (Rabs_cases (xat xs bit)) as Habt. pose proof (Rabs_cases (xat xs bi0)) as Hab0.
    pose proof (Rabs_cases (xat xs p)) as Hav.
    assert (IHsync : forall l0', ssame l0' (xat xs p) -> In m (spl tol xs (xat xs p) (Rabs (xat xs p)) p r) ->
                In m (spl 0 xs l0' (Rabs (xat xs p)) p r)).
    { intros l0' Hl0'. exact (IH false (xat xs p) (Rabs (xat xs p)) p l0' (Rabs (xat xs p)) p (ssame_refl _) Hl0' eq_refl eq_refl eq_refl m). }
    assert (IHsync' : forall l0', ssame l0' (xat xs p) -> 0 < xat xs p * lt -> In m (spl tol xs lt (Rabs (xat xs p)) p r) ->
                In m (spl 0 xs l0' (Rabs (xat xs p)) p r)).
    { intros l0' Hl0' Hpos. exact (IH false lt (Rabs (xat xs p)) p l0' (Rabs (xat xs p)) p (ssame_of_pos _ _ Hpos) Hl0' eq_refl eq_refl eq_refl m). }
    assert (IHlag : forall l0' bv0' bi0', ssame l0' (xat xs bi0') -> bv0' = Rabs (xat xs bi0') -> lagI tol lt bvt l0' bv0' ->
                In m (spl tol xs lt bvt bit r) -> m = bit \/ In m (spl 0 xs l0' bv0' bi0' r)).
    { intros l0' bv0' bi0' H1 H2 H3. exact (IH true lt bvt bit l0' bv0' bi0' Hst H1 Ebt H2 H3 m). }
    assert (IHkeep : bit = bi0 -> In m (spl tol xs lt bvt bit r) -> In m (spl 0 xs l0 bv0 bi0 r)).
    { intros H3. exact (IH false lt bvt bit l0 bv0 bi0 Hst Hs0 Ebt Eb0 H3 m). }
    clear IH.
    destruct (spl_cons tol xs lt bvt bit p r) as [[HT ET]|[(HT1 & HT2 & HT3 & ET)|(HT1 & HT2 & ET)]];
    destruct (spl_cons 0 xs l0 bv0 bi0 p r) as [[HZ EZ]|[(HZ1 & HZ2 & HZ3 & EZ)|(HZ1 & HZ2 & EZ)]];
    rewrite ET in Hm; rewrite EZ; clear ET EZ.
    + (* both switch *)
      destruct lag.
      * destruct Hm as [<-|Hm]; [now left|right; right; apply IHsync; [apply ssame_refl|exact Hm]].
      * subst bi0. destruct Hm as [<-|Hm]; [now left|right; apply IHsync; [apply ssame_refl|exact Hm]].
    + (* tol switches, 0 updates: only when lagging *)
      destruct lag; [|exfalso; subst bi0; clear IHsync IHsync' IHlag IHkeep Hm; set (av := Rabs (xat xs p)) in *; clearbody av; lin].
      destruct Hm as [<-|Hm]; [now left|right]. apply IHsync; [now apply ssame_of_pos|exact Hm].
    + (* tol switches, 0 keeps: impossible *)
      exfalso. clear IHsync IHsync' IHlag IHkeep Hm. destruct lag; [|subst bi0]; set (av := Rabs (xat xs p)) in *; clearbody av; lin.
    + (* tol updates, 0 switches: only when lagging *)
      destruct lag; [|exfalso; subst bi0; clear IHsync IHsync' IHlag IHkeep Hm; set (av := Rabs (xat xs p)) in *; clearbody av; lin].
      right. right. apply IHsync'; [apply ssame_refl|exact HT2|exact Hm].
    + (* both update *)
      assert (Hgoal : In m (spl 0 xs l0 (Rabs (xat xs p)) p r)) by (apply IHsync'; [now apply ssame_of_pos|exact HT2|exact Hm]).
      destruct lag; [now right|exact Hgoal].
    + (* tol updates, 0 keeps: impossible *)
      exfalso. clear IHsync IHsync' IHlag IHkeep Hm. destruct lag; [|subst bi0]; set (av := Rabs (xat xs p)) in *; clearbody av; lin.
    + (* tol keeps, 0 switches: the tol-run starts (or keeps) lagging *)
      assert (Hl : lagI tol lt bvt (xat xs p) (Rabs (xat xs p))).
      { clear IHsync IHsync' IHlag IHkeep Hm. destruct lag; [|subst bi0]; set (av := Rabs (xat xs p)) in *; clearbody av; lin. }
      destruct (IHlag (xat xs p) (Rabs (xat xs p)) p (ssame_refl _) eq_refl Hl Hm) as [->|Hin].
      * destruct lag; [now left|subst bi0; now left].
      * destruct lag; [right; now right|now right].
    + (* tol keeps, 0 updates: only when lagging *)
      destruct lag; [|exfalso; subst bi0; clear IHsync IHsync' IHlag IHkeep Hm; set (av := Rabs (xat xs p)) in *; clearbody av; lin].
      assert (Hl : lagI tol lt bvt l0 (Rabs (xat xs p))).
      { clear IHsync IHsync' IHlag IHkeep Hm. set (av := Rabs (xat xs p)) in *; clearbody av; lin. }
      exact (IHlag l0 (Rabs (xat xs p)) p (ssame_of_pos _ _ HZ2) eq_refl Hl Hm).
    + (* both keep *)
      destruct lag; [exact (IHlag l0 bv0 bi0 Hs0 Eb0 Hmode Hm)|exact (IHkeep Hmode Hm)].
Qed.

Lemma asc_incl_subl (b : list nat) : forall a, ascending a -> ascending b -> (forall x, In x a -> In x b) -> subl a b.
Proof.
  induction b as [|y b' IH]; intros a Ha Hb Hincl.
  - destruct a as [|x a']; [constructor|]. destruct (Hincl x (or_introl eq_refl)).
  - destruct a as [|x a']; [constructor|].
    inversion Ha as [|? ? Hlta Haa]; subst. inversion Hb as [|? ? Hltb Hbb]; subst.
    destruct (Nat.eq_dec x y) as [->|Hne].
    + apply subl_keep. apply IH; [exact Haa|exact Hbb|].
      intros z Hz. destruct (Hincl z (or_intror Hz)) as [<-|Hin]; [|exact Hin]. specialize (Hlta _ Hz). lia.
    + apply subl_skip. apply IH; [exact Ha|exact Hbb|].
      assert (Hxy : (y < x)%nat) by (destruct (Hincl x (or_introl eq_refl)) as [E|Hin]; [congruence|now apply Hltb]).
      intros z Hz. destruct (Hincl z Hz) as [<-|Hin]; [|exact Hin].
      destruct Hz as [<-|Hz]; [lia|]. specialize (Hlta _ Hz). lia.
Qed.
(** with a positive tolerance the switched peaks are a subsequence of the zero-tolerance switched peaks *)
Lemma C12_sp_tol_subsequence tol (xs : list R) : 0 <= tol -> subl (switched_peaks tol xs) (switched_peaks 0 xs).
Proof.
  intros [Htol|<-]; [|apply subl_refl].
  apply asc_incl_subl; [apply C12_sp_ascending|apply C12_sp_ascending|].
  intros m. rewrite !switched_peaks_spl. destruct (peaks xs) as [|p0 r]; [auto|].
  exact (sp_sim tol xs Htol r false _ _ p0 _ _ p0 (ssame_refl _) (ssame_refl _) eq_refl eq_refl eq_refl m).
Qed.
