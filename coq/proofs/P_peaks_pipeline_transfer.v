(** Q -> R transfer for the pipeline transcription model/M_peaks_pipeline.v (conventions of lib/Transfer.v), and its
    consequence AT Q, i.e. for the very terms the correspondence run evaluates with vm_compute: on every list of rationals the
    pipeline transcription and the declarative model return the same index list. For all inputs. *)
From Coq Require Import ZArith QArith Reals List Bool Lia.
From EQ Require Import lib.Num lib.NpList lib.Transfer model.M_peaks model.M_peaks_pipeline.
From EQ Require Import proofs.P_Transfer_peaks proofs.P_peaks_pipeline.
Import ListNotations.

Lemma ne0_transfer a a' : rel a a' -> ne0 a = ne0 a'.
Proof. xfer_def ne0. Qed.
Lemma eq0_transfer a a' : rel a a' -> eq0 a = eq0 a'.
Proof. xfer_def eq0. Qed.
Lemma lt0_transfer a a' : rel a a' -> lt0 a = lt0 a'.
Proof. xfer_def lt0. Qed.
Ltac hook_pp1 h :=
  lazymatch h with
  | @ne0 => apply ne0_transfer
  | @eq0 => apply eq0_transfer
  | @lt0 => apply lt0_transfer
  | _ => fail
  end.
Ltac xfer_hook ::= xfer_dispatch hook_pp1.

Lemma clean_out_non_changing_p_transfer xs xs' : relL xs xs' ->
  relP relL eq (clean_out_non_changing_p xs) (clean_out_non_changing_p xs').
Proof.
  intros HF. unfold clean_out_non_changing_p, cl_cleaned_values, cl_non_zero_indices, cl_non_zero_indices0, cl_diff_values, np_insert0.
  xfer.
Qed.
Lemma peak_indices_cleaned_p_transfer xs xs' : relL xs xs' -> peak_indices_cleaned_p xs = peak_indices_cleaned_p xs'.
Proof.
  intros HF. unfold peak_indices_cleaned_p, pk_indices2, pk_indices1, pk_indices0, pk_prod, pk_diff, np_insert_end, np_insert0,
    sl_from1, sl_to_m1.
  xfer.
Qed.
Lemma gp_peak_full_indices_transfer xs xs' : relL xs xs' -> gp_peak_full_indices xs = gp_peak_full_indices xs'.
Proof.
  intros HF. pose proof (clean_out_non_changing_p_transfer xs xs' HF) as [H1 H2].
  unfold gp_peak_full_indices, gp_peak_cleaned_indices, gp_non_zero_indices, gp_cleaned_values.
  rewrite H2, (peak_indices_cleaned_p_transfer _ _ H1). reflexivity.
Qed.
Lemma gp_first_move_transfer xs xs' : relL xs xs' -> rel (gp_first_move xs) (gp_first_move xs').
Proof.
  intros HF. pose proof (clean_out_non_changing_p_transfer xs xs' HF) as [H1 H2].
  unfold gp_first_move, gp_moves, gp_moves0, mask_ne0, gp_cleaned_values. xfer.
Qed.
Lemma get_peak_array_indices_p_transfer pt xs xs' : relL xs xs' ->
  get_peak_array_indices_p pt xs = get_peak_array_indices_p pt xs'.
Proof.
  intros HF. unfold get_peak_array_indices_p. rewrite (gp_peak_full_indices_transfer xs xs' HF).
  pose proof (gp_first_move_transfer xs xs' HF) as Hm.
  rewrite (rel_ltb n0 (gp_first_move xs) n0 (gp_first_move xs') rel_0 Hm), (rel_leb (gp_first_move xs) n0 (gp_first_move xs') n0 Hm rel_0).
  reflexivity.
Qed.
Lemma zero_crossings_p_transfer keep xs xs' : relL xs xs' -> zero_crossings_p keep xs = zero_crossings_p keep xs'.
Proof.
  intros HF.
  assert (HZ0 : zc_zero_indices0 xs = zc_zero_indices0 xs') by (unfold zc_zero_indices0; xfer).
  assert (HZ : zc_zero_indices keep xs = zc_zero_indices keep xs').
  { unfold zc_zero_indices, zc_no_adj_is, zc_diff_is. rewrite HZ0. reflexivity. }
  assert (HT : zc_through_zero_indices xs = zc_through_zero_indices xs').
  { unfold zc_through_zero_indices, zc_sign_switch, zc_sign_switch0, np_insert0, sl_from1, sl_to_m1. xfer. }
  unfold zero_crossings_p, zc_all, zc_all0. rewrite HZ, HT. reflexivity.
Qed.

(** * at Q: the terms the correspondence run evaluates *)
Theorem pipeline_sel_Q (pt : nat) (qs : list Q) : first_up qs <> None ->
  get_peak_array_indices_p pt qs = peaks_sel pt qs.
Proof.
  intros Hnc. pose proof (relL_map_Q2R qs) as HF.
  rewrite (get_peak_array_indices_p_transfer pt qs _ HF), (peaks_sel_transfer pt qs _ HF).
  apply pipeline_sel. rewrite <- (first_up_transfer qs _ HF). exact Hnc.
Qed.
Theorem pipeline_constant_Q (pt : nat) (qs : list Q) : qs <> [] -> first_up qs = None ->
  get_peak_array_indices_p pt qs = match pt with O => [0; 0]%nat | _ => [0%nat] end.
Proof.
  intros Hne Hc. pose proof (relL_map_Q2R qs) as HF.
  rewrite (get_peak_array_indices_p_transfer pt qs _ HF). apply pipeline_constant.
  - destruct qs; [congruence|discriminate].
  - rewrite <- (first_up_transfer qs _ HF). exact Hc.
Qed.
Theorem pipeline_zc_Q keep (qs : list Q) : qs <> [] -> zero_crossings_p keep qs = zero_crossings keep 0%Q qs.
Proof.
  intros Hne. pose proof (relL_map_Q2R qs) as HF.
  rewrite (zero_crossings_p_transfer keep qs _ HF), (zero_crossings_transfer keep 0%Q 0%R qs _ rel_0 HF).
  apply pipeline_zc. destruct qs; [congruence|discriminate].
Qed.
Theorem pipeline_zc_tol_Q keep (tol : Q) (qs : list Q) : qs <> [] ->
  zero_crossings_tol_p keep tol qs = zero_crossings keep tol qs.
Proof.
  intros Hne. unfold zero_crossings_tol_p. rewrite (pipeline_zc_Q keep qs Hne).
  destruct qs as [|x r]; [congruence|]. unfold zero_crossings.
  change (nltb n0 0%Q) with false. cbv iota.
  destruct (nltb n0 tol); [apply tol_loop_is_prune|reflexivity].
Qed.

(** * switched peaks *)
Lemma argmax_abs_w_sign_p_transfer l l' last last' : relL l l' -> rel last last' ->
  argmax_abs_w_sign_p l last = argmax_abs_w_sign_p l' last'.
Proof.
  intros HF Hl. unfold argmax_abs_w_sign_p, aw_abs_vals', aw_same_sign, aw_abs_vals.
  assert (E : map (fun v => nltb n0 (nmul v last)) l = map (fun v => nltb n0 (nmul v last')) l') by xfer.
  rewrite E. xfer.
Qed.
Lemma sp_for_transfer tol tol' pv pv' : rel tol tol' -> relL pv pv' -> forall range last last' npi pvs pvs' pis,
  rel last last' -> relL pvs pvs' ->
  relP (relP (relP rel eq) relL) eq (sp_for tol pv range last npi pvs pis) (sp_for tol' pv' range last' npi pvs' pis).
Proof.
  intros Ht Hpv. induction range as [|i rest IH]; intros last last' npi pvs pvs' pis Hl Hs; cbn [sp_for].
  - repeat apply relP_intro; auto.
  - cbv zeta.
    assert (Hv : rel (nth i pv n0) (nth i pv' n0)) by xfer.
    assert (Eb : nleb (nmul (nadd (nth i pv n0) (nmul tol (nsign last))) last) n0 =
                 nleb (nmul (nadd (nth i pv' n0) (nmul tol' (nsign last'))) last') n0).
    { apply rel_leb; [|apply rel_0]. apply rel_mul; [|exact Hl]. apply rel_add; [exact Hv|]. apply rel_mul; [exact Ht|]. now apply nsign_transfer. }
    rewrite Eb. clear Eb. match goal with |- context [if ?b then _ else _] => destruct b end.
    + rewrite (argmax_abs_w_sign_p_transfer pvs pvs' last last' Hs Hl). apply IH; [exact Hv|]. cbn [app]. constructor; [exact Hv|constructor].
    + apply IH; [exact Hl|]. apply Forall2_app; [exact Hs|constructor; [exact Hv|constructor]].
Qed.
Lemma switched_peaks_p_transfer tol tol' xs xs' : rel tol tol' -> relL xs xs' -> switched_peaks_p tol xs = switched_peaks_p tol' xs'.
Proof.
  intros Ht HF. unfold switched_peaks_p. rewrite (get_peak_array_indices_p_transfer 0 xs xs' HF).
  set (P := get_peak_array_indices_p 0 xs').
  assert (Hpv : relL (take n0 xs P) (take n0 xs' P)) by xfer.
  assert (H0 : rel (nth 0 (take n0 xs P) n0) (nth 0 (take n0 xs' P) n0)) by xfer.
  rewrite (F2_length rel _ _ Hpv).
  pose proof (sp_for_transfer tol tol' _ _ Ht Hpv (seq 1 (length (take n0 xs' P) - 1)) _ _ [] [nth 0 (take n0 xs P) n0] [nth 0 (take n0 xs' P) n0] [0%nat] H0 ltac:(constructor; [exact H0|constructor])) as Hst.
  destruct (sp_for tol _ _ _ _ _ _) as [[[l1 n1'] s1] i1]. destruct (sp_for tol' _ _ _ _ _ _) as [[[l2 n2'] s2] i2].
  destruct Hst as [[[Hl Hn] Hs] Hi]. cbn [fst snd] in *. subst n2' i2.
  destruct Hs as [|a b s1' s2' Hab Hs']; [reflexivity|].
  rewrite (argmax_abs_w_sign_p_transfer (a :: s1') (b :: s2') l1 l2 ltac:(constructor; assumption) Hl). reflexivity.
Qed.
Theorem pipeline_sp_Q (tol : Q) (qs : list Q) : first_up qs <> None -> switched_peaks_p tol qs = switched_peaks tol qs.
Proof.
  intros Hnc. pose proof (relL_map_Q2R qs) as HF. pose proof (rel_Q2R tol) as Ht.
  rewrite (switched_peaks_p_transfer tol _ qs _ Ht HF), (switched_peaks_transfer tol _ qs _ Ht HF).
  apply pipeline_sp. rewrite <- (first_up_transfer qs _ HF). exact Hnc.
Qed.
