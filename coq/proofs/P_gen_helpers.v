(** The generated definitions of gen/Gen_helpers.v (re-translated from eqsig/fns/average.py and eqsig/fns/generic.py on every
    run by translator/py2coq_helpers.py) are the hand-written models of model/M_helpers.v, for ALL inputs.
    - gen_step_err, gen_step_levels: for every [NumOps] instance (no arithmetic law of T is used: list identities and
      integer arithmetic on indices only), so for the Q run of the correspondence and for the R theorems alike;
    - gen_roll_av: for every instance in which [b * n1 = b] (the source multiplies the edge value by np.ones), hence at R;
    - gen_interp_left: the selection part for every instance; the assertion [min(x0) >= x[0]] against the model's
      [existsb (fun q => q <? x[0]) x0] needs the order laws, hence at R. *)
From Coq Require Import String.
From Coq Require Import ZArith QArith Reals List Bool Lia Lra.
From EQ Require Import lib.Num lib.NpList lib.NpHelpers model.M_helpers gen.Gen_helpers proofs.P_C20.
Import ListNotations.
Local Open Scope num_scope.

(** the Python-level spelling of the model's mode / direction arguments *)
Definition rmode_of (mode : string) : rmode :=
  if String.eqb mode "forward" then Forward else if String.eqb mode "backward" then Backward else Centre.
Definition sdir_of (dir : option string) : sdir :=
  if opt_str_eqb dir "down" then DDown else if opt_str_eqb dir "up" then DUp else DNone.

(** ** list identities *)
Lemma map2_map_same {A B C D} (f : B -> C -> D) (g : A -> B) (h : A -> C) (l : list A) :
  map2 f (map g l) (map h l) = map (fun x => f (g x) (h x)) l.
Proof. induction l as [|x l IH]; cbn; [reflexivity | now rewrite IH]. Qed.
Lemma map2_map_l {A A' B C} (f : A' -> B -> C) (g : A -> A') (a : list A) (b : list B) :
  map2 f (map g a) b = map2 (fun x y => f (g x) y) a b.
Proof. revert b; induction a as [|x a IH]; intros [|y b]; cbn; try reflexivity. now rewrite IH. Qed.
Lemma map_map2 {A B C D} (g : C -> D) (f : A -> B -> C) (a : list A) (b : list B) :
  map g (map2 f a b) = map2 (fun x y => g (f x y)) a b.
Proof. revert b; induction a as [|x a IH]; intros [|y b]; cbn; try reflexivity. now rewrite IH. Qed.
Lemma map2_flip {A B C} (f : A -> B -> C) (a : list A) (b : list B) : map2 f a b = map2 (fun y x => f x y) b a.
Proof. revert b; induction a as [|x a IH]; intros [|y b]; cbn; try reflexivity. now rewrite IH. Qed.
Lemma map2_ext {A B C} (f g : A -> B -> C) (a : list A) (b : list B) : (forall x y, f x y = g x y) -> map2 f a b = map2 g a b.
Proof. intros E. revert b; induction a as [|x a IH]; intros [|y b]; cbn; try reflexivity. now rewrite IH, E. Qed.
Lemma map_const_repeat {A B} (c : B) (l : list A) : map (fun _ => c) l = repeat c (length l).
Proof. induction l; cbn; [reflexivity | now f_equal]. Qed.
Lemma skipn_last_one {A} (m : nat) : forall z : list A, length z = S m -> exists x, skipn m z = [x].
Proof.
  induction m as [|m IH]; intros [|a z] L; cbn in L; try discriminate.
  - destruct z; [now exists a | discriminate].
  - apply IH. now injection L.
Qed.
Lemma firstn_map_seq_last {B} (f : nat -> B) (m : nat) : firstn m (map f (seq 0 (S m))) = map f (seq 0 m).
Proof.
  rewrite seq_S, map_app, firstn_app, map_length, seq_length, Nat.sub_diag. cbn [firstn].
  rewrite app_nil_r. apply firstn_all2. now rewrite map_length, seq_length.
Qed.
Lemma skipn1_map_seq {B} (g : nat -> B) (m : nat) : skipn 1 (map g (seq 0 (S m))) = map (fun i => g (S i)) (seq 0 m).
Proof. cbn. now rewrite <- seq_shift, map_map. Qed.

Section Generic.
Context {T : Type} `{NumOps T}.

Lemma npow_npw (x : T) (e : nat) : npow x e = npw x e.
Proof. induction e; cbn; [reflexivity | now rewrite IHe]. Qed.
Lemma np_mean_mean (l : list T) : np_mean l = mean l.
Proof. reflexivity. Qed.
Lemma np_argmin_argmin (l : list T) : np_argmin l = argmin l.
Proof.
  destruct l as [|x r]; [reflexivity|]. cbn. generalize x 0%nat 1%nat.
  induction r as [|y r IH]; intros b bi i; cbn; [reflexivity|]. destruct (y <? b); apply IH.
Qed.
Lemma searchsorted_ss (x : list T) (q : T) : searchsorted_right x q = ss_right q x.
Proof. induction x as [|a r IH]; cbn; [reflexivity|]. destruct (a <=? q); [now rewrite IH | reflexivity]. Qed.

(** ** calc_step_fn_vals_error *)
Lemma tril_rows (v : list T) : np_tril 0%Z v = map (fun i => tril_row (length v) i v) (seq 0 (length v)).
Proof.
  unfold np_tril, tril_row. apply map_ext. intros i. cbv zeta.
  replace (Z.to_nat (Z.of_nat i + 0 + 1)) with (S i) by lia. reflexivity.
Qed.
Lemma triu_rows (v : list T) : np_triu 0%Z v = map (fun i => triu_row (length v) i v) (seq 0 (length v)).
Proof.
  unfold np_triu, triu_row. apply map_ext_in. intros i Hi. apply in_seq in Hi. cbv zeta.
  replace (Z.to_nat (Z.of_nat i + 0)) with i by lia. now rewrite Nat.min_r by lia.
Qed.
Lemma arange_up_1 (n : nat) : arange_up 1%Z (Z.of_nat n + 1) = map (fun i => Z.of_nat (S i)) (seq 0 n).
Proof.
  unfold arange_up. replace (Z.to_nat (Z.of_nat n + 1 - 1)) with n by lia. apply map_ext. intros; lia.
Qed.
Lemma arange_down_0 (n : nat) : arange_down (Z.of_nat n) 0%Z = map (fun i => Z.of_nat (n - i)) (seq 0 n).
Proof.
  unfold arange_down. replace (Z.to_nat (Z.of_nat n - 0)) with n by lia. apply map_ext_in.
  intros i Hi. apply in_seq in Hi. lia.
Qed.

Lemma pre_mean_vec (v : list T) :
  map2 (fun x k => x / nofZ k) (map nsum (np_tril 0%Z v)) (arange_up 1%Z (Z.of_nat (length v) + 1)) = map (pre_mean v) (seq 0 (length v)).
Proof. rewrite tril_rows, arange_up_1, map_map, map2_map_same; try reflexivity. Qed.
Lemma post_mean_vec (v : list T) :
  map2 (fun x k => x / nofZ k) (map nsum (np_triu 0%Z v)) (arange_down (Z.of_nat (length v)) 0%Z) = map (post_mean v) (seq 0 (length v)).
Proof. rewrite triu_rows, arange_down_0, map_map, map2_map_same; try reflexivity. Qed.

Lemma dev_fused (p : nat) (m : T) (row : list T) :
  nsum (map (fun x => npow x p) (map nabs (map (fun x => x - m) row))) = dev p m row.
Proof. unfold dev. rewrite !map_map. reflexivity. Qed.

Lemma err_pre_vec (p : nat) (v : list T) :
  map2 nsub
    (map nsum (map (map (fun x => npow x p)) (map (map nabs)
       (map2 (fun r m => map (fun x => x - m) r) (np_tril 0%Z v) (map (pre_mean v) (seq 0 (length v)))))))
    (map2 (fun k x => nofZ k * x) (map (fun k => Z.sub (Z.of_nat (length v)) k) (arange_up 1%Z (Z.of_nat (length v) + 1)))
       (map (fun x => npow x p) (map nabs (map (pre_mean v) (seq 0 (length v))))))
  = map (err_pre p v) (seq 0 (length v)).
Proof.
  rewrite tril_rows, arange_up_1, map2_map_same, !map_map, map2_map_same, map2_map_same.
  apply map_ext_in. intros i Hi. apply in_seq in Hi.
  unfold err_pre, side_err. cbv zeta. fold (pre_mean v i). rewrite dev_fused, npow_npw. unfold ofnat.
  replace (Z.of_nat (length v) - Z.of_nat (S i))%Z with (Z.of_nat (length v - S i)) by lia. reflexivity.
Qed.
Lemma err_post_vec (p : nat) (v : list T) :
  map2 nsub
    (map nsum (map (map (fun x => npow x p)) (map (map nabs)
       (map2 (fun r m => map (fun x => x - m) r) (np_triu 0%Z v) (map (post_mean v) (seq 0 (length v)))))))
    (map2 (fun k x => nofZ k * x) (map (fun k => Z.sub (Z.of_nat (length v)) k) (arange_down (Z.of_nat (length v)) 0%Z))
       (map (fun x => npow x p) (map nabs (map (post_mean v) (seq 0 (length v))))))
  = map (err_post p v) (seq 0 (length v)).
Proof.
  rewrite triu_rows, arange_down_0, map2_map_same, !map_map, map2_map_same, map2_map_same.
  apply map_ext_in. intros i Hi. apply in_seq in Hi.
  unfold err_post, side_err. cbv zeta. fold (post_mean v i). rewrite dev_fused, npow_npw. unfold ofnat.
  replace (Z.of_nat (length v) - Z.of_nat (length v - i))%Z with (Z.of_nat (length v - (length v - i))) by lia. reflexivity.
Qed.

(** the three in-place statements [err = ones_like; err[:-1] = post[1:] + pre[:-1]; err[-1] = D] *)
Lemma err_assembly (f g : nat -> T) (D : T) (v : list T) : v <> [] ->
  set_last (set_upto_last (map (fun _ => n1) v)
              (map2 nadd (skipn 1 (map g (seq 0 (length v))))
                         (firstn (Nat.sub (length (map f (seq 0 (length v)))) 1) (map f (seq 0 (length v)))))) D
  = map (fun i => if (S i =? length v)%nat then D else g (S i) + f i) (seq 0 (length v)).
Proof.
  intros Hv. rewrite map_length, seq_length.
  assert (Hl : length (map (fun _ : T => n1) v) = length v) by apply map_length.
  unfold set_upto_last. rewrite Hl. clear Hl.
  destruct (length v) as [|m] eqn:E; [destruct v; [congruence | discriminate]|].
  replace (S m - 1)%nat with m by lia.
  destruct (skipn_last_one m (map (fun _ : T => n1) v)) as [x Hx]; [now rewrite map_length|].
  rewrite Hx. unfold set_last. rewrite removelast_last.
  rewrite skipn1_map_seq, firstn_map_seq_last, map2_map_same.
  rewrite seq_S, map_app. cbn [map Nat.add]. rewrite Nat.eqb_refl. f_equal.
  apply map_ext_in. intros i Hi. apply in_seq in Hi.
  destruct (Nat.eqb_spec (S i) (S m)); [lia | reflexivity].
Qed.

Lemma opt_str_down_up (dir : option string) : opt_str_eqb dir "down" = true -> opt_str_eqb dir "up" = false.
Proof. destruct dir as [s|]; cbn; [|discriminate]. intros E. apply String.eqb_eq in E. now subst. Qed.

Lemma where_vec (a b : nat -> T) (s : T) (l : list nat) (err : list T) :
  map2 (fun (c : bool) e => if c then s else e) (map2 (fun x y => x <? y) (map a l) (map b l)) err
  = map2 (fun e i => if a i <? b i then s else e) err l.
Proof. rewrite map2_map_same, map2_map_l. apply map2_flip. Qed.
Lemma where_vec_gt (a b : nat -> T) (s : T) (l : list nat) (err : list T) :
  map2 (fun (c : bool) e => if c then s else e) (map2 (fun x y => y <? x) (map a l) (map b l)) err
  = map2 (fun e i => if b i <? a i then s else e) err l.
Proof. rewrite map2_map_same, map2_map_l. apply map2_flip. Qed.

Theorem gen_step_err_eq (p : nat) (dir : option string) (v : list T) : v <> [] ->
  gen_step_err v (Z.of_nat p) dir = step_err p (sdir_of dir) v.
Proof.
  intros Hv. unfold gen_step_err. cbv zeta. rewrite Nat2Z.id.
  rewrite !pre_mean_vec, !post_mean_vec, err_pre_vec, err_post_vec.
  rewrite (map_map _ nabs), (map_map _ (fun x => npow x p)).
  assert (Eraw : set_last (set_upto_last (map (fun _ : T => n1) v)
                   (map2 nadd (skipn 1 (map (err_post p v) (seq 0 (length v))))
                      (firstn (Nat.sub (length (map (err_pre p v) (seq 0 (length v)))) 1) (map (err_pre p v) (seq 0 (length v))))))
                   (nsum (map (fun x => npow (nabs (x - np_mean v)) p) v)) = step_err_raw p v).
  { rewrite err_assembly by exact Hv. unfold step_err_raw. cbv zeta. apply map_ext. intros i.
    destruct (S i =? length v)%nat; reflexivity. }
  rewrite Eraw. unfold step_err, sdir_of. cbv zeta.
  destruct (opt_str_eqb dir "down") eqn:Ed.
  - rewrite (opt_str_down_up _ Ed). apply where_vec.
  - destruct (opt_str_eqb dir "up") eqn:Eu; [apply where_vec_gt | reflexivity].
Qed.

Lemma sdir_of_other (dir : option string) : dir <> Some "down"%string -> dir <> Some "up"%string -> sdir_of dir = DNone.
Proof.
  intros Hd Hu. unfold sdir_of. destruct dir as [s|]; cbn; [|reflexivity].
  destruct (String.eqb_spec s "down"); [subst; congruence|]. destruct (String.eqb_spec s "up"); [subst; congruence | reflexivity].
Qed.
Theorem gen_step_err_cases (p : nat) (v : list T) : v <> [] ->
  gen_step_err v (Z.of_nat p) (Some "down"%string) = step_err p DDown v /\
  gen_step_err v (Z.of_nat p) (Some "up"%string) = step_err p DUp v /\
  (forall dir, dir <> Some "down"%string -> dir <> Some "up"%string -> gen_step_err v (Z.of_nat p) dir = step_err p DNone v).
Proof.
  intros Hv. repeat split; try (now rewrite gen_step_err_eq by exact Hv).
  intros dir Hd Hu. rewrite gen_step_err_eq by exact Hv. now rewrite sdir_of_other.
Qed.

(** ** calc_step_fn_steps_vals *)
Theorem gen_step_levels_ind_eq (v : list T) (ind : nat) : gen_step_levels v (Some (Z.of_nat ind)) = step_levels v ind.
Proof.
  unfold gen_step_levels, step_levels. cbv zeta. rewrite Nat2Z.id.
  replace (Z.to_nat (Z.of_nat ind + 1)) with (S ind) by lia. reflexivity.
Qed.
Theorem gen_step_levels_auto_eq (v : list T) : v <> [] -> gen_step_levels v None = step_levels_auto v.
Proof.
  intros Hv. unfold gen_step_levels, step_levels_auto, step_levels. cbv zeta.
  change 1%Z with (Z.of_nat 1). rewrite (gen_step_err_eq 1 None v Hv), np_argmin_argmin, Nat2Z.id.
  replace (Z.to_nat (Z.of_nat (argmin (step_err 1 (sdir_of None) v)) + Z.of_nat 1)) with (S (argmin (step_err 1 (sdir_of None) v))) by lia.
  reflexivity.
Qed.

(** ** calc_roll_av_vals: everything except [b * np.ones(k) = full(k, b)] is generic *)
Lemma roll_ext_src (Hone : forall b : T, b * n1 = b) (steps : nat) (mode : string) (v : list T) :
  (if String.eqb mode "forward" then v ++ map (fun x => last v n0 * x) (repeat n1 (Z.to_nat (Z.of_nat steps - 1)))
   else if String.eqb mode "backward" then map (fun x => hd n0 v * x) (repeat n1 (Z.to_nat (Z.of_nat steps - 1))) ++ v
   else map (fun x => hd n0 v * x) (repeat n1 (Z.to_nat (Z.of_nat steps / 2))) ++ v ++
        map (fun x => last v n0 * x) (repeat n1 (Z.to_nat (Z.of_nat steps - Z.of_nat steps / 2 - 1))))
  = roll_ext steps (rmode_of mode) v.
Proof.
  assert (Hrep : forall b k, map (fun x => b * x) (repeat n1 k) = repeat b k).
  { intros b k. induction k as [|k IH]; cbn; [reflexivity | now rewrite IH, Hone]. }
  unfold rmode_of, roll_ext. rewrite !Hrep.
  replace (Z.to_nat (Z.of_nat steps - 1)) with (steps - 1)%nat by lia.
  change 2%Z with (Z.of_nat 2). rewrite <- Nat2Z.inj_div.
  replace (Z.to_nat (Z.of_nat steps - Z.of_nat (steps / 2) - 1)) with (steps - steps / 2 - 1)%nat by lia.
  rewrite Nat2Z.id.
  destruct (String.eqb mode "forward"); [reflexivity|]. destruct (String.eqb mode "backward"); reflexivity.
Qed.

Theorem gen_roll_av_eq_of (Hone : forall b : T, b * n1 = b) (steps : nat) (mode : string) (v : list T) : (1 <= steps)%nat ->
  gen_roll_av v (Z.of_nat steps) mode = roll_av steps (rmode_of mode) v.
Proof.
  intros Hs. unfold gen_roll_av. cbv zeta. rewrite (roll_ext_src Hone). rewrite Nat2Z.id.
  unfold roll_av. cbv zeta. set (ext := roll_ext steps (rmode_of mode) v).
  assert (Ec : set_from 1 (repeat n0 (Z.to_nat (Z.of_nat (length v) + Z.of_nat steps))) (cumsum ext) = n0 :: cumsum ext).
  { unfold set_from. replace (Z.to_nat (Z.of_nat (length v) + Z.of_nat steps)) with (S (length v + steps - 1)) by lia. reflexivity. }
  rewrite Ec. rewrite map_map2. reflexivity.
Qed.

(** ** interp_left: the selection (everything after the assertion) *)
Lemma default_y (n : nat) : map nofZ (arange_up 0%Z (Z.of_nat n)) = @M_helpers.arange T _ n.
Proof.
  unfold arange_up, M_helpers.arange, ofnat. replace (Z.to_nat (Z.of_nat n - 0)) with n by lia. rewrite map_map.
  apply map_ext. intros k. now rewrite Z.add_0_l.
Qed.
Lemma select_src (qs xs y : list T) :
  map (fun k => nth (Z.to_nat k) y n0) (map (fun k => Z.sub k 1%Z) (map (fun x => Z.of_nat (searchsorted_right xs x)) qs))
  = map (fun q => nth (left_index xs q) y n0) qs.
Proof.
  rewrite !map_map. apply map_ext. intros q. unfold left_index. rewrite searchsorted_ss. f_equal. lia.
Qed.
End Generic.

(** ** at R *)
Local Open Scope R_scope.

Theorem gen_roll_av_eq (steps : nat) (mode : string) (v : list R) : (1 <= steps)%nat ->
  gen_roll_av v (Z.of_nat steps) mode = roll_av steps (rmode_of mode) v.
Proof. apply gen_roll_av_eq_of. intros b. numR. apply Rmult_1_r. Qed.

Lemma rmode_of_other (mode : string) : mode <> "forward"%string -> mode <> "backward"%string -> rmode_of mode = Centre.
Proof.
  intros Hf Hb. unfold rmode_of. destruct (String.eqb_spec mode "forward"); [congruence|].
  destruct (String.eqb_spec mode "backward"); [congruence | reflexivity].
Qed.
Theorem gen_roll_av_cases (steps : nat) (v : list R) : (1 <= steps)%nat ->
  gen_roll_av v (Z.of_nat steps) "forward" = roll_av steps Forward v /\
  gen_roll_av v (Z.of_nat steps) "backward" = roll_av steps Backward v /\
  (forall mode, mode <> "forward"%string -> mode <> "backward"%string -> gen_roll_av v (Z.of_nat steps) mode = roll_av steps Centre v).
Proof.
  intros Hs. repeat split; try (now rewrite gen_roll_av_eq by exact Hs).
  intros mode Hf Hb. rewrite gen_roll_av_eq by exact Hs. now rewrite rmode_of_other.
Qed.

(** [min(x0) >= x[0]] is the model's test "no query below the first node" *)
Lemma fold_nmin_le (l : list R) : forall a b, (a <= fold_left nmin l b <-> a <= b /\ Forall (fun q => a <= q) l).
Proof.
  induction l as [|x l IH]; intros a b; cbn [fold_left].
  - split; [intros; split; [assumption | constructor] | tauto].
  - rewrite IH. unfold nmin. numR. case_Rltb x b.
    + split; [intros [A B]; split; [lra | constructor; assumption] | intros [A B]; inversion B; subst; split; [lra | assumption]].
    + split; [intros [A B]; split; [lra | constructor; [lra | assumption]] | intros [A B]; inversion B; subst; split; assumption].
Qed.
Ltac numG := cbn [n0 n1 nadd nsub nmul ndiv nopp nabs nltb nleb neqb nofZ NumR].
Lemma assert_src (a : R) (qs : list R) : qs <> [] -> nleb a (amin qs) = negb (existsb (fun q => q <? a)%num qs).
Proof.
  intros Hq. destruct qs as [|b l]; [congruence|]. unfold amin.
  assert (Hex : forall q, In q (b :: l) -> q < a -> existsb (fun q => q <? a)%num (b :: l) = true).
  { intros q Hin Hlt. apply existsb_exists. exists q. split; [assumption | numG; now apply Rltb_true]. }
  destruct (existsb (fun q => q <? a)%num (b :: l)) eqn:E; cbn [negb]; numG.
  - apply Rleb_false. apply existsb_exists in E. destruct E as (q & Hin & Hlt). apply Rltb_true in Hlt.
    apply Rnot_le_lt. intros Hle. apply fold_nmin_le in Hle. destruct Hle as [A B].
    destruct Hin as [-> | Hin]; [lra|]. rewrite Forall_forall in B. specialize (B q Hin). lra.
  - apply Rleb_true. apply fold_nmin_le.
    assert (Hall : forall q, In q (b :: l) -> a <= q).
    { intros q Hin. destruct (Rle_or_lt a q) as [ | Hlt]; [assumption|]. specialize (Hex q Hin Hlt). congruence. }
    split; [apply Hall; now left | apply Forall_forall; intros q Hin; apply Hall; now right].
Qed.

Theorem gen_interp_left_eq (qs xs : list R) (ys : option (list R)) : xs <> [] -> qs <> [] ->
  gen_interp_left qs xs ys = interp_left qs xs (match ys with None => M_helpers.arange (length xs) | Some y => y end).
Proof.
  intros Hx Hq. unfold gen_interp_left, interp_left. cbv zeta. destruct xs as [|a r]; [congruence|].
  cbn [hd]. rewrite (assert_src a qs Hq). destruct (existsb _ qs); cbn [negb]; [reflexivity|].
  f_equal. rewrite select_src. destruct ys as [y|]; [reflexivity|]. now rewrite default_y.
Qed.
Theorem gen_interp_left_scalar_eq (q : R) (xs : list R) (ys : option (list R)) : xs <> [] ->
  gen_interp_left_scalar q xs ys =
  option_map (hd 0) (interp_left [q] xs (match ys with None => M_helpers.arange (length xs) | Some y => y end)).
Proof.
  intros Hx. rewrite <- (gen_interp_left_eq [q] xs ys Hx) by discriminate.
  unfold gen_interp_left_scalar, gen_interp_left. cbv zeta. destruct (_ <=? _)%num; reflexivity.
Qed.
Theorem gen_step_levels_eq (T : Type) (ops : NumOps T) (v : list T) :
  (forall ind : nat, gen_step_levels v (Some (Z.of_nat ind)) = step_levels v ind) /\
  (v <> [] -> gen_step_levels v None = step_levels_auto v).
Proof. split; [apply gen_step_levels_ind_eq | apply gen_step_levels_auto_eq]. Qed.

(** once the assertion has passed (nodes non-empty, every query >= x[0]) no computed index is -1: numpy's wrap-around of
    a negative index in [y[inds]] does not occur *)
Theorem gen_interp_left_indices_nonneg (qs xs : list R) : xs <> [] -> nleb (hd 0 xs) (amin qs) = true -> qs <> [] ->
  Forall (fun k => (0 <= k)%Z) (map (fun k => Z.sub k 1%Z) (map (fun x => Z.of_nat (searchsorted_right xs x)) qs)).
Proof.
  intros Hx Ha Hq. destruct xs as [|a r]; [congruence|]. cbn [hd] in Ha.
  rewrite (assert_src a qs Hq) in Ha. apply negb_true_iff in Ha.
  rewrite map_map. apply Forall_forall. intros k Hk. apply in_map_iff in Hk. destruct Hk as (q & <- & Hin).
  cbn [searchsorted_right]. numG. case_Rleb a q; [lia|]. exfalso.
  assert (existsb (fun q => q <? a)%num qs = true) by (apply existsb_exists; exists q; split; [assumption | numG; now apply Rltb_true]).
  congruence.
Qed.

(** ** the shapes numpy requires to agree do agree in the source (the reading itself does not check them: [map2] truncates
    and [set_from] / [set_upto_last] concatenate where numpy would raise) *)
Theorem gen_shapes_agree (steps : nat) (m : rmode) (f g : nat -> R) (v : list R) : (1 <= steps)%nat ->
  (* csum[1:] = np.cumsum(x_ext): len(x_ext) = len(csum) - 1 *)
  length (cumsum (roll_ext steps m v)) = (length (repeat 0 (Z.to_nat (Z.of_nat (length v) + Z.of_nat steps))) - 1)%nat /\
  (* csum[steps:] - csum[:-steps]: equal lengths, for every csum *)
  (forall c : list R, length (skipn steps c) = length (firstn (length c - steps) c)) /\
  (* err[:-1] = err_post[1:] + err_pre[:-1]: both operands and the target slice have len(values) - 1 entries *)
  (length (skipn 1 (map g (seq 0 (length v)))) = (length v - 1)%nat /\
   length (firstn (length (map f (seq 0 (length v))) - 1) (map f (seq 0 (length v)))) = (length v - 1)%nat /\
   (length (map (fun _ : R => 1) v) - 1 = length v - 1)%nat).
Proof.
  intros Hs. repeat split.
  - rewrite cumsum_length, roll_ext_length, repeat_length by exact Hs. lia.
  - intros c. rewrite skipn_length, firstn_length. lia.
  - rewrite skipn_length, map_length, seq_length. reflexivity.
  - rewrite firstn_length, !map_length, seq_length. lia.
  - now rewrite map_length.
Qed.

(** ** defaults of the signatures *)
Lemma gen_helper_defaults :
  rmode_of gen_roll_av_default_mode = Forward /\ gen_step_err_default_pow = 1%Z /\ sdir_of gen_step_err_default_dir = DNone /\
  gen_step_levels_default_ind = None /\ gen_interp_left_default_y_is_none = true.
Proof. repeat split. Qed.
