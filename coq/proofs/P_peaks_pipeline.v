(** The numpy pipeline of eqsig/fns/peaks_and_crossings.py, transcribed statement by statement in model/M_peaks_pipeline.v,
    EQUALS the declarative model of model/M_peaks.v, for all series over R (no bound on the length):
      - [pipeline_all]  : non-constant series  -> get_peak_array_indices_p 0 xs = peaks xs
      - [pipeline_sel]  : non-constant series  -> get_peak_array_indices_p pt xs = peaks_sel pt xs  (all / max / min)
      - [pipeline_constant] : constant series  -> the pipeline returns [0;0] (all) and [0] (max, min)
      - [pipeline_zc]   : non-empty series     -> zero_crossings_p keep xs = zero_crossings keep 0 xs
      - [pipeline_zc_tol] : non-empty series   -> zero_crossings_tol_p keep tol xs = zero_crossings keep tol xs  (the tolerance loop)
      - [pipeline_sp]   : non-constant series  -> switched_peaks_p tol xs = switched_peaks tol xs  (the Python loop with its lists)
    and the duplicated index 0 that [np.ediff1d(values, to_begin=values[0])] produces when values[0] <> 0 is shown to be
    invisible in every later statement ([dup_index0_invisible]). *)
From Coq Require Import ZArith Reals List Bool Lra Lia Sorting.Mergesort Sorting.Sorted Sorting.Permutation.
From EQ Require Import lib.Num lib.NpList lib.Where model.M_peaks model.M_peaks_pipeline proofs.P_C11 proofs.P_C12.
Import ListNotations.
Local Open Scope R_scope.

(** * strictly ascending index lists *)
Lemma asc_ext : forall a b, ascending a -> ascending b -> (forall x, In x a <-> In x b) -> a = b.
Proof.
  induction a as [|i r IH]; intros [|j s] Ha Hb Hin.
  - reflexivity.
  - exfalso. apply (Hin j). now left.
  - exfalso. apply (Hin i). now left.
  - inversion Ha as [|? ? Hi Har]; inversion Hb as [|? ? Hj Hbs]; subst.
    assert (E : i = j).
    { assert (H1 : In i (j :: s)) by (apply Hin; now left). assert (H2 : In j (i :: r)) by (apply Hin; now left).
      destruct H1 as [H1|H1]; [auto|]. destruct H2 as [H2|H2]; [auto|]. specialize (Hi _ H2). specialize (Hj _ H1). lia. }
    subst j. f_equal. apply IH; auto. intros x. split; intros Hx.
    + assert (Hx' : In x (i :: s)) by (apply Hin; now right). destruct Hx' as [<-|Hx']; [|exact Hx']. specialize (Hi _ Hx). lia.
    + assert (Hx' : In x (i :: r)) by (apply Hin; now right). destruct Hx' as [<-|Hx']; [|exact Hx']. specialize (Hj _ Hx). lia.
Qed.
Lemma asc_nth_lt l : ascending l -> forall a b d, (a < b < length l)%nat -> (nth a l d < nth b l d)%nat.
Proof.
  induction 1 as [|i r Hi Hr IH]; intros a b d Hab; cbn [length] in *; [lia|].
  destruct b as [|b]; [lia|]. destruct a as [|a]; cbn [nth].
  - apply Hi. apply nth_In. lia.
  - apply IH. lia.
Qed.
Lemma asc_nth_le l : ascending l -> forall a b d, (a <= b < length l)%nat -> (nth a l d <= nth b l d)%nat.
Proof.
  intros Hl a b d Hab. destruct (Nat.eq_dec a b) as [->|Hne]; [lia|].
  pose proof (asc_nth_lt l Hl a b d ltac:(lia)). lia.
Qed.
(** nothing of the list lies strictly between two consecutive elements *)
Lemma asc_no_between l k j : ascending l -> (S k < length l)%nat -> In j l -> ~ (nth k l 0 < j < nth (S k) l 0)%nat.
Proof.
  intros Hl Hk Hj Hb. apply (In_nth _ _ 0%nat) in Hj as (t & Ht & <-).
  destruct (Nat.le_gt_cases t k) as [Hle|Hgt].
  - pose proof (asc_nth_le l Hl t k 0%nat ltac:(lia)). lia.
  - pose proof (asc_nth_le l Hl (S k) t 0%nat ltac:(lia)). lia.
Qed.
Lemma asc_map (f : nat -> nat) l : ascending l ->
  (forall a b, In a l -> In b l -> (a < b)%nat -> (f a < f b)%nat) -> ascending (map f l).
Proof.
  induction 1 as [|i r Hi Hr IH]; intros Hf; cbn [map]; constructor.
  - intros j Hj. apply in_map_iff in Hj as (b & <- & Hb). apply Hf; [now left|now right|auto].
  - apply IH. intros a b Ha Hb. apply Hf; now right.
Qed.
Lemma asc_snoc l z : ascending l -> (forall y, In y l -> (y < z)%nat) -> ascending (l ++ [z]).
Proof.
  induction 1 as [|i r Hi Hr IH]; intros Hz; cbn [app].
  - constructor; [intros ? []|constructor].
  - constructor.
    + intros j Hj. apply in_app_iff in Hj as [Hj|[<-|[]]]; [auto|]. apply Hz. now left.
    + apply IH. intros y Hy. apply Hz. now right.
Qed.
Lemma asc_NoDup l : ascending l -> NoDup l.
Proof. induction 1 as [|i r Hi Hr IH]; constructor; auto. intros Hin. specialize (Hi _ Hin). lia. Qed.
Lemma NoDup_app' {A} (l m : list A) : NoDup l -> NoDup m -> (forall x, In x l -> ~ In x m) -> NoDup (l ++ m).
Proof.
  induction 1 as [|a l Ha Hl IH]; intros Hm Hd; cbn [app]; [exact Hm|]. constructor.
  - rewrite in_app_iff. intros [H|H]; [auto|]. apply (Hd a); [now left|exact H].
  - apply IH; auto. intros x Hx. apply Hd. now right.
Qed.
(** the result of a sort without duplicates is strictly ascending *)
Lemma natleb_le a b : NatOrder.leb a b = true -> (a <= b)%nat.
Proof. revert b; induction a as [|a IH]; intros [|b] Hab; cbn in Hab; try lia; try discriminate. apply IH in Hab. lia. Qed.
Lemma sorted_nodup_asc l : Sorted (fun x y => is_true (NatOrder.leb x y)) l -> NoDup l -> ascending l.
Proof.
  induction 1 as [|a l Hs IH Hhd]; intros Hnd; [constructor|].
  inversion Hnd as [|? ? Hnin Hnd']; subst. specialize (IH Hnd'). constructor; [|exact IH].
  destruct Hhd as [|b l' Hab]; [intros ? []|]. apply natleb_le in Hab.
  assert (a <> b) by (intros ->; apply Hnin; now left).
  intros j [<-|Hj]; [lia|]. inversion IH as [|? ? Hb _]; subst. specialize (Hb _ Hj). lia.
Qed.
Lemma np_sort_In l x : In x (np_sort l) <-> In x l.
Proof.
  unfold np_sort. split; intros Hx.
  - eapply Permutation_in; [apply Permutation_sym, NatSort.Permuted_sort|exact Hx].
  - eapply Permutation_in; [apply NatSort.Permuted_sort|exact Hx].
Qed.
Lemma np_sort_ascending l : NoDup l -> ascending (np_sort l).
Proof.
  intros Hnd. apply sorted_nodup_asc; [apply NatSort.Sorted_sort|].
  eapply Permutation_NoDup; [apply NatSort.Permuted_sort|exact Hnd].
Qed.

(** * slices, diff, products *)
Lemma removelast_length' {A} (l : list A) : length (removelast l) = (length l - 1)%nat.
Proof. induction l as [|a [|b r] IH]; [reflexivity|reflexivity|]. cbn [removelast length] in *. lia. Qed.
Lemma removelast_nth {A} (l : list A) k d : (S k < length l)%nat -> nth k (removelast l) d = nth k l d.
Proof.
  revert k; induction l as [|a [|b r] IH]; intros k Hk; cbn [length] in Hk; try lia.
  destruct k as [|k]; [reflexivity|]. cbn [removelast nth] in *. apply IH. cbn [length]. lia.
Qed.
Lemma tl_nth {A} (l : list A) k d : nth k (tl l) d = nth (S k) l d.
Proof. destruct l; [destruct k; reflexivity|reflexivity]. Qed.
Lemma tl_length {A} (l : list A) : length (tl l) = (length l - 1)%nat.
Proof. destruct l; cbn; lia. Qed.
Lemma pp_diff_length (l : list R) : length (diff l) = (length l - 1)%nat.
Proof. induction l as [|a [|b r] IH]; [reflexivity|reflexivity|]. cbn [diff length] in *. lia. Qed.
Lemma pp_diff_nth (l : list R) k : (S k < length l)%nat -> nth k (diff l) 0 = nth (S k) l 0 - nth k l 0.
Proof.
  revert k; induction l as [|a [|b r] IH]; intros k Hk; cbn [length] in Hk; try lia.
  destruct k as [|k]; [reflexivity|]. cbn [diff nth] in *. apply IH. cbn [length]. lia.
Qed.
Lemma diffZ_length (l : list Z) : length (diffZ l) = (length l - 1)%nat.
Proof. induction l as [|a [|b r] IH]; [reflexivity|reflexivity|]. cbn [diffZ length] in *. lia. Qed.
Lemma diffZ_nth (l : list Z) k : (S k < length l)%nat -> nth k (diffZ l) 0%Z = (nth (S k) l 0 - nth k l 0)%Z.
Proof.
  revert k; induction l as [|a [|b r] IH]; intros k Hk; cbn [length] in Hk; try lia.
  destruct k as [|k]; [reflexivity|]. cbn [diffZ nth] in *. apply IH. cbn [length]. lia.
Qed.
(** x[1:] * x[:-1] : entry k is x[k+1] * x[k] *)
Lemma shift_prod_length (l : list R) : length (vmul (sl_from1 l) (sl_to_m1 l)) = (length l - 1)%nat.
Proof. unfold vmul, sl_from1, sl_to_m1. rewrite map2_length, tl_length, removelast_length'. lia. Qed.
Lemma shift_prod_nth (l : list R) k : (S k < length l)%nat ->
  nth k (vmul (sl_from1 l) (sl_to_m1 l)) 0 = nth (S k) l 0 * nth k l 0.
Proof.
  intros Hk. unfold vmul, sl_from1, sl_to_m1.
  rewrite (map2_nth _ _ _ 0 0) by (rewrite ?tl_length, ?removelast_length'; lia).
  rewrite tl_nth, removelast_nth by lia. reflexivity.
Qed.
Lemma take_In {A} (d : A) l idx x : In x (take d l idx) <-> exists k, In k idx /\ x = nth k l d.
Proof. unfold take. rewrite in_map_iff. split; intros (k & H1 & H2); exists k; [split; auto|split; auto]. Qed.
Lemma nth_last {A} (l : list A) d : nth (length l - 1) l d = last l d.
Proof. induction l as [|a [|b r] IH]; [reflexivity|reflexivity|]. cbn [length last] in *. rewrite <- IH. cbn. now rewrite Nat.sub_0_r. Qed.
Lemma where_from_cons_false {A} (p : A -> bool) z l : p z = false -> where_idx p (z :: l) = map S (where_idx p l).
Proof.
  intros Hz. unfold where_idx. cbn [where_from]. rewrite Hz, where_from_shift. apply map_ext. intros; lia.
Qed.
Lemma where_idx_ascending {A} (d : A) (p : A -> bool) l : ascending (where_idx p l).
Proof. apply (where_from_ascending d). Qed.

(** element-wise tests at R *)
Lemma ne0_R (a : R) : ne0 a = true <-> a <> 0.
Proof. unfold ne0. rewrite negb_true_iff. apply neqb_R_false. Qed.
Lemma eq0_R (a : R) : eq0 a = true <-> a = 0.
Proof. unfold eq0. apply neqb_R. Qed.
Lemma lt0_R (a : R) : lt0 a = true <-> a < 0.
Proof. unfold lt0. apply nltb_R. Qed.

(** * clean_out_non_changing: the plateau starts, with index 0 twice when values[0] <> 0 *)
Definition pstarts (xs : list R) : list nat := filter (pstart xs) (seq 0 (length xs)).
Definition cleaned (xs : list R) : list R := map (xat xs) (pstarts xs).
Lemma pstarts_In xs i : In i (pstarts xs) <-> (i < length xs)%nat /\ pstart xs i = true.
Proof. apply filter_seq_In. Qed.
Lemma pstarts_ascending xs : ascending (pstarts xs).
Proof. apply filter_seq_ascending. Qed.
Lemma pstarts_head xs : xs <> [] -> exists t, pstarts xs = 0%nat :: t.
Proof. destruct xs as [|x r]; [congruence|]. intros _. unfold pstarts. cbn [length seq filter pstart]. eauto. Qed.
Lemma final_start_last xs : final_start xs = last (pstarts xs) 0%nat.
Proof. reflexivity. Qed.

Lemma cl_diff_values_length (xs : list R) : xs <> [] -> length (cl_diff_values xs) = length xs.
Proof. intros Hne. unfold cl_diff_values, ediff1d. cbn [length]. rewrite pp_diff_length. destruct xs; [congruence|cbn; lia]. Qed.
Lemma cl_diff_values_nth (xs : list R) k : (k < length xs)%nat ->
  nth k (cl_diff_values xs) 0 = match k with O => xat xs 0 | S k' => xat xs k - xat xs k' end.
Proof. intros Hk. unfold cl_diff_values, ediff1d, xat. destruct k as [|k']; [reflexivity|]. cbn [nth]. apply pp_diff_nth. lia. Qed.
Lemma nzi0_In (xs : list R) i : xs <> [] ->
  (In i (cl_non_zero_indices0 xs) <->
   (i < length xs)%nat /\ match i with O => xat xs 0 <> 0 | S _ => pstart xs i = true end).
Proof.
  intros Hne. unfold cl_non_zero_indices0. rewrite (where_idx_In 0), (cl_diff_values_length xs Hne).
  split; intros [H1 H2]; (split; [exact H1|]); rewrite (cl_diff_values_nth xs i H1) in *; destruct i as [|i'].
  - now apply ne0_R.
  - apply ne0_R in H2. cbn [pstart]. apply negb_true_iff, neqb_R_false. lra.
  - now apply ne0_R.
  - apply ne0_R. cbn [pstart] in H2. apply negb_true_iff, neqb_R_false in H2. lra.
Qed.
(** non_zero_indices when values[0] = 0: exactly the plateau starts *)
Lemma nzi_zero (xs : list R) : xs <> [] -> xat xs 0 = 0 -> cl_non_zero_indices xs = pstarts xs.
Proof.
  intros Hne H0. destruct (pstarts_head xs Hne) as [t Et]. unfold cl_non_zero_indices, np_insert0. rewrite Et. f_equal.
  pose proof (pstarts_ascending xs) as Ha. rewrite Et in Ha. inversion Ha as [|? ? Hlt Hat]; subst.
  apply asc_ext; [apply (where_idx_ascending 0)|exact Hat|].
  intros i. rewrite (nzi0_In xs i Hne). split.
  - intros [H1 H2]. destruct i as [|i']; [contradiction|].
    assert (Hin : In (S i') (pstarts xs)) by (apply pstarts_In; auto). rewrite Et in Hin. destruct Hin; [discriminate|auto].
  - intros Hi. assert (Hin : In i (pstarts xs)) by (rewrite Et; now right). apply pstarts_In in Hin as [H1 H2].
    specialize (Hlt _ Hi). destruct i; [lia|]. auto.
Qed.
(** non_zero_indices when values[0] <> 0: index 0 comes twice *)
Lemma nzi_nonzero (xs : list R) : xs <> [] -> xat xs 0 <> 0 -> cl_non_zero_indices xs = 0%nat :: pstarts xs.
Proof.
  intros Hne H0. unfold cl_non_zero_indices, np_insert0. f_equal.
  apply asc_ext; [apply (where_idx_ascending 0)|apply pstarts_ascending|].
  intros i. rewrite (nzi0_In xs i Hne), pstarts_In. destruct i as [|i']; [|reflexivity]. cbn [pstart]. tauto.
Qed.

(** * the duplicate is invisible to determine_indices_of_peaks_for_cleaned_array + np.take, and to [moves] *)
Lemma pk_prod_dup (c : R) r : pk_prod (c :: c :: r) = (c - c) * 0 :: pk_prod (c :: r).
Proof.
  unfold pk_prod, pk_diff, ediff1d, sl_from1, sl_to_m1, vmul. cbn [diff tl removelast map2]. numR.
  replace (c - c) with 0 by lra. reflexivity.
Qed.
Lemma pk_indices0_dup (c : R) r : pk_indices0 (c :: c :: r) = map S (pk_indices0 (c :: r)).
Proof.
  unfold pk_indices0. rewrite pk_prod_dup. apply where_from_cons_false.
  apply not_true_iff_false. rewrite lt0_R. lra.
Qed.
Lemma take_dup (idx : list nat) (c : R) r : nth 0 idx 0%nat = 0%nat ->
  take 0%nat (0%nat :: idx) (peak_indices_cleaned_p (c :: c :: r)) = take 0%nat idx (peak_indices_cleaned_p (c :: r)).
Proof.
  intros H0. unfold peak_indices_cleaned_p, pk_indices2, pk_indices1, np_insert_end, np_insert0. rewrite pk_indices0_dup.
  unfold take. cbn [app map]. rewrite !map_app, map_map. cbn [map length nth]. rewrite H0.
  replace (S (S (length r)) - 1)%nat with (S (length r)) by lia.
  replace (S (length r) - 1)%nat with (length r) by lia. reflexivity.
Qed.
(** THE DUPLICATED INDEX 0 IS OBSERVATIONALLY INVISIBLE: whatever values[0] is, [peak_full_indices] and [moves] are those
    computed from the duplicate-free plateau starts [pstarts xs] and the duplicate-free cleaned series [cleaned xs] *)
Lemma dup_index0_invisible (xs : list R) : xs <> [] ->
  gp_peak_full_indices xs = take 0%nat (pstarts xs) (peak_indices_cleaned_p (cleaned xs)) /\
  gp_moves xs = mask_ne0 (diff (cleaned xs)).
Proof.
  intros Hne. destruct (pstarts_head xs Hne) as [t Et].
  unfold gp_peak_full_indices, gp_moves, gp_moves0, gp_peak_cleaned_indices, gp_cleaned_values, gp_non_zero_indices,
    clean_out_non_changing_p, cl_cleaned_values. cbn [fst snd].
  destruct (Req_dec (xat xs 0) 0) as [H0|H0].
  - rewrite (nzi_zero xs Hne H0). split; reflexivity.
  - rewrite (nzi_nonzero xs Hne H0). change (take n0 xs (0%nat :: pstarts xs)) with (xat xs 0 :: cleaned xs).
    unfold cleaned. rewrite Et. cbn [map]. split.
    + apply take_dup. reflexivity.
    + cbn [diff]. unfold mask_ne0. cbn [filter].
      match goal with |- context [ne0 ?a] => destruct (ne0 a) eqn:E end; [|reflexivity].
      apply ne0_R in E. numR. lra.
Qed.
(** what the two returned arrays are *)
Lemma clean_out_non_changing_spec (xs : list R) : xs <> [] ->
  clean_out_non_changing_p xs =
    if Req_EM_T (xat xs 0) 0 then (cleaned xs, pstarts xs) else (xat xs 0 :: cleaned xs, 0%nat :: pstarts xs).
Proof.
  intros Hne. unfold clean_out_non_changing_p, cl_cleaned_values. destruct (Req_EM_T (xat xs 0) 0) as [H0|H0].
  - now rewrite (nzi_zero xs Hne H0).
  - now rewrite (nzi_nonzero xs Hne H0).
Qed.

(** * consecutive plateau starts: the series is constant from one up to the sample before the next, which differs *)
Lemma pstarts_consec (xs : list R) k : (S k < length (pstarts xs))%nat ->
  let p := nth k (pstarts xs) 0%nat in let q := nth (S k) (pstarts xs) 0%nat in
  (p < q < length xs)%nat /\ (forall j, (p <= j < q)%nat -> xat xs j = xat xs p) /\ xat xs q <> xat xs p /\
  next_diff xs p = Some q.
Proof.
  intros Hk p q. pose proof (pstarts_ascending xs) as Ha.
  assert (Hpq : (p < q)%nat) by (apply asc_nth_lt; [exact Ha|lia]).
  assert (Hq : In q (pstarts xs)) by (apply nth_In; lia). apply pstarts_In in Hq as [Hq1 Hq2].
  assert (Hconst : forall j, (p <= j < q)%nat -> xat xs j = xat xs p).
  { intros j [Hj1 Hj2]. induction j as [|j IH]; [now replace p with 0%nat by lia|].
    destruct (Nat.eq_dec p (S j)) as [->|Hne]; [reflexivity|]. rewrite <- IH by lia.
    destruct (pstart xs (S j)) eqn:Hp.
    - exfalso. apply (asc_no_between (pstarts xs) k (S j) Ha Hk); [apply pstarts_In; split; [lia|exact Hp]|]. fold p q. lia.
    - cbn [pstart] in Hp. apply negb_false_iff, neqb_R in Hp. exact Hp. }
  assert (Hdiff : xat xs q <> xat xs p).
  { destruct q as [|q']; [lia|]. cbn [pstart] in Hq2. apply negb_true_iff, neqb_R_false in Hq2.
    rewrite <- (Hconst q') by lia. exact Hq2. }
  split; [lia|]. split; [exact Hconst|]. split; [exact Hdiff|].
  destruct (next_diff_exists xs p q ltac:(lia) Hdiff) as [j Ej]. rewrite Ej. f_equal.
  apply next_diff_spec in Ej as (Hj1 & Hj2 & Hj3).
  destruct (Nat.lt_trichotomy j q) as [Hlt|[E|Hgt]]; [|exact E|].
  - exfalso. apply Hj2. apply Hconst. lia.
  - exfalso. apply Hdiff. apply Hj3. lia.
Qed.
Lemma cleaned_length xs : length (cleaned xs) = length (pstarts xs).
Proof. unfold cleaned. apply map_length. Qed.
Lemma cleaned_nth xs k : (k < length (pstarts xs))%nat -> nth k (cleaned xs) 0 = xat xs (nth k (pstarts xs) 0%nat).
Proof. intros Hk. unfold cleaned. apply nth_map_in. exact Hk. Qed.

(** * determine_indices_of_peaks_for_cleaned_array: entry k of diff[1:] * diff[:-1] *)
Lemma pk_prod_length (c : list R) : length (pk_prod c) = (length c - 1)%nat.
Proof.
  unfold pk_prod. rewrite shift_prod_length. unfold pk_diff, ediff1d. cbn [length]. rewrite pp_diff_length.
  destruct c; cbn [length]; lia.
Qed.
Lemma pk_prod_nth (c : list R) k : (S k < length c)%nat ->
  nth k (pk_prod c) 0 =
  (nth (S k) c 0 - nth k c 0) * match k with O => 0 | S k' => nth k c 0 - nth k' c 0 end.
Proof.
  intros Hk. unfold pk_prod. rewrite shift_prod_nth by (unfold pk_diff, ediff1d; cbn [length]; rewrite pp_diff_length; lia).
  unfold pk_diff, ediff1d. cbn [nth]. rewrite pp_diff_nth by lia. destruct k as [|k']; [reflexivity|].
  rewrite pp_diff_nth by lia. reflexivity.
Qed.

(** the interior indices the pipeline reports are exactly the turning points *)
Lemma pipeline_interior (xs : list R) i : xs <> [] ->
  ((exists k, In k (pk_indices0 (cleaned xs)) /\ i = nth k (pstarts xs) 0%nat) <->
   (i < length xs)%nat /\ turning xs i = true).
Proof.
  intros Hne. set (P := pstarts xs). set (m := length P).
  destruct (pstarts_head xs Hne) as [t Et]. fold P in Et.
  split.
  - intros (k & Hk & ->). unfold pk_indices0 in Hk. apply (where_idx_In 0) in Hk as [Hk1 Hk2].
    rewrite pk_prod_length, cleaned_length in Hk1. fold P m in Hk1.
    rewrite pk_prod_nth in Hk2 by (rewrite cleaned_length; fold P m; lia). apply lt0_R in Hk2.
    destruct k as [|k']; [lra|].
    rewrite !cleaned_nth in Hk2 by (fold P m; lia). fold P in Hk2.
    destruct (pstarts_consec xs k' ltac:(fold P m; lia)) as (A1 & A2 & A3 & A4). fold P in A1, A2, A3, A4.
    destruct (pstarts_consec xs (S k') ltac:(fold P m; lia)) as (B1 & B2 & B3 & B4). fold P in B1, B2, B3, B4.
    split; [lia|]. apply turning_spec.
    destruct (nth (S k') P 0%nat) as [|i'] eqn:Ei; [lia|].
    exists i', (nth (S (S k')) P 0%nat). split; [reflexivity|]. split; [exact B4|].
    rewrite <- (A2 i' ltac:(lia)) in Hk2.
    set (a := xat xs (nth (S (S k')) P 0%nat)) in *. set (b := xat xs (S i')) in *. set (c := xat xs i') in *.
    destruct (Rtotal_order b c) as [H|[H|H]]; [right|exfalso|left]; nra.
  - intros [Hi Ht]. pose proof (turning_lt_final xs i Ht) as Hfin.
    apply turning_spec in Ht as (i' & j & -> & Ej & Hd).
    assert (Hin : In (S i') P).
    { apply pstarts_In. split; [exact Hi|]. cbn [pstart]. apply negb_true_iff, neqb_R_false. lra. }
    apply (In_nth _ _ 0%nat) in Hin as (k & Hk & Ek). fold m in Hk.
    destruct k as [|k']; [rewrite Et in Ek; cbn in Ek; lia|].
    assert (Hk2 : (S (S k') < m)%nat).
    { destruct (Nat.eq_dec (S k') (m - 1)) as [E|Hne']; [|lia]. exfalso.
      rewrite final_start_last in Hfin. fold P in Hfin. rewrite <- nth_last in Hfin. fold m in Hfin. rewrite <- E, Ek in Hfin. lia. }
    destruct (pstarts_consec xs k' ltac:(fold P m; lia)) as (A1 & A2 & A3 & A4). fold P in A1, A2, A3, A4.
    destruct (pstarts_consec xs (S k') ltac:(fold P m; lia)) as (B1 & B2 & B3 & B4). fold P in B1, B2, B3, B4.
    rewrite Ek in *. rewrite Ej in B4. inversion B4 as [Ej'].
    exists (S k'). split; [|now rewrite Ek].
    unfold pk_indices0. apply (where_idx_In 0). rewrite pk_prod_length, cleaned_length. fold P m. split; [lia|].
    rewrite pk_prod_nth by (rewrite cleaned_length; fold P m; lia). apply lt0_R.
    rewrite !cleaned_nth by (fold P m; lia). fold P. rewrite Ek, <- Ej'.
    rewrite <- (A2 i' ltac:(lia)).
    destruct Hd as [[? ?]|[? ?]]; nra.
Qed.

(** * get_peak_array_indices, ptype = 'all' *)
(** a non-constant series has a second plateau; it starts at the first sample that differs from values[0] *)
Lemma pstarts_two (xs : list R) : first_up xs <> None ->
  exists q t, pstarts xs = 0%nat :: q :: t /\ next_diff xs 0 = Some q.
Proof.
  intros Hnc. assert (Hne : xs <> []) by (intros ->; apply Hnc; reflexivity).
  destruct (pstarts_head xs Hne) as [t Et].
  unfold first_up in Hnc. destruct (next_diff xs 0) as [j|] eqn:Ej; [|congruence].
  pose proof (next_diff_spec xs 0 j Ej) as (Hj1 & Hj2 & Hj3).
  assert (Hin : In j (pstarts xs)).
  { apply pstarts_In. split; [lia|]. destruct j as [|j']; [reflexivity|]. cbn [pstart]. apply negb_true_iff, neqb_R_false.
    destruct (Nat.eq_dec j' 0) as [->|Hne']; [exact Hj2|]. rewrite (Hj3 j') by lia. exact Hj2. }
  rewrite Et in Hin. destruct Hin as [E|Hin]; [lia|]. destruct t as [|q t']; [destruct Hin|].
  exists q, t'. split; [exact Et|].
  pose proof (pstarts_consec xs 0) as Hc. rewrite Et in Hc. cbn [length nth] in Hc.
  destruct (Hc ltac:(lia)) as (_ & _ & _ & Hq). rewrite Ej in Hq. exact Hq.
Qed.
Lemma peak_full_indices_form (xs : list R) : xs <> [] ->
  gp_peak_full_indices xs =
  0%nat :: map (fun k => nth k (pstarts xs) 0%nat) (pk_indices0 (cleaned xs)) ++ [final_start xs].
Proof.
  intros Hne. destruct (dup_index0_invisible xs Hne) as [-> _]. destruct (pstarts_head xs Hne) as [t Et].
  unfold peak_indices_cleaned_p, pk_indices2, pk_indices1, np_insert_end, np_insert0, take.
  cbn [app map]. rewrite map_app. cbn [map]. rewrite cleaned_length, nth_last, <- final_start_last.
  rewrite Et at 1. reflexivity.
Qed.
Theorem pipeline_all (xs : list R) : first_up xs <> None -> get_peak_array_indices_p 0 xs = peaks xs.
Proof.
  intros Hnc. assert (Hne : xs <> []) by (intros ->; apply Hnc; reflexivity).
  cbn [get_peak_array_indices_p]. rewrite (peak_full_indices_form xs Hne).
  set (W := pk_indices0 (cleaned xs)). set (g := fun k => nth k (pstarts xs) 0%nat).
  assert (Hmid : forall y, In y (map g W) -> (y < length xs)%nat /\ turning xs y = true).
  { intros y Hy. apply in_map_iff in Hy as (k & <- & Hk). apply (pipeline_interior xs (g k) Hne). exists k. auto. }
  assert (Hfs : (0 < final_start xs)%nat).
  { destruct (pstarts_two xs Hnc) as (q & t & Et & _).
    pose proof (pstarts_ascending xs) as Ha. rewrite Et in Ha. inversion Ha as [|? ? Hlt _]; subst.
    assert (Hq : In q (pstarts xs)) by (rewrite Et; right; now left). apply pstarts_In in Hq as [Hq1 Hq2].
    pose proof (final_start_greatest xs q Hq1 Hq2). specialize (Hlt q (or_introl eq_refl)). lia. }
  apply asc_ext; [|apply C11_ascending|].
  - constructor.
    + intros j Hj. apply in_app_iff in Hj as [Hj|[<-|[]]]; [|exact Hfs].
      apply Hmid in Hj as [_ Ht]. destruct j; [discriminate|lia].
    + apply asc_snoc.
      * apply asc_map; [apply (where_idx_ascending 0)|]. intros a b Ha Hb Hab. unfold g. apply asc_nth_lt; [apply pstarts_ascending|].
        split; [exact Hab|]. unfold W, pk_indices0 in Hb. apply (where_idx_In 0) in Hb as [Hb _].
        rewrite pk_prod_length, cleaned_length in Hb. lia.
      * intros y Hy. apply Hmid in Hy as [_ Ht]. now apply turning_lt_final.
  - intros i. rewrite C11_exact. cbn [In]. rewrite in_app_iff. cbn [In]. split.
    + intros [<-|[Hi|[<-|[]]]].
      * split; [destruct xs; [congruence|cbn; lia]|now left].
      * apply Hmid in Hi as [H1 H2]. split; [exact H1|now right; right].
      * split; [now apply final_start_lt|right; now left].
    + intros (Hi & [->|[->|Ht]]); [now left|right; right; now left|].
      right; left. apply in_map_iff. destruct (proj2 (pipeline_interior xs i Hne) (conj Hi Ht)) as (k & Hk & ->).
      exists k. split; [reflexivity|exact Hk].
Qed.

(** * ptype = 'max' / 'min': first_move is the first strict move *)
Lemma first_move_spec (xs : list R) q : first_up xs <> None -> next_diff xs 0 = Some q ->
  gp_first_move xs = xat xs q - xat xs 0.
Proof.
  intros Hnc Eq. assert (Hne : xs <> []) by (intros ->; apply Hnc; reflexivity).
  unfold gp_first_move. destruct (dup_index0_invisible xs Hne) as [_ ->].
  destruct (pstarts_two xs Hnc) as (q' & t & Et & Eq'). rewrite Eq in Eq'. inversion Eq'; subst q'.
  unfold cleaned. rewrite Et. cbn [map diff]. unfold mask_ne0. cbn [filter].
  match goal with |- context [ne0 ?a] => destruct (ne0 a) eqn:E end; [reflexivity|exfalso].
  apply not_true_iff_false in E. apply E. apply ne0_R. numR.
  apply next_diff_spec in Eq as (_ & Hd & _). lra.
Qed.
Theorem pipeline_sel (pt : nat) (xs : list R) : first_up xs <> None -> get_peak_array_indices_p pt xs = peaks_sel pt xs.
Proof.
  intros Hnc. destruct pt as [|pt]; [now apply pipeline_all|].
  pose proof (pipeline_all xs Hnc) as Hall. cbn [get_peak_array_indices_p] in Hall.
  unfold get_peak_array_indices_p, peaks_sel. rewrite Hall.
  unfold first_up in *. destruct (next_diff xs 0) as [q|] eqn:Eq; [|congruence].
  assert (Hnc' : first_up xs <> None) by (unfold first_up; rewrite Eq; discriminate).
  rewrite (first_move_spec xs q Hnc' Eq). numR.
  destruct pt as [|pt].
  - case_Rltb (xat xs 0) (xat xs q); case_Rltb 0 (xat xs q - xat xs 0); try reflexivity; lra.
  - case_Rltb (xat xs 0) (xat xs q); case_Rleb (xat xs q - xat xs 0) 0; try reflexivity; lra.
Qed.

(** * constant series (the case the declarative model excludes): the code returns [0,0], resp. [0] *)
Lemma pstarts_constant (xs : list R) : xs <> [] -> first_up xs = None -> pstarts xs = [0%nat].
Proof.
  intros Hne Hc. unfold first_up in Hc. destruct (next_diff xs 0) as [j|] eqn:Ej; [discriminate|].
  pose proof (next_diff_none xs 0 Ej) as Hall.
  apply asc_ext; [apply pstarts_ascending|constructor; [intros ? []|constructor]|].
  intros i. rewrite pstarts_In. cbn [In]. split.
  - intros [Hi Hp]. destruct i as [|i']; [now left|exfalso]. cbn [pstart] in Hp. apply negb_true_iff, neqb_R_false in Hp.
    apply Hp. rewrite (Hall (S i')) by lia. destruct i' as [|i'']; [reflexivity|]. symmetry. apply Hall. lia.
  - intros [<-|[]]. split; [destruct xs; [congruence|cbn; lia]|reflexivity].
Qed.
Theorem pipeline_constant (pt : nat) (xs : list R) : xs <> [] -> first_up xs = None ->
  get_peak_array_indices_p pt xs = match pt with O => [0; 0]%nat | _ => [0%nat] end.
Proof.
  intros Hne Hc.
  assert (Hfull : gp_peak_full_indices xs = [0; 0]%nat).
  { destruct (dup_index0_invisible xs Hne) as [-> _]. unfold cleaned. rewrite (pstarts_constant xs Hne Hc). reflexivity. }
  assert (Hmove : gp_first_move xs = 0).
  { unfold gp_first_move. destruct (dup_index0_invisible xs Hne) as [_ ->]. unfold cleaned. rewrite (pstarts_constant xs Hne Hc). reflexivity. }
  unfold get_peak_array_indices_p. rewrite Hfull, Hmove. numR.
  destruct pt as [|[|pt]]; [reflexivity| |].
  - case_Rltb 0 0; [lra|reflexivity].
  - case_Rleb 0 0; [reflexivity|lra].
Qed.

(** * get_zero_crossings_array_indices, tol = 0 *)
Lemma zeros_In (xs : list R) i : In i (zc_zero_indices0 xs) <-> (i < length xs)%nat /\ xat xs i = 0.
Proof. unfold zc_zero_indices0. rewrite (where_idx_In 0). unfold xat. rewrite eq0_R. reflexivity. Qed.
Lemma zeros_ascending (xs : list R) : ascending (zc_zero_indices0 xs).
Proof. apply (where_idx_ascending 0). Qed.

(** the [not keep_adj_zeros] block on a strictly ascending index array L: keeps position 0 and every position whose
    predecessor in L is not the preceding integer *)
Definition no_adj (L : list nat) : list nat := where_idx (fun d => (1 <? d)%Z) (ediff1dZ 10 (map Z.of_nat L)).
Lemma no_adj_In (L : list nat) k : L <> [] ->
  (In k (no_adj L) <-> (k < length L)%nat /\ (k = 0%nat \/ (nth (k - 1) L 0 + 1 < nth k L 0)%nat)).
Proof.
  intros Hne. unfold no_adj. rewrite (where_idx_In 0%Z). unfold ediff1dZ. cbn [length]. rewrite diffZ_length, map_length.
  assert (Hl : length L <> 0%nat) by (destruct L; cbn; congruence).
  split; intros [H1 H2]; (split; [lia|]).
  - destruct k as [|k']; [now left|right]. cbn [nth] in H2. rewrite diffZ_nth in H2 by (rewrite map_length; lia).
    rewrite !(nth_map_in Z.of_nat _ _ 0%Z 0%nat) in H2 by lia. apply Z.ltb_lt in H2.
    replace (S k' - 1)%nat with k' by lia. lia.
  - destruct k as [|k']; [reflexivity|]. destruct H2 as [H2|H2]; [lia|]. replace (S k' - 1)%nat with k' in H2 by lia.
    cbn [nth]. rewrite diffZ_nth by (rewrite map_length; lia).
    rewrite !(nth_map_in Z.of_nat _ _ 0%Z 0%nat) by lia. apply Z.ltb_lt. lia.
Qed.
Lemma zc_zero_indices_false (xs : list R) : zc_zero_indices0 xs <> [] ->
  zc_zero_indices false xs = take 0%nat (zc_zero_indices0 xs) (no_adj (zc_zero_indices0 xs)).
Proof.
  intros Hne. unfold zc_zero_indices, zc_no_adj_is, zc_diff_is. fold (no_adj (zc_zero_indices0 xs)). cbn [negb andb].
  set (Z0 := zc_zero_indices0 xs) in *. destruct (1 <? length Z0)%nat eqn:E; [reflexivity|]. apply Nat.ltb_ge in E.
  destruct Z0 as [|z [|z' r]]; [congruence|reflexivity|cbn [length] in E; lia].
Qed.
(** zero_indices after the block: the exact zeros, only the first of each run unless keep_adj_zeros *)
Lemma zk_spec keep (xs : list R) i : In i (zc_zero_indices keep xs) <->
  (i < length xs)%nat /\ xat xs i = 0 /\ (keep = true \/ i = 0%nat \/ xat xs (i - 1) <> 0).
Proof.
  destruct keep.
  - unfold zc_zero_indices. cbn [negb andb]. rewrite zeros_In. tauto.
  - pose proof (zeros_ascending xs) as Ha. destruct (zc_zero_indices0 xs) as [|z0 r0] eqn:EZ.
    + unfold zc_zero_indices. rewrite EZ. cbn. split; [intros []|]. intros (Hi & Hx & _).
      assert (Hin : In i (zc_zero_indices0 xs)) by (apply zeros_In; auto). rewrite EZ in Hin. destruct Hin.
    + assert (Hne : zc_zero_indices0 xs <> []) by (rewrite EZ; discriminate).
      rewrite (zc_zero_indices_false xs Hne), take_In. rewrite <- EZ in Ha. set (Z0 := zc_zero_indices0 xs) in *. split.
      * intros (k & Hk & ->). apply (no_adj_In Z0 k Hne) in Hk as [Hk1 Hk2].
        assert (Hin : In (nth k Z0 0%nat) Z0) by (apply nth_In; exact Hk1). apply zeros_In in Hin as [Hi Hx].
        split; [exact Hi|]. split; [exact Hx|]. right.
        destruct (Nat.eq_dec (nth k Z0 0%nat) 0) as [E0|N0]; [now left|right]. intros Hprev.
        assert (Hin' : In (nth k Z0 0 - 1)%nat Z0) by (apply zeros_In; split; [lia|exact Hprev]).
        destruct k as [|k'].
        -- apply (In_nth _ _ 0%nat) in Hin' as (t & Ht & Et).
           pose proof (asc_nth_le Z0 Ha 0 t 0%nat ltac:(lia)). lia.
        -- destruct Hk2 as [Hk2|Hk2]; [lia|]. replace (S k' - 1)%nat with k' in Hk2 by lia.
           apply (asc_no_between Z0 k' _ Ha Hk1 Hin'). lia.
      * intros (Hi & Hx & [F|Hp]); [discriminate|].
        assert (Hin : In i Z0) by (apply zeros_In; auto). apply (In_nth _ _ 0%nat) in Hin as (k & Hk & Ek).
        exists k. split; [|now rewrite Ek]. apply (no_adj_In Z0 k Hne). split; [exact Hk|].
        destruct k as [|k']; [now left|right]. replace (S k' - 1)%nat with k' by lia.
        pose proof (asc_nth_lt Z0 Ha k' (S k') 0%nat ltac:(lia)) as Hlt. rewrite Ek in *.
        assert (Hin' : In (nth k' Z0 0%nat) Z0) by (apply nth_In; lia). apply zeros_In in Hin' as [_ Hx'].
        destruct Hp as [->|Hp]; [lia|]. assert (nth k' Z0 0%nat <> (i - 1)%nat) by (intros E; rewrite E in Hx'; contradiction). lia.
Qed.
Lemma zk_ascending keep (xs : list R) : ascending (zc_zero_indices keep xs).
Proof.
  destruct keep; [apply zeros_ascending|].
  destruct (zc_zero_indices0 xs) as [|z0 r0] eqn:EZ.
  - unfold zc_zero_indices. rewrite EZ. constructor.
  - assert (Hne : zc_zero_indices0 xs <> []) by (rewrite EZ; discriminate).
    rewrite (zc_zero_indices_false xs Hne). unfold take. apply asc_map; [apply (where_idx_ascending 0%Z)|].
    intros a b _ Hb Hab. apply asc_nth_lt; [apply zeros_ascending|]. apply (no_adj_In _ b Hne) in Hb. lia.
Qed.

(** sign_switch and through_zero_indices: index 0 when values[0] < 0, and every i >= 1 with values[i] * values[i-1] < 0 *)
Lemma zc_sign_switch_length (xs : list R) : xs <> [] -> length (zc_sign_switch xs) = length xs.
Proof.
  intros Hne. unfold zc_sign_switch, zc_sign_switch0, np_insert0. cbn [length]. rewrite shift_prod_length.
  destruct xs; [congruence|cbn [length]; lia].
Qed.
Lemma zc_sign_switch_nth (xs : list R) i : (i < length xs)%nat ->
  nth i (zc_sign_switch xs) 0 = match i with O => xat xs 0 | S i' => xat xs i * xat xs i' end.
Proof.
  intros Hi. unfold zc_sign_switch, zc_sign_switch0, np_insert0. destruct i as [|i']; [reflexivity|].
  cbn [nth]. apply shift_prod_nth. exact Hi.
Qed.
Lemma through_In (xs : list R) i : xs <> [] ->
  (In i (zc_through_zero_indices xs) <->
   (i < length xs)%nat /\ match i with O => xat xs 0 < 0 | S i' => xat xs i * xat xs i' < 0 end).
Proof.
  intros Hne. unfold zc_through_zero_indices. rewrite (where_idx_In 0), (zc_sign_switch_length xs Hne).
  split; intros [H1 H2]; (split; [exact H1|]); rewrite (zc_sign_switch_nth xs i H1) in *; destruct i; now apply lt0_R.
Qed.
Lemma zc_all_In keep (xs : list R) i :
  In i (zc_all keep xs) <-> In i (zc_zero_indices keep xs) \/ In i (zc_through_zero_indices xs).
Proof. unfold zc_all, zc_all0, np_concatenate. rewrite np_sort_In, in_app_iff. reflexivity. Qed.
(** the two index sets are disjoint (a zero sample has a zero product), so the sorted concatenation has no duplicates *)
Lemma zc_all_ascending keep (xs : list R) : xs <> [] -> ascending (zc_all keep xs).
Proof.
  intros Hne. unfold zc_all, zc_all0, np_concatenate. apply np_sort_ascending. apply NoDup_app'.
  - apply asc_NoDup, zk_ascending.
  - apply asc_NoDup, (where_idx_ascending 0).
  - intros i Hz Ht. apply zk_spec in Hz as (_ & Hx & _). apply (through_In xs i Hne) in Ht as [_ Ht].
    destruct i as [|i']; [lra|]. rewrite Hx in Ht. lra.
Qed.

Theorem pipeline_zc keep (xs : list R) : xs <> [] -> zero_crossings_p keep xs = zero_crossings keep 0 xs.
Proof.
  intros Hne. pose proof (zc_all_ascending keep xs Hne) as HA.
  assert (Hform : ascending (zero_crossings_p keep xs) /\
                  forall i, In i (zero_crossings_p keep xs) <-> i = 0%nat \/ In i (zc_all keep xs)).
  { unfold zero_crossings_p. destruct (zc_all keep xs) as [|i0 A'] eqn:EA.
    - split; [constructor; [intros ? []|constructor]|]. intros i. cbn [In]. intuition.
    - destruct (Nat.eqb i0 0) eqn:E0; cbn [negb].
      + apply Nat.eqb_eq in E0. subst i0. split; [exact HA|]. intros i. cbn [In]. intuition.
      + apply Nat.eqb_neq in E0. unfold np_insert0. split.
        * constructor; [|exact HA]. intros j Hj. pose proof (ascending_head_min i0 A' j HA Hj). lia.
        * intros i. cbn [In]. intuition. }
  destruct Hform as [Hasc Hin]. apply asc_ext; [exact Hasc|apply C12_zc_ascending|].
  intros i. rewrite Hin, (P_C12.C12_zc_exact keep xs i Hne), zc_all_In, zk_spec, (through_In xs i Hne), zc_test_spec.
  assert (H0 : (0 < length xs)%nat) by (destruct xs; [congruence|cbn; lia]).
  destruct i as [|i'].
  - split; [intros _; split; [exact H0|now left]|intros _; now left].
  - replace (S i' - 1)%nat with i' by lia. rewrite mul_neg_iff. split.
    + intros [F|[(Hi & Hx & Hk)|(Hi & Hs)]]; [discriminate| |].
      * split; [exact Hi|]. right. exists i'. split; [reflexivity|]. left. split; [exact Hx|].
        destruct Hk as [Hk|[F|Hk]]; [now left|discriminate|now right].
      * split; [exact Hi|]. right. exists i'. split; [reflexivity|]. now right.
    + intros (Hi & [F|(j & Ej & Hd)]); [discriminate|]. inversion Ej; subst j. right.
      destruct Hd as [[Hx Hk]|Hs]; [left|right; split; [exact Hi|exact Hs]].
      split; [exact Hi|]. split; [exact Hx|]. destruct Hk as [Hk|Hk]; [now left|right; now right].
Qed.

(** * the [if tol > 0] loop of get_zero_crossings_array_indices equals [zc_prune]; generic in the number type (no arithmetic
    fact is used: both sides perform the same comparisons), hence valid at R and at Q, axiom-free *)
(** np.delete as a recursion over positions *)
Fixpoint del_from {A} (s : nat) (l : list A) (R : list nat) : list A :=
  match l with [] => [] | x :: r => if mem_nat s R then del_from (S s) r R else x :: del_from (S s) r R end.
Lemma del_from_cons {A} s (x : A) r R : del_from s (x :: r) R = if mem_nat s R then del_from (S s) r R else x :: del_from (S s) r R.
Proof. reflexivity. Qed.
Lemma np_delete_from {A} (s : nat) (l : list A) R :
  map snd (filter (fun p => negb (mem_nat (fst p) R)) (combine (seq s (length l)) l)) = del_from s l R.
Proof.
  revert s; induction l as [|x r IH]; intros s; [reflexivity|]. cbn [length seq combine filter fst del_from].
  destruct (mem_nat s R); cbn [negb map snd]; now rewrite IH.
Qed.
Lemma np_delete_del_from {A} (l : list A) R : np_delete l R = del_from 0 l R.
Proof. apply np_delete_from. Qed.
Lemma mem_nat_In k l : mem_nat k l = true <-> In k l.
Proof.
  unfold mem_nat. rewrite existsb_exists. split.
  - intros (x & Hx & E). apply Nat.eqb_eq in E. now subst.
  - intros Hk. exists k. split; [exact Hk|apply Nat.eqb_refl].
Qed.
Lemma mem_nat_false k l : mem_nat k l = false <-> ~ In k l.
Proof. rewrite <- mem_nat_In. destruct (mem_nat k l); split; congruence. Qed.
(** [del_from s l R] only looks at the members of R that are >= s *)
Lemma del_from_ext {A} (l : list A) : forall s R R', (forall j, (s <= j)%nat -> (In j R <-> In j R')) -> del_from s l R = del_from s l R'.
Proof.
  induction l as [|x r IH]; intros s R R' HR; [reflexivity|]. cbn [del_from].
  assert (E : mem_nat s R = mem_nat s R').
  { destruct (mem_nat s R) eqn:E1; destruct (mem_nat s R') eqn:E2; auto.
    - apply mem_nat_In in E1. apply mem_nat_false in E2. exfalso. apply E2, HR; auto.
    - apply mem_nat_In in E2. apply mem_nat_false in E1. exfalso. apply E1, HR; auto. }
  rewrite E, (IH (S s) R R') by (intros j Hj; apply HR; lia). reflexivity.
Qed.

Section TolLoop.
Context {T : Type} `{NumOps T}.
Variables (tol : T) (xs : list T).

(** enough fuel: the result of [zc_prune] does not depend on it *)
Lemma zc_prune_fuel : forall f1 f2 l, (length l <= f1)%nat -> (length l <= f2)%nat -> zc_prune f1 tol xs l = zc_prune f2 tol xs l.
Proof.
  induction f1 as [|f1 IH]; intros f2 l H1 H2.
  - destruct l; [|cbn in H1; lia]. destruct f2; reflexivity.
  - destruct f2 as [|f2]; [destruct l; [reflexivity|cbn in H2; lia]|].
    destruct l as [|a [|b r]]; [reflexivity|reflexivity|]. cbn [length] in H1, H2.
    change (zc_prune (S f1) tol xs (a :: b :: r)) with (if nltb (maxabs_range xs a b) tol then zc_prune f1 tol xs r else a :: zc_prune f1 tol xs (b :: r)).
    change (zc_prune (S f2) tol xs (a :: b :: r)) with (if nltb (maxabs_range xs a b) tol then zc_prune f2 tol xs r else a :: zc_prune f2 tol xs (b :: r)).
    destruct (nltb (maxabs_range xs a b) tol).
    + apply IH; lia.
    + f_equal. apply IH; cbn [length]; lia.
Qed.
Definition prune (l : list nat) : list nat := zc_prune (length l) tol xs l.
Lemma zc_prune_S f a b r : zc_prune (S f) tol xs (a :: b :: r) =
  if nltb (maxabs_range xs a b) tol then zc_prune f tol xs r else a :: zc_prune f tol xs (b :: r).
Proof. reflexivity. Qed.
Lemma prune_small a b r : nltb (maxabs_range xs a b) tol = true -> prune (a :: b :: r) = prune r.
Proof. intros E. unfold prune. cbn [length]. rewrite zc_prune_S, E. apply zc_prune_fuel; lia. Qed.
Lemma prune_keep a b r : nltb (maxabs_range xs a b) tol = false -> prune (a :: b :: r) = a :: prune (b :: r).
Proof. intros E. unfold prune. cbn [length]. rewrite zc_prune_S, E. reflexivity. Qed.

(** what the loop adds to rem_i: old members, or positions >= k *)
Lemma loop_mem all : forall items k rem j, In j (zc_tol_loop tol xs all k items rem) -> In j rem \/ (k <= j)%nat.
Proof.
  induction items as [|ind rest IH]; intros k rem j Hj; cbn [zc_tol_loop] in Hj; [now left|].
  destruct (mem_nat k rem).
  - apply IH in Hj as [Hj|Hj]; [now left|right; lia].
  - cbv zeta in Hj. destruct (nltb _ tol).
    + apply IH in Hj as [Hj|Hj]; [|right; lia]. apply in_app_iff in Hj as [Hj|[<-|[<-|[]]]]; [now left|right; lia|right; lia].
    + apply IH in Hj as [Hj|Hj]; [now left|right; lia].
Qed.
Lemma loop_incl all : forall items k rem j, In j rem -> In j (zc_tol_loop tol xs all k items rem).
Proof.
  induction items as [|ind rest IH]; intros k rem j Hj; cbn [zc_tol_loop]; [exact Hj|].
  destruct (mem_nat k rem); [now apply IH|]. cbv zeta. destruct (nltb _ tol); apply IH; [apply in_app_iff; now left|exact Hj].
Qed.

(** the loop against the recursion, one position at a time *)
Lemma loop_prune all : forall suf k rem,
  (forall i, nth (k + i) all 0%nat = nth i suf 0%nat) -> (forall j, In j rem -> (j <= k)%nat) ->
  del_from k suf (zc_tol_loop tol xs all k (sl_to_m1 suf) rem) = if mem_nat k rem then prune (tl suf) else prune suf.
Proof.
  induction suf as [|a suf' IH]; intros k rem Hall Hrem.
  - cbn. destruct (mem_nat k rem); reflexivity.
  - destruct suf' as [|b r].
    + cbn [sl_to_m1 removelast zc_tol_loop del_from tl]. destruct (mem_nat k rem); reflexivity.
    + assert (Hall' : forall i, nth (S k + i) all 0%nat = nth i (b :: r) 0%nat).
      { intros i. replace (S k + i)%nat with (k + S i)%nat by lia. rewrite Hall. reflexivity. }
      assert (Hnot : mem_nat (S k) rem = false).
      { apply mem_nat_false. intros Hin. apply Hrem in Hin. lia. }
      change (sl_to_m1 (a :: b :: r)) with (a :: sl_to_m1 (b :: r)). cbn [zc_tol_loop tl].
      destruct (mem_nat k rem) eqn:Ek.
      * rewrite (del_from_cons k a (b :: r)). replace (mem_nat k (zc_tol_loop tol xs all (S k) (sl_to_m1 (b :: r)) rem)) with true
          by (symmetry; apply mem_nat_In, loop_incl, mem_nat_In, Ek).
        rewrite (IH (S k) rem Hall') by (intros j Hj; apply Hrem in Hj; lia). now rewrite Hnot.
      * cbv zeta. replace (nth (S k) all 0%nat) with b by (replace (S k) with (k + 1)%nat by lia; now rewrite Hall).
        change (amax (vabs (sl_range a b xs))) with (maxabs_range xs a b).
        destruct (nltb (maxabs_range xs a b) tol) eqn:Es.
        -- rewrite (del_from_cons k a (b :: r)). replace (mem_nat k (zc_tol_loop tol xs all (S k) (sl_to_m1 (b :: r)) (rem ++ [k; S k]))) with true
             by (symmetry; apply mem_nat_In, loop_incl, in_app_iff; right; now left).
           rewrite (IH (S k) (rem ++ [k; S k]) Hall').
           ++ replace (mem_nat (S k) (rem ++ [k; S k])) with true by (symmetry; apply mem_nat_In, in_app_iff; right; right; now left).
              cbn [tl]. symmetry. now apply prune_small.
           ++ intros j Hj. apply in_app_iff in Hj as [Hj|[<-|[<-|[]]]]; [apply Hrem in Hj; lia|lia|lia].
        -- rewrite (del_from_cons k a (b :: r)). replace (mem_nat k (zc_tol_loop tol xs all (S k) (sl_to_m1 (b :: r)) rem)) with false.
           ++ rewrite (IH (S k) rem Hall') by (intros j Hj; apply Hrem in Hj; lia). rewrite Hnot. symmetry. now apply prune_keep.
           ++ symmetry. apply mem_nat_false. intros Hin. apply loop_mem in Hin as [Hin|Hin]; [|lia].
              apply mem_nat_false in Ek. contradiction.
Qed.
Lemma tol_loop_is_prune (all : list nat) : np_delete all (zc_rem_i tol xs all) = zc_prune (length all) tol xs all.
Proof.
  rewrite np_delete_del_from. unfold zc_rem_i. rewrite (loop_prune all all 0 []); [reflexivity|reflexivity|intros ? []].
Qed.
End TolLoop.

Theorem pipeline_zc_tol keep (tol : R) (xs : list R) : xs <> [] ->
  zero_crossings_tol_p keep tol xs = zero_crossings keep tol xs.
Proof.
  intros Hne. unfold zero_crossings_tol_p. rewrite (pipeline_zc keep xs Hne).
  destruct xs as [|x r]; [congruence|]. unfold zero_crossings.
  change (nltb n0 0) with (Rltb 0 0). replace (Rltb 0 0) with false by (symmetry; apply Rltb_false; lra).
  destruct (nltb n0 tol); [apply tol_loop_is_prune|reflexivity].
Qed.

(** * get_switched_peak_array_indices: the Python loop (lists peak_values_set / peak_indices_set, _argmax_abs_w_sign at every
    sign switch, positions in the peak list mapped back by np.take at the end) equals [sp_loop] (running best value / index) *)
(** * np.argmax / max on a list with one more element (generic) *)
Section ArgmaxSnoc.
Context {T : Type} `{NumOps T}.
Lemma argmax_from_snoc (l : list T) : forall best bi i x,
  argmax_from best bi i (l ++ [x]) = if nltb (fold_left nmax l best) x then (i + length l)%nat else argmax_from best bi i l.
Proof.
  induction l as [|y r IH]; intros best bi i x; cbn [app argmax_from fold_left length].
  - now rewrite Nat.add_0_r.
  - unfold nmax at 2. destruct (nltb best y); rewrite IH; replace (S i + length r)%nat with (i + S (length r))%nat by lia; reflexivity.
Qed.
Lemma argmax_snoc (l : list T) x : l <> [] ->
  argmax (l ++ [x]) = if nltb (amax l) x then length l else argmax l.
Proof. destruct l as [|y r]; [congruence|]. intros _. cbn [app argmax amax length]. rewrite argmax_from_snoc. reflexivity. Qed.
Lemma amax_snoc (l : list T) x : l <> [] -> amax (l ++ [x]) = nmax (amax l) x.
Proof. destruct l as [|y r]; [congruence|]. intros _. cbn [app amax]. now rewrite fold_left_app. Qed.
Lemma argmax_from_lt (l : list T) : forall best bi i, (bi < i)%nat -> (argmax_from best bi i l < i + length l)%nat.
Proof.
  induction l as [|y r IH]; intros best bi i Hb; cbn [argmax_from length]; [lia|].
  destruct (nltb best y); [specialize (IH y i (S i) ltac:(lia))|specialize (IH best bi (S i) ltac:(lia))]; lia.
Qed.
Lemma argmax_lt (l : list T) : l <> [] -> (argmax l < length l)%nat.
Proof. destruct l as [|y r]; [congruence|]. intros _. cbn [argmax length]. pose proof (argmax_from_lt r y 0%nat 1%nat ltac:(lia)). lia. Qed.

(** np.where(same_sign, abs_vals, -1.0) as one map *)
Definition masked (last : T) (l : list T) : list T := map (fun u => if nltb n0 (nmul u last) then nabs u else nopp n1) l.
Lemma map2_mask last (l : list T) :
  map2 (fun (b : bool) a => if b then a else nopp n1) (aw_same_sign l last) (aw_abs_vals l) = masked last l.
Proof. induction l as [|u r IH]; [reflexivity|]. cbn. now f_equal. Qed.
End ArgmaxSnoc.

Lemma aw_single (v : R) : aw_abs_vals' [v] v = [Rabs v].
Proof. unfold aw_abs_vals'. cbn [aw_same_sign map existsb orb]. destruct (nltb n0 (nmul v v)); reflexivity. Qed.
(** a set that starts with [last <> 0]: the mask is in force *)
Lemma aw_headed (last : R) t : last <> 0 -> aw_abs_vals' (last :: t) last = masked last (last :: t).
Proof.
  intros Hl. unfold aw_abs_vals'. rewrite map2_mask. cbn [aw_same_sign map existsb].
  replace (nltb n0 (nmul last last)) with true; [reflexivity|]. symmetry. apply nltb_R. numR. nra.
Qed.
Lemma masked_head_nonneg (last : R) t : last <> 0 -> 0 <= amax (masked last (last :: t)).
Proof.
  intros Hl. eapply Rle_trans; [apply (Rabs_pos last)|]. apply amax_ge. cbn [masked map]. left.
  replace (nltb n0 (nmul last last)) with true; [reflexivity|]. symmetry. apply nltb_R. numR. nra.
Qed.

(** what the code returns from a loop state *)
Definition sp_finish (P : list nat) (st : R * list nat * list R * list nat) : list nat :=
  let '(last, npi, pvs, pis) := st in
  take 0%nat P (match pvs with [] => npi | _ => npi ++ [nth (argmax_abs_w_sign_p pvs last) pis 0%nat] end).

Lemma sp_for_sync (P : list nat) (tol : R) (xs : list R) : forall ps s last npi pvs pis bestv besti out,
  (s + length ps = length P)%nat -> (forall j, (j < length ps)%nat -> nth (s + j) P 0%nat = nth j ps 0%nat) ->
  length pis = length pvs -> (exists t, pvs = last :: t) ->
  bestv = amax (aw_abs_vals' pvs last) -> besti = nth (nth (argmax (aw_abs_vals' pvs last)) pis 0%nat) P 0%nat ->
  rev out = take 0%nat P npi ->
  sp_loop tol xs last bestv besti ps out =
  sp_finish P (sp_for tol (take n0 xs P) (seq s (length ps)) last npi pvs pis).
Proof.
  induction ps as [|p r IH]; intros s last npi pvs pis bestv besti out Hlen Hnth Hpl (t & Ept) Hbv Hbi Hout.
  - cbn [length seq sp_for sp_loop sp_finish]. subst pvs. cbn [rev]. rewrite Hout. unfold take. rewrite map_app. cbn [map].
    unfold argmax_abs_w_sign_p. now rewrite <- Hbi.
  - cbn [length seq sp_for sp_loop]. cbn [length] in Hlen, Hnth.
    assert (Hp : nth s P 0%nat = p) by (specialize (Hnth 0%nat ltac:(lia)); now rewrite Nat.add_0_r in Hnth).
    assert (Hv : nth s (take n0 xs P) n0 = xat xs p).
    { unfold take. rewrite (nth_map_in _ _ _ _ 0%nat) by lia. rewrite Hp. reflexivity. }
    rewrite Hv. cbv zeta.
    assert (Hnth' : forall j, (j < length r)%nat -> nth (S s + j) P 0%nat = nth j r 0%nat).
    { intros j Hj. replace (S s + j)%nat with (s + S j)%nat by lia. rewrite Hnth by lia. reflexivity. }
    destruct (nleb (nmul (nadd (xat xs p) (nmul tol (nsign last))) last) n0) eqn:Esw.
    + (* the sign switches: emit the best of the set, start a new set *)
      cbn [app]. apply (IH (S s)); [lia|exact Hnth'|reflexivity|eexists; reflexivity| | |].
      * now rewrite aw_single.
      * rewrite aw_single. cbn [argmax argmax_from nth]. now rewrite Hp.
      * cbn [rev]. rewrite Hout. unfold take. rewrite map_app. cbn [map]. unfold argmax_abs_w_sign_p. now rewrite <- Hbi.
    + (* same half cycle: the new value joins the set *)
      assert (Hl0 : last <> 0).
      { intros E0. subst last. change (nleb ?a n0) with (Rleb a 0) in Esw. apply Rleb_false in Esw. numR. lra. }
      subst pvs. rewrite (aw_headed last t Hl0) in Hbv, Hbi.
      assert (Eaw : aw_abs_vals' ((last :: t) ++ [xat xs p]) last = masked last (last :: t) ++ [if nltb n0 (nmul (xat xs p) last) then nabs (xat xs p) else nopp n1]).
      { change ((last :: t) ++ [xat xs p]) with (last :: (t ++ [xat xs p])). rewrite (aw_headed last _ Hl0).
        unfold masked. change (last :: t ++ [xat xs p]) with ((last :: t) ++ [xat xs p]). now rewrite map_app. }
      assert (Hne : masked last (last :: t) <> []) by discriminate.
      assert (Hml : length (masked last (last :: t)) = length pis) by (unfold masked; now rewrite map_length).
      pose proof (masked_head_nonneg last t Hl0) as Hnn. rewrite <- Hbv in Hnn.
      pose proof (argmax_lt (masked last (last :: t)) Hne) as Halt.
      destruct (nltb n0 (nmul (xat xs p) last)) eqn:Ess; cbn [andb].
      * destruct (nltb bestv (nabs (xat xs p))) eqn:Ebt.
        -- apply (IH (S s)); [lia|exact Hnth'|rewrite !app_length; cbn [length] in *; lia|eexists; reflexivity| | |exact Hout].
           ++ rewrite Eaw, (amax_snoc _ _ Hne), <- Hbv. unfold nmax. now rewrite Ebt.
           ++ rewrite Eaw, (argmax_snoc _ _ Hne), <- Hbv, Ebt, Hml. rewrite app_nth2 by lia. rewrite Nat.sub_diag. cbn [nth]. now rewrite Hp.
        -- apply (IH (S s)); [lia|exact Hnth'|rewrite !app_length; cbn [length] in *; lia|eexists; reflexivity| | |exact Hout].
           ++ rewrite Eaw, (amax_snoc _ _ Hne), <- Hbv. unfold nmax. now rewrite Ebt.
           ++ rewrite Eaw, (argmax_snoc _ _ Hne), <- Hbv, Ebt. rewrite app_nth1 by lia. exact Hbi.
      * assert (Ebt : nltb bestv (nopp n1) = false).
        { change (nltb bestv (nopp n1)) with (Rltb bestv (- 1)). apply Rltb_false. lra. }
        apply (IH (S s)); [lia|exact Hnth'|rewrite !app_length; cbn [length] in *; lia|eexists; reflexivity| | |exact Hout].
        -- rewrite Eaw, (amax_snoc _ _ Hne), <- Hbv. unfold nmax. now rewrite Ebt.
        -- rewrite Eaw, (argmax_snoc _ _ Hne), <- Hbv, Ebt. rewrite app_nth1 by lia. exact Hbi.
Qed.

Theorem pipeline_sp (tol : R) (xs : list R) : first_up xs <> None -> switched_peaks_p tol xs = switched_peaks tol xs.
Proof.
  intros Hnc. assert (Hne : xs <> []) by (intros ->; apply Hnc; reflexivity).
  unfold switched_peaks_p, switched_peaks. rewrite (pipeline_all xs Hnc).
  destruct (peaks xs) as [|p0 r] eqn:EP.
  { exfalso. assert (Hin : In 0%nat (peaks xs)) by (apply C11_exact; split; [destruct xs; [congruence|cbn; lia]|now left]). rewrite EP in Hin. destruct Hin. }
  cbn [switched_peaks_of].
  replace (length (take n0 xs (p0 :: r)) - 1)%nat with (length r) by (unfold take; rewrite map_length; cbn [length]; lia).
  change (nth 0 (take n0 xs (p0 :: r)) n0) with (xat xs p0).
  symmetry.
  rewrite (sp_for_sync (p0 :: r) tol xs r 1 (xat xs p0) [] [xat xs p0] [0%nat] (nabs (xat xs p0)) p0 []).
  - reflexivity.
  - cbn [length]. lia.
  - intros j Hj. reflexivity.
  - reflexivity.
  - eexists; reflexivity.
  - now rewrite aw_single.
  - rewrite aw_single. reflexivity.
  - reflexivity.
Qed.

(** constant series: the code starts from the peak list [0, 0] (see [pipeline_constant]) *)
Theorem pipeline_sp_constant (tol : R) (xs : list R) : xs <> [] -> first_up xs = None ->
  (xat xs 0 = 0 -> switched_peaks_p tol xs = [0; 0]%nat) /\
  (xat xs 0 <> 0 -> 0 <= tol -> switched_peaks_p tol xs = [0%nat]).
Proof.
  intros Hne Hc. unfold switched_peaks_p. rewrite (pipeline_constant 0 xs Hne Hc).
  change (take n0 xs [0; 0]%nat) with [xat xs 0; xat xs 0]. cbn [length Nat.sub seq sp_for nth]. cbv zeta.
  set (x := xat xs 0). split.
  - intros E. rewrite E.
    replace (nleb (nmul (nadd 0 (nmul tol (nsign 0))) 0) n0) with true by (symmetry; apply Rleb_true; numR; lra).
    cbn [app]. unfold argmax_abs_w_sign_p. rewrite !aw_single. reflexivity.
  - intros Hx Ht.
    assert (Hs : 0 <= nsign x * x).
    { unfold nsign. numR. case_Rltb 0 x; [lra|]. case_Rltb x 0; nra. }
    replace (nleb (nmul (nadd x (nmul tol (nsign x))) x) n0) with false.
    + cbn [app]. unfold argmax_abs_w_sign_p. rewrite (aw_headed x [x] Hx). cbn [masked map].
      replace (nltb n0 (nmul x x)) with true by (symmetry; apply nltb_R; numR; nra).
      cbn [argmax argmax_from]. replace (nltb (nabs x) (nabs x)) with false by (symmetry; apply Rltb_false; numR; lra).
      reflexivity.
    + symmetry. apply Rleb_false. numR. assert (0 < x * x) by nra. nra.
Qed.
