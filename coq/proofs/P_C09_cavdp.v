(** Proofs for the standardised-CAV clauses of C09 ([cav_dp] of model/M_im.v) at T := R, for all records:
    A. the interpolated series (monotone, non-negative, value between / at whole seconds, first and final value);
    B. the gate clause for the whole series;
    C. the "windows" clause (running total = sum over qualifying windows of the pps-point trapezoid; last-panel identity);
    D. the upper bound by CAV/g (window ends, every element, final value) and the refutation of the point-in-time bound. *)
From Coq Require Import ZArith Reals List Bool Lra Lia.
From EQ Require Import lib.Num lib.NpList lib.Quad lib.InterpMono model.M_displacements model.M_im proofs.P_C09.
Import ListNotations.
Local Open Scope R_scope.

(** ** list facts *)
Lemma nth_firstn_lt {A} (l : list A) n j d : (j < n)%nat -> nth j (firstn n l) d = nth j l d.
Proof.
  revert n j; induction l as [|x r IH]; intros [|n] j Hj; try lia; [destruct j; reflexivity|].
  destruct j; cbn; [reflexivity|]. apply IH. lia.
Qed.
Lemma nth_skipn_add {A} (l : list A) s j d : nth j (skipn s l) d = nth (s + j) l d.
Proof.
  revert l; induction s as [|s IH]; intros l; [reflexivity|].
  destruct l as [|x r]; [cbn; destruct j; reflexivity|]. cbn [skipn Nat.add nth]. apply IH.
Qed.
Lemma window_nth {A} (l : list A) s len j d : (j < len)%nat -> nth j (window s len l) d = nth (s + j) l d.
Proof. intros Hj. unfold window. rewrite nth_firstn_lt by auto. apply nth_skipn_add. Qed.
Lemma window_length {A} (l : list A) s len : (s + len <= length l)%nat -> length (window s len l) = len.
Proof. intros Hl. unfold window. rewrite firstn_length, skipn_length. lia. Qed.
Lemma firstn_snoc {A} (l : list A) n d : (n < length l)%nat -> firstn (S n) l = firstn n l ++ [nth n l d].
Proof.
  revert n; induction l as [|x r IH]; intros n Hn; cbn in Hn; [lia|].
  destruct n; [reflexivity|]. cbn [firstn nth app]. f_equal. apply IH. lia.
Qed.
Lemma window_snoc {A} (l : list A) s len d : (s + len < length l)%nat ->
  window s (S len) l = window s len l ++ [nth (s + len) l d].
Proof.
  intros Hl. unfold window. rewrite (firstn_snoc _ len d) by (rewrite skipn_length; lia).
  now rewrite nth_skipn_add.
Qed.
Lemma vabs_window (l : list R) s len : vabs (window s len l) = window s len (vabs l).
Proof. unfold vabs, window. now rewrite skipn_map, firstn_map. Qed.
Lemma firstn_vabs_window (l : list R) s p : firstn p (vabs (window s (S p) l)) = window s p (vabs l).
Proof. rewrite vabs_window. unfold window. rewrite firstn_firstn. f_equal. lia. Qed.
Lemma map_const_repeat {A} (f : A -> R) c (l : list A) : (forall x, f x = c) -> map f l = repeat c (length l).
Proof. intros Hf. induction l as [|x r IH]; [reflexivity|]. cbn. now rewrite Hf, IH. Qed.

(** ** the time axis *)
Lemma times_length (dt : R) n : length (times dt n) = n.
Proof. unfold times. now rewrite map_length, seq_length. Qed.
Lemma times_nth (dt : R) n i : (i < n)%nat -> nth i (times dt n) 0 = IZR (Z.of_nat i) * dt.
Proof.
  intros Hi. unfold times. rewrite nth_map_in with (d' := 0%nat) by (rewrite seq_length; lia).
  rewrite seq_nth by lia. reflexivity.
Qed.
Lemma times_nondecreasing (dt : R) n : 0 <= dt -> nondecreasing (times dt n).
Proof.
  intros Hdt i j Hij. rewrite times_length in Hij. rewrite !times_nth by lia.
  apply Rmult_le_compat_r; auto. apply IZR_le. lia.
Qed.

Lemma cavdp_windows_length thr dt pps nwin start acc (ag : list R) :
  length (cavdp_windows thr dt pps nwin start acc ag) = nwin.
Proof. revert start acc; induction nwin as [|k IH]; intros; cbn [cavdp_windows length]; [reflexivity|]. now rewrite IH. Qed.

(** * A. the interpolated series *)
Section Series.
Variables (g thr dt : R) (pps nwin : nat) (a : list R).
Let ws := cavdp_windows thr dt pps nwin 0 0 (map (fun x => x / g) a).

Lemma cavdp_unfold : cav_dp g thr dt pps nwin a = map (interp_grid ws) (times dt (length a)).
Proof. reflexivity. Qed.
Lemma cavdp_nth i : (i < length a)%nat ->
  nth i (cav_dp g thr dt pps nwin a) 0 = interp_grid ws (IZR (Z.of_nat i) * dt).
Proof.
  intros Hi. rewrite cavdp_unfold. rewrite nth_map_in with (d' := 0) by (rewrite times_length; lia).
  now rewrite times_nth.
Qed.
Lemma ws_monotone : 0 <= dt -> nondecreasing ws.
Proof. intros. now apply cavdp_windows_monotone. Qed.
Lemma ws_nonneg : 0 <= dt -> all_nonneg ws.
Proof. intros Hdt x Hx. exact (cavdp_windows_ge thr dt pps nwin 0%nat 0 _ Hdt x Hx). Qed.
Lemma ws_length : length ws = nwin.
Proof. apply cavdp_windows_length. Qed.

(** non-decreasing everywhere, for every dt >= 0 (no relation between dt, pps and nwin needed) *)
Theorem cavdp_monotone : 0 <= dt -> nondecreasing (cav_dp g thr dt pps nwin a).
Proof.
  intros Hdt. rewrite cavdp_unfold. apply nondecreasing_map.
  - intros x y Hxy. apply interp_grid_mono; auto using ws_monotone.
  - now apply times_nondecreasing.
Qed.
Theorem cavdp_nonneg : 0 <= dt -> all_nonneg (cav_dp g thr dt pps nwin a).
Proof.
  intros Hdt x Hx. rewrite cavdp_unfold in Hx. apply in_map_iff in Hx as (t & <- & _).
  pose proof (interp_grid_ge_first ws t (ws_monotone Hdt)). pose proof (nth_nonneg ws 0 (ws_nonneg Hdt)). lra.
Qed.
Theorem cavdp_le_last_window : 0 <= dt -> forall x, In x (cav_dp g thr dt pps nwin a) -> x <= last ws 0.
Proof.
  intros Hdt x Hx. rewrite cavdp_unfold in Hx. apply in_map_iff in Hx as (t & <- & _).
  apply interp_grid_le_last, ws_monotone, Hdt.
Qed.

(** first element: the total of the FIRST window (not 0) *)
Theorem cavdp_first : a <> [] -> nth 0 (cav_dp g thr dt pps nwin a) 0 = nth 0 ws 0.
Proof.
  intros Ha. rewrite cavdp_nth by (destruct a; [congruence|cbn; lia]).
  apply interp_grid_le0. cbn. lra.
Qed.

(** sample k*pps + r (0 <= r < pps) lies at time k + r*dt: linear between the clamped nodes k and k+1 *)
Hypothesis Hpps : (1 <= pps)%nat.
Hypothesis Hdt1 : dt * IZR (Z.of_nat pps) = 1.

Lemma dt_pos : 0 < dt.
Proof. assert (1 <= IZR (Z.of_nat pps)) by (apply IZR_le; lia). nra. Qed.
Lemma cavdp_nth_split k r : (r < pps)%nat -> (k * pps + r < length a)%nat ->
  nth (k * pps + r) (cav_dp g thr dt pps nwin a) 0
  = (cnode ws (S k) - cnode ws k) * (IZR (Z.of_nat r) * dt) + cnode ws k.
Proof.
  intros Hr Hi. rewrite cavdp_nth by auto.
  rewrite Nat2Z.inj_add, Nat2Z.inj_mul, plus_IZR, mult_IZR.
  replace ((IZR (Z.of_nat k) * IZR (Z.of_nat pps) + IZR (Z.of_nat r)) * dt)
    with (IZR (Z.of_nat k) * (dt * IZR (Z.of_nat pps)) + IZR (Z.of_nat r) * dt) by ring.
  rewrite Hdt1, Rmult_1_r. apply interp_grid_at.
  pose proof dt_pos. assert (0 <= IZR (Z.of_nat r)) by (apply IZR_le; lia).
  assert (IZR (Z.of_nat r) + 1 <= IZR (Z.of_nat pps)) by (rewrite <- plus_IZR; apply IZR_le; lia).
  split; nra.
Qed.
(** between window ends: linear interpolation of consecutive running totals *)
Theorem cavdp_between k r : (S k < nwin)%nat -> (r < pps)%nat -> (k * pps + r < length a)%nat ->
  nth (k * pps + r) (cav_dp g thr dt pps nwin a) 0
  = nth k ws 0 + (nth (S k) ws 0 - nth k ws 0) * (IZR (Z.of_nat r) * dt).
Proof.
  intros Hk Hr Hi. rewrite cavdp_nth_split by auto. rewrite !cnode_lt by (rewrite ws_length; lia). lra.
Qed.
(** at and after the last node: clamped to the last running total *)
Theorem cavdp_clamped k r : (nwin <= S k)%nat -> (r < pps)%nat -> (k * pps + r < length a)%nat ->
  nth (k * pps + r) (cav_dp g thr dt pps nwin a) 0 = last ws 0.
Proof.
  intros Hk Hr Hi. rewrite cavdp_nth_split by auto. rewrite !cnode_ge by (rewrite ws_length; lia). lra.
Qed.
(** at whole seconds: the running window total *)
Theorem cavdp_whole_seconds k : (k < nwin)%nat -> (k * pps < length a)%nat ->
  nth (k * pps) (cav_dp g thr dt pps nwin a) 0 = nth k ws 0.
Proof.
  intros Hk Hi. replace (k * pps)%nat with (k * pps + 0)%nat by lia.
  rewrite cavdp_nth_split by lia. rewrite (cnode_lt ws k) by (rewrite ws_length; lia). cbn. lra.
Qed.
(** final value = last running total, when the record reaches the last node *)
Theorem cavdp_final : a <> [] -> ((nwin - 1) * pps <= length a - 1)%nat ->
  last (cav_dp g thr dt pps nwin a) 0 = last ws 0.
Proof.
  intros Ha Hn. rewrite last_nth_R, cavdp_length.
  assert (Hl : (0 < length a)%nat) by (destruct a; [congruence|cbn; lia]).
  pose proof (Nat.div_mod (length a - 1) pps ltac:(lia)) as Hdm.
  pose proof (Nat.mod_upper_bound (length a - 1) pps ltac:(lia)) as Hr.
  set (k := ((length a - 1) / pps)%nat) in *. set (r := ((length a - 1) mod pps)%nat) in *.
  assert (Hk : (nwin - 1 <= k)%nat) by (apply Nat.div_le_lower_bound; lia).
  replace (length a - 1)%nat with (k * pps + r)%nat by lia.
  apply cavdp_clamped; lia.
Qed.
End Series.

(** * B. the gate clause for the whole series *)
Lemma cavdp_windows_gate_used thr dt pps nwin start acc (ag : list R) :
  (forall j, (j < nwin)%nat -> amax (vabs (window (start + j * pps) (S pps) ag)) < thr) ->
  cavdp_windows thr dt pps nwin start acc ag = repeat acc nwin.
Proof.
  revert start acc; induction nwin as [|k IH]; intros start acc Hg; [reflexivity|].
  cbn [cavdp_windows repeat].
  pose proof (Hg 0%nat ltac:(lia)) as H0. rewrite Nat.mul_0_l, Nat.add_0_r in H0.
  replace (nltb (nsub (amax (vabs (window start (S pps) ag))) thr) n0) with true
    by (symmetry; numR; apply Rltb_true; lra).
  f_equal. apply IH. intros j Hj. replace (start + pps + j * pps)%nat with (start + S j * pps)%nat by lia.
  apply Hg. lia.
Qed.
Theorem cavdp_gate_series g thr dt pps nwin (a : list R) :
  (forall j, (j < nwin)%nat -> amax (vabs (window (j * pps) (S pps) (map (fun x => x / g) a))) < thr) ->
  cav_dp g thr dt pps nwin a = repeat 0 (length a).
Proof.
  intros Hg. rewrite cavdp_unfold. rewrite (cavdp_windows_gate_used thr dt pps nwin 0 0) by exact Hg.
  rewrite (map_const_repeat _ 0) by (intros; apply interp_grid_zeros). now rewrite times_length.
Qed.

(** * C. the "windows" clause *)
(** contribution of the window starting at sample [s]: 0 below the gate, else the pps-point trapezoid *)
Definition win_contrib (thr dt : R) (pps : nat) (ag : list R) (s : nat) : R :=
  if Rltb (amax (vabs (window s (S pps) ag)) - thr) 0 then 0
  else trapz dt (firstn pps (vabs (window s (S pps) ag))).

Lemma cavdp_windows_nth_sum thr dt pps (ag : list R) nwin : forall k start acc, (k < nwin)%nat ->
  nth k (cavdp_windows thr dt pps nwin start acc ag) 0
  = acc + nsum (map (fun j => win_contrib thr dt pps ag (start + j * pps)) (seq 0 (S k))).
Proof.
  induction nwin as [|m IH]; intros k start acc Hk; [lia|].
  cbn [cavdp_windows].
  set (acc' := if nltb _ _ then acc else _).
  assert (Hacc : acc' = acc + win_contrib thr dt pps ag start).
  { unfold acc', win_contrib. numR. destruct (Rltb _ _); lra. }
  destruct k as [|k].
  - cbn [nth seq map]. rewrite nsum_cons, nsum_nil, Nat.mul_0_l, Nat.add_0_r. lra.
  - cbn [nth]. rewrite IH by lia. rewrite Hacc.
    change (seq 0 (S (S k))) with (0%nat :: seq 1 (S k)). rewrite <- seq_shift. cbn [map]. rewrite map_map, nsum_cons.
    rewrite Nat.mul_0_l, Nat.add_0_r.
    rewrite (map_ext (fun j => win_contrib thr dt pps ag (start + pps + j * pps))
                     (fun j => win_contrib thr dt pps ag (start + S j * pps))); [lra|].
    intros j. f_equal. lia.
Qed.
Theorem cavdp_windows_sum thr dt pps nwin (ag : list R) k : (k < nwin)%nat ->
  nth k (cavdp_windows thr dt pps nwin 0 0 ag) 0
  = nsum (map (fun j => win_contrib thr dt pps ag (j * pps)) (seq 0 (S k))).
Proof. intros Hk. rewrite cavdp_windows_nth_sum by auto. cbn [Nat.add]. lra. Qed.
Theorem cavdp_windows_last_sum thr dt pps nwin (ag : list R) :
  last (cavdp_windows thr dt pps nwin 0 0 ag) 0
  = nsum (map (fun j => win_contrib thr dt pps ag (j * pps)) (seq 0 nwin)).
Proof.
  destruct nwin as [|m]; [reflexivity|].
  rewrite last_nth_R, cavdp_windows_length. replace (S m - 1)%nat with m by lia.
  apply cavdp_windows_sum. lia.
Qed.

(** the pps-point trapezoid is the full one-second trapezoid minus its last panel *)
Lemma trapz_cons2 dx x y (r : list R) : trapz dx (x :: y :: r) = dx * (y + x) / 2 + trapz dx (y :: r).
Proof. unfold trapz. cbn [tl map2]. rewrite nsum_cons. reflexivity. Qed.
Lemma trapz_snoc dx (l : list R) y : l <> [] -> trapz dx (l ++ [y]) = trapz dx l + dx * (y + last l 0) / 2.
Proof.
  induction l as [|x r IH]; [congruence|]. intros _. destruct r as [|x' r].
  - cbn [app last]. rewrite trapz_cons2. unfold trapz. cbn. lra.
  - cbn [app] in *. rewrite !trapz_cons2. rewrite IH by discriminate.
    rewrite (last_cons_ne x) by discriminate. lra.
Qed.
Lemma window_last (l : list R) s len : (1 <= len)%nat -> (s + len <= length l)%nat ->
  last (window s len l) 0 = nth (s + len - 1) l 0.
Proof.
  intros H1 Hl. rewrite last_nth_R, window_length by auto. rewrite window_nth by lia. f_equal. lia.
Qed.
Lemma window_ne {A} (l : list A) s len : (1 <= len)%nat -> (s + len <= length l)%nat -> window s len l <> [].
Proof. intros H1 Hl E. apply (f_equal (@length A)) in E. rewrite window_length in E by auto. cbn in E. lia. Qed.
Theorem cavdp_last_panel dt pps (ag : list R) s : (1 <= pps)%nat -> (s + pps < length ag)%nat ->
  trapz dt (vabs (window s (S pps) ag))
  = trapz dt (firstn pps (vabs (window s (S pps) ag)))
    + dt * (Rabs (nth (s + pps) ag 0) + Rabs (nth (s + pps - 1) ag 0)) / 2.
Proof.
  intros Hp Hl. rewrite firstn_vabs_window, vabs_window.
  assert (Hla : length (vabs ag) = length ag) by (unfold vabs; now rewrite map_length).
  rewrite (window_snoc _ s pps 0) by lia.
  rewrite trapz_snoc by (apply window_ne; lia). rewrite window_last by lia.
  unfold vabs. rewrite !nth_map_in with (d' := 0) by lia. reflexivity.
Qed.

(** * D. upper bound by CAV / g *)
Lemma trapz_window_cumtrapz dx (l : list R) s m : (1 <= m)%nat -> (s + m <= length l)%nat ->
  trapz dx (window s m l) = nth (s + m - 1) (cumtrapz dx l) 0 - nth s (cumtrapz dx l) 0.
Proof.
  intros H1. induction m as [|m IH]; [lia|]. intros Hl. destruct (Nat.eq_dec m 0) as [->|Hm].
  - replace (s + 1 - 1)%nat with s by lia.
    assert (E : exists z, window s 1 l = [z]).
    { pose proof (window_length l s 1 Hl) as Hw. destruct (window s 1 l) as [|z [|? ?]]; cbn in Hw; try lia. now exists z. }
    destruct E as [z ->]. unfold trapz. cbn. lra.
  - rewrite (window_snoc _ s m 0) by lia. rewrite trapz_snoc by (apply window_ne; lia).
    rewrite IH by lia. rewrite window_last by lia.
    pose proof (cumtrapz_nth_S dx l (s + m - 1) ltac:(lia)) as E.
    replace (S (s + m - 1)) with (s + m)%nat in E by lia.
    replace (s + S m - 1)%nat with (s + m)%nat by lia. lra.
Qed.

Lemma cavdp_windows_le_cumtrapz thr dt pps (ag : list R) : 0 <= dt -> (1 <= pps)%nat ->
  forall nwin k start acc, acc <= nth start (cumtrapz dt (vabs ag)) 0 -> (k < nwin)%nat ->
  (start + S k * pps < length ag)%nat ->
  nth k (cavdp_windows thr dt pps nwin start acc ag) 0 <= nth (start + S k * pps) (cumtrapz dt (vabs ag)) 0.
Proof.
  intros Hdt Hp. set (C := cumtrapz dt (vabs ag)).
  assert (Hmono : nondecreasing C) by (apply cumtrapz_monotone; auto using all_nonneg_vabs).
  assert (HlC : length C = length ag) by (unfold C, vabs; now rewrite cumtrapz_length, map_length).
  induction nwin as [|m IH]; intros k start acc Hacc Hk Hl; [lia|].
  cbn [cavdp_windows].
  set (acc' := if nltb _ _ then acc else _).
  assert (Hacc' : acc' <= nth (start + pps) C 0).
  { unfold acc'. destruct (nltb _ _).
    - eapply Rle_trans; [exact Hacc|]. apply Hmono. rewrite HlC. nia.
    - rewrite firstn_vabs_window. rewrite trapz_window_cumtrapz by (unfold vabs; rewrite ?map_length; nia).
      fold C. numR. assert (nth (start + pps - 1) C 0 <= nth (start + pps) C 0) by (apply Hmono; rewrite HlC; nia). lra. }
  destruct k as [|k].
  - cbn [nth]. replace (start + 1 * pps)%nat with (start + pps)%nat by lia. exact Hacc'.
  - cbn [nth]. replace (start + S (S k) * pps)%nat with (start + pps + S k * pps)%nat by lia.
    apply IH; auto; lia.
Qed.

Lemma vabs_div_g g (a : list R) : 0 < g -> vabs (map (fun x => x / g) a) = map (Rmult (/ g)) (vabs a).
Proof.
  intros Hg. unfold vabs. rewrite !map_map. apply map_ext. intros x. numR.
  unfold Rdiv. rewrite Rabs_mult. assert (0 < / g) by now apply Rinv_0_lt_compat.
  rewrite (Rabs_pos_eq (/ g)) by lra. ring.
Qed.
Lemma cumtrapz_div_g g dt (a : list R) i : 0 < g -> (i < length a)%nat ->
  nth i (cumtrapz dt (vabs (map (fun x => x / g) a))) 0 = nth i (cav dt a) 0 / g.
Proof.
  intros Hg Hi. rewrite vabs_div_g by auto. rewrite cumtrapz_scale.
  rewrite nth_map_in with (d' := 0) by (unfold vabs; now rewrite cumtrapz_length, map_length).
  unfold cav. lra.
Qed.

(** running total after window k <= CAV at the end of that window, / g *)
Theorem cavdp_windows_le_cav g thr dt pps nwin (a : list R) k : 0 <= dt -> 0 < g -> (1 <= pps)%nat ->
  (k < nwin)%nat -> (S k * pps < length a)%nat ->
  nth k (cavdp_windows thr dt pps nwin 0 0 (map (fun x => x / g) a)) 0 <= nth (S k * pps) (cav dt a) 0 / g.
Proof.
  intros Hdt Hg Hp Hk Hl. rewrite <- cumtrapz_div_g by auto.
  apply (cavdp_windows_le_cumtrapz thr dt pps _ Hdt Hp nwin k 0%nat 0); auto.
  - rewrite cumtrapz_nth_0. lra.
  - rewrite map_length. cbn [Nat.add]. exact Hl.
Qed.
Lemma cav_last_ge dt (a : list R) i : 0 <= dt -> (i < length a)%nat -> nth i (cav dt a) 0 <= last (cav dt a) 0.
Proof.
  intros Hdt Hi. rewrite last_nth_R. unfold cav.
  apply cumtrapz_monotone; auto using all_nonneg_vabs. rewrite cumtrapz_length. unfold vabs. rewrite map_length. lia.
Qed.
Theorem cavdp_last_window_le_cav g thr dt pps nwin (a : list R) : 0 <= dt -> 0 < g -> (1 <= pps)%nat ->
  (nwin * pps < length a)%nat ->
  last (cavdp_windows thr dt pps nwin 0 0 (map (fun x => x / g) a)) 0 <= last (cav dt a) 0 / g.
Proof.
  intros Hdt Hg Hp Hl. assert (0 < / g) by now apply Rinv_0_lt_compat.
  destruct nwin as [|m].
  - cbn [cavdp_windows last].
    pose proof (cav_last_ge dt a 0 Hdt ltac:(lia)) as H0. unfold cav in H0 at 1. rewrite cumtrapz_nth_0 in H0.
    unfold Rdiv. nra.
  - rewrite last_nth_R, cavdp_windows_length. replace (S m - 1)%nat with m by lia.
    eapply Rle_trans; [apply cavdp_windows_le_cav; auto; lia|].
    pose proof (cav_last_ge dt a (S m * pps) Hdt Hl). unfold Rdiv. nra.
Qed.
(** every element of the series (hence the final value) <= CAV_final / g *)
Theorem cavdp_le_cav g thr dt pps nwin (a : list R) : 0 <= dt -> 0 < g -> (1 <= pps)%nat ->
  (nwin * pps < length a)%nat ->
  forall x, In x (cav_dp g thr dt pps nwin a) -> 0 <= x <= last (cav dt a) 0 / g.
Proof.
  intros Hdt Hg Hp Hl x Hx. split; [now apply (cavdp_nonneg g thr dt pps nwin a Hdt)|].
  eapply Rle_trans; [apply (cavdp_le_last_window g thr dt pps nwin a Hdt x Hx)|].
  now apply cavdp_last_window_le_cav.
Qed.
Theorem cavdp_final_le_cav g thr dt pps nwin (a : list R) : 0 <= dt -> 0 < g -> (1 <= pps)%nat ->
  (nwin * pps < length a)%nat ->
  0 <= last (cav_dp g thr dt pps nwin a) 0 <= last (cav dt a) 0 / g.
Proof.
  intros Hdt Hg Hp Hl. apply (cavdp_le_cav g thr dt pps nwin a); auto.
  assert (Hne : cav_dp g thr dt pps nwin a <> []).
  { intros E. apply (f_equal (@length R)) in E. rewrite cavdp_length in E. cbn in E. lia. }
  destruct (cav_dp g thr dt pps nwin a) as [|x r]; [congruence|]. clear.
  revert x; induction r as [|y r IH]; intros x; [now left|]. rewrite last_cons_ne by discriminate. right. apply IH.
Qed.

(** * E. refuted clauses: "the series starts at 0" and "cav_dp(t) <= CAV(t)/g at every sample" are FALSE of the model
    (and of calc_cav_dp: the running total of window k is assigned to t = k, i.e. one second early).
    Witness: five samples of 9.81 m/s2 at dt = 0.5 s; eqsig returns [0.5, 0.75, 1, 1, 1], CAV/9.81 = [0, 0.5, 1, 1.5, 2]. *)
Definition cavdp_wit : list R := [9.81; 9.81; 9.81; 9.81; 9.81].
Lemma cavdp_witness_first : nth 0 (cav_dp 9.81 0.025 (1/2) 2 2 cavdp_wit) 0 = 1/2.
Proof.
  rewrite cavdp_first by discriminate. unfold cavdp_wit. cbn [map]. numR.
  replace (9.81 / 9.81) with 1 by (field; lra).
  cbn [cavdp_windows nth window skipn firstn vabs map]. numR. rewrite Rabs_R1.
  unfold amax. cbn [fold_left]. rewrite !nmax_R. unfold Rmax. destruct (Rle_dec 1 1); [|lra].
  destruct (Rle_dec 1 1); [|lra].
  replace (Rltb (1 - 0.025) 0) with false by (symmetry; apply Rltb_false; lra).
  unfold trapz. cbn. lra.
Qed.
Theorem cavdp_starts_at_zero_refuted :
  exists (g thr dt : R) (pps nwin : nat) (a : list R),
    0 < g /\ (1 <= pps)%nat /\ dt * IZR (Z.of_nat pps) = 1 /\ (nwin * pps < length a)%nat /\
    nth 0 (cav_dp g thr dt pps nwin a) 0 <> 0.
Proof.
  exists 9.81, 0.025, (1/2), 2%nat, 2%nat, cavdp_wit. rewrite cavdp_witness_first.
  repeat split; try lra; cbn; try lia. lra.
Qed.
Theorem cavdp_pointwise_bound_refuted :
  exists (g thr dt : R) (pps nwin : nat) (a : list R) (i : nat),
    0 < g /\ (1 <= pps)%nat /\ dt * IZR (Z.of_nat pps) = 1 /\ (nwin * pps < length a)%nat /\ (i < length a)%nat /\
    nth i (cav dt a) 0 / g < nth i (cav_dp g thr dt pps nwin a) 0.
Proof.
  exists 9.81, 0.025, (1/2), 2%nat, 2%nat, cavdp_wit, 0%nat. rewrite cavdp_witness_first.
  unfold cav. rewrite cumtrapz_nth_0.
  repeat split; try lra; cbn; try lia. lra.
Qed.

(** final value of the returned series = sum over the qualifying windows of the pps-point trapezoid *)
Theorem cavdp_final_sum g thr dt pps nwin (a : list R) : (1 <= pps)%nat -> dt * IZR (Z.of_nat pps) = 1 ->
  a <> [] -> ((nwin - 1) * pps <= length a - 1)%nat ->
  last (cav_dp g thr dt pps nwin a) 0
  = nsum (map (fun j => win_contrib thr dt pps (map (fun x => x / g) a) (j * pps)) (seq 0 nwin)).
Proof. intros Hp Hdt Ha Hn. rewrite cavdp_final by auto. apply cavdp_windows_last_sum. Qed.

(** the code's nwin = int(time[-1]) = floor((n-1)*dt) equals (n-1)/pps, so every window index it uses is in range *)
Theorem cavdp_nwin_in_range (dt : R) pps n : (1 <= pps)%nat -> dt * IZR (Z.of_nat pps) = 1 -> (1 <= n)%nat ->
  let nwin := Z.to_nat (nfloor (last (times dt n) 0)) in
  nwin = ((n - 1) / pps)%nat /\ (nwin * pps < n)%nat.
Proof.
  intros Hp Hdt Hn. cbv zeta.
  rewrite last_nth_R, times_length, times_nth by lia.
  pose proof (Nat.div_mod (n - 1) pps ltac:(lia)) as Hdm.
  pose proof (Nat.mod_upper_bound (n - 1) pps ltac:(lia)) as Hr.
  set (q := ((n - 1) / pps)%nat) in *. set (r := ((n - 1) mod pps)%nat) in *.
  assert (Hfl : nfloor (IZR (Z.of_nat (n - 1)) * dt) = Z.of_nat q).
  { apply Rfloor_unique. rewrite Hdm.
    rewrite Nat2Z.inj_add, Nat2Z.inj_mul, plus_IZR, mult_IZR.
    replace ((IZR (Z.of_nat pps) * IZR (Z.of_nat q) + IZR (Z.of_nat r)) * dt)
      with (IZR (Z.of_nat q) * (dt * IZR (Z.of_nat pps)) + IZR (Z.of_nat r) * dt) by ring.
    rewrite Hdt, Rmult_1_r.
    assert (0 < dt) by (assert (1 <= IZR (Z.of_nat pps)) by (apply IZR_le; lia); nra).
    assert (0 <= IZR (Z.of_nat r)) by (apply IZR_le; lia).
    assert (IZR (Z.of_nat r) + 1 <= IZR (Z.of_nat pps)) by (rewrite <- plus_IZR; apply IZR_le; lia).
    split; nra. }
  rewrite Hfl, Nat2Z.id. split; [reflexivity|nia].
Qed.
