(** C05 — soundness of the abstract interpreter of model/M_effects.v w.r.t. the heap semantics. No assumptions (closed under the global context). *)
From Coq Require Import String List Bool Arith Lia.
From EQ Require Import model.M_effects.
Import ListNotations.
Local Open Scope string_scope.

(** * list / map lemmas *)
Lemma mem_In : forall x l, mem x l = true <-> In x l.
Proof.
  unfold mem. intros x l. rewrite existsb_exists. split.
  - intros [y [Hy He]]. apply String.eqb_eq in He. now subst.
  - intros H. exists x. split; [assumption|apply String.eqb_refl].
Qed.
Lemma mem_false : forall x l, mem x l = false <-> ~ In x l.
Proof. intros. rewrite <- mem_In. destruct (mem x l); split; congruence. Qed.
Lemma In_union : forall x l1 l2, In x (union l1 l2) <-> In x l1 \/ In x l2.
Proof.
  unfold union. intros. rewrite in_app_iff, filter_In. split.
  - intros [H|[H _]]; auto.
  - intros [H|H]; auto. destruct (mem x l1) eqn:E.
    + left. now apply mem_In.
    + right. split; [assumption|reflexivity].
Qed.
Lemma subset_incl : forall l1 l2, subset l1 l2 = true <-> incl l1 l2.
Proof.
  unfold subset, incl. intros. rewrite forallb_forall. split; intros H x Hx.
  - apply mem_In. auto.
  - apply mem_In. auto.
Qed.
Lemma lookup_aset : forall A x l y, lookup (aset A x l) y = if String.eqb x y then l else lookup A y.
Proof.
  intros. unfold aset. cbn [lookup]. destruct (String.eqb x y) eqn:E; [reflexivity|].
  induction A as [|[k v] r IH]; cbn; [reflexivity|].
  destruct (String.eqb k x) eqn:E2; cbn.
  - apply String.eqb_eq in E2. subst k. rewrite E. exact IH.
  - destruct (String.eqb k y); [reflexivity|exact IH].
Qed.
Lemma lookup_in_keys : forall A x r, In r (lookup A x) -> In x (keys A).
Proof.
  induction A as [|[k v] t IH]; cbn; intros x r H; [contradiction|].
  destruct (String.eqb k x) eqn:E.
  - apply String.eqb_eq in E. now left.
  - right. eapply IH; eauto.
Qed.
Lemma lookup_mapkeys : forall (g : string -> list string) ks x,
  lookup (map (fun k => (k, g k)) ks) x = if mem x ks then g x else [].
Proof.
  induction ks as [|k t IH]; intros x; cbn; [reflexivity|].
  rewrite (String.eqb_sym x k). destruct (String.eqb k x) eqn:E; cbn.
  - apply String.eqb_eq in E. now subst.
  - apply IH.
Qed.
Lemma lookup_join : forall A B x r, In r (lookup (join A B) x) <-> In r (lookup A x) \/ In r (lookup B x).
Proof.
  intros. unfold join. rewrite lookup_mapkeys.
  destruct (mem x (union (keys A) (keys B))) eqn:E.
  - apply In_union.
  - split; [intros []|]. apply mem_false in E. intros H. exfalso. apply E. apply In_union.
    destruct H as [H|H]; [left|right]; eapply lookup_in_keys; eauto.
Qed.
Lemma lookup_init : forall roots x, In x roots -> In x (lookup (init_amap roots) x).
Proof.
  intros. unfold init_amap. rewrite lookup_mapkeys. apply mem_In in H. rewrite H. now left.
Qed.
Lemma lookup_init_inv : forall roots x r, In r (lookup (init_amap roots) x) -> r = x /\ In x roots.
Proof.
  intros roots x r. unfold init_amap. rewrite lookup_mapkeys. destruct (mem x roots) eqn:E; [|intros []].
  intros [H|[]]. split; [now subst|now apply mem_In].
Qed.

Definition le_amap (A B : amap) : Prop := forall x r, In r (lookup A x) -> In r (lookup B x).
Lemma leb_amap_sound : forall A B, leb_amap A B = true -> le_amap A B.
Proof.
  unfold leb_amap, le_amap. intros A B H. rewrite forallb_forall in H.
  induction A as [|[k v] t IH]; cbn; intros x r Hr; [contradiction|].
  destruct (String.eqb k x) eqn:E.
  - apply String.eqb_eq in E. subst k. specialize (H (x, v) (or_introl eq_refl)). cbn in H.
    apply subset_incl in H. now apply H.
  - apply IH; [|assumption]. intros kl Hkl. apply H. now right.
Qed.
Lemma le_amap_refl : forall A, le_amap A A. Proof. unfold le_amap; auto. Qed.
Lemma le_amap_trans : forall A B C, le_amap A B -> le_amap B C -> le_amap A C. Proof. unfold le_amap; auto. Qed.
Lemma le_join_l : forall A B, le_amap A (join A B). Proof. unfold le_amap. intros. apply lookup_join. now left. Qed.
Lemma le_join_r : forall A B, le_amap B (join A B). Proof. unfold le_amap. intros. apply lookup_join. now right. Qed.
Lemma roots_of_spec : forall A ys y r, In y ys -> In r (lookup A y) -> In r (roots_of A ys).
Proof.
  induction ys as [|z t IH]; cbn; intros y r Hy Hr; [contradiction|].
  apply In_union. destruct Hy as [->|Hy]; [now left|right; eauto].
Qed.

Lemma iter_spec : forall f n A A', iter f n A = Some A' ->
  le_amap A A' /\ exists A1, f A' = Some A1 /\ leb_amap A1 A' = true.
Proof.
  induction n as [|n IH]; cbn; intros A A' H; [discriminate|].
  destruct (f A) as [A1|] eqn:Ef; [|discriminate].
  destruct (leb_amap A1 A) eqn:El.
  - inversion H; subst. split; [apply le_amap_refl|]. eauto.
  - apply IH in H. destruct H as [H1 H2]. split; [|assumption].
    eapply le_amap_trans; [apply le_join_l|exact H1].
Qed.
Lemma iter_fix : forall f n A A', iter f n A = Some A' -> iter f n A' = Some A'.
Proof.
  intros f n A A' H. pose proof (iter_spec _ _ _ _ H) as [_ [A1 [Hf Hl]]].
  destruct n; cbn in *; [discriminate|]. now rewrite Hf, Hl.
Qed.

(** * concretisation relative to the entry state (e0, n0, h0) *)
Section Sound.
Variable P : list string.
Variable fuel : nat.
Variable e0 : env.
Variable n0 : nat.
Variable h0 : nat -> nat.

(** every bound variable denotes a buffer allocated since entry, or the entry buffer of one of its abstract roots *)
Definition gamma (A : amap) (st : state) : Prop :=
  forall x b, senv st x = Some b -> n0 <= b \/ exists r, In r (lookup A x) /\ e0 r = Some b.
(** buffers that existed at entry and that only protected roots denote still have their entry content *)
Definition frame (st : state) : Prop :=
  n0 <= snext st /\
  forall b, b < n0 -> (forall r, e0 r = Some b -> In r P) -> sheap st b = h0 b.

Lemma gamma_mono : forall A B st, le_amap A B -> gamma A st -> gamma B st.
Proof.
  unfold gamma. intros A B st L G x b H. destruct (G x b H) as [?|[r [Hr He]]]; [now left|right]. exists r. split; auto.
Qed.

Lemma analyze_sound : forall s st st', exec s st st' ->
  forall A A', analyze P fuel s A = Some A' -> gamma A st -> frame st -> gamma A' st' /\ frame st'.
Proof.
  induction 1; intros A A' HA G F.
  - (* Skip *) cbn in HA. inversion HA; subst. auto.
  - (* Fresh *) cbn in HA. inversion HA; subst. destruct F as [Fn Fh]. split.
    + intros y b Hb. rewrite lookup_aset. cbn [senv] in Hb. unfold bind in Hb. rewrite (String.eqb_sym y x) in Hb.
      destruct (String.eqb x y).
      * inversion Hb; subst. now left.
      * apply G. exact Hb.
    + split; cbn; [lia|]. intros b Hb Hp. unfold upd. destruct (Nat.eqb b (snext st)) eqn:E.
      * apply Nat.eqb_eq in E. lia.
      * auto.
  - (* Alias *) cbn in HA. inversion HA; subst. split; [|exact F].
    intros z b Hb. rewrite lookup_aset. cbn [senv] in Hb. unfold bind in Hb. rewrite (String.eqb_sym z x) in Hb.
    destruct (String.eqb x z).
    + destruct (G y b Hb) as [?|[r [Hr He]]]; [now left|right]. exists r. split; [|assumption].
      eapply roots_of_spec; eauto.
    + apply G. exact Hb.
  - (* AliasNil *) cbn in HA. inversion HA; subst. split; [|exact F].
    intros z b Hb. rewrite lookup_aset. cbn [senv] in Hb. unfold bind in Hb. rewrite (String.eqb_sym z x) in Hb.
    destruct (String.eqb x z); [discriminate|]. apply G. exact Hb.
  - (* Mut *) cbn in HA. destruct (mut_ok P A x) eqn:Em; [|discriminate]. inversion HA; subst. split; [exact G|].
    destruct F as [Fn Fh]. split; [exact Fn|]. cbn. intros c Hc Hp. unfold upd.
    destruct (Nat.eqb c b) eqn:E; [|auto]. apply Nat.eqb_eq in E. subst c. exfalso.
    destruct (G x b H) as [Hge|[r [Hr He]]]; [lia|].
    unfold mut_ok in Em. rewrite forallb_forall in Em. specialize (Em r Hr).
    apply negb_true_iff, mem_false in Em. apply Em. now apply Hp.
  - (* MutNone *) cbn in HA. destruct (mut_ok P A x); [|discriminate]. inversion HA; subst. auto.
  - (* Seq *) cbn in HA. destruct (analyze P fuel a A) as [A1|] eqn:E1; [|discriminate].
    destruct (IHexec1 _ _ E1 G F) as [G1 F1]. eapply IHexec2; eauto.
  - (* IfL *) cbn in HA. destruct (analyze P fuel a A) as [A1|] eqn:E1; [|discriminate].
    destruct (analyze P fuel b A) as [A2|] eqn:E2; [|discriminate]. inversion HA; subst.
    destruct (IHexec _ _ E1 G F) as [G1 F1]. split; [|exact F1]. eapply gamma_mono; [apply le_join_l|exact G1].
  - (* IfR *) cbn in HA. destruct (analyze P fuel a A) as [A1|] eqn:E1; [|discriminate].
    destruct (analyze P fuel b A) as [A2|] eqn:E2; [|discriminate]. inversion HA; subst.
    destruct (IHexec _ _ E2 G F) as [G2 F2]. split; [|exact F2]. eapply gamma_mono; [apply le_join_r|exact G2].
  - (* LoopNil *) cbn in HA. apply iter_spec in HA. destruct HA as [L _]. split; [|exact F]. eapply gamma_mono; eauto.
  - (* LoopStep *) cbn in HA. pose proof (iter_fix _ _ _ _ HA) as Hfix.
    apply iter_spec in HA. destruct HA as [L [A1 [Hf Hl]]].
    assert (G' : gamma A' s1) by (eapply gamma_mono; eauto).
    destruct (IHexec1 _ _ Hf G' F) as [G1 F1].
    apply IHexec2 with (A := A'); [exact Hfix| |exact F1].
    eapply gamma_mono; [apply leb_amap_sound; exact Hl|exact G1].
Qed.
End Sound.

(** * C05_effects_sound: an accepted body leaves every protected entry buffer unchanged *)
Theorem effects_sound : forall f st st',
  no_param_mutation f = true ->
  (forall x, senv st x <> None -> In x (f_roots f)) ->
  exec (f_body f) st st' ->
  forall p b, In p (f_prot f) -> senv st p = Some b -> b < snext st ->
    (forall r, senv st r = Some b -> In r (f_prot f)) ->
    sheap st' b = sheap st b.
Proof.
  intros f st st' Hok Hroots Hex p b Hp Hb Hlt Hall.
  unfold no_param_mutation, run_func in Hok.
  destruct (analyze (f_prot f) FUEL (f_body f) (init_amap (f_roots f))) as [A'|] eqn:EA; [|discriminate].
  destruct (analyze_sound (f_prot f) FUEL (senv st) (snext st) (sheap st) _ _ _ Hex _ _ EA) as [_ [_ Fh]].
  - intros x c Hc. right. exists x. split; [|assumption]. apply lookup_init. apply Hroots. congruence.
  - split; [lia|]. auto.
  - apply Fh; assumption.
Qed.

(** pure functions: every root is protected, so every buffer reachable at entry is unchanged *)
Theorem effects_sound_pure : forall f st st',
  no_param_mutation f = true ->
  (forall x, In x (f_roots f) -> In x (f_prot f)) ->
  (forall x, senv st x <> None -> In x (f_roots f)) ->
  (forall x b, senv st x = Some b -> b < snext st) ->
  exec (f_body f) st st' ->
  forall p b, senv st p = Some b -> sheap st' b = sheap st b.
Proof.
  intros f st st' Hok Hall Hroots Hwf Hex p b Hb.
  eapply effects_sound; eauto.
  - apply Hall, Hroots. congruence.
  - intros r Hr. apply Hall, Hroots. congruence.
Qed.

(** what the analysis says about the returned value / exit aliasing is sound as well *)
Theorem exit_roots_sound : forall f st st' x b,
  (forall y, senv st y <> None -> In y (f_roots f)) ->
  exec (f_body f) st st' -> senv st' x = Some b -> b < snext st ->
  exists r, In r (exit_roots f x) /\ (r = "?" \/ senv st r = Some b).
Proof.
  intros f st st' x b Hroots Hex Hb Hlt. unfold exit_roots, run_func.
  destruct (analyze (f_prot f) FUEL (f_body f) (init_amap (f_roots f))) as [A'|] eqn:EA.
  - destruct (analyze_sound (f_prot f) FUEL (senv st) (snext st) (sheap st) _ _ _ Hex _ _ EA) as [G _].
    + intros y c Hc. right. exists y. split; [|assumption]. apply lookup_init. apply Hroots. congruence.
    + split; [lia|]. auto.
    + destruct (G x b Hb) as [?|[r [Hr He]]]; [lia|]. exists r. auto.
  - exists "?". split; [now left|now left].
Qed.

(** allocation discipline: every bound id is below the allocation counter, which only grows *)
Definition wf (st : state) : Prop := forall x b, senv st x = Some b -> b < snext st.
Lemma exec_wf : forall s st st', exec s st st' -> wf st -> wf st' /\ snext st <= snext st'.
Proof.
  induction 1; intros W.
  - split; [exact W|lia].
  - split; [|cbn; lia]. intros y b. cbn. unfold bind. destruct (String.eqb y x); intros Hb.
    + inversion Hb. lia.
    + apply W in Hb. lia.
  - split; [|cbn; lia]. intros z b. cbn. unfold bind. destruct (String.eqb z x); intros Hb; apply W in Hb; exact Hb.
  - split; [|cbn; lia]. intros z b. cbn. unfold bind. destruct (String.eqb z x); intros Hb; [discriminate|]. apply W in Hb; exact Hb.
  - split; [exact W|cbn; lia].
  - split; [exact W|lia].
  - destruct (IHexec1 W) as [W1 L1]. destruct (IHexec2 W1) as [W2 L2]. split; [exact W2|lia].
  - auto.
  - auto.
  - split; [exact W|lia].
  - destruct (IHexec1 W) as [W1 L1]. destruct (IHexec2 W1) as [W2 L2]. split; [exact W2|lia].
Qed.

(** * ownership along an arbitrary history of caller actions and method calls *)
Lemma entry_env_roots : forall c m fe args x, entry_env c m fe args x <> None -> In x (m_roots c m).
Proof.
  intros c m fe args x. unfold entry_env, m_roots. intros H. apply in_app_iff.
  destruct (mem x (c_fields c)) eqn:E1; [right; now apply mem_In|].
  destruct (mem x (m_params m)) eqn:E2; [left; now apply mem_In|congruence].
Qed.
Lemma assoc_args_in : forall ps args x b, assoc_args ps args x = Some b -> In (Some b) args.
Proof.
  induction ps as [|p t IH]; intros [|a r] x b H; cbn in H; try discriminate.
  destruct (String.eqb p x); [left; assumption|right; eauto].
Qed.

Section Own.
Variable c : class.
Hypothesis Hok : owns_values c = true.

Lemma own_fields : forall o, In o (c_own c) -> mem o (c_fields c) = true.
Proof.
  intros o Ho. unfold owns_values in Hok. apply andb_true_iff in Hok. destruct Hok as [Hs _].
  apply subset_incl in Hs. apply mem_In. now apply Hs.
Qed.
Lemma method_ok_of : forall m, In m (c_methods c) -> method_ok c m = true.
Proof.
  intros m Hm. unfold owns_values in Hok. apply andb_true_iff in Hok. destruct Hok as [_ Hf].
  rewrite forallb_forall in Hf. now apply Hf.
Qed.

(** one method call: the invariant is kept and no caller buffer changes *)
Lemma call_step : forall w m args st',
  owned_inv c w -> In m (c_methods c) ->
  (forall b, In (Some b) args -> In b (w_caller w)) ->
  exec (m_body m) (mkSt (entry_env c m (w_fenv w) args) (w_heap w) (w_kind w) (w_next w)) st' ->
  owned_inv c (mkW (senv st') (sheap st') (skind st') (snext st') (w_caller w)) /\
  (forall b, In b (w_caller w) -> sheap st' b = w_heap w b).
Proof.
  intros w m args st' [Iown [Ilt Iwf]] Hm Hargs Hex.
  pose proof (method_ok_of m Hm) as Hmok. unfold method_ok, run_func in Hmok. cbn [f_prot f_body f_roots m_func] in Hmok.
  destruct (analyze (m_prot c m) FUEL (m_body m) (init_amap (m_roots c m))) as [A'|] eqn:EA; [|discriminate].
  set (st0 := mkSt (entry_env c m (w_fenv w) args) (w_heap w) (w_kind w) (w_next w)) in *.
  assert (W0 : wf st0).
  { intros x b. cbn. unfold entry_env. destruct (mem x (c_fields c)); [apply Iwf|].
    destruct (mem x (m_params m)); [|discriminate]. intros Hb. apply assoc_args_in in Hb. apply Ilt. now apply Hargs. }
  destruct (exec_wf _ _ _ Hex W0) as [W' Lnext]. cbn in Lnext.
  destruct (analyze_sound (m_prot c m) FUEL (senv st0) (snext st0) (sheap st0) _ _ _ Hex _ _ EA) as [G [Fn Fh]].
  - intros x b Hb. right. exists x. split; [|assumption]. apply lookup_init. eapply entry_env_roots. cbn in Hb. rewrite Hb. discriminate.
  - split; [lia|]. auto.
  - cbn in Fn, Fh. split; [split; [|split]|].
    + (* owned fields do not denote caller buffers *)
      cbn. intros o b Ho Hb Hc. destruct (G o b Hb) as [Hge|[r [Hr He]]].
      * cbn in Hge. apply Ilt in Hc. lia.
      * rewrite forallb_forall in Hmok. specialize (Hmok o Ho). apply subset_incl in Hmok. apply Hmok in Hr.
        cbn in He. unfold entry_env in He. rewrite (own_fields r Hr) in He. exact (Iown r b Hr He Hc).
    + cbn. intros b Hb. apply Ilt in Hb. lia.
    + cbn. exact W'.
    + (* caller buffers keep their content *)
      intros b Hb. apply Fh; [now apply Ilt|].
      intros r Hr. unfold m_prot. apply filter_In. split.
      * eapply entry_env_roots. rewrite Hr. discriminate.
      * apply negb_true_iff, mem_false. intros Ho. unfold entry_env in Hr. rewrite (own_fields r Ho) in Hr.
        exact (Iown r b Ho Hr Hb).
Qed.

Lemma step_inv : forall w w', owned_inv c w -> step c w w' -> owned_inv c w'.
Proof.
  intros w w' I S. destruct S.
  - destruct I as [Io [Il Iw]]. split; [|split]; cbn.
    + intros o b Ho Hb [Hc|Hc]; [|exact (Io o b Ho Hb Hc)]. subst b. apply Iw in Hb. lia.
    + intros b [Hb|Hb]; [subst; lia|]. apply Il in Hb. lia.
    + intros x b Hb. apply Iw in Hb. lia.
  - destruct I as [Io [Il Iw]]. split; [|split]; cbn; auto.
  - eapply call_step; eauto.
Qed.

(** C05_ownership: along any history the invariant holds *)
Theorem ownership_invariant : forall w w', owned_inv c w -> steps c w w' -> owned_inv c w'.
Proof. intros w w' I S. induction S; [exact I|]. apply IHS. eapply step_inv; eauto. Qed.

(** ... hence no later method call changes a caller buffer ... *)
Theorem calls_preserve_caller : forall w0 w m args st',
  owned_inv c w0 -> steps c w0 w -> In m (c_methods c) ->
  (forall b, In (Some b) args -> In b (w_caller w)) ->
  exec (m_body m) (mkSt (entry_env c m (w_fenv w) args) (w_heap w) (w_kind w) (w_next w)) st' ->
  forall b, In b (w_caller w) -> sheap st' b = w_heap w b.
Proof.
  intros w0 w m args st' I S Hm Ha Hex. eapply call_step; eauto. eapply ownership_invariant; eauto.
Qed.

(** ... and no later caller write (or allocation) changes the content of an owned field ("vice versa") *)
Theorem caller_writes_preserve_object : forall w0 w b v o bo,
  owned_inv c w0 -> steps c w0 w -> In b (w_caller w) ->
  In o (c_own c) -> w_fenv w o = Some bo ->
  upd (w_heap w) b v bo = w_heap w bo /\ (forall v' , upd (w_heap w) (w_next w) v' bo = w_heap w bo).
Proof.
  intros w0 w b v o bo I S Hb Ho Hbo. pose proof (ownership_invariant _ _ I S) as [Io [Il Iw]].
  split.
  - unfold upd. destruct (Nat.eqb bo b) eqn:E; [|reflexivity]. apply Nat.eqb_eq in E. subst bo.
    exfalso. exact (Io o b Ho Hbo Hb).
  - intros v'. unfold upd. destruct (Nat.eqb bo (w_next w)) eqn:E; [|reflexivity]. apply Nat.eqb_eq in E.
    apply Iw in Hbo. lia.
Qed.
End Own.

(** * "the values are always an ndarray": soundness of the kind analysis *)
Definition ndinv (K : list string) (st : state) : Prop :=
  forall x, In x K -> exists b, senv st x = Some b /\ skind st b = true.
Lemma In_remove_s : forall y x K, In y (remove_s x K) <-> In y K /\ y <> x.
Proof.
  unfold remove_s. intros. rewrite filter_In. split; intros [H1 H2]; split; auto.
  - apply negb_true_iff in H2. now apply String.eqb_neq in H2.
  - apply negb_true_iff. now apply String.eqb_neq.
Qed.
Lemma In_inter : forall y l1 l2, In y (inter l1 l2) <-> In y l1 /\ In y l2.
Proof. unfold inter. intros. rewrite filter_In, mem_In. tauto. Qed.
Lemma kiter_spec : forall f n K, incl (kiter f n K) K /\ (subset (kiter f n K) (f (kiter f n K)) = true \/ kiter f n K = []).
Proof.
  induction n as [|n IH]; intros K; cbn.
  - split; [intros x []|now right].
  - destruct (subset K (f K)) eqn:E.
    + split; [apply incl_refl|now left].
    + destruct (IH (inter K (f K))) as [H1 H2]. split; [|exact H2].
      intros x Hx. apply H1 in Hx. apply In_inter in Hx. tauto.
Qed.
Lemma kiter_fix : forall f n K, kiter f n (kiter f n K) = kiter f n K.
Proof.
  intros f n K. destruct (kiter_spec f n K) as [_ [H|H]].
  - destruct n; cbn in *; [reflexivity|]. fold (kiter f (S n) K). now rewrite H.
  - rewrite H. destruct n; cbn; [reflexivity|]. reflexivity.
Qed.
Lemma ndinv_anti : forall K K' st, incl K' K -> ndinv K st -> ndinv K' st.
Proof. unfold ndinv. auto. Qed.

Lemma nd_sound : forall fuel s st st', exec s st st' ->
  forall K, wf st -> ndinv K st -> ndinv (nd_analyze fuel s K) st'.
Proof.
  intros fuel. induction 1; intros K W N.
  - exact N.
  - (* Fresh *) cbn [nd_analyze].
    assert (Hrest : forall y, In y (remove_s x K) -> exists b, bind (senv st) x (Some (snext st)) y = Some b /\ upd (skind st) (snext st) k b = true).
    { intros y Hy. apply In_remove_s in Hy. destruct Hy as [Hy Hne]. destruct (N y Hy) as [b [Hb Hk]].
      exists b. unfold bind, upd. apply String.eqb_neq in Hne. rewrite Hne. split; [exact Hb|].
      apply W in Hb. destruct (Nat.eqb b (snext st)) eqn:E; [apply Nat.eqb_eq in E; lia|exact Hk]. }
    destruct (nd || existsb (fun y => mem y K) like) eqn:E.
    + intros y [Hy|Hy].
      * subst y. exists (snext st). cbn. unfold bind, upd. rewrite String.eqb_refl, Nat.eqb_refl. split; [reflexivity|].
        apply H. apply orb_true_iff in E. destruct E as [E|E]; [now left|right].
        apply existsb_exists in E. destruct E as [z [Hz Hm]]. apply mem_In in Hm.
        destruct (N z Hm) as [b [Hb Hk]]. eauto.
      * cbn. apply Hrest. exact Hy.
    + intros y Hy. cbn. apply Hrest. exact Hy.
  - (* Alias *) cbn [nd_analyze].
    assert (Hrest : forall z, In z (remove_s x K) -> exists b, bind (senv st) x (senv st y) z = Some b /\ skind st b = true).
    { intros z Hz. apply In_remove_s in Hz. destruct Hz as [Hz Hne]. destruct (N z Hz) as [b [Hb Hk]].
      exists b. unfold bind. apply String.eqb_neq in Hne. rewrite Hne. auto. }
    destruct ys as [|y0 ys']; [contradiction|].
    destruct (forallb (fun y1 => mem y1 K) (y0 :: ys')) eqn:E.
    + intros z [Hz|Hz].
      * subst z. rewrite forallb_forall in E. specialize (E y H). apply mem_In in E.
        destruct (N y E) as [b [Hb Hk]]. exists b. cbn. unfold bind. rewrite String.eqb_refl. auto.
      * cbn. apply Hrest. exact Hz.
    + intros z Hz. cbn. apply Hrest. exact Hz.
  - (* AliasNil *) cbn [nd_analyze]. intros z Hz. apply In_remove_s in Hz. destruct Hz as [Hz Hne].
    destruct (N z Hz) as [b [Hb Hk]]. exists b. cbn. unfold bind. apply String.eqb_neq in Hne. rewrite Hne. auto.
  - (* Mut *) exact N.
  - exact N.
  - (* Seq *) cbn [nd_analyze]. apply IHexec2; [|apply IHexec1; assumption].
    destruct (exec_wf _ _ _ H W) as [W1 _]. exact W1.
  - (* IfL *) cbn [nd_analyze]. eapply ndinv_anti; [|apply IHexec; eassumption]. intros x Hx. apply In_inter in Hx. tauto.
  - (* IfR *) cbn [nd_analyze]. eapply ndinv_anti; [|apply IHexec; eassumption]. intros x Hx. apply In_inter in Hx. tauto.
  - (* LoopNil *) cbn [nd_analyze]. eapply ndinv_anti; [|exact N]. apply kiter_spec.
  - (* LoopStep *) cbn [nd_analyze] in *. set (f := nd_analyze fuel a) in *. set (K' := kiter f fuel K).
    assert (N' : ndinv K' s1) by (eapply ndinv_anti; [apply kiter_spec|exact N]).
    pose proof (IHexec1 K' W N') as N1.
    destruct (exec_wf _ _ _ H W) as [W1 _].
    assert (N2 : ndinv K' s2).
    { destruct (kiter_spec f fuel K) as [_ [Hs|He]].
      - fold K' in Hs. eapply ndinv_anti; [|exact N1]. apply subset_incl. exact Hs.
      - fold K' in He. rewrite He. intros x []. }
    pose proof (IHexec2 K' W1 N2) as N3. unfold K' in N3 at 1. rewrite kiter_fix in N3. exact N3.
Qed.

(** along any history of a class all of whose methods keep "x is an ndarray", x stays bound to an ndarray *)
Definition wwf (w : world) : Prop :=
  (forall b, In b (w_caller w) -> b < w_next w) /\ (forall x b, w_fenv w x = Some b -> b < w_next w).
Definition is_nd (x : string) (w : world) : Prop := exists b, w_fenv w x = Some b /\ w_kind w b = true.

Lemma entry_wf : forall c m w args, wwf w -> (forall b, In (Some b) args -> In b (w_caller w)) ->
  wf (mkSt (entry_env c m (w_fenv w) args) (w_heap w) (w_kind w) (w_next w)).
Proof.
  intros c m w args [Wc Wf] Hargs x b. cbn. unfold entry_env. destruct (mem x (c_fields c)); [apply Wf|].
  destruct (mem x (m_params m)); [|discriminate]. intros Hb. apply assoc_args_in in Hb. apply Wc. now apply Hargs.
Qed.

Lemma step_wwf : forall c w w', wwf w -> step c w w' -> wwf w'.
Proof.
  intros c w w' [Wc Wf] S. destruct S; split; cbn.
  - intros b [Hb|Hb]; [subst; lia|]. apply Wc in Hb. lia.
  - intros x b Hb. apply Wf in Hb. lia.
  - exact Wc.
  - exact Wf.
  - pose proof (entry_wf c m w args (conj Wc Wf) H0) as W0. destruct (exec_wf _ _ _ H1 W0) as [_ L]. cbn in L.
    intros b Hb. apply Wc in Hb. lia.
  - pose proof (entry_wf c m w args (conj Wc Wf) H0) as W0. destruct (exec_wf _ _ _ H1 W0) as [W' _]. exact W'.
Qed.

Theorem nd_step : forall c x w w',
  mem x (c_fields c) = true ->
  forallb (keeps_nd x true) (c_methods c) = true ->
  wwf w -> is_nd x w -> step c w w' -> is_nd x w'.
Proof.
  intros c x w w' Hx Hk W [b [Hb Hkd]] S. destruct S.
  - exists b. cbn. split; [exact Hb|]. unfold upd. destruct W as [_ Wf]. apply Wf in Hb.
    destruct (Nat.eqb b (w_next w)) eqn:E; [apply Nat.eqb_eq in E; lia|exact Hkd].
  - exists b. cbn. auto.
  - rewrite forallb_forall in Hk. specialize (Hk m H). unfold keeps_nd in Hk. apply mem_In in Hk.
    pose proof (entry_wf c m w args W H0) as W0.
    assert (N0 : ndinv [x] (mkSt (entry_env c m (w_fenv w) args) (w_heap w) (w_kind w) (w_next w))).
    { intros y [Hy|[]]. subst y. exists b. cbn. unfold entry_env. rewrite Hx. auto. }
    destruct (nd_sound FUEL _ _ _ H1 [x] W0 N0 x Hk) as [b' [Hb' Hk']]. exists b'. cbn. auto.
Qed.

Theorem nd_invariant : forall c x w w',
  mem x (c_fields c) = true ->
  forallb (keeps_nd x true) (c_methods c) = true ->
  wwf w -> is_nd x w -> steps c w w' -> is_nd x w' /\ wwf w'.
Proof.
  intros c x w w' Hx Hk W N S. induction S; [auto|].
  apply IHS; [eapply step_wwf; eauto|eapply nd_step; eauto].
Qed.

(** the constructor establishes it, whatever the state before *)
Theorem nd_established : forall c x m w args st',
  keeps_nd x false m = true -> wwf w -> (forall b, In (Some b) args -> In b (w_caller w)) ->
  exec (m_body m) (mkSt (entry_env c m (w_fenv w) args) (w_heap w) (w_kind w) (w_next w)) st' ->
  is_nd x (mkW (senv st') (sheap st') (skind st') (snext st') (w_caller w)).
Proof.
  intros c x m w args st' Hk W Ha Hex. unfold keeps_nd in Hk. apply mem_In in Hk.
  pose proof (entry_wf c m w args W Ha) as W0.
  assert (N0 : ndinv [] (mkSt (entry_env c m (w_fenv w) args) (w_heap w) (w_kind w) (w_next w))) by (intros y []).
  destruct (nd_sound FUEL _ _ _ Hex [] W0 N0 x Hk) as [b [Hb Hkd]]. exists b. cbn. auto.
Qed.
