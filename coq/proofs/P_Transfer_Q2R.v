(** The transfer theorems in the form of DESIGN 2.2: a Q-run IS the R-model evaluated on the injected rationals.
    For the public entry points of each theme: [f_R (Q2R dt) (map Q2R a) = map Q2R (f_Q dt a)] for value-valued
    functions, [f_R (map Q2R a) = f_Q a] for index-valued ones.  Corollaries of proofs/P_Transfer*.v. *)
From Coq Require Import ZArith QArith Qreals Reals List Bool.
From EQ Require Import lib.Num lib.NpList lib.Transfer.
From EQ Require Import model.M_displacements model.M_im model.M_sdof model.M_spectra model.M_peaks.
From EQ Require Import proofs.P_Transfer proofs.P_Transfer_peaks.
Import ListNotations.

Local Ltac inj := try apply rel_Q2R; try apply relL_map_Q2R.

(** M_displacements *)
Lemma velo_disp_Q2R trap (dt : Q) (a : list Q) :
  velo_disp trap (Q2R dt) (map Q2R a) = (map Q2R (fst (velo_disp trap dt a)), map Q2R (snd (velo_disp trap dt a))).
Proof.
  destruct (velo_disp_transfer trap dt (Q2R dt) a (map Q2R a)) as [H1 H2]; inj.
  apply relL_iff in H1, H2. rewrite <- H1, <- H2. now destruct (velo_disp trap (Q2R dt) (map Q2R a)).
Qed.
Lemma calc_peak_Q2R (m : list Q) : calc_peak (map Q2R m) = Q2R (calc_peak m).
Proof. symmetry. apply calc_peak_transfer; inj. Qed.
(** M_im *)
Lemma arias_Q2R (c dt : Q) (a : list Q) : arias (Q2R c) (Q2R dt) (map Q2R a) = map Q2R (arias c dt a).
Proof. apply relL_iff, arias_transfer; inj. Qed.
Lemma cav_Q2R (dt : Q) (a : list Q) : cav (Q2R dt) (map Q2R a) = map Q2R (cav dt a).
Proof. apply relL_iff, cav_transfer; inj. Qed.
Lemma isv_Q2R (dt : Q) (a : list Q) : isv (Q2R dt) (map Q2R a) = map Q2R (isv dt a).
Proof. apply relL_iff, isv_transfer; inj. Qed.
Lemma unit_ke_Q2R (dt : Q) (a : list Q) : unit_ke (Q2R dt) (map Q2R a) = map Q2R (unit_ke dt a).
Proof. apply relL_iff, unit_ke_transfer; inj. Qed.
Lemma cav_dp_Q2R (g thr dt : Q) pps nwin (a : list Q) :
  cav_dp (Q2R g) (Q2R thr) (Q2R dt) pps nwin (map Q2R a) = map Q2R (cav_dp g thr dt pps nwin a).
Proof. apply relL_iff, cav_dp_transfer; inj. Qed.
Lemma sig_dur_idx_Q2R (lo hi : Q) (cum : list Q) : sig_dur_idx (Q2R lo) (Q2R hi) (map Q2R cum) = sig_dur_idx lo hi cum.
Proof. symmetry. apply sig_dur_idx_transfer; inj. Qed.
Lemma brac_idx_Q2R (thr : Q) (a : list Q) : brac_idx (Q2R thr) (map Q2R a) = brac_idx thr a.
Proof. symmetry. apply brac_idx_transfer; inj. Qed.
Lemma brac_dur_Q2R (dt thr : Q) (a : list Q) : brac_dur (Q2R dt) (Q2R thr) (map Q2R a) = Q2R (brac_dur dt thr a).
Proof. symmetry. apply brac_dur_transfer; inj. Qed.
(** M_sdof / M_spectra *)
Definition coeffs_Q2R (c : coeffs Q) : coeffs R :=
  mkC (Q2R (a11 c)) (Q2R (a12 c)) (Q2R (a21 c)) (Q2R (a22 c)) (Q2R (b11 c)) (Q2R (b12 c)) (Q2R (b21 c)) (Q2R (b22 c)).
Lemma relC_Q2R c : relC c (coeffs_Q2R c).
Proof. unfold relC, coeffs_Q2R; cbn. repeat split; reflexivity. Qed.
Definition state_Q2R (s : Q * Q) : R * R := (Q2R (fst s), Q2R (snd s)).
Lemma nj_series_Q2R (c : coeffs Q) (rec : list Q) :
  nj_series (coeffs_Q2R c) (map Q2R rec) = map state_Q2R (nj_series c rec).
Proof.
  pose proof (nj_series_transfer c (coeffs_Q2R c) rec (map Q2R rec) (relC_Q2R c) (relL_map_Q2R rec)) as HF.
  induction HF as [|[u v] [u' v'] l l' [Hu Hv] HF IH]; cbn; [reflexivity|].
  cbn in Hu, Hv. unfold rel in Hu, Hv. unfold state_Q2R at 1; cbn. congruence.
Qed.
Lemma absmax_Q2R (l : list Q) : absmax (map Q2R l) = Q2R (absmax l).
Proof. symmetry. apply absmax_transfer; inj. Qed.
Lemma obj_factor_Q2R (dt ratio : Q) (ps : list Q) : obj_factor (Q2R dt) (Q2R ratio) (map Q2R ps) = obj_factor dt ratio ps.
Proof. symmetry. apply obj_factor_transfer; inj. Qed.
Lemma interp_record_Q2R (vals : list Q) m : interp_record (map Q2R vals) m = map Q2R (interp_record vals m).
Proof. apply relL_iff, interp_record_transfer; inj. Qed.
(** M_peaks: the index lists of the R-model on injected rationals are the index lists the Q-run prints *)
Lemma peaks_Q2R (xs : list Q) : peaks (map Q2R xs) = peaks xs.
Proof. symmetry. apply peaks_transfer; inj. Qed.
Lemma peaks_sel_Q2R ptype (xs : list Q) : peaks_sel ptype (map Q2R xs) = peaks_sel ptype xs.
Proof. symmetry. apply peaks_sel_transfer; inj. Qed.
Lemma zero_crossings_Q2R keep (tol : Q) (xs : list Q) :
  zero_crossings keep (Q2R tol) (map Q2R xs) = zero_crossings keep tol xs.
Proof. symmetry. apply zero_crossings_transfer; inj. Qed.
Lemma switched_peaks_Q2R (tol : Q) (xs : list Q) : switched_peaks (Q2R tol) (map Q2R xs) = switched_peaks tol xs.
Proof. symmetry. apply switched_peaks_transfer; inj. Qed.

(** integer parts *)
Lemma nfloor_Q2R (q : Q) : nfloor (Q2R q) = Qround.Qfloor q.
Proof. symmetry. apply (rel_floor q (Q2R q)). reflexivity. Qed.

(** worked instances: facts about the R-model obtained by running the Q-model *)
Lemma cav_example : cav (Q2R (1#2)) (map Q2R [1; -2; 3]%Q) = map Q2R [0; 3#4; 2]%Q.
Proof. rewrite cav_Q2R. f_equal. Qed.
Lemma peaks_example : peaks (map Q2R [0; 1; 0; 2; 2; 1]%Q) = [0; 1; 2; 3; 5]%nat.
Proof. rewrite peaks_Q2R. vm_compute. reflexivity. Qed.
