(** Correspondence checker for C04.  A case is one operation history driven on a real Signal/AccSignal object.
    The harness ships, for every step, the operation, the object's cache flags after it
    (bit 1 _cached_fa, 2 _cached_smooth_fa, 4 _cached_response_spectra, 8 _cached_disp_and_velo,
     16/32/64 "pga"/"pgv"/"pgd" in _cached_params) and a list of comparisons
    (implementation output, output of a freshly constructed object, relative tolerance); after the history a final
    sweep of comparisons over every public derived quantity.  Inside Coq:
      - the flag trace is compared with the model's ([masks] of model/M_cache.v at the trivial signature: the flags do
        not depend on any numeric function);
      - every comparison is decided on the exact rational values of the floats (the freshness predicate of the
        property, evaluated on implementation outputs).
    Floats are shipped as hexadecimal literals of Coq's primitive binary64 floats ([float.hex()] is exact) and
    converted to their exact rational value with [Prim2SF]; no float arithmetic is performed. *)
From Coq Require Import ZArith QArith Qabs List Bool.
From Coq Require Export Floats.
From EQ Require Import lib.Num lib.Chk.
From EQ Require Export model.M_cache.
Import ListNotations.

(** the trivial signature: every type is unit *)
Definition Sunit : sig :=
  Sig unit unit unit unit unit (fun _ => 0%nat) (fun _ => tt) (fun _ _ => tt) (fun _ _ => tt) (fun _ => tt)
      (fun _ => tt) (fun _ => tt) (fun _ => tt) (fun _ _ => tt) (fun _ _ _ _ _ _ => tt) (fun _ _ _ => tt) (fun _ _ _ => tt) tt.

(** operations as the harness names them *)
Inductive kop := KR (r : reader) | KG (g : generator) | KM (m : mutator) | KS (t : sf_setter) | KT (t : rt_setter).
Definition to_op (k : kop) : op Sunit :=
  match k with
  | KR r => Read r | KG g => Gen g | KM m => Mut (S:=Sunit) m tt | KS t => SetSF (S:=Sunit) t tt | KT t => SetRT (S:=Sunit) t tt
  end.
Definition init0 : st Sunit := init (S:=Sunit) tt tt tt.
Definition model_masks (h : list kop) : list nat := masks (map to_op h) init0.

(** exact rational value of a finite binary64 float *)
Definition f2q (f : float) : option Q :=
  match Prim2SF f with
  | S754_zero _ => Some 0%Q
  | S754_finite s m e =>
      let mz := if s then Zneg m else Zpos m in
      Some (match e with
            | Z0 => inject_Z mz
            | Zpos p => inject_Z (mz * 2 ^ (Zpos p))
            | Zneg p => Qmake mz (2 ^ p)
            end)
  | _ => None
  end.
Definition same_nonfinite (a b : float) : bool :=
  match Prim2SF a, Prim2SF b with
  | S754_infinity s1, S754_infinity s2 => Bool.eqb s1 s2
  | S754_nan, S754_nan => true
  | _, _ => false
  end.
Fixpoint fin_list (l : list float) : list Q :=
  match l with [] => [] | x :: r => match f2q x with Some q => q :: fin_list r | None => fin_list r end end.
(** |a - b| <= tol, both finite; non-finite values must be of the same kind *)
Definition fclose (tol : Q) (a b : float) : bool :=
  match f2q a, f2q b with
  | Some x, Some y => qclose tol x y
  | None, None => same_nonfinite a b
  | _, _ => false
  end.
Fixpoint fclose_list (tol : Q) (l1 l2 : list float) : bool :=
  match l1, l2 with
  | [], [] => true
  | a :: r1, b :: r2 => fclose tol a b && fclose_list tol r1 r2
  | _, _ => false
  end.
(** same binary64 datum (zeros of either sign identified, as in the rational comparison) *)
Definition sf_eqb (a b : float) : bool :=
  match Prim2SF a, Prim2SF b with
  | S754_zero _, S754_zero _ => true
  | S754_infinity s1, S754_infinity s2 => Bool.eqb s1 s2
  | S754_nan, S754_nan => true
  | S754_finite s1 m1 e1, S754_finite s2 m2 e2 => Bool.eqb s1 s2 && Pos.eqb m1 m2 && Z.eqb e1 e2
  | _, _ => false
  end.
Fixpoint sf_list_eqb (l1 l2 : list float) : bool :=
  match l1, l2 with
  | [], [] => true
  | a :: r1, b :: r2 => sf_eqb a b && sf_list_eqb r1 r2
  | _, _ => false
  end.
(** one comparison: observed, fresh, relative tolerance >= 0 (scale = max |fresh|); rtol = 0 means identical values.
    Lists that are identical datum by datum are within every tolerance >= 0 (short cut, same answer as the rational
    comparison below it). *)
Definition cmp := (list float * list float * Q)%type.
Definition chk_cmp (c : cmp) : bool :=
  let '(obs, fresh, rtol) := c in
  Qleb 0 rtol &&
  (if sf_list_eqb obs fresh then true else fclose_list (rtol * qabsmax (fin_list fresh)) obs fresh).

Definition steprec := (kop * nat * list cmp)%type.
Definition case := (list steprec * list cmp)%type.

(** constructors used by the generated case files (they fix the types and the literal scopes) *)
Definition cm (a b : list float) (t : Q) : cmp := (a, b, t).
Definition cme (a : list float) (t : Q) : cmp := (a, a, t).
Definition stp (k : kop) (m : nat) (c : list cmp) : steprec := (k, m, c).
Definition mkc (s : list steprec) (w : list cmp) : case := (s, w).
Arguments cm (a b)%float_scope t%Q_scope.
Arguments cme a%float_scope t%Q_scope.
Arguments stp k m%nat_scope c.
Definition T40 : Q := 1 # 1099511627776.      (* 2^-40: "equal up to rounding noise" *)
Definition T9 : Q := 1 # 1000000000.

Fixpoint eq_masks (l1 l2 : list nat) : bool :=
  match l1, l2 with
  | [], [] => true
  | a :: r1, b :: r2 => Nat.eqb a b && eq_masks r1 r2
  | _, _ => false
  end.

Definition check_case (c : case) : bool :=
  let '(steps, sweep) := c in
  eq_masks (model_masks (map (fun s => fst (fst s)) steps)) (map (fun s => snd (fst s)) steps)
  && forallb (fun s => forallb chk_cmp (snd s)) steps
  && forallb chk_cmp sweep.

(** for replay files: the model's flag trace, and which parts of the check failed *)
Definition model_out (c : case) : list nat * bool * bool :=
  let '(steps, sweep) := c in
  (model_masks (map (fun s => fst (fst s)) steps),
   forallb (fun s => forallb chk_cmp (snd s)) steps, forallb chk_cmp sweep).

(** ---- the reachable flag states of the model (for the coverage check of the exhaustive exploration) ---- *)
Definition all_readers := [R_npts; R_time; R_values; R_smooth_fa_freqs; R_smooth_fa_frequencies; R_smooth_freq_range;
  R_smooth_freq_points; R_response_times; R_fa_spectrum; R_fa_spectrum_abs; R_fa_freqs; R_fa_frequencies;
  R_smooth_fa_spectrum; R_s_a; R_s_v; R_s_d; R_velocity; R_displacement; R_pga; R_pgv; R_pgd].
Definition all_generators := [G_generate_fa_spectrum; G_gen_fa_spectrum; G_generate_smooth_fa_spectrum; G_gen_smooth_fa_spectrum;
  G_generate_response_spectrum; G_gen_response_spectrum; G_generate_displacement_and_velocity_series; G_response_series;
  G_clear_cache; G_reset_all_motion_stats].
Definition all_mutators := [M_reset_values; M_add_constant; M_add_series; M_add_signal; M_butter_pass; M_remove_average;
  M_remove_poly; M_running_average; M_correct_me; M_remove_rolling_average_velocity; M_remove_rolling_average_values;
  M_rebase_displacement; M_set_zero_residual_velocity; M_set_zero_residual_velocity_tz; M_set_zero_residual_displacement;
  M_set_zero_residual_displacement_and_velocity].
Definition all_sf := [S_smooth_fa_freqs; S_smooth_fa_frequencies; S_smooth_freq_range; S_smooth_freq_points;
  S_set_smooth_fa_frequecies_by_range; S_gen_smooth_fa_spectrum].
Definition all_rt := [T_response_times; T_gen_response_spectrum; T_generate_response_spectrum; T_response_series].
Definition all_kops : list kop :=
  map KR all_readers ++ map KG all_generators ++ map KM all_mutators ++ map KS all_sf ++ map KT all_rt.

Definition bit (m w : nat) : bool := Nat.odd (m / w).
Definition some_if (b : bool) : option unit := if b then Some tt else None.
Definition state_of_mask (m : nat) : st Sunit :=
  mk (S:=Sunit) tt tt tt 0 (bit m 1) tt (bit m 2) tt (bit m 4) tt (bit m 8) tt (some_if (bit m 16)) (some_if (bit m 32)) (some_if (bit m 64)).
Definition succs (m : nat) : list nat := map (fun k => mask (post (to_op k) (state_of_mask m))) all_kops.
Definition memn (x : nat) (l : list nat) : bool := existsb (Nat.eqb x) l.
Fixpoint add_new (l acc : list nat) : list nat :=
  match l with [] => acc | x :: r => if memn x acc then add_new r acc else add_new r (acc ++ [x]) end.
Fixpoint closure (fuel : nat) (acc : list nat) : list nat :=
  match fuel with O => acc | S f => closure f (add_new (flat_map succs acc) acc) end.
Definition reach_masks : list nat := closure 8 [0%nat].
Definition reach_closed : bool := forallb (fun m => forallb (fun x => memn x reach_masks) (succs m)) reach_masks.

(** coverage case: the flag states the harness visited on the implementation are exactly the model's reachable
    states (no. 1 = AccSignal: all 7 flags; no. 0 = plain Signal: the states reachable with the Signal alphabet,
    i.e. the masks below 4 reached without response/velocity operations) *)
Definition sig_kop (k : kop) : bool :=
  match k with
  | KR (R_s_a | R_s_v | R_s_d | R_velocity | R_displacement | R_pga | R_pgv | R_pgd | R_response_times) => false
  | KR _ => true
  | KG (G_generate_fa_spectrum | G_gen_fa_spectrum | G_generate_smooth_fa_spectrum | G_gen_smooth_fa_spectrum | G_clear_cache) => true
  | KG _ => false
  | KM (M_reset_values | M_add_constant | M_add_series | M_add_signal | M_butter_pass | M_remove_average | M_remove_poly | M_running_average) => true
  | KM _ => false
  | KS _ => true
  | KT _ => false
  end.
Definition succs_sig (m : nat) : list nat := map (fun k => mask (post (to_op k) (state_of_mask m))) (filter sig_kop all_kops).
Fixpoint closure_sig (fuel : nat) (acc : list nat) : list nat :=
  match fuel with O => acc | S f => closure_sig f (add_new (flat_map succs_sig acc) acc) end.
Definition reach_masks_sig : list nat := closure_sig 8 [0%nat].
Definition reach_closed_sig : bool := forallb (fun m => forallb (fun x => memn x reach_masks_sig) (succs_sig m)) reach_masks_sig.
Definition same_set (a b : list nat) : bool := forallb (fun x => memn x b) a && forallb (fun x => memn x a) b.
Definition chk_cover (c : bool * list nat) : bool :=
  let '(acc, visited) := c in
  if acc then reach_closed && same_set visited reach_masks else reach_closed_sig && same_set visited reach_masks_sig.
