(** Correspondence checker for C20 (helpers of fns/generic.py, fns/average.py; relational clauses of design_spectra.py).
    Every case carries the inputs and the implementation's outputs as exact rationals; the comparison is done here. *)
From Coq Require Import ZArith QArith Qabs List Bool.
From EQ Require Import lib.Num lib.NpList lib.Chk.
From EQ Require Export model.M_helpers.
Import ListNotations.

Inductive case :=
  (** interp2d(x, xf, f) -> out ; eps = the float 1e-10 *)
| KInterp2d (eps : Q) (x xf : list Q) (f : list (list Q)) (out : list (list Q)) (rtol : Q)
  (** interp_left(x0, x, y) ; y = None means arange ; out = None means AssertionError was raised *)
| KInterpLeft (x0 x : list Q) (y : option (list Q)) (out : option (list Q))
| KRollAv (steps : nat) (m : rmode) (v out : list Q) (rtol : Q)
| KStepErr (p : nat) (d : sdir) (v out : list Q) (rtol : Q)
  (** calc_step_fn_steps_vals(values, ind) -> (pre, post) ; ind = None: argmin of the p=1 error *)
| KStepLevels (v : list Q) (ind : option nat) (pre post : Q) (rtol : Q)
  (** same call, split samples with an empty side included (ind = 0: no sample before, ind = npts-1: none after):
      an observed level [None] = the implementation returned NaN, which is what the mean of no samples must be *)
| KStepLevelsN (v : list Q) (ind : option nat) (pre post : option Q) (rtol : Q)
  (** relational clauses evaluated on implementation outputs of the design-spectrum functions *)
| KSdCh (t z r n sd ch : Q) (rtol : Q)          (* sd_nzs = c_h_factor * T^2 * Z * N * R *)
| KJump (left right tol : Q)                     (* |c_h(b-) - c_h(b)| <= tol across a segment boundary *)
| KTeff (lam out rtol : Q).                      (* t_eff(lam * d_c) = 3 lam *)

Definition qmatmax (m : list (list Q)) : Q := fold_left (fun a r => let b := qabsmax r in if Qltb a b then b else a) m 0%Q.
Definition qmax1 (a : Q) : Q := if Qltb a 1 then 1%Q else a.
Definition all_eq (l : list Q) : bool := match l with [] => true | a :: r => forallb (Qeqb a) r end.

(** level of one side of the split: the mean of its samples, [None] when it has none *)
Definition side_level (side : list Q) : option Q := match side with [] => None | _ => Some (mean side) end.
Definition split_of (v : list Q) (ind : option nat) : nat :=
  match ind with Some i => i | None => argmin (step_err 1 DNone v) end.
Definition opt_qclose (tol : Q) (m obs : option Q) : bool :=
  match m, obs with
  | Some a, Some b => qclose tol a b
  | None, None => true
  | _, _ => false
  end.

(** model outputs (for replay files) *)
Inductive mout := MList (l : list Q) | MMat (m : list (list Q)) | MOpt (o : option (list Q)) | MPair (a b : Q)
  | MSides (a b : option Q) | MNone.
Definition model_out (c : case) : mout :=
  match c with
  | KInterp2d eps x xf f _ _ => MMat (interp2d eps x xf f)
  | KInterpLeft x0 x (Some y) _ => MOpt (interp_left x0 x y)
  | KInterpLeft x0 x None _ => MOpt (interp_left_noy x0 x)
  | KRollAv s m v _ _ => MList (roll_av s m v)
  | KStepErr p d v _ _ => MList (step_err p d v)
  | KStepLevels v (Some i) _ _ _ => let '(a, b) := step_levels v i in MPair a b
  | KStepLevels v None _ _ _ => let '(a, b) := step_levels_auto v in MPair a b
  | KStepLevelsN v ind _ _ _ => let i := split_of v ind in MSides (side_level (firstn i v)) (side_level (skipn (S i) v))
  | KSdCh t z r n _ ch _ => MPair (Qred (ch * t * t * z * n * r)) 0
  | KTeff lam _ _ => MPair (Qred (3 * lam)) 0
  | KJump _ _ _ => MNone
  end.

Definition check_case (c : case) : bool :=
  match c with
  | KInterp2d eps x xf f out rtol =>
      let m := interp2d eps x xf f in close_mat (rtol * qmax1 (qmatmax f)) m out
  | KInterpLeft x0 x y out =>
      let m := match y with Some yy => interp_left x0 x yy | None => interp_left_noy x0 x end in
      match m, out with
      | Some a, Some b => close_list 0 a b
      | None, None => true
      | _, _ => false
      end
  | KRollAv s md v out rtol =>
      let m := roll_av s md v in
      close_list (rtol * qmax1 (qabsmax v)) m out
      && Nat.eqb (length out) (length v)                                                 (* length is kept *)
      && (if all_eq v then close_list (rtol * qmax1 (qabsmax v)) v out else true)       (* constants are preserved *)
  | KStepErr p d v out rtol =>
      (* scale of the tolerance: npts * max(1,|v|)^p (the coded form subtracts the padded-zero terms again) *)
      let m := step_err p d v in
      let sc := inject_Z (Z.of_nat (length v)) * npw (qmax1 (qabsmax v)) p * (match d with DNone => 1 | _ => 10 end) in
      close_list (rtol * sc) m out && Nat.eqb (length out) (length v)
      (* the property's own predicate on the implementation output: the definition (both sides from their own means) *)
      && (match d with DNone => close_list (rtol * sc) (map (step_err_spec p v) (seq 0 (length v))) out | _ => true end)
  | KStepLevels v ind pre post rtol =>
      let '(a, b) := match ind with Some i => step_levels v i | None => step_levels_auto v end in
      let tol := rtol * qmax1 (qabsmax v) in qclose tol a pre && qclose tol b post
  | KStepLevelsN v ind pre post rtol =>
      (* the sides are the ones [step_levels] averages: firstn ind v and skipn (S ind) v *)
      let i := split_of v ind in
      let tol := rtol * qmax1 (qabsmax v) in
      opt_qclose tol (side_level (firstn i v)) pre && opt_qclose tol (side_level (skipn (S i) v)) post
  | KSdCh t z r n sd ch rtol =>
      let m := ch * t * t * z * n * r in qclose (rtol * qmax1 (Qabs m)) m sd
  | KJump l r tol => qclose tol l r
  | KTeff lam out rtol => qclose (rtol * qmax1 (Qabs (3 * lam))) (3 * lam) out
  end.
