(** The scalar chain of time_step.py with an explicit rounding function [rnd : R -> R] applied exactly where the code
    rounds (every float division; [ceil]/[floor] and the int -> float conversion of k and m are exact).  Same structure
    as [factor_b64] in M_timestep.v; used to state the step bound for rounded arithmetic.  No proofs here. *)
From Coq Require Import ZArith Reals.
From EQ Require Import lib.Num model.M_timestep.
Local Open Scope R_scope.

Definition factor_rnd (rnd : R -> R) (dt tg : R) : R :=
  let q := rnd (dt / tg) in
  if Reqb q 1 then q
  else if Rltb 1 q then IZR (nceil q)
  else rnd (1 / IZR (nfloor (rnd (1 / q)))).
Definition newdt_rnd (rnd : R -> R) (dt tg : R) : R := rnd (dt / factor_rnd rnd dt tg).
