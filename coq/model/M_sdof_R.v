(** R-level instantiation of the SDOF model with the coefficient formulas regenerated from eqsig/sdof.py,
    and the closed-form solution of the oscillator equation on one step (used to state C01). No proofs here. *)
From Coq Require Import Reals List.
From EQ Require Import lib.Num lib.NpList model.M_sdof gen.Gen_sdof_coeffs.
Import ListNotations.
Local Open Scope R_scope.

(** compute_a_and_b, as translated from the source *)
Definition nj_coeffs (xi w dt : R) : coeffs R :=
  mkC (nj_a11 xi w dt) (nj_a12 xi w dt) (nj_a21 xi w dt) (nj_a22 xi w dt)
      (nj_b11 xi w dt) (nj_b12 xi w dt) (nj_b21 xi w dt) (nj_b22 xi w dt).

(** nigam_and_jennings_response over R for the code's w = c2pi / T *)
Definition response_R (c2pi xi dt : R) (periods rec : list R) : list (list R * list R * list R) :=
  response_with (map (fun P => nj_coeffs xi (w_of c2pi P) dt) (osc_periods periods)) c2pi xi periods rec.

(** closed-form solution of  u'' + 2 xi w u' + w^2 u = g0 + s t,  u(0) = u0, u'(0) = v0  (0 <= xi < 1, w > 0) *)
Section Closed.
Variables xi w : R.
Definition qd := sqrt (1 - xi * xi).
Definition h1 t := exp (- xi * w * t) * (cos (w * qd * t) + xi / qd * sin (w * qd * t)).
Definition h2 t := exp (- xi * w * t) * sin (w * qd * t) / (w * qd).
Definition dh1 t := - w / qd * exp (- xi * w * t) * sin (w * qd * t).
Definition dh2 t := exp (- xi * w * t) * (cos (w * qd * t) - xi / qd * sin (w * qd * t)).
Definition up g0 s t := g0 / w ^ 2 + s * t / w ^ 2 - 2 * xi * s / w ^ 3.
Definition usol u0 v0 g0 s t := up g0 s t + (u0 - up g0 s 0) * h1 t + (v0 - s / w ^ 2) * h2 t.
Definition vsol u0 v0 g0 s t := s / w ^ 2 + (u0 - up g0 s 0) * dh1 t + (v0 - s / w ^ 2) * dh2 t.
End Closed.

(** the load on step i of a record sampled at dt: linear interpolation between samples i and i+1 *)
Definition gat (rec : list R) (i : nat) : R := nth i rec 0.
Definition load (rec : list R) (dt : R) (i : nat) (t : R) : R :=
  gat rec i + (gat rec (S i) - gat rec i) / dt * (t - INR i * dt).

(** refinement of a record by an integer factor m: m-1 linearly interpolated samples between neighbours *)
Fixpoint refine_from (m : nat) (x0 : R) (rest : list R) : list R :=
  match rest with
  | [] => [x0]
  | x1 :: r => map (fun k => x0 + (x1 - x0) * INR k / INR m) (seq 0 m) ++ refine_from m x1 r
  end.
Definition refine (m : nat) (rec : list R) : list R :=
  match rec with [] => [] | x0 :: r => refine_from m x0 r end.
