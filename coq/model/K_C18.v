(** Correspondence checker for C18 (rotation of two components; cluster lag matching and same-start alignment). *)
From Coq Require Import ZArith QArith Qabs List Bool.
From EQ Require Import lib.Num lib.NpList lib.Chk model.M_displacements model.M_im model.M_multiple.
Import ListNotations.

(** measure kinds of compute_rotated: 0 parameter="pga" (calc_peak of the combination), 1 parameter="arias_intensity"
    (final Arias value, [cst] = pi/(2*9.81)), 2 func=calc_cav (array-valued callable: last value), 3 func = sum of the
    values (scalar callable), 4 parameter="pgv" (calc_peak of the trapezoid velocity), 5 func = first value *)
Definition measure (kind : nat) (cst dt : Q) (v : list Q) : Q :=
  match kind with
  | 0 => calc_peak v
  | 1 => last0 (arias cst dt v)
  | 2 => last0 (cav dt v)
  | 3 => nsum v
  | 4 => calc_peak (velo_trap dt v)
  | _ => hd 0%Q v
  end%nat.

Inductive case :=
  (** combine_at_angle: components, kernel values (c, s) of the angle, implementation output, absolute tolerance *)
  | CComb (ns we : list Q) (c s : Q) (out : list Q) (tol : Q)
  (** relational, on implementation outputs only: combination at theta+180 is the negation of the one at theta *)
  | CNeg (out out180 : list Q) (tol : Q)
  (** compute_rotated: offset, points, implementation degrees (+ tolerance on the circle), kernel values of those
      degrees, measure kind/constants, components, implementation pvalues, measure of combine_at_angle at each returned
      degree obtained by separate public calls ([direct], must be identical), absolute tolerance for the model values *)
  | CScan (off : Q) (points : nat) (degs : list Q) (angtol : Q) (ks : list (Q * Q)) (kind : nat) (cst dt : Q)
          (ns we : list Q) (pvals direct : list Q) (tol : Q)
  (** Cluster.time_match: steps, master, signals before; after: values, "is ndarray" tags, returned lag *)
  | CTm (steps master : nat) (sigs : list (list Q)) (out : list (list Q)) (tags : list bool) (ret : Z)
  (** property predicate of lag removal on implementation outputs: [planted] = the lag each slave was built with *)
  | CTmProp (steps master : nat) (sigs : list (list Q)) (planted : list Z) (out : list (list Q))
  (** Cluster.same_start(start, end): master, dt, start, end, signals before, after, absolute tolerance *)
  | CSs (master : nat) (dt start stop : Q) (sigs out : list (list Q)) (tol : Q).

Definition close_circ (tol a b : Q) : bool :=
  qclose tol a b || Qleb (360 - tol) (Qabs (a - b)).
Fixpoint close_circ_list (tol : Q) (l1 l2 : list Q) : bool :=
  match l1, l2 with
  | [], [] => true
  | a :: r1, b :: r2 => close_circ tol a b && close_circ_list tol r1 r2
  | _, _ => false
  end.
Definition in_half_open_360 (x : Q) : bool := Qleb 0 x && Qltb x 360.
Fixpoint eq_bool_list (l1 l2 : list bool) : bool :=
  match l1, l2 with
  | [], [] => true
  | a :: r1, b :: r2 => Bool.eqb a b && eq_bool_list r1 r2
  | _, _ => false
  end.
Definition same_lengths (a b : list (list Q)) : bool := eq_nat_list (map (@length Q) a) (map (@length Q) b).

(** overlap coincides after removing lag L (L > 0: slave was delayed, out[k] = bm[k] for k < n-L;
    L < 0: slave was advanced, out[k+|L|] = bm[k+|L|] for k < n-|L|) *)
Definition overlap_ok (L : Z) (bm out : list Q) : bool :=
  let n := length bm in let k := Z.abs_nat L in
  if (L <? 0)%Z then close_list 0 (skipn k out) (skipn k bm)
  else close_list 0 (firstn (n - k) out) (firstn (n - k) bm).
(** the non-degeneracy hypothesis of C18_time_match_finds_*: every candidate other than L has a positive profile *)
Definition nondegenerateb (steps : nat) (L : Z) (bm om : list Q) : bool :=
  forallb (fun c : Z * Q => (fst c =? L)%Z || Qltb 0 (snd c)) (all_candidates steps bm om).
(** the slave really is the master shifted by L on the overlap *)
Definition is_shift (L : Z) (bm om : list Q) : bool :=
  let n := length bm in let k := Z.abs_nat L in
  Nat.eqb (length om) n &&
  if (L <? 0)%Z then close_list 0 (firstn (n - k) om) (skipn k bm)
  else close_list 0 (skipn k om) (firstn (n - k) bm).
(** C18_time_match_removes_lag_on_window on implementation outputs: some window of npts-steps samples starting at an
    index j < steps coincides with the master *)
Definition window_ok (steps : nat) (bm out : list Q) : bool :=
  let w := neg_stop (length bm) steps in
  existsb (fun j => close_list 0 (pyslice j (j + w) out) (pyslice j (j + w) bm)) (seq 0 (Nat.max steps 1)).
Fixpoint tm_prop_from (steps master : nat) (bm : list Q) (i : nat) (sigs : list (list Q)) (planted : list Z)
         (out : list (list Q)) : bool :=
  match sigs, planted, out with
  | [], [], [] => true
  | v :: rs, L :: rl, o :: ro =>
    (if Nat.eqb i master then close_list 0 o v
     else if Z.ltb (Z.abs L) (Z.of_nat steps) && is_shift L bm v
          then window_ok steps bm o && (if nondegenerateb steps L bm v then overlap_ok L bm o else true)
          else true)
    && Nat.eqb (length o) (length v)
    && tm_prop_from steps master bm (S i) rs rl ro
  | _, _, _ => false
  end.

Definition tm_model (steps master : nat) (sigs : list (list Q)) := time_match steps master sigs.

Definition check_case (c : case) : bool :=
  match c with
  | CComb ns we c s out tol =>
    close_list tol (combine c s ns we) out && Nat.eqb (length out) (length ns)
  | CNeg o1 o2 tol => close_list tol (map Qopp o1) o2
  | CScan off points degs angtol ks kind cst dt ns we pvals direct tol =>
    close_circ_list angtol (scan_angles off points) degs && forallb in_half_open_360 degs &&
    Nat.eqb (length degs) points &&
    close_list tol (scan_values (measure kind cst dt) ks ns we) pvals &&
    close_list 0 direct pvals
  | CTm steps master sigs out tags ret =>
    let '(m, r) := tm_model steps master sigs in
    close_mat 0 (map fst m) out && eq_bool_list (map snd m) tags && Z.eqb r ret
  | CTmProp steps master sigs planted out =>
    tm_prop_from steps master (nth master sigs []) 0 sigs planted out
  | CSs master dt start stop sigs out tol =>
    let '(si, ei) := time_indices dt start stop in
    let m := same_start master si ei sigs in
    close_mat tol m out && same_lengths sigs out &&
    close_list 0 (nth master out []) (nth master sigs []) &&
    forallb (fun o => qclose (tol + tol) (section_average si ei o) (section_average si ei (nth master sigs []))) out
  end.

(** for replay files *)
Inductive mout :=
  | MList (l : list Q) | MScan (d v : list Q) | MTm (m : list (list Q * bool)) (r : Z) | MMat (m : list (list Q)) | MNone.
Definition model_out (c : case) : mout :=
  match c with
  | CComb ns we c s _ _ => MList (combine c s ns we)
  | CNeg o1 _ _ => MList (map Qopp o1)
  | CScan off points _ _ ks kind cst dt ns we _ _ _ => MScan (scan_angles off points) (scan_values (measure kind cst dt) ks ns we)
  | CTm steps master sigs _ _ _ => let '(m, r) := tm_model steps master sigs in MTm m r
  | CTmProp _ _ _ _ _ => MNone
  | CSs master dt start stop sigs _ _ => let '(si, ei) := time_indices dt start stop in MMat (same_start master si ei sigs)
  end.
