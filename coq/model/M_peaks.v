(** Model of eqsig/fns/peaks_and_crossings.py (properties C11, C12, C13).
    [peaks] is written declaratively (a filter over indices by a local test): the membership characterisation of
    the property is then immediate, and the exhaustive correspondence check is what ties it to the
    ediff1d/where/take pipeline of the implementation. *)
From Coq Require Import ZArith QArith Reals List Bool.
From EQ Require Import lib.Num lib.NpList.
Import ListNotations.
Local Open Scope num_scope.

Section Generic.
Context {T : Type} `{NumOps T}.

Definition xat (xs : list T) (i : nat) : T := nth i xs n0.

(** first index j >= s with l-value different from v *)
Fixpoint next_diff_from (v : T) (j : nat) (l : list T) : option nat :=
  match l with [] => None | x :: r => if x =? v then next_diff_from v (S j) r else Some j end.
Definition next_diff (xs : list T) (i : nat) : option nat := next_diff_from (xat xs i) (S i) (skipn (S i) xs).

(** i starts a plateau: i = 0 or x[i-1] <> x[i] *)
Definition pstart (xs : list T) (i : nat) : bool :=
  match i with O => true | S i' => negb (xat xs i =? xat xs i') end.
(** first index of the final constant run = the last plateau start *)
Definition final_start (xs : list T) : nat := last (filter (pstart xs) (seq 0 (length xs))) 0%nat.

(** i is the first sample of a plateau that is a strict local extremum *)
Definition turning (xs : list T) (i : nat) : bool :=
  match i with
  | O => false
  | S i' =>
    match next_diff xs i with
    | None => false
    | Some j => ((xat xs i' <? xat xs i) && (xat xs j <? xat xs i)) || ((xat xs i <? xat xs i') && (xat xs i <? xat xs j))
    end
  end.
Definition is_peak (xs : list T) (fs : nat) (i : nat) : bool := Nat.eqb i 0 || Nat.eqb i fs || turning xs i.
(** get_peak_array_indices(values) for a non-constant series *)
Definition peaks (xs : list T) : list nat := filter (is_peak xs (final_start xs)) (seq 0 (length xs)).

Fixpoint evens {A} (l : list A) : list A := match l with [] => [] | x :: r => x :: odds r end
with odds {A} (l : list A) : list A := match l with [] => [] | _ :: r => evens r end.
(** direction of the first strict move: Some true = up, Some false = down, None = constant *)
Definition first_up (xs : list T) : option bool :=
  match next_diff xs 0 with None => None | Some j => Some (xat xs 0 <? xat xs j) end.
(** ptype: 0 all, 1 max, 2 min (selection by parity, as the code does) *)
Definition peaks_sel (ptype : nat) (xs : list T) : list nat :=
  let p := peaks xs in
  match ptype with
  | 0 => p
  | 1 => match first_up xs with Some true => odds p | _ => evens p end
  | _ => match first_up xs with Some true => evens p | _ => odds p end
  end%nat.

(** np.interp(i, xp, fp) for integer abscissae *)
Fixpoint interp_pts (xp : list nat) (fp : list T) (i : nat) : T :=
  match xp, fp with
  | x0 :: xr, f0 :: fr =>
    if (i <=? x0)%nat then f0
    else match xr, fr with
         | x1 :: _, f1 :: _ =>
           if (i <? x1)%nat then (f1 - f0) / (nofZ (Z.of_nat x1) - nofZ (Z.of_nat x0)) * (nofZ (Z.of_nat i) - nofZ (Z.of_nat x0)) + f0
           else interp_pts xr fr i
         | _, _ => f0
         end
  | _, _ => n0
  end.
Definition half : T := n1 / nofZ 2.
Definition quarter : T := n1 / nofZ 4.
(** get_n_cyc_array: indys (already computed), start = origin (true) or peak (false) *)
Definition n_cyc_of (indys : list nat) (origin : bool) (n : nat) : list T :=
  let ind := match indys with 0%nat :: _ => indys | _ => 0%nat :: indys end in
  let sv := if origin then - quarter else n0 in
  let cyc := map (fun k => let base := half * nofZ (Z.of_nat k) in if Nat.eqb k 0 then base else base + sv) (seq 0 (length ind)) in
  map (interp_pts ind cyc) (seq 0 n).

(** ** zero crossings (C12) *)
Definition zc_test (keep_adj : bool) (xs : list T) (i : nat) : bool :=
  match i with
  | O => true
  | S i' => ((xat xs i =? n0) && (keep_adj || negb (xat xs i' =? n0))) || (xat xs i * xat xs i' <? n0)
  end.
Definition zc0 (keep_adj : bool) (xs : list T) : list nat := filter (zc_test keep_adj xs) (seq 0 (length xs)).
Definition maxabs_range (xs : list T) (a b : nat) : T := amax (vabs (firstn (b - a) (skipn a xs))).
(** the tolerance loop: drop both ends of a segment whose max |x| stays below tol *)
Fixpoint zc_prune (fuel : nat) (tol : T) (xs : list T) (l : list nat) : list nat :=
  match fuel with
  | O => l
  | S f =>
    match l with
    | a :: ((b :: r) as t) => if maxabs_range xs a b <? tol then zc_prune f tol xs r else a :: zc_prune f tol xs t
    | _ => l
    end
  end.
Definition zero_crossings (keep_adj : bool) (tol : T) (xs : list T) : list nat :=
  match xs with
  | [] => [0%nat]
  | _ => let z := zc0 keep_adj xs in if n0 <? tol then zc_prune (length z) tol xs z else z
  end.

(** ** switched peaks (C12): fold over the peak list exactly as the loop does (after the two fixes: first set seeded
    with the first peak; candidates restricted to the sign of the value that opened the half cycle) *)
Definition nsign (x : T) : T := if n0 <? x then n1 else if x <? n0 then - n1 else n0.
(** state: last value, best |value| of the current set, its series index, output (reversed) *)
Fixpoint sp_loop (tol : T) (xs : list T) (last bestv : T) (besti : nat) (ps : list nat) (out : list nat) : list nat :=
  match ps with
  | [] => rev (besti :: out)
  | p :: r =>
    let v := xat xs p in
    let adj := v + tol * nsign last in
    if adj * last <=? n0
    then sp_loop tol xs v (nabs v) p r (besti :: out)
    else if (n0 <? v * last) && (bestv <? nabs v) then sp_loop tol xs last (nabs v) p r out
         else sp_loop tol xs last bestv besti r out
  end.
Definition switched_peaks_of (tol : T) (xs : list T) (ps : list nat) : list nat :=
  match ps with [] => [] | p0 :: r => sp_loop tol xs (xat xs p0) (nabs (xat xs p0)) p0 r [] end.
Definition switched_peaks (tol : T) (xs : list T) : list nat := switched_peaks_of tol xs (peaks xs).

(** ** peak-only series (C13) *)
Definition place (n : nat) (idx : list nat) (vals : list T) : list T :=
  map (fun i => match find (fun p => Nat.eqb (fst p) i) (combine idx vals) with Some p => snd p | None => n0 end) (seq 0 n).
Definition sgn_first (xs : list T) : T := match first_up xs with Some true => n1 | Some false => - n1 | None => n0 end.
(** determine_peaks_only_delta_series *)
Definition peaks_delta (xs : list T) : list T :=
  let ps := peaks xs in
  let pv := map (xat xs) ps in
  let s := sgn_first xs in
  place (length xs) ps (n0 :: map (fun d => s * d) (diff pv)).
(** determine_pseudo_cyclic_peak_only_series: (-1)^(k+1) * s * (x[p_k] - x[0]) *)
Fixpoint alt_signs (neg : bool) (l : list T) : list T :=
  match l with [] => [] | x :: r => (if neg then - x else x) :: alt_signs (negb neg) r end.
Definition pseudo_cyclic (xs : list T) : list T :=
  let ps := peaks xs in
  let s := sgn_first xs in
  let pv := map (fun p => s * (xat xs p - xat xs 0)) ps in
  place (length xs) ps (alt_signs true pv).
Definition total_variation (xs : list T) : T := nsum (vabs (diff xs)).

(** ** power-law equivalent cycles / amplitude for b = 1/e, e a positive integer (exactly computable) *)
Fixpoint npow (x : T) (e : nat) : T := match e with O => n1 | S k => x * npow x k end.
(** interp1d(kind='previous') on integer abscissae: value at the last abscissa <= i (later duplicates win) *)
Fixpoint prev_pts (xp : list nat) (fp : list T) (cur : T) (i : nat) : T :=
  match xp, fp with
  | x0 :: xr, f0 :: fr => if (x0 <=? i)%nat then prev_pts xr fr f0 i else cur
  | _, _ => cur
  end.
Definition n_cyc_power (e : nat) (a_ref cut_off tiny : T) (xs : list T) : list T :=
  let ps := switched_peaks n0 xs in
  let lim := cut_off * amax (vabs xs) in
  let pk := map (fun p => let v := nabs (xat xs p) in if v <? lim then tiny else v) ps in
  let perc := map (fun v => half / npow (a_ref / v) e) pk in
  let neq := cumsum perc in
  let xp := (0%nat :: ps) ++ [length xs] in
  let fp := (n0 :: neq) ++ [last neq n0] in
  map (prev_pts xp fp n0) (seq 0 (length xs)).
(** (cyc_amp)^e : the e-th power of the equivalent amplitude, = cumsum(|peak|^e / 2 / n_cyc) *)
Definition cyc_amp_pow (e : nat) (ncyc : T) (xs : list T) : list T :=
  let ps := switched_peaks n0 xs in
  let s := place (length xs) ps (map (fun p => nabs (xat xs p)) ps) in
  cumsum (map (fun v => npow (nabs v) e / nofZ 2 / ncyc) s).
Definition cyc_amp_combined_pow (e : nat) (ncyc : T) (xs ys : list T) : list T :=
  let px := switched_peaks n0 xs in let py := switched_peaks n0 ys in
  let sx := place (length xs) px (map (fun p => nabs (xat xs p)) px) in
  let sy := place (length ys) py (map (fun p => nabs (xat ys p)) py) in
  cumsum (map2 (fun u v => (npow (nabs u) e + npow (nabs v) e) / nofZ 2 / ncyc) sx sy).
End Generic.
