(** Model of the signal operations of eqsig/single.py and eqsig/fns/generic.py (property C17):
    butter_pass (argument selection, Gibbs padding layout, trimming; scipy butter+filtfilt is an oracle [FF]),
    remove_poly (object and array level; np.polyfit is an oracle, an executable exact least-squares solver is
    given for the Q-run), add_constant / add_series / add_signal and running_average.  No proofs here. *)
From Coq Require Import ZArith QArith Reals List Bool.
From EQ Require Import lib.Num lib.NpList.
Import ListNotations.
Local Open Scope num_scope.

(** kinds that do not depend on the number type *)
Inductive btype := Band | Low | High.
(** what Python object the caller passed as [cut_off] *)
Inductive container := CList | CTuple | CArray | COther.
Inductive gibbs := GNone | GStart | GEnd | GMid.
Inductive bp_error := ErrNotSeq | ErrLen2.
Inductive add_error := ErrSeriesLen | ErrDt | ErrNotSignal.

Definition btype_eqb (a b : btype) : bool :=
  match a, b with Band, Band | Low, Low | High, High => true | _, _ => false end.

(** a[s:f] for 0 <= s, 0 <= f (NumPy clamps f to the length) *)
Definition slice {A} (s f : nat) (l : list A) : list A := firstn (f - s) (skipn s l).
(** a[-k:] for k >= 1 (the whole array when k exceeds the length) *)
Definition lastn {A} (k : nat) (l : list A) : list A := skipn (length l - k) l.

(** padding layout of butter_pass: (new_len, s_len, f_len).
    nindex = int(ceil(log2 n)) + gibbs_extra; new_len = 2^nindex; 'start' keeps the record at the front,
    'end' at the back, anything else centres it (s_len = int(diff_len/2)). *)
Definition gibbs_new_len (n extra : nat) : nat :=
  Z.to_nat (2 ^ (Z.log2_up (Z.of_nat n) + Z.of_nat extra)).
Definition gibbs_layout (n extra : nat) (g : gibbs) : nat * nat * nat :=
  match g with
  | GNone => (n, 0, n)%nat
  | GStart => (gibbs_new_len n extra, 0, n)%nat
  | GEnd => let nl := gibbs_new_len n extra in (nl, nl - n, nl - n + n)%nat
  | GMid => let nl := gibbs_new_len n extra in (nl, (nl - n) / 2, (nl - n) / 2 + n)%nat
  end.

Section Generic.
Context {T : Type} `{NumOps T}.

Record signal := { s_dt : T; s_vals : list T }.

Definition dot (u v : list T) : T := nsum (map2 nmul u v).
(** np.mean *)
Definition mean (l : list T) : T := nsum l / nofZ (Z.of_nat (length l)).

(** ** butter_pass *)
(** validation, filter type and normalised cut-off(s) wp = cut_off / nyq, nyq = (1/dt)*0.5.
    [cut] is the content of the container: None = Python None. *)
Definition nyquist (dt : T) : T := (n1 / dt) * (n1 / nofZ 2).
Definition butter_args (cont : container) (cut : list (option T)) (dt : T) : bp_error + (btype * list T) :=
  match cont with
  | COther => inl ErrNotSeq
  | _ =>
    match cut with
    | [Some lo; Some hi] => inr (Band, [lo / nyquist dt; hi / nyquist dt])
    | [None; Some hi] => inr (Low, [hi / nyquist dt])
    | [Some lo; None] => inr (High, [lo / nyquist dt])
    | [None; None] => inr (Low, [])      (* Python: None / nyq raises TypeError; outside the property's domain *)
    | _ => inl ErrLen2
    end
  end.

(** temp = start_value*ones(new_len); temp[f_len:] = end_value; temp[s_len:f_len] = mote *)
Definition gibbs_pad (grange nl s f : nat) (x : list T) : list T :=
  let sv := mean (firstn grange x) in
  let ev := mean (lastn grange x) in
  repeat sv s ++ x ++ repeat ev (nl - f).

(** [FF order btype wn x] stands for scipy: b, a = butter(order, wn, btype=btype); filtfilt(b, a, x) *)
Definition butter_pass (FF : nat -> btype -> list T -> list T -> list T)
    (order : nat) (cont : container) (cut : list (option T)) (g : gibbs) (extra grange : nat) (s : signal) : bp_error + signal :=
  match butter_args cont cut (s_dt s) with
  | inl e => inl e
  | inr (bt, wn) =>
    let x := s_vals s in
    let '(nl, sl, fl) := gibbs_layout (length x) extra g in
    let padded := match g with GNone => x | _ => gibbs_pad grange nl sl fl x end in
    inr {| s_dt := s_dt s; s_vals := slice sl fl (FF order bt wn padded) |}
  end.
(** what the code hands to scipy: (order, btype, wn, padded record) *)
Definition butter_pass_scipy_args (order : nat) (cont : container) (cut : list (option T)) (g : gibbs) (extra grange : nat) (s : signal)
  : bp_error + (nat * btype * list T * list T) :=
  match butter_args cont cut (s_dt s) with
  | inl e => inl e
  | inr (bt, wn) =>
    let x := s_vals s in
    let '(nl, sl, fl) := gibbs_layout (length x) extra g in
    inr (order, bt, wn, match g with GNone => x | _ => gibbs_pad grange nl sl fl x end)
  end.

(** squared magnitude of the digital Butterworth filter of order N obtained by the bilinear transform, in terms of
    t = tan(pi f dt), tc = tan(pi fc dt) (low/high) or t1, t2 (band edges). *)
Fixpoint npow (x : T) (e : nat) : T := match e with O => n1 | S e' => x * npow x e' end.
Definition butter_gain2 (bt : btype) (order : nat) (t : T) (tc : list T) : T :=
  match bt, tc with
  | Low, [c] => n1 / (n1 + npow (t / c) (2 * order))
  | High, [c] => n1 / (n1 + npow (c / t) (2 * order))
  | Band, [t1; t2] => n1 / (n1 + npow ((t * t - t1 * t2) / (t * (t2 - t1))) (2 * order))
  | _, _ => n0
  end.

(** ** polynomial detrending *)
(** np.linspace(0, 1.0, n) *)
Definition linspace01 (n : nat) : list T :=
  map (fun i => nofZ (Z.of_nat i) / nofZ (Z.of_nat (n - 1))) (seq 0 n).
(** the row [x^k; x^(k-1); ...; x^0] : coefficient order of np.polyfit *)
Definition prow (k : nat) (x : T) : list T := map (npow x) (rev (seq 0 (S k))).
Definition design (k : nat) (xs : list T) : list (list T) := map (prow k) xs.
(** A c (fitted values) and the j-th column of A *)
Definition mv (A : list (list T)) (c : list T) : list T := map (fun r => dot r c) A.
Definition col (j : nat) (A : list (list T)) : list T := map (fun r => nth j r n0) A.
(** y_cor = sum_co cofs[co] * x**(poly_fit-co);  values - y_cor *)
Definition remove_poly_with (k : nat) (c : list T) (y : list T) : list T :=
  vsub y (mv (design k (linspace01 (length y))) c).
(** np.polyfit is an oracle: [polyfit k xs y] = coefficient vector, highest power first *)
Definition remove_poly (polyfit : nat -> list T -> list T -> list T) (k : nat) (y : list T) : list T :=
  remove_poly_with k (polyfit k (linspace01 (length y)) y) y.
Definition remove_poly_sig (polyfit : nat -> list T -> list T -> list T) (k : nat) (s : signal) : signal :=
  {| s_dt := s_dt s; s_vals := remove_poly polyfit k (s_vals s) |}.

(** normal equations A^T A c = A^T y, column by column; boolean form for the run-time check *)
Definition normal_okb (A : list (list T)) (y c : list T) (m : nat) : bool :=
  forallb (fun j => dot (col j A) (mv A c) =? dot (col j A) y) (seq 0 m).

(** executable exact least squares: Gauss-Jordan elimination on [A^T A | A^T y] *)
Definition normal_aug (A : list (list T)) (y : list T) (m : nat) : list (list T) :=
  map (fun j => map (fun l => dot (col j A) (col l A)) (seq 0 m) ++ [dot (col j A) y]) (seq 0 m).
Fixpoint find_pivot (j : nat) (rows : list (list T)) : option (list T * list (list T)) :=
  match rows with
  | [] => None
  | r :: rs =>
    if nth j r n0 =? n0
    then match find_pivot j rs with None => None | Some (p, rest) => Some (p, r :: rest) end
    else Some (r, rs)
  end.
Fixpoint gauss_jordan (cols j : nat) (done todo : list (list T)) : option (list (list T)) :=
  match cols with
  | O => Some done
  | S cols' =>
    match find_pivot j todo with
    | None => None
    | Some (p, rest) =>
      let p' := map (fun v => v / nth j p n0) p in
      let elim r := map2 (fun a b => a - nth j r n0 * b) r p' in
      gauss_jordan cols' (S j) (map elim done ++ [p']) (map elim rest)
    end
  end.
Definition lstsq_poly (k : nat) (xs y : list T) : list T :=
  match gauss_jordan (S k) 0 [] (normal_aug (design k xs) y (S k)) with
  | None => []
  | Some rows => map (fun r => last r n0) rows
  end.

(** ** add_constant / add_series / add_signal *)
Definition add_constant (c : T) (s : signal) : signal := {| s_dt := s_dt s; s_vals := map (fun v => v + c) (s_vals s) |}.
Definition add_series (series : list T) (s : signal) : add_error + signal :=
  if Nat.eqb (length series) (length (s_vals s))
  then inr {| s_dt := s_dt s; s_vals := vadd (s_vals s) series |}
  else inl ErrSeriesLen.
(** [None] = the argument is not a Signal object *)
Definition add_signal (other : option signal) (s : signal) : add_error + signal :=
  match other with
  | None => inl ErrNotSignal
  | Some o => if s_dt o =? s_dt s then add_series (s_vals o) s else inl ErrDt
  end.

(** ** running_average *)
(** the loop as coded: three branches on i < width/2, i > n - width/2 (integers: 2i < w, 2i + w > 2n),
    int(width/2) = w/2 floored; every mean is taken over the copied original samples *)
Definition running_average_at (w : nat) (x : list T) (i : nat) : T :=
  let n := length x in let h := (w / 2)%nat in
  if (2 * i <? w)%nat then mean (firstn (i + h + 1) x)
  else if (2 * n <? 2 * i + w)%nat then mean (skipn (i - h) x)
  else mean (slice (i - h) (i + h + 1) x).
Definition running_average (w : nat) (x : list T) : list T := map (running_average_at w x) (seq 0 (length x)).
Definition running_average_sig (w : nat) (s : signal) : signal := {| s_dt := s_dt s; s_vals := running_average w (s_vals s) |}.
(** the statement's window: the original samples j with |i - j| <= floor(w/2) *)
Definition window_mean (w : nat) (x : list T) (i : nat) : T :=
  let h := (w / 2)%nat in mean (slice (i - h) (Nat.min (length x) (i + h + 1)) x).
End Generic.
