(** Model of eqsig/loader.py at /repo HEAD (after `fix: loader reads dt from the header line and always returns a
    1-d array`).  Definitions only.

    save_values_and_dt:   para = [label, "%i %.4f" % (len(values), dt)] + ["%.6f" % v for v in values];  "\n".join(para)
    load_values_and_dt:   values = genfromtxt(skip_header=1, delimiter=",", names=True, usecols=0) as float, 1-d;
                          dt = float(text.splitlines()[1].split()[1])
    load_signal(astype), load_sig(m), load_asig(load_label, m).

    np.genfromtxt is MODELLED, not verified: skip one physical line, take the next non-blank line as the names line,
    then for every further non-blank line: cut at '#', split at ',', strip column 0, convert with Python float().
    float() and the product `vals * m` are correctly rounded binary64 operations: [round_b64]. *)
From Coq Require Import ZArith QArith Qabs List Bool Ascii String.
From EQ Require Import lib.DecFmt.
Import ListNotations.

Definition nl : ascii := "010"%char.
Definition sp : ascii := " "%char.

(** ** writer *)
Fixpoint join_with (c : ascii) (ls : list text) : text :=
  match ls with
  | [] => []
  | [l] => l
  | l :: r => l ++ c :: join_with c r
  end.

(** values carry their sign bit: (signbit, value); the sign bit only matters for the float -0.0 *)
Definition with_sign (x : Q) : bool * Q := (Qltb' x 0, x).
Definition header_line (n : nat) (dt : Q) : text := dec_int (Z.of_nat n) ++ sp :: fmt_fixed 4 dt.
Definition save_lines_sb (label : text) (dt : Q) (vals : list (bool * Q)) : list text :=
  label :: header_line (List.length vals) dt :: map (fun v => fmt_fixed_sb (fst v) 6 (snd v)) vals.
Definition save_sb (label : text) (dt : Q) (vals : list (bool * Q)) : text := join_with nl (save_lines_sb label dt vals).
Definition save (label : text) (dt : Q) (vals : list Q) : text := save_sb label dt (map with_sign vals).

(** ** reader *)
Definition code (c : ascii) : N := N_of_ascii c.
(** str.splitlines() breaks (ASCII part): \n \v \f \r FS GS RS *)
Definition is_break (c : ascii) : bool :=
  match code c with 10 | 11 | 12 | 13 | 28 | 29 | 30 => true | _ => false end%N.
(** physical lines as a text-mode file iterator sees them (universal newlines) *)
Definition is_fbreak (c : ascii) : bool := match code c with 10 | 13 => true | _ => false end%N.
(** str.split() / str.strip() whitespace (ASCII part) *)
Definition is_ws (c : ascii) : bool :=
  match code c with 9 | 10 | 11 | 12 | 13 | 28 | 29 | 30 | 31 | 32 => true | _ => false end%N.

(** guard of the label clause: the label contains no line-break character *)
Definition no_break (label : text) : Prop := Forall (fun c => is_break c = false) label.

(** pieces between separator characters; always at least one piece (like str.split(sep)) *)
Fixpoint split_by (p : ascii -> bool) (s : text) : list text :=
  match s with
  | [] => [[]]
  | a :: r => if p a then [] :: split_by p r
              else match split_by p r with q :: qs => (a :: q) :: qs | [] => [[a]] end
  end.
(** a final empty piece is not a line *)
Fixpoint drop_last_empty (ls : list text) : list text :=
  match ls with
  | [] => []
  | l :: r => match l, r with [], [] => [] | _, _ => l :: drop_last_empty r end
  end.
Definition splitlines (s : text) : list text := drop_last_empty (split_by is_break s).
Definition nonempty (l : text) : bool := match l with [] => false | _ => true end.
Definition tokens (s : text) : list text := filter nonempty (split_by is_ws s).

Fixpoint drop_ws (s : text) : text := match s with [] => [] | a :: r => if is_ws a then drop_ws r else s end.
Definition strip (s : text) : text := rev (drop_ws (rev (drop_ws s))).
Definition is_blank (s : text) : bool := forallb is_ws s.

Definition load_dt (t : text) : option Q :=
  match splitlines t with
  | _ :: h :: _ => match tokens h with
                   | _ :: tok :: _ => option_map round_b64 (parse_float tok)
                   | _ => None
                   end
  | _ => None
  end.

(** one data line of genfromtxt(delimiter=",", usecols=0): [None] = line skipped, [Some None] = conversion error *)
Definition field0 (l : text) : text := strip (hd [] (split_by (Ascii.eqb ","%char) (fst (break_at "#"%char l)))).
Fixpoint sequence {A} (l : list (option A)) : option (list A) :=
  match l with
  | [] => Some []
  | Some a :: r => option_map (cons a) (sequence r)
  | None :: _ => None
  end.
(** lines after the skipped one; blank lines never count; the first non-blank one is the names line *)
Definition data_lines (t : text) : list text :=
  tl (filter (fun l => negb (is_blank (fst (break_at "#"%char l)))) (tl (split_by is_fbreak t))).
Definition load_values (t : text) : option (list Q) :=
  sequence (map (fun l => option_map round_b64 (parse_float (field0 l))) (data_lines t)).

Definition load_values_and_dt (t : text) : option (list Q * Q) :=
  match load_values t, load_dt t with
  | Some v, Some dt => Some (v, dt)
  | _, _ => None
  end.
Definition load_label (t : text) : text := hd [] (splitlines t).

(** ** the object-returning entry points *)
Inductive kind := KSignal | KAccSignal.
Record loaded := { l_kind : kind; l_vals : list Q; l_dt : Q; l_label : text }.
Definition default_label : text := txt "m1".
Definition scale (m : Q) (v : list Q) : list Q := map (fun y => round_b64 (y * m)) v.

(** load_signal(ffp, astype): "signal" -> Signal, "acc_sig" -> AccSignal, anything else (incl. the default
    'sig') falls through both branches and returns Python None: [Some None] *)
Definition astype_kind (astype : text) : option kind :=
  if text_eqb astype (txt "signal") then Some KSignal
  else if text_eqb astype (txt "acc_sig") then Some KAccSignal else None.
Definition load_signal (astype : text) (t : text) : option (option loaded) :=
  match load_values_and_dt t with
  | None => None
  | Some (v, dt) => Some (option_map (fun k => {| l_kind := k; l_vals := v; l_dt := dt; l_label := default_label |})
                                     (astype_kind astype))
  end.
Definition load_sig (m : Q) (t : text) : option loaded :=
  option_map (fun vd => {| l_kind := KSignal; l_vals := scale m (fst vd); l_dt := snd vd; l_label := default_label |})
             (load_values_and_dt t).
Definition load_asig (want_label : bool) (m : Q) (t : text) : option loaded :=
  option_map (fun vd => {| l_kind := KAccSignal; l_vals := scale m (fst vd); l_dt := snd vd;
                           l_label := if want_label then load_label t else default_label |})
             (load_values_and_dt t).

(** HISTORICAL (not the code at HEAD): the dt parser before `fix: loader reads dt from the header line ...`:
    dt was rebuilt from numpy's sanitised column name:  names[0].split("_")[-1];  "." + that[1:].
    NameValidator: strip, blanks -> "_", delete the characters of its default delete set. *)
Definition name_delete (c : ascii) : bool :=
  existsb (Ascii.eqb c) (txt "~!@#$%^&*()-=+~\|]}[{';: /?.>,<").
Definition name_validate (s : text) : text :=
  filter (fun c => negb (name_delete c)) (map (fun c => if Ascii.eqb c " "%char then "_"%char else c) (strip s)).
Definition load_dt_before_fix (t : text) : option Q :=
  match splitlines t with
  | _ :: h :: _ => option_map round_b64
                     (parse_float ("."%char :: tl (last (split_by (Ascii.eqb "_"%char) (name_validate h)) [])))
  | _ => None
  end.
