(** C05 — alias/effect IR, its concrete heap semantics and the abstract interpreter (no proofs here; see proofs/P_C05.v).

    A program variable denotes (at most) one buffer. [Fresh nd like] allocates a new buffer (the new object is certainly
    an ndarray if [nd = true] or if one of the variables [like] denotes an ndarray: results of arithmetic on arrays), [AliasOf ys] rebinds the variable to the buffer of one of the listed variables, [Mut x]
    overwrites the content of the buffer of [x] arbitrarily. Branching and looping are non-deterministic, so every
    Python execution path is an execution of the IR term (provided the translator's classification of the NumPy/SciPy
    primitives into copy / view / in-place is right: that table is trusted and validated dynamically on every run). *)
From Coq Require Import String List Bool Arith.
Import ListNotations.
Local Open Scope string_scope.

Inductive rhs := Fresh (nd : bool) (like : list string) | AliasOf (ys : list string).
Inductive stmt :=
| Skip
| Assign (x : string) (r : rhs)
| Mut (x : string)
| Seq (a b : stmt)
| If (a b : stmt)
| Loop (a : stmt).
Definition seqs (l : list stmt) : stmt := fold_right Seq Skip l.

(** ** Concrete semantics: environment (variable -> buffer id), heap (buffer id -> content), kind (is an ndarray), allocation counter *)
Definition env := string -> option nat.
Record state := mkSt { senv : env; sheap : nat -> nat; skind : nat -> bool; snext : nat }.
Definition upd {A} (f : nat -> A) (k : nat) (v : A) : nat -> A := fun j => if Nat.eqb j k then v else f j.
Definition bind (e : env) (x : string) (v : option nat) : env := fun y => if String.eqb y x then v else e y.

Inductive exec : stmt -> state -> state -> Prop :=
| E_Skip : forall st, exec Skip st st
| E_Fresh : forall x nd like st v k,
    (nd = true \/ (exists y b, In y like /\ senv st y = Some b /\ skind st b = true) -> k = true) ->
    exec (Assign x (Fresh nd like)) st
         (mkSt (bind (senv st) x (Some (snext st))) (upd (sheap st) (snext st) v) (upd (skind st) (snext st) k) (S (snext st)))
| E_Alias : forall x ys y st, In y ys ->
    exec (Assign x (AliasOf ys)) st (mkSt (bind (senv st) x (senv st y)) (sheap st) (skind st) (snext st))
| E_AliasNil : forall x st,
    exec (Assign x (AliasOf [])) st (mkSt (bind (senv st) x None) (sheap st) (skind st) (snext st))
| E_Mut : forall x b v st, senv st x = Some b ->
    exec (Mut x) st (mkSt (senv st) (upd (sheap st) b v) (skind st) (snext st))
| E_MutNone : forall x st, senv st x = None -> exec (Mut x) st st
| E_Seq : forall a b s1 s2 s3, exec a s1 s2 -> exec b s2 s3 -> exec (Seq a b) s1 s3
| E_IfL : forall a b s1 s2, exec a s1 s2 -> exec (If a b) s1 s2
| E_IfR : forall a b s1 s2, exec b s1 s2 -> exec (If a b) s1 s2
| E_LoopNil : forall a st, exec (Loop a) st st
| E_LoopStep : forall a s1 s2 s3, exec a s1 s2 -> exec (Loop a) s2 s3 -> exec (Loop a) s1 s3.

(** ** Abstract domain: variable -> list of roots (variables bound at entry) whose entry buffer it may denote; [[]] = certainly fresh *)
Definition amap := list (string * list string).
Fixpoint lookup (A : amap) (x : string) : list string :=
  match A with [] => [] | (k, l) :: r => if String.eqb k x then l else lookup r x end.
Definition mem (x : string) (l : list string) : bool := existsb (String.eqb x) l.
Definition union (l1 l2 : list string) : list string := l1 ++ filter (fun y => negb (mem y l1)) l2.
Definition aset (A : amap) (x : string) (l : list string) : amap :=
  (x, l) :: filter (fun kl => negb (String.eqb (fst kl) x)) A.
Definition keys (A : amap) : list string := map fst A.
Definition join (A B : amap) : amap :=
  map (fun k => (k, union (lookup A k) (lookup B k))) (union (keys A) (keys B)).
Definition subset (l1 l2 : list string) : bool := forallb (fun x => mem x l2) l1.
Definition leb_amap (A B : amap) : bool := forallb (fun kl => subset (snd kl) (lookup B (fst kl))) A.
Definition roots_of (A : amap) (ys : list string) : list string :=
  fold_right (fun y acc => union (lookup A y) acc) [] ys.
(** an in-place write through [x] is accepted iff no root [x] may denote is protected *)
Definition mut_ok (P : list string) (A : amap) (x : string) : bool :=
  forallb (fun r => negb (mem r P)) (lookup A x).

(** loops: iterate to a post-fixpoint which is CHECKED ([leb_amap A1 A]); out of fuel = reject *)
Fixpoint iter (f : amap -> option amap) (n : nat) (A : amap) : option amap :=
  match n with
  | 0 => None
  | S n' => match f A with
            | None => None
            | Some A1 => if leb_amap A1 A then Some A else iter f n' (join A A1)
            end
  end.

Fixpoint analyze (P : list string) (fuel : nat) (s : stmt) (A : amap) : option amap :=
  match s with
  | Skip => Some A
  | Assign x (Fresh _ _) => Some (aset A x [])
  | Assign x (AliasOf ys) => Some (aset A x (roots_of A ys))
  | Mut x => if mut_ok P A x then Some A else None
  | Seq a b => match analyze P fuel a A with Some A1 => analyze P fuel b A1 | None => None end
  | If a b => match analyze P fuel a A, analyze P fuel b A with
              | Some A1, Some A2 => Some (join A1 A2)
              | _, _ => None
              end
  | Loop a => iter (analyze P fuel a) fuel A
  end.

Definition init_amap (roots : list string) : amap := map (fun r => (r, [r])) roots.
Definition FUEL := 12.

(** ** A translated function: entry roots (parameters, "$global", object fields), the protected ones, the body.
    The translator binds the returned expression to the variable "$ret". *)
Record func := mkFunc { f_name : string; f_roots : list string; f_prot : list string; f_body : stmt }.
Definition run_func (f : func) : option amap := analyze (f_prot f) FUEL (f_body f) (init_amap (f_roots f)).
Definition no_param_mutation (f : func) : bool := match run_func f with Some _ => true | None => false end.
(** roots the returned value may share memory with ("?" when the analysis rejects the body) *)
Definition ret_roots (f : func) : list string := match run_func f with Some A => lookup A "$ret" | None => ["?"] end.
(** roots the buffer of variable [x] may denote at exit *)
Definition exit_roots (f : func) (x : string) : list string := match run_func f with Some A => lookup A x | None => ["?"] end.

(** ** Classes: fields are variables "self.f"; [own] = the fields whose buffers the object owns (may write in place) *)
Record method := mkMethod { m_name : string; m_params : list string; m_body : stmt }.
Record class := mkClass { c_name : string; c_fields : list string; c_own : list string; c_methods : list method }.
Definition m_roots (c : class) (m : method) : list string := m_params m ++ c_fields c.
Definition m_prot (c : class) (m : method) : list string := filter (fun r => negb (mem r (c_own c))) (m_roots c m).
Definition m_func (c : class) (m : method) : func := mkFunc (m_name m) (m_roots c m) (m_prot c m) (m_body m).
(** a method is accepted iff (1) it writes in place only through owned fields or fresh buffers and
    (2) at exit every owned field denotes a fresh buffer or the entry buffer of an owned field *)
Definition method_ok (c : class) (m : method) : bool :=
  match run_func (m_func c m) with
  | Some A => forallb (fun o => subset (lookup A o) (c_own c)) (c_own c)
  | None => false
  end.
Definition owns_values (c : class) : bool := subset (c_own c) (c_fields c) && forallb (method_ok c) (c_methods c).

(** object life cycle seen from a caller: the caller allocates and overwrites its own buffers and calls methods,
    passing its own buffers (or scalars, [None]) as arguments *)
Record world := mkW { w_fenv : env; w_heap : nat -> nat; w_kind : nat -> bool; w_next : nat; w_caller : list nat }.
Fixpoint assoc_args (ps : list string) (args : list (option nat)) (x : string) : option nat :=
  match ps, args with
  | p :: ps', a :: args' => if String.eqb p x then a else assoc_args ps' args' x
  | _, _ => None
  end.
Definition entry_env (c : class) (m : method) (fe : env) (args : list (option nat)) : env :=
  fun x => if mem x (c_fields c) then fe x else if mem x (m_params m) then assoc_args (m_params m) args x else None.
Inductive step (c : class) : world -> world -> Prop :=
| S_alloc : forall w v k,
    step c w (mkW (w_fenv w) (upd (w_heap w) (w_next w) v) (upd (w_kind w) (w_next w) k) (S (w_next w)) (w_next w :: w_caller w))
| S_write : forall w b v, In b (w_caller w) ->
    step c w (mkW (w_fenv w) (upd (w_heap w) b v) (w_kind w) (w_next w) (w_caller w))
| S_call : forall w m args st',
    In m (c_methods c) ->
    (forall b, In (Some b) args -> In b (w_caller w)) ->
    exec (m_body m) (mkSt (entry_env c m (w_fenv w) args) (w_heap w) (w_kind w) (w_next w)) st' ->
    step c w (mkW (senv st') (sheap st') (skind st') (snext st') (w_caller w)).
Inductive steps (c : class) : world -> world -> Prop :=
| steps_nil : forall w, steps c w w
| steps_cons : forall w1 w2 w3, step c w1 w2 -> steps c w2 w3 -> steps c w1 w3.
(** the ownership invariant: no owned field denotes a caller buffer (and every buffer in sight is allocated) *)
Definition owned_inv (c : class) (w : world) : Prop :=
  (forall o b, In o (c_own c) -> w_fenv w o = Some b -> ~ In b (w_caller w)) /\
  (forall b, In b (w_caller w) -> b < w_next w) /\
  (forall x b, w_fenv w x = Some b -> b < w_next w).

(** ** "is certainly an ndarray" analysis: the set of variables that denote an ndarray buffer on every path *)
Definition inter (l1 l2 : list string) : list string := filter (fun x => mem x l2) l1.
Definition remove_s (x : string) (l : list string) : list string := filter (fun y => negb (String.eqb y x)) l.
Fixpoint kiter (f : list string -> list string) (n : nat) (K : list string) : list string :=
  match n with
  | 0 => []
  | S n' => let K1 := f K in if subset K K1 then K else kiter f n' (inter K K1)
  end.
Fixpoint nd_analyze (fuel : nat) (s : stmt) (K : list string) : list string :=
  match s with
  | Skip => K
  | Assign x (Fresh nd like) => if nd || existsb (fun y => mem y K) like then x :: remove_s x K else remove_s x K
  | Assign x (AliasOf ys) =>
      match ys with
      | [] => remove_s x K
      | _ => if forallb (fun y => mem y K) ys then x :: remove_s x K else remove_s x K
      end
  | Mut _ => K
  | Seq a b => nd_analyze fuel b (nd_analyze fuel a K)
  | If a b => inter (nd_analyze fuel a K) (nd_analyze fuel b K)
  | Loop a => kiter (nd_analyze fuel a) fuel K
  end.
(** a method keeps "self._values is an ndarray" if, assuming it at entry (or nothing, for the constructor), it holds at exit *)
Definition keeps_nd (x : string) (assume : bool) (m : method) : bool :=
  mem x (nd_analyze FUEL (m_body m) (if assume then [x] else [])).
