(** Model of eqsig/sdof.py: Nigam & Jennings recurrence, response rows, leading-zero-period handling
    (properties C01, C02; the spectra built on it are in M_spectra.v). Generic over [NumOps]; no proofs here. *)
From Coq Require Import ZArith QArith Reals List Bool.
From EQ Require Import lib.Num lib.NpList.
Import ListNotations.
Local Open Scope num_scope.

Section Generic.
Context {T : Type} `{NumOps T}.

(** the two 2x2 matrices returned by compute_a_and_b, for one oscillator *)
Record coeffs := mkC { a11 : T; a12 : T; a21 : T; a22 : T; b11 : T; b12 : T; b21 : T; b22 : T }.

(** x_{i+1} = A x_i + B (f_i, f_{i+1}) — the loop body of nigam_and_jennings_response *)
Definition nj_step (c : coeffs) (s : T * T) (f0 f1 : T) : T * T :=
  (a11 c * fst s + a12 c * snd s + b11 c * f0 + b12 c * f1,
   a21 c * fst s + a22 c * snd s + b21 c * f0 + b22 c * f1).

(** states at every sample instant, starting from state [s] at the sample whose load is [f0] *)
Fixpoint nj_run (c : coeffs) (s : T * T) (f0 : T) (rest : list T) : list (T * T) :=
  s :: match rest with [] => [] | f1 :: r => nj_run c (nj_step c s f0 f1) f1 r end.

(** zero initial state; the load is the negated record ([acc = -np.array(acc)]) *)
Definition nj_series (c : coeffs) (rec : list T) : list (T * T) :=
  match map nopp rec with [] => [] | f0 :: r => nj_run c (n0, n0) f0 r end.

(** third returned series: -2 xi w v - w^2 u *)
Definition resp_acc (xi w : T) (s : T * T) : T := (nofZ (-2) * xi * w) * snd s - (w * w) * fst s.

Definition row (c : coeffs) (xi w : T) (rec : list T) : list T * list T * list T :=
  let st := nj_series c rec in (map fst st, map snd st, map (resp_acc xi w) st).

(** the row of a leading period of exactly 0: u = v = 0, third series = the negated record *)
Definition zero_row (rec : list T) : list T * list T * list T :=
  (map (fun _ => n0) rec, map (fun _ => n0) rec, map nopp rec).

(** w = 6.2831853 / T : [c2pi] is the code's truncated constant *)
Definition w_of (c2pi P : T) : T := c2pi / P.

(** periods that get an oscillator: all of them, or all but a leading zero *)
Definition osc_periods (periods : list T) : list T :=
  match periods with [] => [] | p0 :: ps => if p0 =? n0 then ps else periods end.
Definition leading_zero (periods : list T) : bool :=
  match periods with [] => false | p0 :: _ => p0 =? n0 end.

(** nigam_and_jennings_response / response_series given the per-oscillator coefficients *)
Definition response_with (cfs : list coeffs) (c2pi xi : T) (periods rec : list T) : list (list T * list T * list T) :=
  let rows := map2 (fun c P => row c xi (w_of c2pi P) rec) cfs (osc_periods periods) in
  if leading_zero periods then zero_row rec :: rows else rows.

Definition us (r : list (list T * list T * list T)) : list (list T) := map (fun x => fst (fst x)) r.
Definition vs (r : list (list T * list T * list T)) : list (list T) := map (fun x => snd (fst x)) r.
Definition accs (r : list (list T * list T * list T)) : list (list T) := map (fun x => snd x) r.
End Generic.
Arguments coeffs T : clear implicits.
