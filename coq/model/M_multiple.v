(** Model of eqsig/multiple.py (property C18): combine_at_angle, compute_rotated, Cluster.time_match,
    Cluster.same_start (with fns/average.get_section_average and fns/time_shift.time_indices).
    Generic over [NumOps T]; the trigonometric kernel exists only at R (section [Trig]). No proofs here. *)
From Coq Require Import ZArith QArith Reals List Bool.
From EQ Require Import lib.Num lib.NpList.
Import ListNotations.
Local Open Scope num_scope.

Section Generic.
Context {T : Type} `{NumOps T}.

(** ** rotation *)
(** combo = ns.values * cos(off_rad) + we.values * sin(off_rad); (c, s) are the kernel values *)
Definition combine (c s : T) (ns we : list T) : list T := map2 (fun a b => a * c + b * s) ns we.

(** np.linspace(a, b, points) (endpoint included) *)
Definition linspace (a b : T) (points : nat) : list T :=
  match points with
  | O => []
  | S O => [a]
  | S p => map (fun i => a + nofZ (Z.of_nat i) * ((b - a) / nofZ (Z.of_nat p))) (seq 0 points)
  end.
(** np.mod(x, 360) for floats: result in [0, 360) *)
Definition mod360 (x : T) : T := x - nofZ 360 * nofZ (nfloor (x / nofZ 360)).
Definition scan_angles (off : T) (points : nat) : list T :=
  map mod360 (linspace (n0 - off) (nofZ 180 - off) points).

(** measure applied to the combination at each angle; [kern d] = (cos (radians d), sin (radians d)) *)
Definition scan_values (measure : list T -> T) (ks : list (T * T)) (ns we : list T) : list T :=
  map (fun k => measure (combine (fst k) (snd k) ns we)) ks.
Definition rotated_scan (kern : T -> T * T) (measure : list T -> T) (off : T) (points : nat) (ns we : list T)
  : list T * list T :=
  let degs := scan_angles off points in (degs, scan_values measure (map kern degs) ns we).

(** ** python slices with resolved bounds: l[a:b] for 0 <= a, b *)
Definition pyslice (a b : nat) (l : list T) : list T := firstn (b - a) (skipn a l).
(** l[0:-k] : note -0 = 0, so k = 0 gives the empty slice *)
Definition neg_stop (n k : nat) : nat := match k with O => O | _ => n - k end.

(** ** Cluster.time_match *)
Definition sqdiff (x y : list T) : T := nsum (map2 (fun a b => (a - b) * (a - b)) x y).
(** squared-error profile at a candidate lag, exactly the slices the code takes.
    lag = +i (loop 2, "other lags base"): sum((om[i:-steps+i] - bm[0:-steps])^2);
    lag = -i (loop 3, "base lags other"): sum((bm[i:-steps+i] - om[0:-steps])^2).  (i < steps) *)
Definition prof_pos (steps : nat) (bm om : list T) (i : nat) : T :=
  sqdiff (pyslice i (length om - (steps - i)) om) (pyslice 0 (neg_stop (length bm) steps) bm).
Definition prof_neg (steps : nat) (bm om : list T) (i : nat) : T :=
  sqdiff (pyslice i (length bm - (steps - i)) bm) (pyslice 0 (neg_stop (length om) steps) om).
Definition prof_init (steps : nat) (bm om : list T) : T :=
  sqdiff (pyslice 0 (neg_stop (length bm) steps) bm) (pyslice 0 (neg_stop (length om) steps) om).
(** candidates in the order the code visits them *)
Definition lag_candidates (steps : nat) (bm om : list T) : list (Z * T) :=
  map (fun i => (Z.of_nat i, prof_pos steps bm om i)) (seq 0 steps) ++
  map (fun i => ((- Z.of_nat i)%Z, prof_neg steps bm om i)) (seq 0 steps).
(** strict [<] update *)
Definition lag_upd (st : Z * T) (c : Z * T) : Z * T := if snd c <? snd st then c else st.
Definition find_lag_st (steps : nat) (bm om : list T) : Z * T :=
  fold_left lag_upd (lag_candidates steps bm om) (0%Z, prof_init steps bm om).
Definition find_lag (steps : nat) (bm om : list T) : Z := fst (find_lag_st steps bm om).
(** everything the search compares, in visiting order: the initial error (lag 0) first *)
Definition all_candidates (steps : nat) (bm om : list T) : list (Z * T) :=
  (0%Z, prof_init steps bm om) :: lag_candidates steps bm om.

(** padding: lag < 0 -> [om[0]]*|lag| + om[:lag]; lag > 0 -> om[lag:] + [om[-1]]*lag *)
Definition apply_lag (lag : Z) (om : list T) : list T :=
  let k := Z.abs_nat lag in
  if (lag <? 0)%Z then repeat (hd n0 om) k ++ firstn (length om - k) om
  else if (0 <? lag)%Z then skipn k om ++ repeat (last om n0) k
  else om.

Fixpoint mapi_from {A B} (f : nat -> A -> B) (i : nat) (l : list A) : list B :=
  match l with [] => [] | x :: r => f i x :: mapi_from f (S i) r end.
Definition mapi {A B} (f : nat -> A -> B) (l : list A) : list B := mapi_from f 0 l.

(** a signal's stored values with a type tag: true = numpy array (what Signal.reset_values / the constructor store) *)
Definition tagged : Type := (list T * bool)%type.
Definition reset_values (v : list T) : tagged := (v, true).

Definition length_check (sigs : list (list T)) : nat := Nat.min (length (nth 0 sigs [])) (length (nth 1 sigs [])).
Definition tm_one (steps master : nat) (sigs : list (list T)) (s : nat) (v : list T) : tagged * option Z :=
  if Nat.eqb s master then ((v, true), None)
  else
    let lc := length_check sigs in
    let bm := firstn lc (nth master sigs []) in
    let om := firstn lc v in
    let lag := find_lag steps bm om in
    if (lag =? 0)%Z then ((v, true), Some lag) else (reset_values (apply_lag lag om), Some lag).
Definition last_some (l : list (option Z)) : Z :=
  fold_left (fun acc o => match o with Some z => z | None => acc end) l 0%Z.
(** returns the signals afterwards (with tags) and the returned [min_ind] (the lag of the last non-master signal) *)
Definition time_match (steps master : nat) (sigs : list (list T)) : list tagged * Z :=
  let r := mapi (tm_one steps master sigs) sigs in (map fst r, last_some (map snd r)).
Definition time_match_vals (steps master : nat) (sigs : list (list T)) : list (list T) :=
  map fst (fst (time_match steps master sigs)).

(** ** section average and same_start *)
Definition trunc (x : T) : Z := if x <? n0 then (- nfloor (nopp x))%Z else nfloor x.
(** time_indices(npts, dt, start, end, index=False) -> (s_index, e_index) *)
Definition time_indices (dt start stop : T) : Z * Z :=
  (trunc (start / dt), if stop =? nopp n1 then (-1)%Z else (trunc (ndiv stop dt) + 1)%Z).
(** python index resolution inside a slice *)
Definition resolve (n : nat) (i : Z) : nat :=
  if (i <? 0)%Z then Z.to_nat (Z.max 0 (Z.of_nat n + i)) else Nat.min (Z.to_nat i) n.
Definition section (si ei : Z) (l : list T) : list T := pyslice (resolve (length l) si) (resolve (length l) ei) l.
Definition mean (l : list T) : T := nsum l / nofZ (Z.of_nat (length l)).
Definition section_average (si ei : Z) (l : list T) : T := mean (section si ei l).
(** the SignalProcessingWarning guard of time_indices *)
Definition indices_ok (ei : Z) (l : list T) : bool := (ei <=? Z.of_nat (length l))%Z.

Definition same_start (master : nat) (si ei : Z) (sigs : list (list T)) : list (list T) :=
  let ma := section_average si ei (nth master sigs []) in
  mapi (fun i v => if Nat.eqb i master then v
                   else let d := section_average si ei v - ma in map (fun x => x - d) v) sigs.
Definition same_start_time (master : nat) (dt start stop : T) (sigs : list (list T)) : list (list T) :=
  let '(si, ei) := time_indices dt start stop in same_start master si ei sigs.
End Generic.

(** ** the trigonometric kernel (R only) *)
Section Trig.
Local Open Scope R_scope.
Definition radians (deg : R) : R := deg * PI / 180.
Definition kernR (deg : R) : R * R := (cos (radians deg), sin (radians deg)).
Definition combine_at_angle (ns we : list R) (deg : R) : list R := combine (fst (kernR deg)) (snd (kernR deg)) ns we.
Definition compute_rotated (measure : list R -> R) (off : R) (points : nat) (ns we : list R) : list R * list R :=
  rotated_scan kernR measure off points ns we.
End Trig.

(** ** specification vocabulary for the lag theorems (R) *)
Section LagSpec.
Local Open Scope R_scope.
(** the slave [om] is the master [bm] delayed by L samples: om[k+L] = bm[k] on the overlap (the first L samples of om are free) *)
Definition delayed_by (L : nat) (bm om : list R) : Prop :=
  length om = length bm /\ forall k, (k + L < length bm)%nat -> nth (k + L) om 0 = nth k bm 0.
(** the slave is the master advanced by L samples: om[k] = bm[k+L] on the overlap (the last L samples of om are free) *)
Definition advanced_by (L : nat) (bm om : list R) : Prop :=
  length om = length bm /\ forall k, (k + L < length bm)%nat -> nth k om 0 = nth (k + L) bm 0.
(** non-degeneracy: every candidate lag other than [L] has a strictly positive squared error *)
Definition nondegenerate (steps : nat) (L : Z) (bm om : list R) : Prop :=
  forall c, In c (all_candidates steps bm om) -> fst c <> L -> 0 < snd c.
End LagSpec.
