(** Correspondence checker for C06 (Fourier amplitude spectrum), evaluated at Q by vm_compute.
    What Q can decide exactly: the transform length N, the number of bins, the frequency grid, and every bin / sample
    whose twiddles are all in {0, 1, -1} (N | 4k: bins 0 and N/4 of any N, every bin of N = 1, 2, 4).  All other bins
    are tied by per-bin [interval] goals on the R model (harness/ivl.py), not here.
    The relational clauses (object-level = array-level, linearity, trailing zeros, Parseval, inverse) are evaluated
    here on the implementation's own outputs. *)
From Coq Require Import ZArith QArith Qabs List Bool.
From EQ Require Import lib.Num lib.NpList lib.NpHelpers lib.Chk lib.Dft model.M_fourier.
Import ListNotations.

(** which: 0 Signal/AccSignal.gen_fa_spectrum(p2_plus, n) (p2opt = None: argument omitted, default 0);
           1 calc_fa_spectrum(sig, n, p2_plus); 2 generate_fa_spectrum(sig, n_pad) *)
Definition model_nfft (which : nat) (nopt p2opt : option Z) (npad : bool) (npts : Z) : Z :=
  match which with
  | 0%nat => sig_nfft npts (match p2opt with Some p => p | None => 0%Z end) nopt
  | 1%nat => calc_nfft npts nopt p2opt
  | _ => gen_nfft npts npad
  end.

Inductive case :=
(** spectrum of a record: inputs, then implementation re / im / freqs, rtol for bins (scale dt*sum|x|), rtol for freqs *)
| CSpec (which : nat) (nopt p2opt : option Z) (npad : bool) (dt : Q) (x : list Q) (re im fr : list Q) (rtol ftol : Q)
(** medium / long records with the record shipped: implementation number of bins and of frequencies, and sampled
    bins (k, re_k, im_k, freq_k); values compared where the twiddles are representable, frequencies always *)
| CBig (which : nat) (nopt p2opt : option Z) (npad : bool) (dt : Q) (x : list Q) (nbins nfreqs : Z)
       (smp : list (Z * Q * Q * Q)) (rtol ftol : Q)
(** grid only (long records): npts, implementation number of bins, some (k, freq_k), freq rtol *)
| CGrid (which : nat) (nopt p2opt : option Z) (npad : bool) (npts : Z) (dt : Q) (nbins : Z) (fk : list (Z * Q)) (ftol : Q)
(** two implementation spectra that the property says are equal (object vs array level; trailing zeros) *)
| CAgree (dt : Q) (x : list Q) (re1 im1 fr1 re2 im2 fr2 : list Q) (rtol : Q)
(** linearity on implementation outputs: spectrum of a*x+b*y against a*X + b*Y *)
| CLinear (a b dt : Q) (x y : list Q) (rex imx rey imy rez imz : list Q) (rtol : Q)
(** Parseval on implementation outputs, even N: dt*sum x^2 = (|F_0|^2 + 2 sum_{k>=1} |F_k|^2 + |F_nyq|^2)/(N dt),
    the unreported Nyquist bin being dt * sum (-1)^n x_n *)
| CParseval (N : Z) (dt : Q) (x : list Q) (re im : list Q) (rtol : Q)
(** fas2values structure: any complex half spectrum, implementation samples; exactly representable samples compared *)
| CInv (re im : list Q) (dt : Q) (sre sim : list Q) (rtol : Q)
(** inverse clause on implementation outputs, even N: fas2values(fas(x)) = pad x - mean - Nyquist component *)
| CRound (N : Z) (dt : Q) (x : list Q) (sre sim : list Q) (rtol : Q)
(** max_fa_period from the implementation's own spectrum and frequencies; None = infinite period (bin 0) *)
| CMaxPer (re im fr : list Q) (out : option Q) (rtol : Q)
(** calc_fourier_moment(asig, n) from the object's own fa_frequencies / fa_spectrum (real and imaginary parts), pi = the rational
    value of the float np.pi; implementation result (re, im); rtol relative to the sum of the absolute panel contributions *)
| CMoment (n : nat) (pi : Q) (fr re im : list Q) (o : Q * Q) (rtol : Q)
(** get_bandwidth_boore_2003(asig): the implementation's own m0, m2, m4 (each compared with the model) and its result
    ([None] = nan + nan j); the result is compared csqrt-free: out^2 = m2^2 / (m0 m4) on the implementation's moments, Re(out) >= 0 *)
| CBoore (pi : Q) (fr re im : list Q) (m0 m2 m4 : Q * Q) (out : option (Q * Q)) (rtol : Q).

Definition qsumabs (l : list Q) : Q := fold_left (fun s v => Qred (s + Qabs v)) l 0%Q.
Definition qsum (l : list Q) : Q := fold_left (fun s v => Qred (s + v)) l 0%Q.
Definition qsumsq (l : list Q) : Q := fold_left (fun s v => Qred (s + v * v)) l 0%Q.
Fixpoint altsum (sgn : Q) (l : list Q) : Q :=
  match l with [] => 0%Q | v :: r => Qred (sgn * v + altsum (- sgn) r) end.

(** representable bins of the implementation spectrum against the Q model *)
Fixpoint chk_bins (N : Z) (dt : Q) (x : list Q) (tol : Q) (k : Z) (re im : list Q) : bool :=
  match re, im with
  | r :: re', i :: im' =>
    (if tw_ok N k
     then qclose tol (nmul (dft_re Qtwc N x k) dt) r && qclose tol (nmul (dft_im Qtws N x k) dt) i
     else true) && chk_bins N dt x tol (k + 1)%Z re' im'
  | [], [] => true
  | _, _ => false
  end.

Definition freq_of (N : Z) (dt : Q) (k : Z) : Q := ndiv (inject_Z k) (nmul (inject_Z N) dt).

Fixpoint chk_samples (N : Z) (hre him : list Q) (tol : Q) (n : Z) (sre sim : list Q) : bool :=
  match sre, sim with
  | r :: sre', i :: sim' =>
    (if tw_ok N n
     then qclose tol (idft_re Qtwc Qtws N hre him n) r && qclose tol (idft_im Qtwc Qtws N hre him n) i
     else true) && chk_samples N hre him tol (n + 1)%Z sre' sim'
  | [], [] => true
  | _, _ => false
  end.

Fixpoint chk_round (x : list Q) (mean nyq tol sgn : Q) (sre sim : list Q) : bool :=
  match x, sre, sim with
  | v :: x', r :: sre', i :: sim' =>
    qclose tol (v - mean - sgn * nyq) r && qclose tol 0 i && chk_round x' mean nyq tol (- sgn) sre' sim'
  | [], [], [] => true
  | _, _, _ => false
  end.

Definition opt_close (rtol : Q) (a b : option Q) : bool :=
  match a, b with
  | None, None => true
  | Some u, Some v => qclose (rtol * Qabs u) u v
  | _, _ => false
  end.

(** sum of the absolute panel contributions of a moment: 2 * sum |dx| (s_i + s_{i+1}) / 2 with s = |2 pi f|^n (re^2 + im^2),
    which bounds both parts of the integrand (2 pi f)^n (re + i im)^2 *)
Definition moment_scale (pi : Q) (n : nat) (fr re im : list Q) : Q :=
  let s := map2 (fun w a => Qred (Qabs w * a)) (moment_weight pi n fr) (amp2 re im) in
  Qred (2 * qsum (map2 (fun d t => Qred (Qabs d * t / 2)) (diff fr) (map2 (fun u v => Qred (u + v)) (tl s) s))).
Definition cclose (tol : Q) (a b : Q * Q) : bool := qclose tol (fst a) (fst b) && qclose tol (snd a) (snd b).
Definition n1norm (z : Q * Q) : Q := Qred (Qabs (fst z) + Qabs (snd z)).
Definition chk_moment (pi : Q) (n : nat) (fr re im : list Q) (o : Q * Q) (rtol : Q) : bool :=
  Nat.eqb (length re) (length fr) && Nat.eqb (length im) (length fr) &&
  cclose (rtol * moment_scale pi n fr re im) (fourier_moment pi n fr re im) o.

Definition check_case (c : case) : bool :=
  match c with
  | CSpec which nopt p2opt npad dt x re im fr rtol ftol =>
    let N := model_nfft which nopt p2opt npad (Z.of_nat (length x)) in
    let mf := fa_freqs N dt in
    (0 <? N)%Z && Nat.eqb (length re) (points N) && Nat.eqb (length im) (points N) &&
    close_list (ftol * qabsmax mf) mf fr &&
    chk_bins N dt x (rtol * Qabs dt * qsumabs x) 0 re im
  | CBig which nopt p2opt npad dt x nbins nfreqs smp rtol ftol =>
    let N := model_nfft which nopt p2opt npad (Z.of_nat (length x)) in
    let tol := rtol * Qabs dt * qsumabs x in
    (0 <? N)%Z && (nbins =? N / 2)%Z && (nfreqs =? N / 2)%Z &&
    forallb (fun p => let '(k, r, i, f) := p in
                      let m := freq_of N dt k in
                      (0 <=? k)%Z && (k <? N / 2)%Z && qclose (ftol * Qabs m) m f &&
                      (if tw_ok N k then qclose tol (nmul (dft_re Qtwc N x k) dt) r && qclose tol (nmul (dft_im Qtws N x k) dt) i
                       else true)) smp
  | CGrid which nopt p2opt npad npts dt nbins fk ftol =>
    let N := model_nfft which nopt p2opt npad npts in
    (0 <? N)%Z && (nbins =? N / 2)%Z &&
    forallb (fun p => let m := freq_of N dt (fst p) in qclose (ftol * Qabs m) m (snd p)) fk
  | CAgree dt x re1 im1 fr1 re2 im2 fr2 rtol =>
    let s := rtol * Qred (Qabs dt * qsumabs x) in
    close_list s re1 re2 && close_list s im1 im2 && close_list (rtol * qabsmax fr1) fr1 fr2
  | CLinear a b dt x y rex imx rey imy rez imz rtol =>
    let s := rtol * Qred (Qabs dt * (Qabs a * qsumabs x + Qabs b * qsumabs y)) in
    Nat.eqb (length rex) (length rez) && Nat.eqb (length rey) (length rez) &&
    close_list s (map2 (fun u v => Qred (a * u + b * v)) rex rey) rez &&
    close_list s (map2 (fun u v => Qred (a * u + b * v)) imx imy) imz
  | CParseval N dt x re im rtol =>
    let px := pad_trunc (Z.to_nat N) x in
    let lhs := Qred (dt * qsumsq px) in
    let nyq := Qred (dt * altsum 1 px) in
    let e0 := Qred (nth 0 re 0 * nth 0 re 0 + nth 0 im 0 * nth 0 im 0) in
    let rhs := Qred ((e0 + 2 * (qsumsq (tl re) + qsumsq (tl im)) + nyq * nyq) / (inject_Z N * dt)) in
    (0 <? N)%Z && Z.even N && Nat.eqb (length re) (points N) && Nat.eqb (length im) (points N) &&
    qclose (rtol * lhs) lhs rhs
  | CInv re im dt sre sim rtol =>
    let N := (2 * Z.of_nat (length re))%Z in
    let hre := herm_re dt re in let him := herm_im dt im in
    Nat.eqb (length im) (length re) && Nat.eqb (length sre) (Z.to_nat N) && Nat.eqb (length sim) (Z.to_nat N) &&
    chk_samples N hre him (rtol * Qred (qsumabs hre + qsumabs him)) 0 sre sim
  | CRound N dt x sre sim rtol =>
    let px := pad_trunc (Z.to_nat N) x in
    (0 <? N)%Z && Z.even N && Nat.eqb (length sre) (Z.to_nat N) &&
    chk_round px (Qred (qsum px / inject_Z N)) (Qred (altsum 1 px / inject_Z N)) (rtol * qsumabs px) 1 sre sim
  | CMaxPer re im fr out rtol =>
    Nat.eqb (length re) (length im) && Nat.eqb (length re) (length fr) && negb (Nat.eqb (length re) 0%nat) &&
    opt_close rtol (max_fa_period re im fr) out
  | CMoment n pi fr re im o rtol => chk_moment pi n fr re im o rtol
  | CBoore pi fr re im m0 m2 m4 out rtol =>
    chk_moment pi 0 fr re im m0 rtol && chk_moment pi 2 fr re im m2 rtol && chk_moment pi 4 fr re im m4 rtol &&
    match boore_of_moments m0 m2 m4, out with
    | None, None => true
    | Some a, Some o => cclose (rtol * n1norm a) (csq o) a && Qleb 0 (fst o)
    | _, _ => false
    end
  end.

(** what the model computes for a case (replay files): N, then lists *)
Definition model_out (c : case) : Z * list (list Q) :=
  match c with
  | CSpec which nopt p2opt npad dt x re im fr rtol ftol =>
    let N := model_nfft which nopt p2opt npad (Z.of_nat (length x)) in
    (N, [fa_freqs N dt;
         map (fun k => if tw_ok N k then nmul (dft_re Qtwc N x k) dt else 0%Q) (zrange (points N));
         map (fun k => if tw_ok N k then nmul (dft_im Qtws N x k) dt else 0%Q) (zrange (points N))])
  | CGrid which nopt p2opt npad npts dt nbins fk ftol =>
    let N := model_nfft which nopt p2opt npad npts in (N, [map (fun p => freq_of N dt (fst p)) fk])
  | CBig which nopt p2opt npad dt x nbins nfreqs smp rtol ftol =>
    let N := model_nfft which nopt p2opt npad (Z.of_nat (length x)) in
    (N, map (fun p => let '(k, r, i, f) := p in
                      [inject_Z k; freq_of N dt k;
                       if tw_ok N k then nmul (dft_re Qtwc N x k) dt else 0; if tw_ok N k then nmul (dft_im Qtws N x k) dt else 0]) smp)
  | CInv re im dt sre sim rtol =>
    let N := (2 * Z.of_nat (length re))%Z in
    (N, [map (fun n => if tw_ok N n then idft_re Qtwc Qtws N (herm_re dt re) (herm_im dt im) n else 0%Q) (zrange (Z.to_nat N))])
  | CRound N dt x sre sim rtol =>
    let px := pad_trunc (Z.to_nat N) x in
    (N, [[Qred (qsum px / inject_Z N); Qred (altsum 1 px / inject_Z N)]])
  | CParseval N dt x re im rtol => (N, [[Qred (dt * qsumsq (pad_trunc (Z.to_nat N) x))]])
  | CMaxPer re im fr out rtol =>
    (Z.of_nat (max_fa_bin re im), [match max_fa_period re im fr with Some p => [p] | None => [] end])
  | CMoment n pi fr re im o rtol =>
    let m := fourier_moment pi n fr re im in (Z.of_nat n, [[fst m; snd m]; [moment_scale pi n fr re im]])
  | CBoore pi fr re im m0 m2 m4 out rtol =>
    (4%Z, [[fst (fourier_moment pi 0 fr re im); snd (fourier_moment pi 0 fr re im)];
           [fst (fourier_moment pi 2 fr re im); snd (fourier_moment pi 2 fr re im)];
           [fst (fourier_moment pi 4 fr re im); snd (fourier_moment pi 4 fr re im)];
           match boore_of_moments m0 m2 m4 with Some a => [fst a; snd a] | None => [] end])
  | _ => (0%Z, [])
  end.
