(** Model of the helper functions of eqsig/fns/generic.py (interp2d, interp_left) and eqsig/fns/average.py
    (calc_roll_av_vals, calc_step_fn_vals_error, calc_step_fn_steps_vals) — property C20.
    Written as coded (argmin bracketing, clipping, weight guard; edge replication + cumulative-sum differences;
    tril/triu rows with the padded-zero correction). No proofs here. *)
From Coq Require Import ZArith QArith Reals List Bool.
From EQ Require Import lib.Num lib.NpList.
Import ListNotations.
Local Open Scope num_scope.

Inductive rmode := Forward | Backward | Centre.
Inductive sdir := DNone | DDown | DUp.

Section Generic.
Context {T : Type} `{NumOps T}.

Definition ofnat (k : nat) : T := nofZ (Z.of_nat k).
Definition xat (l : list T) (i : nat) : T := nth i l n0.

(** np.argmin: first index of a minimal element *)
Fixpoint argmin_from (best : T) (bi i : nat) (l : list T) : nat :=
  match l with
  | [] => bi
  | x :: r => if x <? best then argmin_from x i (S i) r else argmin_from best bi (S i) r
  end.
Definition argmin (l : list T) : nat := match l with [] => 0%nat | x :: r => argmin_from x 0 1 r end.

(** ** interp2d(x, xf, f): one output row per query; [eps] is the literal 1e-10 of the code *)
Definition lin_row (s1 s0 : T) (f0 f1 : list T) : list T := map2 (fun a b => s1 * a + s0 * b) f0 f1.
Definition interp2d_row (eps : T) (xf : list T) (f : list (list T)) (x : T) : list T :=
  let ind := argmin (map (fun a => nabs (x - a)) xf) in          (* argmin |x - xf| *)
  let gt := x <? xat xf ind in                                     (* x_ind > x *)
  let ind0 := if gt then pred ind else ind in                      (* where(..., ind-1, ind) clipped at 0 *)
  let ind1 := Nat.min (if gt then ind else S ind) (pred (length xf)) in  (* where(..., ind, ind+1) clipped at len-1 *)
  let a0 := xat xf ind0 in
  let a1 := xat xf ind1 in
  let denom := a1 - a0 in
  let denom_adj := if denom <? eps then eps else denom in          (* np.clip(denom, 1e-10, None) *)
  let s0 := if n0 <? denom then (x - a0) / denom_adj else n1 in    (* np.where(denom > 0, ..., 1) *)
  let s1 := n1 - s0 in
  lin_row s1 s0 (nth ind0 f []) (nth ind1 f []).
Definition interp2d (eps : T) (x xf : list T) (f : list (list T)) : list (list T) := map (interp2d_row eps xf f) x.

(** ** interp_left(x0, x, y): np.searchsorted(x, q, side='right') on a sorted x = number of leading nodes <= q *)
Fixpoint ss_right (q : T) (x : list T) : nat :=
  match x with [] => 0%nat | a :: r => if a <=? q then S (ss_right q r) else 0%nat end.
Definition left_index (x : list T) (q : T) : nat := pred (ss_right q x).
(** [None] = the assertion min(x0) >= x[0] fails (or x is empty) *)
Definition interp_left (x0 x y : list T) : option (list T) :=
  match x with
  | [] => None
  | a :: _ => if existsb (fun q => q <? a) x0 then None else Some (map (fun q => nth (left_index x q) y n0) x0)
  end.
(** y = None: y = arange(len(x)) *)
Definition arange (n : nat) : list T := map ofnat (seq 0 n).
Definition interp_left_noy (x0 x : list T) : option (list T) := interp_left x0 x (arange (length x)).

(** ** calc_roll_av_vals(values, steps, mode) *)
Definition roll_ext (steps : nat) (m : rmode) (v : list T) : list T :=
  let a := hd n0 v in
  let b := last v n0 in
  match m with
  | Forward => v ++ repeat b (steps - 1)
  | Backward => repeat a (steps - 1) ++ v
  | Centre => let s := (steps / 2)%nat in let e := (steps - s - 1)%nat in repeat a s ++ v ++ repeat b e
  end.
Definition roll_av (steps : nat) (m : rmode) (v : list T) : list T :=
  let csum := n0 :: cumsum (roll_ext steps m v) in
  map2 (fun hi lo => (hi - lo) / ofnat steps) (skipn steps csum) (firstn (length csum - steps) csum).

(** ** calc_step_fn_vals_error(values, pow, dir) *)
Fixpoint npw (x : T) (e : nat) : T := match e with O => n1 | S k => x * npw x k end.
Definition mean (l : list T) : T := nsum l / ofnat (length l).
(** summed |deviation|^p of the elements of [l] from [m] *)
Definition dev (p : nat) (m : T) (l : list T) : T := nsum (map (fun x => npw (nabs (x - m)) p) l).
(** rows of np.tril(values) / np.triu(values) (values broadcast to an n x n matrix) *)
Definition tril_row (n i : nat) (v : list T) : list T := firstn (S i) v ++ repeat n0 (n - S i).
Definition triu_row (n i : nat) (v : list T) : list T := repeat n0 i ++ skipn i v.
Definition side_mean (cnt : nat) (row : list T) : T := nsum row / ofnat cnt.
(** sum |row - mean|^p - (npts - cnt) * |mean|^p *)
Definition side_err (p n cnt : nat) (row : list T) : T :=
  let m := side_mean cnt row in dev p m row - ofnat (n - cnt) * npw (nabs m) p.
Definition pre_mean (v : list T) (i : nat) : T := side_mean (S i) (tril_row (length v) i v).
Definition post_mean (v : list T) (i : nat) : T := side_mean (length v - i) (triu_row (length v) i v).
Definition err_pre (p : nat) (v : list T) (i : nat) : T := side_err p (length v) (S i) (tril_row (length v) i v).
Definition err_post (p : nat) (v : list T) (i : nat) : T := side_err p (length v) (length v - i) (triu_row (length v) i v).
Definition step_err_raw (p : nat) (v : list T) : list T :=
  let n := length v in
  map (fun i => if (S i =? n)%nat then dev p (mean v) v else err_post p v (S i) + err_pre p v i) (seq 0 n).
Definition step_err (p : nat) (d : sdir) (v : list T) : list T :=
  let err := step_err_raw p v in
  let idx := seq 0 (length v) in
  match d with
  | DNone => err
  | DDown => let mx := amax err in map2 (fun e i => if pre_mean v i <? post_mean v i then mx * ofnat 10 else e) err idx
  | DUp => let mx := amax err in map2 (fun e i => if post_mean v i <? pre_mean v i then mx * ofnat 10 else e) err idx
  end.

(** the definition the property states: both sides measured from their own means *)
Definition step_err_spec (p : nat) (v : list T) (i : nat) : T :=
  if (S i =? length v)%nat then dev p (mean v) v
  else dev p (mean (firstn (S i) v)) (firstn (S i) v) + dev p (mean (skipn (S i) v)) (skipn (S i) v).

(** ** calc_step_fn_steps_vals(values, ind): means before / after the split sample *)
Definition step_levels (v : list T) (ind : nat) : T * T := (mean (firstn ind v), mean (skipn (S ind) v)).
Definition step_levels_auto (v : list T) : T * T := step_levels v (argmin (step_err 1 DNone v)).
End Generic.
