(** Model of eqsig/displacements.py and eqsig.im.calc_peak (property C08). *)
From Coq Require Import ZArith QArith Reals List Bool.
From EQ Require Import lib.Num lib.NpList.
Import ListNotations.
Local Open Scope num_scope.

Section Generic.
Context {T : Type} `{NumOps T}.

(** trap=True: two cumulative trapezoids *)
Definition velo_trap (dt : T) (a : list T) : list T := cumtrapz dt a.
Definition disp_trap (dt : T) (a : list T) : list T := cumtrapz dt (velo_trap dt a).

(** trap=False: velocity = zeros(n+1); velocity[1:] = a*dt; cumsum; displacement = cumsum(velocity*dt); both [:-1] *)
Definition velo_rect_full (dt : T) (a : list T) : list T := cumsum (n0 :: map (fun x => x * dt) a).
Definition velo_rect (dt : T) (a : list T) : list T := removelast (velo_rect_full dt a).
Definition disp_rect (dt : T) (a : list T) : list T :=
  removelast (cumsum (map (fun x => x * dt) (velo_rect_full dt a))).

Definition velo_disp (trap : bool) (dt : T) (a : list T) : list T * list T :=
  if trap then (velo_trap dt a, disp_trap dt a) else (velo_rect dt a, disp_rect dt a).

(** eqsig.im.calc_peak: max(abs(min(m)), max(m)) *)
Definition calc_peak (m : list T) : T := nmax (nabs (amin m)) (amax m).
End Generic.
