(** Model of eqsig/surface.py (calc_surface_energy, trim_to_length, calc_cum_abs_surface_energy,
    get_time_shift_motions) and of the array-shifting helpers of eqsig/fns/time_shift.py
    (put_array_in_2d_array, join_values_w_shifts).  Property C19.  No proofs in this file. *)
From Coq Require Import ZArith QArith Reals List Bool.
From EQ Require Import lib.Num lib.NpList model.M_im.
Import ListNotations.
Local Open Scope num_scope.

(** ** integer helpers (np.max / np.min of an int array, python slices) *)
Definition zmax (l : list Z) : Z := match l with [] => 0%Z | x :: r => fold_left Z.max r x end.
Definition zmin (l : list Z) : Z := match l with [] => 0%Z | x :: r => fold_left Z.min r x end.
(** l[a:b] for 0 <= a *)
Definition slice {A} (a b : nat) (l : list A) : list A := firstn (b - a) (skipn a l).

Section Generic.
Context {T : Type} `{NumOps T}.

(** python int(x) / np.array(x, dtype=int): truncation towards zero *)
Definition ntrunc (x : T) : Z := if x <? n0 then Z.opp (nfloor (- x)) else nfloor x.
Definition ofnat (i : nat) : T := nofZ (Z.of_nat i).

(** np.interp(x, np.arange(len v), v, left=0, right=0): linear between the samples, the sample itself at an
    integer abscissa (including the last one), 0 strictly outside [0, len v - 1]. *)
Definition interp_grid0 (v : list T) (x : T) : T :=
  if x <? n0 then n0
  else
    let k := Z.to_nat (nfloor x) in
    let fr := x - ofnat k in
    if (S k <? length v)%nat then (nth (S k) v n0 - nth k v n0) * fr + nth k v n0
    else if fr =? n0 then nth k v n0
    else n0.

(** up_red / down_red: a python scalar or an ndarray with one entry per travel time
    (the code tests hasattr(up_red, '__len__') and then indexes BOTH as arrays) *)
Inductive red := RScalar (r : T) | RArr (l : list T).
Definition red_at (r : red) (j : nat) : T := match r with RScalar x => x | RArr l => nth j l n0 end.

(** shifts = 2 * travel_times / dt *)
Definition shifts_of (dt : T) (tts : list T) : list T := map (fun tt => nofZ 2 * tt / dt) tts.
(** max_shift = int(np.max(shifts)) (np.pad rejects a negative width: travel times are >= 0) *)
Definition max_shift (dt : T) (tts : list T) : nat := Z.to_nat (ntrunc (amax (shifts_of dt tts))).

(** up_wave = np.pad(values, (0, max_shift)) *)
Definition up_padded (vals : list T) (m : nat) : list T := vals ++ repeat n0 m.
(** down_waves[j] = np.interp(arange(npts + max_shift) - shift_j, arange(npts), values, left=0, right=0) *)
Definition down_wave (vals : list T) (len : nat) (s : T) : list T :=
  map (fun i => interp_grid0 vals (ofnat i - s)) (seq 0 len).
(** acc_series[j] = -+ down_waves[j]*down_red + up_wave*up_red *)
Definition acc_row (nodal : bool) (vals : list T) (m : nat) (ur dr s : T) : list T :=
  let up := map (fun x => x * ur) (up_padded vals m) in
  let dn := map (fun x => x * dr) (down_wave vals (length vals + m) s) in
  if nodal then map2 nadd (vopp dn) up else map2 nadd dn up.
Fixpoint map_idx_from {A B} (f : nat -> A -> B) (j : nat) (l : list A) : list B :=
  match l with [] => [] | x :: r => f j x :: map_idx_from f (S j) r end.
Definition acc_rows (nodal : bool) (dt : T) (vals tts : list T) (ur dr : red) : list (list T) :=
  let m := max_shift dt tts in
  map_idx_from (fun j s => acc_row nodal vals m (red_at ur j) (red_at dr j) s) 0 (shifts_of dt tts).

(** ** trim_to_length *)
(** one row of the loop:  sis<0: values[i, -sis : npts - sis];  else outs[i, sis:] = values[i, :npts - sis]
    (numpy raises when the two sides differ in length; see the guards of C19_trim_lengths) *)
Definition trim_row (npts : nat) (si : Z) (row : list T) : list T :=
  if (si <? 0)%Z then slice (Z.to_nat (- si)) (npts + Z.to_nat (- si)) row
  else let s := Z.to_nat si in repeat n0 (Nat.min s npts) ++ firstn (npts - s) row.
Definition trim_npts (npts : nat) (sds : list Z) (ss : Z) (trim start : bool) : nat :=
  if start && negb trim then
    (npts + Z.to_nat (Z.max (zmax (map (fun d => ss - d)%Z sds)) 0 - Z.min (zmin (map (Z.mul 2) sds)) 0))%nat
  else npts.
Definition trim_to_length (npts : nat) (sds : list Z) (ss : Z) (trim start : bool) (vals : list (list T)) : list (list T) :=
  if start then
    map2 (trim_row (trim_npts npts sds ss trim start)) (map (fun d => ss - d)%Z sds) vals
  else if trim then map2 (trim_row npts) (map (fun _ => 0%Z) sds) vals
  else vals.
(** surf_to_depth_shifts = np.array(travel_times / dt, dtype=int);  start_shift = int(stt / dt) *)
Definition depth_shifts (dt : T) (tts : list T) : list Z := map (fun tt => ntrunc (tt / dt)) tts.
Definition start_shift (dt stt : T) : Z := ntrunc (stt / dt).

(** ** public functions (2-D results; the code returns row 0 when there is a single travel time) *)
Definition energy_rows (nodal : bool) (dt : T) (vals tts : list T) (ur dr : red) : list (list T) :=
  map (fun a => kin_energy (cumtrapz dt a)) (acc_rows nodal dt vals tts ur dr).
Definition surface_energy (nodal trim start : bool) (dt : T) (vals tts : list T) (ur dr : red) (stt : T) : list (list T) :=
  trim_to_length (length vals) (depth_shifts dt tts) (start_shift dt stt) trim start (energy_rows nodal dt vals tts ur dr).
(** np.cumsum(np.abs(np.diff(energy, prepend=0))) *)
Definition cum_abs_row (e : list T) : list T := cumsum (vabs (diff (n0 :: e))).
Definition cum_abs_surface_energy (nodal trim start : bool) (dt : T) (vals tts : list T) (ur dr : red) (stt : T) : list (list T) :=
  map cum_abs_row (surface_energy nodal trim start dt vals tts ur dr stt).
Definition time_shift_motions (nodal trim start : bool) (dt : T) (vals tts : list T) (ur dr : red) (stt : T) : list (list T) :=
  trim_to_length (length vals) (depth_shifts dt tts) (start_shift dt stt) trim start (acc_rows nodal dt vals tts ur dr).

(** ** fns/time_shift.py *)
(** clip: 0 'none', 1 'start', 2 'end', 3 'both' *)
Definition clip_start (clip : nat) : bool := Nat.eqb clip 1 || Nat.eqb clip 3.
Definition clip_end (clip : nat) : bool := Nat.eqb clip 2 || Nat.eqb clip 3.
Definition end_extras (shifts : list Z) : nat := Z.to_nat (Z.max (zmax shifts) 0).
Definition start_extras (shifts : list Z) : nat := Z.to_nat (- Z.min (zmin shifts) 0).
(** out[i, start_extras + j : start_extras + npts + j] = values  in a zero row of the given width *)
Definition put_row (width off : nat) (vals : list T) : list T :=
  firstn width (repeat n0 off ++ vals ++ repeat n0 (width - off - length vals)).
Definition put_in_2d (vals : list T) (shifts : list Z) (clip : nat) : list (list T) :=
  let ee := end_extras shifts in
  let se := start_extras shifts in
  let width := (length vals + se + ee)%nat in
  let out := map (fun j => put_row width (Z.to_nat (Z.of_nat se + j)) vals) shifts in
  let out := if clip_end clip && (0 <? ee)%nat then map (firstn (width - ee)) out else out in
  if clip_start clip then map (skipn se) out else out.
(** a0 = np.pad(values, (0, max(shifts)));  a1 = put_array_in_2d_array(values, shifts);  +-a1 + a0
    (rows of a1 and a0 have equal width only when every shift is >= 0; numpy raises otherwise) *)
Definition join_w_shifts (add : bool) (vals : list T) (shifts : list Z) : list (list T) :=
  let a0 := vals ++ repeat n0 (Z.to_nat (zmax shifts)) in
  map (fun a1 => if add then map2 nadd a1 a0 else map2 nadd (vopp a1) a0) (put_in_2d vals shifts 0).
End Generic.
Arguments red : clear implicits.
