(** Correspondence checker for C09. *)
From Coq Require Import ZArith QArith Qabs List Bool.
From EQ Require Import lib.Num lib.NpList lib.Chk model.M_displacements model.M_im.
Import ListNotations.

(** which : 0 arias, 1 cav, 2 isv, 3 int_abs_vel, 4 int_abs_acc, 5 unit_ke, 6 cav_dp *)
Record case := { c_which : nat; c_dt : Q; c_a : list Q; c_c : Q; c_g : Q; c_thr : Q; c_pps : nat; c_nwin : nat;
                 c_out : list Q; c_rtol : Q }.
Definition model_out (c : case) : list Q :=
  match c_which c with
  | 0 => arias (c_c c) (c_dt c) (c_a c)
  | 1 => cav (c_dt c) (c_a c)
  | 2 => isv (c_dt c) (c_a c)
  | 3 => int_abs_vel (c_dt c) (c_a c)
  | 4 => int_abs_acc (c_dt c) (c_a c)
  | 5 => unit_ke (c_dt c) (c_a c)
  | _ => cav_dp (c_g c) (c_thr c) (c_dt c) (c_pps c) (c_nwin c) (c_a c)
  end%nat.
(** property predicate on the implementation's own output: same length, non-negative start, non-decreasing *)
Fixpoint nondecr (l : list Q) : bool :=
  match l with x :: ((y :: _) as r) => Qleb x y && nondecr r | _ => true end.
Definition check_case (c : case) : bool :=
  let m := model_out c in
  close_list (c_rtol c * qabsmax m) m (c_out c) && Nat.eqb (length (c_out c)) (length (c_a c)) && nondecr (c_out c).
