(** Model of the response-spectrum layer of eqsig/sdof.py and AccSignal.gen_response_spectrum (property C03;
    the scaling clause of C02). Generic over [NumOps]; no proofs here. The response rows come from M_sdof. *)
From Coq Require Import ZArith QArith Reals List Bool.
From EQ Require Import lib.Num lib.NpList model.M_sdof.
Import ListNotations.
Local Open Scope num_scope.

Section Generic.
Context {T : Type} `{NumOps T}.

(** sdof.absmax: abs(np.where(-amin > amax, amin, amax)) *)
Definition absmax (l : list T) : T := nabs (if amax l <? nopp (amin l) then amin l else amax l).

(** angular frequencies used for the pseudo relations: 2*pi/T, placeholder 1 for a leading period of 0 *)
Definition ws_pseudo (pi2 : T) (periods : list T) : list T :=
  match periods with
  | [] => []
  | p0 :: ps => if p0 =? n0 then n1 :: map (fun P => pi2 / P) ps else map (fun P => pi2 / P) periods
  end.

(** np.where(periods < dt * 6, absmax(motion), sas) *)
Definition pga_cut (dt : T) (periods : list T) (motion : list T) (sas : list T) : list T :=
  map2 (fun P sa => if P <? dt * nofZ 6 then absmax motion else sa) periods sas.

(** pseudo_response_spectra given the response rows *)
Definition pseudo_spectra (pi2 dt : T) (periods motion : list T) (resp : list (list T * list T * list T))
  : list T * list T * list T :=
  let ws := ws_pseudo pi2 periods in
  let sds := map absmax (us resp) in
  let svs := map2 nmul ws sds in
  let sas := map2 (fun w sd => (w * w) * sd) ws sds in
  (sds, svs, pga_cut dt periods motion sas).

(** true_response_spectra given the response rows *)
Definition true_spectra (dt : T) (periods motion : list T) (resp : list (list T * list T * list T))
  : list T * list T * list T :=
  (map absmax (us resp), map absmax (vs resp), pga_cut dt periods motion (map absmax (accs resp))).

(** AccSignal.gen_response_spectrum: the refinement factor applied to the record before the spectra are computed
    (target_dt = max(T_min/20, dt/min_dt_ratio); interpolate iff target_dt < dt, with factor ceil(dt/target_dt)) *)
Definition min_nonzero_period (periods : list T) : T :=
  match periods with
  | [] => n0
  | p0 :: ps => if p0 =? n0 then hd n0 ps else p0
  end.
Definition target_dt (dt ratio : T) (periods : list T) : T :=
  nmax (min_nonzero_period periods / nofZ 20) (dt / ratio).
Definition nceil (x : T) : Z := (- nfloor (nopp x))%Z.
Definition obj_factor (dt ratio : T) (periods : list T) : Z :=
  let td := target_dt dt ratio periods in
  if td <? dt then nceil (dt / td) else 1%Z.

(** np.interp(arange(m*n)/m, arange(n), values): linear interpolation at i/m, clamped to the last sample beyond it *)
Definition interp_pos (vals : list T) (m : Z) (k : nat) : T :=
  let i := Z.to_nat (Z.of_nat k / m) in
  let r := (Z.of_nat k mod m)%Z in
  let x0 := nth i vals n0 in
  if (S i <? length vals)%nat then x0 + (nth (S i) vals n0 - x0) * (nofZ r / nofZ m) else nth (length vals - 1) vals n0.
Definition interp_record (vals : list T) (m : Z) : list T :=
  map (interp_pos vals m) (seq 0 (Z.to_nat m * length vals)).

(** energy spectra: defining sums over the response velocity rows *)
Definition uke_row (v : list T) : T := nsum (map nabs (diff (map (fun x => (nofZ 1 / nofZ 2) * (x * x)) v))).
Definition input_energy_series (dt : T) (motion v : list T) : list T := cumsum (map2 (fun a x => a * x * dt) motion v).
Definition input_energy (dt : T) (motion v : list T) : T := nsum (map2 (fun a x => a * x * dt) motion v).
End Generic.

(** spectrum intensities of eqsig/im.py (calc_asi, calc_vsi): max(c * cumulative_trapezoid(abs(ps))) [/ g].
    scipy's cumulative_trapezoid WITHOUT `initial=` returns the n-1 partial integrals with dx = 1.0, i.e. the tail of
    [cumtrapz n1]; `max` of an empty array raises ValueError, so these are the code only for at least 2 periods
    ([amax []] = n0 is a totalisation that the theorems guard with 2 <= length ps). *)
Section Intensity.
Context {T : Type} `{NumOps T}.
(** np.array(x) of a sequence of numbers, read on lists *)
Definition as_array {A : Type} (x : A) : A := x.
(** calc_vsi: no division *)
Definition spectrum_intensity_raw (c : T) (ps : list T) : T := amax (scale c (tl (cumtrapz n1 (vabs ps)))).
(** calc_asi: divided by g *)
Definition spectrum_intensity (c g : T) (ps : list T) : T := spectrum_intensity_raw c ps / g.
End Intensity.
