(** Model of the cumulative intensity measures and durations of eqsig/im.py (properties C09, C10). *)
From Coq Require Import ZArith QArith Reals List Bool.
From EQ Require Import lib.Num lib.NpList model.M_displacements.
Import ListNotations.
Local Open Scope num_scope.

Section Generic.
Context {T : Type} `{NumOps T}.

(** scipy.integrate.trapezoid(y, dx=dx) as an independent sum of panels *)
Definition trapz (dx : T) (l : list T) : T := nsum (map2 (fun x y => dx * (y + x) / nofZ 2) l (tl l)).

(** Arias intensity: c * cumtrapz(a^2), c = pi/(2*9.81) passed in as a number *)
Definition arias (c dt : T) (a : list T) : list T := map (fun x => c * x) (cumtrapz dt (vsq a)).
Definition cav (dt : T) (a : list T) : list T := cumtrapz dt (vabs a).
Definition isv (dt : T) (a : list T) : list T := cumtrapz dt (vsq (velo_trap dt a)).
Definition int_abs (dt : T) (x : list T) : list T := cumsum (map (fun v => nabs v * dt) x).
Definition int_abs_acc (dt : T) (a : list T) : list T := int_abs dt a.
Definition int_abs_vel (dt : T) (a : list T) : list T := int_abs dt (velo_trap dt a).
(** unit kinetic energy: cumsum |ediff1d(0.5 v|v|, to_begin = ke[0])| *)
Definition kin_energy (v : list T) : list T := map (fun x => (n1 / nofZ 2) * x * nabs x) v.
Definition unit_ke (dt : T) (a : list T) : list T :=
  let ke := kin_energy (velo_trap dt a) in
  cumsum (vabs (match ke with [] => [] | k0 :: _ => ediff1d k0 ke end)).

(** np.interp(t, arange(S), fp): linear inside, clamped outside *)
Definition interp_grid (fp : list T) (t : T) : T :=
  match fp with
  | [] => n0
  | f0 :: _ =>
    if t <=? n0 then f0
    else
      let k := Z.to_nat (nfloor t) in
      if (length fp <=? S k)%nat then last fp n0
      else let a := nth k fp n0 in let b := nth (S k) fp n0 in
           (b - a) * (t - nofZ (Z.of_nat k)) + a
  end.

(** standardised CAV (calc_cav_dp); g = 9.81, thr = 0.025, pps = int(1/dt) samples per second,
    nwin = int(time[-1]) windows, each integrating its first [pps] points (see DESIGN C09). *)
Definition window (start len : nat) (l : list T) : list T := firstn len (skipn start l).
Fixpoint cavdp_windows (thr dt : T) (pps nwin start : nat) (acc : T) (ag : list T) : list T :=
  match nwin with
  | O => []
  | S k =>
    let absw := vabs (window start (S pps) ag) in
    let int_acc := trapz dt (firstn pps absw) in
    let pga := amax absw in
    let acc' := if (pga - thr) <? n0 then acc else acc + int_acc in
    acc' :: cavdp_windows thr dt pps k (start + pps) acc' ag
  end.
Definition times (dt : T) (n : nat) : list T := map (fun i => nofZ (Z.of_nat i) * dt) (seq 0 n).
Definition cav_dp (g thr dt : T) (pps nwin : nat) (a : list T) : list T :=
  let ag := map (fun x => x / g) a in
  let ws := cavdp_windows thr dt pps nwin 0 n0 ag in
  map (interp_grid ws) (times dt (length a)).

(** ** durations (C10) *)
Definition between (lo hi tot x : T) : bool := (lo * tot <? x) && (x <? hi * tot).
Definition sig_dur_idx (lo hi : T) (cum : list T) : option (nat * nat) :=
  let idx := where_idx (between lo hi (last0 cum)) cum in
  match idx with [] => None | i :: _ => Some (i, last idx i) end.
(** array variant: running sum of squares *)
Definition sig_dur_vals_idx (lo hi : T) (a : list T) := sig_dur_idx lo hi (cumsum (vsq a)).
Definition idx_time (dt : T) (i : nat) : T := nofZ (Z.of_nat i) * dt.
(** (start_time, end_time) *)
Definition sig_dur_se (dt lo hi : T) (cum : list T) : option (T * T) :=
  match sig_dur_idx lo hi cum with None => None | Some (i, j) => Some (idx_time dt i, idx_time dt j) end.
Definition brac_idx (thr : T) (a : list T) : option (nat * nat) :=
  let idx := where_idx (fun x => thr <? nabs x) a in
  match idx with [] => None | i :: _ => Some (i, last idx i) end.
Definition brac_dur_se (dt thr : T) (a : list T) : option (T * T) :=
  match brac_idx thr a with None => None | Some (i, j) => Some (idx_time dt i, idx_time dt j) end.
Definition brac_dur (dt thr : T) (a : list T) : T :=
  match brac_dur_se dt thr a with None => n0 | Some (s, e) => e - s end.
End Generic.
