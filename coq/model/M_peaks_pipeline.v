(** LITERAL transcription of eqsig/fns/peaks_and_crossings.py (properties C11, C12): [clean_out_non_changing],
    [determine_indices_of_peaks_for_cleaned_array], [get_peak_array_indices] (ptype all / max / min),
    [get_zero_crossings_array_indices] (tol = 0: [zero_crossings_p]; any tol, with the tolerance loop: [zero_crossings_tol_p])
    and [get_switched_peak_array_indices] with [_argmax_abs_w_sign] ([switched_peaks_p]).
    One definition per Python statement / temporary, each preceded by the Python line it transcribes. Generic over [NumOps T]
    (run at Q by model/K_peaks.v, reasoned about at R by proofs/P_peaks_pipeline.v, where it is proved equal to the declarative
    model of model/M_peaks.v). No proofs here.

    Conventions: a float array is a [list T], an integer index array is a [list nat]; where the code does integer arithmetic
    on indices (np.ediff1d of an index array) the values are taken in [Z]. [values[0]] on an empty array raises IndexError in
    the code; here it is totalised by [nth 0 values n0] and every theorem carries the guard [values <> []].
    [values = np.array(values, dtype=float)] is the identity on a list of numbers. *)
From Coq Require Import ZArith List Bool Sorting.Mergesort.
From EQ Require Import lib.Num lib.NpList model.M_peaks.
From EQ Require Export lib.NpPeaks.
Import ListNotations.
Local Open Scope num_scope.

Section Generic.
Context {T : Type} `{NumOps T}.

(** element-wise tests: [a != 0], [a == 0], [a < 0] *)
Definition ne0 (a : T) : bool := negb (a =? n0).
Definition eq0 (a : T) : bool := a =? n0.
Definition lt0 (a : T) : bool := a <? n0.
(** a[a != 0] (boolean-mask indexing) *)
Definition mask_ne0 (l : list T) : list T := filter ne0 l.

(** * def clean_out_non_changing(values): *)
(**     diff_values = np.ediff1d(values, to_begin=values[0]) *)
Definition cl_diff_values (values : list T) : list T := ediff1d (nth 0 values n0) values.
(**     non_zero_indices = np.where(diff_values != 0)[0] *)
Definition cl_non_zero_indices0 (values : list T) : list nat := where_idx ne0 (cl_diff_values values).
(**     non_zero_indices = np.insert(non_zero_indices, 0, 0) *)
Definition cl_non_zero_indices (values : list T) : list nat := np_insert0 0%nat (cl_non_zero_indices0 values).
(**     cleaned_values = np.take(values, non_zero_indices) *)
Definition cl_cleaned_values (values : list T) : list T := take n0 values (cl_non_zero_indices values).
(**     return cleaned_values, non_zero_indices *)
Definition clean_out_non_changing_p (values : list T) : list T * list nat := (cl_cleaned_values values, cl_non_zero_indices values).

(** * def determine_indices_of_peaks_for_cleaned_array(values): *)
(**     diff = np.ediff1d(values, to_begin=0) *)
Definition pk_diff (values : list T) : list T := ediff1d n0 values.
(**     diff[1:] * diff[:-1]        (both slices have length len(values) - 1) *)
Definition pk_prod (values : list T) : list T := vmul (sl_from1 (pk_diff values)) (sl_to_m1 (pk_diff values)).
(**     peak_indices = np.where(diff[1:] * diff[:-1] < 0)[0] *)
Definition pk_indices0 (values : list T) : list nat := where_idx lt0 (pk_prod values).
(**     peak_indices = np.insert(peak_indices, 0, 0)  # Include first and last value *)
Definition pk_indices1 (values : list T) : list nat := np_insert0 0%nat (pk_indices0 values).
(**     peak_indices = np.insert(peak_indices, len(peak_indices), len(values) - 1)
        (len(values) >= 1 whenever the function is reached from get_peak_array_indices, so the truncated subtraction is exact) *)
Definition pk_indices2 (values : list T) : list nat := np_insert_end (pk_indices1 values) (length values - 1)%nat.
(**     return peak_indices *)
Definition peak_indices_cleaned_p (values : list T) : list nat := pk_indices2 values.

(** * def get_peak_array_indices(values, ptype='all'): *)
(**     values = np.array(values, dtype=float) *)
(**     cleaned_values, non_zero_indices = clean_out_non_changing(values) *)
Definition gp_cleaned_values (values : list T) : list T := fst (clean_out_non_changing_p values).
Definition gp_non_zero_indices (values : list T) : list nat := snd (clean_out_non_changing_p values).
(**     peak_cleaned_indices = determine_indices_of_peaks_for_cleaned_array(cleaned_values) *)
Definition gp_peak_cleaned_indices (values : list T) : list nat := peak_indices_cleaned_p (gp_cleaned_values values).
(**     peak_full_indices = np.take(non_zero_indices, peak_cleaned_indices) *)
Definition gp_peak_full_indices (values : list T) : list nat := take 0%nat (gp_non_zero_indices values) (gp_peak_cleaned_indices values).
(**     moves = np.diff(cleaned_values) *)
Definition gp_moves0 (values : list T) : list T := diff (gp_cleaned_values values).
(**     moves = moves[moves != 0] *)
Definition gp_moves (values : list T) : list T := mask_ne0 (gp_moves0 values).
(**     first_move = moves[0] if len(moves) else 0.0 *)
Definition gp_first_move (values : list T) : T := match gp_moves values with m :: _ => m | [] => n0 end.
(**     if ptype == 'min':
            if first_move <= 0: return peak_full_indices[1::2]
            else:               return peak_full_indices[::2]
        elif ptype == 'max':
            if first_move > 0:  return peak_full_indices[1::2]
            else:               return peak_full_indices[::2]
        return peak_full_indices
    ptype is encoded as in [peaks_sel]: 0 = 'all', 1 = 'max', any other number = 'min' *)
Definition get_peak_array_indices_p (ptype : nat) (values : list T) : list nat :=
  let peak_full_indices := gp_peak_full_indices values in
  let first_move := gp_first_move values in
  match ptype with
  | 0%nat => peak_full_indices
  | 1%nat => if n0 <? first_move then odds peak_full_indices else evens peak_full_indices
  | _ => if first_move <=? n0 then odds peak_full_indices else evens peak_full_indices
  end.

(** * def get_zero_crossings_array_indices(values, keep_adj_zeros=False, tol=0.0):      (tol = 0: the [if tol > 0] block is skipped) *)
(**     values = np.array(values, dtype=float) *)
(**     zero_indices = np.where(values == 0)[0] *)
Definition zc_zero_indices0 (values : list T) : list nat := where_idx eq0 values.
(**     if not keep_adj_zeros and len(zero_indices) > 1: *)
(**         diff_is = np.ediff1d(zero_indices, to_begin=10) *)
Definition zc_diff_is (values : list T) : list Z := ediff1dZ 10 (map Z.of_nat (zc_zero_indices0 values)).
(**         no_adj_is = np.where(diff_is > 1)[0] *)
Definition zc_no_adj_is (values : list T) : list nat := where_idx (fun d => (1 <? d)%Z) (zc_diff_is values).
(**         zero_indices = np.take(zero_indices, no_adj_is) *)
Definition zc_zero_indices (keep_adj_zeros : bool) (values : list T) : list nat :=
  if negb keep_adj_zeros && (1 <? length (zc_zero_indices0 values))%nat
  then take 0%nat (zc_zero_indices0 values) (zc_no_adj_is values)
  else zc_zero_indices0 values.
(**     sign_switch = values[1:] * values[:-1] *)
Definition zc_sign_switch0 (values : list T) : list T := vmul (sl_from1 values) (sl_to_m1 values).
(**     sign_switch = np.insert(sign_switch, 0, values[0]) *)
Definition zc_sign_switch (values : list T) : list T := np_insert0 (nth 0 values n0) (zc_sign_switch0 values).
(**     through_zero_indices = np.where(sign_switch < 0)[0] *)
Definition zc_through_zero_indices (values : list T) : list nat := where_idx lt0 (zc_sign_switch values).
(**     all_zc_indices = np.concatenate((zero_indices, through_zero_indices)) *)
Definition zc_all0 (keep_adj_zeros : bool) (values : list T) : list nat :=
  np_concatenate (zc_zero_indices keep_adj_zeros values) (zc_through_zero_indices values).
(**     all_zc_indices.sort() *)
Definition zc_all (keep_adj_zeros : bool) (values : list T) : list nat := np_sort (zc_all0 keep_adj_zeros values).
(**     if len(all_zc_indices) == 0: return np.array([0])
        if all_zc_indices[0] != 0: all_zc_indices = np.insert(all_zc_indices, 0, 0)
        return all_zc_indices *)
Definition zero_crossings_p (keep_adj_zeros : bool) (values : list T) : list nat :=
  let all_zc_indices := zc_all keep_adj_zeros values in
  match all_zc_indices with
  | [] => [0%nat]
  | i0 :: _ => if negb (Nat.eqb i0 0) then np_insert0 0%nat all_zc_indices else all_zc_indices
  end.

(** the [if tol > 0:] block of the same function
        rem_i = []
        for k, ind in enumerate(all_zc_indices[:-1]):
            if k in rem_i:
                continue
            ind1 = all_zc_indices[k+1]
            if max(abs(values[ind:ind1])) < tol:
                rem_i += [k, k+1]
    the loop state is [rem_i]; [k] counts the iterations, [items] is what is left of all_zc_indices[:-1] *)
Fixpoint zc_tol_loop (tol : T) (values : list T) (all_zc_indices : list nat) (k : nat) (items rem_i : list nat) : list nat :=
  match items with
  | [] => rem_i
  | ind :: rest =>
    if mem_nat k rem_i then zc_tol_loop tol values all_zc_indices (S k) rest rem_i
    else
      let ind1 := nth (S k) all_zc_indices 0%nat in
      if amax (vabs (sl_range ind ind1 values)) <? tol
      then zc_tol_loop tol values all_zc_indices (S k) rest (rem_i ++ [k; S k])
      else zc_tol_loop tol values all_zc_indices (S k) rest rem_i
  end.
Definition zc_rem_i (tol : T) (values : list T) (all_zc_indices : list nat) : list nat :=
  zc_tol_loop tol values all_zc_indices 0 (sl_to_m1 all_zc_indices) [].
(**         all_zc_indices = np.delete(all_zc_indices, rem_i)
        return all_zc_indices
    (the early [return np.array([0])] for an empty index array skips the block; on the one-element array [0] the loop body
    never runs and np.delete removes nothing, so running the block there gives the same [0]);
    [if tol < 0: raise] is the guard 0 <= tol *)
Definition zero_crossings_tol_p (keep_adj_zeros : bool) (tol : T) (values : list T) : list nat :=
  let all_zc_indices := zero_crossings_p keep_adj_zeros values in
  if n0 <? tol then np_delete all_zc_indices (zc_rem_i tol values all_zc_indices) else all_zc_indices.

(** * get_switched_peak_array_indices(values, tol=0.0) and its helper; np.sign is [nsign] of model/M_peaks.v, np.argmax is [argmax]
    of lib/NpList.v (first index of a maximal element); the Python lists peak_values_set / peak_indices_set / new_peak_indices
    are lists with [.append(x)] = [l ++ [x]] *)
(** def _argmax_abs_w_sign(peak_values_set, last): *)
(**     abs_vals = np.abs(peak_values_set) *)
Definition aw_abs_vals (peak_values_set : list T) : list T := vabs peak_values_set.
(**     same_sign = np.array(peak_values_set) * last > 0 *)
Definition aw_same_sign (peak_values_set : list T) (last : T) : list bool := map (fun v => n0 <? v * last) peak_values_set.
(**     if same_sign.any(): abs_vals = np.where(same_sign, abs_vals, -1.0) *)
Definition aw_abs_vals' (peak_values_set : list T) (last : T) : list T :=
  if existsb (fun b : bool => b) (aw_same_sign peak_values_set last)
  then map2 (fun (b : bool) a => if b then a else - n1) (aw_same_sign peak_values_set last) (aw_abs_vals peak_values_set)
  else aw_abs_vals peak_values_set.
(**     return np.argmax(abs_vals) *)
Definition argmax_abs_w_sign_p (peak_values_set : list T) (last : T) : nat := argmax (aw_abs_vals' peak_values_set last).

(** the for loop of get_switched_peak_array_indices; state = (last, new_peak_indices, peak_values_set, peak_indices_set) *)
Fixpoint sp_for (tol : T) (peak_values : list T) (range : list nat) (last : T) (new_peak_indices : list nat)
                (peak_values_set : list T) (peak_indices_set : list nat) : T * list nat * list T * list nat :=
  match range with
  | [] => (last, new_peak_indices, peak_values_set, peak_indices_set)
  | i :: rest =>
    (* sgn = np.sign(last) *)
    let sgn := nsign last in
    (* adj_val = peak_values[i] + tol * sgn *)
    let adj_val := nth i peak_values n0 + tol * sgn in
    (* if adj_val * last <= 0: *)
    if adj_val * last <=? n0 then
      (* i_max_set = _argmax_abs_w_sign(peak_values_set, last) *)
      let i_max_set := argmax_abs_w_sign_p peak_values_set last in
      (* new_peak_indices.append(peak_indices_set[i_max_set]) *)
      let new_peak_indices := new_peak_indices ++ [nth i_max_set peak_indices_set 0%nat] in
      (* last = peak_values[i]; peak_values_set = []; peak_indices_set = [] *)
      (* peak_values_set.append(peak_values[i]); peak_indices_set.append(i) *)
      sp_for tol peak_values rest (nth i peak_values n0) new_peak_indices ([] ++ [nth i peak_values n0]) ([] ++ [i])
    else
      sp_for tol peak_values rest last new_peak_indices (peak_values_set ++ [nth i peak_values n0]) (peak_indices_set ++ [i])
  end.
Definition switched_peaks_p (tol : T) (values : list T) : list nat :=
  (* peak_indices = get_peak_array_indices(values) *)
  let peak_indices := get_peak_array_indices_p 0 values in
  (* peak_values = np.take(values, peak_indices) *)
  let peak_values := take n0 values peak_indices in
  (* last = peak_values[0]; new_peak_indices = []; peak_values_set = [peak_values[0]]; peak_indices_set = [0] *)
  let '(last, new_peak_indices, peak_values_set, peak_indices_set) :=
    sp_for tol peak_values (seq 1 (length peak_values - 1)) (nth 0 peak_values n0) [] [nth 0 peak_values n0] [0%nat] in
  (* if len(peak_values_set): i_max_set = _argmax_abs_w_sign(peak_values_set, last); new_peak_indices.append(peak_indices_set[i_max_set])
     (the two appends to peak_values_set / peak_indices_set that follow in the code are dead stores) *)
  let new_peak_indices :=
    match peak_values_set with
    | [] => new_peak_indices
    | _ => new_peak_indices ++ [nth (argmax_abs_w_sign_p peak_values_set last) peak_indices_set 0%nat]
    end in
  (* switched_peak_indices = np.take(peak_indices, new_peak_indices) *)
  take 0%nat peak_indices new_peak_indices.
End Generic.
