(** Model of the caching discipline of eqsig/single.py (property C04), written by hand from the source at /repo HEAD.

    A Signal/AccSignal object is a state machine.  Its *sources* are the values (with the constant dt), the
    smoothing frequencies and the response periods.  Every derived quantity that the code memoises has a stored
    value and a validity flag ([_cached_fa], [_cached_smooth_fa], [_cached_response_spectra],
    [_cached_disp_and_velo], the keys of [_cached_params]); [_npts] is stored as well.

    The numeric functions ([f_fa] = dt x FFT, [f_sm] = Konno-Ohmachi smoothing of the *stored* Fourier spectrum,
    [f_resp] = pseudo response spectra, [f_dv] = velocity/displacement, [f_pga] = max |values|,
    [f_pgv]/[f_pgd] = max |.| of the *stored* velocity/displacement), the value transformer of every mutator
    ([gmut]) and the new setting computed by every setter ([gsf], [grt]) are fields of an arbitrary signature
    [sig]: nothing is assumed about what they compute (their meaning is C03, C06, C07, C08, C17).

    One AccSignal machine is modelled.  A plain Signal has only the [fa]/[sm] flags and a subset of the operations;
    on that subset the AccSignal machine never sets another flag, so it is also the Signal machine.

    Outside the alphabet (not operations of the property): the parameterised generators [gen_fa_spectrum(p2_plus, n)],
    [gen_smooth_fa_spectrum(band=..)], [gen_response_spectrum(xi=.., min_dt_ratio=..)],
    [generate_displacement_and_velocity_series(trap=False)] and calls that raise (wrong lengths, unsupported
    timezone arguments).  No proofs in this file. *)
From Coq Require Import List Bool.
Import ListNotations.

(** the memoised derived quantities *)
Inductive dq := Fa | Sm | Resp | DV | Pga | Pgv | Pgd.

(** public read-only properties *)
Inductive reader :=
  | R_npts | R_time | R_values
  | R_smooth_fa_freqs | R_smooth_fa_frequencies | R_smooth_freq_range | R_smooth_freq_points | R_response_times
  | R_fa_spectrum | R_fa_spectrum_abs | R_fa_freqs | R_fa_frequencies
  | R_smooth_fa_spectrum
  | R_s_a | R_s_v | R_s_d
  | R_velocity | R_displacement
  | R_pga | R_pgv | R_pgd.

(** public methods without arguments (default arguments only) *)
Inductive generator :=
  | G_generate_fa_spectrum | G_gen_fa_spectrum
  | G_generate_smooth_fa_spectrum | G_gen_smooth_fa_spectrum
  | G_generate_response_spectrum | G_gen_response_spectrum
  | G_generate_displacement_and_velocity_series
  | G_response_series
  | G_clear_cache | G_reset_all_motion_stats.

(** value mutators *)
Inductive mutator :=
  | M_reset_values | M_add_constant | M_add_series | M_add_signal | M_butter_pass | M_remove_average | M_remove_poly
  | M_running_average
  | M_correct_me
  | M_remove_rolling_average_velocity | M_remove_rolling_average_values
  | M_rebase_displacement
  | M_set_zero_residual_velocity | M_set_zero_residual_velocity_tz
  | M_set_zero_residual_displacement
  | M_set_zero_residual_displacement_and_velocity.

(** changes of the smoothing frequencies *)
Inductive sf_setter :=
  | S_smooth_fa_freqs | S_smooth_fa_frequencies | S_smooth_freq_range | S_smooth_freq_points
  | S_set_smooth_fa_frequecies_by_range
  | S_gen_smooth_fa_spectrum.          (* gen_smooth_fa_spectrum(smooth_fa_freqs=...) *)

(** changes of the response periods *)
Inductive rt_setter :=
  | T_response_times                   (* obj.response_times = ... *)
  | T_gen_response_spectrum | T_generate_response_spectrum   (* (response_times=...) *)
  | T_response_series.                 (* response_series(response_times=...) *)

(** which internally *cached* reads a mutator performs before it writes (single.py):
    correct_me: self.displacement; remove_rolling_average("velocity"): self.velocity; rebase_displacement,
    set_zero_residual_displacement(_and_velocity): self.displacement (and self.velocity);
    set_zero_residual_velocity: self.velocity and, without a timezone, self.pga *)
Definition uses_dv (m : mutator) : bool :=
  match m with
  | M_correct_me | M_remove_rolling_average_velocity | M_rebase_displacement
  | M_set_zero_residual_velocity | M_set_zero_residual_velocity_tz
  | M_set_zero_residual_displacement | M_set_zero_residual_displacement_and_velocity => true
  | _ => false
  end.
Definition uses_pga (m : mutator) : bool :=
  match m with M_set_zero_residual_velocity => true | _ => false end.
(** mutators that go through reset_values (which re-reads the length); the others write self._values in place
    (remove_rolling_average of the values, rebase_displacement) or assign a new array of the same length directly
    (running_average, remove_rolling_average of the velocity) and leave _npts alone *)
Definition via_reset (m : mutator) : bool :=
  match m with
  | M_running_average | M_remove_rolling_average_velocity | M_remove_rolling_average_values | M_rebase_displacement => false
  | _ => true
  end.

(** everything that is left uninterpreted, as one signature *)
Record sig := Sig {
  tV : Type;                                  (* values (with the constant dt) *)
  tSF : Type;                                 (* smoothing frequencies *)
  tRT : Type;                                 (* response periods *)
  tX : Type;                                  (* results *)
  tA : Type;                                  (* arguments of mutators / setters *)
  len : tV -> nat;
  f_fa : tV -> tX;
  f_sm : tX -> tSF -> tX;
  f_resp : tV -> tRT -> tX;
  f_dv : tV -> tX;
  f_pga : tV -> tX;
  f_pgv : tX -> tX;
  f_pgd : tX -> tX;
  f_rs : tV -> tRT -> tX;                     (* response_series: computed, never stored *)
  (** new values of a mutator: argument, current values, stored npts, the internally read velocity/displacement
      and pga when the mutator reads them *)
  gmut : mutator -> tA -> tV -> nat -> option tX -> option tX -> tV;
  gsf : sf_setter -> tA -> tSF -> tSF;
  grt : rt_setter -> tA -> tRT -> tRT;
  x0 : tX                                     (* whatever __init__ leaves in the storage slots *)
}.
Arguments len {_}. Arguments f_fa {_}. Arguments f_sm {_}. Arguments f_resp {_}. Arguments f_dv {_}.
Arguments f_pga {_}. Arguments f_pgv {_}. Arguments f_pgd {_}. Arguments f_rs {_}. Arguments gmut {_}.
Arguments gsf {_}. Arguments grt {_}. Arguments x0 {_}.

Section Cache.
Context {S : sig}.
Local Notation V := (tV S).
Local Notation SF := (tSF S).
Local Notation RT := (tRT S).
Local Notation X := (tX S).
Local Notation A := (tA S).

Inductive op :=
  | Read (r : reader)
  | Gen (g : generator)
  | Mut (m : mutator) (a : A)
  | SetSF (s : sf_setter) (a : A)
  | SetRT (t : rt_setter) (a : A).

(** what an operation returns to the caller (None for methods returning nothing) *)
Inductive outv := O_n (n : nat) | O_v (v : V) | O_sf (s : SF) | O_rt (r : RT) | O_x (x : X).

Record st := mk {
  vals : V; sfq : SF; rtm : RT; s_npts : nat;
  c_fa : bool; s_fa : X;
  c_sm : bool; s_sm : X;
  c_resp : bool; s_resp : X;
  c_dv : bool; s_dv : X;
  p_pga : option X; p_pgv : option X; p_pgd : option X }.

(** a freshly constructed object *)
Definition init (v : V) (sf : SF) (rt : RT) : st :=
  mk v sf rt (len v) false x0 false x0 false x0 false x0 None None None.

(** field updates *)
Definition put_fa (b : bool) (x : X) (s : st) : st :=
  mk (vals s) (sfq s) (rtm s) (s_npts s) b x (c_sm s) (s_sm s) (c_resp s) (s_resp s) (c_dv s) (s_dv s) (p_pga s) (p_pgv s) (p_pgd s).
Definition put_sm (b : bool) (x : X) (s : st) : st :=
  mk (vals s) (sfq s) (rtm s) (s_npts s) (c_fa s) (s_fa s) b x (c_resp s) (s_resp s) (c_dv s) (s_dv s) (p_pga s) (p_pgv s) (p_pgd s).
Definition put_resp (b : bool) (x : X) (s : st) : st :=
  mk (vals s) (sfq s) (rtm s) (s_npts s) (c_fa s) (s_fa s) (c_sm s) (s_sm s) b x (c_dv s) (s_dv s) (p_pga s) (p_pgv s) (p_pgd s).
Definition put_dv (b : bool) (x : X) (s : st) : st :=
  mk (vals s) (sfq s) (rtm s) (s_npts s) (c_fa s) (s_fa s) (c_sm s) (s_sm s) (c_resp s) (s_resp s) b x (p_pga s) (p_pgv s) (p_pgd s).
Definition put_params (a v d : option X) (s : st) : st :=
  mk (vals s) (sfq s) (rtm s) (s_npts s) (c_fa s) (s_fa s) (c_sm s) (s_sm s) (c_resp s) (s_resp s) (c_dv s) (s_dv s) a v d.
Definition put_vals (v : V) (s : st) : st :=
  mk v (sfq s) (rtm s) (s_npts s) (c_fa s) (s_fa s) (c_sm s) (s_sm s) (c_resp s) (s_resp s) (c_dv s) (s_dv s) (p_pga s) (p_pgv s) (p_pgd s).
Definition put_npts (n : nat) (s : st) : st :=
  mk (vals s) (sfq s) (rtm s) n (c_fa s) (s_fa s) (c_sm s) (s_sm s) (c_resp s) (s_resp s) (c_dv s) (s_dv s) (p_pga s) (p_pgv s) (p_pgd s).
Definition put_sf (f : SF) (s : st) : st :=
  mk (vals s) f (rtm s) (s_npts s) (c_fa s) (s_fa s) (c_sm s) (s_sm s) (c_resp s) (s_resp s) (c_dv s) (s_dv s) (p_pga s) (p_pgv s) (p_pgd s).
Definition put_rt (r : RT) (s : st) : st :=
  mk (vals s) (sfq s) r (s_npts s) (c_fa s) (s_fa s) (c_sm s) (s_sm s) (c_resp s) (s_resp s) (c_dv s) (s_dv s) (p_pga s) (p_pgv s) (p_pgd s).

(** gen_fa_spectrum(): recompute from self.values, set _cached_fa *)
Definition force_fa (s : st) : st := put_fa true (f_fa (vals s)) s.
(** the fa_spectrum / fa_spectrum_abs / fa_freqs / fa_frequencies properties *)
Definition ensure_fa (s : st) : st := if c_fa s then s else force_fa s.
(** gen_smooth_fa_spectrum(): reads the *properties* fa_freqs and fa_spectrum (so the Fourier spectrum is generated
    if needed), smooths the stored spectrum at the current smoothing frequencies, sets _cached_smooth_fa *)
Definition force_sm (s : st) : st := let s1 := ensure_fa s in put_sm true (f_sm (s_fa s1) (sfq s1)) s1.
Definition ensure_sm (s : st) : st := if c_sm s then s else force_sm s.
(** gen_response_spectrum(): from self.values and self.response_times *)
Definition force_resp (s : st) : st := put_resp true (f_resp (vals s) (rtm s)) s.
Definition ensure_resp (s : st) : st := if c_resp s then s else force_resp s.
(** generate_displacement_and_velocity_series() *)
Definition force_dv (s : st) : st := put_dv true (f_dv (vals s)) s.
Definition ensure_dv (s : st) : st := if c_dv s then s else force_dv s.
(** pga / pgv / pgd: the memo dict; pgv and pgd go through the velocity / displacement properties *)
Definition ensure_pga (s : st) : st :=
  match p_pga s with Some _ => s | None => put_params (Some (f_pga (vals s))) (p_pgv s) (p_pgd s) s end.
Definition ensure_pgv (s : st) : st :=
  match p_pgv s with Some _ => s | None => let s1 := ensure_dv s in put_params (p_pga s1) (Some (f_pgv (s_dv s1))) (p_pgd s1) s1 end.
Definition ensure_pgd (s : st) : st :=
  match p_pgd s with Some _ => s | None => let s1 := ensure_dv s in put_params (p_pga s1) (p_pgv s1) (Some (f_pgd (s_dv s1))) s1 end.

(** AccSignal.clear_cache (+ reset_all_motion_stats) *)
Definition clear_all (s : st) : st :=
  put_params None None None (put_dv false (s_dv s) (put_resp false (s_resp s) (put_fa false (s_fa s) (put_sm false (s_sm s) s)))).

Definition ensure_for (r : reader) (s : st) : st :=
  match r with
  | R_fa_spectrum | R_fa_spectrum_abs | R_fa_freqs | R_fa_frequencies => ensure_fa s
  | R_smooth_fa_spectrum => ensure_sm s
  | R_s_a | R_s_v | R_s_d => ensure_resp s
  | R_velocity | R_displacement => ensure_dv s
  | R_pga => ensure_pga s
  | R_pgv => ensure_pgv s
  | R_pgd => ensure_pgd s
  | _ => s
  end.
Definition oget (o : option X) : X := match o with Some x => x | None => x0 end.
(** the raw stored/source datum a reader returns (the different views - abs, frequencies, s_a/s_v/s_d,
    velocity/displacement - are projections of it) *)
Definition fetch (r : reader) (s : st) : outv :=
  match r with
  | R_npts | R_time => O_n (s_npts s)
  | R_values => O_v (vals s)
  | R_smooth_fa_freqs | R_smooth_fa_frequencies | R_smooth_freq_range | R_smooth_freq_points => O_sf (sfq s)
  | R_response_times => O_rt (rtm s)
  | R_fa_spectrum | R_fa_spectrum_abs | R_fa_freqs | R_fa_frequencies => O_x (s_fa s)
  | R_smooth_fa_spectrum => O_x (s_sm s)
  | R_s_a | R_s_v | R_s_d => O_x (s_resp s)
  | R_velocity | R_displacement => O_x (s_dv s)
  | R_pga => O_x (oget (p_pga s))
  | R_pgv => O_x (oget (p_pgv s))
  | R_pgd => O_x (oget (p_pgd s))
  end.

Definition run_gen (g : generator) (s : st) : st * option outv :=
  match g with
  | G_generate_fa_spectrum | G_gen_fa_spectrum => (force_fa s, None)
  | G_generate_smooth_fa_spectrum | G_gen_smooth_fa_spectrum => (force_sm s, None)
  | G_generate_response_spectrum | G_gen_response_spectrum => (force_resp s, None)
  | G_generate_displacement_and_velocity_series => (force_dv s, None)
  | G_response_series => (s, Some (O_x (f_rs (vals s) (rtm s))))
  | G_clear_cache => (clear_all s, None)
  | G_reset_all_motion_stats => (put_params None None None s, None)
  end.

(** a mutator: internal cached reads first, then the write of the values (through reset_values: also _npts),
    then clear_cache *)
Definition run_mut (m : mutator) (a : A) (s : st) : st :=
  let s1 := if uses_dv m then ensure_dv s else s in
  let s2 := if uses_pga m then ensure_pga s1 else s1 in
  let dv := if uses_dv m then Some (s_dv s2) else None in
  let pg := if uses_pga m then Some (oget (p_pga s2)) else None in
  let v' := gmut m a (vals s2) (s_npts s2) dv pg in
  let s3 := put_vals v' s2 in
  let s4 := if via_reset m then put_npts (len v') s3 else s3 in
  clear_all s4.

Definition run_sf (t : sf_setter) (a : A) (s : st) : st :=
  let s1 := put_sf (gsf t a (sfq s)) s in
  match t with
  | S_gen_smooth_fa_spectrum => force_sm s1            (* assigns _smooth_fa_freqs, then regenerates *)
  | _ => put_sm false (s_sm s1) s1                      (* the setters reset _cached_smooth_fa *)
  end.

Definition run_rt (t : rt_setter) (a : A) (s : st) : st * option outv :=
  let s1 := put_resp false (s_resp s) (put_rt (grt t a (rtm s)) s) in     (* the response_times setter *)
  match t with
  | T_response_times => (s1, None)
  | T_gen_response_spectrum | T_generate_response_spectrum => (force_resp s1, None)
  | T_response_series => (s1, Some (O_x (f_rs (vals s1) (rtm s1))))
  end.

Definition step (o : op) (s : st) : st * option outv :=
  match o with
  | Read r => let s' := ensure_for r s in (s', Some (fetch r s'))
  | Gen g => run_gen g s
  | Mut m a => (run_mut m a s, None)
  | SetSF t a => (run_sf t a s, None)
  | SetRT t a => run_rt t a s
  end.
Definition post (o : op) (s : st) : st := fst (step o s).
Definition out (o : op) (s : st) : option outv := snd (step o s).

(** a history: final state and everything returned on the way *)
Fixpoint run (h : list op) (s : st) : st := match h with [] => s | o :: r => run r (post o s) end.
Fixpoint outs (h : list op) (s : st) : list (option outv) := match h with [] => [] | o :: r => out o s :: outs r (post o s) end.

(** the observable cache state: which validity flags / memo keys are set *)
Definition b2n (b : bool) (w : nat) : nat := if b then w else 0.
Definition o2b (o : option X) : bool := match o with Some _ => true | None => false end.
Definition mask (s : st) : nat :=
  b2n (c_fa s) 1 + b2n (c_sm s) 2 + b2n (c_resp s) 4 + b2n (c_dv s) 8 +
  b2n (o2b (p_pga s)) 16 + b2n (o2b (p_pgv s)) 32 + b2n (o2b (p_pgd s)) 64.
(** flag states after every operation of a history *)
Fixpoint masks (h : list op) (s : st) : list nat := match h with [] => [] | o :: r => mask (post o s) :: masks r (post o s) end.

(** ---- specification vocabulary (used by the statements in props/Prop_C04.v) ---- *)
(** the sources: values (and dt), smoothing frequencies, response periods *)
Definition src (s : st) : V * SF * RT := (vals s, sfq s, rtm s).
(** a freshly constructed object with the same values, dt and settings *)
Definition fresh_of (s : st) : st := init (vals s) (sfq s) (rtm s).
(** states reached from a freshly constructed object by a finite history of public operations *)
Definition reachable (s : st) : Prop := exists v sf rt h, s = run h (init v sf rt).
(** "nothing valid is stale": every slot whose flag / memo key is set holds what the numeric function gives on the
    current sources, and the stored length is the length of the current values *)
Definition Inv (s : st) : Prop :=
  s_npts s = len (vals s) /\
  (c_fa s = true -> s_fa s = f_fa (vals s)) /\
  (c_sm s = true -> s_sm s = f_sm (f_fa (vals s)) (sfq s)) /\
  (c_resp s = true -> s_resp s = f_resp (vals s) (rtm s)) /\
  (c_dv s = true -> s_dv s = f_dv (vals s)) /\
  (forall x, p_pga s = Some x -> x = f_pga (vals s)) /\
  (forall x, p_pgv s = Some x -> x = f_pgv (f_dv (vals s))) /\
  (forall x, p_pgd s = Some x -> x = f_pgd (f_dv (vals s))).
(** what each public read-only property is as a function of the sources alone *)
Definition spec (r : reader) (v : V) (sf : SF) (rt : RT) : outv :=
  match r with
  | R_npts | R_time => O_n (len v)
  | R_values => O_v v
  | R_smooth_fa_freqs | R_smooth_fa_frequencies | R_smooth_freq_range | R_smooth_freq_points => O_sf sf
  | R_response_times => O_rt rt
  | R_fa_spectrum | R_fa_spectrum_abs | R_fa_freqs | R_fa_frequencies => O_x (f_fa v)
  | R_smooth_fa_spectrum => O_x (f_sm (f_fa v) sf)
  | R_s_a | R_s_v | R_s_d => O_x (f_resp v rt)
  | R_velocity | R_displacement => O_x (f_dv v)
  | R_pga => O_x (f_pga v)
  | R_pgv => O_x (f_pgv (f_dv v))
  | R_pgd => O_x (f_pgd (f_dv v))
  end.
(** structure of the flag states that can occur *)
Definition FlagInv (s : st) : Prop :=
  (c_sm s = true -> c_fa s = true) /\ (o2b (p_pgv s) = true -> c_dv s = true) /\ (o2b (p_pgd s) = true -> c_dv s = true).

End Cache.
(** contract on the uninterpreted transformers: the mutators that write self._values in place (or assign an array
    built from the velocity series) keep the number of samples, so the stored _npts stays right *)
Definition inplace_keeps_length (S : sig) : Prop :=
  forall m a v n dv pg, via_reset m = false -> len (gmut (s:=S) m a v n dv pg) = len v.
Arguments op : clear implicits.
Arguments outv : clear implicits.
Arguments st : clear implicits.
