(** Correspondence checker for C15 (Stockwell transform), evaluated at Q by vm_compute.
    The cells of the transform involve exp / cos / sin and are tied by per-cell [interval] goals on the R model
    (harness/props/c15.py through harness/ivl_c06.py), not here.  What Q decides exactly:
      - the shape of the result (n/2 rows of 2(n/2) cells),
      - the row sums of the implementation's own output against the DFT bins whose twiddles are 0/+-1 (marginal clause;
        the other bins are interval goals),
      - itransform on arbitrary complex matrices at the samples whose twiddles are 0/+-1 (others: interval goals),
      - the inverse clause itransform(transform(x)) = x - mean - Nyquist component (pure rational arithmetic, any n),
      - linearity and the agreement of the two implementations, cell by cell, on implementation outputs,
      - the dominant-frequency trace against the argmax of re^2+im^2 of the implementation's own matrix and the stated
        frequency axis k/(N dt),
      - (test, not a theorem) the on-grid-sinusoid clause on the implementation's trace. *)
From Coq Require Import ZArith QArith Qabs List Bool.
From EQ Require Import lib.Num lib.NpList lib.Chk lib.Dft model.M_fourier model.M_stockwell.
Import ListNotations.

Inductive case :=
(** len(acc), number of rows returned, length of every row *)
| CShape (npts nrows : Z) (rowlens : list Z)
(** record and the implementation's transform of it: row sums (exact, in Coq) against conj X[k] *)
| CMarg (x : list Q) (re im : list (list Q)) (rtol : Q)
(** itransform of an arbitrary complex matrix *)
| CInv (re im : list (list Q)) (out : list Q) (rtol : Q)
(** length of itransform's result for a matrix with [rows] rows (every number of rows up to 512 is swept) *)
| CInvLen (rows outlen : Z)
(** itransform(transform(x)) *)
| CRound (x : list Q) (out : list Q) (rtol : Q)
(** transforms of x, y and a x + b y *)
| CLinear (a b : Q) (xre xim yre yim zre zim : list (list Q)) (tol : Q)
(** two matrices the property says are equal (transform vs transform_w_scipy_fft; cached swtf vs transform) *)
| CAgree (re1 im1 re2 im2 : list (list Q)) (tol : Q)
(** get_max_stockwell_freq / get_max_tifq_vals_freq on the implementation's own matrix *)
| CMaxF (re im : list (list Q)) (dt : Q) (out : list Q) (ftol : Q)
(** test: trace of an on-grid sinusoid (bin k0 of N): length of the trace and its middle half, samples N/4 .. 3N/4 - 1 *)
| CDom (N k0 : Z) (dt : Q) (len : Z) (mid : list Q) (ftol : Q).

Definition qsumabs (l : list Q) : Q := fold_left (fun s v => Qred (s + Qabs v)) l 0%Q.
Definition qsum (l : list Q) : Q := fold_left (fun s v => Qred (s + v)) l 0%Q.
Definition msumabs (m : list (list Q)) : Q := fold_left (fun s r => Qred (s + qsumabs r)) m 0%Q.
Fixpoint altsum (sgn : Q) (l : list Q) : Q :=
  match l with [] => 0%Q | v :: r => Qred (sgn * v + altsum (- sgn) r) end.

(** row sums of the implementation's matrix against the representable bins, rows k = n2, n2-1, ..., 1 *)
Fixpoint chk_marg (N : Z) (x : list Q) (tol : Q) (ks : list Z) (re im : list (list Q)) : bool :=
  match ks, re, im with
  | k :: ks', r :: re', i :: im' =>
    (if tw_ok N k
     then qclose tol (dft_re Qtwc N x k) (qsum r) && qclose tol (nopp (dft_im Qtws N x k)) (qsum i)
     else true) && chk_marg N x tol ks' re' im'
  | [], [], [] => true
  | _, _, _ => false
  end.

Fixpoint chk_samples (N : Z) (hre him : list Q) (tol : Q) (n : Z) (out : list Q) : bool :=
  match out with
  | v :: out' =>
    (if tw_ok N n then qclose tol (idft_re Qtwc Qtws N hre him n) v else true) && chk_samples N hre him tol (n + 1)%Z out'
  | [] => true
  end.

Fixpoint chk_round (x : list Q) (mean nyq tol sgn : Q) (out : list Q) : bool :=
  match x, out with
  | v :: x', r :: out' => qclose tol (v - mean - sgn * nyq) r && chk_round x' mean nyq tol (- sgn) out'
  | [], [] => true
  | _, _ => false
  end.

Definition lin_mat (a b : Q) (m1 m2 : list (list Q)) : list (list Q) :=
  map2 (map2 (fun u v => Qred (a * u + b * v))) m1 m2.
Definition same_shape (m1 m2 : list (list Q)) : bool :=
  eq_nat_list (map (@length Q) m1) (map (@length Q) m2).
Definition rect (m : list (list Q)) (rows cols : nat) : bool :=
  Nat.eqb (length m) rows && forallb (fun r => Nat.eqb (length r) cols) m.


Definition check_case (c : case) : bool :=
  match c with
  | CShape npts nrows rowlens =>
    (nrows =? npts / 2)%Z && (Z.of_nat (length rowlens) =? nrows)%Z && forallb (fun l => (l =? 2 * (npts / 2))%Z) rowlens
  | CMarg x re im rtol =>
    let n2 := half_len x in
    rect re n2 (2 * n2) && rect im n2 (2 * n2) &&
    chk_marg (st_N n2) x (rtol * qsumabs x) (st_ks n2) re im
  | CInv re im out rtol =>
    let sre := row_sums re in let sim := row_sums im in
    let N := (2 * Z.of_nat (length sre))%Z in
    Nat.eqb (length im) (length re) && Nat.eqb (length out) (Z.to_nat N) &&
    chk_samples N (ist_spec_re sre) (ist_spec_im sim) (rtol * Qred (msumabs re + msumabs im)) 0 out
  | CInvLen rows outlen => (outlen =? 2 * rows)%Z
  | CRound x out rtol =>
    let n2 := half_len x in let N := st_N n2 in
    let px := firstn (2 * n2) x in
    Nat.eqb (length out) (2 * n2) &&
    chk_round px (Qred (qsum px / inject_Z N)) (Qred (altsum 1 px / inject_Z N)) (rtol * qsumabs px) 1 out
  | CLinear a b xre xim yre yim zre zim tol =>
    same_shape xre zre && same_shape yre zre && same_shape xim zim && same_shape yim zim &&
    close_mat tol (lin_mat a b xre yre) zre && close_mat tol (lin_mat a b xim yim) zim
  | CAgree re1 im1 re2 im2 tol => close_mat tol re1 re2 && close_mat tol im1 im2
  | CMaxF re im dt out ftol =>
    let m := max_freq re im dt in
    negb (Nat.eqb (length re) 0) && same_shape re im && close_list (ftol * qabsmax m) m out
  | CDom N k0 dt len mid ftol =>
    let f := Qred (inject_Z k0 / (inject_Z N * dt)) in
    (len =? N)%Z && (Z.of_nat (length mid) =? 3 * N / 4 - N / 4)%Z && forallb (fun v => qclose (ftol * Qabs f) f v) mid
  end.

(** what the model computes for a case (replay files) *)
Definition model_out (c : case) : list (list Q) :=
  match c with
  | CShape npts nrows rowlens => [[inject_Z (npts / 2); inject_Z (2 * (npts / 2))]]
  | CMarg x re im rtol =>
    let n2 := half_len x in
    [map (fun k => if tw_ok (st_N n2) k then dft_re Qtwc (st_N n2) x k else 0%Q) (st_ks n2);
     map (fun k => if tw_ok (st_N n2) k then nopp (dft_im Qtws (st_N n2) x k) else 0%Q) (st_ks n2);
     map qsum re; map qsum im]
  | CInv re im out rtol =>
    let sre := row_sums re in let sim := row_sums im in
    let N := (2 * Z.of_nat (length sre))%Z in
    [map (fun n => if tw_ok N n then idft_re Qtwc Qtws N (ist_spec_re sre) (ist_spec_im sim) n else 0%Q) (zrange (Z.to_nat N))]
  | CRound x out rtol =>
    let n2 := half_len x in let N := st_N n2 in let px := firstn (2 * n2) x in
    let mean := Qred (qsum px / inject_Z N) in let nyq := Qred (altsum 1 px / inject_Z N) in
    [[mean; nyq]]
  | CMaxF re im dt out ftol => [max_freq re im dt]
  | CDom N k0 dt len mid ftol => [[Qred (inject_Z k0 / (inject_Z N * dt))]]
  | CInvLen rows outlen => [[inject_Z (2 * rows)]]
  | _ => []
  end.
