(** Correspondence checkers for C11, C12, C13 (peaks and crossings). Series are shipped as integer lists scaled by
    a dyadic factor (exact domain) or as rationals. *)
From Coq Require Import ZArith QArith Qabs List Bool.
From EQ Require Import lib.Num lib.NpList lib.Chk model.M_peaks.
Import ListNotations.

Definition zs (l : list Z) : list Q := map inject_Z l.

(** C11: (ptype, series, implementation indices) *)
Definition chk_peaks (c : nat * list Z * list nat) : bool :=
  let '(pt, xs, out) := c in eq_nat_list (peaks_sel pt (zs xs)) out.
Definition chk_peaks_q (c : nat * list Q * list nat) : bool :=
  let '(pt, xs, out) := c in eq_nat_list (peaks_sel pt xs) out.
(** get_n_cyc_array: (switched?, origin?, series, implementation output, tolerance) *)
Definition ncyc_model (sw origin : bool) (xs : list Q) : list Q :=
  n_cyc_of (if sw then switched_peaks 0 xs else peaks xs) origin (length xs).
Definition chk_ncyc (c : bool * bool * list Z * list Q * Q) : bool :=
  let '(sw, origin, xs, out, tol) := c in close_list tol (ncyc_model sw origin (zs xs)) out.

(** C12 *)
Definition chk_zc (c : bool * Q * list Q * list nat) : bool :=
  let '(keep, tol, xs, out) := c in eq_nat_list (zero_crossings keep tol xs) out.
Definition chk_sp (c : Q * list Q * list nat) : bool :=
  let '(tol, xs, out) := c in eq_nat_list (switched_peaks tol xs) out.
(** subsequence clause evaluated on implementation outputs: out_tol is a subsequence of out_0 *)
Fixpoint subseq (a b : list nat) : bool :=
  match a, b with
  | [], _ => true
  | _ :: _, [] => false
  | x :: ra, y :: rb => if Nat.eqb x y then subseq ra rb else subseq a rb
  end.
Definition chk_subseq (c : list nat * list nat) : bool := subseq (fst c) (snd c).

(** C13 *)
Definition chk_delta (c : list Q * list Q) : bool := close_list 0 (peaks_delta (fst c)) (snd c).
Definition chk_pseudo (c : list Q * list Q) : bool := close_list 0 (pseudo_cyclic (fst c)) (snd c).
(** identities of the property evaluated on the implementation outputs themselves *)
Definition chk_delta_identities (c : list Q * list Q) : bool :=
  let '(xs, d) := c in
  Qeqb (nsum (vabs d)) (total_variation xs) &&
  Qeqb (nabs (nsum d)) (nabs (nsub (last xs 0) (xat xs 0))).
(** power law with b = 1/e : (e, a_ref, cut_off, series, implementation output, rtol) *)
Definition chk_ncyc_pow (c : nat * Q * Q * list Q * list Q * Q) : bool :=
  let '(e, aref, cut, xs, out, rtol) := c in
  let m := n_cyc_power e aref cut (1 # 100000000000000) xs in close_list (rtol * qabsmax m) m out.
(** amplitude: implementation output raised to the e-th power against the rational inner sum *)
Definition chk_cyc_amp (c : nat * Q * list Q * list Q * Q) : bool :=
  let '(e, ncyc, xs, out, rtol) := c in
  let m := cyc_amp_pow e ncyc xs in close_list (rtol * qabsmax m) m (map (fun v => npow v e) out).
Definition chk_cyc_amp_comb (c : nat * Q * list Q * list Q * list Q * Q) : bool :=
  let '(e, ncyc, xs, ys, out, rtol) := c in
  let m := cyc_amp_combined_pow e ncyc xs ys in close_list (rtol * qabsmax m) m (map (fun v => npow v e) out).
(** geometric mean: out^(2e) = amp0^e * amp1^e *)
Definition chk_cyc_amp_gm (c : nat * Q * list Q * list Q * list Q * Q) : bool :=
  let '(e, ncyc, xs, ys, out, rtol) := c in
  let m := map2 Qmult (cyc_amp_pow e ncyc xs) (cyc_amp_pow e ncyc ys) in
  close_list (rtol * qabsmax m) (map Qred m) (map (fun v => npow v (2 * e)) out).

(** * the same cases against the LITERAL transcription of the numpy pipeline (model/M_peaks_pipeline.v), which
    proofs/P_peaks_pipeline.v proves equal to the declarative model for all series over R *)
From EQ Require Import model.M_peaks_pipeline.
(** C11: (ptype, series, implementation indices), integer and rational series *)
Definition chk_peaks_pipeline (c : nat * list Z * list nat) : bool :=
  let '(pt, xs, out) := c in eq_nat_list (get_peak_array_indices_p pt (zs xs)) out.
Definition chk_peaks_pipeline_q (c : nat * list Q * list nat) : bool :=
  let '(pt, xs, out) := c in eq_nat_list (get_peak_array_indices_p pt xs) out.
(** C12: (keep_adj_zeros, tol, series, implementation indices); tol = 0 and tol > 0 (the tolerance loop) *)
Definition chk_zc_pipeline (c : bool * Q * list Q * list nat) : bool :=
  let '(keep, tol, xs, out) := c in eq_nat_list (zero_crossings_tol_p keep tol xs) out.
(** C12: (tol, series, implementation indices): the Python loop of get_switched_peak_array_indices *)
Definition chk_sp_pipeline (c : Q * list Q * list nat) : bool :=
  let '(tol, xs, out) := c in eq_nat_list (switched_peaks_p tol xs) out.
(** clean_out_non_changing: (series, implementation cleaned_values, implementation non_zero_indices) - the two intermediate
    arrays of the pipeline, including the duplicated index 0 when values[0] <> 0 *)
Definition chk_clean_pipeline (c : list Q * list Q * list nat) : bool :=
  let '(xs, cv, nzi) := c in
  let '(mcv, mnzi) := clean_out_non_changing_p xs in close_list 0 mcv cv && eq_nat_list mnzi nzi.
