(** Correspondence checkers for C17 (butter_pass glue, detrending, adds, running average), evaluated at T := Q.
    Implementation outputs and the arguments eqsig handed to scipy (recorded by harness-side wrappers) are part of
    each case; every comparison happens here. *)
From Coq Require Import ZArith QArith Qabs List Bool.
From EQ Require Import lib.Num lib.NpList lib.Chk model.M_signalops.
Import ListNotations.

Definition cont_of (k : nat) : container := match k with 0 => CList | 1 => CTuple | 2 => CArray | _ => COther end%nat.
Definition gibbs_of (k : nat) : gibbs := match k with 0 => GNone | 1 => GStart | 2 => GEnd | _ => GMid end%nat.
Definition bt_code (b : btype) : nat := match b with Band => 0 | Low => 1 | High => 2 end%nat.
Definition bt_of (k : nat) : btype := match k with 0 => Band | 1 => Low | _ => High end%nat.
Definition rel_close_list (rtol : Q) (m o : list Q) : bool := close_list (rtol * qabsmax m) m o.

(** ** butter_pass.  b_err: 0 = returned, 1 = "must be list, tuple or array", 2 = "must be length 2".
    r_* : what scipy.signal.butter / filtfilt received (r_bt 0 band, 1 low, 2 high, >2 anything else; r_wn normalised to
    Nyquist; r_chain = butter's (b, a) went unchanged into filtfilt with default options) and what filtfilt returned. *)
Record bp_case := {
  b_order : nat; b_cont : nat; b_cut : list (option Q); b_dt : Q; b_g : nat; b_extra : nat; b_range : nat; b_x : list Q;
  b_err : nat;
  r_order : nat; r_bt : nat; r_wn : list Q; r_chain : bool; r_x : list Q; r_y : list Q;
  b_out : list Q; b_dt_out : Q; b_rtol : Q }.
Definition bp_sig (c : bp_case) : signal := {| s_dt := b_dt c; s_vals := b_x c |}.
Definition bp_args (c : bp_case) :=
  butter_pass_scipy_args (b_order c) (cont_of (b_cont c)) (b_cut c) (gibbs_of (b_g c)) (b_extra c) (b_range c) (bp_sig c).
(** the model with the oracle instantiated by the recorded filtfilt output *)
Definition bp_model (c : bp_case) :=
  butter_pass (fun _ _ _ _ => r_y c) (b_order c) (cont_of (b_cont c)) (b_cut c) (gibbs_of (b_g c)) (b_extra c) (b_range c) (bp_sig c).
Definition chk_bp (c : bp_case) : bool :=
  match bp_args c, bp_model c with
  | inl ErrNotSeq, inl ErrNotSeq => Nat.eqb (b_err c) 1
  | inl ErrLen2, inl ErrLen2 => Nat.eqb (b_err c) 2
  | inr (o, bt, wn, px), inr s =>
      Nat.eqb (b_err c) 0 && Nat.eqb o (r_order c) && Nat.eqb (bt_code bt) (r_bt c) && r_chain c &&
      rel_close_list (b_rtol c) wn (r_wn c) && rel_close_list (b_rtol c) px (r_x c) &&
      Nat.eqb (length (r_y c)) (length (r_x c)) &&
      close_list 0 (s_vals s) (b_out c) && Qeqb (s_dt s) (b_dt_out c) &&
      Nat.eqb (length (b_out c)) (length (b_x c))
  | _, _ => false
  end.
Definition bp_model_out (c : bp_case) := (bp_args c, bp_model c).

(** ** relational clauses evaluated on implementation outputs *)
(** linearity: out(a x + b y) = a out(x) + b out(y) within rtol * max|.| *)
Definition chk_lin (c : Q * Q * list Q * list Q * list Q * Q) : bool :=
  let '(a, b, ox, oy, oxy, rtol) := c in
  let m := map2 (fun u v => Qred (a * u + b * v)) ox oy in
  Nat.eqb (length ox) (length oxy) && Nat.eqb (length oy) (length oxy) &&
  close_list (rtol * (qabsmax ox + qabsmax oy + qabsmax oxy)) m oxy.
(** two outputs that the property says are equal (idempotence, absorption of a polynomial) *)
Definition chk_same (c : list Q * list Q * Q * Q) : bool :=
  let '(o1, o2, rtol, scale) := c in close_list (rtol * scale) o1 o2.

(** ** zero-phase gain: interior samples (x_i, y_i) of a sinusoid and of the filtered record;
    t = tan(pi f dt), tc = tan(pi fc dt) are computed by the harness (kernel values as inputs) *)
Definition chk_gain (c : nat * nat * Q * list Q * Q * list (Q * Q) * Q) : bool :=
  let '(bt, order, t, tc, amp, pairs, tol) := c in
  let g := butter_gain2 (bt_of bt) order t tc in
  negb (Nat.eqb (length pairs) 0) &&
  forallb (fun p => qclose (tol * amp) (Qred (g * fst p)) (snd p)) pairs.
Definition gain_model_out (c : nat * nat * Q * list Q * Q * list (Q * Q) * Q) :=
  let '(bt, order, t, tc, amp, pairs, tol) := c in butter_gain2 (bt_of bt) order t tc.

(** ** remove_poly: exact least squares at Q; the coefficient vector is checked against the normal equations here,
    so the theorems (stated for any solution of the normal equations) apply to what was executed *)
Record poly_case := { p_k : nat; p_y : list Q; p_out : list Q; p_dt : Q; p_dt_out : Q; p_rtol : Q }.
Definition poly_design (c : poly_case) : list (list Q) := design (p_k c) (linspace01 (length (p_y c))).
Definition poly_cofs (c : poly_case) : list Q := lstsq_poly (p_k c) (linspace01 (length (p_y c))) (p_y c).
Definition poly_model (c : poly_case) : list Q := remove_poly (fun k xs y => lstsq_poly k xs y) (p_k c) (p_y c).
Definition chk_poly (c : poly_case) : bool :=
  let A := poly_design c in let cf := poly_cofs c in
  let scale := qabsmax (p_y c) in
  Nat.eqb (length cf) (S (p_k c)) && normal_okb A (p_y c) cf (S (p_k c)) &&
  close_list (p_rtol c * scale) (poly_model c) (p_out c) &&
  Qeqb (p_dt c) (p_dt_out c) &&
  (* the property's own predicate on the implementation output: residual orthogonal to 1, x, ..., x^k *)
  forallb (fun j => Qleb (Qabs (dot (col j A) (p_out c))) (p_rtol c * scale * inject_Z (Z.of_nat (length (p_y c)))))
          (seq 0 (S (p_k c))).

(** ** remove_poly on LONG records (tens of thousands of samples).  The record is shipped in compact form: an integer
    pattern repeated, y_i = pat[i mod p], i < n.  The exact least-squares polynomial is obtained from the normal equations
    written with the integer power sums P_m = sum_i i^m and B_m = sum_i y_i i^m (x_i = i/(n-1)), solved by the model's own
    Gauss-Jordan elimination; the solution is checked against these equations here.  The implementation's output is compared with
    y_i - p(x_i) at a sparse set of positions (l_samples : (i, out_i)), and its length and dt are compared. *)
Record polyl_case := { l_k : nat; l_n : Z; l_pat : list Z; l_samples : list (Z * Q); l_len_out : Z; l_dt : Q; l_dt_out : Q; l_rtol : Q }.
Definition pat_at (pat : list Z) (i : Z) : Z := nth (Z.to_nat (i mod Z.of_nat (length pat))) pat 0%Z.
Fixpoint zpows (i : Z) (m : nat) (cur : Z) : list Z := match m with O => [cur] | S m' => cur :: zpows i m' (cur * i)%Z end.
(** (P_0..P_mm, B_0..B_mm) *)
Definition psums (n : Z) (pat : list Z) (mm : nat) : list Z * list Z :=
  let step (a : Z * (list Z * list Z)) :=
    let '(i, (P, B)) := a in
    let y := pat_at pat i in
    let pw := zpows i mm 1%Z in
    ((i + 1)%Z, (map2 Z.add P pw, map2 (fun b p => (b + y * p)%Z) B pw)) in
  snd (Z.iter n step (0%Z, (repeat 0%Z (S mm), repeat 0%Z (S mm)))).
Definition qdivz (a b : Z) : Q := Qred (inject_Z a / inject_Z b).
(** rows of [A^T A | A^T y] for the columns x^k, ..., x^0 *)
Definition long_aug (k : nat) (n : Z) (pat : list Z) : list (list Q) :=
  let '(P, B) := psums n pat (2 * k) in
  let d := (n - 1)%Z in
  let Sx m := qdivz (nth m P 0%Z) (d ^ Z.of_nat m) in
  let Bq m := qdivz (nth m B 0%Z) (d ^ Z.of_nat m) in
  map (fun j => map (fun l => Sx (2 * k - j - l)%nat) (seq 0 (S k)) ++ [Bq (k - j)%nat]) (seq 0 (S k)).
Definition long_cofs (k : nat) (n : Z) (pat : list Z) : list Q :=
  match gauss_jordan (S k) 0 [] (long_aug k n pat) with
  | None => []
  | Some rows => map (fun r => Qred (last r 0%Q)) rows
  end.
Definition long_normal_okb (k : nat) (aug : list (list Q)) (cf : list Q) : bool :=
  forallb (fun r => Qeqb (dot (firstn (S k) r) cf) (last r 0%Q)) aug.
Definition long_model_at (k : nat) (n : Z) (pat : list Z) (cf : list Q) (i : Z) : Q :=
  let x := qdivz i (n - 1) in
  Qred (inject_Z (pat_at pat i) - dot (prow k x) cf).
Definition chk_polyl (c : polyl_case) : bool :=
  let k := l_k c in let n := l_n c in let pat := l_pat c in
  let cf := long_cofs k n pat in
  let scale := qabsmax (map inject_Z pat) in
  (2 <=? n)%Z && negb (Nat.eqb (length pat) 0) && Nat.eqb (length cf) (S k) && long_normal_okb k (long_aug k n pat) cf &&
  Z.eqb (l_len_out c) n && Qeqb (l_dt c) (l_dt_out c) && negb (Nat.eqb (length (l_samples c)) 0) &&
  forallb (fun s => (0 <=? fst s)%Z && (fst s <? n)%Z && qclose (l_rtol c * scale) (long_model_at k n pat cf (fst s)) (snd s)) (l_samples c).
Definition polyl_model_out (c : polyl_case) : list Q :=
  let cf := long_cofs (l_k c) (l_n c) (l_pat c) in map (fun s => long_model_at (l_k c) (l_n c) (l_pat c) cf (fst s)) (l_samples c).

(** ** adds.  a_kind: 0 add_constant, 1 add_series, 2 add_signal (a_is_sig false = argument is not a Signal).
    a_err: implementation raised SignalProcessingError *)
Record add_case := { a_kind : nat; a_x : list Q; a_dt : Q; a_const : Q; a_other : list Q; a_other_dt : Q; a_is_sig : bool;
                     a_err : bool; a_out : list Q; a_dt_out : Q; a_rtol : Q }.
Definition add_model (c : add_case) : add_error + signal :=
  let s := {| s_dt := a_dt c; s_vals := a_x c |} in
  match a_kind c with
  | 0%nat => inr (add_constant (a_const c) s)
  | 1%nat => add_series (a_other c) s
  | _ => add_signal (if a_is_sig c then Some {| s_dt := a_other_dt c; s_vals := a_other c |} else None) s
  end.
Definition chk_add (c : add_case) : bool :=
  match add_model c with
  | inl _ => a_err c
  | inr s => negb (a_err c) && rel_close_list (a_rtol c) (s_vals s) (a_out c) && Qeqb (s_dt s) (a_dt_out c)
  end.

(** ** running average: the coded loop and the statement's window agree with the implementation *)
Definition chk_ravg (c : nat * list Q * list Q * Q) : bool :=
  let '(w, x, out, rtol) := c in
  let tol := rtol * qabsmax x in
  close_list tol (running_average w x) out &&
  close_list tol (map (window_mean w x) (seq 0 (length x))) out.
Definition ravg_model_out (c : nat * list Q * list Q * Q) := let '(w, x, out, rtol) := c in running_average w x.

(** ** one entry point for the harness: all kinds of cases in one list (better load balancing of the shards) *)
Inductive any_case :=
| CBp (c : bp_case)
| CLin (c : Q * Q * list Q * list Q * list Q * Q)
| CGain (c : nat * nat * Q * list Q * Q * list (Q * Q) * Q)
| CPoly (c : poly_case)
| CPolyL (c : polyl_case)
| CSame (c : list Q * list Q * Q * Q)
| CAdd (c : add_case)
| CRavg (c : nat * list Q * list Q * Q).
Definition check_case (c : any_case) : bool :=
  match c with
  | CBp c => chk_bp c | CLin c => chk_lin c | CGain c => chk_gain c | CPoly c => chk_poly c
  | CSame c => chk_same c | CAdd c => chk_add c | CRavg c => chk_ravg c | CPolyL c => chk_polyl c
  end.
Inductive any_out :=
| OBp (o : (bp_error + (nat * btype * list Q * list Q)) * (bp_error + @signal Q))
| OGain (g : Q)
| OList (l : list Q)
| OAdd (o : add_error + @signal Q)
| ONone.
Definition model_out (c : any_case) : any_out :=
  match c with
  | CBp c => OBp (bp_model_out c) | CGain c => OGain (gain_model_out c) | CPoly c => OList (poly_model c)
  | CAdd c => OAdd (add_model c) | CRavg c => OList (ravg_model_out c) | CPolyL c => OList (polyl_model_out c) | _ => ONone
  end.
