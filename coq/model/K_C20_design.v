(** Point-check support for the translated design-spectrum functions (C20): the harness emits one goal per call
    [opt_close (generated function at rational arguments) (implementation output as a rational) tol], decided by
    [pt_check] (comparisons by lra/interval, the remaining closed real expression by interval). *)
From Coq Require Import Reals String Lra.
From Interval Require Import Tactic.
From EQ Require Import lib.Num gen.Gen_design_spectra.
Local Open Scope R_scope.

(** model value vs observation: both defined and within tol, or both rejected (None = the call raised) *)
Definition opt_close (o obs : option R) (tol : R) : Prop :=
  match o, obs with
  | Some v, Some w => Rabs (v - w) <= tol
  | None, None => True
  | _, _ => False
  end.

Lemma oc_true (c : bool) (A B obs : option R) tol : c = true -> opt_close A obs tol -> opt_close (if c then A else B) obs tol.
Proof. intros ->. auto. Qed.
Lemma oc_false (c : bool) (A B obs : option R) tol : c = false -> opt_close B obs tol -> opt_close (if c then A else B) obs tol.
Proof. intros ->. auto. Qed.

(** decide the comparison at the head of the if-tree and descend into the branch taken *)
Ltac cmp_side := first [lra | interval with (i_prec 80)].
Ltac dec_head :=
  repeat match goal with
  | |- opt_close (if String.eqb ?a ?b then _ else _) _ _ =>
      first [ apply oc_true; [vm_compute; reflexivity|] | apply oc_false; [vm_compute; reflexivity|] ]
  | |- opt_close (if Rltb ?a ?b then _ else _) _ _ =>
      first [ apply oc_true; [apply Rltb_true; lra|] | apply oc_false; [apply Rltb_false; lra|]
            | apply oc_true; [apply Rltb_true; cmp_side|] | apply oc_false; [apply Rltb_false; cmp_side|] ]
  | |- opt_close (if Rleb ?a ?b then _ else _) _ _ =>
      first [ apply oc_true; [apply Rleb_true; lra|] | apply oc_false; [apply Rleb_false; lra|]
            | apply oc_true; [apply Rleb_true; cmp_side|] | apply oc_false; [apply Rleb_false; cmp_side|] ]
  | |- opt_close (if Reqb ?a ?b then _ else _) _ _ =>
      first [ apply oc_false; [apply Reqb_false; lra|] | apply oc_true; [apply Reqb_true; lra|] ]
  end.
Ltac pt_check :=
  cbv beta iota delta [c_h_factor sd_nzs t_eff String.eqb Ascii.eqb Bool.eqb]; dec_head; cbv delta [opt_close] beta iota;
  first [ exact I | interval with (i_prec 80) ].
