(** Correspondence checkers for C14 (resampling to an approximate step).
    A kernel case [kcase] carries dt and target as the 64 bits of the floats, the record length, and the
    implementation's returned step (bits) and output length.  A full [case] adds the record and the returned values as
    exact rationals.
    [check_kernel] = binary64 chain bit-for-bit (returned step, output length) + the scalar clauses of the property
    evaluated on the implementation's outputs (step bound, integer ratio, parity, duration).
    [check_case]   = [check_kernel] + Q-model of np.interp at the positions i/factor against the returned values
    (tolerance 0 in the exact domain) + range / retained samples / subsequence on the implementation's outputs. *)
From Coq Require Import ZArith QArith Qabs Qround List Bool.
From EQ Require Import lib.Num lib.NpList lib.Chk lib.B64 model.M_timestep.
Import ListNotations.

(** k_fn : 0 interp_array_to_approx_dt, 1 interp_to_approx_dt (AccSignal), 2 resample_to_approx_dt *)
Record kcase := { k_fn : nat; k_even : bool; k_dt : Z; k_tg : Z; k_n : Z; k_len : Z; k_newdt : Z }.
Record case := { c_k : kcase; c_v : list Q; c_out : list Q; c_rtol : Q }.

Definition kind_of (c : kcase) : fac := fst (factor_b64 (b64_bits (k_dt c)) (b64_bits (k_tg c))).
Definition model_len (c : kcase) : Z :=
  match k_fn c with
  | 2%nat => npts_rs_b64 (k_even c) (b64_bits (k_dt c)) (b64_bits (k_tg c)) (k_n c)
  | _ => npts_b64 (k_even c) (b64_bits (k_dt c)) (b64_bits (k_tg c)) (k_n c)
  end.
Definition model_newdt (c : kcase) : Z := bits_b64 (newdt_b64 (b64_bits (k_dt c)) (b64_bits (k_tg c))).
Definition model_kout (c : kcase) := (kind_of c, model_newdt c, model_len c).

Definition slack : Q := 1 + (1 # 1125899906842624).   (* 1 + 2^-50 *)

(** the kernel, bit for bit *)
Definition kernel_ok (c : kcase) : bool := Z.eqb (model_newdt c) (k_newdt c) && Z.eqb (model_len c) (k_len c).

(** scalar clauses of the property on the implementation's outputs *)
Definition step_ok (c : kcase) : bool :=
  Qleb (fQ (b64_bits (k_newdt c))) (fQ (b64_bits (k_tg c)) * slack).
(** dt / new_dt is an integer k >= 1, or new_dt / dt is (to 2^-50 relative) *)
Definition near_int (r : Q) : bool :=
  let k := Qfloor (r + (1 # 2)) in (1 <=? k)%Z && Qleb (Qabs (r - inject_Z k)) (inject_Z k * (1 # 1125899906842624)).
Definition ratio_ok (c : kcase) : bool :=
  let r := Qred (fQ (b64_bits (k_dt c)) / fQ (b64_bits (k_newdt c))) in
  near_int r || near_int (/ r).
Definition even_ok (c : kcase) : bool := if k_even c then Z.even (k_len c) else true.
(** | len' * new_dt - len * dt | < 2 * max(dt, new_dt) (slack 2^-50 relative on the bound) *)
Definition duration_ok (c : kcase) : bool :=
  let dt := fQ (b64_bits (k_dt c)) in let nd := fQ (b64_bits (k_newdt c)) in
  let d := Qabs (inject_Z (k_len c) * nd - inject_Z (k_n c) * dt) in
  Qltb d (2 * (if Qltb dt nd then nd else dt) * slack).
Definition check_kernel (c : kcase) : bool :=
  kernel_ok c && step_ok c && ratio_ok c && even_ok c && duration_ok c.

(** the values *)
Definition model_vals (c : case) : list Q :=
  interp_at (fac_val (T:=Q) (kind_of (c_k c))) (c_v c) (Z.to_nat (model_len (c_k c))).
Definition model_out (c : case) := (model_kout (c_k c), match k_fn (c_k c) with 2%nat => [] | _ => model_vals c end).
Definition values_ok (c : case) : bool :=
  close_list (c_rtol c * qabsmax (c_v c)) (model_vals c) (c_out c).

Definition qmin_l (l : list Q) : Q := match l with [] => 0 | x :: r => fold_left (fun m y => if Qltb y m then y else m) r x end.
Definition qmax_l (l : list Q) : Q := match l with [] => 0 | x :: r => fold_left (fun m y => if Qltb m y then y else m) r x end.
Definition nthq (i : nat) (l : list Q) : Q := nth i l 0.
(** the integer the implementation used, read off its own returned step *)
Definition impl_kind (c : kcase) : fac :=
  let r := Qred (fQ (b64_bits (k_dt c)) / fQ (b64_bits (k_newdt c))) in
  if Qeqb r 1 then FSame else if Qltb 1 r then FRef (Qfloor (r + (1 # 2))) else FDec (Qfloor (/ r + (1 # 2))).
Definition range_ok (c : case) : bool :=
  let tol := c_rtol c * qabsmax (c_v c) in
  let lo := qmin_l (c_v c) - tol in let hi := qmax_l (c_v c) + tol in
  forallb (fun y => Qleb lo y && Qleb y hi) (c_out c).
(** refinement: out[k*i] = v[i] exactly for every i; same step: out is a prefix of v; decimation: out[i] = v[m*i]
    (to tolerance: the code's position i / fl(1/m) is not always the integer m*i) *)
Definition retain_ok (c : case) : bool :=
  let v := c_v c in let out := c_out c in
  match impl_kind (c_k c) with
  | FSame => forallb (fun i => Qeqb (nthq i out) (nthq i v)) (seq 0 (length out)) && (length out <=? length v)%nat
  | FRef k => forallb (fun i => (Z.to_nat k * i <? length out)%nat && Qeqb (nthq (Z.to_nat k * i) out) (nthq i v)) (seq 0 (length v))
  | FDec m => forallb (fun i => qclose (c_rtol c * qabsmax v) (nthq i out) (nthq (Nat.min (Z.to_nat m * i) (length v - 1)) v)) (seq 0 (length out))
  end.
Definition check_case (c : case) : bool :=
  check_kernel (c_k c) && Z.eqb (Z.of_nat (length (c_v c))) (k_n (c_k c)) &&
  match k_fn (c_k c) with
  | 2%nat => true
  | _ => Z.eqb (Z.of_nat (length (c_out c))) (k_len (c_k c)) && values_ok c && range_ok c && retain_ok c
  end.

(** Does exact arithmetic (the theorems' model, evaluated at Q on the exact values of the two floats) take the same
    branch, the same integer and the same output length as the binary64 chain?  Not part of [check_kernel]: a [false]
    here marks a pair (dt, target) whose floating-point quotient lands next to an integer. *)
Definition exact_len (c : kcase) (k : fac) : Z :=
  match k_fn c with
  | 2%nat => new_npts_rs (T:=Q) (k_even c) k (Z.to_nat (k_n c))
  | _ => new_npts (T:=Q) (k_even c) k (Z.to_nat (k_n c))
  end.
Definition exact_agrees (c : kcase) : bool :=
  let k := factor_kind (T:=Q) (fQ (b64_bits (k_dt c))) (fQ (b64_bits (k_tg c))) in
  fac_eqb k (kind_of c) && Z.eqb (exact_len c k) (model_len c).
(** same question with the factor the float chain chose: is the length what exact arithmetic gives for that factor? *)
Definition exact_len_agrees (c : kcase) : bool := Z.eqb (exact_len c (kind_of c)) (model_len c).
