(** Correspondence checker for C10. *)
From Coq Require Import ZArith QArith Qabs List Bool.
From EQ Require Import lib.Num lib.NpList lib.Chk model.M_displacements model.M_im.
Import ListNotations.

(** kind 0: significant duration on a supplied cumulative series [c_x] (Arias or custom measure, as computed by
    the implementation's own public function); kind 1: bracketed duration of record [c_x] with threshold [c_thr];
    kind 2: array variant, model computes cumsum(x^2) itself.
    implementation outputs: c_has (a result exists / se returned non-None), c_s, c_e (se=True), c_dur (se=False). *)
Record case := { c_kind : nat; c_dt : Q; c_lo : Q; c_hi : Q; c_thr : Q; c_x : list Q;
                 c_has : bool; c_s : Q; c_e : Q; c_dur : Q; c_tol : Q }.
Definition model_out (c : case) : option (Q * Q) :=
  match c_kind c with
  | 0 => sig_dur_se (c_dt c) (c_lo c) (c_hi c) (c_x c)
  | 1 => brac_dur_se (c_dt c) (c_thr c) (c_x c)
  | _ => sig_dur_se (c_dt c) (c_lo c) (c_hi c) (cumsum (vsq (c_x c)))
  end%nat.
Definition check_case (c : case) : bool :=
  match model_out c with
  | None => negb (c_has c) && qclose (c_tol c) (c_dur c) 0
  | Some (s, e) => c_has c && qclose (c_tol c) s (c_s c) && qclose (c_tol c) e (c_e c) && qclose (c_tol c) (nsub e s) (c_dur c)
  end.
