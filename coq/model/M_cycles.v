(** Model of the peak-only series of eqsig/fns/peaks_and_crossings.py (determine_peaks_only_delta_series,
    determine_pseudo_cyclic_peak_only_series) and of the power-law equivalent-cycle functions of eqsig/im.py
    (calc_n_cyc_array_w_power_law, calc_cyc_amp_array_w_power_law, ..._gm_..., ..._combined_...)  — property C13.
    Generic over [NumOps]; the real powers x^(1/b), x^b enter as function parameters [pw], [pwb] (instantiated with
    [rpow] at R, with integer powers or with enclosure-checked tables of the implementation's own kernel at Q).
    [peaks], [switched_peaks], [first_up], [final_start] come from model/M_peaks.v (C11/C12).
    No proofs in this file. *)
From Coq Require Import ZArith QArith Reals List Bool.
From EQ Require Import lib.Num lib.NpList model.M_peaks.
Import ListNotations.
Local Open Scope num_scope.

Section Generic.
Context {T : Type} `{NumOps T}.

(** np.zeros(n) followed by np.put(., idx, vals), for a strictly ascending [idx]; produces positions i .. i+n-1 *)
Fixpoint scatter (i n : nat) (idx : list nat) (vals : list T) : list T :=
  match n with
  | O => []
  | S n' =>
    match idx, vals with
    | p :: ir, v :: vr => if Nat.eqb p i then v :: scatter (S i) n' ir vr else n0 :: scatter (S i) n' idx vals
    | _, _ => n0 :: scatter (S i) n' idx vals
    end
  end.

(** determine_peaks_only_delta_series: at the k-th reported peak (k >= 1) the change from the previous reported peak,
    oriented by the direction of the first strict move; zero elsewhere *)
Definition delta_series (xs : list T) : list T :=
  let ps := peaks xs in
  scatter 0 (length xs) ps (n0 :: map (fun d => sgn_first xs * d) (diff (map (xat xs) ps))).
(** determine_pseudo_cyclic_peak_only_series: (-1)^(k+1) * s * (x[p_k] - x[0]) at the k-th reported peak *)
Definition pseudo_series (xs : list T) : list T :=
  let ps := peaks xs in
  scatter 0 (length xs) ps (alt_signs true (map (fun p => sgn_first xs * (xat xs p - xat xs 0)) ps)).
(** sum |x[i+1] - x[i]| *)
Definition tv (xs : list T) : T := nsum (vabs (diff xs)).
(** direction of the final strict move (the move into the final plateau): +1 / -1, 0 for a constant series *)
Definition sgn_final (xs : list T) : T :=
  match final_start xs with O => n0 | S j => if xat xs j <? xat xs (S j) then n1 else - n1 end.
Definition shift (c : T) (xs : list T) : list T := map (fun x => x + c) xs.

(** |x| at the switched peaks (tol = 0), zero elsewhere  (np.zeros_like + np.put) *)
Definition sw_series (xs : list T) : list T :=
  let ps := switched_peaks n0 xs in scatter 0 (length xs) ps (map (fun p => nabs (xat xs p)) ps).
(** calc_cyc_amp_array_w_power_law before the outer power: cumsum(pw|s_i| / 2 / n_cyc); [pw] is x |-> x^(1/b) *)
Definition amp_core (pw : T -> T) (ncyc : T) (xs : list T) : list T :=
  cumsum (map (fun v => pw (nabs v) / nofZ 2 / ncyc) (sw_series xs)).
(** calc_cyc_amp_array_w_power_law; [pwb] is x |-> x^b *)
Definition cyc_amp (pw pwb : T -> T) (ncyc : T) (xs : list T) : list T := map pwb (amp_core pw ncyc xs).
(** calc_cyc_amp_combined_arrays_w_power_law *)
Definition comb_core (pw : T -> T) (ncyc : T) (xs ys : list T) : list T :=
  cumsum (map2 (fun u v => (pw (nabs u) + pw (nabs v)) / nofZ 2 / ncyc) (sw_series xs) (sw_series ys)).
Definition cyc_amp_combined (pw pwb : T -> T) (ncyc : T) (xs ys : list T) : list T := map pwb (comb_core pw ncyc xs ys).
(** calc_cyc_amp_gm_arrays_w_power_law; [sq] is the square root *)
Definition cyc_amp_gm (sq pw pwb : T -> T) (ncyc : T) (xs ys : list T) : list T :=
  map2 (fun a b => sq (a * b)) (cyc_amp pw pwb ncyc xs) (cyc_amp pw pwb ncyc ys).

(** calc_n_cyc_array_w_power_law.  Amplitudes of the switched peaks with the low-amplitude cut-off applied
    (strictly below cut_off * max|x| -> tiny = 1e-14) *)
Definition peak_amps (cut tiny : T) (xs : list T) : list T :=
  let lim := cut * amax (vabs xs) in
  map (fun p => let v := nabs (xat xs p) in if v <? lim then tiny else v) (switched_peaks n0 xs).
(** the step function interp1d(kind='previous') over knots [0, p_0 .. p_k-1, n] with values [0, c_0 .. c_k-1, c_k-1]
    (c = cumsum of the per-peak fractions) is the running sum of the fractions placed at their peaks.
    [kn v] is (a_ref / v)^(1/b) *)
Definition n_cyc_core (kn : T -> T) (cut tiny : T) (xs : list T) : list T :=
  cumsum (scatter 0 (length xs) (switched_peaks n0 xs) (map (fun v => half / kn v) (peak_amps cut tiny xs))).
Definition n_cyc_pl (pw : T -> T) (a_ref cut tiny : T) (xs : list T) : list T :=
  n_cyc_core (fun v => pw (a_ref / v)) cut tiny xs.
(** ** the literal step-function pipeline of calc_n_cyc_array_w_power_law (new definitions; [n_cyc_core] above is the
    running-sum form the correspondence check runs; proofs/P_C13.v proves the two equal for every input) *)
(** np.insert(l, pos, v) for 0 <= pos <= len(l) *)
Definition np_insert {A} (l : list A) (pos : nat) (v : A) : list A := firstn pos l ++ v :: skipn pos l.
(** np.searchsorted(np.nextafter(xk, -inf), q, side='left') for non-decreasing integer knots and an integer q:
    the number of leading knots <= q *)
Fixpoint knots_le (xk : list nat) (q : nat) : nat :=
  match xk with [] => O | x :: r => if (x <=? q)%nat then S (knots_le r q) else O end.
(** scipy.interpolate.interp1d(xk, yk, kind='previous')(q) = yk[np.clip(searchsorted - 1, 0, len(xk) - 1)]:
    the value at the last knot <= q (the last one of equal knots) *)
Definition interp_previous (xk : list nat) (yk : list T) (q : nat) : T :=
  nth (Nat.min (knots_le xk q - 1) (length xk - 1)) yk n0.
(**  perc = 0.5 / kn(csr_peaks);  n_eq = cumsum(perc);  n_eq = insert(n_eq, 0, 0);  idx = insert(peak_indices, 0, 0);
     n_eq = insert(n_eq, len(n_eq) - 1, n_eq[-1]);  idx = insert(idx, len(n_eq) - 1, len(values));
     interp1d(idx, n_eq, kind='previous')(arange(len(values))) *)
Definition n_cyc_core_interp (kn : T -> T) (cut tiny : T) (xs : list T) : list T :=
  let perc := map (fun v => half / kn v) (peak_amps cut tiny xs) in
  let n_eq0 := cumsum perc in
  let n_eq1 := np_insert n_eq0 0 n0 in
  let idx1 := np_insert (switched_peaks n0 xs) 0 O in
  let n_eq2 := np_insert n_eq1 (length n_eq1 - 1) (last n_eq1 n0) in
  let idx2 := np_insert idx1 (length n_eq2 - 1) (length xs) in
  map (interp_previous idx2 n_eq2) (seq 0 (length xs)).
Definition n_cyc_pl_interp (pw : T -> T) (a_ref cut tiny : T) (xs : list T) : list T :=
  n_cyc_core_interp (fun v => pw (a_ref / v)) cut tiny xs.
End Generic.

(** * The real instance: x^y for x >= 0 (numpy: 0**y = 0 for y > 0) *)
Definition rpow (x y : R) : R := if Rlt_dec 0 x then Rpower x y else 0%R.
Definition tinyR : R := (1 / 100000000000000)%R.
Definition n_cyc_R (a_ref b cut : R) (xs : list R) : list R := n_cyc_pl (fun x => rpow x (/ b)) a_ref cut tinyR xs.
Definition n_cyc_interp_R (a_ref b cut : R) (xs : list R) : list R :=
  n_cyc_pl_interp (fun x => rpow x (/ b)) a_ref cut tinyR xs.
Definition cyc_amp_R (ncyc b : R) (xs : list R) : list R := cyc_amp (fun x => rpow x (/ b)) (fun x => rpow x b) ncyc xs.
Definition cyc_amp_combined_R (ncyc b : R) (xs ys : list R) : list R :=
  cyc_amp_combined (fun x => rpow x (/ b)) (fun x => rpow x b) ncyc xs ys.
Definition cyc_amp_gm_R (ncyc b : R) (xs ys : list R) : list R :=
  cyc_amp_gm sqrt (fun x => rpow x (/ b)) (fun x => rpow x b) ncyc xs ys.
