(** Correspondence checker for C08: implementation outputs vs the Q instance of the model. *)
From Coq Require Import ZArith QArith Qabs List Bool.
From EQ Require Import lib.Num lib.NpList lib.Chk model.M_displacements.
Import ListNotations.

(** a case: trap, dt, record, implementation velocity, implementation displacement,
    implementation (pga, pgv, pgd) via calc_peak, relative tolerance (0 on the exact domain) *)
Record case := { c_trap : bool; c_dt : Q; c_a : list Q; c_v : list Q; c_d : list Q;
                 c_peaks : list Q; c_rtol : Q }.

Definition model_out (c : case) : list Q * list Q * list Q :=
  let '(v, d) := velo_disp (c_trap c) (c_dt c) (c_a c) in
  (v, d, [calc_peak (c_a c); calc_peak v; calc_peak d]).

Definition check_case (c : case) : bool :=
  let '(v, d, pk) := model_out c in
  close_list (c_rtol c * qabsmax v) v (c_v c) &&
  close_list (c_rtol c * qabsmax d) d (c_d c) &&
  close_list (c_rtol c * qabsmax pk) pk (c_peaks c).
