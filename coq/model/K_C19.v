(** Correspondence checkers for C19 (surface energy, time-shift helpers). *)
From Coq Require Import ZArith QArith Qabs List Bool.
From EQ Require Import lib.Num lib.NpList lib.Chk model.M_im model.M_surface.
Import ListNotations.

(** reductions as shipped: (is_array, values) - a scalar is a one-element list *)
Definition mkred (r : bool * list Q) : red Q :=
  if fst r then RArr (snd r) else RScalar (nth 0 (snd r) 0%Q).

(** which : 0 calc_surface_energy, 1 calc_cum_abs_surface_energy, 2 get_time_shift_motions *)
Record case := { c_which : nat; c_nodal : bool; c_trim : bool; c_start : bool; c_dt : Q; c_vals : list Q;
                 c_tts : list Q; c_ur : bool * list Q; c_dr : bool * list Q; c_stt : Q;
                 c_out : list (list Q); c_rtol : Q }.
Definition model_out (c : case) : list (list Q) :=
  let f := match c_which c with
           | 0%nat => surface_energy | 1%nat => cum_abs_surface_energy | _ => time_shift_motions end in
  f (c_nodal c) (c_trim c) (c_start c) (c_dt c) (c_vals c) (c_tts c) (mkred (c_ur c)) (mkred (c_dr c)) (c_stt c).

Definition qabsmax2 (m : list (list Q)) : Q := qabsmax (map qabsmax m).
Fixpoint nondecr (l : list Q) : bool :=
  match l with x :: ((y :: _) as r) => Qleb x y && nondecr r | _ => true end.
Definition all_len (n : nat) (m : list (list Q)) : bool := forallb (fun r => Nat.eqb (length r) n) m.
Definition all_zero (m : list (list Q)) : bool := forallb (forallb (fun x => Qeqb x 0)) m.
Definition is_zero_tt_nodal (c : case) : bool :=
  c_nodal c && forallb (fun t => Qeqb t 0) (c_tts c) &&
  Qeqb (qabsmax (map2 Qminus (snd (c_ur c)) (snd (c_dr c)))) 0 && Bool.eqb (fst (c_ur c)) (fst (c_dr c)).
(** property predicates evaluated on the implementation's own output:
    one row per travel time; npts columns when trimmed; cumulative series start >= 0 and never decrease;
    zero travel time at a nodal surface with equal reductions gives identically zero energy *)
Definition props_on_output (c : case) : bool :=
  Nat.eqb (length (c_out c)) (length (c_tts c)) &&
  (if c_trim c then all_len (length (c_vals c)) (c_out c) else true) &&
  (if Nat.eqb (c_which c) 1 then forallb (fun r => nondecr (0%Q :: r)) (c_out c) else true) &&
  (if is_zero_tt_nodal c then all_zero (c_out c) else true).
Definition check_case (c : case) : bool :=
  let m := model_out c in
  close_mat (c_rtol c * qabsmax2 m) m (c_out c) && props_on_output c.

(** alpha^2 scaling evaluated on two implementation outputs: (which, alpha, out(values), out(alpha*values), rtol) *)
Definition chk_scale (c : nat * Q * list (list Q) * list (list Q) * Q) : bool :=
  let '(which, al, o1, o2, rtol) := c in
  let k := match which with 0%nat => Qred (al * Qabs al) | 1%nat => Qred (al * al) | _ => al end in
  let m := map (map (fun x => Qred (k * x))) o1 in
  close_mat (rtol * qabsmax2 m) m o2.

(** each row of a batch against the single-travel-time result: (mode, row j of the batch, single result, tol) -
    mode 0 (trimmed): equal; mode 1 (untrimmed, start=False): the single result is a prefix and the batch row is
    constant from the first index after it; mode 2 (untrimmed, start=True): the single result is a prefix *)
Fixpoint const_from (x : Q) (l : list Q) : bool := match l with [] => true | y :: r => Qeqb x y && const_from x r end.
Definition chk_row_single (c : nat * list Q * list Q * Q) : bool :=
  let '(mode, row, single, tol) := c in
  match mode with
  | 0%nat => close_list tol row single
  | 1%nat => close_list tol (firstn (length single) row) single &&
             match skipn (length single) row with [] => true | x :: r => const_from x r end
  | _ => close_list tol (firstn (length single) row) single
  end.

(** put_array_in_2d_array: (values, shifts, clip, implementation output) *)
Definition chk_put_model (c : list Q * list Z * nat * list (list Q)) : bool :=
  let '(vals, shifts, clip, out) := c in close_mat 0 (put_in_2d vals shifts clip) out.
(** the defining predicate on the implementation output, independent of the list model:
    out[i][c] = V(c + lo - shift_i), V = values inside [0, npts) and 0 outside, lo = 0 when the start is clipped and
    min(0, min shifts) otherwise; width = hi - lo with hi = npts (end clipped) or npts + max(0, max shifts) *)
Definition vat (vals : list Q) (z : Z) : Q := if (z <? 0)%Z then 0%Q else nth (Z.to_nat z) vals 0%Q.
Definition put_spec (vals : list Q) (shifts : list Z) (clip : nat) : list (list Q) :=
  let lo := if clip_start clip then 0%Z else Z.min (zmin shifts) 0 in
  let hi := if clip_end clip then Z.of_nat (length vals) else (Z.of_nat (length vals) + Z.max (zmax shifts) 0)%Z in
  map (fun s => map (fun c => vat vals (Z.of_nat c + lo - s)) (seq 0 (Z.to_nat (hi - lo)))) shifts.
Definition chk_put_spec (c : list Q * list Z * nat * list (list Q)) : bool :=
  let '(vals, shifts, clip, out) := c in close_mat 0 (put_spec vals shifts clip) out.
Definition chk_put (c : list Q * list Z * nat * list (list Q)) : bool := chk_put_model c && chk_put_spec c.
(** join_values_w_shifts: (add?, values, shifts, implementation output) *)
Definition chk_join (c : bool * list Q * list Z * list (list Q)) : bool :=
  let '(add, vals, shifts, out) := c in
  close_mat 0 (join_w_shifts add vals shifts) out &&
  close_mat 0 (map (fun s => map (fun c => let a0 := vat vals (Z.of_nat c) in let a1 := vat vals (Z.of_nat c - s) in
                                            if add then Qred (a1 + a0) else Qred (- a1 + a0))
                                 (seq 0 (length vals + Z.to_nat (zmax shifts)))) shifts) out.
