(** Correspondence checkers for C03: the spectra layer (model/M_spectra.v at Q) on top of response rows that come from
    the implementation's own response_series (whose tie is K_C01), plus the property's predicates on outputs. *)
From Coq Require Import ZArith QArith Qabs Qround List Bool.
From EQ Require Import lib.Num lib.NpList lib.Chk model.M_sdof model.M_spectra.
Import ListNotations.

Definition rows3 (u v a : list (list Q)) : list (list Q * list Q * list Q) :=
  map2 (fun uv a => (fst uv, snd uv, a)) (map2 pair u v) a.

Definition close3 (rtol : Q) (m i : list Q * list Q * list Q) : bool :=
  let '(m1, m2, m3) := m in let '(i1, i2, i3) := i in
  close_list (rtol * qabsmax m1) m1 i1 && close_list (rtol * qabsmax m2) m2 i2 && close_list (rtol * qabsmax m3) m3 i3.
Definition all_nonneg3 (i : list Q * list Q * list Q) : bool :=
  let '(i1, i2, i3) := i in forallb (Qleb 0) i1 && forallb (Qleb 0) i2 && forallb (Qleb 0) i3.
Definition lens3 (n : nat) (i : list Q * list Q * list Q) : bool :=
  let '(i1, i2, i3) := i in Nat.eqb (length i1) n && Nat.eqb (length i2) n && Nat.eqb (length i3) n.

Fixpoint all2_close (rtol : Q) (scales : list Q) (m1 m2 : list (list Q)) : bool :=
  match scales, m1, m2 with
  | [], [], [] => true
  | sc :: rs, a :: r1, b :: r2 => close_list (rtol * sc) a b && all2_close rtol rs r1 r2
  | _, _, _ => false
  end.

Inductive case :=
(* pseudo / true spectra from implementation response rows: pi2 dt periods motion u v a, impl (sd, sv, sa), rtol *)
| KPseudo (pi2 dt : Q) (periods motion : list Q) (u v a : list (list Q)) (sd sv sa : list Q) (rtol : Q)
| KTrue (dt : Q) (periods motion : list Q) (u v a : list (list Q)) (sd sv sa : list Q) (rtol : Q)
(* object: dt ratio periods values; the factor and the interpolated record the harness observed; then as KPseudo on the
   rows of response_series(interp record, dt/m) *)
| KObj (pi2 dt ratio : Q) (periods vals : list Q) (m : Z) (vals_i : list Q) (u v a : list (list Q)) (sd sv sa : list Q) (rtol : Q)
(* energy spectra from the implementation's velocity rows *)
| KEnergy (dt : Q) (motion : list Q) (v : list (list Q)) (ein : list Q) (ein_series : list (list Q)) (uke : list Q) (rtol : Q)
(* predicates on outputs only *)
| KGeRaw (rtol : Q) (raw obj : list Q)
| KSignEnd (tol : Q) (ein : list Q)
(* spectrum intensities on the implementation's own pseudo spectrum ps (at least 2 periods):
   calc_asi = max(0.01 * cumulative_trapezoid |ps|) / g  (model: spectrum_intensity);
   calc_vsi = the same without the division           (model: spectrum_intensity_raw) *)
| KIntensity (g : Q) (ps : list Q) (out : Q) (rtol : Q)
| KIntensityRaw (ps : list Q) (out : Q) (rtol : Q).

Definition model_pseudo pi2 dt periods motion u v a := pseudo_spectra pi2 dt periods motion (rows3 u v a).

Definition check_case (c : case) : bool :=
  match c with
  | KPseudo pi2 dt periods motion u v a sd sv sa rtol =>
      close3 rtol (model_pseudo pi2 dt periods motion u v a) (sd, sv, sa)
      && all_nonneg3 (sd, sv, sa) && lens3 (length periods) (sd, sv, sa)
  | KTrue dt periods motion u v a sd sv sa rtol =>
      close3 rtol (true_spectra dt periods motion (rows3 u v a)) (sd, sv, sa)
      && all_nonneg3 (sd, sv, sa) && lens3 (length periods) (sd, sv, sa)
  | KObj pi2 dt ratio periods vals m vals_i u v a sd sv sa rtol =>
      Z.eqb (obj_factor dt ratio periods) m
      && close_list (rtol * qabsmax vals) (if Z.eqb m 1 then vals else interp_record vals m) vals_i
      && close3 rtol (model_pseudo pi2 (dt / inject_Z m) periods vals_i u v a) (sd, sv, sa)
      && all_nonneg3 (sd, sv, sa) && lens3 (length periods) (sd, sv, sa)
  | KEnergy dt motion v ein ein_series uke rtol =>
      close_list (rtol * qabsmax (map (fun r => nsum (map Qabs (map2 (fun a x => a * x * dt) motion r))) v)) (map (input_energy dt motion) v) ein
      && all2_close rtol (map (fun r => nsum (map Qabs (map2 (fun a x => a * x * dt) motion r))) v) (map (input_energy_series dt motion) v) ein_series
      && close_list (rtol * qabsmax uke) (map uke_row v) uke
  | KGeRaw rtol raw obj => (fix go (l1 l2 : list Q) := match l1, l2 with [], [] => true | r :: l1', o :: l2' => Qleb (r * (1 - rtol)) o && go l1' l2' | _, _ => false end) raw obj
  | KSignEnd tol ein => forallb (fun e => Qleb (- tol) e) ein
  | KIntensity g ps out rtol =>
      Nat.leb 2 (length ps) && qclose (rtol * Qabs out) (spectrum_intensity (1 # 100) g ps) out && Qleb 0 out
  | KIntensityRaw ps out rtol =>
      Nat.leb 2 (length ps) && qclose (rtol * Qabs out) (spectrum_intensity_raw (1 # 100) ps) out && Qleb 0 out
  end.
