(** Model of the Fourier amplitude spectrum functions (property C06):
      eqsig/single.py        Signal.gen_fa_spectrum(p2_plus, n), .fa_spectrum, .fa_freqs
      eqsig/fns/frequency.py generate_fa_spectrum, calc_fa_spectrum, fas2values, fas2signal
      eqsig/im.py            max_fa_period
    Generic in the number type and in the twiddle functions (lib/Dft.v); the theorems are about the R instance
    with the real cos/sin ([*_R] below), the Q instance with the exact twiddle table is what vm_compute runs.
    No proofs in this file. *)
From Coq Require Import ZArith QArith Reals List Bool.
From EQ Require Import lib.Num lib.NpList lib.Dft.
Import ListNotations.
Local Open Scope num_scope.

(** np.arange(n) as Z *)
Definition zrange (n : nat) : list Z := map Z.of_nat (seq 0 n).

(** ** transform length (pure integer arithmetic; npts = len(values) as Z) *)
(** 2 ** int(np.ceil(np.log2(npts)) + p2_plus) *)
Definition pow2_len (npts : Z) (p2 : Z) : Z := (2 ^ (Z.log2_up npts + p2))%Z.
(** Signal.gen_fa_spectrum(p2_plus=0, n=None) *)
Definition sig_nfft (npts : Z) (p2 : Z) (nopt : option Z) : Z :=
  match nopt with Some n => n | None => pow2_len npts p2 end.
(** calc_fa_spectrum(sig, n=None, p2_plus=None): unpadded when neither is given *)
Definition calc_nfft (npts : Z) (nopt p2opt : option Z) : Z :=
  match nopt, p2opt with
  | Some n, _ => n
  | None, Some p => pow2_len npts p
  | None, None => npts
  end.
(** generate_fa_spectrum(sig, n_pad=True) *)
Definition gen_nfft (npts : Z) (n_pad : bool) : Z := if n_pad then pow2_len npts 0 else npts.
(** points = int(N / 2) *)
Definition points (N : Z) : nat := Z.to_nat (N / 2).

Section Generic.
Context {T : Type} `{NumOps T}.
Variable twc tws : Z -> Z -> T.

(** fa[range(points)] * dt  with fa = np.fft.fft(values, n=N) *)
Definition fas_re (N : Z) (dt : T) (x : list T) : list T :=
  map (fun k => dft_re twc N x k * dt) (zrange (points N)).
Definition fas_im (N : Z) (dt : T) (x : list T) : list T :=
  map (fun k => dft_im tws N x k * dt) (zrange (points N)).
(** np.arange(points) / (N * dt) *)
Definition fa_freqs (N : Z) (dt : T) : list T :=
  map (fun k => nofZ k / (nofZ N * dt)) (zrange (points N)).

(** the three public generators: (real parts, imaginary parts, frequencies) *)
Definition spectrum (N : Z) (dt : T) (x : list T) : list T * list T * list T :=
  (fas_re N dt x, fas_im N dt x, fa_freqs N dt).
Definition npts_of (x : list T) : Z := Z.of_nat (length x).
Definition sig_spectrum (p2 : Z) (nopt : option Z) (dt : T) (x : list T) := spectrum (sig_nfft (npts_of x) p2 nopt) dt x.
Definition calc_spectrum (nopt p2opt : option Z) (dt : T) (x : list T) := spectrum (calc_nfft (npts_of x) nopt p2opt) dt x.
Definition gen_spectrum (n_pad : bool) (dt : T) (x : list T) := spectrum (gen_nfft (npts_of x) n_pad) dt x.

(** fas2values(fas, dt): n = 2 len(fas); a = zeros(n); a[1:n//2] = fas[1:]; a[n//2+1:] = flip(conj(fas[1:]));
    a /= dt; s = ifft(a)[:n] *)
Definition herm_re (dt : T) (re : list T) : list T :=
  map (fun v => v / dt) (n0 :: tl re ++ n0 :: rev (tl re)).
Definition herm_im (dt : T) (im : list T) : list T :=
  map (fun v => v / dt) (n0 :: tl im ++ n0 :: rev (map nopp (tl im))).
Definition fas2values_re (re im : list T) (dt : T) : list T :=
  let N := (2 * Z.of_nat (length re))%Z in
  map (fun n => idft_re twc tws N (herm_re dt re) (herm_im dt im) n) (zrange (Z.to_nat N)).
Definition fas2values_im (re im : list T) (dt : T) : list T :=
  let N := (2 * Z.of_nat (length re))%Z in
  map (fun n => idft_im twc tws N (herm_re dt re) (herm_im dt im) n) (zrange (Z.to_nat N)).
End Generic.

Section Generic2.
Context {T : Type} `{NumOps T}.
(** max_fa_period: np.argmax(np.abs(fa_spectrum)) then 1 / fa_frequencies[k].  |z| is monotone in |z|^2, so the
    model maximises re^2 + im^2 (no square root needed); [None] stands for the infinite period of bin 0 *)
Definition amp2 (re im : list T) : list T := map2 (fun a b => a * a + b * b) re im.
Definition max_fa_bin (re im : list T) : nat := argmax (amp2 re im).
Definition max_fa_period (re im fr : list T) : option T :=
  let f := nth (max_fa_bin re im) fr n0 in if f =? n0 then None else Some (n1 / f).
End Generic2.

(** ** the R instance (what the theorems are about) *)
Definition dft_re_R := dft_re (T := R) Rtwc.
Definition dft_im_R := dft_im (T := R) Rtws.
Definition fas_re_R := fas_re (T := R) Rtwc.
Definition fas_im_R := fas_im (T := R) Rtws.
Definition sig_spectrum_R := sig_spectrum (T := R) Rtwc Rtws.
Definition calc_spectrum_R := calc_spectrum (T := R) Rtwc Rtws.
Definition gen_spectrum_R := gen_spectrum (T := R) Rtwc Rtws.
Definition fas2values_re_R := fas2values_re (T := R) Rtwc Rtws.
Definition fas2values_im_R := fas2values_im (T := R) Rtwc Rtws.
(** max_fa_period of a record: default spectrum (p2_plus = 0) of the signal *)
Definition max_fa_period_R (dt : R) (x : list R) : option R :=
  let N := pow2_len (Z.of_nat (length x)) 0 in max_fa_period (fas_re_R N dt x) (fas_im_R N dt x) (fa_freqs N dt).

(** ** Fourier moments and the Boore (2003) bandwidth (eqsig/fns/frequency.py: calc_fourier_moment, get_bandwidth_boore_2003).
    [asig.fa_spectrum] is the COMPLEX one-sided spectrum, so `fa_spectrum ** 2` is the complex square (not |F|^2) and the
    moment is a complex number: a complex scalar is a pair (re, im), a complex array a pair of lists.
      calc_fourier_moment(asig, n) = 2 * np.trapz((2 pi f) ** n * F ** 2, x=f)      (n a non-negative int: 0, 2, 4 in the caller;
                                                                                    a non-integer n is outside the model)
      get_bandwidth_boore_2003     = np.sqrt(m2 ** 2 / (m0 * m4))                    (complex arithmetic; the complex square root
                                                                                    is a parameter [csqrt])
    [None] stands for numpy's nan + nan j of a division by the complex zero (RuntimeWarning; e.g. the zero record).
    [pi] is a parameter (the real PI in the theorems, the rational value of the float np.pi in the Q run). *)
From EQ Require Import lib.NpHelpers.
Local Open Scope num_scope.

Section Moments.
Context {T : Type} `{NumOps T}.
(** complex product, square, real multiple, test for zero, quotient (textbook formulas on pairs) *)
Definition cmulp (a b : T * T) : T * T := (fst a * fst b - snd a * snd b, fst a * snd b + snd a * fst b).
Definition csq (a : T * T) : T * T := cmulp a a.
Definition cscale (s : T) (a : T * T) : T * T := (s * fst a, s * snd a).
Definition czero (a : T * T) : bool := (fst a =? n0) && (snd a =? n0).
Definition cdivp (a b : T * T) : option (T * T) :=
  if czero b then None
  else Some ((fst a * fst b + snd a * snd b) / (fst b * fst b + snd b * snd b),
             (snd a * fst b - fst a * snd b) / (fst b * fst b + snd b * snd b)).
(** np.trapz(y, x=x): sum over the panels of (x[i+1] - x[i]) * (y[i+1] + y[i]) / 2 *)
Definition trapz_x (y x : list T) : T :=
  nsum (map2 (fun d s => d * s / nofZ 2) (diff x) (map2 nadd (tl y) y)).
(** (2 pi f) ** n *)
Definition moment_weight (pi : T) (n : nat) (fr : list T) : list T := map (fun f => npow (nofZ 2 * pi * f) n) fr.
(** real and imaginary part of F ** 2 *)
Definition spec_sq_re (re im : list T) : list T := map2 (fun a b => a * a - b * b) re im.
Definition spec_sq_im (re im : list T) : list T := map2 (fun a b => a * b + b * a) re im.
Definition fourier_moment (pi : T) (n : nat) (fr re im : list T) : T * T :=
  cscale (nofZ 2) (trapz_x (map2 nmul (moment_weight pi n fr) (spec_sq_re re im)) fr,
                   trapz_x (map2 nmul (moment_weight pi n fr) (spec_sq_im re im)) fr).
(** m2 ** 2 / (m0 * m4) *)
Definition boore_of_moments (m0 m2 m4 : T * T) : option (T * T) := cdivp (csq m2) (cmulp m0 m4).
Definition boore_arg (pi : T) (fr re im : list T) : option (T * T) :=
  boore_of_moments (fourier_moment pi 0 fr re im) (fourier_moment pi 2 fr re im) (fourier_moment pi 4 fr re im).
Definition bandwidth_boore (csqrt : T * T -> T * T) (pi : T) (fr re im : list T) : option (T * T) :=
  option_map csqrt (boore_arg pi fr re im).
End Moments.
