(** C04, source-text tie: definitions (no proofs) - the summaries read off the hand-written state machine
    model/M_cache.v, and their comparison with the summaries translated from eqsig/single.py
    (gen/Gen_cache_events.v).  Lemmas: proofs/P_C04_events.v; statements: props/Prop_C04_events.v.

    Every operation of the model is run from every flag state (2^7 = 128 for AccSignal, 2^2 = 4 for Signal) at two
    instances of the signature -
      - the trivial signature [Sunit] of model/K_C04.v (flags after the operation), and
      - a *probe* signature [Sprobe] whose "numeric functions" return tags instead of numbers: every stored quantity
        starts with a stale tag naming its slot; every recomputation returns a fresh tag followed by the tags of what
        it was computed from; a mutator's result encodes whether it was handed the velocity/displacement and pga;
        the stored length starts different from the length function.  From the state after the operation one reads
        off: which slots hold a value computed by the operation, what it was computed from, whether values / _npts /
        settings were rewritten, what the returned value is made of.
    [failing_acc] / [failing_sig] name the operations whose translated summary differs (used by the harness to say
    which method changed when the proof obligation breaks). *)
From Coq Require Import List Bool Arith String.
From EQ Require Import model.M_cache model.K_C04 model.M_cache_events gen.Gen_cache_events.
Import ListNotations.

(** ---- the model-derived summaries ---- *)
Definition code_of (x : list nat) : nat := hd 99 x.
Definition ocode (o : option (list nat)) : nat := match o with None => 0 | Some x => 1 + (code_of x) mod 100 end.
(** tags: 0..6 = the slot of [dq] number i (stale content), 100+i = computed now, 107 = response_series (never stored);
    50 values, 51 smoothing frequencies, 52 response periods *)
Definition Sprobe : sig :=
  Sig nat nat nat (list nat) unit
      (fun v => 1000 + v)
      (fun _ => [100; 50])
      (fun x _ => [101; (code_of x) mod 100; 51])
      (fun _ _ => [102; 50; 52])
      (fun _ => [103; 50])
      (fun _ => [104; 50])
      (fun x => [105; (code_of x) mod 100])
      (fun x => [106; (code_of x) mod 100])
      (fun _ _ => [107; 50; 52])
      (fun _ _ _ _ dv pg => 1 + 10 * ocode dv + 100 * ocode pg)
      (fun _ _ sf => S sf) (fun _ _ rt => S rt) [99].
Definition to_opP (k : kop) : op Sprobe :=
  match k with
  | KR r => Read r | KG g => Gen g | KM m => Mut (S:=Sprobe) m tt | KS t => SetSF (S:=Sprobe) t tt | KT t => SetRT (S:=Sprobe) t tt
  end.
Definition some_if' (b : bool) (x : list nat) : option (list nat) := if b then Some x else None.
Definition probe_state (m : nat) : st Sprobe :=
  mk (S:=Sprobe) 0 0 0 7 (bit m 1) [0] (bit m 2) [1] (bit m 4) [2] (bit m 8) [3]
     (some_if' (bit m 16) [4]) (some_if' (bit m 32) [5]) (some_if' (bit m 64) [6]).

Definition postU (k : kop) (m : nat) : st Sunit := post (to_op k) (state_of_mask m).
Definition postP (k : kop) (m : nat) : st Sprobe := post (to_opP k) (probe_state m).
Definition outP (k : kop) (m : nat) : option (outv Sprobe) := out (to_opP k) (probe_state m).

Definition slot_of (d : dq) (s : st Sprobe) : option (list nat) :=
  match d with
  | Fa => Some (s_fa s) | Sm => Some (s_sm s) | Resp => Some (s_resp s) | DV => Some (s_dv s)
  | Pga => p_pga s | Pgv => p_pgv s | Pgd => p_pgd s
  end.
(** the slot holds a value computed during the operation *)
Definition fresh (d : dq) (s : st Sprobe) : bool :=
  match slot_of d s with Some x => 100 <=? code_of x | None => false end.

Definition candidates (ds : list dq) (d : dq) : list effect :=
  [Untouched; Cleared; SetAlways; SetIfWasClear; ClearedAfterLazyFill]
  ++ map SetIfWasClearUnder (filter (fun g => negb (dq_eqb g d)) ds).
(** one row per flag state: the state, the flag word after the operation, the probe state after it *)
Definition row := (nat * nat * st Sprobe)%type.
Definition rows (ms : list nat) (k : kop) : list row := map (fun m => (m, mask (postU k m), postP k m)) ms.
Definition fits (tab : list row) (d : dq) (e : effect) : bool :=
  forallb (fun r : row => let '(m, um, sp) := r in
             Bool.eqb (flag d um) (effF e d m) && Bool.eqb (fresh d sp) (effW e d m)) tab.
(** read off Untouched / Cleared / SetAlways / SetIfWasClear / ... from the behaviour in every flag state of the table *)
Definition classify (tab : list row) (ds : list dq) (d : dq) : effect :=
  match filter (fits tab d) (candidates ds d) with e :: _ => e | [] => Irregular end.
Definition m_eff (tab : list row) (ds : list dq) (d : dq) : effect :=
  if existsb (dq_eqb d) ds then classify tab ds d else Untouched.

Definition all_inputs : list input := [IValues; INpts; ISF; IRT] ++ map ISlot all_dq.
Definition canon (l : list input) : list input := filter (fun i => existsb (input_eqb i) l) all_inputs.
Definition decode_in (c : nat) : list input := filter (fun i => Nat.eqb (input_code i) c) all_inputs.
Definition dq_of_ocode (c : nat) : list dq := filter (fun d => Nat.eqb (S (dq_code d)) c) all_dq.

Definition ret_at (k : kop) (m : nat) : list input :=
  match outP k m with
  | None => []
  | Some (O_n _) => [INpts]
  | Some (O_v _) => [IValues]
  | Some (O_sf _) => [ISF]
  | Some (O_rt _) => [IRT]
  | Some (O_x x) => if Nat.eqb ((code_of x) mod 100) 7 then canon (flat_map decode_in (tl x)) else decode_in ((code_of x) mod 100)
  end.
Definition uses_at (k : kop) (m : nat) : list dq :=
  let v := vals (postP k m) in
  filter (fun d => existsb (dq_eqb d) (dq_of_ocode ((v / 10) mod 10) ++ dq_of_ocode ((v / 100) mod 10))) all_dq.

Definition model_summary (ms : list nat) (ds : list dq) (k : kop) : summary :=
  let tab := rows ms k in
  mkS (m_eff tab ds Fa) (m_eff tab ds Sm) (m_eff tab ds Resp) (m_eff tab ds DV) (m_eff tab ds Pga) (m_eff tab ds Pgv) (m_eff tab ds Pgd)
      (negb (Nat.eqb (vals (postP k 0)) 0))
      (negb (Nat.eqb (s_npts (postP k 0)) 7))
      (negb (Nat.eqb (sfq (postP k 0)) 0))
      (negb (Nat.eqb (rtm (postP k 0)) 0))
      (uses_at k 0) (ret_at k 0).
(** the flag-independent parts of the summary are indeed the same in every flag state *)
Definition model_uniform (ms : list nat) (k : kop) : bool :=
  forallb (fun m =>
    Nat.eqb (vals (postP k m)) (vals (postP k 0)) && Nat.eqb (s_npts (postP k m)) (s_npts (postP k 0))
    && Nat.eqb (sfq (postP k m)) (sfq (postP k 0)) && Nat.eqb (rtm (postP k m)) (rtm (postP k 0))
    && list_eqb input_eqb (ret_at k m) (ret_at k 0)) ms.

(** recipes *)
Definition recipe_at (d : dq) (k : kop) (m : nat) : option (list input) :=
  match slot_of d (postP k m) with
  | Some x => if 100 <=? code_of x then Some (canon (flat_map decode_in (tl x))) else None
  | None => None
  end.
Definition reader_of (d : dq) : reader :=
  match d with Fa => R_fa_spectrum | Sm => R_smooth_fa_spectrum | Resp => R_s_a | DV => R_velocity | Pga => R_pga | Pgv => R_pgv | Pgd => R_pgd end.
Definition model_recipe (d : dq) : list input :=
  match recipe_at d (KR (reader_of d)) 0 with Some l => l | None => [] end.
Definition recipes_uniform (ms : list nat) (ks : list kop) (ds : list dq) : bool :=
  forallb (fun k => forallb (fun m => forallb (fun d =>
     match recipe_at d k m with Some l => list_eqb input_eqb l (model_recipe d) | None => true end) ds) ms) ks.
(** the model's numeric functions take the values, never the stored length (which is the length of the values
    whenever the invariant holds): [INpts] is dropped from the translated recipe before comparing *)
Definition drop_npts (l : list input) : list input := filter (fun i => negb (input_eqb i INpts)) l.
Definition recipe_matches (tr : list (dq * list input)) (d : dq) : bool :=
  match lookup_dq d tr with
  | Some l => list_eqb input_eqb (drop_npts l) (model_recipe d) && negb (match model_recipe d with [] => true | _ => false end)
  | None => false
  end.

(** ---- comparison with the translated tables ---- *)
Definition acc_states : list nat := seq 0 128.
Definition sig_states : list nat := seq 0 4.
Definition all_ops : list kop := all_kops.
Definition sig_ops : list kop := filter sig_kop all_kops.

Definition op_matches (k : kop) : bool :=
  match lookup k acc_summaries with
  | Some s => summary_eqb (model_summary acc_states all_dq k) s && model_uniform acc_states k
  | None => false
  end.
(** a plain Signal: only the two flags exist; on its operations the model never touches another flag or slot *)
Definition stays_sig (k : kop) : bool :=
  forallb (fun m => (mask (postU k m) <? 4)
                    && forallb (fun d => negb (fresh d (postP k m))) [Resp; DV; Pga; Pgv; Pgd]) sig_states.
Definition op_matches_sig (k : kop) : bool :=
  match lookup k sig_summaries with
  | Some s => summary_eqb (model_summary sig_states sig_dq k) s && model_uniform sig_states k && stays_sig k
  | None => false
  end.
Definition keys_ok (l : list (kop * summary)) (ks : list kop) : bool :=
  list_eqb kop_eqb (map fst l) ks.


(** the translated summary of an operation (a summary that fits nothing if the table has no entry) *)
Definition dummy : summary := mkS Irregular Irregular Irregular Irregular Irregular Irregular Irregular false false false false [] [].
Definition acc_summary (k : kop) : summary := match lookup k acc_summaries with Some s => s | None => dummy end.
Definition sig_summary (k : kop) : summary := match lookup k sig_summaries with Some s => s | None => dummy end.

(** a table of summaries as a transformer of flag words along a history *)
Fixpoint summary_trace (tab : kop -> summary) (h : list kop) (m : nat) : list nat :=
  match h with [] => [] | k :: r => let m' := apply_summary (tab k) m in m' :: summary_trace tab r m' end.

(** diagnostics for the harness: operations whose translated and model-derived summaries differ, with both *)
Definition failing_acc : list (kop * summary * option summary) :=
  map (fun k => (k, model_summary acc_states all_dq k, lookup k acc_summaries)) (filter (fun k => negb (op_matches k)) all_ops).
Definition failing_sig : list (kop * summary * option summary) :=
  map (fun k => (k, model_summary sig_states sig_dq k, lookup k sig_summaries)) (filter (fun k => negb (op_matches_sig k)) sig_ops).
