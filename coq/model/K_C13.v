(** Correspondence checkers for C13 (peak-only series, power-law equivalent cycles), evaluated at T := Q by vm_compute.
    Implementation outputs are shipped as exact rationals. *)
From Coq Require Import ZArith QArith Qabs List Bool.
From EQ Require Import lib.Num lib.NpList lib.Chk model.M_peaks model.M_cycles.
Import ListNotations.

(** ** peak-only series (exact domain: tolerance 0) *)
Definition ident_delta (xs d : list Q) : bool :=
  Qeqb (nsum (vabs d)) (tv xs) && Qeqb (nabs (nsum d)) (nabs (nsub (last xs 0) (xat xs 0))).
Definition ident_pseudo (xs ps : list Q) : bool :=
  Qeqb (nsum ps) (nadd (nmul half (tv xs)) (nmul (nmul half (sgn_final xs)) (nsub (last xs 0) (xat xs 0)))).
(** (series, implementation output): the output equals the model AND satisfies the conservation identities of the
    property (evaluated on the implementation output itself: this is the property predicate when the tie breaks) *)
Definition chk_delta (c : list Q * list Q) : bool :=
  close_list 0 (delta_series (fst c)) (snd c) && ident_delta (fst c) (snd c).
Definition chk_pseudo (c : list Q * list Q) : bool :=
  close_list 0 (pseudo_series (fst c)) (snd c) && ident_pseudo (fst c) (snd c).
(** replay information: (model output, do the identities hold on the implementation output) *)
Definition report_delta (c : list Q * list Q) := (delta_series (fst c), ident_delta (fst c) (snd c)).
Definition report_pseudo (c : list Q * list Q) := (pseudo_series (fst c), ident_pseudo (fst c) (snd c)).
(** exact equality of two implementation outputs (shift invariance) *)
Definition chk_same_exact (c : list Q * list Q) : bool := close_list 0 (fst c) (snd c).

(** ** power-law kernels at Q: either an integer power (b = 1/e) or a table key |-> implementation kernel value
    (each table entry is separately enclosed against the real power by an [interval] goal) *)
Inductive kern := KPow (e : nat) | KTab (t : list (Q * Q)).
Definition has_key (t : list (Q * Q)) (x : Q) : bool := Qeqb x 0 || existsb (fun p => Qeqb (fst p) x) t.
Definition lookup (t : list (Q * Q)) (x : Q) : Q :=
  if Qeqb x 0 then 0 else match find (fun p => Qeqb (fst p) x) t with Some p => snd p | None => 0 end.
(** x |-> x^(1/b) *)
Definition kpw (k : kern) (x : Q) : Q := match k with KPow e => npow x e | KTab t => lookup t x end.
Definition kdefined (k : kern) (xs : list Q) : bool := match k with KPow _ => true | KTab t => forallb (has_key t) xs end.
(** v |-> (a_ref / v)^(1/b): computed for integer powers, looked up (keyed on v) for tables *)
Definition kkn (k : kern) (a_ref : Q) (v : Q) : Q := match k with KPow e => npow (ndiv a_ref v) e | KTab t => lookup t v end.
Definition tinyQ : Q := 6338253001141147 # 633825300114114700748351602688.  (* the binary64 value of 1.0e-14 *)
Definition rel_close (rtol : Q) (m out : list Q) : bool := close_list (rtol * qabsmax m) m out.

(** calc_n_cyc_array_w_power_law: (kernel, a_ref, cut_off, series, implementation output, rtol) *)
Definition ncyc_model (k : kern) (aref cut : Q) (xs : list Q) : list Q := n_cyc_core (kkn k aref) cut tinyQ xs.
Definition chk_ncyc (c : kern * Q * Q * list Q * list Q * Q) : bool :=
  let '(k, aref, cut, xs, out, rtol) := c in
  kdefined k (peak_amps cut tinyQ xs) && rel_close rtol (ncyc_model k aref cut xs) out.
(** calc_cyc_amp_array_w_power_law: (inner kernel x^(1/b), outer-inverse kernel out |-> out^(1/b), n_cyc, series, output, rtol):
    the rational inner sum is compared with the implementation output raised to 1/b *)
Definition chk_amp (c : kern * kern * Q * list Q * list Q * Q) : bool :=
  let '(k, ko, ncyc, xs, out, rtol) := c in
  kdefined k (sw_series xs) && kdefined ko out && rel_close rtol (amp_core (kpw k) ncyc xs) (map (kpw ko) out).
Definition chk_comb (c : kern * kern * Q * list Q * list Q * list Q * Q) : bool :=
  let '(k, ko, ncyc, xs, ys, out, rtol) := c in
  kdefined k (sw_series xs) && kdefined k (sw_series ys) && kdefined ko out &&
  rel_close rtol (comb_core (kpw k) ncyc xs ys) (map (kpw ko) out).
(** geometric mean: (out^(1/b))^2 = core(xs) * core(ys) *)
Definition chk_gm (c : kern * kern * Q * list Q * list Q * list Q * Q) : bool :=
  let '(k, ko, ncyc, xs, ys, out, rtol) := c in
  kdefined k (sw_series xs) && kdefined k (sw_series ys) && kdefined ko out &&
  rel_close rtol (map2 nmul (amp_core (kpw k) ncyc xs) (amp_core (kpw k) ncyc ys)) (map (fun v => let w := kpw ko v in nmul w w) out).

(** ** relational clauses evaluated on implementation outputs: b ~ k * a within rtol (inverse law, linear scaling,
    joint-scaling invariance, 2^b combination, geometric mean of identical components) *)
Definition chk_rel (c : Q * list Q * list Q * Q) : bool :=
  let '(k, a, b, rtol) := c in rel_close rtol b (map (nmul k) a).
(** record length and non-decreasing *)
Fixpoint nondecb (l : list Q) : bool :=
  match l with a :: ((b :: _) as r) => Qleb a b && nondecb r | _ => true end.
Definition chk_mono (c : nat * list Q) : bool := Nat.eqb (length (snd c)) (fst c) && nondecb (snd c).

(** ** one entry point per group (fewer coqc start-ups per run) *)
Inductive scase := SDelta (c : list Q * list Q) | SPseudo (c : list Q * list Q) | SSame (c : list Q * list Q).
Definition chk_series (c : scase) : bool :=
  match c with SDelta c => chk_delta c | SPseudo c => chk_pseudo c | SSame c => chk_same_exact c end.
Definition report_series (c : scase) : option (list Q * bool) :=
  match c with SDelta c => Some (report_delta c) | SPseudo c => Some (report_pseudo c) | SSame _ => None end.
Inductive pcase :=
| PNcyc (c : kern * Q * Q * list Q * list Q * Q)
| PAmp (c : kern * kern * Q * list Q * list Q * Q)
| PComb (c : kern * kern * Q * list Q * list Q * list Q * Q)
| PGm (c : kern * kern * Q * list Q * list Q * list Q * Q)
| PRel (c : Q * list Q * list Q * Q)
| PMono (c : nat * list Q).
Definition chk_power (c : pcase) : bool :=
  match c with PNcyc c => chk_ncyc c | PAmp c => chk_amp c | PComb c => chk_comb c | PGm c => chk_gm c
             | PRel c => chk_rel c | PMono c => chk_mono c end.
(** replay information: the model's series for the case *)
Definition report_power (c : pcase) : list Q :=
  match c with
  | PNcyc (k, aref, cut, xs, _, _) => ncyc_model k aref cut xs
  | PAmp (k, _, ncyc, xs, _, _) => amp_core (kpw k) ncyc xs
  | PComb (k, _, ncyc, xs, ys, _, _) => comb_core (kpw k) ncyc xs ys
  | PGm (k, _, ncyc, xs, ys, _, _) => map2 nmul (amp_core (kpw k) ncyc xs) (amp_core (kpw k) ncyc ys)
  | PRel (k, a, _, _) => map (nmul k) a
  | PMono _ => []
  end.
