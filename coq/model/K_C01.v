(** Correspondence checker for C01 (and the structural part of C02/C03): implementation outputs of
    nigam_and_jennings_response / response_series / AccSignal.response_series vs the Q instance of M_sdof,
    with the per-oscillator coefficients supplied by the implementation's own compute_a_and_b (exact rationals). *)
From Coq Require Import ZArith QArith Qabs List Bool.
From EQ Require Import lib.Num lib.NpList lib.Chk model.M_sdof.
Import ListNotations.

Record case := { c_c2pi : Q; c_xi : Q; c_periods : list Q; c_rec : list Q; c_cfs : list (list Q);
                 c_u : list (list Q); c_v : list (list Q); c_a : list (list Q); c_rtol : Q;
                 c_global : bool (* true: compare with the exactly propagated model series (small exact-domain cases);
                                    false: check the model's one-step relation on the implementation's own series *) }.

Definition mkc (l : list Q) : coeffs Q :=
  match l with [a; b; c; d; e; f; g; h] => mkC a b c d e f g h | _ => mkC 0 0 0 0 0 0 0 0 end.

Definition model_out (c : case) : list (list Q * list Q * list Q) :=
  response_with (map mkc (c_cfs c)) (c_c2pi c) (c_xi c) (c_periods c) (c_rec c).

(** angular frequency of every returned row (0 for the row of a leading zero period) *)
Definition row_ws (c : case) : list Q :=
  let ws := map (w_of (c_c2pi c)) (osc_periods (c_periods c)) in
  if leading_zero (c_periods c) then 0 :: ws else ws.

Definition row_ok (rtol xi w : Q) (m : list Q * list Q * list Q) (iu iv ia : list Q) : bool :=
  let '(mu, mv, ma) := m in
  close_list (rtol * qabsmax mu) mu iu && close_list (rtol * qabsmax mv) mv iv &&
  close_list (rtol * (Qabs (2 * xi * w) * qabsmax mv + w * w * qabsmax mu + qabsmax ma)) ma ia.

Fixpoint rows_ok (rtol xi : Q) (ws : list Q) (ms : list (list Q * list Q * list Q)) (iu iv ia : list (list Q)) : bool :=
  match ws, ms, iu, iv, ia with
  | [], [], [], [], [] => true
  | w :: ws', m :: ms', u :: iu', v :: iv', a :: ia' => row_ok rtol xi w m u v a && rows_ok rtol xi ws' ms' iu' iv' ia'
  | _, _, _, _, _ => false
  end.

(** the property's third-series clause evaluated on the implementation's own outputs:
    a = -(2 xi w v + w^2 u) sample by sample (rows of a leading zero period: u = v = 0 and a = -record) *)
Fixpoint third_ok (tol xi w : Q) (iu iv ia : list Q) : bool :=
  match iu, iv, ia with
  | [], [], [] => true
  | u :: iu', v :: iv', a :: ia' => qclose tol a (- (2 * xi * w * v + w * w * u)) && third_ok tol xi w iu' iv' ia'
  | _, _, _ => false
  end.
Fixpoint thirds_ok (rtol xi : Q) (ws : list Q) (iu iv ia : list (list Q)) : bool :=
  match ws, iu, iv, ia with
  | [], [], [], [] => true
  | w :: ws', u :: iu', v :: iv', a :: ia' =>
      third_ok (rtol * (Qabs (2 * xi * w) * qabsmax v + w * w * qabsmax u) + (1 # (2 ^ 1000)%positive)) xi w u v a && thirds_ok rtol xi ws' iu' iv' ia'
  | _, _, _, _ => false
  end.
Definition zero_row_ok (c : case) : bool :=
  if leading_zero (c_periods c) then
    match c_u c, c_v c, c_a c with
    | u :: _, v :: _, a :: _ => close_list 0 u (map (fun _ => 0) (c_rec c)) && close_list 0 v (map (fun _ => 0) (c_rec c))
                                && close_list 0 a (map Qopp (c_rec c))
    | _, _, _ => false
    end
  else true.

(** Local form of the recurrence, evaluated on the implementation's own series: state 0 is (0,0) and every next state is
    [nj_step] of the previous one, within rtol * (sum of the absolute values of the four terms) — about 1000 roundings.
    With tolerance 0 this forces the series to BE [nj_series] (induction over the samples); it keeps every number at
    binary64 size, so records of any length can be checked. *)
(** absolute floor (2^-1000): below it binary64 is in its subnormal range and relative error bounds do not apply *)
Definition tiny : Q := 1 # (2 ^ 1000)%positive.

Definition term_scale (c : coeffs Q) (u v f0 f1 : Q) : Q * Q :=
  (Qabs (a11 c * u) + Qabs (a12 c * v) + Qabs (b11 c * f0) + Qabs (b12 c * f1),
   Qabs (a21 c * u) + Qabs (a22 c * v) + Qabs (b21 c * f0) + Qabs (b22 c * f1)).
Fixpoint local_from (rtol : Q) (c : coeffs Q) (u v f0 : Q) (us vs fs : list Q) : bool :=
  match us, vs, fs with
  | [], [], [] => true
  | u1 :: us', v1 :: vs', f1 :: fs' =>
      let '(mu, mv) := nj_step c (u, v) f0 f1 in
      let '(su, sv) := term_scale c u v f0 f1 in
      qclose (rtol * su + tiny) mu u1 && qclose (rtol * sv + tiny) mv v1 && local_from rtol c u1 v1 f1 us' vs' fs'
  | _, _, _ => false
  end.
Definition local_row (rtol : Q) (c : coeffs Q) (rec us vs : list Q) : bool :=
  match us, vs, map Qopp rec with
  | [], [], [] => true
  | u0 :: us', v0 :: vs', f0 :: fs' => Qeqb u0 0 && Qeqb v0 0 && local_from rtol c 0 0 f0 us' vs' fs'
  | _, _, _ => false
  end.
Fixpoint local_rows (rtol : Q) (cs : list (coeffs Q)) (rec : list Q) (iu iv : list (list Q)) : bool :=
  match cs, iu, iv with
  | [], [], [] => true
  | c :: cs', u :: iu', v :: iv' => local_row rtol c rec u v && local_rows rtol cs' rec iu' iv'
  | _, _, _ => false
  end.

Definition check_case (c : case) : bool :=
  let lz := leading_zero (c_periods c) in
  (if c_global c then rows_ok (c_rtol c) (c_xi c) (row_ws c) (model_out c) (c_u c) (c_v c) (c_a c)
   else local_rows (c_rtol c) (map mkc (c_cfs c)) (c_rec c) (if lz then tl (c_u c) else c_u c) (if lz then tl (c_v c) else c_v c))
  && Nat.eqb (length (c_u c)) (length (c_periods c))
  && zero_row_ok c
  && thirds_ok (c_rtol c) (c_xi c) (if lz then tl (row_ws c) else row_ws c)
       (if lz then tl (c_u c) else c_u c) (if lz then tl (c_v c) else c_v c) (if lz then tl (c_a c) else c_a c).
