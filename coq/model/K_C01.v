(** Correspondence checker for C01 (and the structural part of C02/C03): implementation outputs of
    nigam_and_jennings_response / response_series / AccSignal.response_series vs the Q instance of M_sdof,
    with the per-oscillator coefficients supplied by the implementation's own compute_a_and_b (exact rationals). *)
From Coq Require Import ZArith QArith Qabs List Bool.
From EQ Require Import lib.Num lib.NpList lib.Chk model.M_sdof.
Import ListNotations.

Record case := { c_c2pi : Q; c_xi : Q; c_periods : list Q; c_rec : list Q; c_cfs : list (list Q);
                 c_u : list (list Q); c_v : list (list Q); c_a : list (list Q); c_rtol : Q }.

Definition mkc (l : list Q) : coeffs Q :=
  match l with [a; b; c; d; e; f; g; h] => mkC a b c d e f g h | _ => mkC 0 0 0 0 0 0 0 0 end.

Definition model_out (c : case) : list (list Q * list Q * list Q) :=
  response_with (map mkc (c_cfs c)) (c_c2pi c) (c_xi c) (c_periods c) (c_rec c).

(** angular frequency of every returned row (0 for the row of a leading zero period) *)
Definition row_ws (c : case) : list Q :=
  let ws := map (w_of (c_c2pi c)) (osc_periods (c_periods c)) in
  if leading_zero (c_periods c) then 0 :: ws else ws.

Definition row_ok (rtol xi w : Q) (m : list Q * list Q * list Q) (iu iv ia : list Q) : bool :=
  let '(mu, mv, ma) := m in
  close_list (rtol * qabsmax mu) mu iu && close_list (rtol * qabsmax mv) mv iv &&
  close_list (rtol * (Qabs (2 * xi * w) * qabsmax mv + w * w * qabsmax mu + qabsmax ma)) ma ia.

Fixpoint rows_ok (rtol xi : Q) (ws : list Q) (ms : list (list Q * list Q * list Q)) (iu iv ia : list (list Q)) : bool :=
  match ws, ms, iu, iv, ia with
  | [], [], [], [], [] => true
  | w :: ws', m :: ms', u :: iu', v :: iv', a :: ia' => row_ok rtol xi w m u v a && rows_ok rtol xi ws' ms' iu' iv' ia'
  | _, _, _, _, _ => false
  end.

(** the property's third-series clause evaluated on the implementation's own outputs:
    a = -(2 xi w v + w^2 u) sample by sample (rows of a leading zero period: u = v = 0 and a = -record) *)
Fixpoint third_ok (tol xi w : Q) (iu iv ia : list Q) : bool :=
  match iu, iv, ia with
  | [], [], [] => true
  | u :: iu', v :: iv', a :: ia' => qclose tol a (- (2 * xi * w * v + w * w * u)) && third_ok tol xi w iu' iv' ia'
  | _, _, _ => false
  end.
Fixpoint thirds_ok (rtol xi : Q) (ws : list Q) (iu iv ia : list (list Q)) : bool :=
  match ws, iu, iv, ia with
  | [], [], [], [] => true
  | w :: ws', u :: iu', v :: iv', a :: ia' =>
      third_ok (rtol * (Qabs (2 * xi * w) * qabsmax v + w * w * qabsmax u)) xi w u v a && thirds_ok rtol xi ws' iu' iv' ia'
  | _, _, _, _ => false
  end.
Definition zero_row_ok (c : case) : bool :=
  if leading_zero (c_periods c) then
    match c_u c, c_v c, c_a c with
    | u :: _, v :: _, a :: _ => close_list 0 u (map (fun _ => 0) (c_rec c)) && close_list 0 v (map (fun _ => 0) (c_rec c))
                                && close_list 0 a (map Qopp (c_rec c))
    | _, _, _ => false
    end
  else true.

Definition check_case (c : case) : bool :=
  rows_ok (c_rtol c) (c_xi c) (row_ws c) (model_out c) (c_u c) (c_v c) (c_a c)
  && zero_row_ok c
  && thirds_ok (c_rtol c) (c_xi c) (if leading_zero (c_periods c) then tl (row_ws c) else row_ws c)
       (if leading_zero (c_periods c) then tl (c_u c) else c_u c)
       (if leading_zero (c_periods c) then tl (c_v c) else c_v c)
       (if leading_zero (c_periods c) then tl (c_a c) else c_a c).
