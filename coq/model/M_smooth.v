(** Model of the Konno-Ohmachi smoothing of eqsig/fns/frequency.py (calc_smooth_fa_spectrum,
    calc_smoothing_matrix_konno_1998, calc_smooth_fa_spectrum_w_custom_matrix) and of the bandwidth limits of
    eqsig/im.py (calc_bandwidth_freqs / f_min / f_max) and get_sig_array_indexes_range (property C07).
    The array plumbing is generic over [NumOps T] and over the window function [w]; the window itself
    (sin, log10) exists only at R. No proofs in this file. *)
From Coq Require Import ZArith QArith Reals List Bool.
From EQ Require Import lib.Num lib.NpList.
Import ListNotations.
Local Open Scope num_scope.

Section Generic.
Context {T : Type} `{NumOps T}.

(** [if fa_frequencies[0] == 0: fa_frequencies = fa_frequencies[1:]; fa_spectrum = fa_spectrum[1:]] *)
Definition drop_zero_f (freqs : list T) : list T :=
  match freqs with f0 :: fr => if f0 =? n0 then fr else freqs | [] => [] end.
Definition drop_zero_a (freqs amps : list T) : list T :=
  match freqs with f0 :: _ => if f0 =? n0 then tl amps else amps | [] => amps end.

Section Window.
Variable w : T -> T -> T.   (* w f fc : un-normalised weight of Fourier frequency f for target frequency fc *)

(** one column of [wb_vals] before and after [wb_vals /= np.sum(wb_vals, axis=0)] *)
Definition raw_col (freqs : list T) (fc : T) : list T := map (fun f => w f fc) freqs.
Definition norm_col (col : list T) : list T := let s := nsum col in map (fun x => x / s) col.
Definition ko_col (freqs : list T) (fc : T) : list T := norm_col (raw_col freqs fc).

(** [np.sum(abs(fa_spectrum)[:, np.newaxis] * wb_vals, axis=0)[j]] and [np.dot(abs(a), M)[j]] *)
Definition wmean (amps col : list T) : T := nsum (map2 (fun a wn => nabs a * wn) amps col).

(** calc_smooth_fa_spectrum(fa_frequencies, fa_spectrum, smooth_fa_frequencies, band) *)
Definition smooth_gen (freqs amps targets : list T) : list T :=
  let fr := drop_zero_f freqs in let am := drop_zero_a freqs amps in
  map (fun fc => wmean am (ko_col fr fc)) targets.
(** smooth_fa_frequencies=None: the targets are the (non-zero) Fourier frequencies themselves *)
Definition smooth_gen_default (freqs amps : list T) : list T := smooth_gen freqs amps (drop_zero_f freqs).

(** calc_smoothing_matrix_konno_1998: shape (n_freq, n_target); represented as the list of its columns *)
Definition matrix_gen (freqs targets : list T) : list (list T) :=
  let fr := drop_zero_f freqs in map (ko_col fr) targets.
End Window.

(** calc_smooth_fa_spectrum_w_custom_matrix: np.dot(abs(asig.fa_spectrum[1:]), smooth_matrix) - always drops bin 0 *)
Definition smooth_w_matrix (amps : list T) (cols : list (list T)) : list T := map (wmean (tl amps)) cols.

(** bandwidth limits: [np.where(s > max(s) * ratio)[0]] first and last *)
Definition first_last_above (lim : T) (s : list T) : option (nat * nat) :=
  let idx := where_idx (fun x => lim <? x) s in
  match idx with [] => None | i :: _ => Some (i, last idx i) end.
Definition bw_idx (ratio : T) (s : list T) : option (nat * nat) := first_last_above (amax s * ratio) s.
(** get_sig_array_indexes_range: limit max/ratio *)
Definition sig_idx_range (ratio : T) (s : list T) : option (nat * nat) := first_last_above (amax s / ratio) s.
Definition take_pair (freqs : list T) (r : option (nat * nat)) : option (T * T) :=
  match r with None => None | Some (i, j) => Some (nth i freqs n0, nth j freqs n0) end.
(** calc_bandwidth_freqs(asig, ratio) = (f_min, f_max); None where the implementation raises IndexError *)
Definition bandwidth_freqs (ratio : T) (s freqs : list T) : option (T * T) := take_pair freqs (bw_idx ratio s).
Definition sig_freq_range (ratio : T) (s freqs : list T) : option (T * T) := take_pair freqs (sig_idx_range ratio s).
End Generic.

(** ** the Konno-Ohmachi (1998) window, R only *)
Local Open Scope R_scope.
Definition log10 (x : R) : R := ln x / ln 10.
(** amp = band*log10(f/fc); wb = (sin(amp)/amp)**4; wb = where(amp == 0, 1, wb) *)
Definition ko_arg (b f fc : R) : R := b * log10 (f / fc).
Definition ko_w (b f fc : R) : R :=
  if Reqb (ko_arg b f fc) 0 then 1 else (sin (ko_arg b f fc) / ko_arg b f fc) ^ 4.

Definition smooth (b : R) (freqs amps targets : list R) : list R := smooth_gen (ko_w b) freqs amps targets.
Definition smooth_default (b : R) (freqs amps : list R) : list R := smooth_gen_default (ko_w b) freqs amps.
Definition smoothing_matrix (b : R) (freqs targets : list R) : list (list R) := matrix_gen (ko_w b) freqs targets.
(** the normalised weights of one target frequency *)
Definition ko_weights (b : R) (freqs : list R) (fc : R) : list R := ko_col (ko_w b) freqs fc.
Definition ko_raw (b : R) (freqs : list R) (fc : R) : list R := raw_col (ko_w b) freqs fc.
