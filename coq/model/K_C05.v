(** C05 — correspondence checker. The dynamic cross-check ships, for every call of a public entry point, the exact
    content (64-bit words) of every argument before and after the call, the serialised results of two successive calls
    and the observed memory sharing between result and arguments; for object histories the caller arrays before/after
    each method, the sharing of the object's values buffer, and the values/npts/time invariants. Everything is compared
    here, inside Coq, against the property predicate and against what the effect IR (gen/Gen_effects.v) predicts. *)
From Coq Require Import ZArith QArith Qabs String List Bool.
From EQ Require Import lib.Num lib.Chk model.M_effects gen.Gen_effects.
Import ListNotations.
Local Open Scope string_scope.

Fixpoint eq_ZZ_list (l1 l2 : list (list Z)) : bool :=
  match l1, l2 with
  | [], [] => true
  | a :: r1, b :: r2 => eq_Z_list a b && eq_ZZ_list r1 r2
  | _, _ => false
  end.

Inductive case :=
| CFn (name : string) (before after : list (list Z)) (r1 r2 : list Z) (shares : list string)
| CMeth (cls meth : string) (before after : list (list Z)) (shares_old shares_caller isnd : bool)
        (npts len : nat) (dt : Q) (time : list Q)
| CVice (obj_before obj_after : list Z).

Definition find_func (name : string) : option func := find (fun f => String.eqb (f_name f) name) all_funcs.
Definition find_class (name : string) : option class := find (fun c => String.eqb (c_name c) name) all_classes.
Definition find_method (c : class) (name : string) : option method := find (fun m => String.eqb (m_name m) name) (c_methods c).

(** time = dt * [0 .. npts-1] up to one binary64 rounding of the product *)
Fixpoint time_ok (dt : Q) (i : nat) (ts : list Q) : bool :=
  match ts with
  | [] => true
  | t :: r => Qleb (Qabs (t - inject_Z (Z.of_nat i) * dt)) ((1 # 4503599627370496) * Qabs (inject_Z (Z.of_nat i) * dt)) && time_ok dt (S i) r
  end.

(** the IR's verdicts, computed once when this file is compiled (it is recompiled whenever gen/Gen_effects.v changes) *)
Definition ret_table : list (string * list string) := Eval vm_compute in map (fun f => (f_name f, ret_roots f)) all_funcs.
Definition kept_table : list (string * list (string * bool)) :=
  Eval vm_compute in map (fun c => (c_name c, map (fun m => (m_name m, mem (hd "" (c_own c)) (exit_roots (m_func c m) (hd "" (c_own c))))) (c_methods c))) all_classes.
Fixpoint assoc {A} (l : list (string * A)) (k : string) : option A :=
  match l with [] => None | (k', v) :: r => if String.eqb k' k then Some v else assoc r k end.

Definition check_case (c : case) : bool :=
  match c with
  | CFn name before after r1 r2 shares =>
      match assoc ret_table name with
      | None => false
      | Some rr => eq_ZZ_list before after && eq_Z_list r1 r2 && subset shares rr
      end
  | CMeth cls meth before after shares_old shares_caller isnd npts len dt time =>
      match assoc kept_table cls with
      | None => false
      | Some ms =>
          match assoc ms meth with
          | None => false
          | Some may_keep =>
              eq_ZZ_list before after && negb shares_caller && isnd && Nat.eqb npts len && Nat.eqb (length time) npts &&
              time_ok dt 0 time &&
              (* the IR says "fresh on every path" => the implementation must not have kept the old buffer *)
              implb shares_old may_keep
          end
      end
  | CVice b a => eq_Z_list b a
  end.

(** diagnostics for replay files: every in-place write the analysis rejects, with the roots it may reach *)
Fixpoint offenders (P : list string) (fuel : nat) (s : stmt) (A : amap) : amap * list (string * list string) :=
  match s with
  | Skip => (A, [])
  | Assign x (Fresh _ _) => (aset A x [], [])
  | Assign x (AliasOf ys) => (aset A x (roots_of A ys), [])
  | Mut x => (A, if mut_ok P A x then [] else [(x, lookup A x)])
  | Seq a b => let '(A1, o1) := offenders P fuel a A in let '(A2, o2) := offenders P fuel b A1 in (A2, (o1 ++ o2)%list)
  | If a b => let '(A1, o1) := offenders P fuel a A in let '(A2, o2) := offenders P fuel b A in (join A1 A2, (o1 ++ o2)%list)
  | Loop a => (fix it (n : nat) (A : amap) : amap * list (string * list string) := match n with
                             | O => (A, [("<out of fuel>", [])])
                             | S n' => let '(A1, o1) := offenders P fuel a A in
                                       if leb_amap A1 A then (A, o1) else it n' (join A A1)
                             end) fuel A
  end.
Definition func_offenders (f : func) := snd (offenders (f_prot f) FUEL (f_body f) (init_amap (f_roots f))).
(** static verdicts, by name (used by the harness to direct the dynamic search when an obligation fails) *)
Definition failing_funcs : list (string * list (string * list string)) :=
  map (fun f => (f_name f, func_offenders f)) (filter (fun f => negb (no_param_mutation f)) all_funcs).
Definition failing_methods : list (string * list string) :=
  map (fun c => (c_name c, map m_name (filter (fun m => negb (method_ok c m)) (c_methods c)))) all_classes.
Definition failing_nd : list (string * list string) :=
  map (fun c => (c_name c, map m_name (filter (fun m => negb (keeps_nd (hd "" (c_own c)) true m)) (c_methods c)))) all_classes.

Definition model_out (c : case) :=
  match c with
  | CFn name _ _ _ _ _ =>
      match find_func name with
      | Some f => (no_param_mutation f, ret_roots f, func_offenders f)
      | None => (false, ["<no IR term>"], [])
      end
  | CMeth cls meth _ _ _ _ _ _ _ _ _ =>
      match find_class cls with
      | Some c => match find_method c meth with
                  | Some m => (method_ok c m, exit_roots (m_func c m) (hd "" (c_own c)), func_offenders (m_func c m))
                  | None => (false, ["<no IR term>"], [])
                  end
      | None => (false, ["<no IR term>"], [])
      end
  | CVice _ _ => (true, [], [])
  end.
