(** Model of eqsig/fns/time_step.py (interp_array_to_approx_dt, interp_to_approx_dt, resample_to_approx_dt).
    Two layers:
    - the generic model over [NumOps T] (theorems at R, execution at Q): the code with exact arithmetic;
    - the binary64 kernel ([lib/B64.v], Flocq): the scalar chain dt/target -> factor -> new_dt -> new_npts with every
      float operation rounded exactly as the code performs it (used bit-for-bit in the correspondence).
    No proofs here. *)
From Coq Require Import ZArith QArith Qround List Bool.
From EQ Require Import lib.Num lib.NpList lib.B64.
Import ListNotations.

(** the three branches of the factor rule; [FRef k]: factor = k (refinement), [FDec m]: factor = 1/m (decimation) *)
Inductive fac : Set := FSame | FRef (k : Z) | FDec (m : Z).
Definition fac_eqb (a b : fac) : bool :=
  match a, b with
  | FSame, FSame => true | FRef k, FRef k' => Z.eqb k k' | FDec m, FDec m' => Z.eqb m m' | _, _ => false
  end.

Section Generic.
Context {T : Type} `{NumOps T}.
Local Open Scope num_scope.

(** np.ceil, int() *)
Definition nceil (x : T) : Z := Z.opp (nfloor (nopp x)).
Definition ntrunc (x : T) : Z := if x <? n0 then nceil x else nfloor x.

(**  factor = dt / target_dt
     if factor == 1: pass
     elif factor > 1: factor = int(np.ceil(factor))
     else: factor = 1 / np.floor(1 / factor)                                   *)
Definition factor_kind (dt tg : T) : fac :=
  let q := dt / tg in
  if q =? n1 then FSame else if n1 <? q then FRef (nceil q) else FDec (nfloor (n1 / q)).
Definition fac_val (f : fac) : T :=
  match f with FSame => n1 | FRef k => nofZ k | FDec m => n1 / nofZ m end.
Definition factor (dt tg : T) : T := fac_val (factor_kind dt tg).

(** np.interp(t, np.arange(len(v)), v): clamped at both ends, linear inside (slope*(x - x0) + y0, grid step 1) *)
Definition np_interp (v : list T) (t : T) : T :=
  let i := nfloor t in
  if (i <? 0)%Z then nth 0 v n0
  else if (Z.of_nat (length v) - 1 <=? i)%Z then last v n0
  else let a := nth (Z.to_nat i) v n0 in
       let b := nth (S (Z.to_nat i)) v n0 in
       (b - a) * (t - nofZ i) + a.

(**  m is not None (decimation): new_npts = len(values) / m     (repaired code, commits 725b23a + c33582e)
     else:                        new_npts = factor * len(values)
     if even: new_npts = 2 * int(new_npts / 2)
     t_db = np.arange(new_npts) / factor          -- np.arange(x) has ceil(x) entries for x >= 0   *)
Definition npts_raw (k : fac) (n : nat) : T :=
  match k with
  | FDec m => nofZ (Z.of_nat n) / nofZ m
  | _ => fac_val k * nofZ (Z.of_nat n)
  end.
Definition new_npts (even : bool) (k : fac) (n : nat) : Z :=
  let x := npts_raw k n in
  if even then Z.mul 2 (ntrunc (x / nofZ 2)) else nceil x.
(** values at the positions i / factor, i < cnt *)
Definition interp_at (f : T) (v : list T) (cnt : nat) : list T :=
  map (fun i => np_interp v (nofZ (Z.of_nat i) / f)) (seq 0 cnt).

(** interp_array_to_approx_dt(values, dt, target_dt, even) = (acc_interp, dt / factor);
    interp_to_approx_dt wraps the same call in AccSignal(acc_interp, dt_interp) *)
Definition interp_approx (even : bool) (v : list T) (dt tg : T) : list T * T :=
  let k := factor_kind dt tg in
  let f := fac_val k in
  (interp_at f v (Z.to_nat (new_npts even k (length v))), dt / f).

(**  resample_to_approx_dt (repaired code, commits 725b23a + c33582e + 38ddd83):
       new_npts = int(npts / m)  (decimation)  or  int(factor * npts)
       acc_interp = resample(values, new_npts)                       -- untrimmed count [rs_count]
       if even: acc_interp = acc_interp[:2 * int(new_npts / 2)]      -- final length [new_npts_rs]
     scipy.signal.resample is an oracle [RS values num] *)
Definition rs_count (k : fac) (n : nat) : Z := ntrunc (npts_raw k n).
Definition new_npts_rs (even : bool) (k : fac) (n : nat) : Z :=
  let c := rs_count k n in
  if even then (2 * Z.quot c 2)%Z else c.
Definition resample_approx (RS : list T -> nat -> list T) (even : bool) (v : list T) (dt tg : T) : list T * T :=
  let k := factor_kind dt tg in
  let out := RS v (Z.to_nat (rs_count k (length v))) in
  ((if even then firstn (Z.to_nat (new_npts_rs true k (length v))) out else out), dt / fac_val k).
End Generic.

(** * binary64 kernel: the same scalar chain with the roundings of the code
    q = fl(dt/target); k = ceil(q) (Python int, exact) | r = fl(1/q), m = floor(r), factor = fl(1/m);
    new_dt = fl(dt / factor).  Inputs are finite positive floats whose quotient neither overflows nor underflows
    (the harness generates only such pairs; outside, np.ceil(inf) raises in the code). *)
Definition factor_b64 (dt tg : b64) : fac * b64 :=
  let q := fdiv dt tg in
  match fcmp q fone with
  | Eq => (FSame, q)
  | Gt => let k := fceil q in (FRef k, fofZ k)
  | Lt => let m := ffloor (fdiv fone q) in (FDec m, fdiv fone (fofZ m))
  end.
Definition newdt_b64 (dt tg : b64) : b64 := fdiv dt (snd (factor_b64 dt tg)).
(** new_npts as the code computes it: for [FRef k] the product k * len is a Python int (exact); for a decimation the
    float quotient fl(len / m) with the stored integer m; for factor 1.0 the float product fl(1.0 * len) *)
Definition npts_raw_b64 (kf : fac * b64) (n : Z) : Q :=
  match fst kf with
  | FRef k => inject_Z (k * n)
  | FDec m => fQ (fdiv (fofZ n) (fofZ m))
  | FSame => fQ (fmul (snd kf) (fofZ n))
  end.
Definition Qtrunc (q : Q) : Z := match Qcompare q 0 with Lt => Qceiling q | _ => Qfloor q end.
(** interp variant: 2*int(x/2) (x/2 is exact in binary64) or len(np.arange(x)) = ceil(x) *)
Definition npts_b64 (even : bool) (dt tg : b64) (n : Z) : Z :=
  let x := npts_raw_b64 (factor_b64 dt tg) n in
  if even then (2 * Qtrunc (x / 2))%Z else Qceiling x.
(** resample variant: int(x) samples are requested from scipy, the result is cut to 2*int(c/2) when even *)
Definition rs_count_b64 (dt tg : b64) (n : Z) : Z := Qtrunc (npts_raw_b64 (factor_b64 dt tg) n).
Definition npts_rs_b64 (even : bool) (dt tg : b64) (n : Z) : Z :=
  let c := Qtrunc (npts_raw_b64 (factor_b64 dt tg) n) in
  if even then (2 * Z.quot c 2)%Z else c.
