(** Model of the Stockwell transform functions (property C15):
      eqsig/stockwell.py   generate_gaussian, transform, transform_w_scipy_fft, itransform,
                           get_max_stockwell_freq / get_max_tifq_vals_freq
    Built on lib/Dft.v (the defining DFT sums) and model/M_fourier.v (zrange).  Generic in the number type, in the two
    twiddle functions (twc N j ~ cos(2 pi j/N), tws N j ~ sin(2 pi j/N)) and in the Gaussian kernel
    (gau k m ~ exp(-2 pi^2 m^2 / k^2)).  The theorems are about the R instance ([*_R] below: real cos / sin / exp);
    the Q instance (exact twiddle table, no Gaussian) runs the parts that need no transcendental kernel
    (itransform, the frequency axis, row sums).  Complex numbers are pairs of lists (real parts, imaginary parts).
    No proofs in this file. *)
From Coq Require Import ZArith QArith Reals List Bool.
From EQ Require Import lib.Num lib.NpList lib.Dft model.M_fourier.
Import ListNotations.
Local Open Scope num_scope.

(** n_d2 = int(len(acc) / 2);  n_factor = 2 * n_d2 (the record is truncated to even length by fft(acc, n_factor)) *)
Definition half_len {A} (x : list A) : nat := Nat.div (length x) 2.
Definition st_N (n2 : nat) : Z := (2 * Z.of_nat n2)%Z.

(** generate_gaussian: column j carries the signed FFT frequency index
      f = concatenate(f_half, flipud(-f_half[1:-1]))   ->   j for j <= n_d2 (Nyquist positive), j - N above *)
Definition sidx (n2 : nat) (j : Z) : Z := if (j <=? Z.of_nat n2)%Z then j else (j - st_N n2)%Z.

(** rows of the result, top to bottom: np.flipud of rows k = 1..n_d2, i.e. k = n_d2, n_d2-1, ..., 1 *)
Definition st_ks (n2 : nat) : list Z := rev (map (fun i => (i + 1)%Z) (zrange n2)).

Section Generic.
Context {T : Type} `{NumOps T}.
Variable twc tws : Z -> Z -> T.
Variable gau : Z -> Z -> T.

(** fa = fft(acc, N);  diag_con = toeplitz(conj(fa[:n_d2+1]), fa)[1:n_d2+1]:
    row k, column j holds  conj(fa[k-j]) for j <= k  and  fa[j-k] for j > k *)
Definition toep_re (N : Z) (x : list T) (k j : Z) : T :=
  if (j <=? k)%Z then dft_re twc N x (k - j) else dft_re twc N x (j - k).
Definition toep_im (N : Z) (x : list T) (k j : Z) : T :=
  if (j <=? k)%Z then - dft_im tws N x (k - j) else dft_im tws N x (j - k).

(** row k of diag_con * gaussian *)
Definition st_row_re (n2 : nat) (x : list T) (k : Z) : list T :=
  map (fun j => toep_re (st_N n2) x k j * gau k (sidx n2 j)) (zrange (2 * n2)).
Definition st_row_im (n2 : nat) (x : list T) (k : Z) : list T :=
  map (fun j => toep_im (st_N n2) x k j * gau k (sidx n2 j)) (zrange (2 * n2)).

(** ifft(., axis=1): cell (k, t) *)
Definition st_cell_re (n2 : nat) (x : list T) (k t : Z) : T :=
  idft_re twc tws (st_N n2) (st_row_re n2 x k) (st_row_im n2 x k) t.
Definition st_cell_im (n2 : nat) (x : list T) (k t : Z) : T :=
  idft_im twc tws (st_N n2) (st_row_re n2 x k) (st_row_im n2 x k) t.

(** transform(acc) and transform_w_scipy_fft(acc): n_d2 rows (Nyquist first) of N = 2 n_d2 cells *)
Definition st_re (x : list T) : list (list T) :=
  let n2 := half_len x in map (fun k => map (fun t => st_cell_re n2 x k t) (zrange (2 * n2))) (st_ks n2).
Definition st_im (x : list T) : list (list T) :=
  let n2 := half_len x in map (fun k => map (fun t => st_cell_im n2 x k t) (zrange (2 * n2))) (st_ks n2).

(** itransform(stock): ss = sum(stock, axis=1); n = 2 len(ss); fas_ss = zeros(n);
      fas_ss[1:n//2] = flip(conj(ss[1:]));  fas_ss[n//2+1:] = ss[1:];  real(ifft(fas_ss))
    (npts = ceil(2 ** (log n / log 2)) >= n, so the slice keeps all n samples) *)
Definition lsum (l : list T) : T := fold_right nadd n0 l.
Definition row_sums (m : list (list T)) : list T := map lsum m.
Definition ist_spec_re (ss : list T) : list T := n0 :: rev (tl ss) ++ n0 :: tl ss.
Definition ist_spec_im (ss : list T) : list T := n0 :: rev (map nopp (tl ss)) ++ n0 :: tl ss.
Definition ist_of_sums (sre sim : list T) : list T :=
  let N := (2 * Z.of_nat (length sre))%Z in
  map (fun n => idft_re twc tws N (ist_spec_re sre) (ist_spec_im sim) n) (zrange (Z.to_nat N)).
Definition ist (re im : list (list T)) : list T := ist_of_sums (row_sums re) (row_sums im).
End Generic.

Section Generic2.
Context {T : Type} `{NumOps T}.
(** get_max_stockwell_freq / get_max_tifq_vals_freq: points = len(stock);
      freqs = flipud(arange(1, points+1) / (2 points dt));  indy_max = argmax(abs(stock), axis=0);  take(freqs, indy_max)
    |z| is monotone in |z|^2, so the model maximises re^2 + im^2 down each column (first maximal row, as NumPy) *)
Definition column (m : list (list T)) (t : nat) : list T := map (fun row => nth t row n0) m.
Definition st_freqs (points : nat) (dt : T) : list T :=
  map (fun r => nofZ (Z.of_nat points - r) / (nofZ (2 * Z.of_nat points) * dt)) (zrange points).
Definition max_row (re im : list (list T)) (t : nat) : nat := argmax (amp2 (column re t) (column im t)).
Definition max_freq (re im : list (list T)) (dt : T) : list T :=
  let fr := st_freqs (length re) dt in
  map (fun t => nth (max_row re im t) fr n0) (seq 0 (length (nth 0 re []))).
End Generic2.

(** ** the R instance (what the theorems are about) *)
Definition Rgauss (k m : Z) : R := exp (- (2 * (PI * PI) * (IZR m * IZR m)) / (IZR k * IZR k)).
Definition st_cell_re_R := st_cell_re (T := R) Rtwc Rtws Rgauss.
Definition st_cell_im_R := st_cell_im (T := R) Rtwc Rtws Rgauss.
Definition st_re_R := st_re (T := R) Rtwc Rtws Rgauss.
Definition st_im_R := st_im (T := R) Rtwc Rtws Rgauss.
Definition ist_of_sums_R := ist_of_sums (T := R) Rtwc Rtws.
Definition ist_R := ist (T := R) Rtwc Rtws.
(** both public implementations are the same function of the record in exact arithmetic (they differ only in which FFT
    library evaluates the sums); each is tied to this one model by the correspondence check *)
Definition transform_R (x : list R) : list (list R) * list (list R) := (st_re_R x, st_im_R x).
Definition transform_w_scipy_fft_R (x : list R) : list (list R) * list (list R) := (st_re_R x, st_im_R x).
(** get_max_stockwell_freq(asig) with no cached transform: the trace of the record's own transform *)
Definition max_stockwell_freq_R (x : list R) (dt : R) : list R := max_freq (st_re_R x) (st_im_R x) dt.
