(** Correspondence checker for C16 (eqsig text format: save / load round trip).
    One case = one file text + one loader entry point called on it, with the implementation's outputs. *)
From Coq Require Import ZArith QArith Qabs List Bool Ascii String.
From EQ Require Import lib.Num lib.Chk lib.DecFmt model.M_loader.
Import ListNotations.

Record case := {
  c_saved : bool;        (* c_text was written by eqsig.save_signal from (c_label, c_dt, c_vals, c_negz) *)
  c_label : string; c_dt : Q; c_vals : list Q;
  c_negz : list nat;     (* positions holding the float -0.0 (shipped as 0 in c_vals) *)
  c_text : string;       (* the file's content, byte for byte *)
  c_entry : nat;         (* 0 load_values_and_dt, 1 load_signal(astype), 2 load_sig(m), 3 load_asig(load_label, m) *)
  c_astype : string; c_m : Q; c_want_label : bool;
  (* what the implementation returned *)
  o_kind : nat;          (* 0 (values, dt) tuple, 1 Signal, 2 AccSignal, 3 None *)
  o_vals : list Q; o_dt : Q; o_label : string; o_npts : nat }.

Definition vals_sb (c : case) : list (bool * Q) :=
  map (fun iv => (Qltb' (snd iv) 0 || existsb (Nat.eqb (fst iv)) (c_negz c), snd iv))
      (combine (seq 0 (List.length (c_vals c))) (c_vals c)).
Definition model_text (c : case) : text := save_sb (txt (c_label c)) (c_dt c) (vals_sb c).

Definition kind_code (k : kind) : nat := match k with KSignal => 1 | KAccSignal => 2 end.
(** the model's view of the call: (kind code, values, dt, label) *)
Definition model_load (c : case) : option (nat * list Q * Q * text) :=
  let t := txt (c_text c) in
  match c_entry c with
  | 0 => option_map (fun vd => (0, fst vd, snd vd, [])) (load_values_and_dt t)
  | 1 => match load_signal (txt (c_astype c)) t with
         | None => None
         | Some None => Some (3, [], 0%Q, [])
         | Some (Some l) => Some (kind_code (l_kind l), l_vals l, l_dt l, l_label l)
         end
  | 2 => option_map (fun l => (kind_code (l_kind l), l_vals l, l_dt l, l_label l)) (load_sig (c_m c) t)
  | _ => option_map (fun l => (kind_code (l_kind l), l_vals l, l_dt l, l_label l)) (load_asig (c_want_label c) (c_m c) t)
  end%nat.

Definition chk_text (c : case) : bool := negb (c_saved c) || text_eqb (txt (c_text c)) (model_text c).
Definition chk_load (c : case) : bool :=
  match model_load c with
  | None => false
  | Some (k, v, dt, lab) =>
      Nat.eqb k (o_kind c) && close_list 0 v (o_vals c) && Qeqb dt (o_dt c) && text_eqb lab (txt (o_label c))
      && (Nat.eqb (o_kind c) 3 || Nat.eqb (o_npts c) (List.length v))
  end.

(** the property's own predicate, evaluated on the implementation's outputs only (no model involved):
    same number of points, dt to 4 decimals, values to 6 decimals scaled by m, label when requested, requested type *)
Definition u53 : Q := 1 # 9007199254740992.
Definition eff_m (c : case) : Q := match c_entry c with 2%nat | 3%nat => c_m c | _ => 1%Q end.
Fixpoint vals_close (m : Q) (xs ys : list Q) : bool :=
  match xs, ys with
  | [], [] => true
  | x :: r, y :: s => Qleb (Qabs (y - m * x)) (Qabs m * (1 # 2000000) + 4 * u53 * (Qabs (m * x) + Qabs m)) && vals_close m r s
  | _, _ => false
  end.
Definition chk_roundtrip (c : case) : bool :=
  negb (c_saved c) || Nat.eqb (o_kind c) 3 ||
  (Nat.eqb (o_npts c) (List.length (c_vals c))
   && vals_close (eff_m c) (c_vals c) (o_vals c)
   && Qleb (Qabs (o_dt c - c_dt c)) ((1 # 20000) + 4 * u53 * (Qabs (c_dt c) + 1))
   && match c_entry c with
      | 0 => true
      | 1 => text_eqb (txt (o_label c)) default_label
      | 2 => text_eqb (txt (o_label c)) default_label
      | _ => text_eqb (txt (o_label c)) (if c_want_label c then txt (c_label c) else default_label)
      end%nat).
Definition chk_kind (c : case) : bool :=
  match c_entry c with
  | 0 => Nat.eqb (o_kind c) 0
  | 1 => if text_eqb (txt (c_astype c)) (txt "signal") then Nat.eqb (o_kind c) 1
         else if text_eqb (txt (c_astype c)) (txt "acc_sig") then Nat.eqb (o_kind c) 2 else true
  | 2 => Nat.eqb (o_kind c) 1
  | _ => Nat.eqb (o_kind c) 2
  end%nat.

Definition chk_property (c : case) : bool := chk_roundtrip c && chk_kind c.
Definition check_case (c : case) : bool := chk_text c && chk_load c && chk_property c.

(** for replay files: (text the model writes, what the model loads, which of the four checks hold) *)
Definition model_out (c : case) :=
  (string_of_list_ascii (model_text c),
   option_map (fun r => match r with (k, v, dt, lab) => (k, v, dt, string_of_list_ascii lab) end) (model_load c),
   [chk_text c; chk_load c; chk_roundtrip c; chk_kind c]).
