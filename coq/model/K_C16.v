(** Correspondence checker for C16 (eqsig text format: save / load round trip).
    One case = one file text + one loader entry point called on it, with the implementation's outputs. *)
From Coq Require Import ZArith QArith Qabs List Bool Ascii String.
From EQ Require Import lib.Num lib.Chk lib.DecFmt model.M_loader.
Import ListNotations.

Record case := {
  c_saved : bool;        (* c_text was written by eqsig.save_signal from (c_label, c_dt, c_vals, c_negz) *)
  c_label : string; c_dt : Q; c_vals : list Q;
  c_negz : list nat;     (* positions holding the float -0.0 (shipped as 0 in c_vals) *)
  c_text : string;       (* the file's content, byte for byte *)
  c_entry : nat;         (* 0 load_values_and_dt, 1 load_signal(astype), 2 load_sig(m), 3 load_asig(load_label, m) *)
  c_astype : string; c_m : Q; c_want_label : bool;
  (* what the implementation returned *)
  o_kind : nat;          (* 0 (values, dt) tuple, 1 Signal, 2 AccSignal, 3 None *)
  o_vals : list Q; o_dt : Q; o_label : string; o_npts : nat }.

Definition vals_sb (c : case) : list (bool * Q) :=
  map (fun iv => (Qltb' (snd iv) 0 || existsb (Nat.eqb (fst iv)) (c_negz c), snd iv))
      (combine (seq 0 (List.length (c_vals c))) (c_vals c)).
Definition model_text (c : case) : text := save_sb (txt (c_label c)) (c_dt c) (vals_sb c).

Definition kind_code (k : kind) : nat := match k with KSignal => 1 | KAccSignal => 2 end.
(** the model's view of the call: (kind code, values, dt, label) *)
Definition model_load (c : case) : option (nat * list Q * Q * text) :=
  let t := txt (c_text c) in
  match c_entry c with
  | 0 => option_map (fun vd => (0, fst vd, snd vd, [])) (load_values_and_dt t)
  | 1 => match load_signal (txt (c_astype c)) t with
         | None => None
         | Some None => Some (3, [], 0%Q, [])
         | Some (Some l) => Some (kind_code (l_kind l), l_vals l, l_dt l, l_label l)
         end
  | 2 => option_map (fun l => (kind_code (l_kind l), l_vals l, l_dt l, l_label l)) (load_sig (c_m c) t)
  | _ => option_map (fun l => (kind_code (l_kind l), l_vals l, l_dt l, l_label l)) (load_asig (c_want_label c) (c_m c) t)
  end%nat.

Definition chk_text (c : case) : bool := negb (c_saved c) || text_eqb (txt (c_text c)) (model_text c).
Definition chk_load (c : case) : bool :=
  match model_load c with
  | None => false
  | Some (k, v, dt, lab) =>
      Nat.eqb k (o_kind c) && close_list 0 v (o_vals c) && Qeqb dt (o_dt c) && text_eqb lab (txt (o_label c))
      && (Nat.eqb (o_kind c) 3 || Nat.eqb (o_npts c) (List.length v))
  end.

(** the property's own predicate, evaluated on the implementation's outputs only (no model involved):
    same number of points, dt to 4 decimals, values to 6 decimals scaled by m, label when requested, requested type *)
Definition u53 : Q := 1 # 9007199254740992.
Definition eff_m (c : case) : Q := match c_entry c with 2%nat | 3%nat => c_m c | _ => 1%Q end.
Fixpoint vals_close (m : Q) (xs ys : list Q) : bool :=
  match xs, ys with
  | [], [] => true
  | x :: r, y :: s => Qleb (Qabs (y - m * x)) (Qabs m * (1 # 2000000) + 4 * u53 * (Qabs (m * x) + Qabs m)) && vals_close m r s
  | _, _ => false
  end.
Definition chk_roundtrip (c : case) : bool :=
  negb (c_saved c) || Nat.eqb (o_kind c) 3 ||
  (Nat.eqb (o_npts c) (List.length (c_vals c))
   && vals_close (eff_m c) (c_vals c) (o_vals c)
   && Qleb (Qabs (o_dt c - c_dt c)) ((1 # 20000) + 4 * u53 * (Qabs (c_dt c) + 1))
   && match c_entry c with
      | 0 => true
      | 1 => text_eqb (txt (o_label c)) default_label
      | 2 => text_eqb (txt (o_label c)) default_label
      | _ => text_eqb (txt (o_label c)) (if c_want_label c then txt (c_label c) else default_label)
      end%nat).
Definition chk_kind (c : case) : bool :=
  match c_entry c with
  | 0 => Nat.eqb (o_kind c) 0
  | 1 => if text_eqb (txt (c_astype c)) (txt "signal") then Nat.eqb (o_kind c) 1
         else if text_eqb (txt (c_astype c)) (txt "acc_sig") then Nat.eqb (o_kind c) 2 else true
  | 2 => Nat.eqb (o_kind c) 1
  | _ => Nat.eqb (o_kind c) 2
  end%nat.

Definition chk_property (c : case) : bool := chk_roundtrip c && chk_kind c.
Definition check_case (c : case) : bool := chk_text c && chk_load c && chk_property c.

(** for replay files: (text the model writes, what the model loads, which of the four checks hold) *)
Definition model_out (c : case) :=
  (string_of_list_ascii (model_text c),
   option_map (fun r => match r with (k, v, dt, lab) => (k, v, dt, string_of_list_ascii lab) end) (model_load c),
   [chk_text c; chk_load c; chk_roundtrip c; chk_kind c]).

(** ** long records (more than 50000 samples) in sparse form: the number of lines of the file, its first two lines, and at a
    sparse set of positions i (first, last, around every multiple of 50000 and 1000, random) the saved value, line 2+i of the file
    and the loaded value.  The same comparisons as above, restricted to these positions. *)
Definition model_header (n : Z) (dt : Q) : text := dec_int n ++ sp :: fmt_fixed 4 dt.
(** (label, dt, npts, number of lines of the text, first line, second line, [(i, (signbit, v_i), line 2+i)]) *)
Definition chk_long_text (c : string * Q * Z * Z * string * string * list (Z * (bool * Q) * string)) : bool :=
  let '(label, dt, n, nlines, l0, l1, samples) := c in
  Z.eqb nlines (n + 2) && text_eqb (txt l0) (txt label) && text_eqb (txt l1) (model_header n dt) &&
  negb (Nat.eqb (List.length samples) 0) &&
  forallb (fun s => let '(i, sv, line) := s in
                    (0 <=? i)%Z && (i <? n)%Z && text_eqb (txt line) (fmt_fixed_sb (fst sv || Qltb' (snd sv) 0) 6 (snd sv))) samples.

Record long_load := {
  g_n : Z; g_dt : Q; g_label : string; g_entry : nat; g_astype : string; g_m : Q; g_want_label : bool;
  g_l0 : string; g_l1 : string;
  g_samples : list (Z * Q * string * Q);      (* (i, saved v_i, line 2+i of the file, loaded value at i) *)
  h_kind : nat; h_len : Z; h_npts : Z; h_dt : Q; h_label : string }.
Definition read_dt (h : text) : option Q :=
  match tokens h with _ :: tok :: _ => option_map round_b64 (parse_float tok) | _ => None end.
Definition chk_long_load (c : long_load) : bool :=
  let scaled := match g_entry c with 2%nat | 3%nat => true | _ => false end in
  let m := if scaled then g_m c else 1%Q in
  let exp_kind := match g_entry c with
                  | 0 => 0 | 2 => 1 | 3 => 2
                  | _ => if text_eqb (txt (g_astype c)) (txt "signal") then 1
                         else if text_eqb (txt (g_astype c)) (txt "acc_sig") then 2 else 3
                  end%nat in
  Nat.eqb (h_kind c) exp_kind &&
  (Nat.eqb exp_kind 3 ||
   (Z.eqb (h_len c) (g_n c) && Z.eqb (h_npts c) (g_n c) &&
    match read_dt (txt (g_l1 c)) with
    | Some d => Qeqb d (h_dt c) && Qleb (Qabs (h_dt c - g_dt c)) ((1 # 20000) + 4 * u53 * (Qabs (g_dt c) + 1))
    | None => false
    end &&
    text_eqb (txt (h_label c))
             (match g_entry c with
              | 0%nat => []
              | 3%nat => if g_want_label c then txt (g_l0 c) else default_label
              | _ => default_label end) &&
    (negb (Nat.eqb (g_entry c) 3 && g_want_label c) || text_eqb (txt (g_l0 c)) (txt (g_label c))) &&
    negb (Nat.eqb (List.length (g_samples c)) 0) &&
    forallb (fun s => let '(i, v, line, o) := s in
                      (0 <=? i)%Z && (i <? g_n c)%Z &&
                      match option_map round_b64 (parse_float (field0 (txt line))) with
                      | Some y => Qeqb (if scaled then round_b64 (y * m) else y) o
                      | None => false
                      end && vals_close m [v] [o]) (g_samples c))).

(** one entry point for both kinds of sparse cases (one run file) *)
Inductive long_any :=
| LText (c : string * Q * Z * Z * string * string * list (Z * (bool * Q) * string))
| LLoad (c : long_load).
Definition chk_long (c : long_any) : bool := match c with LText c => chk_long_text c | LLoad c => chk_long_load c end.
