(** Vocabulary of the cache-event summaries of C04 (no proofs).

    A *summary* says what one public operation of Signal/AccSignal does to the caching state, in terms that can be read
    off the source text (translator/py2coq_cache_events.py -> gen/Gen_cache_events.v) and off the hand-written state
    machine model/M_cache.v (proofs/P_C04_events.v) alike:

      - per validity flag / memo key ([dq]): an [effect], i.e. a pair of boolean functions of the flag state before the
        operation: the flag after it ([effF]) and whether the stored quantity holds a value computed during the
        operation ([effW]);
      - whether the values, the stored length, the smoothing frequencies, the response periods are rewritten;
      - which cached quantities flow into the new values ([uses]) and what the returned value is made of ([ret]).

    A *recipe* says which stored things a derived quantity is computed from whenever it is recomputed. *)
From Coq Require Import List Bool Arith String.
From EQ Require Import model.M_cache model.K_C04.
Import ListNotations.

Inductive effect :=
  | Untouched                       (* flag as before, nothing stored *)
  | Cleared                         (* flag False afterwards (memo key absent), nothing stored *)
  | SetAlways                       (* recomputed unconditionally, flag True *)
  | SetIfWasClear                   (* lazy population: `if not self._cached_x: generate`; flag True afterwards *)
  | SetIfWasClearUnder (g : dq)     (* lazy population nested in the lazy population of g: happens only when g was clear too *)
  | ClearedAfterLazyFill            (* lazily populated (read through the public property), then invalidated *)
  | Irregular.                      (* none of the above (never emitted by the translator: it fails closed) *)

(** what a value is made of *)
Inductive input := IValues | INpts | ISF | IRT | ISlot (d : dq).

Record summary := mkS {
  e_fa : effect; e_sm : effect; e_resp : effect; e_dv : effect; e_pga : effect; e_pgv : effect; e_pgd : effect;
  w_vals : bool;                    (* self._values assigned or written in place *)
  w_npts : bool;                    (* self._npts rewritten (only reset_values does) *)
  w_sf : bool;                      (* self._smooth_fa_freqs rewritten *)
  w_rt : bool;                      (* self._response_times rewritten *)
  uses : list dq;                   (* cached quantities the new values are computed from *)
  ret : list input                  (* what the returned value is computed from ([] = returns nothing) *)
}.

Definition all_dq : list dq := [Fa; Sm; Resp; DV; Pga; Pgv; Pgd].
Definition sig_dq : list dq := [Fa; Sm].
Definition dq_code (d : dq) : nat := match d with Fa => 0 | Sm => 1 | Resp => 2 | DV => 3 | Pga => 4 | Pgv => 5 | Pgd => 6 end.
Definition dq_weight (d : dq) : nat := match d with Fa => 1 | Sm => 2 | Resp => 4 | DV => 8 | Pga => 16 | Pgv => 32 | Pgd => 64 end.
Definition dq_eqb (a b : dq) : bool := Nat.eqb (dq_code a) (dq_code b).
Definition flag (d : dq) (m : nat) : bool := bit m (dq_weight d).

(** meaning of an effect for quantity d in flag state m: flag afterwards, "holds a value computed by this operation" *)
Definition effF (e : effect) (d : dq) (m : nat) : bool :=
  match e with
  | Untouched => flag d m
  | Cleared | ClearedAfterLazyFill | Irregular => false
  | SetAlways | SetIfWasClear => true
  | SetIfWasClearUnder g => flag d m || negb (flag g m)
  end.
Definition effW (e : effect) (d : dq) (m : nat) : bool :=
  match e with
  | Untouched | Cleared | Irregular => false
  | SetAlways => true
  | SetIfWasClear | ClearedAfterLazyFill => negb (flag d m)
  | SetIfWasClearUnder g => negb (flag d m) && negb (flag g m)
  end.

Definition eff_of (s : summary) (d : dq) : effect :=
  match d with Fa => e_fa s | Sm => e_sm s | Resp => e_resp s | DV => e_dv s | Pga => e_pga s | Pgv => e_pgv s | Pgd => e_pgd s end.

(** a summary as a transformer of flag words *)
Definition apply_summary (s : summary) (m : nat) : nat :=
  fold_right (fun d acc => b2n (effF (eff_of s d) d m) (dq_weight d) + acc) 0 all_dq.

(** decidable equalities *)
Definition effect_eqb (a b : effect) : bool :=
  match a, b with
  | Untouched, Untouched | Cleared, Cleared | SetAlways, SetAlways | SetIfWasClear, SetIfWasClear
  | ClearedAfterLazyFill, ClearedAfterLazyFill | Irregular, Irregular => true
  | SetIfWasClearUnder g, SetIfWasClearUnder h => dq_eqb g h
  | _, _ => false
  end.
Definition input_code (i : input) : nat := match i with IValues => 50 | INpts => 53 | ISF => 51 | IRT => 52 | ISlot d => dq_code d end.
Definition input_eqb (a b : input) : bool := Nat.eqb (input_code a) (input_code b).
Fixpoint list_eqb {A} (eqb : A -> A -> bool) (l1 l2 : list A) : bool :=
  match l1, l2 with
  | [], [] => true
  | a :: r1, b :: r2 => eqb a b && list_eqb eqb r1 r2
  | _, _ => false
  end.
Definition summary_eqb (a b : summary) : bool :=
  forallb (fun d => effect_eqb (eff_of a d) (eff_of b d)) all_dq
  && Bool.eqb (w_vals a) (w_vals b) && Bool.eqb (w_npts a) (w_npts b) && Bool.eqb (w_sf a) (w_sf b) && Bool.eqb (w_rt a) (w_rt b)
  && list_eqb dq_eqb (uses a) (uses b) && list_eqb input_eqb (ret a) (ret b).

Definition kop_code (k : kop) : nat * nat :=
  match k with
  | KR r => (0, match r with
      | R_npts => 0 | R_time => 1 | R_values => 2 | R_smooth_fa_freqs => 3 | R_smooth_fa_frequencies => 4 | R_smooth_freq_range => 5
      | R_smooth_freq_points => 6 | R_response_times => 7 | R_fa_spectrum => 8 | R_fa_spectrum_abs => 9 | R_fa_freqs => 10
      | R_fa_frequencies => 11 | R_smooth_fa_spectrum => 12 | R_s_a => 13 | R_s_v => 14 | R_s_d => 15 | R_velocity => 16
      | R_displacement => 17 | R_pga => 18 | R_pgv => 19 | R_pgd => 20 end)
  | KG g => (1, match g with
      | G_generate_fa_spectrum => 0 | G_gen_fa_spectrum => 1 | G_generate_smooth_fa_spectrum => 2 | G_gen_smooth_fa_spectrum => 3
      | G_generate_response_spectrum => 4 | G_gen_response_spectrum => 5 | G_generate_displacement_and_velocity_series => 6
      | G_response_series => 7 | G_clear_cache => 8 | G_reset_all_motion_stats => 9 end)
  | KM m => (2, match m with
      | M_reset_values => 0 | M_add_constant => 1 | M_add_series => 2 | M_add_signal => 3 | M_butter_pass => 4 | M_remove_average => 5
      | M_remove_poly => 6 | M_running_average => 7 | M_correct_me => 8 | M_remove_rolling_average_velocity => 9
      | M_remove_rolling_average_values => 10 | M_rebase_displacement => 11 | M_set_zero_residual_velocity => 12
      | M_set_zero_residual_velocity_tz => 13 | M_set_zero_residual_displacement => 14
      | M_set_zero_residual_displacement_and_velocity => 15 end)
  | KS t => (3, match t with
      | S_smooth_fa_freqs => 0 | S_smooth_fa_frequencies => 1 | S_smooth_freq_range => 2 | S_smooth_freq_points => 3
      | S_set_smooth_fa_frequecies_by_range => 4 | S_gen_smooth_fa_spectrum => 5 end)
  | KT t => (4, match t with
      | T_response_times => 0 | T_gen_response_spectrum => 1 | T_generate_response_spectrum => 2 | T_response_series => 3 end)
  end.
Definition kop_eqb (a b : kop) : bool :=
  Nat.eqb (fst (kop_code a)) (fst (kop_code b)) && Nat.eqb (snd (kop_code a)) (snd (kop_code b)).

Fixpoint lookup {B} (k : kop) (l : list (kop * B)) : option B :=
  match l with [] => None | (k', b) :: r => if kop_eqb k k' then Some b else lookup k r end.
Fixpoint lookup_dq {B} (d : dq) (l : list (dq * B)) : option B :=
  match l with [] => None | (d', b) :: r => if dq_eqb d d' then Some b else lookup_dq d r end.

(** a summary that touches nothing of the caching state (what a method outside the model's alphabet must look like for
    its omission to be harmless); it may return anything *)
Definition neutral (s : summary) : bool :=
  forallb (fun d => effect_eqb (eff_of s d) Untouched) all_dq
  && negb (w_vals s) && negb (w_npts s) && negb (w_sf s) && negb (w_rt s)
  && match uses s with [] => true | _ => false end.
