(** Checkers for C02: the property's relations evaluated (at Q, inside Coq) on the implementation's own outputs of
    related executions. The structural tie of the response model itself is K_C01 (shared with C01). *)
From Coq Require Import ZArith QArith Qabs List Bool.
From EQ Require Import lib.Num lib.NpList lib.Chk.
Import ListNotations.

Inductive case :=
| KLin (al be rtol : Q) (ra rb rab : list (list Q))        (* rab = al*ra + be*rb row by row *)
| KLinT (al be : Q) (tols : list Q) (ra rb rab : list (list Q))   (* same, with an explicit absolute tolerance per row *)
| KPrefix (k : nat) (rtol : Q) (m1 m2 : list (list Q))      (* first k samples of every row coincide *)
| KShift (k : nat) (rtol : Q) (mshort mlong : list (list Q))(* mlong row = k zeros ++ mshort row *)
| KRows (idx : list nat) (rtol : Q) (mall msub : list (list Q)) (* msub_j = mall_(idx_j) *)
| KRefine (m : nat) (rtol : Q) (coarse fine : list (list Q)) (* fine[m*i] = coarse[i] *)
| KGe (rtol : Q) (small big : list Q)                      (* big_i >= small_i (1 - rtol) *)
| KScale (al rtol : Q) (s s' : list Q).                    (* s' = |al| s *)

Definition qlin (al be : Q) (a b : list Q) : list Q := map2 (fun x y => Qred (al * x + be * y)) a b.
Fixpoint every_nth_from (m : nat) (skip : nat) (l : list Q) : list Q :=
  match l with
  | [] => []
  | x :: r => match skip with O => x :: every_nth_from m (m - 1) r | S s => every_nth_from m s r end
  end.
Definition every_nth (m : nat) (l : list Q) : list Q := every_nth_from m 0 l.

Fixpoint all2 {A B} (f : A -> B -> bool) (la : list A) (lb : list B) : bool :=
  match la, lb with [], [] => true | a :: ra, b :: rb => f a b && all2 f ra rb | _, _ => false end.
Fixpoint all3 {A B C} (f : A -> B -> C -> bool) (la : list A) (lb : list B) (lc : list C) : bool :=
  match la, lb, lc with [], [], [] => true | a :: ra, b :: rb, c :: rc => f a b c && all3 f ra rb rc | _, _, _ => false end.

Definition check_case (c : case) : bool :=
  match c with
  | KLin al be rtol ra rb rab =>
      all3 (fun a b ab => close_list (rtol * (Qabs al * qabsmax a + Qabs be * qabsmax b)) (qlin al be a b) ab) ra rb rab
  | KLinT al be tols ra rb rab =>
      Nat.eqb (length tols) (length rab) &&
      all3 (fun tab a b => close_list (fst tab) (qlin al be a b) (snd tab)) (map2 pair tols rab) ra rb
  | KPrefix k rtol m1 m2 =>
      all2 (fun a b => close_list (rtol * qabsmax a) (firstn k a) (firstn k b)) m1 m2
  | KShift k rtol ms ml =>
      all2 (fun s l => close_list (rtol * qabsmax s) (repeat 0 k ++ s) l) ms ml
  | KRows idx rtol mall msub =>
      all2 (fun i s => close_list (rtol * qabsmax s) (nth i mall []) s) idx msub
  | KRefine m rtol coarse fine =>
      all2 (fun cr fr => close_list (rtol * qabsmax cr) cr (firstn (length cr) (every_nth m fr))) coarse fine
  | KGe rtol small big => all2 (fun s b => Qleb (s * (1 - rtol)) b) small big
  | KScale al rtol s s' => close_list (rtol * qabsmax s') (map (fun x => Qabs al * x) s) s'
  end.
