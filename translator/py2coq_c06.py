#!/venv/bin/python
"""Fail-closed translator of the Fourier-amplitude-spectrum statements (property C06)  ->  coq/gen/Gen_c06.v

    eqsig/single.py         Signal.gen_fa_spectrum(self, p2_plus=0, n=None)      -> gen_sig_fa
    eqsig/fns/frequency.py  generate_fa_spectrum(sig, n_pad=True)                -> gen_generate_fa (+ gen_generate_fa_asserts)
                            calc_fa_spectrum(sig, n=None, p2_plus=None)          -> gen_calc_fa     (+ gen_calc_fa_asserts)
                            fas2values(fas, dt)                                  -> gen_fas2values
                            fas2signal(fas, dt, stype='signal')                  -> gen_fas2signal  (the array handed to Signal / AccSignal)

np.fft.fft / np.fft.ifft are NOT translated: they are the Section variables fft_re, fft_im (real / imaginary parts of
np.fft.fft(a) = `fft_* None a`, np.fft.fft(a, n=N) = `fft_* (Some N) a`) and ifft_re, ifft_im (of a complex array given as two
lists) of the generated file.  What IS translated is everything around them: the transform-length rule, the number of
reported bins, the slice, the dt scaling, the frequency grid, the Hermitian completion.  coq/proofs/P_gen_c06.v instantiates
the variables with the DFT sums of lib/Dft.v and proves every generated definition equal to the model of model/M_fourier.v
for ALL inputs and every NumOps instance, so a changed source statement changes the generated text and breaks a proof
obligation of Prop_C06 on the next run.

Each function body is evaluated symbolically, statement by statement; local assignments are substituted into their uses (a
renamed temporary gives the same text).  Anything outside the whitelist raises `Unsupported` (the tie is broken; the harness
reports it).  Helpers (Unsupported, fail, dotted, is_const, builtin_untouched) come from py2coq_numpy / py2coq_durations.

values      : Z int | ZF integer-valued float | L2 np.log2 of an int | QF true quotient of two ints | S float scalar
              | RV real vector | CV complex vector (two terms) | OPT optional-int parameter | B boolean parameter | O object
expressions : int literals; names of parameters / earlier assignments; `o.npts` -> Z.of_nat (length a), `o.values` -> a,
              `o.dt` -> dt of the object parameter (`sig` / `self`; the object layer npts == len(values) stays with the
              correspondence);  an OPT parameter where it is known not to be None -> its value;
              Z (+ - * // **) Z;  `np.log2(Z)`;  `np.ceil(L2)` -> Z.log2_up;  ZF (+ -) Z;  `int(ZF)`;  `Z / Z` and `int(QF)`
              -> Z.quot;  `len(RV | CV)` -> Z.of_nat (length ..);  Z * S, S * Z -> nofZ z * s;  S (+ - * /) S;
              `np.fft.fft(RV)`, `np.fft.fft(RV, n=Z)`, `np.fft.ifft(CV)` -> the Section variables;
              `CV[range(Z)]` -> take n0 .. (seq 0 (Z.to_nat z));  `CV[1:]` -> tl;  `CV[:Z]` -> firstn (Z.to_nat z);
              CV (* /) S, RV (* /) S -> map (fun x => x op s);  `np.arange(Z)` -> arange (Z.to_nat z);
              `np.zeros(Z, dtype=complex)` -> zeros (Z.to_nat z);  `np.conj(CV)` -> (re, vopp im);  `np.flip(CV, axis=0)` -> rev
statements  : docstring;  `name = e`;  `if b:` on the boolean parameter;  `if <t>:` with t built by `or` / `and` from
              `p is None` / `p is not None` on OPT parameters (evaluated left to right, known states pruned) -> match;
              `assert len(CV) == Z` -> a conjunct of gen_<f>_asserts (the function raises AssertionError where it is false);
              `a[Z:Z] = CV`, `a[Z:] = CV`, `a /= S` on a complex array created by np.zeros in this function that no other
              binding was computed from -> set_slice / map;
              `return CV, RV` (spectrum functions), `return CV` (fas2values);
              in the method: `self._fa_spectrum = CV`, `self._fa_freqs = RV`, `self._cached_fa = True` (each exactly once,
              on every path; they are the results);
              in fas2signal: the local `from eqsig.single import Signal, AccSignal` and the final
              `if stype == 'signal': return Signal(s, dt) else: return AccSignal(s, dt)` (the result is s; dt is passed on).
"""
import ast, os, sys

HERE = os.path.dirname(os.path.abspath(__file__))
sys.path.insert(0, HERE)
from py2coq_numpy import Unsupported, fail, dotted, is_const          # noqa: E402
from py2coq_durations import builtin_untouched                        # noqa: E402

VERIF = os.path.dirname(HERE)
OUT = os.path.join(VERIF, 'coq', 'gen', 'Gen_c06.v')
X = 'x'                                                               # bound variable of the generated lambdas
BUILTINS = ('int', 'len', 'range')
RESERVED = {'np', 'numpy', 'int', 'len', 'range', 'Signal', 'AccSignal', 'True', 'False', 'None'}
OBJ_ATTRS = {'npts': ('Z', 'Z.of_nat (length a)'), 'values': ('RV', 'a'), 'dt': ('S', 'dt')}

# file, class (or None), function, generated name, python parameters -> kind, binders (coq name, coq type), result shape
SPECS = [
    dict(file='eqsig/single.py', cls='Signal', func='gen_fa_spectrum', gen='gen_sig_fa', method=True,
         params=[('self', 'O'), ('p2_plus', 'Z'), ('n', 'OPT')],
         binders=[('p2_plus', 'Z'), ('n', 'option Z'), ('dt', 'T'), ('a', 'list T')], ret='spectrum'),
    dict(file='eqsig/fns/frequency.py', cls=None, func='generate_fa_spectrum', gen='gen_generate_fa', method=False,
         params=[('sig', 'O'), ('n_pad', 'B')],
         binders=[('n_pad', 'bool'), ('dt', 'T'), ('a', 'list T')], ret='spectrum'),
    dict(file='eqsig/fns/frequency.py', cls=None, func='calc_fa_spectrum', gen='gen_calc_fa', method=False,
         params=[('sig', 'O'), ('n', 'OPT'), ('p2_plus', 'OPT')],
         binders=[('n', 'option Z'), ('p2_plus', 'option Z'), ('dt', 'T'), ('a', 'list T')], ret='spectrum'),
    dict(file='eqsig/fns/frequency.py', cls=None, func='fas2values', gen='gen_fas2values', method=False,
         params=[('fas', 'CV'), ('dt', 'S')],
         binders=[('re', 'list T'), ('im', 'list T'), ('dt', 'T')], ret='complex'),
    dict(file='eqsig/fns/frequency.py', cls=None, func='fas2signal', gen='gen_fas2signal', method=False,
         params=[('fas', 'CV'), ('dt', 'S'), ('stype', 'STR')],
         binders=[('re', 'list T'), ('im', 'list T'), ('dt', 'T')], ret='complex', signal_tail=True),
]
RET_TYPES = {'spectrum': 'list T * list T * list T', 'complex': 'list T * list T'}


# ---------------------------------------------------------------- values
class Val:
    def __init__(self, kind, t=None, im=None, deps=(), owned=False, state=None):
        self.kind, self.t, self.im, self.deps, self.owned, self.state = kind, t, im, frozenset(deps), owned, state


def par(t):
    """parenthesise unless t is an identifier or already one parenthesised group (possibly with a %Z scope mark)"""
    if t.replace('_', 'a').replace("'", 'a').replace('.', 'a').isalnum():
        return t
    core = t[:-2] if t.endswith(')%Z') else t
    if core.startswith('(') and core.endswith(')'):
        depth = 0
        for i, c in enumerate(core):
            depth += (c == '(') - (c == ')')
            if depth == 0 and i < len(core) - 1:
                break
        else:
            return t
    return '(%s)' % t


def zbin(op, a, b):
    return '(%s %s %s)%%Z' % (a, op, b)


def znat(t):
    return 'Z.to_nat %s' % par(t)


def int_const(e):
    return isinstance(e, ast.Constant) and type(e.value) is int


def is_none(e):
    return isinstance(e, ast.Constant) and e.value is None


# ---------------------------------------------------------------- module-level checks
def check_module(tree, path):
    """`np` is `import numpy as np` and nothing else; int / len / range are the builtins"""
    np_ok = False
    for st in tree.body:
        if isinstance(st, ast.Import):
            for al in st.names:
                bound = al.asname or al.name.split('.')[0]
                if bound == 'np':
                    if al.name != 'numpy':
                        fail(st, 'np is bound to %s' % al.name)
                    np_ok = True
        elif isinstance(st, ast.ImportFrom):
            for al in st.names:
                if (al.asname or al.name) in ('np',) + BUILTINS or al.name == '*':
                    fail(st, 'module binds %s' % (al.asname or al.name))
        elif isinstance(st, (ast.FunctionDef, ast.ClassDef)):
            if st.name in ('np',) + BUILTINS:
                fail(st, 'module defines %s' % st.name)
        else:
            for n in ast.walk(st):
                if isinstance(n, ast.Name) and isinstance(n.ctx, (ast.Store, ast.Del)) and n.id == 'np':
                    fail(st, 'module assigns np')
    for n in ast.walk(tree):
        if isinstance(n, (ast.Global, ast.Nonlocal)) and set(n.names) & (set(BUILTINS) | {'np'}):
            fail(n, 'global/nonlocal declaration of a whitelisted name')
    if not np_ok:
        raise Unsupported('%s: np is not `import numpy as np`' % path)

    class M:
        pass
    m = M()
    m.tree = tree
    for b in BUILTINS:
        if not builtin_untouched(m, b):
            raise Unsupported('%s: the module binds %s' % (path, b))


def find_function(tree, spec):
    body = tree.body
    if spec['cls']:
        cl = [s for s in body if isinstance(s, ast.ClassDef) and s.name == spec['cls']]
        if len(cl) != 1 or cl[0].decorator_list:
            raise Unsupported('class %s not found exactly once' % spec['cls'])
        # no other class of the module overrides the method (AccSignal inherits it)
        for s in body:
            if isinstance(s, ast.ClassDef) and s is not cl[0]:
                if any(isinstance(x, ast.FunctionDef) and x.name == spec['func'] for x in ast.walk(s)):
                    raise Unsupported('%s is overridden in class %s' % (spec['func'], s.name))
        body = cl[0].body
        for s in ast.walk(cl[0]):
            if isinstance(s, ast.Name) and isinstance(s.ctx, ast.Store) and s.id == spec['func']:
                raise Unsupported('%s is re-bound in the class body' % spec['func'])
    fn = [s for s in body if isinstance(s, ast.FunctionDef) and s.name == spec['func']]
    if len(fn) != 1:
        raise Unsupported('function %s not found exactly once' % spec['func'])
    fn = fn[0]
    a = fn.args
    if fn.decorator_list or a.vararg or a.kwarg or a.kwonlyargs or getattr(a, 'posonlyargs', []):
        fail(fn, '%s: decorated / unsupported signature' % spec['func'])
    names = [x.arg for x in a.args]
    if names != [p for p, _ in spec['params']]:
        raise Unsupported('%s: parameters are %r, expected %r' % (spec['func'], names, [p for p, _ in spec['params']]))
    return fn


# ---------------------------------------------------------------- one function
class Ctx:
    def __init__(self, spec):
        self.spec = spec
        self.coqnames = {b[0] for b in spec['binders']} | {X, 'fft_re', 'fft_im', 'ifft_re', 'ifft_im', 'n0', 'n1'}

    # ------------------------------------------------------------ expressions
    def ev(self, e, env):
        if isinstance(e, ast.Constant):
            if not int_const(e) or abs(e.value) > 10 ** 9:
                fail(e, 'literal %r' % (e.value,))
            return Val('Z', '%d%%Z' % e.value if e.value >= 0 else '(%d)%%Z' % e.value)
        if isinstance(e, ast.Name):
            v = env.get(e.id)
            if v is None:
                fail(e, 'unknown name %s' % e.id)
            if v.kind == 'OPT':
                if v.state != 'some':
                    fail(e, '%s used as a number where it is not known to be an int' % e.id)
                return Val('Z', v.t + "'", deps=[e.id])
            if v.kind in ('B', 'O', 'STR'):
                fail(e, 'parameter %s in expression position' % e.id)
            return Val(v.kind, v.t, v.im, deps=v.deps | {e.id}, owned=False)
        if isinstance(e, ast.Attribute):
            if isinstance(e.value, ast.Name) and env.get(e.value.id) is not None and env[e.value.id].kind == 'O':
                if e.attr not in OBJ_ATTRS:
                    fail(e, 'attribute .%s of the object parameter' % e.attr)
                k, t = OBJ_ATTRS[e.attr]
                return Val(k, t)
            fail(e, 'attribute %s' % (dotted(e) or '?'))
        if isinstance(e, ast.BinOp):
            return self.binop(e, env)
        if isinstance(e, ast.Subscript):
            return self.subscript(e, env)
        if isinstance(e, ast.Call):
            return self.call(e, env)
        fail(e, 'expression %s' % type(e).__name__)

    def binop(self, e, env):
        x, y = self.ev(e.left, env), self.ev(e.right, env)
        deps = x.deps | y.deps
        op = type(e.op)
        kk = (x.kind, y.kind)
        if kk == ('Z', 'Z'):
            sym = {ast.Add: '+', ast.Sub: '-', ast.Mult: '*', ast.FloorDiv: '/', ast.Pow: '^'}.get(op)
            if sym:
                return Val('Z', zbin(sym, x.t, y.t), deps=deps)
            if op is ast.Div:
                return Val('QF', x.t, y.t, deps=deps)
        if kk == ('ZF', 'Z') and op in (ast.Add, ast.Sub):
            return Val('ZF', zbin('+' if op is ast.Add else '-', x.t, y.t), deps=deps)
        if kk == ('Z', 'ZF') and op is ast.Add:
            return Val('ZF', zbin('+', x.t, y.t), deps=deps)
        sym = {ast.Add: '+', ast.Sub: '-', ast.Mult: '*', ast.Div: '/'}.get(op)
        if kk == ('S', 'S') and sym:
            return Val('S', '%s %s %s' % (par(x.t), sym, par(y.t)), deps=deps)
        if kk == ('Z', 'S') and op is ast.Mult:
            return Val('S', 'nofZ %s * %s' % (par(x.t), par(y.t)), deps=deps)
        if kk == ('S', 'Z') and op is ast.Mult:
            return Val('S', '%s * nofZ %s' % (par(x.t), par(y.t)), deps=deps)
        if x.kind in ('RV', 'CV') and y.kind == 'S' and op in (ast.Mult, ast.Div):
            f = 'map (fun %s => %s %s %s) ' % (X, X, sym, par(y.t))
            return Val(x.kind, f + par(x.t), f + par(x.im) if x.kind == 'CV' else None, deps=deps)
        fail(e, 'operator %s on %s, %s' % (op.__name__, x.kind, y.kind))

    def subscript(self, e, env):
        x = self.ev(e.value, env)
        if x.kind != 'CV':
            fail(e, 'subscript of a %s' % x.kind)
        sl = e.slice
        if isinstance(sl, ast.Index):      # python < 3.9
            sl = sl.value
        if isinstance(sl, ast.Call) and isinstance(sl.func, ast.Name) and sl.func.id == 'range' and 'range' not in env:
            if len(sl.args) != 1 or sl.keywords:
                fail(e, 'range arguments')
            k = self.ev(sl.args[0], env)
            if k.kind != 'Z':
                fail(e, 'range of a %s' % k.kind)
            f = ' (seq 0 (%s))' % znat(k.t)
            return Val('CV', 'take n0 ' + par(x.t) + f, 'take n0 ' + par(x.im) + f, deps=x.deps | k.deps)
        if isinstance(sl, ast.Slice) and sl.step is None:
            if sl.upper is None and sl.lower is not None and int_const(sl.lower) and sl.lower.value == 1:
                return Val('CV', 'tl %s' % par(x.t), 'tl %s' % par(x.im), deps=x.deps)
            if sl.lower is None and sl.upper is not None:
                k = self.ev(sl.upper, env)
                if k.kind != 'Z':
                    fail(e, 'slice bound of kind %s' % k.kind)
                f = 'firstn (%s) ' % znat(k.t)
                return Val('CV', f + par(x.t), f + par(x.im), deps=x.deps | k.deps)
        fail(e, 'subscript other than [range(k)], [1:], [:k]')

    def call(self, e, env):
        d = dotted(e.func)
        if d is None:
            fail(e, 'call of a computed function')
        if d.split('.')[0] in env:
            fail(e, 'call through the local name %s' % d.split('.')[0])
        args, kws = e.args, {k.arg: k.value for k in e.keywords}
        if any(isinstance(a, ast.Starred) for a in args) or None in kws:
            fail(e, 'star arguments')

        def one(kind=None):
            if len(args) != 1 or kws:
                fail(e, '%s arguments' % d)
            v = self.ev(args[0], env)
            if kind and v.kind not in kind:
                fail(e, '%s of a %s' % (d, v.kind))
            return v
        if d == 'np.log2':
            v = one(('Z',))
            return Val('L2', v.t, deps=v.deps)
        if d == 'np.ceil':
            v = one(('L2',))
            return Val('ZF', 'Z.log2_up %s' % par(v.t), deps=v.deps)
        if d == 'int':
            v = one(('ZF', 'QF', 'Z'))
            if v.kind == 'QF':
                return Val('Z', 'Z.quot %s %s' % (par(v.t), par(v.im)), deps=v.deps)
            return Val('Z', v.t, deps=v.deps)
        if d == 'len':
            v = one(('RV', 'CV'))
            return Val('Z', 'Z.of_nat (length %s)' % par(v.t), deps=v.deps)
        if d == 'np.arange':
            v = one(('Z',))
            return Val('RV', 'arange (%s)' % znat(v.t), deps=v.deps)
        if d == 'np.fft.fft':
            if len(args) != 1 or set(kws) - {'n'}:
                fail(e, 'np.fft.fft arguments other than (a) / (a, n=N)')
            v = self.ev(args[0], env)
            if v.kind != 'RV':
                fail(e, 'np.fft.fft of a %s' % v.kind)
            deps = v.deps
            if 'n' in kws:
                k = self.ev(kws['n'], env)
                if k.kind != 'Z':
                    fail(e, 'np.fft.fft: n of kind %s' % k.kind)
                nn, deps = '(Some %s)' % par(k.t), deps | k.deps
            else:
                nn = 'None'
            return Val('CV', 'fft_re %s %s' % (nn, par(v.t)), 'fft_im %s %s' % (nn, par(v.t)), deps=deps)
        if d == 'np.fft.ifft':
            v = one(('CV',))
            return Val('CV', 'ifft_re %s %s' % (par(v.t), par(v.im)), 'ifft_im %s %s' % (par(v.t), par(v.im)), deps=v.deps)
        if d == 'np.zeros':
            if len(args) != 1 or set(kws) != {'dtype'} or not (isinstance(kws['dtype'], ast.Name) and kws['dtype'].id == 'complex'
                                                               and 'complex' not in env):
                fail(e, 'np.zeros other than np.zeros(k, dtype=complex)')
            k = self.ev(args[0], env)
            if k.kind != 'Z':
                fail(e, 'np.zeros of a %s' % k.kind)
            t = 'zeros (%s)' % znat(k.t)
            return Val('CV', t, t, deps=k.deps, owned=True)
        if d == 'np.conj':
            v = one(('CV',))
            return Val('CV', v.t, 'vopp %s' % par(v.im), deps=v.deps)
        if d == 'np.flip':
            if len(args) != 1 or set(kws) != {'axis'} or not (int_const(kws['axis']) and kws['axis'].value == 0):
                fail(e, 'np.flip other than np.flip(v, axis=0)')
            v = self.ev(args[0], env)
            if v.kind != 'CV':
                fail(e, 'np.flip of a %s' % v.kind)
            return Val('CV', 'rev %s' % par(v.t), 'rev %s' % par(v.im), deps=v.deps)
        fail(e, 'call of %s' % d)

    # ------------------------------------------------------------ conditions
    def opt_test(self, t, env):
        """`p is None` / `p is not None` on an OPT parameter -> (name, True when the test asks for `not None`)"""
        if (isinstance(t, ast.Compare) and len(t.ops) == 1 and isinstance(t.ops[0], (ast.Is, ast.IsNot)) and is_none(t.comparators[0])
                and isinstance(t.left, ast.Name) and env.get(t.left.id) is not None and env[t.left.id].kind == 'OPT'):
            return t.left.id, isinstance(t.ops[0], ast.IsNot)
        return None

    def branch(self, t, env, yes, no):
        """decision tree of the test t; yes(env) / no(env) build the subtrees (env carries what is known about the OPTs)"""
        if isinstance(t, ast.BoolOp) and isinstance(t.op, (ast.Or, ast.And)):
            vals = list(t.values)
            if len(vals) < 2:
                fail(t, 'boolean operator')
            first, rest = vals[0], (vals[1] if len(vals) == 2 else ast.BoolOp(op=t.op, values=vals[1:]))
            if isinstance(t.op, ast.Or):
                return self.branch(first, env, yes, lambda env2: self.branch(rest, env2, yes, no))
            return self.branch(first, env, lambda env2: self.branch(rest, env2, yes, no), no)
        ot = self.opt_test(t, env)
        if ot is not None:
            name, want_some = ot
            v = env[name]
            if v.state is not None:
                return (yes if (v.state == 'some') == want_some else no)(env)
            es, en = dict(env), dict(env)
            es[name] = Val('OPT', v.t, state='some')
            en[name] = Val('OPT', v.t, state='none')
            ts, tn = (yes if want_some else no)(es), (no if want_some else yes)(en)
            return ('match', v.t, ts, tn)
        if isinstance(t, ast.Name) and env.get(t.id) is not None and env[t.id].kind == 'B':
            return ('if', env[t.id].t, yes(env), no(env))
        fail(t, 'condition other than the boolean parameter or `is None` / `is not None` tests joined by or / and')

    # ------------------------------------------------------------ statements
    def mutable(self, s, name, env):
        v = env.get(name)
        if v is None or v.kind != 'CV' or not v.owned:
            fail(s, 'in-place statement on %s, which is not a complex array created by np.zeros in this function' % name)
        for other, w in env.items():
            if other != name and name in w.deps:
                fail(s, 'in-place statement on %s while %s was computed from it' % (name, other))
        return v

    def block(self, stmts, env, out, depth=0):
        """out: what the method stored so far ({'spec': CV, 'freqs': RV, 'cached': bool})"""
        if depth > 12:
            fail(stmts[0] if stmts else None, 'nesting too deep')
        env, out, stmts = dict(env), dict(out), list(stmts)
        spec = self.spec
        while stmts:
            s = stmts.pop(0)
            if isinstance(s, ast.Expr) and isinstance(s.value, ast.Constant) and isinstance(s.value.value, str):
                continue                                                 # docstring
            if isinstance(s, ast.ImportFrom) and spec.get('signal_tail'):
                if (s.module == 'eqsig.single' and not s.level and [(a.name, a.asname) for a in s.names] == [('Signal', None), ('AccSignal', None)]
                        and 'imported' not in out):
                    out['imported'] = True
                    continue
                fail(s, 'import other than `from eqsig.single import Signal, AccSignal`')
            if isinstance(s, ast.Assert):
                t = s.test
                if not (s.msg is None and isinstance(t, ast.Compare) and len(t.ops) == 1 and isinstance(t.ops[0], ast.Eq)
                        and isinstance(t.left, ast.Call) and dotted(t.left.func) == 'len' and 'len' not in env):
                    fail(s, 'assert other than `assert len(v) == k`')
                ln, k = self.ev(t.left, env), self.ev(t.comparators[0], env)
                if k.kind != 'Z':
                    fail(s, 'assert against a %s' % k.kind)
                return ('assert', '(%s =? %s)%%Z' % (ln.t, k.t), self.block(stmts, env, out, depth + 1))
            if isinstance(s, ast.Assign):
                if len(s.targets) != 1:
                    fail(s, 'multiple assignment')
                t = s.targets[0]
                if isinstance(t, ast.Name):
                    if t.id in RESERVED or t.id in [p for p, _ in spec['params']] and env[t.id].kind in ('O', 'B', 'OPT', 'STR'):
                        fail(s, 'assignment to %s' % t.id)
                    if isinstance(s.value, ast.Name) and env.get(s.value.id) is not None and env[s.value.id].kind in ('RV', 'CV'):
                        fail(s, 'second name for the array %s' % s.value.id)
                    val = self.ev(s.value, env)
                    val.deps = val.deps - {t.id}
                    env[t.id] = val
                    continue
                if spec['method'] and isinstance(t, ast.Attribute) and isinstance(t.value, ast.Name) and env.get(t.value.id) is not None \
                        and env[t.value.id].kind == 'O':
                    if t.attr == '_cached_fa':
                        if not (isinstance(s.value, ast.Constant) and s.value.value is True) or 'cached' in out:
                            fail(s, 'expected `self._cached_fa = True` once')
                        out['cached'] = True
                        continue
                    key = {'_fa_spectrum': ('spec', 'CV'), '_fa_freqs': ('freqs', 'RV')}.get(t.attr)
                    if key is None or key[0] in out:
                        fail(s, 'store to self.%s (unexpected or repeated)' % t.attr)
                    val = self.ev(s.value, env)
                    if val.kind != key[1]:
                        fail(s, 'self.%s receives a %s' % (t.attr, val.kind))
                    out[key[0]] = val
                    continue
                if isinstance(t, ast.Subscript) and isinstance(t.value, ast.Name):
                    sl = t.slice
                    if isinstance(sl, ast.Index):
                        sl = sl.value
                    if not (isinstance(sl, ast.Slice) and sl.step is None and sl.lower is not None):
                        fail(s, 'slice assignment other than a[lo:hi] = v / a[lo:] = v')
                    a = self.mutable(s, t.value.id, env)
                    lo = self.ev(sl.lower, env)
                    hi = self.ev(sl.upper, env) if sl.upper is not None else None
                    val = self.ev(s.value, env)
                    if lo.kind != 'Z' or (hi is not None and hi.kind != 'Z') or val.kind != 'CV':
                        fail(s, 'slice assignment operands')
                    if t.value.id in val.deps | lo.deps | (hi.deps if hi else frozenset()):
                        fail(s, 'slice assignment whose right-hand side or bounds read the array itself')
                    f = 'set_slice (%s) %s ' % (znat(lo.t), '(Some (%s))' % znat(hi.t) if hi is not None else 'None')
                    env[t.value.id] = Val('CV', f + par(val.t) + ' ' + par(a.t), f + par(val.im) + ' ' + par(a.im),
                                          deps=a.deps | val.deps | lo.deps | (hi.deps if hi else frozenset()), owned=True)
                    continue
                fail(s, 'assignment target')
            if isinstance(s, ast.AugAssign):
                if not (isinstance(s.op, ast.Div) and isinstance(s.target, ast.Name)):
                    fail(s, 'augmented assignment other than a /= s')
                a = self.mutable(s, s.target.id, env)
                d = self.ev(s.value, env)
                if d.kind != 'S':
                    fail(s, 'a /= %s' % d.kind)
                f = 'map (fun %s => %s / %s) ' % (X, X, par(d.t))
                env[s.target.id] = Val('CV', f + par(a.t), f + par(a.im), deps=a.deps | d.deps, owned=True)
                continue
            if isinstance(s, ast.If):
                if spec.get('signal_tail') and self.is_signal_tail(s, env):
                    if stmts or not out.get('imported'):
                        fail(s, 'statements after the Signal / AccSignal return (or missing import)')
                    v = env[s.body[0].value.args[0].id]
                    return ('leaf', (v.t, v.im))
                rest = stmts
                return self.branch(s.test, env,
                                   lambda e2: self.block(list(s.body) + rest, e2, out, depth + 1),
                                   lambda e2: self.block(list(s.orelse) + rest, e2, out, depth + 1))
            if isinstance(s, ast.Return) and not spec['method'] and not spec.get('signal_tail'):
                v = s.value
                if spec['ret'] == 'spectrum':
                    if not (isinstance(v, ast.Tuple) and len(v.elts) == 2):
                        fail(s, 'return other than `return <spectrum>, <frequencies>`')
                    a, b = self.ev(v.elts[0], env), self.ev(v.elts[1], env)
                    if (a.kind, b.kind) != ('CV', 'RV'):
                        fail(s, 'returned kinds %s, %s' % (a.kind, b.kind))
                    return ('leaf', (a.t, a.im, b.t))
                if v is None or isinstance(v, ast.Tuple):
                    fail(s, 'return other than `return <complex array>`')
                a = self.ev(v, env)
                if a.kind != 'CV':
                    fail(s, 'returned kind %s' % a.kind)
                return ('leaf', (a.t, a.im))
            fail(s, 'statement %s' % type(s).__name__)
        if spec['method']:
            if set(out) != {'spec', 'freqs', 'cached'}:
                raise Unsupported('%s: a path ends without storing _fa_spectrum, _fa_freqs and _cached_fa' % spec['func'])
            return ('leaf', (out['spec'].t, out['spec'].im, out['freqs'].t))
        raise Unsupported('control reaches the end of %s without a return' % spec['func'])

    def is_signal_tail(self, s, env):
        """if stype == 'signal': return Signal(s, dt) else: return AccSignal(s, dt)"""
        t = s.test
        if not (isinstance(t, ast.Compare) and len(t.ops) == 1 and isinstance(t.ops[0], ast.Eq) and isinstance(t.left, ast.Name)
                and env.get(t.left.id) is not None and env[t.left.id].kind == 'STR'
                and isinstance(t.comparators[0], ast.Constant) and t.comparators[0].value == 'signal'):
            return False
        if len(s.body) != 1 or len(s.orelse) != 1:
            fail(s, 'shape of the Signal / AccSignal return')
        args = None
        for st, cls in ((s.body[0], 'Signal'), (s.orelse[0], 'AccSignal')):
            c = st.value if isinstance(st, ast.Return) else None
            if not (isinstance(c, ast.Call) and isinstance(c.func, ast.Name) and c.func.id == cls and cls not in env and not c.keywords
                    and len(c.args) == 2 and all(isinstance(a, ast.Name) for a in c.args)):
                fail(st, 'expected `return %s(<array>, <dt>)`' % cls)
            cur = [a.id for a in c.args]
            if args is not None and cur != args:
                fail(st, 'Signal and AccSignal receive different arguments')
            args = cur
        v, d = env.get(args[0]), env.get(args[1])
        if v is None or v.kind != 'CV' or d is None or d.kind != 'S' or d.t != 'dt':
            fail(s, 'Signal / AccSignal must receive the complex array and the parameter dt')
        return True


# ---------------------------------------------------------------- rendering
def render(tree, ind=2):
    sp = ' ' * ind
    k = tree[0]
    if k == 'leaf':
        return '%s(%s)' % (sp, (',\n%s ' % sp).join(tree[1]))
    if k == 'assert':
        return render(tree[2], ind)
    if k == 'if':
        return '%sif %s then\n%s\n%selse\n%s' % (sp, tree[1], render(tree[2], ind + 2), sp, render(tree[3], ind + 2))
    if k == 'match':
        return "%smatch %s with\n%s| Some %s' =>\n%s\n%s| None =>\n%s\n%send" % (
            sp, tree[1], sp, tree[1], render(tree[2], ind + 4), sp, render(tree[3], ind + 4), sp)
    raise Unsupported('internal: tree %r' % (k,))


def has_assert(tree):
    k = tree[0]
    if k == 'leaf':
        return False
    if k == 'assert':
        return True
    return has_assert(tree[2]) or has_assert(tree[3])


def render_asserts(tree, ind=2):
    sp = ' ' * ind
    k = tree[0]
    if not has_assert(tree):
        return sp + 'true'
    if k == 'assert':
        rest = render_asserts(tree[2], 0)
        return '%s%s%s' % (sp, tree[1], '' if rest == 'true' else ' && (%s)' % rest)
    if k == 'if':
        return '%sif %s then\n%s\n%selse\n%s' % (sp, tree[1], render_asserts(tree[2], ind + 2), sp, render_asserts(tree[3], ind + 2))
    return "%smatch %s with\n%s| Some %s' =>\n%s\n%s| None =>\n%s\n%send" % (
        sp, tree[1], sp, tree[1], render_asserts(tree[2], ind + 4), sp, render_asserts(tree[3], ind + 4), sp)


def translate_function(tree, spec):
    fn = find_function(tree, spec)
    ctx = Ctx(spec)
    env = {}
    for p, k in spec['params']:
        if p in RESERVED or p in ctx.coqnames - {b[0] for b in spec['binders']}:
            raise Unsupported('parameter named %s' % p)
        if k == 'CV':
            env[p] = Val('CV', 're', 'im')
        elif k == 'S':
            env[p] = Val('S', 'dt')
        elif k == 'Z':
            env[p] = Val('Z', p)
        else:
            env[p] = Val(k, p)
    tree_ = ctx.block(list(fn.body), env, {})
    sig = ' '.join('(%s : %s)' % b for b in spec['binders'])
    pysig = ast.unparse(fn.args)
    where = '%s: %s%s(%s)' % (spec['file'], spec['cls'] + '.' if spec['cls'] else '', spec['func'], pysig)
    text = '(** %s *)\nDefinition %s %s : %s :=\n%s.\n' % (where, spec['gen'], sig, RET_TYPES[spec['ret']], render(tree_))
    if has_assert(tree_):
        text += ('(** the `assert` statements passed on the way (the function raises AssertionError where this is false) *)\n'
                 'Definition %s_asserts %s : bool :=\n%s.\n' % (spec['gen'], sig, render_asserts(tree_)))
    # defaults of the python signature: constants of their own (tied by a lemma)
    consts = []
    names = [a.arg for a in fn.args.args]
    kinds = dict(spec['params'])
    for n, dflt in zip(names[len(names) - len(fn.args.defaults):], fn.args.defaults):
        if not isinstance(dflt, ast.Constant):
            fail(dflt, 'default of %s is not a constant' % n)
        k = kinds[n]
        if k == 'B' and isinstance(dflt.value, bool):
            consts.append('Definition %s_default_%s : bool := %s.\n' % (spec['gen'], n, 'true' if dflt.value else 'false'))
        elif k == 'OPT' and dflt.value is None:
            consts.append('Definition %s_default_%s : option Z := None.\n' % (spec['gen'], n))
        elif k == 'OPT' and type(dflt.value) is int:
            consts.append('Definition %s_default_%s : option Z := Some (%d)%%Z.\n' % (spec['gen'], n, dflt.value))
        elif k == 'Z' and type(dflt.value) is int:
            consts.append('Definition %s_default_%s : Z := (%d)%%Z.\n' % (spec['gen'], n, dflt.value))
        elif k == 'STR' and isinstance(dflt.value, str):
            pass                                                         # which class wraps the array: not part of the array
        else:
            fail(dflt, 'default %r of the %s parameter %s' % (dflt.value, k, n))
    return text, consts


HEADER = '''(** GENERATED by translator/py2coq_c06.py from eqsig/single.py (Signal.gen_fa_spectrum) and eqsig/fns/frequency.py
    (generate_fa_spectrum, calc_fa_spectrum, fas2values, fas2signal) -- do not edit; rewritten on every run.
    One definition per source function, generic over [NumOps T]; temporaries are substituted.  A complex array is two lists
    (real parts, imaginary parts); a spectrum result is (real parts, imaginary parts, frequencies).
    np.fft.fft / np.fft.ifft are the Section variables: [fft_re None a], [fft_im None a] = np.fft.fft(a);
    [fft_re (Some N) a], [fft_im (Some N) a] = np.fft.fft(a, n=N); [ifft_re re im], [ifft_im re im] = np.fft.ifft(re + i im).
    Inputs: a = the record (.values), dt = the time step (.dt), .npts = Z.of_nat (length a); re, im = the half spectrum `fas`.
    The readings of the array statements are in lib/NpArr.v (set_slice, zeros), lib/NpList.v (take, vopp), lib/PyVal.v (arange);
    int(a / b) = Z.quot a b, a // b = Z.div a b, np.ceil(np.log2(k)) = Z.log2_up k.
    proofs/P_gen_c06.v instantiates fft / ifft with the DFT sums of lib/Dft.v and proves every definition equal to the model. *)
From Coq Require Import ZArith List Bool.
From EQ Require Import lib.Num lib.NpList lib.PyVal lib.NpArr.
Import ListNotations.
Local Open Scope num_scope.

Section Generic.
Context {T : Type} `{NumOps T}.
Variable fft_re fft_im : option Z -> list T -> list T.
Variable ifft_re ifft_im : list T -> list T -> list T.
'''


def translate_sources(read):
    """read(relative path) -> source text"""
    trees = {}
    defs, consts = [], []
    for spec in SPECS:
        try:
            if spec['file'] not in trees:
                t = ast.parse(read(spec['file']))
                check_module(t, spec['file'])
                trees[spec['file']] = t
            text, extra = translate_function(trees[spec['file']], spec)
        except Unsupported as e:
            raise Unsupported('%s:%s: %s' % (spec['file'], spec['func'], e))
        defs.append(text)
        consts.extend(extra)
    return HEADER + '\n' + '\n'.join(defs) + 'End Generic.\n' + ('\n' + ''.join(consts) if consts else '')


def regenerate(repo=None, out=None):
    """returns True iff the file was rewritten; raises Unsupported / OSError / SyntaxError (fail closed).
    On failure the committed copy is left as it is: the caller reports the broken tie."""
    repo = repo or os.environ.get('EQSIG_REPO', '/repo')
    out = out or OUT
    text = translate_sources(lambda rel: open(os.path.join(repo, rel)).read())
    old = open(out).read() if os.path.exists(out) else None
    if old != text:
        os.makedirs(os.path.dirname(out), exist_ok=True)
        tmp = '%s.%d.tmp' % (out, os.getpid())
        with open(tmp, 'w') as f:
            f.write(text)
        os.replace(tmp, out)
        return True
    return False


def main():
    try:
        ch = regenerate(repo=sys.argv[1] if len(sys.argv) > 1 else None)
    except Exception as e:  # fail closed
        print('py2coq_c06: translation FAILED: %s: %s' % (type(e).__name__, e))
        return 1
    print('py2coq_c06: %s %s' % (os.path.relpath(OUT, VERIF), 'rewritten' if ch else 'unchanged'))
    return 0


if __name__ == '__main__':
    sys.exit(main())
