#!/venv/bin/python
"""Fail-closed translator of the power-law equivalent-cycle functions of eqsig/im.py and of the peak-only series of
eqsig/fns/peaks_and_crossings.py  ->  coq/gen/Gen_c13.v          (property C13)

    im.py    calc_n_cyc_array_w_power_law             -> gen_n_cyc          calc_cyc_amp_array_w_power_law   -> gen_cyc_amp
             calc_cyc_amp_gm_arrays_w_power_law       -> gen_cyc_amp_gm     calc_cyc_amp_combined_arrays_... -> gen_cyc_amp_combined
    peaks_and_crossings.py
             determine_peaks_only_delta_series        -> gen_delta_series   (determine_peak_only_delta_series_4_cleaned_data inlined)
             determine_pseudo_cyclic_peak_only_series -> gen_pseudo_series  (_determine_peak_only_series_4_cleaned_data inlined)

Each function becomes one Gallina definition, generic over `NumOps T` (lib/Num.v), over the list primitives of lib/NpList.v and
the pieces of the hand model that the source *calls* rather than computes (model/M_peaks.v: switched_peaks, nsign;
model/M_cycles.v: scatter = np.zeros_like + np.put, np_insert, interp_previous = interp1d(kind='previous')).
coq/proofs/P_gen_c13.v proves every generated definition equal to the hand-written model of model/M_cycles.v for ALL inputs, so
a changed source statement changes the generated term and breaks a proof obligation of Prop_C13 on the next run.

Every array-valued assignment becomes a `let` whose name is its position in evaluation order (t1, t2, ...): a renamed
temporary gives the same text.  Scalar assignments are substituted.  Anything outside the whitelist raises `Unsupported`
(= the tie is broken; the harness reports it).  The helper classes and the scalar/vector arithmetic table are those of
translator/py2coq_numpy.py and translator/py2coq_durations.py (imported, not modified).

values      : S float scalar | V float vector | I index vector | N index scalar | T element-wise test | P the pair returned by
              clean_out_non_changing | F the interp1d object.  Vectors carry a symbolic length (base, k) = len(base) + k, k >= 0
expressions : parameters / earlier assignments;  int / float literals (floats as the exact decimal rational of their repr);
              unary minus;  S (+ - * /) S;  V (* /) S;  S * V;  S / V -> map (fun x => S / x) V;
              V (+ - *) V -> vadd / vsub / vmul (the zip of lib/NpList.v: numpy raises or broadcasts on unequal lengths, that
                  guard stays with the correspondence);
              `e ** y` with a scalar y -> pow e y (element-wise on a vector), `pow` = the real power, a parameter of the definition;
              `abs(V)`, `np.abs(V)` -> vabs;  `np.max(V)` -> amax;  `np.sqrt(V)` -> map sq, `sq` a parameter;  `np.sign(S)` -> nsign;
              `np.cumsum(V[, axis=0])` -> cumsum;  `np.diff(V)` -> diff;  `np.take(V, I)` -> take n0 V I;  `np.array(V)` -> a fresh copy;
              `np.insert(X, pos, v[, axis=0])` -> np_insert X pos v   (pos: an int literal, len(Y), len(Y) - 1 with len(Y) >= 1 known);
              `V < S` etc. -> an element-wise test;  `np.where(test, a, b)` -> np_where (a, b vectors, or scalars read as constant vectors);
              `np.where(np.mod(np.arange(len(V)), m), a, b)` -> [b, a, b, ...] by the parity of the position (m, a, b taken from the source);
              `V[:, np.newaxis]` -> V  (the column reading: one power-law exponent b; array-valued b is checked column by column
                  by the correspondence);  `V[k]` -> nth k V n0;  `V[-1]` with len(V) >= 1 known -> last V n0;
              `eqsig.fns.peaks_and_crossings.get_switched_peak_array_indices(V)` -> switched_peaks n0 V   (a reference to the model of
                  C12; the default tol=0.0 is checked in the source of that function);
              `clean_out_non_changing(V)` -> clean V, `determine_indices_of_peaks_for_cleaned_array(V)` -> cpk V  (references: the two
                  functions are parameters of the generated definition; P_gen_c13.v states what it needs of them);
              `interp1d(I, V, kind='previous', axis=0)` (after `from scipy.interpolate import interp1d` in the function) applied to
                  `np.arange(len(W))` -> map (interp_previous I V) (seq 0 (length W));
              `g(args)` with g another plain function of the same module -> inlined.
statements  : docstring; `name = e`; `a, b = clean_out_non_changing(e)`; `name -= S`, `name *= S` on an array this function created
              and nothing else refers to; `z = np.zeros_like(V)` followed (later) by `np.put(z, I, W)` on the untouched, unaliased z
              -> scatter 0 (length V) I W;  `assert len(A) == len(B)` (not translated: an exception path);
              `if not hasattr(b, '__len__'): return np.reshape(X, len(V))` directly followed by `return X` with len(X) = len(V) known
              -> X (scalar-b reading);  `return e`.
"""
import ast, os, sys
from fractions import Fraction

HERE = os.path.dirname(os.path.abspath(__file__))
sys.path.insert(0, HERE)
import py2coq_numpy as base                                                        # noqa: E402
import py2coq_durations as dur                                                      # noqa: E402
from py2coq_numpy import Unsupported, fail, S, V, par, dotted, is_const, zlit        # noqa: E402
from py2coq_durations import N, BV, minus_one, builtin_untouched                    # noqa: E402

VERIF = os.path.dirname(HERE)
OUT = os.path.join(VERIF, 'coq', 'gen', 'Gen_c13.v')
IM = 'eqsig/im.py'
PC = 'eqsig/fns/peaks_and_crossings.py'
X = base.LAMBDA_VAR
SP_CALL = 'eqsig.fns.peaks_and_crossings.get_switched_peak_array_indices'
CLEAN, CPK = 'clean_out_non_changing', 'determine_indices_of_peaks_for_cleaned_array'

SPECS = [
    dict(file=IM, func='calc_n_cyc_array_w_power_law', gen='gen_n_cyc',
         params=[('values', 'V'), ('a_ref', 'S'), ('b', 'S'), ('cut_off', 'S')]),
    dict(file=IM, func='calc_cyc_amp_array_w_power_law', gen='gen_cyc_amp',
         params=[('values', 'V'), ('n_cyc', 'S'), ('b', 'S')]),
    dict(file=IM, func='calc_cyc_amp_gm_arrays_w_power_law', gen='gen_cyc_amp_gm',
         params=[('values0', 'V'), ('values1', 'V'), ('n_cyc', 'S'), ('b', 'S')]),
    dict(file=IM, func='calc_cyc_amp_combined_arrays_w_power_law', gen='gen_cyc_amp_combined',
         params=[('values0', 'V'), ('values1', 'V'), ('n_cyc', 'S'), ('b', 'S')]),
    dict(file=PC, func='determine_peaks_only_delta_series', gen='gen_delta_series', params=[('values', 'V')]),
    dict(file=PC, func='determine_pseudo_cyclic_peak_only_series', gen='gen_pseudo_series', params=[('values', 'V')]),
]
# function parameters of the generated definitions, in this order when used
FUNPARAMS = [('sq', 'T -> T'), ('pow', 'T -> T -> T'), ('clean', 'list T -> list T * list nat'), ('cpk', 'list T -> list nat')]
RESERVED_COQ = {X, 'k', 'p', 'c'} | {n for n, _ in FUNPARAMS}
COQ_TYPES = {'S': 'T', 'V': 'list T'}


# ---------------------------------------------------------------- additional values
class IX:          # index vector with a tracked length
    def __init__(self, term, length=None):
        self.term, self.length = term, length


class PairCI:      # result of clean_out_non_changing: (cleaned values, their indices)
    def __init__(self, term):
        self.term = term


class Interp:      # interp1d(I, V, kind='previous', axis=0)
    def __init__(self, xk, yk):
        self.xk, self.yk = xk, yk


def simple(t):
    return t.replace('_', 'a').isalnum()


def lit(node):
    """as py2coq_numpy.literal, with room for 1.0e-14"""
    v = node.value
    if isinstance(v, bool) or not isinstance(v, (int, float)):
        fail(node, 'literal %r' % (v,))
    if isinstance(v, int):
        if abs(v) > 10 ** 9:
            fail(node, 'integer literal too large')
        return S(zlit(v))
    fr = Fraction(repr(v))
    if float(fr) != v or fr.denominator > 10 ** 18 or abs(fr.numerator) > 10 ** 18:
        fail(node, 'float literal %r is not a short decimal' % v)
    if fr.denominator == 1:
        return S(zlit(fr.numerator))
    return S('%s / %s' % (par(zlit(fr.numerator)), par(zlit(fr.denominator))))


def ln_add(ln, k):
    if ln is None or ln[1] + k < 0:
        return None
    return (ln[0], ln[1] + k)


def int_lit(n, lo=0):
    return isinstance(n, ast.Constant) and type(n.value) is int and n.value >= lo and n.value < 10 ** 6


def axis0(kws, node, allowed=('axis',)):
    for k, v in kws.items():
        if k not in allowed:
            fail(node, 'keyword %s' % k)
    if 'axis' in kws and not (int_lit(kws['axis']) and kws['axis'].value == 0):
        fail(node, 'axis other than 0')


class C13Ctx(base.Ctx):
    def __init__(self, module, spec, tol_default_ok):
        base.Ctx.__init__(self, module, dict(spec, binders=[]))
        self.lets = []             # (name, term) in evaluation order
        self.used = set()          # function parameters used
        self.tol_default_ok = tol_default_ok

    compare = dur.DCtx.compare     # V op S / S op V -> BV  (uses only self.expr)

    # ------------------------------------------------------------ let-bindings
    def let(self, val):
        """name an array value (or the clean pair) by its position in evaluation order"""
        if simple(val.term):
            return val
        name = 't%d' % (len(self.lets) + 1)
        self.lets.append((name, val.term))
        if isinstance(val, V):
            r = V(name, val.length, owned=val.cell['owned'], zeros=False)
            return r
        if isinstance(val, IX):
            return IX(name, val.length)
        if isinstance(val, PairCI):
            return PairCI(name)
        raise Unsupported('internal: let of %s' % type(val).__name__)

    def use(self, fn):
        self.used.add(fn)
        return fn

    # ------------------------------------------------------------ expressions
    def expr(self, e, fr):
        env = fr['env']
        if isinstance(e, ast.Constant):
            return lit(e)
        if isinstance(e, ast.Name):
            if e.id in env:
                v = env[e.id]
                if isinstance(v, V) and v.zeros:
                    fail(e, 'use of %s between np.zeros_like and np.put' % e.id)
                return v
            fail(e, 'unknown name %s' % e.id)
        if isinstance(e, ast.UnaryOp):
            if not isinstance(e.op, ast.USub):
                fail(e, 'unary operator')
            x = self.expr(e.operand, fr)
            if isinstance(x, S):
                return S('- %s' % par(x.term))
            if isinstance(x, V):
                return V('vopp %s' % par(x.term), x.length, owned=True)
            fail(e, 'unary minus of a %s' % type(x).__name__)
        if isinstance(e, ast.BinOp):
            return self.binop(e, fr)
        if isinstance(e, ast.Compare):
            return self.compare(e, fr)
        if isinstance(e, ast.Subscript):
            return self.subscript(e, fr)
        if isinstance(e, ast.Call):
            return self.call(e, fr)
        fail(e, 'expression %s' % type(e).__name__)

    def nat(self, e, fr):
        """index-valued scalar: int literal | len(Y) | len(Y) - 1 (len(Y) >= 1 known)"""
        if int_lit(e):
            return N('%d' % e.value)
        if isinstance(e, ast.BinOp) and isinstance(e.op, ast.Sub) and int_lit(e.right, 1) and e.right.value == 1:
            y = self.len_arg(e.left, fr)
            if y is None:
                fail(e, 'index expression')
            if y.length is None or y.length[1] < 1:
                fail(e, 'len(..) - 1 where len(..) >= 1 is not known')
            return N('length %s - 1' % par(y.term))
        y = self.len_arg(e, fr)
        if y is not None:
            return N('length %s' % par(y.term))
        fail(e, 'index expression other than an int literal, len(v), len(v) - 1')

    def len_arg(self, e, fr):
        if (isinstance(e, ast.Call) and isinstance(e.func, ast.Name) and e.func.id == 'len' and 'len' not in fr['env']
                and len(e.args) == 1 and not e.keywords):
            y = self.expr(e.args[0], fr)
            if not isinstance(y, (V, IX)):
                fail(e, 'len of a %s' % type(y).__name__)
            return y
        return None

    def binop(self, e, fr):
        if isinstance(e.op, ast.Pow):
            x, y = self.expr(e.left, fr), self.expr(e.right, fr)
            if not isinstance(y, S):
                fail(e, 'exponent that is not a scalar')
            if isinstance(x, S):
                return S('%s %s %s' % (self.use('pow'), par(x.term), par(y.term)))
            if isinstance(x, V):
                return V('map (fun %s => %s %s %s) %s' % (X, self.use('pow'), X, par(y.term), par(x.term)), x.length, owned=True)
            fail(e, 'power of a %s' % type(x).__name__)
        ops = {ast.Add: ('+', 'vadd'), ast.Sub: ('-', 'vsub'), ast.Mult: ('*', 'vmul'), ast.Div: ('/', None)}
        for k, (sym, vname) in ops.items():
            if isinstance(e.op, k):
                break
        else:
            fail(e, 'binary operator %s' % type(e.op).__name__)
        x, y = self.expr(e.left, fr), self.expr(e.right, fr)
        if isinstance(x, S) and isinstance(y, V) and sym == '/':
            return V('map (fun %s => %s / %s) %s' % (X, par(x.term), X, par(y.term)), y.length, owned=True)
        if isinstance(x, V) and isinstance(y, V):
            if vname is None:
                fail(e, 'vector / vector')
            ln = x.length if x.length == y.length else None
            return V('%s %s %s' % (vname, par(x.term), par(y.term)), ln, owned=True)
        if not all(isinstance(t, (S, V)) for t in (x, y)):
            fail(e, 'operands of %s' % sym)
        return dur.DCtx.arith(self, e, sym, vname, x, y)

    def subscript(self, e, fr):
        x = self.expr(e.value, fr)
        sl = e.slice
        if isinstance(sl, ast.Index):      # python < 3.9
            sl = sl.value
        if not isinstance(x, V):
            fail(e, 'subscript of a %s' % type(x).__name__)
        if isinstance(sl, ast.Tuple):
            a = sl.elts
            if (len(a) == 2 and isinstance(a[0], ast.Slice) and a[0].lower is None and a[0].upper is None and a[0].step is None
                    and dotted(a[1]) == 'np.newaxis'):
                self.need_np(e, 'np.newaxis')
                return x                   # the column reading
            fail(e, 'subscript other than [:, np.newaxis]')
        if int_lit(sl):
            return S('nth %d %s n0' % (sl.value, par(x.term)))
        if minus_one(sl):
            if x.length is None or x.length[1] < 1:
                fail(e, 'v[-1] where len(v) >= 1 is not known')
            return S('last %s n0' % par(x.term))
        fail(e, 'subscript other than [k], [-1], [:, np.newaxis]')

    def call(self, e, fr):
        f = e.func
        d = dotted(f)
        env = fr['env']
        if d is None:
            fail(e, 'call of a computed function')
        args, kws = e.args, {k.arg: k.value for k in e.keywords}
        if any(isinstance(a, ast.Starred) for a in args) or None in kws:
            fail(e, 'star arguments')
        if d.split('.')[0] in env and not (isinstance(f, ast.Name) and isinstance(env[f.id], Interp)):
            fail(e, 'call through the local name %s' % d.split('.')[0])
        if isinstance(f, ast.Name) and isinstance(env.get(f.id), Interp):
            it = env[f.id]
            a = args[0] if len(args) == 1 and not kws else None
            if not (isinstance(a, ast.Call) and dotted(a.func) == 'np.arange' and len(a.args) == 1 and not a.keywords):
                fail(e, 'the interp1d object applied to something other than np.arange(len(v))')
            self.need_np(a, 'np.arange')
            w = self.len_arg(a.args[0], fr)
            if w is None:
                fail(e, 'np.arange of something other than len(v)')
            return V('map (interp_previous %s %s) (seq 0 (length %s))' % (par(it.xk.term), par(it.yk.term), par(w.term)), w.length, owned=True)
        if d.startswith('np.'):
            self.need_np(e, d)
        if d in ('abs', 'np.abs'):
            if d == 'abs' and 'abs' in env:
                fail(e, 'abs is a local name')
            if len(args) != 1 or kws:
                fail(e, 'abs arguments')
            x = self.expr(args[0], fr)
            if isinstance(x, S):
                return S('nabs %s' % par(x.term))
            if isinstance(x, V):
                return V('vabs %s' % par(x.term), x.length, owned=True)
            fail(e, 'abs of a %s' % type(x).__name__)
        if d in ('np.max', 'np.sqrt', 'np.sign', 'np.diff', 'np.array'):
            if len(args) != 1 or kws:
                fail(e, '%s arguments' % d)
            x = self.expr(args[0], fr)
            if d == 'np.sign':
                if not isinstance(x, S):
                    fail(e, 'np.sign of a non-scalar')
                return S('nsign %s' % par(x.term))
            if not isinstance(x, V):
                fail(e, '%s of a %s' % (d, type(x).__name__))
            if d == 'np.max':
                return S('amax %s' % par(x.term))
            if d == 'np.sqrt':
                return V('map %s %s' % (self.use('sq'), par(x.term)), x.length, owned=True)
            if d == 'np.diff':
                return V('diff %s' % par(x.term), ln_add(x.length, -1) if x.length and x.length[1] >= 1 else None, owned=True)
            return V(x.term, x.length, owned=True)                       # np.array(v): a fresh copy
        if d == 'np.cumsum':
            axis0(kws, e)
            if len(args) != 1:
                fail(e, 'np.cumsum arguments')
            x = self.expr(args[0], fr)
            if not isinstance(x, V):
                fail(e, 'np.cumsum of a %s' % type(x).__name__)
            return V('cumsum %s' % par(x.term), x.length, owned=True)
        if d == 'np.take':
            if len(args) != 2 or kws:
                fail(e, 'np.take arguments')
            x, i = self.expr(args[0], fr), self.expr(args[1], fr)
            if not (isinstance(x, V) and isinstance(i, IX)):
                fail(e, 'np.take operands')
            return V('take n0 %s %s' % (par(x.term), par(i.term)), i.length, owned=True)
        if d == 'np.insert':
            axis0(kws, e)
            if len(args) != 3:
                fail(e, 'np.insert arguments')
            x = self.expr(args[0], fr)
            pos = self.nat(args[1], fr)
            if isinstance(x, V):
                v = self.expr(args[2], fr)
                if not isinstance(v, S):
                    fail(e, 'np.insert of a non-scalar into a float array')
                return V('np_insert %s %s %s' % (par(x.term), par(pos.term), par(v.term)), ln_add(x.length, 1), owned=True)
            if isinstance(x, IX):
                v = self.nat(args[2], fr)
                return IX('np_insert %s %s %s' % (par(x.term), par(pos.term), par(v.term)), ln_add(x.length, 1))
            fail(e, 'np.insert into a %s' % type(x).__name__)
        if d == 'np.where':
            return self.where(e, args, kws, fr)
        if d == SP_CALL:
            if not self.m.sp_ok or not self.tol_default_ok:
                fail(e, '%s is not the function of %s with tol=0.0 as default' % (SP_CALL, PC))
            if len(args) != 1 or kws:
                fail(e, 'get_switched_peak_array_indices arguments (tol must be left at its default)')
            x = self.expr(args[0], fr)
            if not isinstance(x, V):
                fail(e, 'switched peaks of a %s' % type(x).__name__)
            t = 'switched_peaks n0 %s' % par(x.term)
            return IX(t, (t, 0))
        if d == 'interp1d':
            if not fr.get('interp_local'):
                fail(e, 'interp1d is not imported from scipy.interpolate in this function')
            if len(args) != 2 or set(kws) != {'kind', 'axis'}:
                fail(e, "interp1d must be called as (x, y, kind='previous', axis=0)")
            if not (isinstance(kws['kind'], ast.Constant) and kws['kind'].value == 'previous'):
                fail(e, "interp1d kind other than 'previous'")
            axis0(kws, e, allowed=('axis', 'kind'))
            xk, yk = self.expr(args[0], fr), self.expr(args[1], fr)
            if not (isinstance(xk, IX) and isinstance(yk, V)):
                fail(e, 'interp1d operands')
            return Interp(xk, yk)
        if isinstance(f, ast.Name) and f.id in (CLEAN, CPK) and self.m.path == PC and self.m.funcs.get(f.id) is not None:
            if len(args) != 1 or kws:
                fail(e, '%s arguments' % f.id)
            x = self.expr(args[0], fr)
            if not isinstance(x, V):
                fail(e, '%s of a %s' % (f.id, type(x).__name__))
            x.cell['refs'] += 1            # the callee sees the caller's array
            if f.id == CLEAN:
                return PairCI('%s %s' % (self.use('clean'), par(x.term)))
            t = '%s %s' % (self.use('cpk'), par(x.term))
            return IX(t, (t, 0))
        if isinstance(f, ast.Name) and f.id in self.m.funcs and f.id not in env:
            return self.inline(e, fr)
        fail(e, 'call of %s' % d)

    def where(self, e, args, kws, fr):
        if len(args) != 3 or kws:
            fail(e, 'np.where other than np.where(test, a, b)')
        c = args[0]
        if isinstance(c, ast.Call) and dotted(c.func) == 'np.mod':
            # np.where(np.mod(np.arange(len(v)), m), a, b): a at the positions not divisible by m, b at the others
            ok = (len(c.args) == 2 and not c.keywords and int_lit(c.args[1], 2) and isinstance(c.args[0], ast.Call)
                  and dotted(c.args[0].func) == 'np.arange' and len(c.args[0].args) == 1 and not c.args[0].keywords)
            w = self.len_arg(c.args[0].args[0], fr) if ok else None
            if w is None:
                fail(e, 'np.mod other than np.mod(np.arange(len(v)), m)')
            a, b = self.expr(args[1], fr), self.expr(args[2], fr)
            if not (isinstance(a, S) and isinstance(b, S)):
                fail(e, 'parity np.where with non-scalar branches')
            return V('map (fun k => if Nat.eqb (Nat.modulo k %d) 0 then %s else %s) (seq 0 (length %s))'
                     % (c.args[1].value, b.term, a.term, par(w.term)), w.length, owned=True)
        t = self.expr(c, fr)
        if not isinstance(t, BV):
            fail(e, 'np.where of something other than an element-wise test')
        brs = []
        for a in args[1:]:
            v = self.expr(a, fr)
            if isinstance(v, S):
                brs.append('map (fun _ => %s) %s' % (v.term, par(t.vec)))
            elif isinstance(v, V):
                brs.append(v.term)
            else:
                fail(e, 'np.where branch of kind %s' % type(v).__name__)
        return V('np_where (map (fun %s => %s) %s) %s %s' % (X, t.body, par(t.vec), par(brs[0]), par(brs[1])), t.length, owned=True)

    def inline(self, e, fr):
        if fr.get('depth', 0) >= 2:
            fail(e, 'call nesting too deep')
        fn = self.m.func(e.func.id, e)
        if fn.args.defaults:
            fail(e, 'inlined function with default arguments')
        names = [a.arg for a in fn.args.args]
        bound = {}
        if len(e.args) > len(names):
            fail(e, 'too many arguments')
        for n, a in zip(names, e.args):
            bound[n] = self.expr(a, fr)
        for k in e.keywords:
            if k.arg not in names or k.arg in bound:
                fail(e, 'keyword argument %s' % k.arg)
            bound[k.arg] = self.expr(k.value, fr)
        if set(bound) != set(names):
            fail(e, 'missing arguments')
        env = {}
        for n, v in bound.items():
            if n in base.RESERVED or not isinstance(v, (S, V)):
                fail(fn, 'parameter %s' % n)
            if isinstance(v, V):
                v.cell['refs'] += 1        # the callee sees the caller's array: never modifiable there
            env[n] = v
        return self.body(list(fn.body), {'env': env, 'depth': fr.get('depth', 0) + 1})

    # ------------------------------------------------------------ statements
    def assign(self, fr, name, val, node, nolet=False):
        if isinstance(val, (V, IX)) and not nolet:
            val = self.let(val)
        if not isinstance(val, (S, V, IX, Interp)):
            fail(node, 'assignment of a %s' % type(val).__name__)
        if name in base.RESERVED or name in ('hasattr', 'len', 'interp1d', 'eqsig'):
            fail(node, 'assignment to %s' % name)
        old = fr['env'].get(name)
        if isinstance(old, V):
            old.cell['refs'] -= 1
        if isinstance(val, V):
            val.cell['refs'] += 1
        fr['env'][name] = val

    def body(self, stmts, fr):
        """straight-line code -> the returned value"""
        stmts = list(stmts)
        env = fr['env']
        while stmts:
            s = stmts.pop(0)
            if isinstance(s, ast.Expr):
                v = s.value
                if isinstance(v, ast.Constant) and isinstance(v.value, str):
                    continue                                             # docstring
                if isinstance(v, ast.Call) and dotted(v.func) == 'np.put' and 'np' not in env:
                    self.need_np(v, 'np.put')
                    if len(v.args) != 3 or v.keywords or not isinstance(v.args[0], ast.Name):
                        fail(s, 'np.put arguments')
                    z = env.get(v.args[0].id)
                    if not (isinstance(z, V) and z.zeros and self.exclusive(z)):
                        fail(s, 'np.put on something other than the untouched, unaliased np.zeros_like array')
                    i, w = self.expr(v.args[1], fr), self.expr(v.args[2], fr)
                    if not (isinstance(i, IX) and isinstance(w, V)):
                        fail(s, 'np.put operands')
                    nv = V('scatter 0 (length %s) %s %s' % (par(z.term), par(i.term), par(w.term)), z.length, owned=True)
                    self.assign(fr, v.args[0].id, nv, s)
                    continue
                fail(s, 'expression statement')
            if isinstance(s, ast.ImportFrom):
                if (s.module == 'scipy.interpolate' and not s.level and len(s.names) == 1 and s.names[0].name == 'interp1d'
                        and s.names[0].asname is None and 'interp1d' not in env):
                    fr['interp_local'] = True
                    continue
                fail(s, 'import other than `from scipy.interpolate import interp1d`')
            if isinstance(s, ast.Assert):
                t = s.test
                if (s.msg is None and isinstance(t, ast.Compare) and len(t.ops) == 1 and isinstance(t.ops[0], ast.Eq)
                        and self.len_arg(t.left, fr) is not None and self.len_arg(t.comparators[0], fr) is not None):
                    continue                                             # an exception path: not translated
                fail(s, 'assert other than `assert len(a) == len(b)`')
            if isinstance(s, ast.Assign):
                if len(s.targets) != 1:
                    fail(s, 'multiple assignment')
                t = s.targets[0]
                if isinstance(t, ast.Name):
                    v = s.value
                    if isinstance(v, ast.Call) and dotted(v.func) == 'np.zeros_like' and 'np' not in env:
                        self.need_np(v, 'np.zeros_like')
                        if len(v.args) != 1 or v.keywords:
                            fail(s, 'np.zeros_like arguments')
                        x = self.expr(v.args[0], fr)
                        if not isinstance(x, V):
                            fail(s, 'np.zeros_like of a %s' % type(x).__name__)
                        z = V(x.term, x.length, owned=True, zeros=True)   # term = the array whose shape it takes
                        self.assign(fr, t.id, z, s, nolet=True)
                        continue
                    self.assign(fr, t.id, self.expr(v, fr), s)
                    continue
                if (isinstance(t, ast.Tuple) and len(t.elts) == 2 and all(isinstance(n, ast.Name) for n in t.elts)
                        and t.elts[0].id != t.elts[1].id):
                    p = self.expr(s.value, fr)
                    if not isinstance(p, PairCI):
                        fail(s, 'tuple assignment from something other than clean_out_non_changing(..)')
                    p = self.let(p)
                    idx = IX('snd %s' % p.term, ('snd %s' % p.term, 0))
                    self.assign(fr, t.elts[0].id, V('fst %s' % p.term, idx.length, owned=True), s)
                    self.assign(fr, t.elts[1].id, idx, s)
                    continue
                fail(s, 'assignment target')
            if isinstance(s, ast.AugAssign):
                if not isinstance(s.target, ast.Name) or not isinstance(s.op, (ast.Sub, ast.Mult)):
                    fail(s, 'augmented assignment other than `name -= s` / `name *= s`')
                x = env.get(s.target.id)
                y = self.expr(s.value, fr)
                if not (self.exclusive(x) and not x.zeros):
                    fail(s, 'in-place update of an array that is a parameter, a view or aliased')
                if not isinstance(y, S):
                    fail(s, 'in-place update by a non-scalar')
                sym = '-' if isinstance(s.op, ast.Sub) else '*'
                nv = V('map (fun %s => %s %s %s) %s' % (X, X, sym, par(y.term), par(x.term)), x.length, owned=True)
                self.assign(fr, s.target.id, nv, s)
                continue
            if isinstance(s, ast.If):
                # if not hasattr(b, '__len__'): return np.reshape(X, len(v))      return X
                t = s.test
                ok = (isinstance(t, ast.UnaryOp) and isinstance(t.op, ast.Not) and isinstance(t.operand, ast.Call)
                      and dotted(t.operand.func) == 'hasattr' and 'hasattr' not in env and self.m.hasattr_ok
                      and len(t.operand.args) == 2 and not t.operand.keywords
                      and isinstance(t.operand.args[0], ast.Name) and isinstance(env.get(t.operand.args[0].id), S)
                      and isinstance(t.operand.args[1], ast.Constant) and t.operand.args[1].value == '__len__'
                      and not s.orelse and len(s.body) == 1 and isinstance(s.body[0], ast.Return)
                      and len(stmts) == 1 and isinstance(stmts[0], ast.Return) and isinstance(stmts[0].value, ast.Name))
                if ok:
                    r = s.body[0].value
                    ok = (isinstance(r, ast.Call) and dotted(r.func) == 'np.reshape' and 'np' not in env and len(r.args) == 2
                          and not r.keywords and isinstance(r.args[0], ast.Name) and r.args[0].id == stmts[0].value.id)
                if not ok:
                    fail(s, "`if` other than `if not hasattr(b, '__len__'): return np.reshape(X, len(v))` followed by `return X`")
                self.need_np(r, 'np.reshape')
                xv = self.expr(r.args[0], fr)
                w = self.len_arg(r.args[1], fr)
                if not (isinstance(xv, V) and w is not None and xv.length is not None and xv.length == w.length):
                    fail(s, 'np.reshape to a length that is not syntactically the length of the array')
                return xv
            if isinstance(s, ast.Return):
                if s.value is None:
                    fail(s, 'bare return')
                v = self.expr(s.value, fr)
                if not isinstance(v, V):
                    fail(s, 'returned value is not a float array')
                return v
            fail(s, 'statement %s' % type(s).__name__)
        raise Unsupported('control reaches the end of a function without a return')


# ---------------------------------------------------------------- module-level checks
def bound_at_module_level(module, name):
    return not builtin_untouched(module, name)


def check_module(module, path, pc_module):
    """what the call whitelist assumes about module-level names"""
    module.path = path
    module.hasattr_ok = builtin_untouched(module, 'hasattr') and builtin_untouched(module, 'len')
    if not module.hasattr_ok:
        raise Unsupported('%s binds hasattr / len' % path)
    for n in ('interp1d',):
        if bound_at_module_level(module, n):
            raise Unsupported('%s binds %s at module level' % (path, n))
    # `import eqsig.fns.peaks_and_crossings` and nothing else binding `eqsig`
    sp = False
    for st in module.tree.body:
        if isinstance(st, ast.Import):
            for al in st.names:
                if (al.asname or al.name.split('.')[0]) == 'eqsig':
                    if al.asname is not None:
                        raise Unsupported('%s: eqsig is bound to %s' % (path, al.name))
                    sp = sp or al.name == 'eqsig.fns.peaks_and_crossings'
        elif isinstance(st, ast.ImportFrom):
            if any((al.asname or al.name) == 'eqsig' or al.name == '*' for al in st.names):
                raise Unsupported('%s: eqsig is bound by a from-import' % path)
        elif isinstance(st, (ast.FunctionDef, ast.ClassDef)):
            if st.name == 'eqsig':
                raise Unsupported('%s defines eqsig' % path)
        else:
            for n in ast.walk(st):
                if isinstance(n, ast.Name) and isinstance(n.ctx, (ast.Store, ast.Del)) and n.id == 'eqsig':
                    raise Unsupported('%s assigns eqsig' % path)
    module.sp_ok = sp


def tol_default_is_zero(pc_module):
    fn = pc_module.funcs.get('get_switched_peak_array_indices')
    if fn is None or fn.decorator_list:
        return False
    a = fn.args
    if a.vararg or a.kwarg or a.kwonlyargs or getattr(a, 'posonlyargs', []):
        return False
    return ([x.arg for x in a.args] == ['values', 'tol'] and len(a.defaults) == 1 and isinstance(a.defaults[0], ast.Constant)
            and type(a.defaults[0].value) in (int, float) and a.defaults[0].value == 0)


def translate_function(module, spec, tol_ok):
    fn = module.func(spec['func'])
    names = [a.arg for a in fn.args.args]
    if names != [n for n, _ in spec['params']]:
        raise Unsupported('%s: parameters are %r, expected %r' % (spec['func'], names, [n for n, _ in spec['params']]))
    ctx = C13Ctx(module, spec, tol_ok)
    env = {}
    for n, k in spec['params']:
        if n in base.RESERVED or n in RESERVED_COQ or (n[0] == 't' and n[1:].isdigit()) or n in ('hasattr', 'interp1d', 'eqsig'):
            raise Unsupported('parameter named %s' % n)
        env[n] = S(n) if k == 'S' else V(n, length=(n, 0))
    res = ctx.body(list(fn.body), {'env': env, 'depth': 0})
    lines = ['  let %s := %s in' % (n, t) for n, t in ctx.lets] + ['  %s.' % res.term]
    binders = [(n, ty) for n, ty in FUNPARAMS if n in ctx.used] + [(n, COQ_TYPES[k]) for n, k in spec['params']]
    sig = ' '.join('(%s : %s)' % b for b in binders)
    consts = []
    defaults = dict(zip(names[len(names) - len(fn.args.defaults):], fn.args.defaults))
    for n, dflt in defaults.items():
        if dict(spec['params'])[n] != 'S' or not isinstance(dflt, ast.Constant):
            fail(dflt, 'default of %s' % n)
        consts.append('Definition %s_default_%s : T := %s.\n' % (spec['gen'], n, lit(dflt).term))
    pysig = ast.unparse(fn.args) if hasattr(ast, 'unparse') else ', '.join(names)
    return '(** %s: %s(%s) *)\nDefinition %s %s : list T :=\n%s\n%s' % (
        spec['file'], spec['func'], pysig, spec['gen'], sig, '\n'.join(lines), ''.join(consts))


HEADER = '''(** GENERATED by translator/py2coq_c13.py from eqsig/im.py and eqsig/fns/peaks_and_crossings.py -- do not edit; rewritten on
    every run.  One definition per source function, generic over [NumOps T].  Every array-valued assignment is a [let] named by
    its position in evaluation order; scalar assignments are substituted.
    Readings (the whitelist is in the translator's docstring): pow = the real power `**`, sq = np.sqrt, both parameters;
    [switched_peaks n0 v] = get_switched_peak_array_indices(v) (tol left at its default 0.0), [scatter 0 (length v) i w] =
    np.zeros_like(v) followed by np.put(., i, w), [np_insert], [interp_previous] = interp1d(kind='previous'): references to
    model/M_peaks.v and model/M_cycles.v;  clean = clean_out_non_changing, cpk = determine_indices_of_peaks_for_cleaned_array:
    parameters;  `v[:, np.newaxis]` is read as v (one exponent b), `assert len(a) == len(b)` is not translated.
    proofs/P_gen_c13.v proves every definition equal to the model of model/M_cycles.v. *)
From Coq Require Import ZArith List Bool.
From EQ Require Import lib.Num lib.NpList model.M_peaks model.M_cycles.
Import ListNotations.
Local Open Scope num_scope.

(** np.where(c, a, b) on arrays of one length *)
Definition np_where {A} (c : list bool) (a b : list A) : list A :=
  map2 (fun (t : bool) (p : A * A) => if t then fst p else snd p) c (combine a b).

Section Generic.
Context {T : Type} `{NumOps T}.
'''


def translate_sources(read):
    """read(relative path) -> source text"""
    mods = {}
    for path in (IM, PC):
        mods[path] = base.Module(path, read(path))
    for path in (IM, PC):
        check_module(mods[path], path, mods[PC])
    tol_ok = tol_default_is_zero(mods[PC])
    defs = []
    for spec in SPECS:
        try:
            defs.append(translate_function(mods[spec['file']], spec, tol_ok))
        except Unsupported as e:
            raise Unsupported('%s:%s: %s' % (spec['file'], spec['func'], e))
    return HEADER + '\n' + '\n'.join(defs) + 'End Generic.\n'


def regenerate(repo=None, out=None):
    """returns True iff the file was rewritten; raises Unsupported / OSError / SyntaxError (fail closed).
    On failure the committed copy is left as it is: the caller reports the broken tie."""
    repo = repo or os.environ.get('EQSIG_REPO', '/repo')
    out = out or OUT
    text = translate_sources(lambda rel: open(os.path.join(repo, rel)).read())
    old = open(out).read() if os.path.exists(out) else None
    if old != text:
        os.makedirs(os.path.dirname(out), exist_ok=True)
        with open(out, 'w') as f:
            f.write(text)
        return True
    return False


def main():
    try:
        ch = regenerate(repo=sys.argv[1] if len(sys.argv) > 1 else None)
    except Exception as e:  # fail closed
        print('py2coq_c13: translation FAILED: %s: %s' % (type(e).__name__, e))
        return 1
    print('py2coq_c13: %s %s' % (os.path.relpath(OUT, VERIF), 'rewritten' if ch else 'unchanged'))
    return 0


if __name__ == '__main__':
    sys.exit(main())
